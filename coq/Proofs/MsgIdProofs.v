From Coq Require Import Permutation.
From Soy Require Import Model.Bytes Model.Outcome Generated.Tables Model.MsgId Spec.Msg.
(* scopes *) Open Scope N_scope.

(* ================================================================== *)
(* A. byte strings                                                    *)
(* ================================================================== *)

Lemma bstr_eqb_eq x y : bstr_eqb x y = true <-> x = y.
Proof.
  revert y; induction x as [|a x IH]; intros [|c y]; cbn [bstr_eqb]; try (split; congruence).
  rewrite andb_true_iff, N.eqb_eq, IH. split; [intros [-> ->]; reflexivity | intros [= -> ->]; auto].
Qed.

Lemma bstr_eqb_refl x : bstr_eqb x x = true.
Proof. apply bstr_eqb_eq; reflexivity. Qed.

Lemma bstr_eqb_neq x y : bstr_eqb x y = false <-> x <> y.
Proof.
  split; intros H.
  - intros ->. rewrite bstr_eqb_refl in H; discriminate.
  - destruct (bstr_eqb x y) eqn:E; [apply bstr_eqb_eq in E; contradiction | reflexivity].
Qed.

Lemma bstr_eqb_sym x y : bstr_eqb x y = bstr_eqb y x.
Proof.
  destruct (bstr_eqb x y) eqn:E.
  - apply bstr_eqb_eq in E; subst. symmetry; apply bstr_eqb_refl.
  - symmetry. apply bstr_eqb_neq. apply bstr_eqb_neq in E. congruence.
Qed.

Lemma bstr_eq_dec (x y : bstr) : {x = y} + {x <> y}.
Proof. apply list_eq_dec, N.eq_dec. Qed.

Lemma mem_s_In s l : mem_s s l = true <-> In s l.
Proof.
  unfold mem_s. rewrite existsb_exists. split.
  - intros [x [Hx He]]. apply bstr_eqb_eq in He; subst; exact Hx.
  - intros H; exists s; split; [exact H | apply bstr_eqb_refl].
Qed.

Lemma mem_s_not_In s l : mem_s s l = false <-> ~ In s l.
Proof.
  rewrite <- mem_s_In. destruct (mem_s s l); split; congruence.
Qed.

(* ================================================================== *)
(* B. decimal numerals and suffixed names                             *)
(* ================================================================== *)

(* digits, least significant first *)
Fixpoint lsd (fuel : nat) (n : N) : bstr :=
  match fuel with
  | O => []
  | S f => (48 + n mod 10) :: if n / 10 =? 0 then [] else lsd f (n / 10)
  end.

Lemma dec_digits_lsd fuel n acc : dec_digits fuel n acc = rev (lsd fuel n) ++ acc.
Proof.
  revert n acc; induction fuel as [|f IH]; intros n acc; cbn [dec_digits lsd]; [reflexivity|].
  destruct (n / 10 =? 0).
  - reflexivity.
  - rewrite IH. cbn [rev]. rewrite <- app_assoc. reflexivity.
Qed.

Fixpoint lval (l : bstr) : N :=
  match l with
  | [] => 0
  | c :: r => (c - 48) + 10 * lval r
  end.

Lemma lval_lsd fuel n : n < 2 ^ N.of_nat fuel -> lval (lsd fuel n) = n.
Proof.
  revert n; induction fuel as [|f IH]; intros n Hn.
  - cbn in Hn. cbn [lsd lval]. lia.
  - cbn [lsd lval].
    rewrite Nat2N.inj_succ, N.pow_succ_r' in Hn.
    pose proof (N.div_mod' n 10) as Hdm.
    pose proof (N.mod_lt n 10 ltac:(discriminate)) as Hm.
    destruct (N.eqb_spec (n / 10) 0) as [Hz|Hnz].
    + cbn [lval]. rewrite Hz in Hdm. clear Hz Hn IH.
      generalize dependent (n mod 10). intros; lia.
    + rewrite IH.
      * clear Hnz Hn IH. generalize dependent (n / 10). generalize dependent (n mod 10). intros; lia.
      * apply N.div_lt_upper_bound; [discriminate|].
        clear Hdm Hm Hnz IH. generalize dependent (2 ^ N.of_nat f). intros; lia.
Qed.

Lemma dec_of_N_lsd n : dec_of_N n = rev (lsd (S (N.to_nat (N.log2 n))) n).
Proof. unfold dec_of_N. rewrite dec_digits_lsd, app_nil_r. reflexivity. Qed.

Lemma lt_pow2_log2 n : n < 2 ^ N.of_nat (S (N.to_nat (N.log2 n))).
Proof.
  rewrite Nat2N.inj_succ, N2Nat.id.
  destruct (N.eq_dec n 0) as [->|Hn]; [reflexivity|].
  apply N.log2_spec. lia.
Qed.

Lemma dec_of_N_inj n m : dec_of_N n = dec_of_N m -> n = m.
Proof.
  rewrite !dec_of_N_lsd. intros H.
  apply (f_equal (@rev N)) in H. rewrite !rev_involutive in H.
  apply (f_equal lval) in H.
  rewrite !lval_lsd in H by apply lt_pow2_log2. exact H.
Qed.

Definition is_digit_byte (c : N) : Prop := 48 <= c /\ c <= 57.

Lemma lsd_digits fuel n : Forall is_digit_byte (lsd fuel n).
Proof.
  revert n; induction fuel as [|f IH]; intros n; cbn [lsd]; [constructor|].
  constructor.
  - pose proof (N.mod_lt n 10 ltac:(discriminate)). unfold is_digit_byte.
    generalize dependent (n mod 10). intros; lia.
  - destruct (n / 10 =? 0); [constructor | apply IH].
Qed.

Lemma dec_of_N_digits n : Forall is_digit_byte (dec_of_N n).
Proof. rewrite dec_of_N_lsd. apply Forall_rev, lsd_digits. Qed.

Lemma dec_of_N_nonempty n : dec_of_N n <> [].
Proof.
  rewrite dec_of_N_lsd. cbn [lsd rev]. intros H. apply app_eq_nil in H. destruct H; discriminate.
Qed.

Lemma digits_not_in c l : Forall is_digit_byte l -> ~ is_digit_byte c -> ~ In c l.
Proof. intros Hl Hc Hin. rewrite Forall_forall in Hl. apply Hc, Hl, Hin. Qed.

Lemma dec_no_us n : ~ In 95 (dec_of_N n).
Proof. apply (digits_not_in 95 _ (dec_of_N_digits n)). unfold is_digit_byte; lia. Qed.

(* a separator that occurs in neither tail splits uniquely *)
Lemma split_at_last (sep : N) l1 l2 r1 r2 :
  ~ In sep r1 -> ~ In sep r2 -> l1 ++ sep :: r1 = l2 ++ sep :: r2 -> l1 = l2 /\ r1 = r2.
Proof.
  intros H1 H2. revert l2; induction l1 as [|a l1 IH]; intros [|c l2] H; cbn in H.
  - injection H as ->. auto.
  - injection H as <- ->. exfalso. apply H1. apply in_or_app. right. left. reflexivity.
  - injection H as -> <-. exfalso. apply H2. apply in_or_app. right. left. reflexivity.
  - injection H as -> H. destruct (IH _ H) as [-> ->]. auto.
Qed.

(* a separator that occurs in neither head splits uniquely *)
Lemma split_at_first (P : N -> Prop) l1 l2 c1 c2 r1 r2 :
  Forall (fun x => ~ P x) l1 -> Forall (fun x => ~ P x) l2 -> P c1 -> P c2 ->
  l1 ++ c1 :: r1 = l2 ++ c2 :: r2 -> l1 = l2 /\ c1 = c2 /\ r1 = r2.
Proof.
  intros H1 H2 Hc1 Hc2. revert l2 H2; induction l1 as [|a l1 IH]; intros [|c l2] H2 H; cbn in H.
  - injection H as -> ->. auto.
  - injection H as -> _. inversion H2; subst. contradiction.
  - injection H as -> _. inversion H1; subst. contradiction.
  - injection H as -> H.
    pose proof (Forall_inv_tail H1) as T1. pose proof (Forall_inv_tail H2) as T2.
    destruct (IH T1 _ T2 H) as (-> & -> & ->). auto.
Qed.

Lemma sfx_name_inj b1 n1 b2 n2 : sfx_name b1 n1 = sfx_name b2 n2 -> b1 = b2 /\ n1 = n2.
Proof.
  unfold sfx_name. intros H.
  apply split_at_last in H; [|apply dec_no_us|apply dec_no_us].
  destruct H as [-> H]. split; [reflexivity | apply dec_of_N_inj, H].
Qed.

Lemma sfx_name_suffixed b n : sfx_name b n = suffixed b n.
Proof. reflexivity. Qed.

(* ================================================================== *)
(* C. the id is below 2^63                                            *)
(* ================================================================== *)

(* re-checked whenever the mask in calcID changes *)
Lemma calc_id_mask_ones : calc_id_mask = N.ones 63.
Proof. vm_compute. reflexivity. Qed.

Theorem id_lt_2_63 fpstr meaning : calc_id fpstr meaning < 9223372036854775808.
Proof.
  change 9223372036854775808 with (2 ^ 63).
  unfold calc_id. cbv zeta. rewrite calc_id_mask_ones, N.land_ones.
  apply N.mod_lt. discriminate.
Qed.

(* ================================================================== *)
(* D. step 1: the table of representatives                            *)
(* ================================================================== *)

Lemma NoDup_app_intro {A} (l1 l2 : list A) :
  NoDup l1 -> NoDup l2 -> (forall x, In x l1 -> ~ In x l2) -> NoDup (l1 ++ l2).
Proof.
  induction l1 as [|a l1 IH]; intros H1 H2 Hd; cbn; [exact H2|].
  inversion H1; subst. constructor.
  - intros Hin. apply in_app_or in Hin. destruct Hin as [Hin|Hin]; [contradiction|].
    apply (Hd a); [left; reflexivity | exact Hin].
  - apply IH; [assumption | assumption | intros x Hx; apply Hd; right; exact Hx].
Qed.

Lemma NoDup_flat_map {A B} (f : A -> list B) (l : list A) :
  NoDup l -> (forall x, In x l -> NoDup (f x)) ->
  (forall x y z, In x l -> In y l -> x <> y -> In z (f x) -> ~ In z (f y)) ->
  NoDup (flat_map f l).
Proof.
  induction l as [|a l IH]; intros Hl Hf Hd; cbn [flat_map]; [constructor|].
  inversion Hl; subst.
  apply NoDup_app_intro.
  - apply Hf; left; reflexivity.
  - apply IH; [assumption | intros x Hx; apply Hf; right; exact Hx |].
    intros x y z Hx Hy; apply Hd; right; assumption.
  - intros z Hz Hin. apply in_flat_map in Hin. destruct Hin as [y [Hy Hzy]].
    apply (Hd a y z); [left; reflexivity | right; exact Hy | | exact Hz | exact Hzy].
    intros ->. contradiction.
Qed.

Lemma map_flat_map {A B C} (g : B -> C) (f : A -> list B) (l : list A) :
  map g (flat_map f l) = flat_map (fun x => map g (f x)) l.
Proof. induction l as [|a l IH]; cbn; [reflexivity|]. rewrite map_app, IH. reflexivity. Qed.

Definition upd_strs (o : option (list bstr)) (s : bstr) : list bstr :=
  match o with
  | Some strs => if mem_s s strs then strs else strs ++ [s]
  | None => [s]
  end.

Lemma assoc_s_add_rep tbl b b' s :
  assoc_s b (add_rep tbl b' s) = if bstr_eqb b b' then Some (upd_strs (assoc_s b tbl) s) else assoc_s b tbl.
Proof.
  induction tbl as [|[k strs] r IH]; cbn [add_rep assoc_s].
  - destruct (bstr_eqb b b'); reflexivity.
  - destruct (bstr_eqb b' k) eqn:E1.
    + apply bstr_eqb_eq in E1; subst k. cbn [assoc_s].
      destruct (bstr_eqb b b') eqn:E2; reflexivity.
    + cbn [assoc_s]. destruct (bstr_eqb b k) eqn:E3.
      * apply bstr_eqb_eq in E3; subst k.
        rewrite bstr_eqb_sym, E1. reflexivity.
      * exact IH.
Qed.

Lemma keys_add_rep tbl b s :
  map fst (add_rep tbl b s) = if mem_s b (map fst tbl) then map fst tbl else map fst tbl ++ [b].
Proof.
  induction tbl as [|[k strs] r IH]; cbn [add_rep map fst mem_s existsb]; [reflexivity|].
  destruct (bstr_eqb b k) eqn:E; cbn [orb map fst]; [reflexivity|].
  rewrite IH. fold (mem_s b (map fst r)). destruct (mem_s b (map fst r)); reflexivity.
Qed.

Definition tbl_step (t : list (bstr * list bstr)) (e : bstr * bstr) := add_rep t (fst e) (snd e).

Lemma rep_table_fold es : rep_table es = fold_left tbl_step es [].
Proof. reflexivity. Qed.

Lemma keys_fold_NoDup es tbl : NoDup (map fst tbl) -> NoDup (map fst (fold_left tbl_step es tbl)).
Proof.
  revert tbl; induction es as [|e es IH]; intros tbl H; cbn [fold_left]; [exact H|].
  apply IH. unfold tbl_step. rewrite keys_add_rep.
  destruct (mem_s (fst e) (map fst tbl)) eqn:E; [exact H|].
  apply NoDup_app_intro; [exact H | constructor; [intros []|constructor] |].
  intros x Hx [<-|[]]. apply mem_s_not_In in E. contradiction.
Qed.

Lemma keys_fold_In es tbl x :
  In x (map fst (fold_left tbl_step es tbl)) <-> In x (map fst tbl) \/ In x (map fst es).
Proof.
  revert tbl; induction es as [|e es IH]; intros tbl; cbn [fold_left map]; [cbn; tauto|].
  rewrite IH. unfold tbl_step. rewrite keys_add_rep.
  destruct (mem_s (fst e) (map fst tbl)) eqn:E.
  - apply mem_s_In in E. cbn [In]. split; [tauto|]. intros [H|[<-|H]]; tauto.
  - rewrite in_app_iff. cbn [In]. tauto.
Qed.

Lemma rep_table_keys_NoDup es : NoDup (map fst (rep_table es)).
Proof. rewrite rep_table_fold. apply keys_fold_NoDup. constructor. Qed.

Lemma rep_table_keys_In es x : In x (map fst (rep_table es)) <-> In x (map fst es).
Proof. rewrite rep_table_fold, keys_fold_In. cbn. tauto. Qed.

Definition sel (b : bstr) (es : list (bstr * bstr)) : list bstr :=
  map snd (filter (fun e => bstr_eqb (fst e) b) es).

Lemma assoc_fold b es tbl :
  assoc_s b (fold_left tbl_step es tbl) =
  match assoc_s b tbl with
  | Some strs => Some (dedup_from strs (sel b es))
  | None => match sel b es with [] => None | _ => Some (dedup_from [] (sel b es)) end
  end.
Proof.
  revert tbl; induction es as [|[b' s'] es IH]; intros tbl; cbn [fold_left].
  - cbn. destruct (assoc_s b tbl); reflexivity.
  - rewrite IH. unfold tbl_step. cbn [fst snd]. rewrite assoc_s_add_rep.
    unfold sel. cbn [filter fst]. rewrite (bstr_eqb_sym b' b).
    destruct (bstr_eqb b b') eqn:E; [|reflexivity].
    cbn [map snd dedup_from]. unfold upd_strs, mem_s.
    destruct (assoc_s b tbl) as [strs|]; reflexivity.
Qed.

Lemma rep_table_assoc b es :
  assoc_s b (rep_table es) = match variants es b with [] => None | v => Some v end.
Proof.
  rewrite rep_table_fold, assoc_fold. cbn [assoc_s]. unfold variants. fold (sel b es).
  destruct (sel b es) as [|s r] eqn:E; [reflexivity|].
  destruct (dedup_from [] (s :: r)) eqn:E2; [|reflexivity].
  exfalso. cbn [dedup_from existsb app] in E2.
  assert (forall l seen, seen <> [] -> dedup_from seen l <> []) as Hne.
  { induction l as [|x l IHl]; intros seen Hs; cbn [dedup_from]; [exact Hs|].
    apply IHl. destruct (existsb (bstr_eqb x) seen); [exact Hs|]. destruct seen; discriminate. }
  apply (Hne r [s]); [discriminate | exact E2].
Qed.

Lemma dedup_from_NoDup l seen : NoDup seen -> NoDup (dedup_from seen l).
Proof.
  revert seen; induction l as [|x l IH]; intros seen H; cbn [dedup_from]; [exact H|].
  apply IH. destruct (existsb (bstr_eqb x) seen) eqn:E; [exact H|].
  apply NoDup_app_intro; [exact H | constructor; [intros []|constructor] |].
  intros y Hy [<-|[]]. fold (mem_s x seen) in E. apply mem_s_not_In in E. contradiction.
Qed.

Lemma variants_NoDup es b : NoDup (variants es b).
Proof. apply dedup_from_NoDup. constructor. Qed.

Lemma assoc_s_In {A} k (v : A) l : assoc_s k l = Some v -> In (k, v) l.
Proof.
  induction l as [|[k' v'] r IH]; cbn [assoc_s]; [discriminate|].
  destruct (bstr_eqb k k') eqn:E.
  - apply bstr_eqb_eq in E; subst. intros [= ->]. left; reflexivity.
  - intros H; right; apply IH, H.
Qed.

Lemma assoc_s_In_keys {A} k (l : list (bstr * A)) : In k (map fst l) -> exists v, assoc_s k l = Some v.
Proof.
  induction l as [|[k' v'] r IH]; cbn [map fst In assoc_s]; [intros []|].
  intros [->|H].
  - rewrite bstr_eqb_refl. eauto.
  - destruct (bstr_eqb k k'); [eauto | apply IH, H].
Qed.

(* ================================================================== *)
(* E. step 2 for one base name                                        *)
(* ================================================================== *)

Section OneBase.
  Variable bases : list bstr.
  Variable base : bstr.

  Definition avail (n : N) : bool := negb (mem_s (sfx_name base n) bases).

  Lemma next_free_total_gen fuel : forall bases' n,
    (forall k, n <= k -> In (sfx_name base k) bases -> In (sfx_name base k) bases') ->
    (length bases' < fuel)%nat -> exists k, next_free fuel bases base n = Ok k.
  Proof.
    induction fuel as [|f IH]; intros bases' n Hsub Hlen; [inversion Hlen|].
    cbn [next_free]. destruct (mem_s (sfx_name base n) bases) eqn:E; [|eauto].
    apply mem_s_In in E.
    assert (In (sfx_name base n) bases') as Hin by (apply Hsub; [lia | exact E]).
    apply (IH (remove bstr_eq_dec (sfx_name base n) bases')).
    - intros k Hk Hkin. apply in_in_remove.
      + intros Heq. apply sfx_name_inj in Heq. destruct Heq as [_ Heq]. lia.
      + apply Hsub; [lia | exact Hkin].
    - pose proof (remove_length_lt bstr_eq_dec bases' (sfx_name base n) Hin). lia.
  Qed.

  (* the stated budget suffices: the loop always finds a name *)
  Lemma next_free_total n : exists k, next_free (S (length bases)) bases base n = Ok k.
  Proof. apply (next_free_total_gen _ bases); [auto | lia]. Qed.

  Lemma next_free_spec fuel : forall n k, next_free fuel bases base n = Ok k ->
    n <= k /\ avail k = true /\ forall i, n <= i -> i < k -> avail i = false.
  Proof.
    induction fuel as [|f IH]; intros n k; cbn [next_free]; [discriminate|].
    destruct (mem_s (sfx_name base n) bases) eqn:E.
    - intros H. apply IH in H. destruct H as (H1 & H2 & H3). repeat split; [lia | exact H2 |].
      intros i Hi Hik. destruct (N.eq_dec i n) as [->|Hne].
      + unfold avail. rewrite E. reflexivity.
      + apply H3; lia.
    - intros [= <-]. repeat split; [lia | unfold avail; rewrite E; reflexivity | intros; lia].
  Qed.

  (* what number_nodes hands out: consecutive available numbers *)
  Fixpoint numbered (n : N) (strs : list bstr) (ws : namemap) : Prop :=
    match strs, ws with
    | [], [] => True
    | s :: r, (name, node) :: ws' =>
        exists k, n <= k /\ (forall i, n <= i -> i < k -> avail i = false) /\ avail k = true /\
                  name = sfx_name base k /\ node = (base, s) /\ numbered (k + 1) r ws'
    | _, _ => False
    end.

  Lemma number_nodes_total strs : forall n, exists ws, number_nodes bases base strs n = Ok ws.
  Proof.
    induction strs as [|s r IH]; intros n; cbn [number_nodes]; [eauto|].
    destruct (next_free_total n) as [k ->]. cbn [bind].
    destruct (IH (k + 1)) as [ws ->]. cbn [bind]. eauto.
  Qed.

  Lemma number_nodes_spec strs : forall n ws, number_nodes bases base strs n = Ok ws -> numbered n strs ws.
  Proof.
    induction strs as [|s r IH]; intros n ws; cbn [number_nodes].
    - intros [= <-]. exact I.
    - destruct (next_free (S (length bases)) bases base n) as [k| | | | |] eqn:E; cbn [bind]; try discriminate.
      destruct (number_nodes bases base r (k + 1)) as [rest| | | | |] eqn:E2; cbn [bind]; try discriminate.
      intros [= <-]. cbn [numbered]. exists k.
      apply next_free_spec in E. destruct E as (H1 & H2 & H3).
      repeat split; try assumption; try reflexivity. apply IH, E2.
  Qed.

  Lemma numbered_nodes n strs ws : numbered n strs ws -> map snd ws = map (pair base) strs.
  Proof.
    revert n ws; induction strs as [|s r IH]; intros n [|[name node] ws]; cbn [numbered]; try tauto.
    intros (k & _ & _ & _ & _ & -> & H). cbn [map snd]. f_equal. eapply IH, H.
  Qed.

  Lemma numbered_names n strs ws : numbered n strs ws ->
    Forall (fun name => exists k, n <= k /\ avail k = true /\ name = sfx_name base k) (map fst ws).
  Proof.
    revert n ws; induction strs as [|s r IH]; intros n [|[name node] ws]; cbn [numbered]; try tauto.
    - intros _. constructor.
    - intros (k & Hk & _ & Ha & -> & _ & H). cbn [map fst]. constructor; [eauto|].
      apply IH in H. eapply Forall_impl; [|exact H].
      cbn. intros a (k' & Hk' & Ha' & ->). exists k'. repeat split; [lia | assumption].
  Qed.

  Lemma numbered_names_NoDup n strs ws : numbered n strs ws -> NoDup (map fst ws).
  Proof.
    revert n ws; induction strs as [|s r IH]; intros n [|[name node] ws]; cbn [numbered]; try tauto.
    - intros _. constructor.
    - intros (k & Hk & _ & Ha & -> & _ & H). cbn [map fst]. constructor; [|eapply IH, H].
      intros Hin. apply numbered_names in H. rewrite Forall_forall in H.
      destruct (H _ Hin) as (k' & Hk' & _ & Heq). apply sfx_name_inj in Heq. lia.
  Qed.

  (* counting available numbers *)
  Definition free_count (n : N) : nat := length (filter avail (below n)).

  Lemma below_succ n : 1 <= n -> below (n + 1) = below n ++ [n].
  Proof.
    intros Hn. unfold below.
    replace (N.to_nat (n + 1) - 1)%nat with (S (N.to_nat n - 1)) by lia.
    rewrite seq_S, map_app. cbn [map]. f_equal. f_equal. lia.
  Qed.

  Lemma free_count_succ n : 1 <= n ->
    free_count (n + 1) = (free_count n + if avail n then 1 else 0)%nat.
  Proof.
    intros Hn. unfold free_count. rewrite (below_succ n Hn), filter_app, app_length. cbn [filter].
    destruct (avail n); reflexivity.
  Qed.

  Lemma free_count_skip n : 1 <= n -> forall (d : nat) k, k = n + N.of_nat d ->
    (forall i, n <= i -> i < k -> avail i = false) -> free_count k = free_count n.
  Proof.
    intros Hn. induction d as [|d IH]; intros k -> Hsk.
    - f_equal. lia.
    - replace (n + N.of_nat (S d)) with ((n + N.of_nat d) + 1) by lia.
      rewrite free_count_succ by lia. rewrite (Hsk (n + N.of_nat d)) by lia.
      rewrite (IH (n + N.of_nat d)); [lia | reflexivity |]. intros i H1 H2. apply Hsk; lia.
  Qed.

  (* the j-th node gets the (c+j)-th available number when c numbers below n are available *)
  Lemma numbered_nth n strs ws : numbered n strs ws -> 1 <= n ->
    forall j s, nth_error strs j = Some s ->
    exists k, In (sfx_name base k, (base, s)) ws /\ 1 <= k /\ avail k = true /\
              free_count k = (free_count n + j)%nat.
  Proof.
    revert n ws; induction strs as [|s0 r IH]; intros n [|[name node] ws]; cbn [numbered]; try tauto.
    - intros _ _ [|j] s; discriminate.
    - intros (k & Hk & Hskip & Ha & -> & -> & H) Hn [|j] s; cbn [nth_error].
      + intros [= <-]. exists k. repeat split; [left; reflexivity | lia | exact Ha |].
        rewrite (free_count_skip n Hn (N.to_nat (k - n)) k); [lia | lia | exact Hskip].
      + intros Hj. destruct (IH _ _ H ltac:(lia) j s Hj) as (k' & Hin & Hk' & Ha' & Hc).
        exists k'. repeat split; [right; exact Hin | exact Hk' | exact Ha' |].
        rewrite Hc, free_count_succ by lia. rewrite Ha.
        rewrite (free_count_skip n Hn (N.to_nat (k - n)) k); [lia | lia | exact Hskip].
  Qed.

  Lemma assign_base_total strs : exists ws, assign_base bases base strs = Ok ws.
  Proof.
    unfold assign_base. destruct strs as [|s [|s' r]]; eauto using number_nodes_total.
  Qed.
End OneBase.

(* ================================================================== *)
(* F. step 2 as a whole; the name map                                 *)
(* ================================================================== *)

Lemma nm_put_fresh nm name node : ~ In name (map fst nm) -> nm_put nm name node = nm ++ [(name, node)].
Proof.
  induction nm as [|[n' v] r IH]; cbn [nm_put map fst In app]; intros H; [reflexivity|].
  destruct (bstr_eqb name n') eqn:E.
  - apply bstr_eqb_eq in E. subst. exfalso; apply H; left; reflexivity.
  - rewrite IH; [reflexivity | intros Hin; apply H; right; exact Hin].
Qed.

Lemma nm_put_all_fresh ws : forall nm, NoDup (map fst (nm ++ ws)) -> nm_put_all nm ws = nm ++ ws.
Proof.
  induction ws as [|[name node] ws IH]; intros nm H; unfold nm_put_all; cbn [fold_left].
  - rewrite app_nil_r. reflexivity.
  - cbn [fst snd]. rewrite nm_put_fresh.
    + fold (nm_put_all (nm ++ [(name, node)]) ws). rewrite IH; rewrite <- app_assoc; [reflexivity | exact H].
    + rewrite map_app in H. cbn [map fst] in H. apply NoDup_remove_2 in H.
      intros Hin. apply H. apply in_or_app. left. exact Hin.
Qed.

Lemma nm_put_all_app nm ws ws' : nm_put_all (nm_put_all nm ws) ws' = nm_put_all nm (ws ++ ws').
Proof. unfold nm_put_all. rewrite fold_left_app. reflexivity. Qed.

Lemma node_eq_dec (x y : bstr * bstr) : {x = y} + {x <> y}.
Proof. decide equality; apply bstr_eq_dec. Qed.

Lemma name_of_In nm name b s : NoDup (map snd nm) -> In (name, (b, s)) nm -> name_of nm b s = name.
Proof.
  induction nm as [|[n0 [b0 s0]] r IH]; cbn [name_of map snd In]; intros Hnd Hin; [contradiction|].
  inversion Hnd as [|x l Hnotin Hnd']; subst.
  destruct (bstr_eqb b b0 && bstr_eqb s s0) eqn:E.
  - apply andb_true_iff in E. destruct E as [E1 E2]. apply bstr_eqb_eq in E1, E2. subst.
    destruct Hin as [[= ->]|Hin]; [reflexivity|].
    exfalso. apply Hnotin. apply (in_map snd) in Hin. exact Hin.
  - destruct Hin as [[= -> -> ->]|Hin].
    + rewrite !bstr_eqb_refl in E. discriminate.
    + apply IH; assumption.
Qed.

Lemma name_of_notin nm b s : ~ In (b, s) (map snd nm) -> name_of nm b s = [].
Proof.
  induction nm as [|[n0 [b0 s0]] r IH]; cbn [name_of map snd In]; intros H; [reflexivity|].
  destruct (bstr_eqb b b0 && bstr_eqb s s0) eqn:E.
  - apply andb_true_iff in E. destruct E as [E1 E2]. apply bstr_eqb_eq in E1, E2. subst.
    exfalso. apply H. left. reflexivity.
  - apply IH. intros Hin. apply H. right. exact Hin.
Qed.

Lemma name_of_perm nm nm' b s : NoDup (map snd nm) -> Permutation nm nm' -> name_of nm b s = name_of nm' b s.
Proof.
  intros Hnd Hp.
  assert (NoDup (map snd nm')) as Hnd' by (eapply Permutation_NoDup; [apply Permutation_map, Hp | exact Hnd]).
  destruct (in_dec node_eq_dec (b, s) (map snd nm)) as [Hin|Hnin].
  - apply in_map_iff in Hin. destruct Hin as [[name node] [Heq Hin]]. cbn in Heq. subst node.
    rewrite (name_of_In nm name b s Hnd Hin).
    symmetry. apply name_of_In; [exact Hnd' | eapply Permutation_in; eassumption].
  - rewrite (name_of_notin nm b s Hnin). symmetry. apply name_of_notin.
    intros Hin. apply Hnin. eapply Permutation_in; [apply Permutation_map, Permutation_sym, Hp | exact Hin].
Qed.

Section Step2.
  Variable tbl : list (bstr * list bstr).
  Hypothesis keys_NoDup : NoDup (map fst tbl).
  Hypothesis strs_NoDup : forall b strs, In (b, strs) tbl -> NoDup strs.
  Let bases := map fst tbl.

  (* the map writes of one iteration of the outer loop *)
  Definition writes (k : bstr) : namemap :=
    match assoc_s k tbl with
    | None => []
    | Some strs => match assign_base bases k strs with Ok ws => ws | _ => [] end
    end.

  Lemma step2_loop_eq keys : forall nm,
    step2_loop tbl bases keys nm = Ok (nm_put_all nm (flat_map writes keys)).
  Proof.
    induction keys as [|k r IH]; intros nm; cbn [step2_loop flat_map]; [reflexivity|].
    unfold writes at 1. destruct (assoc_s k tbl) as [strs|]; [|apply IH].
    destruct (assign_base_total bases k strs) as [ws Hws]. rewrite Hws. cbn [bind].
    rewrite IH, nm_put_all_app. reflexivity.
  Qed.

  Lemma writes_nodes k strs : assoc_s k tbl = Some strs -> map snd (writes k) = map (pair k) strs.
  Proof.
    intros Hs. unfold writes. rewrite Hs.
    destruct (assign_base_total bases k strs) as [ws Hws]. rewrite Hws.
    unfold assign_base in Hws. destruct strs as [|s [|s' r]].
    - cbn in Hws. injection Hws as <-. reflexivity.
    - injection Hws as <-. reflexivity.
    - apply number_nodes_spec in Hws. eapply numbered_nodes, Hws.
  Qed.

  Lemma writes_names k name : In name (map fst (writes k)) ->
    (name = k /\ In k bases) \/ (exists n, avail bases k n = true /\ name = sfx_name k n).
  Proof.
    unfold writes. destruct (assoc_s k tbl) as [strs|] eqn:Hs; [|intros []].
    destruct (assign_base_total bases k strs) as [ws Hws]. rewrite Hws.
    unfold assign_base in Hws. destruct strs as [|s [|s' r]].
    - cbn in Hws. injection Hws as <-. intros [].
    - injection Hws as <-. cbn. intros [<-|[]]. left. split; [reflexivity|].
      apply assoc_s_In in Hs. apply (in_map fst) in Hs. exact Hs.
    - apply number_nodes_spec, numbered_names in Hws. rewrite Forall_forall in Hws.
      intros Hin. destruct (Hws _ Hin) as (n & _ & Ha & ->). right. eauto.
  Qed.

  Lemma writes_names_NoDup k : NoDup (map fst (writes k)).
  Proof.
    unfold writes. destruct (assoc_s k tbl) as [strs|] eqn:Hs; [|constructor].
    destruct (assign_base_total bases k strs) as [ws Hws]. rewrite Hws.
    unfold assign_base in Hws. destruct strs as [|s [|s' r]].
    - cbn in Hws. injection Hws as <-. constructor.
    - injection Hws as <-. cbn. constructor; [intros []|constructor].
    - eapply numbered_names_NoDup, number_nodes_spec, Hws.
  Qed.

  (* no name is handed out twice, whatever the order *)
  Lemma all_names_NoDup keys : NoDup keys -> NoDup (map fst (flat_map writes keys)).
  Proof.
    intros Hk. rewrite map_flat_map. apply NoDup_flat_map; [exact Hk | intros; apply writes_names_NoDup |].
    intros x y z _ _ Hxy Hzx Hzy.
    apply writes_names in Hzx, Hzy.
    destruct Hzx as [[-> Hx]|(n & Hn & ->)], Hzy as [[Heq Hy]|(m & Hm & Heq)].
    - congruence.
    - unfold avail in Hm. rewrite Heq in Hx. apply mem_s_In in Hx. rewrite Hx in Hm. discriminate.
    - unfold avail in Hn. subst y. apply mem_s_In in Hy. rewrite Hy in Hn. discriminate.
    - apply sfx_name_inj in Heq. destruct Heq; congruence.
  Qed.

  Lemma all_nodes_NoDup keys : NoDup keys -> NoDup (map snd (flat_map writes keys)).
  Proof.
    intros Hk. rewrite map_flat_map. apply NoDup_flat_map; [exact Hk | |].
    - intros x _. destruct (assoc_s x tbl) as [strs|] eqn:Hs.
      + rewrite (writes_nodes x strs Hs). apply FinFun.Injective_map_NoDup.
        * intros a c [= ->]. reflexivity.
        * apply (strs_NoDup x). apply assoc_s_In, Hs.
      + unfold writes. rewrite Hs. constructor.
    - intros x y z _ _ Hxy Hzx Hzy.
      assert (forall k, In z (map snd (writes k)) -> fst z = k) as Hfst.
      { intros k Hin. destruct (assoc_s k tbl) as [strs|] eqn:Hs.
        - rewrite (writes_nodes k strs Hs) in Hin. apply in_map_iff in Hin. destruct Hin as [s [<- _]]. reflexivity.
        - unfold writes in Hin. rewrite Hs in Hin. destruct Hin. }
      apply Hfst in Hzx, Hzy. congruence.
  Qed.

  (* the name map after step 2 is the plain list of all writes *)
  Lemma step2_eq (order : list bstr -> list bstr) : NoDup (order bases) ->
    step2 order tbl = Ok (flat_map writes (order bases)).
  Proof.
    intros Hk. unfold step2. fold bases. rewrite step2_loop_eq.
    rewrite nm_put_all_fresh; [reflexivity | apply all_names_NoDup, Hk].
  Qed.
End Step2.

Definition is_perm (order : list bstr -> list bstr) : Prop := forall l, Permutation (order l) l.

Lemma is_perm_id : is_perm (fun l => l).
Proof. intros l. apply Permutation_refl. Qed.

Lemma is_perm_rev : is_perm (@rev bstr).
Proof. intros l. apply Permutation_sym, Permutation_rev. Qed.

Lemma rep_table_strs_NoDup es b strs : In (b, strs) (rep_table es) -> NoDup strs.
Proof.
  intros Hin.
  assert (assoc_s b (rep_table es) = Some strs) as Ha.
  { pose proof (rep_table_keys_NoDup es) as Hnd. revert Hin Hnd.
    induction (rep_table es) as [|[k v] r IH]; cbn [In map fst assoc_s]; [intros []|].
    intros [[= -> ->]|Hin] Hnd.
    - rewrite bstr_eqb_refl. reflexivity.
    - inversion Hnd; subst. destruct (bstr_eqb b k) eqn:E.
      + apply bstr_eqb_eq in E. subst. exfalso. apply (in_map fst) in Hin. contradiction.
      + apply IH; assumption. }
  rewrite rep_table_assoc in Ha. destruct (variants es b) eqn:E; [discriminate|].
  injection Ha as <-. rewrite <- E. apply variants_NoDup.
Qed.

Lemma step2_rep_table order es : is_perm order ->
  step2 order (rep_table es) = Ok (flat_map (writes (rep_table es)) (order (map fst (rep_table es)))).
Proof.
  intros Hp. apply step2_eq.
  eapply Permutation_NoDup; [apply Permutation_sym, Hp | apply rep_table_keys_NoDup].
Qed.

(* ================================================================== *)
(* G. the names do not depend on the map iteration order              *)
(* ================================================================== *)

Section MpartInd.
  Variable P : mpart -> Prop.
  Hypothesis Htext : forall t, P (MText t).
  Hypothesis Hph : forall b s, P (MPh b s).
  Hypothesis Hpl : forall b s cases d,
    Forall (fun c => Forall P (snd c)) cases -> Forall P d -> P (MPlural b s cases d).
  Fixpoint mpart_ind' (p : mpart) : P p :=
    match p with
    | MText t => Htext t
    | MPh b s => Hph b s
    | MPlural b s cases d =>
        Hpl b s cases d
          ((fix go (l : list (Z * list mpart)) : Forall (fun c => Forall P (snd c)) l :=
              match l with
              | [] => Forall_nil _
              | c :: r =>
                  Forall_cons c
                    ((fix go2 (l2 : list mpart) : Forall P l2 :=
                        match l2 with [] => Forall_nil _ | x :: r2 => Forall_cons x (mpart_ind' x) (go2 r2) end) (snd c))
                    (go r)
              end) cases)
          ((fix go2 (l2 : list mpart) : Forall P l2 :=
              match l2 with [] => Forall_nil _ | x :: r2 => Forall_cons x (mpart_ind' x) (go2 r2) end) d)
    end.
End MpartInd.

Lemma map_ext_Forall {A B} (f g : A -> B) l : Forall (fun x => f x = g x) l -> map f l = map g l.
Proof. induction 1; cbn; congruence. Qed.

Lemma set_names_ext nm nm' : (forall b s, name_of nm b s = name_of nm' b s) ->
  forall p, set_names nm p = set_names nm' p.
Proof.
  intros H. induction p as [t|b s|b s cases d IHc IHd] using mpart_ind'; cbn [set_names]; [reflexivity | rewrite H; reflexivity |].
  rewrite H. f_equal.
  - apply map_ext_Forall. eapply Forall_impl; [|exact IHc]. cbn. intros c Hc.
    f_equal. apply map_ext_Forall, Hc.
  - apply map_ext_Forall, IHd.
Qed.

Theorem names_order_independent order order' body :
  is_perm order -> is_perm order' -> msg_named order body = msg_named order' body.
Proof.
  intros Hp Hp'. unfold msg_named, msg_names.
  destruct (msg_entries body) as [es| | | | |]; cbn [bind]; try reflexivity.
  rewrite (step2_rep_table order es Hp), (step2_rep_table order' es Hp'). cbn [bind]. f_equal.
  apply map_ext. apply set_names_ext. intros b s.
  apply name_of_perm.
  - apply all_nodes_NoDup.
    + apply rep_table_strs_NoDup.
    + eapply Permutation_NoDup; [apply Permutation_sym, Hp | apply rep_table_keys_NoDup].
  - apply Permutation_flat_map. eapply Permutation_trans; [apply Hp | apply Permutation_sym, Hp'].
Qed.

Corollary id_order_independent order order' m :
  is_perm order -> is_perm order' -> msg_id order m = msg_id order' m.
Proof. intros H H'. unfold msg_id. rewrite (names_order_independent order order' _ H H'). reflexivity. Qed.

(* ================================================================== *)
(* H. the names are the official ones                                 *)
(* ================================================================== *)

Lemma mem_s_ext x l l' : (forall y, In y l <-> In y l') -> mem_s x l = mem_s x l'.
Proof.
  intros H. destruct (mem_s x l) eqn:E.
  - symmetry. apply mem_s_In, H, mem_s_In, E.
  - symmetry. apply mem_s_not_In. intros Hin. apply mem_s_not_In in E. apply E, H, Hin.
Qed.

Lemma avail_available es base n :
  avail (map fst (rep_table es)) base n = available es base n.
Proof.
  unfold avail, available, spec_bases. f_equal. rewrite sfx_name_suffixed.
  apply (mem_s_ext (suffixed base n)). intros y. apply rep_table_keys_In.
Qed.

Theorem names_follow_official order body es nm :
  is_perm order -> msg_entries body = Ok es -> msg_names order body = Ok nm ->
  follows_official es (name_of nm).
Proof.
  intros Hp Hes Hnm. unfold msg_names in Hnm. rewrite Hes in Hnm. cbn [bind] in Hnm.
  rewrite (step2_rep_table order es Hp) in Hnm. injection Hnm as <-.
  set (tbl := rep_table es). set (bases := map fst tbl).
  assert (NoDup (order bases)) as Hko
    by (eapply Permutation_NoDup; [apply Permutation_sym, Hp | apply rep_table_keys_NoDup]).
  pose proof (all_nodes_NoDup tbl (rep_table_strs_NoDup es) (order bases) Hko) as Hnd.
  intros base s j Hj.
  assert (assoc_s base tbl = Some (variants es base)) as Ha.
  { unfold tbl. rewrite rep_table_assoc. destruct (variants es base); [destruct j; discriminate | reflexivity]. }
  assert (In base (order bases)) as Hin.
  { eapply Permutation_in; [apply Permutation_sym, Hp|]. apply assoc_s_In in Ha. apply (in_map fst) in Ha. exact Ha. }
  assert (forall name, In (name, (base, s)) (writes tbl base) ->
                       name_of (flat_map (writes tbl) (order bases)) base s = name) as Hname.
  { intros name Hw. apply name_of_In; [exact Hnd|]. apply in_flat_map. exists base. split; assumption. }
  unfold official_name.
  destruct (assign_base_total bases base (variants es base)) as [ws Hws].
  assert (writes tbl base = ws) as Hwr by (unfold writes; fold bases; rewrite Ha, Hws; reflexivity).
  destruct (variants es base) as [|s0 [|s1 r]] eqn:Ev.
  - destruct j; discriminate.
  - destruct j as [|[|j]]; cbn in Hj; try discriminate. injection Hj as <-.
    cbn in Hws. injection Hws as <-. apply Hname. rewrite Hwr. left. reflexivity.
  - unfold assign_base in Hws. apply number_nodes_spec in Hws.
    destruct (numbered_nth bases base 1 _ _ Hws ltac:(lia) j s Hj) as (k & Hk & Hk1 & Hav & Hc).
    exists k. split.
    + unfold nth_available. split; [exact Hk1|]. split.
      * rewrite <- avail_available. exact Hav.
      * transitivity (free_count bases base k).
        -- unfold free_count. f_equal. apply filter_ext. intros a. symmetry. apply avail_available.
        -- rewrite Hc. reflexivity.
    + rewrite <- sfx_name_suffixed. apply Hname. rewrite Hwr. exact Hk.
Qed.

(* ================================================================== *)
(* I. the queue of step 1 is emptied within the stated budget         *)
(* ================================================================== *)

Lemma ph_count_list_app l l' : ph_count_list (l ++ l') = (ph_count_list l + ph_count_list l')%nat.
Proof. induction l as [|x l IH]; cbn [app ph_count_list fold_right]; [reflexivity|]. fold (ph_count_list (l ++ l')). fold (ph_count_list l). lia. Qed.

Lemma ph_count_list_ph_nodes l : ph_count_list (ph_nodes l) = ph_count_list l.
Proof.
  induction l as [|x l IH]; [reflexivity|]. unfold ph_nodes. cbn [filter].
  destruct x; cbn [is_ph]; unfold ph_count_list; cbn [fold_right];
    fold (ph_count_list l); fold (ph_nodes l); fold (ph_count_list (ph_nodes l)); rewrite IH; reflexivity.
Qed.

Lemma ph_nodes_all l : Forall (fun p => is_ph p = true) (ph_nodes l).
Proof. apply Forall_forall. intros x Hx. apply filter_In in Hx. tauto. Qed.

Definition cases_count (cases : list (Z * list mpart)) : nat :=
  fold_right (fun c acc => (ph_count_list (snd c) + acc)%nat) 0%nat cases.

Lemma ph_count_plural b s cases d : ph_count (MPlural b s cases d) = S (cases_count cases + ph_count_list d).
Proof. reflexivity. Qed.

Lemma plural_case_bodies_count cases d :
  ph_count_list (plural_case_bodies cases d) = (cases_count cases + ph_count_list d)%nat.
Proof.
  unfold plural_case_bodies. rewrite ph_count_list_app, ph_count_list_ph_nodes. f_equal.
  induction cases as [|c r IH]; [reflexivity|]. cbn [flat_map cases_count fold_right].
  rewrite ph_count_list_app, ph_count_list_ph_nodes. fold (cases_count r). rewrite IH. reflexivity.
Qed.

Lemma plural_case_bodies_all cases d : Forall (fun p => is_ph p = true) (plural_case_bodies cases d).
Proof.
  unfold plural_case_bodies. apply Forall_app. split; [|apply ph_nodes_all].
  apply Forall_forall. intros x Hx. apply in_flat_map in Hx. destruct Hx as [c [_ Hx]].
  apply filter_In in Hx. tauto.
Qed.

Lemma msg_bfs_total fuel : forall q, Forall (fun p => is_ph p = true) q -> (ph_count_list q <= fuel)%nat ->
  exists r, msg_bfs fuel q = Ok r.
Proof.
  induction fuel as [|f IH]; intros [|node rest] Hq Hlen; cbn [msg_bfs]; eauto.
  - exfalso. inversion Hq; subst. unfold ph_count_list in Hlen. cbn [fold_right] in Hlen.
    destruct node; cbn in *; try discriminate; lia.
  - inversion Hq as [|x l Hnode Hrest]; subst.
    unfold ph_count_list in Hlen. cbn [fold_right] in Hlen. fold (ph_count_list rest) in Hlen.
    destruct node as [t|b s|b s cases d]; [discriminate| |].
    + destruct (IH rest Hrest) as [r ->]; [cbn [ph_count] in Hlen; lia|]. cbn [bind]. eauto.
    + destruct (IH (rest ++ plural_case_bodies cases d)) as [r ->].
      * apply Forall_app. split; [exact Hrest | apply plural_case_bodies_all].
      * rewrite ph_count_list_app, plural_case_bodies_count. rewrite ph_count_plural in Hlen. lia.
      * cbn [bind]. eauto.
Qed.

Theorem msg_entries_total body : exists es, msg_entries body = Ok es.
Proof.
  unfold msg_entries. apply msg_bfs_total; [apply ph_nodes_all | rewrite ph_count_list_ph_nodes; lia].
Qed.

Theorem msg_named_total order body : is_perm order -> exists named, msg_named order body = Ok named.
Proof.
  intros Hp. unfold msg_named, msg_names. destruct (msg_entries_total body) as [es ->]. cbn [bind].
  rewrite (step2_rep_table order es Hp). cbn [bind]. eauto.
Qed.

(* ================================================================== *)
(* K. the id is a function of the fingerprinted string and the meaning *)
(* ================================================================== *)

Theorem id_function_of_content order m named :
  msg_named order (m_body m) = Ok named ->
  msg_id order m = Ok (calc_id (write_fp_list false named) (m_meaning m)).
Proof. intros H. unfold msg_id. rewrite H. reflexivity. Qed.

Theorem id_ignores_desc order m desc :
  msg_id order {| m_meaning := m_meaning m; m_desc := desc; m_body := m_body m |} = msg_id order m.
Proof. reflexivity. Qed.

Theorem id_same_content order m m' :
  m_body m = m_body m' -> m_meaning m = m_meaning m' -> msg_id order m = msg_id order m'.
Proof. intros Hb Hm. unfold msg_id. rewrite Hb, Hm. reflexivity. Qed.

(* the fingerprinted string and the meaning determine the id, whatever the
   placeholders were before they were named *)
Theorem id_same_fingerprint_string order m m' named named' :
  msg_named order (m_body m) = Ok named -> msg_named order (m_body m') = Ok named' ->
  write_fp_list false named = write_fp_list false named' -> m_meaning m = m_meaning m' ->
  msg_id order m = msg_id order m'.
Proof.
  intros H H' Hs Hm. rewrite (id_function_of_content _ _ _ H), (id_function_of_content _ _ _ H'), Hs, Hm. reflexivity.
Qed.

(* surrounding code and other messages do not enter *)
Theorem id_ignores_context order pre m post :
  process_messages order (pre ++ IMsg m :: post) =
  process_messages order pre ++ msg_id order m :: process_messages order post.
Proof. unfold process_messages. rewrite flat_map_app. reflexivity. Qed.

Theorem id_ignores_code order file :
  process_messages order file =
  process_messages order (filter (fun it => match it with IMsg _ => true | ICode _ => false end) file).
Proof.
  induction file as [|[src|m] r IH]; cbn [filter]; [reflexivity | exact IH |].
  unfold process_messages in *. cbn [flat_map]. rewrite IH. reflexivity.
Qed.

(* ================================================================== *)
(* J. the braced placeholder string determines the message            *)
(* ================================================================== *)

Lemma dec_of_Z_chars z : Forall (fun c => is_digit_byte c \/ c = 45) (dec_of_Z z).
Proof.
  assert (forall n, Forall (fun c => is_digit_byte c \/ c = 45) (dec_of_N n)) as H.
  { intros n. eapply Forall_impl; [|apply dec_of_N_digits]. cbn. tauto. }
  destruct z; cbn [dec_of_Z]; [repeat constructor; unfold is_digit_byte; lia | apply H | constructor; [tauto | apply H]].
Qed.

Lemma dec_of_Z_inj z z' : dec_of_Z z = dec_of_Z z' -> z = z'.
Proof.
  assert (forall p, exists c r, dec_of_N (Npos p) = c :: r /\ is_digit_byte c) as Hhd.
  { intros p. pose proof (dec_of_N_digits (Npos p)) as Hd. pose proof (dec_of_N_nonempty (Npos p)) as Hne.
    destruct (dec_of_N (Npos p)) as [|c r]; [contradiction|]. inversion Hd; subst. eauto. }
  assert (dec_of_N 0 = [48]) as H0 by reflexivity.
  destruct z as [|p|p], z' as [|q|q]; cbn [dec_of_Z]; intros H; try reflexivity.
  - rewrite <- H0 in H. apply dec_of_N_inj in H. discriminate.
  - discriminate.
  - rewrite <- H0 in H. apply dec_of_N_inj in H. discriminate.
  - apply dec_of_N_inj in H. congruence.
  - destruct (Hhd p) as (c & r & Hc & Hd). rewrite Hc in H. injection H as -> _. unfold is_digit_byte in Hd. lia.
  - discriminate.
  - destruct (Hhd q) as (c & r & Hc & Hd). rewrite Hc in H. injection H as <- _. unfold is_digit_byte in Hd. lia.
  - injection H as H. apply dec_of_N_inj in H. congruence.
Qed.

Definition is_brace (c : N) : Prop := c = 123 \/ c = 125.
Definition is_name_end (c : N) : Prop := c = 123 \/ c = 125 \/ c = 44.
Definition text_ok (t : bstr) : Prop := Forall (fun c => ~ is_brace c) t.
Definition name_ok (n : bstr) : Prop := Forall (fun c => ~ is_name_end c) n.

Definition is_text (p : npart) : bool := match p with NmText _ => true | _ => false end.

(* no empty text and no two adjacent texts (adjacent raw text nodes of an AST
   are to be read as one text) *)
Fixpoint texts_sep (l : list npart) : Prop :=
  match l with
  | [] => True
  | NmText t :: r => t <> [] /\ match r with p :: _ => is_text p = false | [] => True end /\ texts_sep r
  | _ :: r => texts_sep r
  end.

(* the guard: raw text without braces, names without braces and commas *)
Fixpoint part_ok (p : npart) : Prop :=
  match p with
  | NmText t => text_ok t
  | NmPh n => name_ok n
  | NmPlural n cases d =>
      name_ok n
      /\ fold_right (fun c acc => (texts_sep (snd c) /\ fold_right (fun x a => part_ok x /\ a) True (snd c)) /\ acc) True cases
      /\ texts_sep d /\ fold_right (fun x a => part_ok x /\ a) True d
  end.
Definition parts_ok (l : list npart) : Prop := texts_sep l /\ fold_right (fun x a => part_ok x /\ a) True l.
Definition cases_ok (cases : list (Z * list npart)) : Prop :=
  fold_right (fun c acc => parts_ok (snd c) /\ acc) True cases.

Lemma part_ok_plural n cases d : part_ok (NmPlural n cases d) <-> name_ok n /\ cases_ok cases /\ parts_ok d.
Proof. cbn [part_ok]. unfold cases_ok, parts_ok. tauto. Qed.

Lemma parts_ok_cons p l : parts_ok (p :: l) -> part_ok p /\ parts_ok l.
Proof.
  unfold parts_ok. cbn [fold_right]. intros [Hs [Hp Hl]]. split; [exact Hp|]. split; [|exact Hl].
  destruct p; cbn [texts_sep] in Hs; tauto.
Qed.

Fixpoint nsize (p : npart) : nat :=
  match p with
  | NmText _ => 1
  | NmPh _ => 1
  | NmPlural _ cases d =>
      S (fold_right (fun c acc => S (fold_right (fun x a => nsize x + a) 0 (snd c) + acc)) 0 cases
         + fold_right (fun x a => nsize x + a) 0 d)%nat
  end.
Definition nsize_list (l : list npart) : nat := fold_right (fun x a => (nsize x + a)%nat) 0%nat l.
Definition csize (cases : list (Z * list npart)) : nat :=
  fold_right (fun c acc => S (nsize_list (snd c) + acc)) 0%nat cases.

Lemma nsize_plural n cases d : nsize (NmPlural n cases d) = S (csize cases + nsize_list d).
Proof. reflexivity. Qed.

Definition cases_str (cases : list (Z * list npart)) : bstr :=
  flat_map (fun c => 61 :: dec_of_Z (fst c) ++ 123 :: write_fp_list true (snd c) ++ [125]) cases.

Lemma write_fp_plural n cases d :
  write_fp true (NmPlural n cases d) =
  123 :: n ++ s_plural_kw ++ cases_str cases ++ s_other_open ++ write_fp_list true d ++ [125; 125].
Proof. reflexivity. Qed.

Lemma write_fp_list_cons p l : write_fp_list true (p :: l) = write_fp true p ++ write_fp_list true l.
Proof. reflexivity. Qed.

(* where a body may end: at the end of the string or before a closing brace *)
Definition stop (r : bstr) : Prop := r = [] \/ exists r', r = 125 :: r'.
(* empty or starting with a brace *)
Definition brace_start (r : bstr) : Prop := r = [] \/ exists c r', r = c :: r' /\ is_brace c.

Lemma text_split t1 t2 r1 r2 : text_ok t1 -> text_ok t2 -> brace_start r1 -> brace_start r2 ->
  t1 ++ r1 = t2 ++ r2 -> t1 = t2 /\ r1 = r2.
Proof.
  intros H1 H2 [->|(c1 & r1' & -> & Hc1)] [->|(c2 & r2' & -> & Hc2)] H.
  - rewrite !app_nil_r in H. auto.
  - rewrite app_nil_r in H. subst t1. exfalso. apply Forall_app in H1. destruct H1 as [_ H1].
    inversion H1; subst. contradiction.
  - rewrite app_nil_r in H. subst t2. exfalso. apply Forall_app in H2. destruct H2 as [_ H2].
    inversion H2; subst. contradiction.
  - apply (split_at_first is_brace) in H; try assumption. destruct H as (-> & -> & ->). auto.
Qed.

Lemma rest_brace_start l r : parts_ok l -> match l with p :: _ => is_text p = false | [] => True end ->
  stop r -> brace_start (write_fp_list true l ++ r).
Proof.
  intros Hok Hhd Hr. destruct l as [|p l].
  - cbn. destruct Hr as [->|[r' ->]]; [left; reflexivity | right; exists 125, r'; split; [reflexivity | right; reflexivity]].
  - destruct p as [t|n|n cases d]; [discriminate| |]; right; rewrite write_fp_list_cons.
    + cbn [write_fp app]. eexists _, _. split; [reflexivity | left; reflexivity].
    + rewrite write_fp_plural. cbn [app]. eexists _, _. split; [reflexivity | left; reflexivity].
Qed.

Lemma name_split n1 n2 c1 c2 r1 r2 : name_ok n1 -> name_ok n2 -> is_name_end c1 -> is_name_end c2 ->
  n1 ++ c1 :: r1 = n2 ++ c2 :: r2 -> n1 = n2 /\ c1 = c2 /\ r1 = r2.
Proof. intros. apply (split_at_first is_name_end); assumption. Qed.

Section Inj.
  Variable n : nat.
  (* induction hypothesis: bodies of size at most n *)
  Hypothesis IH : forall l1, (nsize_list l1 <= n)%nat -> forall l2 r1 r2,
    parts_ok l1 -> parts_ok l2 -> stop r1 -> stop r2 ->
    write_fp_list true l1 ++ r1 = write_fp_list true l2 ++ r2 -> l1 = l2 /\ r1 = r2.

  Lemma cases_inj : forall cs1, (csize cs1 <= n)%nat -> forall cs2 t1 t2,
    cases_ok cs1 -> cases_ok cs2 ->
    cases_str cs1 ++ s_other_open ++ t1 = cases_str cs2 ++ s_other_open ++ t2 -> cs1 = cs2 /\ t1 = t2.
  Proof.
    induction cs1 as [|[v1 b1] cs1 IHc]; intros Hsz [|[v2 b2] cs2] t1 t2 Hok1 Hok2 H.
    - unfold cases_str in H. cbn [flat_map app] in H. apply app_inv_head in H. auto.
    - cbn in H. discriminate.
    - cbn in H. discriminate.
    - unfold cases_str in H. cbn [flat_map fst snd] in H. fold (cases_str cs1) in H. fold (cases_str cs2) in H.
      cbn [app] in H. injection H as H.
      repeat rewrite <- app_assoc in H. cbn [app] in H.
      apply (split_at_first (fun c => c = 123)) in H; try reflexivity.
      2,3: eapply Forall_impl; [|apply dec_of_Z_chars]; cbn; unfold is_digit_byte; intros a [Ha|Ha]; lia.
      destruct H as (Hv & _ & H). apply dec_of_Z_inj in Hv. subst v2.
      repeat rewrite <- app_assoc in H. cbn [app] in H.
      cbn [cases_ok fold_right snd] in Hok1, Hok2. destruct Hok1 as [Hb1 Hok1], Hok2 as [Hb2 Hok2].
      cbn [csize fold_right snd] in Hsz. fold (csize cs1) in Hsz.
      apply IH in H; [| lia | assumption | assumption | right; eauto | right; eauto].
      destruct H as [-> H]. injection H as H.
      apply IHc in H; [| lia | assumption | assumption]. destruct H as [-> ->]. auto.
  Qed.
End Inj.

Lemma head_not_stop p l r r1 : parts_ok (p :: l) -> stop r1 -> r1 = write_fp_list true (p :: l) ++ r -> False.
Proof.
  intros Hok Hr1 H. rewrite write_fp_list_cons in H.
  destruct p as [t|m|m cases d].
  - destruct Hok as [[Hne _] [Ht _]]. cbn in Ht. destruct t as [|c t]; [contradiction|].
    apply Forall_inv in Ht. cbn in H. destruct Hr1 as [E|[r' E]]; rewrite E in H; [discriminate|].
    injection H as <- _. apply Ht. right; reflexivity.
  - cbn in H. destruct Hr1 as [E|[r' E]]; rewrite E in H; discriminate.
  - rewrite write_fp_plural in H. cbn in H. destruct Hr1 as [E|[r' E]]; rewrite E in H; discriminate.
Qed.

Lemma phstring_inj_aux : forall n l1, (nsize_list l1 <= n)%nat -> forall l2 r1 r2,
  parts_ok l1 -> parts_ok l2 -> stop r1 -> stop r2 ->
  write_fp_list true l1 ++ r1 = write_fp_list true l2 ++ r2 -> l1 = l2 /\ r1 = r2.
Proof.
  induction n as [|n IHn]; intros l1 Hsz l2 r1 r2 Hok1 Hok2 Hr1 Hr2 H.
  - (* size 0: l1 is empty *)
    destruct l1 as [|p l1]; [|exfalso; unfold nsize_list in Hsz; cbn [fold_right] in Hsz; destruct p; cbn [nsize] in Hsz; lia].
    destruct l2 as [|p l2]; [cbn in H; auto|]. exfalso.
    eapply head_not_stop; [exact Hok2 | exact Hr1 | exact H].
  - destruct l1 as [|p1 l1].
    { destruct l2 as [|p l2]; [cbn in H; auto|]. exfalso.
      eapply head_not_stop; [exact Hok2 | exact Hr1 | exact H]. }
    destruct l2 as [|p2 l2].
    { exfalso. eapply head_not_stop; [exact Hok1 | exact Hr2 | symmetry; exact H]. }
    pose proof (parts_ok_cons _ _ Hok1) as [Hp1 Hl1]. pose proof (parts_ok_cons _ _ Hok2) as [Hp2 Hl2].
    rewrite !write_fp_list_cons in H. repeat rewrite <- app_assoc in H.
    assert (nsize_list l1 <= n)%nat as Hsz1.
    { unfold nsize_list in Hsz. cbn [fold_right] in Hsz. fold (nsize_list l1) in Hsz. destruct p1; cbn [nsize] in Hsz; lia. }
    destruct p1 as [t1|m1|m1 cs1 d1], p2 as [t2|m2|m2 cs2 d2].
    + (* text, text *)
      cbn [write_fp] in H.
      destruct Hok1 as [[Hne1 [Hh1 _]] _], Hok2 as [[Hne2 [Hh2 _]] _].
      apply text_split in H; [| exact Hp1 | exact Hp2 | apply rest_brace_start; assumption | apply rest_brace_start; assumption].
      destruct H as [-> H]. apply IHn in H; try assumption. destruct H as [-> ->]. auto.
    + (* text, placeholder *)
      exfalso. cbn [write_fp app] in H. destruct Hok1 as [[Hne _] _]. destruct t1 as [|c t]; [contradiction|].
      cbn in Hp1. inversion Hp1; subst. cbn in H. injection H as -> _. apply H2. left; reflexivity.
    + exfalso. rewrite write_fp_plural in H. cbn [write_fp app] in H. destruct Hok1 as [[Hne _] _]. destruct t1 as [|c t]; [contradiction|].
      cbn in Hp1. inversion Hp1; subst. cbn in H. injection H as -> _. apply H2. left; reflexivity.
    + exfalso. cbn [write_fp app] in H. destruct Hok2 as [[Hne _] _]. destruct t2 as [|c t]; [contradiction|].
      cbn in Hp2. inversion Hp2; subst. cbn in H. injection H as <- _. apply H2. left; reflexivity.
    + (* placeholder, placeholder *)
      cbn [write_fp app] in H. injection H as H. repeat rewrite <- app_assoc in H. cbn [app] in H.
      apply name_split in H; [| exact Hp1 | exact Hp2 | right; left; reflexivity | right; left; reflexivity].
      destruct H as (-> & _ & H). apply IHn in H; try assumption. destruct H as [-> ->]. auto.
    + (* placeholder, plural: "}" against "," *)
      exfalso. rewrite write_fp_plural in H. cbn [write_fp app] in H. injection H as H.
      repeat rewrite <- app_assoc in H. unfold s_plural_kw in H. cbn [app] in H.
      apply part_ok_plural in Hp2. destruct Hp2 as [Hm2 _].
      apply name_split in H; [| exact Hp1 | exact Hm2 | right; left; reflexivity | right; right; reflexivity].
      destruct H as (_ & Hc & _). discriminate.
    + exfalso. rewrite write_fp_plural in H. cbn [write_fp app] in H. destruct Hok2 as [[Hne _] _]. destruct t2 as [|c t]; [contradiction|].
      cbn in Hp2. inversion Hp2; subst. cbn in H. injection H as <- _. apply H2. left; reflexivity.
    + exfalso. rewrite write_fp_plural in H. cbn [write_fp app] in H. injection H as H.
      repeat rewrite <- app_assoc in H. unfold s_plural_kw in H. cbn [app] in H.
      apply part_ok_plural in Hp1. destruct Hp1 as [Hm1 _].
      apply name_split in H; [| exact Hm1 | exact Hp2 | right; right; reflexivity | right; left; reflexivity].
      destruct H as (_ & Hc & _). discriminate.
    + (* plural, plural *)
      rewrite !write_fp_plural in H. cbn [app] in H. injection H as H.
      repeat rewrite <- app_assoc in H. unfold s_plural_kw in H. cbn [app] in H.
      apply part_ok_plural in Hp1, Hp2. destruct Hp1 as (Hm1 & Hc1 & Hd1), Hp2 as (Hm2 & Hc2 & Hd2).
      apply name_split in H; [| exact Hm1 | exact Hm2 | right; right; reflexivity | right; right; reflexivity].
      destruct H as (-> & _ & H). repeat (injection H as H).
      repeat (rewrite <- app_assoc in H; cbn [app] in H).
      unfold nsize_list in Hsz. cbn [fold_right] in Hsz. fold (nsize_list l1) in Hsz. rewrite nsize_plural in Hsz.
      apply (cases_inj n IHn) in H; [| lia | assumption | assumption].
      destruct H as [-> H]. cbn [app] in H.
      apply IHn in H; [| lia | assumption | assumption | right; eauto | right; eauto].
      destruct H as [-> H]. repeat (injection H as H).
      apply IHn in H; try assumption. destruct H as [-> ->]. auto.
Qed.

(* Two messages in which raw text contains no brace and names contain neither
   braces nor commas, read with adjacent raw texts joined, have the same braced
   placeholder string only if they agree in text, names, order and plural
   structure. *)
Theorem phstring_injective l1 l2 :
  parts_ok l1 -> parts_ok l2 -> write_fp_list true l1 = write_fp_list true l2 -> l1 = l2.
Proof.
  intros H1 H2 H.
  destruct (phstring_inj_aux (nsize_list l1) l1 (le_n _) l2 [] [] H1 H2) as [Heq _];
    [left; reflexivity | left; reflexivity | rewrite !app_nil_r; exact H | exact Heq].
Qed.

(* ---- arbitrary bodies: join adjacent raw texts, drop empty ones ---- *)

Definition join_step (p : npart) (acc : list npart) : list npart :=
  match p with
  | NmText [] => acc
  | NmText t => match acc with NmText t' :: r => NmText (t ++ t') :: r | _ => p :: acc end
  | _ => p :: acc
  end.
Definition join_texts (l : list npart) : list npart := fold_right join_step [] l.

Fixpoint norm (p : npart) : npart :=
  match p with
  | NmPlural n cases d =>
      NmPlural n (map (fun c => (fst c, join_texts (map norm (snd c)))) cases) (join_texts (map norm d))
  | _ => p
  end.
Definition normalize (l : list npart) : list npart := join_texts (map norm l).

(* the guard alone: raw text without braces, names without braces and commas *)
Fixpoint guard (p : npart) : Prop :=
  match p with
  | NmText t => text_ok t
  | NmPh n => name_ok n
  | NmPlural n cases d =>
      name_ok n
      /\ fold_right (fun c acc => fold_right (fun x a => guard x /\ a) True (snd c) /\ acc) True cases
      /\ fold_right (fun x a => guard x /\ a) True d
  end.
Definition guard_list (l : list npart) : Prop := fold_right (fun x a => guard x /\ a) True l.

Section NpartInd.
  Variable P : npart -> Prop.
  Hypothesis Htext : forall t, P (NmText t).
  Hypothesis Hph : forall n, P (NmPh n).
  Hypothesis Hpl : forall n cases d,
    Forall (fun c => Forall P (snd c)) cases -> Forall P d -> P (NmPlural n cases d).
  Fixpoint npart_ind' (p : npart) : P p :=
    match p with
    | NmText t => Htext t
    | NmPh n => Hph n
    | NmPlural n cases d =>
        Hpl n cases d
          ((fix go (l : list (Z * list npart)) : Forall (fun c => Forall P (snd c)) l :=
              match l with
              | [] => Forall_nil _
              | c :: r =>
                  Forall_cons c
                    ((fix go2 (l2 : list npart) : Forall P l2 :=
                        match l2 with [] => Forall_nil _ | x :: r2 => Forall_cons x (npart_ind' x) (go2 r2) end) (snd c))
                    (go r)
              end) cases)
          ((fix go2 (l2 : list npart) : Forall P l2 :=
              match l2 with [] => Forall_nil _ | x :: r2 => Forall_cons x (npart_ind' x) (go2 r2) end) d)
    end.
End NpartInd.

Lemma join_texts_string l : write_fp_list true (join_texts l) = write_fp_list true l.
Proof.
  induction l as [|p l IH]; [reflexivity|]. cbn [join_texts fold_right]. fold (join_texts l).
  rewrite write_fp_list_cons, <- IH.
  destruct p as [[|c t]|n|n cases d]; cbn [join_step]; try reflexivity.
  destruct (join_texts l) as [|[t'|n'|n' cs' d'] r]; try reflexivity.
  rewrite !write_fp_list_cons. cbn [write_fp]. rewrite app_assoc. reflexivity.
Qed.

Lemma flat_map_ext_Forall {A B} (f g : A -> list B) l : Forall (fun x => f x = g x) l -> flat_map f l = flat_map g l.
Proof. induction 1; cbn; congruence. Qed.

Lemma norm_string p : write_fp true (norm p) = write_fp true p.
Proof.
  induction p as [t|n|n cases d IHc IHd] using npart_ind'; try reflexivity.
  cbn [norm]. rewrite !write_fp_plural. f_equal. f_equal. f_equal.
  assert (forall l, Forall (fun x => write_fp true (norm x) = write_fp true x) l ->
                    write_fp_list true (join_texts (map norm l)) = write_fp_list true l) as Hl.
  { intros l Hf. rewrite join_texts_string. unfold write_fp_list. rewrite flat_map_concat_map, map_map, <- flat_map_concat_map.
    apply flat_map_ext_Forall, Hf. }
  f_equal; [|rewrite (Hl d IHd); reflexivity].
  unfold cases_str. rewrite flat_map_concat_map, map_map, <- flat_map_concat_map.
  apply flat_map_ext_Forall. eapply Forall_impl; [|exact IHc]. cbn beta. intros c Hc. cbn [fst snd].
  rewrite (Hl _ Hc). reflexivity.
Qed.

Lemma normalize_string l : write_fp_list true (normalize l) = write_fp_list true l.
Proof.
  unfold normalize. rewrite join_texts_string. unfold write_fp_list.
  rewrite flat_map_concat_map, map_map, <- flat_map_concat_map.
  apply flat_map_ext_Forall, Forall_forall. intros x _. apply norm_string.
Qed.

Definition all_ok (l : list npart) : Prop := fold_right (fun x a => part_ok x /\ a) True l.

Lemma join_texts_sep l : texts_sep (join_texts l).
Proof.
  induction l as [|p l IH]; [exact I|]. cbn [join_texts fold_right]. fold (join_texts l).
  destruct p as [[|c t]|n|n cases d]; cbn [join_step]; try exact IH.
  destruct (join_texts l) as [|[t'|n'|n' cs' d'] r]; cbn [texts_sep] in *.
  - split; [discriminate | auto].
  - destruct IH as (Hne & Hh & Hr). split; [discriminate | auto].
  - split; [discriminate | auto].
  - split; [discriminate | auto].
Qed.

Lemma join_texts_all_ok l : all_ok l -> all_ok (join_texts l).
Proof.
  induction l as [|p l IH]; [auto|]. cbn [all_ok fold_right]. intros [Hp Hl]. specialize (IH Hl).
  cbn [join_texts fold_right]. fold (join_texts l).
  destruct p as [[|c t]|n|n cases d]; cbn [join_step]; try (split; assumption); try exact IH.
  destruct (join_texts l) as [|[t'|n'|n' cs' d'] r]; try (split; assumption).
  cbn [all_ok fold_right] in *. destruct IH as [Ht' Hr]. split; [|exact Hr].
  cbn [part_ok] in *. apply Forall_app. split; assumption.
Qed.

Lemma all_ok_map_norm l : Forall (fun x => guard x -> part_ok (norm x)) l -> guard_list l -> all_ok (map norm l).
Proof.
  induction 1 as [|x l Hx _ IH]; cbn [guard_list all_ok fold_right map]; [auto|].
  intros [Hg Hl]. split; [apply Hx, Hg | apply IH, Hl].
Qed.

Lemma norm_ok p : guard p -> part_ok (norm p).
Proof.
  induction p as [t|n|n cases d IHc IHd] using npart_ind'; cbn [guard norm part_ok]; try tauto.
  intros (Hn & Hc & Hd). split; [exact Hn|]. split; [|split].
  - clear Hd IHd. induction IHc as [|c cases Hc0 _ IH]; cbn [map fold_right snd]; [exact I|].
    cbn [fold_right] in Hc. destruct Hc as [Hb Hrest]. split; [|apply IH, Hrest].
    split; [apply join_texts_sep | apply join_texts_all_ok, all_ok_map_norm; assumption].
  - apply join_texts_sep.
  - apply join_texts_all_ok, all_ok_map_norm; assumption.
Qed.

Lemma normalize_ok l : guard_list l -> parts_ok (normalize l).
Proof.
  intros Hg. split; [apply join_texts_sep|].
  apply join_texts_all_ok, all_ok_map_norm; [|exact Hg].
  apply Forall_forall. intros x _. apply norm_ok.
Qed.

(* Full form: for any two bodies satisfying the guard, equal braced placeholder
   strings mean equal bodies once adjacent raw texts are joined. *)
Theorem phstring_injective_normalized l1 l2 :
  guard_list l1 -> guard_list l2 -> write_fp_list true l1 = write_fp_list true l2 ->
  normalize l1 = normalize l2.
Proof.
  intros H1 H2 H. apply phstring_injective; [apply normalize_ok, H1 | apply normalize_ok, H2|].
  rewrite !normalize_string. exact H.
Qed.

(* names handed out by the algorithm satisfy the guard when the base names do *)
Lemma sfx_name_ok base n : name_ok base -> name_ok (sfx_name base n).
Proof.
  intros H. unfold sfx_name. apply Forall_app. split; [exact H|].
  constructor; [unfold is_name_end; lia|].
  eapply Forall_impl; [|apply dec_of_N_digits]. cbn. unfold is_digit_byte, is_name_end. intros a Ha. lia.
Qed.

(* ================================================================== *)
(* L. no name is used twice; the names satisfy the guard              *)
(* ================================================================== *)

Lemma sel_In b s es : In s (sel b es) <-> In (b, s) es.
Proof.
  unfold sel. rewrite in_map_iff. split.
  - intros [[b' s'] [Hs Hin]]. cbn in Hs. subst s'. apply filter_In in Hin. destruct Hin as [Hin Hb].
    cbn in Hb. apply bstr_eqb_eq in Hb. subst. exact Hin.
  - intros Hin. exists (b, s). split; [reflexivity|]. apply filter_In. split; [exact Hin | apply bstr_eqb_refl].
Qed.

Lemma dedup_from_In x l : forall seen, In x (dedup_from seen l) <-> In x seen \/ In x l.
Proof.
  induction l as [|y l IH]; intros seen; cbn [dedup_from In]; [tauto|].
  rewrite IH. destruct (existsb (bstr_eqb y) seen) eqn:E.
  - fold (mem_s y seen) in E. apply mem_s_In in E. split; [tauto|]. intros [H|[<-|H]]; tauto.
  - rewrite in_app_iff. cbn [In]. tauto.
Qed.

Lemma variants_In es b s : In s (variants es b) <-> In (b, s) es.
Proof. unfold variants. fold (sel b es). rewrite dedup_from_In, sel_In. cbn. tauto. Qed.

Lemma NoDup_fst_functional {A B} (l : list (A * B)) k v v' :
  NoDup (map fst l) -> In (k, v) l -> In (k, v') l -> v = v'.
Proof.
  induction l as [|[k0 v0] l IH]; cbn [map fst In]; [tauto|]. intros Hnd H1 H2.
  inversion Hnd as [|x y Hnotin Hnd']; subst.
  destruct H1 as [E1|H1], H2 as [E2|H2].
  - congruence.
  - injection E1 as -> ->. exfalso. apply Hnotin. apply (in_map fst) in H2. exact H2.
  - injection E2 as -> ->. exfalso. apply Hnotin. apply (in_map fst) in H1. exact H1.
  - eapply IH; eassumption.
Qed.

Section Cover.
  Variables (order : list bstr -> list bstr) (body : list mpart) (es : list (bstr * bstr)) (nm : namemap).
  Hypothesis Hp : is_perm order.
  Hypothesis Hes : msg_entries body = Ok es.
  Hypothesis Hnm : msg_names order body = Ok nm.

  Let tbl := rep_table es.
  Let bases := map fst tbl.

  Lemma nm_is_writes : nm = flat_map (writes tbl) (order bases).
  Proof.
    unfold msg_names in Hnm. rewrite Hes in Hnm. cbn [bind] in Hnm.
    rewrite (step2_rep_table order es Hp) in Hnm. injection Hnm as <-. reflexivity.
  Qed.

  Lemma order_bases_NoDup : NoDup (order bases).
  Proof. eapply Permutation_NoDup; [apply Permutation_sym, Hp | apply rep_table_keys_NoDup]. Qed.

  Lemma nm_names_NoDup : NoDup (map fst nm).
  Proof. rewrite nm_is_writes. apply all_names_NoDup, order_bases_NoDup. Qed.

  Lemma nm_nodes_NoDup : NoDup (map snd nm).
  Proof. rewrite nm_is_writes. apply all_nodes_NoDup; [apply rep_table_strs_NoDup | apply order_bases_NoDup]. Qed.

  (* every placeholder of the message is named *)
  Lemma names_cover b s : In (b, s) es -> In (name_of nm b s, (b, s)) nm.
  Proof.
    intros Hin. apply variants_In in Hin.
    assert (assoc_s b tbl = Some (variants es b)) as Ha.
    { unfold tbl. rewrite rep_table_assoc. destruct (variants es b); [destruct Hin | reflexivity]. }
    assert (In (b, s) (map snd (writes tbl b))) as Hw.
    { rewrite (writes_nodes tbl b _ Ha). apply in_map, Hin. }
    apply in_map_iff in Hw. destruct Hw as [[name node] [Heq Hw]]. cbn in Heq. subst node.
    assert (In (name, (b, s)) nm) as Hn.
    { rewrite nm_is_writes. apply in_flat_map. exists b. split; [|exact Hw].
      eapply Permutation_in; [apply Permutation_sym, Hp|]. apply assoc_s_In in Ha. apply (in_map fst) in Ha. exact Ha. }
    rewrite (name_of_In nm name b s nm_nodes_NoDup Hn). exact Hn.
  Qed.

  (* a name is never used for two distinct placeholders *)
  Theorem names_distinct b s b' s' :
    In (b, s) es -> In (b', s') es -> name_of nm b s = name_of nm b' s' -> (b, s) = (b', s').
  Proof.
    intros H1 H2 Heq. apply names_cover in H1, H2. rewrite Heq in H1.
    eapply NoDup_fst_functional; [apply nm_names_NoDup | exact H1 | exact H2].
  Qed.

  (* a name is the base name or the base name with a numeric suffix (or empty
     for a node that is not in the message) *)
  Lemma name_of_shape b s :
    name_of nm b s = [] \/ name_of nm b s = b \/ exists k, name_of nm b s = sfx_name b k.
  Proof.
    destruct (in_dec node_eq_dec (b, s) (map snd nm)) as [Hin|Hnin]; [|left; apply name_of_notin, Hnin].
    right. apply in_map_iff in Hin. destruct Hin as [[name node] [Heq Hin]]. cbn in Heq. subst node.
    rewrite (name_of_In nm name b s nm_nodes_NoDup Hin).
    rewrite nm_is_writes in Hin. apply in_flat_map in Hin. destruct Hin as [k [_ Hw]].
    assert (k = b) as ->.
    { destruct (assoc_s k tbl) as [strs|] eqn:Hs.
      - apply (in_map snd) in Hw. rewrite (writes_nodes tbl k strs Hs) in Hw.
        apply in_map_iff in Hw. destruct Hw as [s0 [[= -> _] _]]. reflexivity.
      - unfold writes in Hw. rewrite Hs in Hw. destruct Hw. }
    apply (in_map fst) in Hw. apply writes_names in Hw. cbn [fst] in Hw.
    destruct Hw as [[-> _]|(n & _ & ->)]; [left; reflexivity | right; eauto].
  Qed.

  Lemma name_of_ok b s : name_ok b -> name_ok (name_of nm b s).
  Proof.
    intros Hb. destruct (name_of_shape b s) as [->|[->|[k ->]]]; [constructor | exact Hb | apply sfx_name_ok, Hb].
  Qed.
End Cover.

(* the guard on a message before naming: raw text without braces, base names
   without braces and commas (true of the base names genBasePlaceholderName
   produces from identifiers and tag names) *)
Fixpoint mguard (p : mpart) : Prop :=
  match p with
  | MText t => text_ok t
  | MPh b _ => name_ok b
  | MPlural b _ cases d =>
      name_ok b
      /\ fold_right (fun c acc => fold_right (fun x a => mguard x /\ a) True (snd c) /\ acc) True cases
      /\ fold_right (fun x a => mguard x /\ a) True d
  end.
Definition mguard_list (l : list mpart) : Prop := fold_right (fun x a => mguard x /\ a) True l.

Lemma guard_list_map_set_names nm l :
  Forall (fun x => mguard x -> guard (set_names nm x)) l -> mguard_list l -> guard_list (map (set_names nm) l).
Proof.
  induction 1 as [|x l Hx _ IH]; cbn [mguard_list guard_list fold_right map]; [auto|].
  intros [Hg Hl]. split; [apply Hx, Hg | apply IH, Hl].
Qed.

Lemma set_names_guard nm : (forall b s, name_ok b -> name_ok (name_of nm b s)) ->
  forall p, mguard p -> guard (set_names nm p).
Proof.
  intros Hn. induction p as [t|b s|b s cases d IHc IHd] using mpart_ind'; cbn [mguard set_names guard]; auto.
  intros (Hb & Hc & Hd). split; [apply Hn, Hb|]. split.
  - clear Hd IHd. induction IHc as [|c cases Hc0 _ IH]; cbn [map fold_right snd]; [exact I|].
    cbn [fold_right] in Hc. destruct Hc as [Hbody Hrest]. split; [|apply IH, Hrest].
    apply guard_list_map_set_names; assumption.
  - apply guard_list_map_set_names; assumption.
Qed.

Theorem phstring_determines_message order m1 m2 str :
  is_perm order -> mguard_list (m_body m1) -> mguard_list (m_body m2) ->
  placeholder_string order m1 = Ok str -> placeholder_string order m2 = Ok str ->
  exists n1 n2, msg_named order (m_body m1) = Ok n1 /\ msg_named order (m_body m2) = Ok n2 /\
                normalize n1 = normalize n2.
Proof.
  intros Hp Hg1 Hg2 H1 H2. unfold placeholder_string in H1, H2.
  assert (forall body named, mguard_list body -> msg_named order body = Ok named -> guard_list named) as Hguard.
  { intros body named Hg Hn. unfold msg_named in Hn.
    destruct (msg_names order body) as [nm| | | | |] eqn:Hnm; cbn [bind] in Hn; try discriminate.
    injection Hn as <-.
    destruct (msg_entries_total body) as [es Hes].
    apply guard_list_map_set_names; [|exact Hg].
    apply Forall_forall. intros x _. apply set_names_guard.
    intros b s. apply (name_of_ok order body es nm Hp Hes Hnm). }
  destruct (msg_named order (m_body m1)) as [n1| | | | |] eqn:E1; cbn [bind] in H1; try discriminate.
  destruct (msg_named order (m_body m2)) as [n2| | | | |] eqn:E2; cbn [bind] in H2; try discriminate.
  injection H1 as H1. injection H2 as H2.
  exists n1, n2. repeat split.
  apply phstring_injective_normalized; [apply (Hguard _ _ Hg1 E1) | apply (Hguard _ _ Hg2 E2) | congruence].
Qed.

(* ================================================================== *)
(* M. the rule is a function: at most one name per placeholder        *)
(* ================================================================== *)

Lemma official_name_unique es base j name name' :
  official_name es base j name -> official_name es base j name' -> name = name'.
Proof.
  unfold official_name.
  assert (forall n n', nth_available es base j n -> nth_available es base j n' -> n <= n') as Hle.
  { intros n n' (H1 & Ha & Hc) (H1' & Ha' & Hc').
    destruct (N.le_gt_cases n n') as [H|H]; [exact H|]. exfalso.
    (* n' < n: n' is available and below n, so n counts at least one more *)
    assert (forall d k, k = n' + 1 + N.of_nat d ->
              (length (filter (available es base) (below k)) >= S (length (filter (available es base) (below n'))))%nat) as Hmono.
    { induction d as [|d IHd]; intros k ->.
      - replace (n' + 1 + N.of_nat 0) with (n' + 1) by lia.
        unfold below. replace (N.to_nat (n' + 1) - 1)%nat with (S (N.to_nat n' - 1)) by lia.
        rewrite seq_S, map_app, filter_app, app_length. cbn [map filter].
        replace (N.of_nat (1 + (N.to_nat n' - 1))) with n' by lia. rewrite Ha'. cbn [length]. lia.
      - specialize (IHd (n' + 1 + N.of_nat d) eq_refl).
        replace (n' + 1 + N.of_nat (S d)) with ((n' + 1 + N.of_nat d) + 1) by lia.
        unfold below in *. replace (N.to_nat (n' + 1 + N.of_nat d + 1) - 1)%nat with (S (N.to_nat (n' + 1 + N.of_nat d) - 1)) by lia.
        rewrite seq_S, map_app, filter_app, app_length. lia. }
    specialize (Hmono (N.to_nat (n - (n' + 1))) n ltac:(lia)). lia. }
  destruct (variants es base) as [|s0 [|s1 r]].
  - intros (n & Hn & ->) (n' & Hn' & ->). f_equal. apply N.le_antisymm; apply Hle; assumption.
  - congruence.
  - intros (n & Hn & ->) (n' & Hn' & ->). f_equal. apply N.le_antisymm; apply Hle; assumption.
Qed.
