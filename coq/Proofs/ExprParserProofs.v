(* parse_show: parsing the tokens that the Spec printer writes for an expression tree gives
   back that tree -- for every well-formed tree (no bound on its size), every operator,
   every placement of required and redundant parentheses.  C17's round trip is the minimal
   style; print_injective follows.  Built from the rules of Proofs/ExprParserRules.v with
   the formulation of notes/spike-precedence-climbing.v (loop continuation, left/right spine
   conditions, strong induction on the size of the tree). *)
From Soy Require Import Model.Bytes Model.Num Model.Values Model.Ast Model.Token Model.NumLit Model.Quote Model.ExprParser
  Model.AstPrint Generated.Tables Spec.ExprSyntax Proofs.ExprParserRules Proofs.LiteralProofs Proofs.ValueProofs.
From Soy Require Proofs.FloatRtPrint.
Require Import Lia ZifyBool ZifyNat ZifyN.
Open Scope N_scope.

(* ================= finite facts about the regenerated tables ================= *)
Lemma op_tok_binary op : is_binary_op (op_tok_typ op) = true.
Proof. destruct op; reflexivity. Qed.

(* the parser's level of an operator is the Soy table's, except that ?: sits at 0 with the
   ternary (which parseExpr treats after its loop) *)
Lemma qlev_spec op : prec_of (op_tok_typ op) = match op with OElvis => 0 | _ => op_level op end.
Proof. destruct op; reflexivity. Qed.

Lemma new_binary_op_tok op p a c : new_binary_op (op_tok op p) a c = Some (NBin op p a c).
Proof. destruct op; reflexivity. Qed.

Lemma op_tok_not_ternif op : (op_tok_typ op =? pk_itemTernIf) = false.
Proof. destruct op; reflexivity. Qed.

Lemma op_tok_not_access op : access_start (op_tok_typ op) = false.
Proof. destruct op; reflexivity. Qed.

Lemma op_tok_not_dot_paren op : (op_tok_typ op =? pk_itemDotIdent) = false /\ (op_tok_typ op =? pk_itemLeftParen) = false.
Proof. destruct op; split; reflexivity. Qed.

Lemma op_level_pos op : 1 <= op_level op /\ op_level op <= 7.
Proof. destruct op; cbn; lia. Qed.

(* the Soy level below which the loop of parseExpr(p) stops *)
Definition ml (p : N) : N := if p =? 0 then 0 else N.max p 2.

Lemma ml_q op : ml (prec_of (op_tok_typ op) + 1) = op_level op + 1.
Proof. destruct op; reflexivity. Qed.

Lemma cont_level op p : ml p <= op_level op -> (prec_of (op_tok_typ op) <? p) = false.
Proof. intros H. rewrite qlev_spec. unfold ml in H. destruct (N.eqb_spec p 0); destruct op; cbn [op_level] in *; lia. Qed.

Lemma stop_level op p pos : op_level op < ml p -> stop_at p (op_tok op pos) = true.
Proof.
  intros H. unfold stop_at. cbn [t_typ op_tok tk]. rewrite op_tok_binary, qlev_spec, op_tok_not_ternif.
  unfold ml in H. destruct (N.eqb_spec p 0) as [E|E]; [destruct op; cbn [op_level] in *; lia|].
  replace (p =? 0) with false by lia. destruct op; cbn [op_level negb orb andb] in *; lia.
Qed.

Lemma stop_closer p t : closer t = true -> stop_at p t = true.
Proof.
  unfold closer, stop_at. intros H. apply andb_true_iff in H. destruct H as [H _].
  apply andb_true_iff in H. destruct H as [H1 H2]. rewrite H1. cbn [orb].
  apply negb_true_iff in H2. rewrite H2. rewrite andb_false_r. reflexivity.
Qed.

Lemma stop_ternif p : p <> 0 -> stop_at p T_ternif = true.
Proof. intros H. unfold stop_at. cbn [t_typ T_ternif tk]. change (is_binary_op pk_itemTernIf) with false. cbn [negb orb andb]. lia. Qed.

Lemma closer_not_access t : closer t = true -> access_start (t_typ t) = false.
Proof.
  unfold closer, access_start. intros H. apply andb_true_iff in H. destruct H as [_ H].
  apply negb_true_iff in H. repeat (apply orb_false_iff in H; destruct H as [H ?]).
  repeat match goal with E : (_ =? _) = false |- _ => rewrite E; clear E end. reflexivity.
Qed.

Lemma closer_not_dot_paren t : closer t = true -> (t_typ t =? pk_itemDotIdent) = false /\ (t_typ t =? pk_itemLeftParen) = false.
Proof.
  unfold closer. intros H. apply andb_true_iff in H. destruct H as [_ H].
  apply negb_true_iff in H. repeat (apply orb_false_iff in H; destruct H as [H ?]). split; assumption.
Qed.

(* ================= size ================= *)
Fixpoint size (e : node) : nat :=
  match e with
  | NFunc _ _ args => S (list_sum (map size args))
  | NListLit _ items => S (list_sum (map size items))
  | NMapLit _ items => S (list_sum (map (fun kv => size (snd kv)) items))
  | NDataRef _ _ acc => S (list_sum (map size acc))
  | NAccExpr _ _ a => S (size a)
  | NNot _ a | NNeg _ a => S (size a)
  | NBin _ _ a c => S (size a + size c)
  | NTern _ c x y => S (size c + size x + size y)
  | _ => 1%nat
  end.

Lemma list_sum_In {A} (f : A -> nat) x l : In x l -> (f x <= list_sum (map f l))%nat.
Proof.
  induction l as [|y l IH]; [intros []|]. change (list_sum (map f (y :: l))) with (f y + list_sum (map f l))%nat.
  intros [->|H]; [lia | specialize (IH H); lia].
Qed.

Lemma allP_In {A} (P : A -> Prop) l x : allP P l -> In x l -> P x.
Proof. induction l as [|y l IH]; cbn; [tauto|]. intros [Hy Hl] [->|H]; auto. Qed.

Lemma allP_app {A} (P : A -> Prop) l1 l2 : allP P (l1 ++ l2) <-> allP P l1 /\ allP P l2.
Proof. induction l1 as [|y l IH]; cbn; [tauto|]. rewrite IH. tauto. Qed.

(* ================= spines ================= *)
Section Style.
Variable sty : list nat -> nat.

Definition kL (path : list nat) (op : binop) (a : node) : nat := (sty (0%nat :: path) + b2n (expr_level a <? op_level op)%N)%nat.
Definition kR (path : list nat) (op : binop) (c : node) : nat := (sty (1%nat :: path) + b2n (expr_level c <? op_level op + 1)%N)%nat.
Definition kU (path : list nat) (a : node) : nat := (sty (0%nat :: path) + b2n (expr_level a <? lvl_unary)%N)%nat.
Definition kN (path : list nat) (a : node) : nat := (sty (0%nat :: path) + b2n ((expr_level a <? lvl_unary)%N || neg_literal a))%nat.
Definition kC (path : list nat) (c : node) : nat := (sty (0%nat :: path) + b2n (expr_level c <? lvl_ternary + 1)%N)%nat.

Definition is_tern (e : node) : bool := match e with NTern _ _ _ _ => true | _ => false end.

(* every operator on the unparenthesised left spine has level >= m *)
Fixpoint lspine (m : N) (path : list nat) (e : node) : Prop :=
  match e with
  | NBin op _ a _ => m <= op_level op /\ (kL path op a = 0%nat -> lspine m (0%nat :: path) a)
  | NTern _ _ _ _ => m = 0
  | _ => True
  end.

Fixpoint rspine (m : N) (path : list nat) (e : node) : Prop :=
  match e with
  | NBin op _ _ c => m <= op_level op /\ (kR path op c = 0%nat -> rspine m (1%nat :: path) c)
  | NTern _ _ _ _ => m = 0
  | _ => True
  end.

(* the item [t] that follows is not taken by any procedure still open on the right spine *)
Fixpoint rstops (path : list nat) (e : node) (t : tok) : Prop :=
  match e with
  | NBin op _ _ c => stop_at (prec_of (op_tok_typ op) + 1) t = true /\ (kR path op c = 0%nat -> rstops (1%nat :: path) c t)
  | NTern _ _ _ y => stop_at 0 t = true /\ (sty (2%nat :: path) = 0%nat -> rstops (2%nat :: path) y t)
  | NNot _ a => stop_at 8 t = true /\ (kU path a = 0%nat -> rstops (0%nat :: path) a t)
  | NNeg _ a => stop_at 8 t = true /\ (kN path a = 0%nat -> rstops (0%nat :: path) a t)
  | NDataRef _ _ _ => access_start (t_typ t) = false
  | NGlobal _ _ _ => (t_typ t =? pk_itemDotIdent) = false /\ (t_typ t =? pk_itemLeftParen) = false
  | _ => True
  end.

Lemma lspine_weaken m m' e : m' <= m -> forall path, lspine m path e -> lspine m' path e.
Proof.
  intros Hm. induction e; intros path; cbn [lspine]; auto; try lia.
  intros [H1 H2]. split; [lia|]. intros Hk. apply IHe1, H2, Hk.
Qed.

Lemma rspine_weaken m m' e : m' <= m -> forall path, rspine m path e -> rspine m' path e.
Proof.
  intros Hm. induction e; intros path; cbn [rspine]; auto; try lia.
  intros [H1 H2]. split; [lia|]. intros Hk. apply IHe2, H2, Hk.
Qed.

Lemma b2n_plus_0 a x : (a + b2n x = 0)%nat -> a = 0%nat /\ x = false.
Proof. destruct x; cbn; lia. Qed.

Lemma lspine_self e : forall path, lspine (expr_level e) path e.
Proof.
  induction e; intros path; cbn [lspine expr_level]; auto.
  split; [lia|]. intros Hk. apply b2n_plus_0 in Hk. destruct Hk as [_ Hk].
  apply lspine_weaken with (m := expr_level e1); [lia | apply IHe1].
Qed.

Lemma rspine_self e : forall path, rspine (expr_level e) path e.
Proof.
  induction e; intros path; cbn [rspine expr_level]; auto.
  split; [lia|]. intros Hk. apply b2n_plus_0 in Hk. destruct Hk as [_ Hk].
  apply rspine_weaken with (m := expr_level e2); [lia | apply IHe2].
Qed.

Lemma lspine_0 e path : lspine 0 path e.
Proof. apply lspine_weaken with (m := expr_level e); [lia | apply lspine_self]. Qed.

Lemma high_level_spines e m path : lvl_unary <= expr_level e -> lspine m path e /\ rspine m path e.
Proof. destruct e; cbn [expr_level lspine rspine]; auto; unfold lvl_unary, lvl_ternary; try lia. intros H. pose proof (op_level_pos op). lia. Qed.

Lemma rstops_closer e : forall path t, closer t = true -> rstops path e t.
Proof.
  induction e; intros path t Hc; cbn [rstops]; try exact I.
  - apply closer_not_dot_paren, Hc.
  - apply closer_not_access, Hc.
  - split; [apply stop_closer, Hc | intros _; apply IHe, Hc].
  - split; [apply stop_closer, Hc | intros _; apply IHe, Hc].
  - split; [apply stop_closer, Hc | intros _; apply IHe2, Hc].
  - split; [apply stop_closer, Hc | intros _; apply IHe3, Hc].
Qed.

(* a binary operator follows: fine when the right spine is at least as tight *)
Lemma rstops_op e : forall path op pos, rspine (op_level op) path e -> rstops path e (op_tok op pos).
Proof.
  induction e; intros path op' pos Hr; cbn [rstops]; try exact I.
  - apply op_tok_not_dot_paren.
  - apply op_tok_not_access.
  - split.
    + apply stop_level. pose proof (op_level_pos op'). change (ml 8) with 8. lia.
    + intros Hk. apply b2n_plus_0 in Hk. destruct Hk as [_ Hk]. apply IHe. apply high_level_spines. lia.
  - split.
    + apply stop_level. pose proof (op_level_pos op'). change (ml 8) with 8. lia.
    + intros Hk. apply b2n_plus_0 in Hk. destruct Hk as [_ Hk]. apply orb_false_iff in Hk. destruct Hk as [Hk _].
      apply IHe. apply high_level_spines. lia.
  - cbn [rspine] in Hr. destruct Hr as [H1 H2]. split.
    + apply stop_level. rewrite ml_q. lia.
    + intros Hk. apply IHe2, H2, Hk.
  - cbn [rspine] in Hr. pose proof (op_level_pos op'). lia.
Qed.

(* "?" follows: fine when no ternary is open on the right spine *)
Lemma rstops_ternif e : forall path, rspine 1 path e -> rstops path e T_ternif.
Proof.
  induction e; intros path Hr; cbn [rstops]; try exact I.
  - split; reflexivity.
  - reflexivity.
  - split; [apply stop_ternif; lia|]. intros Hk. apply b2n_plus_0 in Hk. destruct Hk as [_ Hk].
    apply IHe. apply high_level_spines. lia.
  - split; [apply stop_ternif; lia|]. intros Hk. apply b2n_plus_0 in Hk. destruct Hk as [_ Hk].
    apply orb_false_iff in Hk. destruct Hk as [Hk _]. apply IHe. apply high_level_spines. lia.
  - cbn [rspine] in Hr. destruct Hr as [H1 H2]. split; [apply stop_ternif; lia|].
    intros Hk. apply IHe2, H2, Hk.
  - cbn [rspine] in Hr. lia.
Qed.

(* ================= the first item of a printed expression ================= *)
Definition head_ok (x : tok) : Prop :=
  (t_typ x =? pk_itemRightParen) = false /\ (t_typ x =? pk_itemColon) = false /\ (t_typ x =? pk_itemRightBracket) = false.

Lemma split_dots_shape s : forall cur, exists f r, split_dots cur s = f :: r.
Proof. induction s as [|c s IH]; intros cur; cbn [split_dots]; [eauto|]. destruct (c =? 46); eauto. Qed.

Lemma split_dots_concat s : forall cur, List.concat (split_dots cur s) = cur ++ s.
Proof.
  induction s as [|c s IH]; intros cur; cbn [split_dots].
  - cbn. rewrite !app_nil_r. reflexivity.
  - destruct (N.eqb_spec c 46) as [->|_].
    + cbn [List.concat]. rewrite IH. reflexivity.
    + rewrite IH, <- app_assoc. reflexivity.
Qed.

Lemma parens_S k ts : parens (S k) ts = T_lparen :: parens k ts ++ [T_rparen].
Proof. reflexivity. Qed.

Lemma show_head e : wf_expr e -> forall path kk, exists x l, parens kk (show sty path e) = x :: l /\ head_ok x.
Proof.
  assert (HP : forall ts k, (exists x l, ts = x :: l /\ head_ok x) -> exists x l, parens k ts = x :: l /\ head_ok x).
  { intros ts [|k] H; [exact H|]. rewrite parens_S. do 2 eexists. split; [reflexivity|]. repeat split; reflexivity. }
  induction e; intros Hwf path kk; cbn [wf_expr] in Hwf; try contradiction; apply HP; cbn [show];
    try (do 2 eexists; split; [reflexivity|]; repeat split; reflexivity).
  - (* global *) unfold global_toks. destruct (split_dots_shape name []) as (f & r & E). rewrite E.
    do 2 eexists; split; [reflexivity|]; repeat split; reflexivity.
  - (* map literal *) destruct items; do 2 eexists; (split; [reflexivity|]); repeat split; reflexivity.
  - (* binary *) destruct Hwf as [H1 _]. destruct (IHe1 H1 (0%nat :: path) (kL path op e1)) as (x & l & E & Hx). unfold kL in E.
    rewrite E. do 2 eexists; split; [reflexivity|]; exact Hx.
  - (* ternary *) destruct Hwf as (_ & H1 & _). destruct (IHe1 H1 (0%nat :: path) (kC path e1)) as (x & l & E & Hx). unfold kC in E.
    rewrite E. do 2 eexists; split; [reflexivity|]; exact Hx.
Qed.

(* ================= the induction statement ================= *)
Definition Good (e : node) : Prop :=
  wf_expr e -> forall path,
    (is_tern e = false -> forall p t rest n' rest',
        lspine (ml p) path e -> rstops path e t ->
        Loops p e (t :: rest) n' rest' -> Parses p (show sty path e ++ t :: rest) n' rest') /\
    (is_tern e = true -> forall t rest,
        rstops path e t -> Parses 0 (show sty path e ++ t :: rest) e (t :: rest)).

Lemma ml_0_inv p : ml p = 0 -> p = 0.
Proof. unfold ml. destruct (N.eqb_spec p 0); lia. Qed.

Lemma Good_stop e : Good e -> wf_expr e -> forall path p t rest,
  lspine (ml p) path e -> rstops path e t -> stop_at p t = true ->
  Parses p (show sty path e ++ t :: rest) e (t :: rest).
Proof.
  intros HG Hwf path p t rest Hl Hr Hs. destruct (HG Hwf path) as [H1 H2].
  destruct (is_tern e) eqn:E.
  - destruct e; try discriminate. cbn [lspine] in Hl. apply ml_0_inv in Hl. subst p. apply H2; auto.
  - apply H1; auto. apply Loops_stop, Hs.
Qed.

Lemma app_cons_assoc {A} (l1 : list A) x l2 : (l1 ++ [x]) ++ l2 = l1 ++ x :: l2.
Proof. rewrite <- app_assoc. reflexivity. Qed.

Section Child.
Variable c : node.
Hypothesis Hg : Good c.
Hypothesis Hwf : wf_expr c.

Lemma child_closed0 q t rest : closer t = true -> Parses 0 (show sty q c ++ t :: rest) c (t :: rest).
Proof.
  intros Hc. apply Good_stop; auto; [apply lspine_0 | apply rstops_closer, Hc | apply stop_closer, Hc].
Qed.

Lemma child_wrapped k q l : First (parens (S k) (show sty q c) ++ l) c l.
Proof.
  revert l. induction k as [|k IH]; intros l; rewrite parens_S; cbn [app]; rewrite app_cons_assoc.
  - apply First_paren with (r := T_rparen); [reflexivity | | reflexivity]. cbn [parens]. apply child_closed0. reflexivity.
  - apply First_paren with (r := T_rparen); [reflexivity | | reflexivity].
    eapply Parses_first; [apply IH | apply Loops_stop; reflexivity].
Qed.

(* an operand in any context, with the continuation of the enclosing loop *)
Lemma child_operand p k q t rest n' rest' :
  (k = 0%nat -> is_tern c = false /\ lspine (ml p) q c /\ rstops q c t) ->
  Loops p c (t :: rest) n' rest' ->
  Parses p (parens k (show sty q c) ++ t :: rest) n' rest'.
Proof.
  intros Hk HL. destruct k as [|k].
  - destruct (Hk eq_refl) as (Ht & Hl & Hr). cbn [parens]. destruct (Hg Hwf q) as [H1 _]. apply H1; auto.
  - eapply Parses_first; [apply child_wrapped | exact HL].
Qed.

Lemma child_operand_stop p k q t rest :
  (k = 0%nat -> lspine (ml p) q c /\ rstops q c t) -> stop_at p t = true ->
  Parses p (parens k (show sty q c) ++ t :: rest) c (t :: rest).
Proof.
  intros Hk Hs. destruct k as [|k].
  - destruct (Hk eq_refl) as (Hl & Hr). cbn [parens]. apply Good_stop; auto.
  - eapply Parses_first; [apply child_wrapped | apply Loops_stop, Hs].
Qed.

Lemma child_closed k q t rest : closer t = true -> Parses 0 (parens k (show sty q c) ++ t :: rest) c (t :: rest).
Proof.
  intros Hc. apply child_operand_stop; [|apply stop_closer, Hc]. intros _. split; [apply lspine_0 | apply rstops_closer, Hc].
Qed.
End Child.

(* ================= lists of children ================= *)
Lemma mapi_from_cons {A B} (f : nat -> A -> B) i x r : mapi_from f i (x :: r) = f i x :: mapi_from f (S i) r.
Proof. reflexivity. Qed.
Lemma sep_join_cons2 sep x y r : sep_join sep (x :: y :: r) = x ++ sep ++ sep_join sep (y :: r).
Proof. reflexivity. Qed.

Definition arg_toks (path : list nat) (i : nat) (c : node) : list tok := parens (sty (i :: path)) (show sty (i :: path) c).

Definition all_good (cs : list node) : Prop := forall c, In c cs -> Good c /\ wf_expr c.

Lemma all_good_cons c cs : all_good (c :: cs) -> (Good c /\ wf_expr c) /\ all_good cs.
Proof. intros H. split; [apply H; left; reflexivity | intros x Hx; apply H; right; exact Hx]. Qed.

Lemma floop_chain p name path l : forall cs acc i, all_good cs -> cs <> [] ->
  FLoop p name acc (sep_join [T_comma] (mapi_from (arg_toks path) i cs) ++ T_rparen :: l) (NFunc p name (acc ++ cs)) l.
Proof.
  induction cs as [|c cs IHcs]; intros acc i Hall Hne; [congruence|].
  apply all_good_cons in Hall. destruct Hall as [[Hg Hw] Hall].
  destruct cs as [|c' cs'].
  - cbn [mapi_from sep_join]. apply FLoop_last with (r := T_rparen); [|reflexivity|reflexivity].
    apply child_closed; auto.
  - rewrite mapi_from_cons, mapi_from_cons, sep_join_cons2, <- !app_assoc. cbn [app].
    eapply FLoop_more with (c := T_comma) (e := c); [apply child_closed; auto | reflexivity |].
    specialize (IHcs (acc ++ [c]) (S i) Hall ltac:(discriminate)).
    rewrite <- app_assoc in IHcs. exact IHcs.
Qed.

Lemma lloop_chain p path l : forall cs acc i, all_good cs -> cs <> [] ->
  LLoop p acc (sep_join [T_comma] (mapi_from (arg_toks path) i cs) ++ T_rbracket :: l) (NListLit p (acc ++ cs)) l.
Proof.
  induction cs as [|c cs IHcs]; intros acc i Hall Hne; [congruence|].
  apply all_good_cons in Hall. destruct Hall as [[Hg Hw] Hall].
  destruct cs as [|c' cs'].
  - cbn [mapi_from sep_join]. apply LLoop_last with (r := T_rbracket); [|reflexivity].
    apply child_closed; auto.
  - rewrite mapi_from_cons, mapi_from_cons, sep_join_cons2, <- !app_assoc. cbn [app].
    eapply LLoop_more with (c := T_comma) (e := c); [apply child_closed; auto | reflexivity | reflexivity |].
    specialize (IHcs (acc ++ [c]) (S i) Hall ltac:(discriminate)).
    rewrite <- app_assoc in IHcs. exact IHcs.
Qed.

(* ---- map literals ---- *)
Definition item_toks (path : list nat) (i : nat) (kv : bstr * node) : list tok :=
  tk pk_itemString 0 (quote_key (fst kv)) :: T_colon :: parens (sty (i :: path)) (show sty (i :: path) (snd kv)).

Definition set_all (acc : list (bstr * node)) (l : list (bstr * node)) : list (bstr * node) :=
  fold_left (fun a kv => items_set a (fst kv) (snd kv)) l acc.

Definition all_good_kv (l : list (bstr * node)) : Prop :=
  forall kv, In kv l -> key_ok (fst kv) /\ Good (snd kv) /\ wf_expr (snd kv).

Lemma mloop_chain p path l : forall items acc i k v,
  Good v -> wf_expr v -> all_good_kv items ->
  MLoop p acc k (parens (sty (i :: path)) (show sty (i :: path) v) ++
                 match items with
                 | [] => T_rbracket :: l
                 | _ => T_comma :: sep_join [T_comma] (mapi_from (item_toks path) (S i) items) ++ T_rbracket :: l
                 end)
        (NMapLit p (set_all acc ((k, v) :: items))) l.
Proof.
  induction items as [|[k' v'] items IHi]; intros acc i k v Hg Hw Hall.
  - apply MLoop_last with (r := T_rbracket); [|reflexivity]. apply child_closed; auto.
  - assert (Hkv : key_ok k' /\ Good v' /\ wf_expr v') by (apply (Hall (k', v')); left; reflexivity).
    destruct Hkv as (Hk' & Hg' & Hw').
    assert (Hall' : all_good_kv items) by (intros x Hx; apply Hall; right; exact Hx).
    specialize (IHi (items_set acc k v) (S i) k' v' Hg' Hw' Hall').
    destruct items as [|kv2 items2].
    + cbn [mapi_from sep_join item_toks fst snd app] in *.
      eapply MLoop_more with (c := T_comma) (k := tk pk_itemString 0 (quote_key k')) (cl := T_colon) (key' := k') (e := v);
        [apply child_closed; auto | reflexivity | reflexivity | reflexivity | exact Hk' | reflexivity | exact IHi].
    + rewrite !mapi_from_cons, sep_join_cons2. cbn [item_toks fst snd app]. rewrite <- !app_assoc. cbn [app].
      eapply MLoop_more with (c := T_comma) (k := tk pk_itemString 0 (quote_key k')) (cl := T_colon) (key' := k') (e := v);
        [apply child_closed; auto | reflexivity | reflexivity | reflexivity | exact Hk' | reflexivity | ].
      rewrite mapi_from_cons in IHi. exact IHi.
Qed.

(* the parser's map insertions rebuild a duplicate-free item list *)
Lemma items_set_fresh acc k v : (forall kv, In kv acc -> bstr_eqb k (fst kv) = false) -> items_set acc k v = acc ++ [(k, v)].
Proof.
  induction acc as [|[k' v'] acc IH]; intros H; cbn [items_set app]; [reflexivity|].
  pose proof (H (k', v') (or_introl eq_refl)) as E. cbn [fst] in E. rewrite E. f_equal. apply IH. intros kv Hkv. apply H. right. exact Hkv.
Qed.

Fixpoint kv_nodup (l : list (bstr * node)) : Prop :=
  match l with
  | [] => True
  | kv :: r => (forall kv', In kv' r -> bstr_eqb (fst kv') (fst kv) = false) /\ kv_nodup r
  end.

Lemma set_all_distinct : forall l acc,
  (forall kv kv', In kv l -> In kv' acc -> bstr_eqb (fst kv) (fst kv') = false) -> kv_nodup l -> set_all acc l = acc ++ l.
Proof.
  induction l as [|[k v] l IH]; intros acc Hd Hn; unfold set_all; cbn [fold_left]; [rewrite app_nil_r; reflexivity|].
  destruct Hn as [Hn1 Hn2]. cbn [fst snd]. rewrite items_set_fresh.
  - fold (set_all (acc ++ [(k, v)]) l). rewrite IH; [rewrite <- app_assoc; reflexivity | | exact Hn2].
    intros kv kv' Hkv Hkv'. apply in_app_or in Hkv'. destruct Hkv' as [Hkv'|[<-|[]]].
    + apply Hd; [right; exact Hkv | exact Hkv'].
    + apply Hn1, Hkv.
  - intros kv' Hkv'. apply (Hd (k, v) kv'); [left; reflexivity | exact Hkv'].
Qed.

Lemma sorted_head_lt : forall r k, keys_sorted (k :: r) -> forall k', In k' r -> bstr_ltb k k' = true.
Proof.
  induction r as [|k1 r IH]; intros k Hs k' Hin; [destruct Hin|].
  cbn [keys_sorted] in Hs. destruct Hs as [H1 H2]. destruct Hin as [<-|Hin]; [exact H1|].
  apply bstr_ltb_trans with (y := k1); [exact H1 | apply IH; [exact H2 | exact Hin]].
Qed.

Lemma sorted_kv_nodup : forall l, keys_sorted (map fst l) -> kv_nodup l.
Proof.
  induction l as [|kv l IH]; intros Hs; cbn [kv_nodup]; [exact I|]. split.
  - intros kv' Hin. cbn [map] in Hs.
    pose proof (sorted_head_lt _ _ Hs (fst kv') (in_map fst _ _ Hin)) as Hlt.
    destruct (bstr_eqb_spec (fst kv') (fst kv)) as [E|_]; [|reflexivity].
    rewrite E, bstr_ltb_irrefl in Hlt. discriminate.
  - apply IH. cbn [map keys_sorted] in Hs. apply Hs.
Qed.

(* ---- data references ---- *)
Definition acc_ok (a : node) : Prop :=
  match a with
  | NAccIndex _ _ i => (0 <= i)%Z /\ in_int64 i = true
  | NAccKey _ _ _ => True
  | NAccExpr _ _ x => Good x /\ wf_expr x
  | _ => False
  end.

Lemma refloop_chain p key path t rest : access_start (t_typ t) = false ->
  forall accs done i, (forall a, In a accs -> acc_ok a) ->
  RefLoop p key done (List.concat (mapi_from (fun i a => show sty (i :: path) a) i accs) ++ t :: rest)
          (NDataRef p key (done ++ accs)) (t :: rest).
Proof.
  intros Ht. induction accs as [|a accs IH]; intros done i Hall.
  - cbn [mapi_from List.concat app]. rewrite app_nil_r. apply Ref_stop, Ht.
  - assert (Ha : acc_ok a) by (apply Hall; left; reflexivity).
    assert (Hall' : forall a, In a accs -> acc_ok a) by (intros x Hx; apply Hall; right; exact Hx).
    specialize (IH (done ++ [a]) (S i) Hall'). rewrite <- app_assoc in IH. cbn [app] in IH.
    rewrite mapi_from_cons. cbn [List.concat]. rewrite <- app_assoc.
    destruct a; cbn [acc_ok] in Ha; try contradiction; cbn [show].
    + (* .N *) destruct Ha as [Hi0 Hi64]. cbn [app].
      eapply Ref_idx with (ns := nullsafe) (ds := dec_of_Z i0) (i := i0);
        [destruct nullsafe; reflexivity | destruct nullsafe; reflexivity | destruct nullsafe; reflexivity | | apply parse_int_dec, Hi64 | exact IH].
      destruct nullsafe; cbn [t_val tk]; [apply (slice_from_app [63; 46]) | apply (slice_from_app [46])].
    + (* .key *) cbn [app].
      eapply Ref_key with (ns := nullsafe) (k := k);
        [destruct nullsafe; reflexivity | destruct nullsafe; reflexivity | | exact IH].
      destruct nullsafe; cbn [t_val tk]; [apply (slice_from_app [63; 46]) | apply (slice_from_app [46])].
    + (* [e] *) destruct Ha as [Hg Hw]. cbn [app]. rewrite <- app_assoc. cbn [app].
      eapply Ref_exp with (ns := nullsafe) (e := a) (r := T_rbracket);
        [destruct nullsafe; reflexivity | destruct nullsafe; reflexivity | destruct nullsafe; reflexivity | destruct nullsafe; reflexivity
        | apply child_closed; auto | reflexivity | exact IH].
Qed.

(* ---- globals ---- *)
Lemma gstep_chain p t rest : (t_typ t =? pk_itemDotIdent) = false ->
  forall parts name,
  GStep p name (map (fun s => tk pk_itemDotIdent 0 s) parts ++ t :: rest) (NGlobal p (name ++ List.concat parts) VUndef) (t :: rest).
Proof.
  intros Ht. induction parts as [|s parts IH]; intros name.
  - cbn [map List.concat app]. rewrite app_nil_r. apply GStep_stop, Ht.
  - cbn [map List.concat app]. apply GStep_dot; [reflexivity|]. cbn [t_val tk].
    specialize (IH (name ++ s)). rewrite <- app_assoc in IH. exact IH.
Qed.

(* ================= the cases of the induction ================= *)
Lemma Func_args' t ts x l n rest : ts = x :: l -> (t_typ x =? pk_itemRightParen) = false ->
  FLoop (t_pos t) (t_val t) [] ts n rest -> Func t ts n rest.
Proof. intros ->. apply Func_args. Qed.

Lemma sep_join_head sep X R : exists m, sep_join sep (X :: R) = X ++ m.
Proof. destruct R as [|Y R]; [exists []; cbn; rewrite app_nil_r; reflexivity | eexists; apply sep_join_cons2]. Qed.

Ltac first_value := apply First_value; [reflexivity | reflexivity | reflexivity | ].

Section Cases.
Variable n : nat.
Hypothesis IHn : forall e, (size e <= n)%nat -> Good e.

Lemma children_good cs : (list_sum (map size cs) <= n)%nat -> allP wf_expr cs -> all_good cs.
Proof.
  intros Hs Hw c Hc. split; [|eapply allP_In; eauto].
  apply IHn. pose proof (list_sum_In size c cs Hc). lia.
Qed.

Lemma first_func p name args path t rest : (size (NFunc p name args) <= S n)%nat -> wf_expr (NFunc p name args) ->
  First (show sty path (NFunc p name args) ++ t :: rest) (NFunc p name args) (t :: rest).
Proof.
  intros Hsz Hwf. cbn [size] in Hsz. cbn [wf_expr] in Hwf. cbn [show app]. rewrite app_cons_assoc.
  first_value. apply Value_func with (lp := T_lparen); [reflexivity | reflexivity |].
  destruct args as [|c cs].
  - cbn [mapi_from sep_join app]. apply Func_empty. reflexivity.
  - assert (Hall : all_good (c :: cs)) by (apply children_good; [lia | exact Hwf]).
    destruct (sep_join_head [T_comma] (arg_toks path 0 c) (mapi_from (arg_toks path) 1 cs)) as (m & Em).
    destruct (show_head c (proj2 (Hall c (or_introl eq_refl))) (0%nat :: path) (sty (0%nat :: path))) as (x & l & Ex & Hx).
    eapply Func_args' with (x := x).
    + change (mapi_from (fun i c0 => parens (sty (i :: path)) (show sty (i :: path) c0)) 0 (c :: cs)) with (arg_toks path 0 c :: mapi_from (arg_toks path) 1 cs).
      rewrite Em. unfold arg_toks at 1. rewrite Ex. reflexivity.
    + apply Hx.
    + exact (floop_chain p name path (t :: rest) (c :: cs) [] 0%nat Hall ltac:(discriminate)).
Qed.

Lemma LM_single' t ts x l first r l2 : ts = x :: l ->
  (t_typ x =? pk_itemColon) = false -> (t_typ x =? pk_itemRightBracket) = false ->
  Parses 0 ts first (r :: l2) ->
  (t_typ r =? pk_itemColon) = false -> (t_typ r =? pk_itemComma) = false -> (t_typ r =? pk_itemRightBracket) = true ->
  ListOrMap t ts (NListLit (t_pos t) [first]) l2.
Proof. intros ->. apply LM_single. Qed.

Lemma LM_list' t ts x l first c l2 nn rest : ts = x :: l ->
  (t_typ x =? pk_itemColon) = false -> (t_typ x =? pk_itemRightBracket) = false ->
  Parses 0 ts first (c :: l2) ->
  (t_typ c =? pk_itemColon) = false -> (t_typ c =? pk_itemComma) = true ->
  LLoop (t_pos t) [first] l2 nn rest -> ListOrMap t ts nn rest.
Proof. intros ->. apply LM_list. Qed.

Lemma first_list p items path t rest : (size (NListLit p items) <= S n)%nat -> wf_expr (NListLit p items) ->
  First (show sty path (NListLit p items) ++ t :: rest) (NListLit p items) (t :: rest).
Proof.
  intros Hsz Hwf. cbn [size] in Hsz. cbn [wf_expr] in Hwf. cbn [show app]. rewrite app_cons_assoc.
  first_value. apply Value_list; [reflexivity|].
  destruct items as [|c cs].
  - cbn [mapi_from sep_join app]. apply LM_empty_list; reflexivity.
  - assert (Hall : all_good (c :: cs)) by (apply children_good; [lia | exact Hwf]).
    destruct (all_good_cons _ _ Hall) as [[Hg Hw] Hall'].
    destruct (show_head c Hw (0%nat :: path) (sty (0%nat :: path))) as (x & l & Ex & Hx).
    change (mapi_from (fun i c0 => parens (sty (i :: path)) (show sty (i :: path) c0)) 0 (c :: cs)) with (arg_toks path 0 c :: mapi_from (arg_toks path) 1 cs).
    destruct cs as [|c' cs'].
    + cbn [mapi_from sep_join].
      eapply LM_single' with (x := x) (r := T_rbracket);
        [unfold arg_toks; rewrite Ex; reflexivity | apply Hx | apply Hx | apply child_closed; auto | reflexivity | reflexivity | reflexivity].
    + rewrite mapi_from_cons, sep_join_cons2, <- !app_assoc. cbn [app].
      eapply LM_list' with (x := x) (c := T_comma) (first := c);
        [unfold arg_toks at 1; rewrite Ex; reflexivity | apply Hx | apply Hx | apply child_closed; auto | reflexivity | reflexivity | ].
      exact (lloop_chain p path (t :: rest) (c' :: cs') [c] 1%nat Hall' ltac:(discriminate)).
Qed.

Lemma first_map p items path t rest : (size (NMapLit p items) <= S n)%nat -> wf_expr (NMapLit p items) ->
  First (show sty path (NMapLit p items) ++ t :: rest) (NMapLit p items) (t :: rest).
Proof.
  intros Hsz Hwf. cbn [size] in Hsz. cbn [wf_expr] in Hwf. destruct Hwf as [Hwf Hsorted]. cbn [show].
  destruct items as [|[k v] items].
  - cbn [app]. first_value. apply Value_list; [reflexivity|]. apply LM_empty_map; reflexivity.
  - cbn [app]. rewrite app_cons_assoc. first_value. apply Value_list; [reflexivity|].
    assert (Hall : all_good_kv ((k, v) :: items)).
    { intros kv Hkv. pose proof (allP_In _ _ _ Hwf Hkv) as [H1 H2]. split; [exact H1|]. split; [|exact H2].
      apply IHn. pose proof (list_sum_In (fun kv => size (snd kv)) kv _ Hkv). lia. }
    destruct (Hall (k, v) (or_introl eq_refl)) as (Hk & Hg & Hw). cbn [fst snd] in Hk, Hg, Hw.
    assert (Hall' : all_good_kv items) by (intros x Hx; apply Hall; right; exact Hx).
    pose proof (mloop_chain p path (t :: rest) items [] 0%nat k v Hg Hw Hall') as HM.
    rewrite (set_all_distinct ((k, v) :: items) []) in HM; [| intros ? ? _ [] | apply sorted_kv_nodup, Hsorted].
    cbn [app] in HM.
    change (mapi_from (fun i kv => tk pk_itemString 0 (quote_key (fst kv)) :: T_colon :: parens (sty (i :: path)) (show sty (i :: path) (snd kv))) 0 ((k, v) :: items))
      with (item_toks path 0 (k, v) :: mapi_from (item_toks path) 1 items).
    assert (HS : forall tail, Parses 0 (tk pk_itemString 0 (quote_key k) :: T_colon :: tail) (NString 0 (quote_key k) k) (T_colon :: tail)).
    { intros tail. eapply Parses_first; [|apply Loops_stop; reflexivity]. first_value.
      apply (Value_string (tk pk_itemString 0 (quote_key k))); [reflexivity | exact Hk]. }
    destruct items as [|kv2 items2].
    + cbn [mapi_from sep_join item_toks fst snd app].
      eapply LM_map with (c := T_colon); [reflexivity | reflexivity | apply HS | reflexivity | exact HM].
    + rewrite mapi_from_cons, sep_join_cons2. cbn [item_toks fst snd app]. rewrite <- !app_assoc. cbn [app].
      eapply LM_map with (c := T_colon); [reflexivity | reflexivity | apply HS | reflexivity | ].
      rewrite mapi_from_cons in HM. exact HM.
Qed.

Lemma first_ref p key acc path t rest : (size (NDataRef p key acc) <= S n)%nat -> wf_expr (NDataRef p key acc) ->
  access_start (t_typ t) = false ->
  First (show sty path (NDataRef p key acc) ++ t :: rest) (NDataRef p key acc) (t :: rest).
Proof.
  intros Hsz Hwf Ht. cbn [size] in Hsz. cbn [wf_expr] in Hwf. cbn [show app].
  first_value. eapply Value_ref with (key := key); [reflexivity | apply (slice_from_app [36]) |]. cbn [t_pos tk].
  apply (refloop_chain p key path t rest Ht acc [] 0%nat).
  intros a Ha. pose proof (allP_In _ _ _ Hwf Ha) as Hwa. pose proof (list_sum_In size a acc Ha) as Hsa.
  destruct a; cbn [acc_ok]; try contradiction; auto.
  split; [|exact Hwa]. apply IHn. cbn [size] in Hsa. lia.
Qed.

Lemma first_global p name path t rest :
  (t_typ t =? pk_itemDotIdent) = false -> (t_typ t =? pk_itemLeftParen) = false ->
  First (show sty path (NGlobal p name VUndef) ++ t :: rest) (NGlobal p name VUndef) (t :: rest).
Proof.
  intros Ht1 Ht2. cbn [show]. unfold global_toks.
  pose proof (split_dots_concat name []) as Hc. destruct (split_dots_shape name []) as (f & r & E). rewrite E in *.
  cbn [List.concat app] in Hc. cbn [app]. first_value.
  pose proof (gstep_chain p t rest Ht1 r f) as HG. rewrite Hc in HG.
  destruct r as [|s r].
  - cbn [map app] in *. apply Value_global; [reflexivity | exact Ht2 | exact HG].
  - cbn [map app] in *. apply Value_global; [reflexivity | reflexivity | exact HG].
Qed.

Lemma level_not_tern e m : 1 <= m -> (expr_level e <? m) = false -> is_tern e = false.
Proof. destruct e; cbn [expr_level is_tern]; auto. unfold lvl_ternary. lia. Qed.

Lemma unary_operand a path k t rest : (size a <= n)%nat -> wf_expr a ->
  (k = 0%nat -> (expr_level a <? lvl_unary) = false /\ rstops (0%nat :: path) a t) -> stop_at 8 t = true ->
  Parses 8 (parens k (show sty (0%nat :: path) a) ++ t :: rest) a (t :: rest).
Proof.
  intros Hsz Hw Hk Hs. apply child_operand_stop; [apply IHn, Hsz | exact Hw | | exact Hs].
  intros E. destruct (Hk E) as [Hl Hr]. split; [|exact Hr]. apply high_level_spines. lia.
Qed.

Lemma case_bin op p a c path p0 t rest n' rest' :
  (size (NBin op p a c) <= S n)%nat -> wf_expr (NBin op p a c) ->
  lspine (ml p0) path (NBin op p a c) -> rstops path (NBin op p a c) t ->
  Loops p0 (NBin op p a c) (t :: rest) n' rest' ->
  Parses p0 (show sty path (NBin op p a c) ++ t :: rest) n' rest'.
Proof.
  intros Hsz [Hwa Hwc] [Hl1 Hl2] [Hr1 Hr2] HL. cbn [size] in Hsz. cbn [show]. fold (kL path op a). fold (kR path op c).
  rewrite <- app_assoc. cbn [app].
  pose proof (op_level_pos op) as Hop.
  assert (HB : Parses (prec_of (op_tok_typ op) + 1) (parens (kR path op c) (show sty (1%nat :: path) c) ++ t :: rest) c (t :: rest)).
  { apply child_operand_stop; [apply IHn; lia | exact Hwc | | exact Hr1].
    intros E. split; [|apply Hr2, E]. rewrite ml_q. apply b2n_plus_0 in E. destruct E as [_ E].
    apply lspine_weaken with (m := expr_level c); [lia | apply lspine_self]. }
  assert (HLa : Loops p0 a (op_tok op p :: parens (kR path op c) (show sty (1%nat :: path) c) ++ t :: rest) n' rest').
  { eapply Loops_step with (n2 := c); [apply op_tok_binary | apply cont_level, Hl1 | exact HB | apply new_binary_op_tok | exact HL]. }
  apply child_operand; [apply IHn; lia | exact Hwa | | exact HLa].
  intros E. pose proof (b2n_plus_0 _ _ E) as [_ E']. split; [|split].
  - apply level_not_tern with (m := op_level op); [lia | exact E'].
  - apply Hl2, E.
  - apply rstops_op. apply rspine_weaken with (m := expr_level a); [lia | apply rspine_self].
Qed.

Lemma case_tern p c x y path t rest :
  (size (NTern p c x y) <= S n)%nat -> wf_expr (NTern p c x y) -> rstops path (NTern p c x y) t ->
  Parses 0 (show sty path (NTern p c x y) ++ t :: rest) (NTern p c x y) (t :: rest).
Proof.
  intros Hsz (Hp & Hwc & Hwx & Hwy) [Hr1 Hr2]. cbn [size] in Hsz. subst p. cbn [show]. fold (kC path c).
  rewrite <- app_assoc. cbn [app]. rewrite <- app_assoc. cbn [app].
  assert (HY : Parses 0 (parens (sty (2%nat :: path)) (show sty (2%nat :: path) y) ++ t :: rest) y (t :: rest)).
  { apply child_operand_stop; [apply IHn; lia | exact Hwy | | exact Hr1]. intros E. split; [apply lspine_0 | apply Hr2, E]. }
  assert (HX : Parses 0 (parens (sty (1%nat :: path)) (show sty (1%nat :: path) x) ++ T_colon :: parens (sty (2%nat :: path)) (show sty (2%nat :: path) y) ++ t :: rest)
                      x (T_colon :: parens (sty (2%nat :: path)) (show sty (2%nat :: path) y) ++ t :: rest)).
  { apply child_closed; [apply IHn; lia | exact Hwx | reflexivity]. }
  apply child_operand; [apply IHn; lia | exact Hwc | |].
  - intros E. pose proof (b2n_plus_0 _ _ E) as [_ E']. split; [|split].
    + apply level_not_tern with (m := lvl_ternary + 1); [unfold lvl_ternary; lia | exact E'].
    + apply lspine_0.
    + apply rstops_ternif. apply rspine_weaken with (m := expr_level c); [unfold lvl_ternary in E'; lia | apply rspine_self].
  - eapply Loops_tern with (c := T_colon); [reflexivity | exact HX | reflexivity | exact HY].
Qed.

Lemma Good_step e : (size e <= S n)%nat -> Good e.
Proof.
  intros Hsz Hwf path.
  assert (HP : (forall t rest, rstops path e t -> First (show sty path e ++ t :: rest) e (t :: rest)) ->
               forall p t rest n' rest', rstops path e t -> Loops p e (t :: rest) n' rest' ->
               Parses p (show sty path e ++ t :: rest) n' rest').
  { intros HF p t rest n' rest' Hr HL. eapply Parses_first; [apply HF, Hr | exact HL]. }
  destruct e; cbn [wf_expr] in Hwf; try contradiction;
    (split; [intros Hnt p0 t rest n' rest' Hl Hr HL; try discriminate Hnt | intros Ht; try discriminate Ht]).
  - (* null *) eapply HP; eauto. intros. cbn [show app]. first_value. apply (Value_null (tk pk_itemNull p s_null)). reflexivity.
  - (* bool *) eapply HP; eauto. intros. cbn [show app]. first_value.
    destruct x; [exact (Value_bool (tk pk_itemBool p s_true) _ eq_refl) | exact (Value_bool (tk pk_itemBool p s_false) _ eq_refl)].
  - (* int *) eapply HP; eauto. intros. cbn [show app]. first_value.
    apply (Value_int (tk pk_itemInteger p (dec_of_Z z))); [reflexivity|]. cbn [t_val tk].
    rewrite dec_of_Z_no_0x. apply parse_int_dec, Hwf.
  - (* float *) eapply HP; eauto. intros. cbn [show app]. destruct Hwf as (Hnorm & s & Hs1). rewrite Hs1. first_value.
    apply (Value_float_round (tk pk_itemFloat p s)); [reflexivity | exact (FloatRtPrint.fl_print_parse _ _ Hnorm Hs1)].
  - (* string *) eapply HP; eauto. intros. cbn [show app]. first_value.
    apply (Value_string (tk pk_itemString p quoted)); [reflexivity | exact Hwf].
  - (* global *) subst v. eapply HP; eauto. intros ? ? [H1 H2]. apply first_global; assumption.
  - (* function *) eapply HP; eauto. intros. apply first_func; assumption.
  - (* list *) eapply HP; eauto. intros. apply first_list; assumption.
  - (* map *) eapply HP; eauto. intros. apply first_map; assumption.
  - (* data reference *) eapply HP; eauto. intros ? ? H. apply first_ref; assumption.
  - (* not *) eapply HP; eauto. intros t0 rest0 [H1 H2]. cbn [show app]. fold (kU path e).
    eapply First_unary with (a := e); [reflexivity | | reflexivity].
    change (prec_of (t_typ (tk pk_itemNot p s_not))) with 8. cbn [size] in Hsz.
    apply unary_operand; [lia | exact Hwf | | exact H1]. intros E. split; [apply (b2n_plus_0 _ _ E) | apply H2, E].
  - (* negate *) eapply HP; eauto. intros t0 rest0 [H1 H2]. cbn [show app]. fold (kN path e).
    eapply First_unary with (a := e); [reflexivity | | reflexivity].
    change (prec_of (t_typ (tk pk_itemNegate p [45]))) with 8. cbn [size] in Hsz.
    apply unary_operand; [lia | exact Hwf | | exact H1]. intros E. split; [|apply H2, E].
    pose proof (b2n_plus_0 _ _ E) as [_ E']. apply orb_false_iff in E'. apply E'.
  - (* binary *) apply case_bin; assumption.
  - (* ternary *) intros t rest Hr. apply case_tern; assumption.
Qed.
End Cases.

Theorem all_Good : forall n e, (size e <= n)%nat -> Good e.
Proof.
  induction n as [|n IH]; intros e Hsz.
  - destruct e; cbn [size] in Hsz; lia.
  - apply (Good_step n IH), Hsz.
Qed.
End Style.

(* ================= theorems ================= *)

Lemma Good_all sty e : Good sty e.
Proof. apply (all_Good sty (size e)). lia. Qed.

(* C01 (syntax): the tokens the Spec printer writes for a tree, under ANY placement of
   redundant parentheses [sty], parse back to that tree, leaving exactly what follows --
   precedence and associativity of every operator, all literal forms, data references,
   calls, list and map literals; trees of any size. *)
Theorem parse_show sty path e t rest :
  wf_expr e -> closer t = true -> Parses 0 (show sty path e ++ t :: rest) e (t :: rest).
Proof. intros Hwf Hc. apply child_closed0; [apply Good_all | exact Hwf | exact Hc]. Qed.

(* the same, spelled out on the model's entry point (parse.Expr): some fuel suffices, every
   larger fuel gives the same result, and the items left are exactly those after the expression *)
Theorem parse_show_top sty path e t rest :
  wf_expr e -> closer t = true ->
  exists st' f0, stream st' = t :: rest /\
    forall f, (f0 <= f)%nat -> parse_expr_top f (show sty path e ++ t :: rest) = POk e st'.
Proof.
  intros Hwf Hc. destruct (stream_init (show sty path e ++ t :: rest)) as [Hs Hi].
  destruct (parse_show sty path e t rest Hwf Hc _ Hs Hi) as (st' & Hs' & _ & f0 & Hf).
  exists st', f0. split; [exact Hs'|]. intros f Hle. apply (Hf f f); exact Hle.
Qed.

(* parsing at any operand level p: an expression whose operators all bind at least as
   tightly as p is read in full, and the parser stops at the first operator that binds less
   tightly (left associativity is the case "equal level") *)
Theorem parse_show_level sty path e p t rest :
  wf_expr e -> lspine sty (ml p) path e -> rstops sty path e t -> stop_at p t = true ->
  Parses p (show sty path e ++ t :: rest) e (t :: rest).
Proof. intros Hwf Hl Hr Hs. apply Good_stop; auto. apply Good_all. Qed.

(* C17: the minimal style is what ast/node.go prints *)
Theorem parse_print_roundtrip e t rest :
  wf_expr e -> closer t = true ->
  exists st' f0, stream st' = t :: rest /\
    forall f, (f0 <= f)%nat -> parse_expr_top f (tokens_of e ++ t :: rest) = POk e st'.
Proof. apply parse_show_top. Qed.

Theorem tokens_of_injective e1 e2 : wf_expr e1 -> wf_expr e2 -> tokens_of e1 = tokens_of e2 -> e1 = e2.
Proof.
  intros H1 H2 E.
  destruct (parse_print_roundtrip e1 T_rdelim [] H1 eq_refl) as (s1 & f1 & _ & F1).
  destruct (parse_print_roundtrip e2 T_rdelim [] H2 eq_refl) as (s2 & f2 & _ & F2).
  specialize (F1 (max f1 f2) ltac:(lia)). specialize (F2 (max f1 f2) ltac:(lia)).
  rewrite E in F1. rewrite F1 in F2. inversion F2. reflexivity.
Qed.

(* ================= print commands ================= *)
Section PrintCmd.
Variable sty : list nat -> nat.

Definition dir_arg_toks (path : list nat) (i : nat) (c : node) : list tok :=
  (if Nat.eqb i 0 then T_colon else T_comma) :: parens (sty (i :: path)) (show sty (i :: path) c).

Lemma dargs_chain path t rest :
  ((t_typ t =? pk_itemColon) || (t_typ t =? pk_itemComma)) = false -> closer t = true ->
  forall cs done i, allP wf_expr cs ->
  DArgs done (List.concat (mapi_from (dir_arg_toks path) i cs) ++ t :: rest) (done ++ cs) (t :: rest).
Proof.
  intros Ht Hc. induction cs as [|c cs IH]; intros done i Hw.
  - cbn [mapi_from List.concat app]. rewrite app_nil_r. apply DArgs_stop, Ht.
  - destruct Hw as [Hwc Hw]. rewrite mapi_from_cons. cbn [List.concat]. unfold dir_arg_toks at 1. cbn [app].
    rewrite <- app_assoc. specialize (IH (done ++ [c]) (S i) Hw). rewrite <- app_assoc in IH. cbn [app] in IH.
    destruct cs as [|c' cs'].
    + cbn [mapi_from List.concat app] in *.
      eapply DArgs_more with (e := c); [destruct (Nat.eqb i 0); reflexivity | | exact IH].
      apply child_closed; [apply Good_all | exact Hwc | exact Hc].
    + rewrite mapi_from_cons in *. cbn [List.concat] in *. unfold dir_arg_toks at 1. unfold dir_arg_toks at 1 in IH.
      cbn [Nat.eqb app] in *. rewrite <- app_assoc in *.
      eapply DArgs_more with (e := c); [destruct (Nat.eqb i 0); reflexivity | | exact IH].
      apply child_closed; [apply Good_all | exact Hwc | reflexivity].
Qed.

Lemma show_directive_shape path d : wf_directive d ->
  exists p name args, d = NDirective p name args /\ allP wf_expr args /\
    show_directive sty path d = tk pk_itemPipe p [124] :: tk pk_itemIdent 0 name :: List.concat (mapi_from (dir_arg_toks path) 0 args).
Proof. destruct d; cbn [wf_directive]; try contradiction. intros Hw. do 3 eexists. split; [reflexivity|]. split; [exact Hw | reflexivity]. Qed.

Lemma ploop_chain p e path rest : forall ds done i, allP wf_directive ds ->
  PLoop p e done (List.concat (mapi_from (fun i d => show_directive sty (S i :: path) d) i ds) ++ T_rdelim :: rest)
        (NPrint p e (done ++ ds)) rest.
Proof.
  induction ds as [|d ds IH]; intros done i Hw.
  - cbn [mapi_from List.concat app]. rewrite app_nil_r. apply PLoop_end. reflexivity.
  - destruct Hw as [Hwd Hw]. rewrite mapi_from_cons. cbn [List.concat].
    destruct (show_directive_shape (S i :: path) d Hwd) as (pd & name & args & -> & Hwa & ->).
    specialize (IH (done ++ [NDirective pd name args]) (S i) Hw). rewrite <- app_assoc in IH. cbn [app] in IH.
    cbn [app]. rewrite <- app_assoc.
    destruct ds as [|d' ds'].
    + cbn [mapi_from List.concat app] in *.
      eapply PLoop_dir with (args := args); [reflexivity | reflexivity | reflexivity | | exact IH].
      exact (dargs_chain (S i :: path) T_rdelim rest eq_refl eq_refl args [] 0%nat Hwa).
    + destruct Hw as [Hwd' Hw']. rewrite mapi_from_cons in *. cbn [List.concat] in *.
      destruct (show_directive_shape (S (S i) :: path) d' Hwd') as (pd' & name' & args' & -> & Hwa' & E').
      rewrite E' in *. cbn [app] in *.
      eapply PLoop_dir with (args := args); [reflexivity | reflexivity | reflexivity | | exact IH].
      exact (dargs_chain (S i :: path) (tk pk_itemPipe pd' [124]) _ eq_refl eq_refl args [] 0%nat Hwa).
Qed.

(* C17 for print commands: after "{" (or "{print"), the tokens of a print command -- its
   expression, its directives with their arguments, the closing brace -- parse back to it *)
Theorem parse_show_print path p arg dirs rest :
  wf_print (NPrint p arg dirs) ->
  ParsesPrint p (show_print sty path (NPrint p arg dirs) ++ rest) (NPrint p arg dirs) rest.
Proof.
  intros [Hwa Hwd]. cbn [show_print]. rewrite <- !app_assoc. cbn [app].
  pose proof (ploop_chain p arg path rest dirs [] 0%nat Hwd) as HP. cbn [app] in HP.
  eapply ParsesPrint_intro; [|exact HP].
  destruct dirs as [|d ds].
  - cbn [mapi_from List.concat app]. apply child_closed; [apply Good_all | exact Hwa | reflexivity].
  - destruct Hwd as [Hd _]. rewrite mapi_from_cons. cbn [List.concat].
    destruct (show_directive_shape (1%nat :: path) d Hd) as (pd & name & args & -> & _ & ->).
    cbn [app]. apply child_closed; [apply Good_all | exact Hwa | reflexivity].
Qed.
End PrintCmd.

Theorem parse_print_roundtrip_cmd p arg dirs rest :
  wf_print (NPrint p arg dirs) ->
  exists st' f0, stream st' = rest /\
    forall f, (f0 <= f)%nat ->
      parse_print f p (pst_init (tokens_of_print (NPrint p arg dirs) ++ rest)) = POk (NPrint p arg dirs) st'.
Proof.
  intros Hwf. destruct (stream_init (tokens_of_print (NPrint p arg dirs) ++ rest)) as [Hs Hi].
  destruct (parse_show_print sty_min [] p arg dirs rest Hwf _ Hs Hi) as (st' & Hs' & _ & f0 & Hf).
  exists st', f0. split; [exact Hs'|]. intros f Hle. apply (Hf f f); exact Hle.
Qed.

(* ================= equality up to positions ================= *)
Lemma size_induction (P : node -> Prop) :
  (forall e, (forall c, (size c < size e)%nat -> P c) -> P e) -> forall e, P e.
Proof.
  intros H e. assert (G : forall n c, (size c < n)%nat -> P c).
  { induction n as [|n IH]; intros c Hc; [lia|]. apply H. intros d Hd. apply IH. lia. }
  apply (G (S (size e))). lia.
Qed.

Lemma map_parens k ts : map strip_tok (parens k ts) = parens k (map strip_tok ts).
Proof. induction k as [|k IH]; [reflexivity|]. cbn [parens map]. rewrite map_app, IH. reflexivity. Qed.

Lemma map_sep_join ls : map strip_tok (sep_join [T_comma] ls) = sep_join [T_comma] (map (map strip_tok) ls).
Proof.
  induction ls as [|x ls IH]; [reflexivity|]. destruct ls as [|y ls]; [reflexivity|].
  rewrite sep_join_cons2, !map_app, IH. reflexivity.
Qed.

Lemma mapi_from_map {A B C} (f : nat -> B -> C) (g : A -> B) l : forall i,
  mapi_from f i (map g l) = mapi_from (fun i x => f i (g x)) i l.
Proof. induction l as [|x l IH]; intros i; [reflexivity|]. cbn [map]. rewrite !mapi_from_cons, IH. reflexivity. Qed.

Lemma map_mapi_from {A B C} (h : B -> C) (f : nat -> A -> B) l : forall i,
  map h (mapi_from f i l) = mapi_from (fun i x => h (f i x)) i l.
Proof. induction l as [|x l IH]; intros i; [reflexivity|]. rewrite !mapi_from_cons. cbn [map]. rewrite IH. reflexivity. Qed.

Lemma mapi_from_ext_in {A B} (f g : nat -> A -> B) l : (forall i x, In x l -> f i x = g i x) -> forall i,
  mapi_from f i l = mapi_from g i l.
Proof.
  induction l as [|x l IH]; intros H i; [reflexivity|]. rewrite !mapi_from_cons. f_equal.
  - apply H. left. reflexivity.
  - apply IH. intros j y Hy. apply H. right. exact Hy.
Qed.

Lemma expr_level_strip e : expr_level (strip_pos e) = expr_level e.
Proof. destruct e; reflexivity. Qed.
Lemma neg_literal_strip e : neg_literal (strip_pos e) = neg_literal e.
Proof. destruct e; reflexivity. Qed.

Lemma size_in_list (c : node) l : In c l -> (size c <= list_sum (map size l))%nat.
Proof. apply list_sum_In. Qed.

(* the printer does not look at positions *)
Lemma show_strip sty : forall e path, show sty path (strip_pos e) = map strip_tok (show sty path e).
Proof.
  induction e as [e IH] using size_induction. intros path.
  destruct e; try reflexivity; cbn [strip_pos show].
  - (* global *) unfold global_toks. destruct (split_dots [] name) as [|f r]; [reflexivity|].
    cbn [map]. f_equal. rewrite map_map. reflexivity.
  - (* function *) cbn [map]. do 2 f_equal. rewrite map_app, map_sep_join, mapi_from_map, map_mapi_from. cbn [map]. do 2 f_equal.
    apply mapi_from_ext_in. intros i c Hc. rewrite map_parens. f_equal. apply IH.
    cbn [size]. pose proof (size_in_list c args Hc). lia.
  - (* list *) cbn [map]. f_equal. rewrite map_app, map_sep_join, mapi_from_map, map_mapi_from. cbn [map]. do 2 f_equal.
    apply mapi_from_ext_in. intros i c Hc. rewrite map_parens. f_equal. apply IH.
    cbn [size]. pose proof (size_in_list c items Hc). lia.
  - (* map *) destruct items as [|kv items]; [reflexivity|]. cbn [map]. f_equal.
    change ((fst kv, strip_pos (snd kv)) :: map (fun kv0 => (fst kv0, strip_pos (snd kv0))) items)
      with (map (fun kv0 => (fst kv0, strip_pos (snd kv0))) (kv :: items)).
    rewrite map_app, map_sep_join, mapi_from_map, map_mapi_from. cbn [map]. do 2 f_equal.
    apply mapi_from_ext_in. intros i c Hc. cbn [fst snd map]. do 2 f_equal. rewrite map_parens. f_equal. apply IH.
    cbn [size]. pose proof (list_sum_In (fun kv => size (snd kv)) c _ Hc). lia.
  - (* data reference *) cbn [map]. f_equal. rewrite concat_map, mapi_from_map, map_mapi_from. f_equal.
    apply mapi_from_ext_in. intros i c Hc. apply IH. cbn [size]. pose proof (size_in_list c access Hc). lia.
  - (* [e] *) cbn [map]. rewrite map_app, map_parens, IH by (cbn [size]; lia). destruct nullsafe; reflexivity.
  - (* not *) cbn [map]. rewrite map_parens, IH, expr_level_strip by (cbn [size]; lia). reflexivity.
  - (* negate *) cbn [map]. rewrite map_parens, IH, expr_level_strip, neg_literal_strip by (cbn [size]; lia). reflexivity.
  - (* binary *) rewrite !map_app. cbn [map]. rewrite !map_parens, !IH, !expr_level_strip by (cbn [size]; lia). reflexivity.
  - (* ternary *) rewrite !map_app. cbn [map]. rewrite !map_app. cbn [map].
    rewrite !map_parens, !IH, !expr_level_strip by (cbn [size]; lia). reflexivity.
Qed.

Lemma pos_of_strip e : wf_expr e -> pos_of (strip_pos e) = 0.
Proof. destruct e; cbn [wf_expr]; try contradiction; reflexivity. Qed.

Lemma allP_map_in {A} (P Q : A -> Prop) (g : A -> A) l :
  (forall x, In x l -> P x -> Q (g x)) -> allP P l -> allP Q (map g l).
Proof.
  induction l as [|x l IH]; intros H Hl; [exact I|]. destruct Hl as [Hx Hl]. split.
  - apply H; [left; reflexivity | exact Hx].
  - apply IH; [intros y Hy; apply H; right; exact Hy | exact Hl].
Qed.

Lemma wf_strip : forall e, wf_expr e -> wf_expr (strip_pos e).
Proof.
  induction e as [e IH] using size_induction. intros Hwf.
  destruct e; cbn [wf_expr] in Hwf; try contradiction; cbn [strip_pos wf_expr]; auto.
  - eapply allP_map_in; [|exact Hwf]. intros c Hc Hw. apply IH; [|exact Hw]. cbn [size]. pose proof (size_in_list c args Hc). lia.
  - eapply allP_map_in; [|exact Hwf]. intros c Hc Hw. apply IH; [|exact Hw]. cbn [size]. pose proof (size_in_list c items Hc). lia.
  - destruct Hwf as [Hw Hs]. split.
    + eapply allP_map_in; [|exact Hw]. intros kv Hkv [Hk Hv]. cbn [fst snd]. split; [exact Hk|]. apply IH; [|exact Hv].
      cbn [size]. pose proof (list_sum_In (fun kv => size (snd kv)) kv _ Hkv). lia.
    + rewrite map_map. cbn [fst]. exact Hs.
  - eapply allP_map_in; [|exact Hwf]. intros a Ha Hw. pose proof (size_in_list a access Ha) as Hsz.
    destruct a; try contradiction; cbn [strip_pos]; auto. apply IH; [cbn [size] in *; lia | exact Hw].
  - destruct Hwf as [H1 H2]. split; apply IH; auto; cbn [size]; lia.
  - destruct Hwf as (Hp & H1 & H2 & H3). split; [symmetry; apply pos_of_strip, H1|].
    repeat split; apply IH; auto; cbn [size]; lia.
Qed.

(* C17: two well-formed expressions whose printed token sequences agree up to positions are
   the same expression up to positions *)
Theorem print_injective e1 e2 :
  wf_expr e1 -> wf_expr e2 ->
  map strip_tok (tokens_of e1) = map strip_tok (tokens_of e2) -> strip_pos e1 = strip_pos e2.
Proof.
  intros H1 H2 E. apply tokens_of_injective; [apply wf_strip, H1 | apply wf_strip, H2 |].
  unfold tokens_of. rewrite !show_strip. exact E.
Qed.

(* ================= the printer's tables are the Soy operator table ================= *)
(* finite checks on the tables regenerated from ast/node.go (binaryPrecedence, precTernary,
   precUnary, precPrimary): Model/AstPrint.v parenthesises by exactly the levels of the Spec *)
Lemma ast_levels_are_soy_levels : forall op, binop_level op = op_level op.
Proof. destruct op; reflexivity. Qed.

Lemma ast_level_of_is_expr_level : forall e, level_of e = expr_level e.
Proof. destruct e; try reflexivity. apply ast_levels_are_soy_levels. Qed.

(* every escape the printer writes for a map key is one the parser's unquoteString undoes *)
Lemma ast_escapes_are_unescapes :
  forallb (fun e => match snd e with
                    | [bs; x] => (bs =? 92) && negb (x =? 117) && (fst e <? 128) &&
                                 match unescape_of x with Some c => c =? fst e | None => false end
                    | _ => false
                    end) ast_string_escapes = true.
Proof. reflexivity. Qed.

(* the operator text that newBinaryOpNode stores is what the scanner reads as that operator:
   each is a key of the parser's table (finite check, used by the harness's token tie) *)
Lemma binop_names_distinct : forall o1 o2, binop_name o1 = binop_name o2 -> o1 = o2.
Proof. destruct o1, o2; intros H; try reflexivity; discriminate H. Qed.

(* the map-key side condition of wf_expr holds for every valid UTF-8 key (Proofs/LiteralProofs.v) *)
Theorem key_ok_valid_utf8 k : Utf8.utf8_valid k = true -> key_ok k.
Proof. apply key_roundtrip. Qed.

(* the float side condition of wf_expr is decidable: a checker, sound by construction *)
Definition fl_same (x y : fl) : bool :=
  match x, y with
  | FNaN, FNaN => true
  | FInf a, FInf c | FZero a, FZero c => Bool.eqb a c
  | FFin m e, FFin m' e' => (m =? m')%Z && (e =? e')%Z
  | _, _ => false
  end.

Lemma fl_same_eq x y : fl_same x y = true -> x = y.
Proof.
  destruct x, y; cbn [fl_same]; try discriminate; try reflexivity.
  - intros H. apply Bool.eqb_prop in H. congruence.
  - intros H. apply Bool.eqb_prop in H. congruence.
  - intros H. apply andb_true_iff in H. destruct H as [H1 H2]. f_equal; lia.
Qed.

Definition float_okb (f : fl) : bool :=
  match f with FZero _ => true | FFin m _ => Z.odd m | _ => false end &&
  match fl_print f with Some _ => true | None => false end.

Lemma float_okb_sound f : float_okb f = true -> float_ok f.
Proof.
  unfold float_okb, float_ok. intros H. apply andb_prop in H as [H1 H2]. split.
  - destruct f; cbn [fl_finite_norm]; try discriminate; [exact Logic.I|exact H1].
  - destruct (fl_print f) as [s|]; [exists s; reflexivity|discriminate].
Qed.

(* C01 (implicit print): the first item of a printed expression, under any style, is one of
   the item types with which beginTag starts an implicit print command (values, unary
   operators, "[" and "("); the command-level parser ties [expr_start_types] to the case list
   of parse.go's beginTag. *)
Definition expr_start_types : list N :=
  [pk_itemIdent; pk_itemDollarIdent; pk_itemNull; pk_itemBool; pk_itemFloat; pk_itemInteger; pk_itemString;
   pk_itemNegate; pk_itemNot; pk_itemLeftBracket; pk_itemLeftParen].

Theorem show_starts_expression sty e : wf_expr e -> forall path kk,
  exists x l, parens kk (show sty path e) = x :: l /\ mem (t_typ x) expr_start_types = true.
Proof.
  assert (HP : forall ts k, (exists x l, ts = x :: l /\ mem (t_typ x) expr_start_types = true) ->
                            exists x l, parens k ts = x :: l /\ mem (t_typ x) expr_start_types = true).
  { intros ts [|k] H; [exact H|]. rewrite parens_S. do 2 eexists. split; reflexivity. }
  induction e; intros Hwf path kk; cbn [wf_expr] in Hwf; try contradiction; apply HP; cbn [show];
    try (do 2 eexists; split; reflexivity).
  - unfold global_toks. destruct (split_dots_shape name []) as (f & r & E). rewrite E. do 2 eexists; split; reflexivity.
  - destruct items; do 2 eexists; split; reflexivity.
  - destruct Hwf as [H1 _]. destruct (IHe1 H1 (0%nat :: path) (kL sty path op e1)) as (x & l & E & Hx).
    unfold kL in E. rewrite E. do 2 eexists; split; [reflexivity | exact Hx].
  - destruct Hwf as (_ & H1 & _). destruct (IHe1 H1 (0%nat :: path) (kC sty path e1)) as (x & l & E & Hx).
    unfold kC in E. rewrite E. do 2 eexists; split; [reflexivity | exact Hx].
Qed.
