(* C15, template level: scanner model and parser model composed on a file that is one stretch of template
   text without braces (raw text and comments).  lex(T) then parse.SoyFile's itemList give raw-text nodes
   whose concatenated text is the Spec's body_text of T. *)
From Soy Require Import Model.Bytes Model.Utf8 Model.Outcome Model.Num Model.Values Model.Ast Model.Token Model.RawText
  Model.ExprParser Model.Parser Model.Lexer Generated.Tables Spec.Text
  Proofs.RawTextProofs Proofs.ExprParserRules Proofs.BodyTextSpec Proofs.LexBodyText Proofs.LexBodyTop Proofs.ParseBodyText.
From Coq Require Import ZifyBool ZifyNat ZifyN Lia.
Open Scope N_scope.

(* the pieces of a text consist of bytes of the text *)
Lemma cons_opt_inv x o pcs : cons_opt x o = Some pcs -> exists r, o = Some r /\ pcs = x :: r.
Proof. destruct o as [r|]; cbn [cons_opt]; intros H; [injection H as <-; eauto|discriminate]. Qed.

Lemma pieces_bytes (P : N -> Prop) : forall T m pw cur pcs, Forall P cur -> Forall P T ->
  pieces m pw cur T = Some pcs -> Forall (Forall P) pcs.
Proof.
  induction T as [|c r IH]; intros m pw cur pcs Hcur HT Hp.
  - destruct m; cbn [pieces] in Hp; try discriminate; injection Hp as <-; (constructor; [apply Forall_rev; exact Hcur|constructor]).
  - inversion HT as [|? ? Hc Hr]; subst.
    assert (Hcont : forall pw' pcs', pieces MText pw' (c :: cur) r = Some pcs' -> Forall (Forall P) pcs').
    { intros pw' pcs' H. apply (IH MText pw' (c :: cur) pcs'); [constructor; assumption|exact Hr|exact H]. }
    assert (Hcons : forall m' pcs', cons_opt (rev cur) (pieces m' false [] r) = Some pcs' -> Forall (Forall P) pcs').
    { intros m' pcs' H. destruct (cons_opt_inv _ _ _ H) as (r0 & E & ->). constructor; [apply Forall_rev; exact Hcur|].
      apply (IH m' false [] r0); [constructor|exact Hr|exact E]. }
    destruct m; cbn [pieces] in Hp.
    + destruct (c =? 47); [|eapply Hcont; exact Hp].
      destruct r as [|d r2]; [eapply Hcont; exact Hp|].
      destruct (d =? 42).
      * destruct r2 as [|e r3]; [discriminate|].
        destruct ((e =? 42) && negb (match r3 with f :: _ => f =? 47 | [] => false end)); [discriminate|].
        eapply Hcons; exact Hp.
      * destruct ((d =? 47) && pw); [eapply Hcons; exact Hp|eapply Hcont; exact Hp].
    + apply (IH MLine false [] pcs); [constructor|exact Hr|exact Hp].
    + apply (IH (MBlock false) false [] pcs); [constructor|exact Hr|exact Hp].
    + destruct (line_break c); [apply (IH MText true [] pcs)|apply (IH MLine false [] pcs)]; try (constructor); assumption.
    + destruct (c =? 42); [apply (IH (MBlock true) false [] pcs); [constructor|exact Hr|exact Hp]|].
      destruct ((c =? 47) && star); [apply (IH MText false [] pcs)|apply (IH (MBlock false) false [] pcs)]; try constructor; assumption.
Qed.

Lemma plain_no_nul T : plain T -> no_nul T.
Proof. unfold plain, no_nul. apply Forall_impl. tauto. Qed.

Section Main.
Variable uni_letter uni_digit : Z -> bool.
Hypothesis letter_eof : uni_letter (-1)%Z = false.
Hypothesis digit_eof : uni_digit (-1)%Z = false.
Variable inlen : N.
Variable lexq : bstr -> list tok.
Variable unq : bstr -> option bstr.

(* parse.SoyFile on the items of a text cut by comments *)
Lemma soy_file_nodes pcs items : shape pcs items -> Forall no_nul pcs ->
  exists pos nodes st, po_result (soy_file inlen lexq unq items) = POk (NList pos nodes) st /\ Forall is_raw nodes /\
     concat (map raw_text_of nodes) = norm_pieces false pcs.
Proof.
  intros Hsh Hnn. unfold soy_file, parse_file, file_fuel.
  replace (length items + 8)%nat with (S (length items + 7)) by lia. cbn [item_list].
  destruct (stream_init items) as [Hs Hi].
  destruct (items_nodes inlen lexq unq parse_expr expr_fuel
              (lift_expr inlen parse_expr (length items + 7)) (item_list inlen lexq unq parse_expr expr_fuel (length items + 7))
              (length items + 7) pcs items Hsh Hnn [] ltac:(constructor) (S (length items + 7)) [] None (cst_init items)
              Hs Hi ltac:(cbn [app]; lia) ltac:(lia)) as (pos & nodes & s' & Hrun & Hraw & Hcat).
  rewrite Hrun. exists pos, nodes, (c_p s'). cbn [po_result app]. auto.
Qed.

(* body_text_spec: for every text T of plain bytes (no NUL, no brace) that the Spec accepts -- every block comment
   closed, no soydoc opener -- lexing T as a file and parsing the items gives a list of raw-text nodes whose
   texts, concatenated, are body_text true T ([true]: T begins at the very start of the input) *)
Theorem body_text_impl_spec T out : plain T -> body_text true T = Some out ->
  exists items pos nodes st,
    lex_items uni_letter uni_digit (lex_budget T) false T = Ok items /\
    po_result (soy_file inlen lexq unq items) = POk (NList pos nodes) st /\
    Forall is_raw nodes /\ concat (map raw_text_of nodes) = out.
Proof.
  intros Hpl Hb. unfold body_text in Hb. destruct (pieces MText true [] T) as [pcs|] eqn:Hp; [|discriminate]. injection Hb as <-.
  destruct (lex_body_items uni_letter uni_digit letter_eof digit_eof T pcs Hpl Hp) as (items & Hlex & Hsh).
  assert (Hnn : Forall no_nul pcs).
  { apply (pieces_bytes (fun c => c <> 0) T MText true [] pcs); [constructor|apply plain_no_nul; exact Hpl|exact Hp]. }
  destruct (soy_file_nodes pcs items Hsh Hnn) as (pos & nodes & st & Hrun & Hraw & Hcat).
  exists items, pos, nodes, st. auto.
Qed.

(* "http://x is not a comment": where the Spec finds no comment in T (every "//" of T follows a byte that is not
   white space, and T has no "/*"), the scanner sends T as ONE text item (none if T is empty or only white
   space with a line break) followed by EOF *)
Theorem no_comment_one_item T : plain T -> pieces MText true [] T = Some [T] ->
  exists items e, lex_items uni_letter uni_digit (lex_budget T) false T = Ok items /\ t_typ e = itemEOF /\
    (if droppable T then items = [e]
     else exists p, items = [{| t_typ := itemText; t_pos := p; t_val := T |}; e]).
Proof.
  intros Hpl Hp. destruct (lex_body_items uni_letter uni_digit letter_eof digit_eof T [T] Hpl Hp) as (items & Hlex & Hsh).
  inversion Hsh as [x txt e Htx He|x x' txt c rest items' Htx Hx Hc Hsh']; subst; [|inversion Hsh'].
  exists (txt ++ [e]), e. split; [exact Hlex|]. split; [exact He|].
  unfold is_text_of in Htx. destruct (droppable T); [subst txt; reflexivity|]. destruct Htx as (p & ->). exists p. reflexivity.
Qed.

End Main.

(* the Spec side of the clause: "//" after a byte that is not white space (and not itself '/') is text *)
Lemma slashes_after_nonspace pw cur c v : ws c = false -> c <> 47 ->
  pieces MText pw cur (c :: 47 :: 47 :: v) = pieces MText false (47 :: c :: cur) (47 :: v).
Proof.
  intros Hw Hc. cbn [pieces]. assert (E : (c =? 47) = false) by lia. rewrite E, Hw.
  change (47 =? 47) with true. change (47 =? 42) with false. cbn [andb]. reflexivity.
Qed.
