(* C13: proofs about Model/Compile.v.
   A. extensionality of every walker in its key order / lookup function
   B. oracle independence of the repaired pipeline (sort after the loop, C10 for
      the placeholder names)
   C. Registry.Add: success characterisation, no crash
   (continued in Proofs/CompilePermProofs.v: file permutations) *)
From Coq Require Import Permutation Lia.
From Soy Require Import Model.Bytes Model.Num Model.Values Model.Outcome Model.Ast Model.MsgId Model.Compile
  Model.JsGen
  Generated.Tables Spec.Determinism Proofs.ValueProofs Proofs.MsgIdProofs.
Open Scope N_scope.

(* ================================================================== *)
(* A. extensionality                                                  *)
(* ================================================================== *)

Definition kext (ko ko' : korder) : Prop := forall l, ko l = ko' l.

Lemma perm_order_is_perm o : perm_order o <-> is_perm o.
Proof. reflexivity. Qed.

(* sort after the loop: the order of the loop is forgotten *)
Lemma sorted_after_kext o o' : perm_order o -> perm_order o' -> kext (sorted_after o) (sorted_after o').
Proof.
  intros H H' l. unfold sorted_after. apply sort_strings_perm.
  eapply Permutation_trans; [apply H | apply Permutation_sym, H'].
Qed.

Lemma map_values_ext ko ko' items : kext ko ko' -> map_values ko items = map_values ko' items.
Proof. intros H. unfold map_values. rewrite H. reflexivity. Qed.

Lemma children_ext ko ko' n : kext ko ko' -> children ko n = children ko' n.
Proof. intros H. destruct n; cbn [children]; try reflexivity. apply map_values_ext, H. Qed.

(* ---- checker ---- *)
Section CheckerExt.
  Variables ko ko' : korder.
  Variables lk lk' : bstr -> option template.
  Variable params : list bstr.
  Hypothesis Hko : kext ko ko'.
  Hypothesis Hlk : forall n, lk n = lk' n.

  Lemma check_call_ext st p name alldata data ps :
    check_call lk params st p name alldata data ps = check_call lk' params st p name alldata data ps.
  Proof. unfold check_call. rewrite Hlk. reflexivity. Qed.

  Lemma check_seq_ext w w' l : (forall st n, w st n = w' st n) -> forall st, check_seq w st l = check_seq w' st l.
  Proof.
    intros Hw. induction l as [|n r IH]; intros st; cbn [check_seq]; [reflexivity|].
    rewrite Hw. destruct (w' st n); [reflexivity | apply IH].
  Qed.

  Lemma check_block_ext w w' st n : (forall st n, w st n = w' st n) ->
    check_block ko w st n = check_block ko' w' st n.
  Proof.
    intros Hw. unfold check_block. rewrite (children_ext ko ko' n Hko), (check_seq_ext w w' _ Hw). reflexivity.
  Qed.

  Lemma check_body_ext w w' st n : (forall st n, w st n = w' st n) ->
    check_body ko lk params w st n = check_body ko' lk' params w' st n.
  Proof.
    intros Hw. unfold check_body.
    destruct n;
      repeat first [ reflexivity
                   | apply (check_block_ext _ _ _ _ Hw)
                   | rewrite check_call_ext
                   | rewrite (check_block_ext w w' _ _ Hw)
                   | rewrite Hw
                   | match goal with |- match ?x with _ => _ end = match ?x with _ => _ end => destruct x end ].
  Qed.

  Lemma check_node_ext fuel : forall st n, check_node ko lk params fuel st n = check_node ko' lk' params fuel st n.
  Proof.
    induction fuel as [|f IH]; intros st n; cbn [check_node]; [reflexivity|].
    apply check_body_ext, IH.
  Qed.
End CheckerExt.

Lemma check_template_ext ko ko' lk lk' t :
  kext ko ko' -> (forall n, lk n = lk' n) -> check_template ko lk t = check_template ko' lk' t.
Proof. intros Hko Hlk. unfold check_template. rewrite (check_node_ext ko ko' lk lk' _ Hko Hlk). reflexivity. Qed.

Lemma first_failure_ext {E} (f g : template -> option E) ts :
  (forall t, In t ts -> f t = g t) -> first_failure f ts = first_failure g ts.
Proof.
  induction ts as [|t r IH]; intros H; cbn [first_failure]; [reflexivity|].
  rewrite (H t (or_introl eq_refl)). destruct (g t); [reflexivity|]. apply IH. intros x Hx. apply H. right. exact Hx.
Qed.

(* ---- SetGlobals ---- *)
Section GlobalsExt.
  Variables ko ko' : korder.
  Variable globals : gmap.
  Hypothesis Hko : kext ko ko'.

  Lemma globals_seq_ext w w' l : (forall n, w n = w' n) -> globals_seq w l = globals_seq w' l.
  Proof.
    intros Hw. induction l as [|n r IH]; cbn [globals_seq]; [reflexivity|]. rewrite Hw, IH. reflexivity.
  Qed.
  Lemma globals_node_ext fuel : forall n, globals_node ko globals fuel n = globals_node ko' globals fuel n.
  Proof.
    induction fuel as [|f IH]; intros n; cbn [globals_node]; [reflexivity|].
    unfold globals_body. destruct n; try reflexivity; rewrite (children_ext ko ko' _ Hko); apply globals_seq_ext, IH.
  Qed.
End GlobalsExt.

Lemma set_globals_template_ext ko ko' g t : kext ko ko' -> set_globals_template ko g t = set_globals_template ko' g t.
Proof. intros H. apply globals_node_ext, H. Qed.

(* ---- ProcessMessages ---- *)
Definition phext (pho pho' : korder) : Prop := forall body, msg_named pho body = msg_named pho' body.

Lemma perm_order_phext o o' : perm_order o -> perm_order o' -> phext o o'.
Proof. intros H H' body. apply names_order_independent; assumption. Qed.

Section MsgsExt.
  Variable node_string : node -> bstr.
  Variables ko ko' pho pho' : korder.
  Hypothesis Hko : kext ko ko'.
  Hypothesis Hph : phext pho pho'.

  Lemma process_msg_ext meaning desc body :
    process_msg node_string pho meaning desc body = process_msg node_string pho' meaning desc body.
  Proof.
    unfold process_msg. destruct (msg_of_source meaning desc _); cbn [bind]; try reflexivity. rewrite Hph. reflexivity.
  Qed.
  Lemma msgs_seq_ext w w' l : (forall n, w n = w' n) -> msgs_seq w l = msgs_seq w' l.
  Proof. intros Hw. induction l as [|n r IH]; cbn [msgs_seq]; [reflexivity|]. rewrite Hw, IH. reflexivity. Qed.
  Lemma msgs_node_ext fuel : forall n, msgs_node node_string ko pho fuel n = msgs_node node_string ko' pho' fuel n.
  Proof.
    induction fuel as [|f IH]; intros n; cbn [msgs_node]; [reflexivity|].
    unfold msgs_body. destruct n; try reflexivity; try (rewrite (children_ext ko ko' _ Hko); apply msgs_seq_ext, IH).
    rewrite process_msg_ext. reflexivity.
  Qed.
End MsgsExt.

Lemma template_msgs_ext ns ko ko' pho pho' t :
  kext ko ko' -> phext pho pho' -> template_msgs ns ko pho t = template_msgs ns ko' pho' t.
Proof. intros H H'. apply msgs_node_ext; assumption. Qed.

(* ---- AddGlobalsMap ---- *)
Lemma bundle_of_globals_ext ko ko' calls : kext ko ko' -> bundle_of_globals ko calls = bundle_of_globals ko' calls.
Proof.
  intros H. unfold bundle_of_globals. generalize {| bg_map := []; bg_err := None |}.
  induction calls as [|m r IH]; intros b0; cbn [fold_left]; [reflexivity|].
  unfold add_globals_map at 2 4. rewrite H. apply IH.
Qed.

(* ================================================================== *)
(* B. oracle independence                                             *)
(* ================================================================== *)

Definition orders_ext (o o' : orders) : Prop :=
  kext (o_globals o) (o_globals o') /\ kext (o_children o) (o_children o') /\ phext (o_ph o) (o_ph o') /\
  kext (o_imports o) (o_imports o').

Lemma compile_gen_ext ns o o' calls srcs : orders_ext o o' -> compile_gen ns o calls srcs = compile_gen ns o' calls srcs.
Proof.
  intros (Hg & Hc & Hp & _). unfold compile_gen.
  rewrite (bundle_of_globals_ext _ _ calls Hg).
  destruct (bg_err (bundle_of_globals (o_globals o') calls)) as [[name existing]|]; [reflexivity|].
  destruct (add_all_files empty_creg srcs) as [r|e]; [|reflexivity].
  rewrite (first_failure_ext (check_template (o_children o) _) (check_template (o_children o') (find_template (r_templates (cr_reg r)))));
    [|intros t _; apply check_template_ext; [exact Hc | reflexivity]].
  destruct (first_failure (check_template (o_children o') _) _) as [[name e]|]; [reflexivity|].
  rewrite (first_failure_ext (set_globals_template (o_children o) _) (set_globals_template (o_children o') (bg_map (bundle_of_globals (o_globals o') calls))));
    [|intros t _; apply set_globals_template_ext, Hc].
  destruct (first_failure (set_globals_template (o_children o') _) _) as [[name e]|]; [reflexivity|].
  f_equal. f_equal. apply map_ext. intros t. f_equal. apply template_msgs_ext; assumption.
Qed.

Lemma import_block_ext ko ko' called infile : kext ko ko' -> import_block ko called infile = import_block ko' called infile.
Proof. intros H. unfold import_block. destruct called; [reflexivity|]. rewrite H. reflexivity. Qed.

Lemma repaired_orders_ext o o' : perm_orders o -> perm_orders o' -> orders_ext (repaired_orders o) (repaired_orders o').
Proof.
  intros (Hg & Hc & Hp & Hi) (Hg' & Hc' & Hp' & Hi'). unfold orders_ext, repaired_orders; cbn.
  repeat split; try (apply sorted_after_kext; assumption). apply perm_order_phext; assumption.
Qed.

(* Whatever order Go ranges over its maps in, the compile result -- accept or
   reject, the error with its unit and names, the registry, the globals, every
   message id and placeholder name -- and the import block of every file are the same. *)
Theorem compile_oracle_independent ns o o' calls srcs :
  perm_orders o -> perm_orders o' -> compile ns o calls srcs = compile ns o' calls srcs.
Proof. intros H H'. apply compile_gen_ext, repaired_orders_ext; assumption. Qed.

(* the import block of the repaired tree: sorted after the range *)
Theorem import_block_oracle_independent o o' called infile :
  perm_order o -> perm_order o' -> import_block (sorted_after o) called infile = import_block (sorted_after o') called infile.
Proof. intros H H'. apply import_block_ext, sorted_after_kext; assumption. Qed.

(* The whole generated file (Model/JsGen.v, byte-exact model of soyjs.Write for
   both formatters, with or without a message bundle): the one Go map that is
   ranged over while generating is funcsCalled, its keys are sorted before the
   import lines are written, and nothing else of the generator looks at the
   order (the walk is literally the same term for both orders: by conversion). *)
Theorem gen_file_order_independent fmt msgs ord ord' fuel name body :
  perm_order ord -> perm_order ord' ->
  gen_file {| o_fmt := fmt; o_msgs := msgs; o_order := ord |} fuel name body =
  gen_file {| o_fmt := fmt; o_msgs := msgs; o_order := ord' |} fuel name body.
Proof.
  intros H H'. unfold gen_file.
  change (visit_file {| o_fmt := fmt; o_msgs := msgs; o_order := ord' |} fuel name body)
    with (visit_file {| o_fmt := fmt; o_msgs := msgs; o_order := ord |} fuel name body).
  destruct (visit_file _ fuel name body jinit_state) as [[u st]| | | | |]; try reflexivity.
  destruct (j_called st) as [|c r]; [reflexivity|]. cbn [o_order].
  match goal with |- context [sort_strings (ord ?l)] =>
    rewrite (sort_strings_perm (ord l) (ord' l)); [reflexivity|] end.
  eapply Permutation_trans; [apply H | apply Permutation_sym, H'].
Qed.
