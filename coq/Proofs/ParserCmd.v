(* Consumption lemmas for the command parsers of Model/Parser.v (the procedures that call
   parseExpr and itemList), then itemList itself: with a budget of mu + 2 it returns a tree or an
   error -- never PFuel, never a run-time panic -- and conserves kap. *)
From Soy Require Import Model.Bytes Model.Outcome Model.Ast Model.Token Model.NumLit Model.RawText Model.ExprParser Model.Parser.
From Soy Require Import Generated.Tables Proofs.RawTextProofs Proofs.ParserMeasure Proofs.ExprTotal Proofs.ParserBase Proofs.ParserLeaf.
From Coq Require Import ZifyBool ZifyNat ZifyN Lia.
Open Scope N_scope.

Definition is_switch (n : node) : Prop := match n with NSwitch _ _ _ => True | _ => False end.

Lemma special_char_nz x v : assoc x parser_special_chars = Some v -> x <> 0.
Proof. intros H E. rewrite E in H. vm_compute in H. discriminate. Qed.
Lemma implicit_print_nz x : one_of x parser_implicit_print = true -> x <> 0.
Proof. intros H E. rewrite E in H. vm_compute in H. discriminate. Qed.

Ltac uok := unfold until_ok; let H := fresh in intro H; cbn [In] in H;
            repeat (destruct H as [H|H]; [vm_compute in H; discriminate|]); exact H.
(* the item type of an until-list is not 0 *)
Ltac unz Hin Hnz := match type of Hin with In (t_typ ?t) ?u =>
  assert (Hnz : t_typ t <> 0) by (let X := fresh "X" in intro X; rewrite X in Hin; cbn [In] in Hin;
    repeat (destruct Hin as [Hin|Hin]; [vm_compute in Hin; discriminate|]); exact Hin) end.

(* facts after a backup that follows the next recorded in R *)
Ltac cbk R := match type of R with ParserBase.cnrel ?a ?b ?c ?s ?t ?s1 =>
  match goal with Hs : ParserBase.cinv a b c s |- _ =>
    let A := fresh "A" in let B := fresh "B" in let C := fresh "C" in
    destruct (c_backup_after a b c s t s1 Hs R) as (A & B & C) end end.
(* facts after backup2(t1) that follows the next recorded in R; E : t_typ t1 = <constant> *)
Ltac cbk2 R E := match type of R with ParserBase.cnrel ?a ?b ?c ?s ?t ?s1 =>
  match type of E with t_typ ?t1 = _ =>
  match goal with Hs : ParserBase.cinv a b c s, Hk : (p_peek (c_p s) <= 1)%nat,
                  Hc : t1 = cur_tok (c_p s), Hw : ParserMeasure.twf _ t1 |- _ =>
    let Hnz := fresh "Hnz" in let Hne := fresh "Hne" in
    assert (Hnz : t_typ t1 <> 0) by (rewrite E; vm_compute; intro; discriminate);
    assert (Hne : t_typ t1 <> pit_EOF) by (rewrite E; vm_compute; intro; discriminate);
    let A := fresh "A" in let B := fresh "B" in let C := fresh "C" in
    destruct (c_backup2_rel a b c s t s1 t1 Hs Hk Hc Hnz Hne Hw R) as (A & B & C) end end end.
(* facts after a backup over the until-item itemList stopped at *)
Ltac cbnz s Hin :=
  match goal with Hs : ParserBase.cinv ?a ?b ?c s, Hk : (p_peek (c_p s) <= 1)%nat |- _ =>
   let Hnz := fresh "Hnz" in unz Hin Hnz;
   let A := fresh "A" in let B := fresh "B" in let C := fresh "C" in let En := fresh "En" in
   destruct (c_backup_nz a b c s Hs Hk Hnz) as (A & B & C & En) end.

Section Cmd.
Variable inlen : N.
Variable NT : nat.
Variable eofchk : bool.
Variable lexq : bstr -> list tok.
Variable unq : bstr -> option bstr.
Hypothesis Hlexq : forall str, Forall (ParserMeasure.twf (N.of_nat (length str))) (lexq str).

Notation cinv := (cinv inlen NT eofchk).
Notation cnrel := (cnrel inlen NT eofchk).
Notation cpost := (cpost inlen NT eofchk).
Notation twf := (twf inlen).
Notation cmu s := (mu (c_p s)).
Notation clpz s := (lpz (c_p s)).
Notation ckap s := (kap (c_p s)).
Notation cpeek s := (p_peek (c_p s)).
Notation ccur s := (cur_tok (c_p s)).
Notation pqe := (parse_quoted_expr inlen lexq parse_expr expr_fuel).

Definition wpost (until : list N) (s : cst) : node -> cst -> Prop :=
  fun _ s' => (cmu s' < cmu s)%nat /\ (cpeek s' <= 1)%nat /\ In (t_typ (ccur s')) until.

Section Level.
Variable pe : N -> cst -> cres node.
Variable w : list N -> cst -> cres node.
Variable L : nat.
Hypothesis Hpe : forall prec s b, cinv s -> ckap s = b -> (cmu s < L)%nat ->
  cpost b (fun _ s' => (cmu s' < cmu s)%nat) (pe prec s).
Hypothesis Hw : forall until s b, until_ok until -> cinv s -> ckap s = b -> (cmu s < L)%nat ->
  cpost b (wpost until s) (w until s).
Variable lf : nat.
Hypothesis Hlf : (L <= lf)%nat.

Ltac cpe n s1 H :=
  nzs; eapply cpost_bind; [apply Hpe; [solve [auto]|unfold kap in *; lia|lia]|]; intros n s1 ?Hi ?Hb H; cbn beta in H.
Ltac cw n s1 H :=
  nzs; eapply cpost_bind; [apply Hw; [uok|solve [auto]|unfold kap in *; lia|lia]|]; intros n s1 ?Hi ?Hb H;
  unfold wpost in H; cbn beta in H.
Ltac cuse lem := nzs; eapply cpost_weaken; [apply lem; auto; unfold kap in *; try lia|]; intros; cbn beta in *; try lia.

(* ---- print ---- *)
Lemma directive_args_ok : forall f args s b,
  cinv s -> ckap s = b -> (cmu s < L)%nat -> (cmu s < f)%nat ->
  cpost b (fun _ s' => (cmu s' <= cmu s)%nat) (directive_args pe f args s).
Proof.
  induction f as [|f IH]; intros args s b Hi Hb Hm Hf; [lia|].
  cbn [directive_args]. cnext nx s1 R. dcn R.
  destruct (tis nx pit_Colon || tis nx pit_Comma) eqn:E.
  - assert (Hnz : t_typ nx <> 0) by (intro X; unfold tis in E; rewrite X in E; vm_compute in E; discriminate).
    cpe a s2 H2. cuse IH.
  - cbk R. cfin.
Qed.

Lemma cmd_print_loop_ok : forall f pos expr dirs s b,
  cinv s -> ckap s = b -> (cmu s < L)%nat -> (cmu s < f)%nat ->
  cpost b (fun _ s' => (cmu s' <= cmu s)%nat) (cmd_print_loop inlen pe lf f pos expr dirs s).
Proof.
  induction f as [|f IH]; intros pos expr dirs s b Hi Hb Hm Hf; [lia|].
  cbn [cmd_print_loop]. cnext tk s1 R. dcn R.
  tcase tk pit_RightDelim E. { tnz E Hnz. cfin. }
  tcase tk pit_Pipe E2.
  - tnz E2 Hnz. cexpect id s2 H2.
    eapply cpost_bind; [apply directive_args_ok; auto; lia|]. intros args s3 Hi3 Hb3 H3. cbn beta in H3.
    cuse IH.
  - cerr.
Qed.

Lemma cmd_print_ok token s b :
  cinv s -> ckap s = b -> (cmu s < L)%nat ->
  cpost b (fun _ s' => (cmu s' <= cmu s)%nat) (cmd_print inlen pe lf token s).
Proof.
  intros Hi Hb Hm. unfold cmd_print. cpe e s1 H1. cuse cmd_print_loop_ok.
Qed.

(* ---- let ---- *)
Lemma parse_let_ok token s b :
  cinv s -> ckap s = b -> (cmu s < L)%nat ->
  cpost b (fun _ s' => (cmu s' <= cmu s)%nat) (parse_let inlen unq pe w lf token s).
Proof.
  intros Hi Hb Hm. unfold parse_let. cexpect name s1 H1. destruct H1 as (M1 & K1 & C1 & T1 & W1 & S1).
  assert (Hlen : (1 <= length (t_val name))%nat) by (apply (twf_len1p inlen); auto).
  apply c_peek_step; auto. intros pk s2 Hi2 Hm2 Hl2 (s3 & En & Rn). cbn beta.
  tcase pk pit_Colon E.
  - tnz E Hnz. rewrite En. cbn [cbind]. pose proof (cnrel_inv _ _ _ _ _ _ Hi2 Rn) as Hi3. dcn Rn.
    cpe e s4 H4.
    destruct (tail1_ok (t_val name) s4 Hlen) as (nm & Et). rewrite Et. cbn [cbind].
    cexpect t6 s6 H6. cfin.
  - eapply cpost_bind; [apply attrs_loop_ok; auto; unfold kap in *; lia|]. intros at_ s3' Hi3 Hb3 H3. cbn beta in H3.
    cnext nx s4 R4. dcn R4.
    tcase nx pit_RightDelim E2.
    + tnz E2 Hnz. cw body s5 H5.
      destruct (tail1_ok (t_val name) s5 Hlen) as (nm & Et). rewrite Et. cbn [cbind].
      cexpect t7 s7 H7. cfin.
    + cerr.
Qed.

(* ---- css ---- *)
Lemma parse_css_ok token s b :
  cinv s -> ckap s = b -> (cmu s < L)%nat ->
  cpost b (fun _ s' => (cmu s' <= cmu s)%nat) (parse_css inlen lexq parse_expr expr_fuel token s).
Proof.
  intros Hi Hb Hm. unfold parse_css. cexpect cmd s1 H1. cexpect t2 s2 H2.
  destruct (last_index_of 44 (t_val cmd)); [|cfin].
  eapply cpost_bind; [apply parse_quoted_expr_post; auto|]. intros e s3 Hi3 Hb3 H3. cbn beta in H3.
  rewrite <- H3 in *. cfin.
Qed.

(* ---- call ---- *)
Lemma orphan_text_step {B} b (Q : B -> cst -> Prop) : forall f s0 initial s k,
  cinv s0 -> ckap s0 = b -> cnrel s0 initial s -> cinv s -> (cmu s0 < f)%nat -> (cmu s0 < lf)%nat ->
  (forall sp tk s', cinv sp -> ckap sp = b -> (cmu sp <= cmu s0)%nat -> cnrel sp tk s' -> cinv s' -> cpost b Q (k tk s')) ->
  cpost b Q (cbind (orphan_text inlen lf f initial s) k).
Proof.
  induction f as [|f IH]; intros s0 initial s k Hi0 Hb R Hi Hf Hlf' K; [lia|].
  cbn [orphan_text]. dcn R.
  tcase initial pit_Text E.
  - tnz E Hnz. destruct (rawtext_never_crashes (t_val initial) true true) as (o & Eo). rewrite Eo.
    destruct o as [|c o].
    + rewrite cbind_assoc. apply next_non_comment_step; auto; unfold kap in *; try lia.
      intros sp tk s' A1 B1 C1 D1 E1. apply (IH sp); auto; try lia.
      intros sp2 tk2 s2 A2 B2 C2 D2 E2. apply (K sp2); auto; lia.
    + eapply cpost_bind with (Q1 := fun _ _ => False); [cerr|intros; contradiction].
  - cbn [cbind]. apply (K s0); auto.
Qed.

Lemma param_attr_form_ok rec params initial key0 s6 b m :
  (forall ps s b', cinv s -> ckap s = b' -> (cmu s < m)%nat ->
     cpost b' (fun _ s' => (cmu s' <= cmu s)%nat) (rec ps s)) ->
  cinv s6 -> ckap s6 = b -> (cmu s6 < L)%nat -> (cmu s6 <= m)%nat ->
  cpost b (fun _ s' => (cmu s' <= cmu s6)%nat)
        (param_attr_form inlen lexq unq parse_expr expr_fuel w lf rec params initial key0 s6).
Proof.
  intros Hrec Hi Hb Hm Hmm. unfold param_attr_form.
  eapply cpost_bind; [apply attrs_loop_ok; auto; lia|]. intros attrs s7 Hi7 Hb7 H7. cbn beta in H7.
  eapply cpost_bind with (Q1 := fun _ s8 => s8 = s7).
  { destruct key0; [destruct (attr k_key attrs); [cfin|cerr]|cfin]. }
  intros key s8 Hi8 Hb8 H8. cbn beta in H8. subst s8.
  destruct (attr k_value attrs).
  - eapply cpost_bind; [apply parse_quoted_expr_post; auto|]. intros v s9 Hi9 Hb9 H9. cbn beta in H9.
    cexpect t10 s10 H10. rewrite H9 in *.
    cuse Hrec.
  - cexpect t9 s9 H9. cw v s10 H10. cexpect t11 s11 H11. cuse Hrec.
Qed.

Lemma call_params_loop_ok : forall f params s b,
  cinv s -> ckap s = b -> (cmu s < L)%nat -> (cmu s < f)%nat ->
  cpost b (fun _ s' => (cmu s' <= cmu s)%nat)
        (call_params_loop inlen lexq unq parse_expr expr_fuel pe w lf f params s).
Proof.
  induction f as [|f IH]; intros params s b Hi Hb Hm Hf; [lia|].
  cbn [call_params_loop].
  apply next_non_comment_step; auto; try lia. intros sp0 i0 s1 A0 B0 C0 D0 E0.
  apply (orphan_text_step b _ lf sp0); auto; try lia. intros sp initial s2 A1 B1 C1 R2 Hi2. cbn beta.
  dcn R2.
  tcase initial pit_LeftDelim E; cbn [negb]; [|cerr].
  tnz E Hnz. cnext cmd s3 R3. dcn R3.
  tcase cmd pit_CallEnd E3.
  { cbk2 R3 E. cfin. }
  tcase cmd pit_Param E4; cbn [negb]; [|cerr].
  tnz E4 Hnz4. cexpect first s4 H4. destruct H4 as (M4 & K4 & C4 & T4 & W4 & S4).
  cnext tk s5 R5. dcn R5.
  tcase tk pit_Colon E5.
  { tnz E5 Hnz5. cpe v s6 H6. cexpect t7 s7 H7. cuse IH. }
  tcase tk pit_RightDelim E6.
  { tnz E6 Hnz6. cw v s6 H6. cexpect t7 s7 H7. cuse IH. }
  assert (Hrec : forall ps s' b', cinv s' -> ckap s' = b' -> (cmu s' < cmu s3)%nat ->
             cpost b' (fun _ s'' => (cmu s'' <= cmu s')%nat)
               (call_params_loop inlen lexq unq parse_expr expr_fuel pe w lf f ps s')).
  { intros ps s' b' X1 X2 X3. apply IH; auto; lia. }
  tcase tk pit_Ident E7.
  { cbk R5.
    eapply cpost_weaken; [apply (param_attr_form_ok _ _ _ _ _ _ (cmu s3) Hrec); auto; unfold kap in *; lia|]; intros; cbn beta in *; lia. }
  tcase tk pit_Equals E8.
  { cbk2 R5 T4.
    eapply cpost_weaken; [apply (param_attr_form_ok _ _ _ _ _ _ (cmu s3) Hrec); auto; unfold kap in *; lia|]; intros; cbn beta in *; lia. }
  cerr.
Qed.

Lemma parse_call_ok token s b :
  cinv s -> ckap s = b -> (cmu s < L)%nat ->
  cpost b (fun _ s' => (cmu s' <= cmu s)%nat)
        (parse_call inlen lexq unq parse_expr expr_fuel pe w lf token s).
Proof.
  intros Hi Hb Hm. unfold parse_call.
  eapply cpost_bind; [apply call_name_ok; auto; lia|]. intros name0 s1 Hi1 Hb1 H1. cbn beta in H1.
  eapply cpost_bind; [apply attrs_loop_ok; auto; lia|]. intros attrs s2 Hi2 Hb2 H2. cbn beta in H2.
  cbv zeta.
  destruct (match name0 with [] => attr_or_empty k_name attrs | _ :: _ => name0 end); [cerr|].
  eapply cpost_bind with (Q1 := fun _ s3 => c_p s3 = c_p s2).
  { destruct (attr k_data attrs); [|cfin]. destruct (bstr_eqb _ _); [cfin|].
    eapply cpost_bind; [apply parse_quoted_expr_post; auto|]. intros e s3 Hi3 Hb3 H3. cbn beta in H3.
    rewrite <- H3 in *. cfin. }
  intros ad s3 Hi3 Hb3 H3. cbn beta in H3.
  cnext tk s4 R4. dcn R4. rewrite H3 in *.
  tcase tk pit_RightDelimEnd E. { tnz E Hnz. cfin. }
  tcase tk pit_RightDelim E2; [|cerr].
  tnz E2 Hnz.
  eapply cpost_bind; [apply call_params_loop_ok; auto; unfold kap in *; lia|]. intros body s5 Hi5 Hb5 H5. cbn beta in H5.
  cexpect t6 s6 H6. cexpect t7 s7 H7. cexpect t8 s8 H8. cfin.
Qed.

(* ---- switch / plural ---- *)
Lemma case_loop_ok : forall f token values s b,
  cinv s -> ckap s = b -> (cmu s < L)%nat -> (cmu s < f)%nat ->
  cpost b (fun _ s' => (cmu s' <= cmu s)%nat) (case_loop inlen pe w f token values s).
Proof.
  induction f as [|f IH]; intros token values s b Hi Hb Hm Hf; [lia|].
  cbn [case_loop].
  eapply cpost_bind with (Q1 := fun _ s1 => (cmu s1 <= cmu s)%nat).
  { destruct (tis token pit_Default); [cfin|]. cpe v s0 H0. cfin. }
  intros values1 s1 Hi1 Hb1 H1. cbn beta in H1.
  cnext tk s2 R2. dcn R2.
  tcase tk pit_Comma E. { tnz E Hnz. cuse IH. }
  tcase tk pit_RightDelim E2; [|cerr].
  tnz E2 Hnz. cw body s3 H3. destruct H3 as (M3 & K3 & I3).
  cbnz s3 I3. cfin.
Qed.

Lemma switch_loop_ok : forall f pos endt value cases s b,
  endt <> 0 -> cinv s -> ckap s = b -> (cmu s < L)%nat -> (cmu s < f)%nat ->
  cpost b (fun n s' => (cmu s' <= cmu s)%nat /\ is_switch n)
        (switch_loop inlen pe w lf f pos endt value cases s).
Proof.
  induction f as [|f IH]; intros pos endt value cases s b He Hi Hb Hm Hf; [lia|].
  cbn [switch_loop]. cnext tk s1 R. dcn R.
  tcase tk pit_LeftDelim E1.
  { tnz E1 Hnz. eapply cpost_weaken; [apply IH; auto; unfold kap in *; lia|]. intros a s' X1 X2 (X3 & X4); split; auto; lia. }
  tcase tk pit_Text E2.
  { tnz E2 Hnz. destruct (all_space (t_val tk)); [|cerr].
    eapply cpost_weaken; [apply IH; auto; unfold kap in *; lia|]. intros a s' X1 X2 (X3 & X4); split; auto; lia. }
  destruct (tis tk pit_Case || tis tk pit_Default) eqn:E3.
  { assert (Hnz : t_typ tk <> 0) by (intro X; unfold tis in E3; rewrite X in E3; vm_compute in E3; discriminate).
    destruct (last_is_default cases); [cerr|].
    eapply cpost_bind; [apply case_loop_ok; auto; unfold kap in *; lia|]. intros c s2 Hi2 Hb2 H2. cbn beta in H2.
    eapply cpost_weaken; [apply IH; auto; unfold kap in *; lia|]. intros a s' X1 X2 (X3 & X4); split; auto; lia. }
  tcase tk endt E4.
  { assert (Hnz : t_typ tk <> 0) by congruence. cexpect t2 s2 H2. cfin. exact I. }
  tcase tk pit_Comment E5.
  { tnz E5 Hnz. eapply cpost_weaken; [apply IH; auto; unfold kap in *; lia|]. intros a s' X1 X2 (X3 & X4); split; auto; lia. }
  cerr.
Qed.

Lemma parse_switch_ok token endt s b :
  endt <> 0 -> cinv s -> ckap s = b -> (cmu s < L)%nat ->
  cpost b (fun n s' => (cmu s' <= cmu s)%nat /\ is_switch n) (parse_switch inlen pe w lf token endt s).
Proof.
  intros He Hi Hb Hm. unfold parse_switch. cpe v s1 H1. cexpect t2 s2 H2.
  eapply cpost_weaken; [apply switch_loop_ok; auto; unfold kap in *; lia|]. intros a s' X1 X2 (X3 & X4); split; auto; lia.
Qed.

Lemma plural_cases_ok : forall cs cases dflt s b,
  cinv s -> ckap s = b -> cpost b (fun _ s' => s' = s) (plural_cases inlen cs cases dflt s).
Proof.
  induction cs as [|c cs IH]; intros cases dflt s b Hi Hb; cbn [plural_cases]; [cfin|].
  destruct c; auto.
  destruct values as [|v0 vs]; auto.
  destruct v0; try cerr. destruct vs; [auto|cerr].
Qed.

Lemma parse_plural_ok tk s b :
  cinv s -> twf tk -> ckap s = b -> (cmu s < L)%nat ->
  cpost b (fun _ s' => (cmu s' <= cmu s)%nat) (parse_plural inlen pe w lf tk s).
Proof.
  intros Hi Htw Hb Hm. unfold parse_plural. destruct (negb (c_inmsg s)); [cerr|].
  eapply cpost_bind; [apply parse_switch_ok; auto; nzc|]. intros sw s1 Hi1 Hb1 (H1 & Hsw). cbn beta.
  destruct sw; try contradiction.
  eapply cpost_bind; [apply plural_cases_ok; auto|]. intros cd s2 Hi2 Hb2 H2. cbn beta in H2. subst s2.
  destruct (snd cd); [cfin|cerr].
Qed.

(* ---- for / if ---- *)
Lemma parse_for_ok token s b :
  cinv s -> ckap s = b -> (cmu s < L)%nat ->
  cpost b (fun _ s' => (cmu s' <= cmu s)%nat) (parse_for inlen pe w token s).
Proof.
  intros Hi Hb Hm. unfold parse_for. cexpect vartoken s1 H1. destruct H1 as (M1 & K1 & C1 & T1 & W1 & S1).
  assert (Hlen : (1 <= length (t_val vartoken))%nat) by (apply (twf_len1p inlen); auto).
  cexpect intoken s2 H2. destruct H2 as (M2 & K2 & C2 & T2 & W2 & S2).
  destruct (negb (bstr_eqb (t_val intoken) k_in)); [cerr|].
  cpe coll s3 H3. cexpect t4 s4 H4. cw body s5 H5. destruct H5 as (M5 & K5 & I5).
  cbnz s5 I5. rewrite En. cbn [cbind].
  eapply cpost_bind with (Q1 := fun _ s7 => (cmu s7 <= cmu s5)%nat).
  { destruct (tis (ccur s5) pit_Ifempty); [|cfin]. cexpect t8 s8 H8. cw b2 s9 H9. cfin. }
  intros ie s7 Hi7 Hb7 H7. cbn beta in H7.
  cexpect t8 s8 H8.
  destruct (tail1_ok (t_val vartoken) s8 Hlen) as (nm & Et). rewrite Et. cbn [cbind]. cfin.
Qed.

Lemma if_loop_ok : forall f pos conds is_else s b,
  cinv s -> ckap s = b -> (cmu s < L)%nat -> (cmu s < f)%nat ->
  cpost b (fun _ s' => (cmu s' <= cmu s)%nat) (if_loop inlen pe w f pos conds is_else s).
Proof.
  induction f as [|f IH]; intros pos conds is_else s b Hi Hb Hm Hf; [lia|].
  cbn [if_loop].
  eapply cpost_bind with (Q1 := fun _ s1 => (cmu s1 <= cmu s)%nat).
  { destruct is_else; [cfin|]. cpe c s0 H0. cfin. }
  intros cond s1 Hi1 Hb1 H1. cbn beta in H1.
  cexpect t2 s2 H2. cw body s3 H3. destruct H3 as (M3 & K3 & I3). cbv zeta.
  cbnz s3 I3. rewrite En. cbn [cbind].
  destruct (tis (ccur s3) pit_Elseif); [cuse IH|].
  destruct (tis (ccur s3) pit_Else); [cuse IH|].
  destruct (tis (ccur s3) pit_IfEnd); [|cuse IH].
  cexpect t5 s5 H5. cfin.
Qed.

(* ---- msg ---- *)
Lemma parse_msg_ok token s b :
  cinv s -> ckap s = b -> (cmu s < L)%nat ->
  cpost b (fun _ s' => (cmu s' <= cmu s)%nat) (parse_msg inlen unq w lf token s).
Proof.
  intros Hi Hb Hm. unfold parse_msg.
  eapply cpost_bind; [apply attrs_loop_ok; auto; lia|]. intros attrs s1 Hi1 Hb1 H1. cbn beta in H1.
  destruct (attr k_desc attrs); [|cerr].
  cexpect t2 s2 H2.
  assert (Hi2' : cinv (set_inmsg s2 true)) by (unfold ParserBase.cinv in *; cbn [c_p c_scans set_inmsg]; auto).
  eapply cpost_bind; [apply (Hw u_msg (set_inmsg s2 true)); [uok|auto|cbn [c_p set_inmsg]; unfold kap in *; lia|cbn [c_p set_inmsg]; lia]|].
  intros contents s3 Hi3 Hb3 H3. unfold wpost in H3. cbn [c_p set_inmsg] in H3. cbv zeta.
  assert (Hi4 : cinv (set_inmsg s3 false)) by (unfold ParserBase.cinv in *; cbn [c_p c_scans set_inmsg]; auto).
  destruct (existsb is_plural _ && negb _).
  - apply c_errorf_post; auto. cbn [c_p set_inmsg]. unfold kap in *; lia.
  - eapply cpost_bind; [apply c_expect_post; [auto|nzc|cbn [c_p set_inmsg]; unfold kap in *; lia]|].
    intros t5 s5 Hi5 Hb5 H5. cbn [c_p set_inmsg] in H5. cfin.
Qed.

(* ---- template, header param ---- *)
Lemma parse_template_ok token s b :
  cinv s -> ckap s = b -> (cmu s < L)%nat ->
  cpost b (fun _ s' => (cmu s' <= cmu s)%nat) (parse_template inlen unq w lf token s).
Proof.
  intros Hi Hb Hm. unfold parse_template. cexpect id s1 H1.
  eapply cpost_bind; [apply attrs_loop_ok; auto; lia|]. intros attrs s2 Hi2 Hb2 H2. cbn beta in H2.
  eapply cpost_bind; [apply parse_autoescape_ok; auto|]. intros ae s3 Hi3 Hb3 H3. cbn beta in H3. subst s3.
  eapply cpost_bind; [apply bool_attr_ok; auto|]. intros pr s4 Hi4 Hb4 H4. cbn beta in H4. subst s4.
  cexpect t5 s5 H5. cw body s6 H6. cbv zeta. cexpect t7 s7 H7. cfin.
Qed.

Lemma parse_header_param_ok token s b :
  cinv s -> ckap s = b -> (cmu s < L)%nat ->
  cpost b (fun _ s' => (cmu s' <= cmu s)%nat) (parse_header_param inlen pe token s).
Proof.
  intros Hi Hb Hm. unfold parse_header_param. cexpect name s1 H1. cexpect t2 s2 H2. cexpect typ s3 H3.
  cnext tk s4 R4. dcn R4.
  eapply cpost_bind with (Q1 := fun _ s5 => (cmu s5 <= cmu s3)%nat).
  { tcase tk pit_Equals E.
    - tnz E Hnz. cpe e s0 H0. cfin.
    - cbk R4. cfin. }
  intros dv s5 Hi5 Hb5 H5. cbn beta in H5. cexpect t6 s6 H6. cfin.
Qed.

(* ---- beginTag ---- *)
Lemma begin_tag_ok s b :
  cinv s -> ckap s = b -> (cmu s < L)%nat ->
  cpost b (fun _ s' => (cmu s' <= cmu s)%nat)
        (begin_tag inlen lexq unq parse_expr expr_fuel pe w lf s).
Proof.
  intros Hi Hb Hm. unfold begin_tag. cnext token s1 R. dcn R. cbv zeta.
  assert (Some' : forall (r : cres node), (t_typ token <> 0) ->
            cpost b (fun _ s' => (cmu s' <= cmu s1)%nat) r ->
            cpost b (fun _ s' => (cmu s' <= cmu s)%nat) (cbind r (fun n s' => COk (Some n) s'))).
  { intros r Hnz Hr. eapply cpost_bind; [exact Hr|]. intros n s' X1 X2 X3. cbn beta in X3. cfin. }
  tcase token pit_Namespace E1.
  { tnz E1 Hnz. apply Some'; auto. apply parse_namespace_ok; auto; unfold kap in *; lia. }
  tcase token pit_Template E2.
  { tnz E2 Hnz. apply Some'; auto. apply parse_template_ok; auto; unfold kap in *; lia. }
  destruct (tis token pit_HeaderParam || tis token pit_HeaderOptionalParam) eqn:E3.
  { assert (Hnz : t_typ token <> 0) by (intro X; unfold tis in E3; rewrite X in E3; vm_compute in E3; discriminate).
    apply Some'; auto. apply parse_header_param_ok; auto; unfold kap in *; lia. }
  tcase token pit_If E4.
  { tnz E4 Hnz. unfold notmsg. destruct (c_inmsg s1); [cerr|].
    apply Some'; auto. apply if_loop_ok; auto; unfold kap in *; lia. }
  tcase token pit_Msg E5.
  { tnz E5 Hnz. unfold notmsg. destruct (c_inmsg s1); [cerr|].
    apply Some'; auto. apply parse_msg_ok; auto; unfold kap in *; lia. }
  tcase token pit_Plural E6.
  { tnz E6 Hnz. apply Some'; auto. apply parse_plural_ok; auto; unfold kap in *; lia. }
  destruct (tis token pit_Foreach || tis token pit_For) eqn:E7.
  { assert (Hnz : t_typ token <> 0) by (intro X; unfold tis in E7; rewrite X in E7; vm_compute in E7; discriminate).
    unfold notmsg. destruct (c_inmsg s1); [cerr|].
    apply Some'; auto. apply parse_for_ok; auto; unfold kap in *; lia. }
  tcase token pit_Switch E8.
  { tnz E8 Hnz. unfold notmsg. destruct (c_inmsg s1); [cerr|].
    apply Some'; auto.
    eapply cpost_weaken; [apply parse_switch_ok; auto; [nzc|unfold kap in *; lia|lia]|]. intros a s' X1 X2 (X3 & X4); auto. }
  tcase token pit_Call E9.
  { tnz E9 Hnz. apply Some'; auto. apply parse_call_ok; auto; unfold kap in *; lia. }
  tcase token pit_Literal E10.
  { tnz E10 Hnz. cexpect t2 s2 H2. cexpect lit s3 H3. cexpect t4 s4 H4. cexpect t5 s5 H5. cexpect t6 s6 H6. cfin. }
  tcase token pit_Css E11.
  { tnz E11 Hnz. apply Some'; auto. apply parse_css_ok; auto; unfold kap in *; lia. }
  tcase token pit_Log E12.
  { tnz E12 Hnz. cexpect t2 s2 H2. cw body s3 H3. cexpect t4 s4 H4. cfin. }
  tcase token pit_Debugger E13.
  { tnz E13 Hnz. cexpect t2 s2 H2. cfin. }
  tcase token pit_Let E14.
  { tnz E14 Hnz. apply Some'; auto. apply parse_let_ok; auto; unfold kap in *; lia. }
  tcase token pit_Alias E15.
  { tnz E15 Hnz. eapply cpost_bind; [apply parse_alias_ok; auto; unfold kap in *; lia|].
    intros u s2 Hi2 Hb2 H2. cbn beta in H2. cfin. }
  destruct (assoc (t_typ token) parser_special_chars) eqn:E16.
  { apply special_char_nz in E16. cexpect t2 s2 H2. cfin. }
  destruct (one_of (t_typ token) parser_implicit_print) eqn:E17.
  { apply implicit_print_nz in E17.
    cbk R.
    eapply cpost_bind; [apply cmd_print_ok; auto; unfold kap in *; lia|].
    intros n s' X1 X2 X3. cbn beta in X3. cfin. }
  tcase token pit_Print E18.
  { tnz E18 Hnz. apply Some'; auto. apply cmd_print_ok; auto; unfold kap in *; lia. }
  cerr.
Qed.

(* ---- textOrTag ---- *)
Lemma text_or_tag_ok until s token0 s1 b :
  until_ok until -> cinv s -> ckap s = b -> cnrel s token0 s1 -> cinv s1 -> (cmu s <= L)%nat -> (cmu s < lf)%nat ->
  cpost b (fun r s' => (cmu s' < cmu s)%nat /\ (snd r = true -> (cpeek s' <= 1)%nat /\ In (t_typ (ccur s')) until))
        (text_or_tag inlen lexq unq parse_expr expr_fuel pe w lf token0 until s1).
Proof.
  intros Hu Hi Hb R0 Hi1 Hm Hf. unfold text_or_tag. cbv zeta.
  apply (skip_comments_step inlen NT eofchk b _ lf s); auto.
  intros sp token s1' A1 B1 C1 R1 Hi1'. cbn beta. dcn R1.
  destruct (one_of (t_typ token) until) eqn:Eu.
  { pose proof (one_of_nz _ _ Hu Eu) as Hnz. apply one_of_in in Eu.
    cfin. intros _. split; [auto|]. rewrite <- Rcur. auto. }
  cnext token2 s2 R2. dcn R2.
  destruct (tis token pit_LeftDelim && one_of (t_typ token2) until) eqn:E2.
  { assert (E2a : t_typ token = pit_LeftDelim) by (unfold tis in E2; lia).
    assert (E2b : one_of (t_typ token2) until = true) by (destruct (one_of (t_typ token2) until); auto; lia).
    tnz E2a Hnz. pose proof (one_of_nz _ _ Hu E2b) as Hnz2. apply one_of_in in E2b.
    cfin. intros _. split; [auto|]. rewrite <- Rcur0. auto. }
  destruct (c_backup_after inlen NT eofchk _ _ _ Hi1' R2) as (A3 & B3 & C3).
  tcase token pit_Text E3.
  { tnz E3 Hnz.
    apply text_run_step; auto; unfold kap in *; try lia.
    intros txt sp2 nx s4 A4 B4 C4 R4 Hi4. cbn beta. cbn [fst snd].
    cbk R4.
    destruct (rawtext_never_crashes txt (tis token0 pit_Comment) (tis nx pit_Comment)) as (o & Eo). rewrite Eo.
    destruct o; cfin; intros X; discriminate. }
  tcase token pit_LeftDelim E4.
  { tnz E4 Hnz. eapply cpost_bind; [apply begin_tag_ok; auto; unfold kap in *; lia|].
    intros n s4 X1 X2 X3. cbn beta in X3. cfin. intros X; discriminate. }
  tcase token pit_SoyDocStart E5.
  { tnz E5 Hnz. eapply cpost_bind; [apply soydoc_loop_ok; auto; unfold kap in *; lia|].
    intros n s4 X1 X2 X3. cbn beta in X3. cfin. intros X; discriminate. }
  cerr.
Qed.

(* ---- itemList ---- *)
Lemma item_list_loop_ok : forall f until pos acc s b,
  until_ok until -> cinv s -> ckap s = b -> (cmu s <= L)%nat -> (cmu s < lf)%nat -> (cmu s < f)%nat ->
  cpost b (wpost until s)
        (item_list_loop inlen lexq unq parse_expr expr_fuel pe w lf f until pos acc s).
Proof.
  induction f as [|f IH]; intros unt pos acc s b Hu Hi Hb Hm Hlf' Hf; [lia|].
  cbn [item_list_loop]. cnext token s1 R. cbv zeta.
  eapply cpost_bind; [apply (text_or_tag_ok unt s token s1); auto|].
  intros r s2 Hi2 Hb2 (H2 & H2'). cbn beta.
  destruct (snd r) eqn:Er.
  - destruct (H2' eq_refl) as (X1 & X2). unfold wpost. cfin.
  - eapply cpost_weaken; [apply IH; auto; lia|]. unfold wpost. intros a s' X1 X2 (X3 & X4 & X5). repeat split; auto; lia.
Qed.
End Level.

(* itemList: a budget of mu + 2 suffices *)
Theorem item_list_ok : forall fuel until s b,
  until_ok until -> cinv s -> ckap s = b -> (cmu s + 2 <= fuel)%nat ->
  cpost b (wpost until s) (item_list inlen lexq unq parse_expr expr_fuel fuel until s).
Proof.
  induction fuel as [|f IH]; intros unt s b Hu Hi Hb Hf; [lia|].
  cbn [item_list].
  apply item_list_loop_ok with (L := Nat.pred f); auto; try lia.
  - intros prec s0 b0 X1 X2 X3.
    eapply cpost_weaken; [apply lift_expr_post; auto; lia|]. intros a s' Y1 Y2 (Y3 & Y4); auto.
  - intros u s0 b0 X0 X1 X2 X3. apply IH; auto; lia.
Qed.

End Cmd.
