(* C16, json of numbers: the decimal text encoding/json writes for an int64 and
   for a float64 of the exact printing domain (Model/Num.v fl_to_string_dom) is read
   by the RFC 8259 number reader (Spec/Json.v json_number) as exactly the number
   the value denotes. *)
From Coq Require Import Lia ZifyN ZifyNat ZifyBool.
From Soy Require Import Model.Bytes Model.Utf8 Model.Num Model.Values Spec.Codec Spec.Json Proofs.MsgIdProofs.
Open Scope N_scope.
Ltac Zify.zify_post_hook ::= Z.div_mod_to_equations.

(* ================= dec_norm ================= *)

Lemma dec_norm_aux_fuel f1 : forall f2 m e, 0 < m -> m < 2 ^ N.of_nat f1 -> m < 2 ^ N.of_nat f2 ->
  dec_norm_aux f1 m e = dec_norm_aux f2 m e.
Proof.
  induction f1 as [|f1 IH]; intros f2 m e Hm H1 H2.
  - cbn in H1. lia.
  - destruct f2 as [|f2]; [cbn in H2; lia|].
    cbn [dec_norm_aux]. destruct (m mod 10 =? 0) eqn:E; [|reflexivity].
    rewrite Nat2N.inj_succ, N.pow_succ_r' in H1, H2.
    apply IH.
    + lia.
    + generalize dependent (2 ^ N.of_nat f1). intros; lia.
    + generalize dependent (2 ^ N.of_nat f2). intros; lia.
Qed.

Lemma size_bound m : m < 2 ^ N.of_nat (N.to_nat (N.size m)).
Proof. rewrite N2Nat.id. apply N.size_gt. Qed.

Lemma dec_norm_shift m e : 0 < m -> dec_norm (m * 10) (e - 1) = dec_norm m e.
Proof.
  intros Hm. unfold dec_norm.
  destruct (N.eqb_spec (m * 10) 0) as [E|_]; [lia|]. destruct (N.eqb_spec m 0) as [E|_]; [lia|].
  pose proof (size_bound (m * 10)) as Hb.
  destruct (N.to_nat (N.size (m * 10))) as [|f] eqn:Ef.
  - cbn in Hb. lia.
  - cbn [dec_norm_aux]. rewrite N.mod_mul by discriminate. cbn [N.eqb]. rewrite N.div_mul by discriminate.
    replace (e - 1 + 1)%Z with e by lia.
    apply dec_norm_aux_fuel; [exact Hm| |apply size_bound].
    rewrite Nat2N.inj_succ, N.pow_succ_r' in Hb. generalize dependent (2 ^ N.of_nat f). intros; lia.
Qed.

Lemma dec_norm_shift_pow j : forall m e, 0 < m -> dec_norm (m * 10 ^ j) (e - Z.of_N j) = dec_norm m e.
Proof.
  induction j as [|j IH] using N.peano_ind; intros m e Hm.
  - rewrite N.pow_0_r, N.mul_1_r. f_equal. lia.
  - rewrite N.pow_succ_r'. replace (m * (10 * 10 ^ j)) with (m * 10 ^ j * 10) by lia.
    replace (e - Z.of_N (N.succ j))%Z with (e - Z.of_N j - 1)%Z by lia.
    rewrite dec_norm_shift.
    + apply IH. exact Hm.
    + assert (0 < 10 ^ j) by (apply N.neq_0_lt_0, N.pow_nonzero; discriminate). nia.
Qed.

(* ================= runs of digits ================= *)

Fixpoint hval (ds : bstr) (acc : N) : N :=
  match ds with
  | [] => acc
  | c :: r => hval r (acc * 10 + (c - 48))
  end.

(* the next byte does not continue a run of digits *)
Definition stop_nondigit (rest : bstr) : Prop := match rest with [] => True | c :: _ => is_digit c = false end.

Lemma is_digit_byte_b c : is_digit_byte c -> is_digit c = true.
Proof. unfold is_digit_byte, is_digit, in_range. lia. Qed.

Lemma scan_digits_run ds : forall rest acc cnt, Forall is_digit_byte ds -> stop_nondigit rest ->
  scan_digits (ds ++ rest) acc cnt = (hval ds acc, (cnt + length ds)%nat, rest).
Proof.
  induction ds as [|c ds IH]; intros rest acc cnt Hd Hs.
  - cbn [app hval length]. rewrite Nat.add_0_r. destruct rest as [|c r]; [reflexivity|].
    cbn in Hs. cbn [scan_digits]. rewrite Hs. reflexivity.
  - inversion Hd as [|? ? Hc Hr]; subst. cbn [app scan_digits]. rewrite (is_digit_byte_b c Hc).
    rewrite IH by assumption. cbn [hval length]. f_equal. f_equal. lia.
Qed.

Lemma hval_app a : forall c acc, hval (a ++ c) acc = hval c (hval a acc).
Proof. induction a as [|x a IH]; intros c acc; [reflexivity|]. cbn [app hval]. apply IH. Qed.

Lemma hval_rev_lval l : hval (rev l) 0 = lval l.
Proof.
  induction l as [|c r IH]; [reflexivity|].
  cbn [rev lval]. rewrite hval_app, IH. cbn [hval]. lia.
Qed.

Lemma hval_dec n : hval (dec_of_N n) 0 = n.
Proof. rewrite dec_of_N_lsd, hval_rev_lval. apply lval_lsd, lt_pow2_log2. Qed.

Lemma lsd_last_nz fuel : forall n, 0 < n -> n < 2 ^ N.of_nat fuel -> last (lsd fuel n) 0 <> 48.
Proof.
  induction fuel as [|f IH]; intros n Hn Hlt; [cbn in Hlt; lia|]. cbn [lsd].
  destruct (N.eqb_spec (n / 10) 0) as [E|E].
  - cbn [last]. lia.
  - assert (0 < n / 10) as Hq by lia.
    assert (n / 10 < 2 ^ N.of_nat f) as Hlt'.
    { rewrite Nat2N.inj_succ, N.pow_succ_r' in Hlt. generalize dependent (2 ^ N.of_nat f). intros; lia. }
    specialize (IH (n / 10) Hq Hlt').
    destruct (lsd f (n / 10)) as [|d r] eqn:El.
    + destruct f; cbn in El; [cbn in Hlt'; lia|discriminate].
    + exact IH.
Qed.

(* a positive number is written with a first digit that is not 0 *)
Lemma dec_of_N_pos_head p : exists d ds, dec_of_N (Npos p) = d :: ds /\ Forall is_digit_byte (d :: ds) /\ d <> 48.
Proof.
  pose proof (dec_of_N_digits (Npos p)) as Hd. pose proof (dec_of_N_nonempty (Npos p)) as Hne.
  pose proof (dec_of_N_lsd (Npos p)) as Hl.
  destruct (dec_of_N (Npos p)) as [|d ds] eqn:E; [congruence|]. exists d, ds. split; [reflexivity|]. split; [exact Hd|].
  pose proof (lsd_last_nz (S (N.to_nat (N.log2 (Npos p)))) (Npos p) ltac:(lia) (lt_pow2_log2 (Npos p))) as Hz.
  remember (lsd (S (N.to_nat (N.log2 (N.pos p)))) (N.pos p)) as L.
  assert (L = rev ds ++ [d]) as HL by (rewrite <- (rev_involutive L), <- Hl; reflexivity).
  rewrite HL, last_last in Hz. exact Hz.
Qed.

(* ================= the number reader on  [-] digits [ . digits ] ================= *)

(* the byte after the number does not continue it *)
Definition stop_num (rest : bstr) : Prop :=
  match rest with [] => True | c :: _ => is_digit c = false /\ c <> 46 /\ c <> 101 /\ c <> 69 end.

Lemma stop_num_nondigit rest : stop_num rest -> stop_nondigit rest.
Proof. destruct rest; cbn; tauto. Qed.

Lemma eat_stop c rest : match rest with [] => True | x :: _ => x <> c end -> eat c rest = None.
Proof. destruct rest as [|x r]; [reflexivity|]. intros H. cbn [eat]. destruct (N.eqb_spec x c); [congruence|reflexivity]. Qed.

Lemma num_exp_stop rest : stop_num rest -> num_exp rest = Some (0%Z, rest).
Proof.
  destruct rest as [|c3 r3]; [reflexivity|]. cbn [stop_num]. intros (_ & _ & H1 & H2). cbn [num_exp].
  destruct (N.eqb_spec c3 101); [congruence|]. destruct (N.eqb_spec c3 69); [congruence|]. reflexivity.
Qed.

Lemma num_frac_none ip rest : stop_num rest -> num_frac ip rest = Some (ip, 0%nat, rest).
Proof.
  intros Hs. unfold num_frac. rewrite eat_stop; [reflexivity|]. destruct rest; [exact I|cbn in Hs; tauto].
Qed.

Lemma num_frac_run ip f0 fr rest : Forall is_digit_byte (f0 :: fr) -> stop_num rest ->
  num_frac ip (46 :: (f0 :: fr) ++ rest) = Some (hval (f0 :: fr) ip, length (f0 :: fr), rest).
Proof.
  intros Hd Hs. unfold num_frac. cbn [eat]. rewrite N.eqb_refl.
  rewrite scan_digits_run by (try assumption; apply stop_num_nondigit, Hs). reflexivity.
Qed.

(* digits without sign, no leading zero: ip [. fd] *)
Lemma json_number_unsigned ip fd rest neg0 :
  (ip = [48] \/ exists d ds, ip = d :: ds /\ d <> 48) -> Forall is_digit_byte ip -> Forall is_digit_byte fd -> stop_num rest ->
  forall pre, (pre = [] /\ neg0 = false) \/ (pre = [45] /\ neg0 = true) ->
  json_number (pre ++ ip ++ (match fd with [] => [] | _ => 46 :: fd end) ++ rest) =
    (let '(m, e) := dec_norm (hval fd (hval ip 0)) (- Z.of_nat (length fd)) in Some (JvNum neg0 m e, rest)).
Proof.
  intros Hip Hdi Hdf Hstop pre Hpre.
  assert (exists c0 r0, ip = c0 :: r0 /\ is_digit_byte c0) as (c0 & r0 & Eip & Hc0).
  { destruct Hip as [->|(d & ds & -> & _)]; [exists 48, []; split; [reflexivity|unfold is_digit_byte; lia]|].
    inversion Hdi; subst. eauto. }
  set (tail := (match fd with [] => [] | _ => 46 :: fd end) ++ rest).
  unfold json_number.
  assert (num_sign (pre ++ ip ++ tail) = (neg0, ip ++ tail)) as ->.
  { unfold num_sign. destruct Hpre as [[-> ->]|[-> ->]].
    - cbn [app]. rewrite Eip. cbn [app eat]. unfold is_digit_byte in Hc0. destruct (N.eqb_spec c0 45); [lia|reflexivity].
    - reflexivity. }
  assert (stop_nondigit tail) as Hs2.
  { subst tail. destruct fd; [cbn [app]; apply stop_num_nondigit, Hstop|reflexivity]. }
  pose proof (scan_digits_run ip tail 0 0%nat Hdi Hs2) as Hscan. cbn [Nat.add] in Hscan.
  rewrite Eip at 1. cbn [app]. rewrite (is_digit_byte_b c0 Hc0). cbn [negb].
  rewrite Hscan.
  assert (((c0 =? 48) && negb (Nat.eqb (length ip) 1)) = false) as ->.
  { destruct Hip as [->|(d & ds & E & Hd)].
    - injection Eip as <- <-. reflexivity.
    - rewrite Eip in E. injection E as -> ->. destruct (N.eqb_spec d 48); [congruence|reflexivity]. }
  subst tail. destruct fd as [|f0 fr].
  - cbn [app]. rewrite num_frac_none, num_exp_stop by exact Hstop. reflexivity.
  - change ((46 :: f0 :: fr) ++ rest) with (46 :: (f0 :: fr) ++ rest).
    rewrite num_frac_run, num_exp_stop by assumption.
    replace (0 - Z.of_nat (length (f0 :: fr)))%Z with (- Z.of_nat (length (f0 :: fr)))%Z by lia. reflexivity.
Qed.

(* ---- integers ---- *)
Lemma dec_of_N_ip n : (dec_of_N n = [48] \/ exists d ds, dec_of_N n = d :: ds /\ d <> 48).
Proof.
  destruct n as [|p]; [left; reflexivity|]. right.
  destruct (dec_of_N_pos_head p) as (d & ds & E & _ & Hd). eauto.
Qed.

Theorem json_number_int z rest : stop_num rest -> json_number (dec_of_Z z ++ rest) = Some (num_of_Z z, rest).
Proof.
  intros Hstop. unfold num_of_Z.
  destruct z as [|p|p]; cbn [dec_of_Z].
  - pose proof (json_number_unsigned [48] [] rest false (or_introl eq_refl) ltac:(repeat constructor; unfold is_digit_byte; lia)
                  ltac:(constructor) Hstop [] (or_introl (conj eq_refl eq_refl))) as H.
    cbn [app] in H. cbn [app]. rewrite H. reflexivity.
  - pose proof (json_number_unsigned (dec_of_N (Npos p)) [] rest false (dec_of_N_ip _) (dec_of_N_digits _)
                  ltac:(constructor) Hstop [] (or_introl (conj eq_refl eq_refl))) as H.
    cbn [app] in H. rewrite H. cbn [hval length Z.of_nat Z.opp]. rewrite hval_dec.
    cbn [Z.abs_N]. change (Z.pos p <? 0)%Z with false. destruct (dec_norm (N.pos p) 0); reflexivity.
  - pose proof (json_number_unsigned (dec_of_N (Npos p)) [] rest true (dec_of_N_ip _) (dec_of_N_digits _)
                  ltac:(constructor) Hstop [45] (or_intror (conj eq_refl eq_refl))) as H.
    cbn [app] in H. cbn [app]. rewrite H. cbn [hval length Z.of_nat Z.opp]. rewrite hval_dec.
    cbn [Z.abs_N]. change (Z.neg p <? 0)%Z with true. destruct (dec_norm (N.pos p) 0); reflexivity.
Qed.

(* ================= floats of the exact printing domain ================= *)

Lemma frac_scale f : forall num den c, (0 < c)%Z -> (0 < den)%Z ->
  frac_digits f (c * num) (c * den) = frac_digits f num den.
Proof.
  induction f as [|f IH]; intros num den c Hc Hden; cbn [frac_digits]; [reflexivity|].
  destruct (Z.eqb_spec num 0) as [->|Hn].
  - rewrite Z.mul_0_r. reflexivity.
  - destruct (Z.eqb_spec (c * num) 0) as [E|_]; [nia|].
    replace (c * num * 10)%Z with (c * (num * 10))%Z by ring.
    rewrite Z.div_mul_cancel_l by lia. rewrite Z.mul_mod_distr_l by lia. rewrite IH by lia. reflexivity.
Qed.

(* the digits of num / 2^k are exact after at most k places *)
Lemma frac_exact k : forall f num acc, (k <= f)%nat -> (0 <= num < 2 ^ Z.of_nat k)%Z ->
  Forall is_digit_byte (frac_digits f num (2 ^ Z.of_nat k)) /\
  (length (frac_digits f num (2 ^ Z.of_nat k)) <= k)%nat /\
  (num <> 0%Z -> frac_digits f num (2 ^ Z.of_nat k) <> []) /\
  (Z.of_N (hval (frac_digits f num (2 ^ Z.of_nat k)) acc) * 2 ^ Z.of_nat k =
   (Z.of_N acc * 2 ^ Z.of_nat k + num) * 10 ^ Z.of_nat (length (frac_digits f num (2 ^ Z.of_nat k))))%Z.
Proof.
  induction k as [|k IH]; intros f num acc Hf Hnum.
  - cbn in Hnum. assert (num = 0%Z) as -> by lia.
    assert (frac_digits f 0 (2 ^ Z.of_nat 0) = []) as -> by (destruct f; reflexivity).
    cbn [hval length]. repeat split; try constructor; try congruence; cbn; lia.
  - destruct f as [|f]; [lia|].
    rewrite Nat2Z.inj_succ, Z.pow_succ_r in * by lia.
    set (P := (2 ^ Z.of_nat k)%Z) in *. assert (0 < P)%Z as HP by (apply Z.pow_pos_nonneg; lia).
    cbn [frac_digits]. destruct (Z.eqb_spec num 0) as [->|Hn0].
    + cbn [hval length]. repeat split; try constructor; try congruence; cbn; lia.
    + set (d := (num * 10 / (2 * P))%Z). set (n' := (num * 10 mod (2 * P))%Z).
      assert (0 <= d < 10)%Z as Hd by (subst d; split; [apply Z.div_pos; lia|apply Z.div_lt_upper_bound; lia]).
      assert (num * 10 = 2 * P * d + n' /\ 0 <= n' < 2 * P)%Z as (Hdm & Hn').
      { subst d n'. split; [apply Z.div_mod; lia|apply Z.mod_pos_bound; lia]. }
      set (n2 := (5 * num - P * d)%Z).
      assert (n' = 2 * n2)%Z as En' by (subst n2; lia).
      rewrite En'. rewrite frac_scale by lia.
      assert (0 <= n2 < P)%Z as Hn2 by lia.
      destruct (IH f n2 (acc * 10 + Z.to_N d) ltac:(lia) Hn2) as (Hdig & Hlen & _ & Heq).
      set (fd := frac_digits f n2 P) in *.
      split; [|split; [|split]].
      * constructor; [unfold is_digit_byte; lia|exact Hdig].
      * cbn [length]. lia.
      * discriminate.
      * cbn [hval length]. replace (Z.to_N (48 + d) - 48) with (Z.to_N d) by lia.
        rewrite Nat2Z.inj_succ, Z.pow_succ_r by lia.
        set (X := Z.of_N (hval fd (acc * 10 + Z.to_N d))) in *. set (T := (10 ^ Z.of_nat (length fd))%Z) in *.
        replace (Z.of_N (acc * 10 + Z.to_N d)) with (Z.of_N acc * 10 + d)%Z in Heq by lia.
        replace (X * (2 * P))%Z with (2 * (X * P))%Z by ring. rewrite Heq.
        subst n2. ring.
Qed.

Lemma frac_text_ne (fd : bstr) : fd <> [] -> (match fd with [] => [] | _ => 46 :: fd end) = 46 :: fd.
Proof. destruct fd; [congruence|reflexivity]. Qed.

Lemma some_inj {A} (x y : A) : Some x = Some y -> x = y.
Proof. intros H. injection H as H. exact H. Qed.

(* normalised floats: the mantissa is odd (what mk_fl produces) *)
Definition fl_norm (x : fl) : Prop := match x with FFin m _ => Z.odd m = true | _ => True end.

Lemma dec_of_Z_nonneg v : (0 <= v)%Z -> dec_of_Z v = dec_of_N (Z.to_N v).
Proof. destruct v as [|p|p]; [reflexivity|reflexivity|lia]. Qed.

Theorem json_number_float x s rest : fl_norm x -> fl_to_string_dom x = Some s -> stop_num rest ->
  forall j, num_of_fl x = Some j -> json_number (s ++ rest) = Some (j, rest).
Proof.
  intros Hnorm Hs Hstop j Hj.
  destruct x as [| |n|m e]; cbn [num_of_fl] in Hj; try discriminate.
  - (* zero *)
    injection Hj as <-. cbn [fl_to_string_dom] in Hs. destruct n; injection Hs as <-.
    + pose proof (json_number_unsigned [48] [] rest true (or_introl eq_refl) ltac:(repeat constructor; unfold is_digit_byte; lia)
                    ltac:(constructor) Hstop [45] (or_intror (conj eq_refl eq_refl))) as H.
      cbn [app] in H. cbn [app]. rewrite H. reflexivity.
    + pose proof (json_number_unsigned [48] [] rest false (or_introl eq_refl) ltac:(repeat constructor; unfold is_digit_byte; lia)
                    ltac:(constructor) Hstop [] (or_introl (conj eq_refl eq_refl))) as H.
      cbn [app] in H. cbn [app]. rewrite H. reflexivity.
  - cbn [fl_norm] in Hnorm. cbn [fl_to_string_dom] in Hs. cbv zeta in Hs.
    assert (m <> 0)%Z as Hm0 by (intros ->; discriminate).
    set (a := Z.abs m) in *. assert (0 < a)%Z as Ha by lia.
    assert (Z.abs_N m = Z.to_N a) as Eabs by lia. rewrite Eabs in Hj.
    set (pre := if (m <? 0)%Z then [45] else @nil N) in *.
    assert ((pre = [] /\ (m <? 0)%Z = false) \/ (pre = [45] /\ (m <? 0)%Z = true)) as Hpre
      by (subst pre; destruct (m <? 0)%Z; auto).
    destruct (Z.leb_spec 0 e) as [He|He].
    + (* an integer value *)
      destruct (a * 2 ^ e <? 1000000)%Z; [|discriminate]. apply some_inj in Hs. subst s.
      assert (0 < a * 2 ^ e)%Z as Hv by (apply Z.mul_pos_pos; [lia|apply Z.pow_pos_nonneg; lia]).
      rewrite dec_of_Z_nonneg by lia.
      pose proof (json_number_unsigned (dec_of_N (Z.to_N (a * 2 ^ e))) [] rest (m <? 0)%Z (dec_of_N_ip _) (dec_of_N_digits _)
                    ltac:(constructor) Hstop pre Hpre) as H.
      cbv iota in H. cbn [app] in H. rewrite <- app_assoc.
      change (json_number (pre ++ dec_of_N (Z.to_N (a * 2 ^ e)) ++ rest) = Some (j, rest)). rewrite H. cbn [hval length Z.of_nat Z.opp]. rewrite hval_dec.
      replace (Z.to_N a * 2 ^ Z.to_N e) with (Z.to_N (a * 2 ^ e)) in Hj.
      2:{ rewrite Z2N.inj_mul by (try lia; apply Z.pow_nonneg; lia). f_equal. rewrite Z2N.inj_pow by lia. reflexivity. }
      destruct (dec_norm (Z.to_N (a * 2 ^ e)) 0) as [m' e']. injection Hj as <-. reflexivity.
    + (* a fraction *)
      destruct (e <? -9)%Z eqn:E9; [discriminate|].
      destruct (a / 2 ^ (- e) <? 1000000)%Z; [|discriminate]. apply some_inj in Hs. subst s.
      set (k := Z.to_nat (- e)). assert (- e = Z.of_nat k)%Z as Ek by lia. rewrite Ek in *.
      set (P := (2 ^ Z.of_nat k)%Z) in *. assert (0 < P)%Z as HP by (apply Z.pow_pos_nonneg; lia).
      set (ipz := (a / P)%Z). set (r := (a mod P)%Z).
      assert (a = P * ipz + r /\ 0 <= r < P)%Z as (Hdm & Hr) by (subst ipz r; split; [apply Z.div_mod; lia|apply Z.mod_pos_bound; lia]).
      assert (0 <= ipz)%Z as Hipz by (subst ipz; apply Z.div_pos; lia).
      assert (r <> 0)%Z as Hr0.
      { (* a is odd and P is even *)
        intros E0. assert (Z.odd a = true) as Hodd by (subst a; rewrite <- Hnorm; destruct m as [|q|q]; try reflexivity; destruct q; reflexivity).
        assert (exists P', P = 2 * P')%Z as (P' & EP).
        { subst P. destruct k as [|k']; [lia|]. exists (2 ^ Z.of_nat k')%Z. rewrite Nat2Z.inj_succ, Z.pow_succ_r by lia. reflexivity. }
        rewrite E0, EP in Hdm. rewrite Hdm in Hodd. replace (2 * P' * ipz + 0)%Z with (2 * (P' * ipz))%Z in Hodd by ring.
        rewrite Z.odd_mul in Hodd. discriminate. }
      destruct (frac_exact k 12 r (Z.to_N ipz) ltac:(lia) Hr) as (Hdig & Hlen & Hne & Heq).
      set (fd := frac_digits 12 r P) in *. specialize (Hne Hr0).
      rewrite dec_of_Z_nonneg by lia.
      pose proof (json_number_unsigned (dec_of_N (Z.to_N ipz)) fd rest (m <? 0)%Z (dec_of_N_ip _) (dec_of_N_digits _)
                    Hdig Hstop pre Hpre) as H.
      assert ((match fd with [] => [] | _ => 46 :: fd end) = 46 :: fd) as Eft by (apply frac_text_ne, Hne).
      rewrite Eft in H. rewrite <- !app_assoc.
      change (json_number (pre ++ dec_of_N (Z.to_N ipz) ++ (46 :: fd) ++ rest) = Some (j, rest)). rewrite H. rewrite hval_dec.
      (* the two decimals are the same number *)
      set (L := length fd) in *. set (M := hval fd (Z.to_N ipz)) in *.
      rewrite Z2N.id in Heq by lia.
      assert (Z.of_N M * P = (ipz * P + r) * 10 ^ Z.of_nat L)%Z as Heq' by exact Heq.
      assert (Z.of_N M * P = a * 10 ^ Z.of_nat L)%Z as HM by (rewrite Heq', Hdm; ring).
      assert (L <= k)%nat as HLk by exact Hlen.
      assert (0 < M) as HMpos.
      { assert (0 < Z.of_N M * P)%Z; [|nia]. rewrite HM. apply Z.mul_pos_pos; [lia|apply Z.pow_pos_nonneg; lia]. }
      assert (Z.to_N a * 5 ^ Z.to_N (Z.of_nat k) = M * 10 ^ N.of_nat (k - L)) as Evalue.
      { apply N2Z.inj. rewrite !N2Z.inj_mul, !N2Z.inj_pow. rewrite !Z2N.id by lia. rewrite nat_N_Z.
        change (Z.of_N 5) with 5%Z. change (Z.of_N 10) with 10%Z.
        (* multiply both sides by P = 2^k *)
        apply (Z.mul_reg_r _ _ P); [lia|].
        replace (a * 5 ^ Z.of_nat k * P)%Z with (a * 10 ^ Z.of_nat k)%Z.
        2:{ subst P. rewrite <- Z.mul_assoc, <- Z.pow_mul_l. reflexivity. }
        replace (Z.of_N M * 10 ^ Z.of_nat (k - L) * P)%Z with (Z.of_N M * P * 10 ^ Z.of_nat (k - L))%Z by ring.
        rewrite HM. rewrite <- Z.mul_assoc, <- Z.pow_add_r by lia. f_equal. f_equal. lia. }
      rewrite Evalue in Hj.
      replace e with (- Z.of_nat L - Z.of_N (N.of_nat (k - L)))%Z in Hj by lia.
      rewrite dec_norm_shift_pow in Hj by exact HMpos.
      destruct (dec_norm M (- Z.of_nat L)) as [m' e']. injection Hj as <-. reflexivity.
Qed.
