(* C15, parser half for a template body: itemList(until) / textOrTag / beginTag on the items of a body of text,
   comments, special-character commands and literal blocks that is closed by "{" and an item of the until-set
   (the lemmas of Proofs/ParseBodyText.v / ParseBodyMix.v for an arbitrary until-set), and parseTemplate around it. *)
From Soy Require Import Model.Bytes Model.Utf8 Model.Outcome Model.Num Model.Values Model.Ast Model.Token Model.RawText
  Model.ExprParser Model.Parser Model.Lexer Generated.Tables Spec.Text Spec.TextBody Spec.TextMix
  Proofs.RawTextProofs Proofs.ExprParserRules Proofs.BodyTextSpec Proofs.LexBodyText Proofs.LexBodyTop Proofs.LexTokens
  Proofs.LexBodyMain Proofs.LexBodyMixMain Proofs.LexTemplate Proofs.ParseBodyText Proofs.ParseBodySeg Proofs.ParseBodyMix.
From Coq Require Import ZifyBool ZifyNat ZifyN Lia.
Open Scope N_scope.

Lemma mx_expect inlen typ ctx s t l : stream (c_p s) = t :: l -> inv (c_p s) -> t_typ t = typ ->
  exists s1, c_expect inlen typ ctx s = COk t s1 /\ stream (c_p s1) = l /\ inv (c_p s1).
Proof.
  intros Hs Hi Ht. destruct (mx_next s t l Hs Hi) as (s1 & Hn & Hs1 & Hi1 & _). exists s1.
  unfold c_expect. rewrite Hn. cbn [cbind]. unfold tis. rewrite Ht, N.eqb_refl. auto.
Qed.

Section U.
Variable inlen : N.
Variable lexq : bstr -> list tok.
Variable unq : bstr -> option bstr.
Variable pexpr : nat -> N -> pst -> presult node.
Variable efuel : list tok -> nat.
Variable pe : N -> cst -> cres node.
Variable w : list N -> cst -> cres node.
Variable lf : nat.
Variable until : list N.
Hypothesis Hut : one_of pit_Text until = false.
Hypothesis Hul : one_of pit_LeftDelim until = false.
Hypothesis Hus : forall t o, assoc t parser_special_chars = Some o -> one_of t until = false.
Hypothesis Hult : one_of pit_Literal until = false.
Notation loop := (item_list_loop inlen lexq unq pexpr efuel pe w lf).
Notation tot := (text_or_tag inlen lexq unq pexpr efuel pe w lf).
Notation btag := (begin_tag inlen lexq unq pexpr efuel pe w lf).

Lemma tot_text_u token0 s1 s2 t nx l : skip_comments lf token0 s1 = COk t s2 -> t_typ t = pit_Text ->
  t_typ nx <> pit_Text -> stream (c_p s2) = nx :: l -> inv (c_p s2) -> (1 <= lf)%nat ->
  exists s5, stream (c_p s5) = nx :: l /\ inv (c_p s5) /\
    forall rt, rawtext_run (t_val t) (tis token0 pit_Comment) (tis nx pit_Comment) = Ok rt ->
      tot token0 until s1 = COk (match rt with [] => None | _ => Some (NRawText (t_pos t) rt) end, false) s5.
Proof.
  intros Hsk Ht Hnx Hs2 Hi2 Hlf.
  assert (Hu : one_of (t_typ t) until = false) by (rewrite Ht; exact Hut).
  assert (Hnt : tis nx pit_Text = false) by (unfold tis; apply N.eqb_neq; exact Hnx).
  assert (Htt : tis t pit_Text = true) by (unfold tis; rewrite Ht; reflexivity).
  assert (Hld : tis t pit_LeftDelim = false) by (unfold tis; rewrite Ht; reflexivity).
  destruct (mx_next s2 nx l Hs2 Hi2) as (s2' & Hn2 & Hs2' & Hi2' & Hsb & Hib).
  destruct (mx_next (c_backup s2') nx l Hsb Hib) as (s4 & Hn4 & Hs4 & Hi4 & Hsb4 & Hib4).
  exists (c_backup s4). split; [exact Hsb4|]. split; [exact Hib4|]. intros rt Hrt.
  unfold text_or_tag. rewrite Hsk. cbn [cbind]. rewrite Hu, Hn2. cbn [cbind]. rewrite Hld. cbn [andb]. cbv zeta. rewrite Htt.
  destruct lf as [|lf']; [lia|]. cbn [text_run]. rewrite Hn4. cbn [cbind]. rewrite Hnt. cbn [cbind fst snd]. rewrite Hrt.
  destruct rt; reflexivity.
Qed.

Lemma text_iter_u pre t nx l pos acc s : Forall is_comment pre -> t_typ t = pit_Text ->
  t_typ nx <> pit_Text ->
  stream (c_p s) = pre ++ t :: nx :: l -> inv (c_p s) -> (length pre + 2 <= lf)%nat ->
  exists pos1 s5, stream (c_p s5) = nx :: l /\ inv (c_p s5) /\
    forall rt, rawtext_run (t_val t) (flag pre) (tis nx pit_Comment) = Ok rt -> forall f,
      loop (S f) until pos acc s =
      loop f until (Some pos1) (match rt with [] => acc | _ => acc ++ [NRawText (t_pos t) rt] end) s5.
Proof.
  intros Hpre Ht Hnx Hs Hi Hlf.
  assert (Hne : t_typ t <> pit_Comment) by (rewrite Ht; discriminate).
  destruct pre as [|c pre].
  - cbn [app] in Hs. destruct (mx_next s t _ Hs Hi) as (s1 & Hnx1 & Hs1 & Hi1 & _).
    assert (Hsk : skip_comments lf t s1 = COk t s1) by (destruct lf as [|lf']; [lia|]; apply skip_non; exact Hne).
    destruct (tot_text_u t s1 s1 t nx l Hsk Ht Hnx Hs1 Hi1 ltac:(lia)) as (s5 & Hs5 & Hi5 & Hrun).
    exists (match pos with Some p => p | None => t_pos t end), s5.
    split; [exact Hs5|]. split; [exact Hi5|]. intros rt Hrt f. cbn [flag] in Hrt.
    assert (Hseen : tis t pit_Comment = false) by (unfold tis; rewrite Ht; reflexivity). rewrite Hseen in Hrun.
    cbn [item_list_loop]. rewrite Hnx1. cbn [cbind]. rewrite (Hrun rt Hrt). cbn [cbind snd fst]. destruct rt; reflexivity.
  - cbn [app] in Hs. destruct (mx_next s c _ Hs Hi) as (s1 & Hnx1 & Hs1 & Hi1 & _).
    inversion Hpre as [|? ? Hc Hpre']; subst.
    destruct (mx_skip_run pre lf c s1 t (nx :: l) Hc Hpre' Hne Hs1 Hi1 ltac:(cbn in Hlf; lia)) as (s2 & Hsk & Hs2 & Hi2).
    destruct (tot_text_u c s1 s2 t nx l Hsk Ht Hnx Hs2 Hi2 ltac:(lia)) as (s5 & Hs5 & Hi5 & Hrun).
    exists (match pos with Some p => p | None => t_pos c end), s5.
    split; [exact Hs5|]. split; [exact Hi5|]. intros rt Hrt f. cbn [flag] in Hrt.
    assert (Hseen : tis c pit_Comment = true) by (unfold tis; rewrite Hc; reflexivity). rewrite Hseen in Hrun.
    cbn [item_list_loop]. rewrite Hnx1. cbn [cbind]. rewrite (Hrun rt Hrt). cbn [cbind snd fst]. destruct rt; reflexivity.
Qed.

(* comments, then "{" and a second item: either the second item ends the list, or it is beginTag's turn *)
Lemma ld_common pre ld t2 l s : Forall is_comment pre -> t_typ ld = pit_LeftDelim ->
  stream (c_p s) = pre ++ ld :: t2 :: l -> inv (c_p s) -> (length pre + 2 <= lf)%nat ->
  exists token0 s1 s2 s3, c_next s = COk token0 s1 /\ skip_comments lf token0 s1 = COk ld s2 /\ c_next s2 = COk t2 s3 /\
    stream (c_p s3) = l /\ inv (c_p s3) /\ stream (c_p (c_backup s3)) = t2 :: l /\ inv (c_p (c_backup s3)).
Proof.
  intros Hpre Hld Hs Hi Hlf.
  assert (Hne : t_typ ld <> pit_Comment) by (rewrite Hld; discriminate).
  destruct pre as [|c pre].
  - cbn [app] in Hs. destruct (mx_next s ld _ Hs Hi) as (s1 & Hn1 & Hs1 & Hi1 & _).
    assert (Hsk : skip_comments lf ld s1 = COk ld s1) by (destruct lf; [lia|apply skip_non; exact Hne]).
    destruct (mx_next s1 t2 l Hs1 Hi1) as (s3 & Hn3 & Hs3 & Hi3 & Hsb & Hib).
    exists ld, s1, s1, s3. auto 10.
  - cbn [app] in Hs. destruct (mx_next s c _ Hs Hi) as (s1 & Hn1 & Hs1 & Hi1 & _).
    inversion Hpre as [|? ? Hc Hpre']; subst.
    destruct (mx_skip_run pre lf c s1 ld (t2 :: l) Hc Hpre' Hne Hs1 Hi1 ltac:(cbn in Hlf; lia)) as (s2 & Hsk & Hs2 & Hi2).
    destruct (mx_next s2 t2 l Hs2 Hi2) as (s3 & Hn3 & Hs3 & Hi3 & Hsb & Hib).
    exists c, s1, s2, s3. auto 10.
Qed.

Lemma ld_iter_u pre ld t2 l pos acc s : Forall is_comment pre -> t_typ ld = pit_LeftDelim -> one_of (t_typ t2) until = false ->
  stream (c_p s) = pre ++ ld :: t2 :: l -> inv (c_p s) -> (length pre + 2 <= lf)%nat ->
  exists pos1 sb, stream (c_p sb) = t2 :: l /\ inv (c_p sb) /\
    forall n s', btag sb = COk (Some n) s' -> forall f, loop (S f) until pos acc s = loop f until (Some pos1) (acc ++ [n]) s'.
Proof.
  intros Hpre Hld Hce Hs Hi Hlf.
  destruct (ld_common pre ld t2 l s Hpre Hld Hs Hi Hlf) as (token0 & s1 & s2 & s3 & Hn1 & Hsk & Hn3 & Hs3 & Hi3 & Hsb & Hib).
  assert (H1 : one_of (t_typ ld) until = false) by (rewrite Hld; exact Hul).
  assert (H2 : tis ld pit_Text = false) by (unfold tis; rewrite Hld; reflexivity).
  assert (H3 : tis ld pit_LeftDelim = true) by (unfold tis; rewrite Hld; reflexivity).
  exists (match pos with Some p => p | None => t_pos token0 end), (c_backup s3). split; [exact Hsb|]. split; [exact Hib|].
  intros n s' Hb f. cbn [item_list_loop]. rewrite Hn1. cbn [cbind]. unfold text_or_tag. rewrite Hsk. cbn [cbind].
  rewrite H1, Hn3. cbn [cbind]. rewrite Hce, Bool.andb_false_r. cbv zeta. rewrite H2, H3, Hb. cbn [cbind snd fst]. reflexivity.
Qed.

(* "{" and an item of the until-set: the list ends, both items consumed *)
Lemma halt_iter pre ld u l pos acc s f : Forall is_comment pre -> t_typ ld = pit_LeftDelim -> one_of (t_typ u) until = true ->
  stream (c_p s) = pre ++ ld :: u :: l -> inv (c_p s) -> (length pre + 2 <= lf)%nat ->
  exists pos1 s', loop (S f) until pos acc s = COk (NList pos1 acc) s' /\ stream (c_p s') = l /\ inv (c_p s').
Proof.
  intros Hpre Hld Hu Hs Hi Hlf.
  destruct (ld_common pre ld u l s Hpre Hld Hs Hi Hlf) as (token0 & s1 & s2 & s3 & Hn1 & Hsk & Hn3 & Hs3 & Hi3 & _ & _).
  assert (H1 : one_of (t_typ ld) until = false) by (rewrite Hld; exact Hul).
  assert (H3 : tis ld pit_LeftDelim = true) by (unfold tis; rewrite Hld; reflexivity).
  exists (match pos with Some p => p | None => t_pos token0 end), s3. split; [|split; assumption].
  cbn [item_list_loop]. rewrite Hn1. cbn [cbind]. unfold text_or_tag. rewrite Hsk. cbn [cbind].
  rewrite H1, Hn3. cbn [cbind]. rewrite Hu, H3. cbn [andb cbind snd]. reflexivity.
Qed.

Lemma tag_iter_u o tg : tagitems o tg -> forall pre l pos acc s, Forall is_comment pre ->
  stream (c_p s) = pre ++ tg ++ l -> inv (c_p s) -> (length pre + 2 <= lf)%nat ->
  exists pos1 p s', stream (c_p s') = l /\ inv (c_p s') /\
    forall f, loop (S f) until pos acc s = loop f until (Some pos1) (acc ++ [NRawText p o]) s'.
Proof.
  intros Htg pre l pos acc s Hpre Hs Hi Hlf. destruct Htg as [o ld c rd Hld Hc Hrd|o ld kw rd tx ld2 ke rd2 Hld Hkw Hrd Htx Hval Hld2 Hke Hrd2].
  - cbn [app] in Hs. destruct (ld_iter_u pre ld c (rd :: l) pos acc s Hpre Hld (Hus _ _ Hc) Hs Hi Hlf) as (pos1 & sb & Hsb & Hib & Hrun).
    destruct (begin_tag_special inlen lexq unq pexpr efuel pe w lf c rd l o sb Hsb Hib Hc Hrd) as (s' & Hb & Hs' & Hi').
    exists pos1, (t_pos c), s'. split; [exact Hs'|]. split; [exact Hi'|]. apply Hrun. exact Hb.
  - assert (Hce : one_of (t_typ kw) until = false) by (rewrite Hkw; exact Hult).
    cbn [app] in Hs. destruct (ld_iter_u pre ld kw (rd :: tx :: ld2 :: ke :: rd2 :: l) pos acc s Hpre Hld Hce Hs Hi Hlf) as (pos1 & sb & Hsb & Hib & Hrun).
    destruct (begin_tag_literal inlen lexq unq pexpr efuel pe w lf kw rd tx ld2 ke rd2 l sb Hsb Hib Hkw Hrd Htx Hld2 Hke Hrd2) as (s' & Hb & Hs' & Hi').
    exists pos1, (t_pos tx), s'. split; [exact Hs'|]. split; [exact Hi'|]. rewrite <- Hval. apply Hrun. exact Hb.
Qed.

Lemma stretch_nodes_u : forall pcs its, pshape pcs its -> Forall no_nul pcs ->
  forall pre, Forall is_comment pre -> forall nx l acc pos s,
  t_typ nx <> pit_Text -> t_typ nx <> pit_Comment ->
  stream (c_p s) = pre ++ its ++ nx :: l -> inv (c_p s) -> (length (pre ++ its) + 2 <= lf)%nat ->
  exists k pre' nodes pos' s', (k <= length its)%nat /\ Forall is_comment pre' /\ (length pre' <= length (pre ++ its))%nat /\
     Forall is_raw nodes /\ concat (map raw_text_of nodes) = norm_pieces (flag pre) pcs /\
     stream (c_p s') = pre' ++ nx :: l /\ inv (c_p s') /\
     forall f, loop (k + f) until pos acc s = loop f until pos' (acc ++ nodes) s'.
Proof.
  intros pcs its Hsh. induction Hsh as [x txt Htx|x x' txt c rest items' Htx Hx Hc Hsh IH];
    intros Hnn pre Hpre nx l acc pos s Hnt Hnc Hs Hi Hlf.
  - inversion Hnn as [|? ? Hnx _]; subst. rewrite norm_pieces_one.
    unfold is_text_of in Htx. destruct (droppable x) eqn:Ed.
    + subst txt. cbn [app] in *. exists 0%nat, pre, [], pos, s. split; [cbn; lia|]. split; [exact Hpre|]. split; [rewrite app_nil_r; lia|].
      split; [constructor|]. split; [cbn; symmetry; apply droppable_norm; exact Ed|]. split; [exact Hs|]. split; [exact Hi|].
      intros f. rewrite app_nil_r. reflexivity.
    + destruct Htx as (p & ->). set (t := {| t_typ := itemText; t_pos := p; t_val := x |}) in *. cbn [app] in *.
      assert (Hce : tis nx pit_Comment = false) by (unfold tis; apply N.eqb_neq; exact Hnc).
      pose proof (rawtext_run_spec x (flag pre) false Hnx) as Hrt.
      destruct (text_iter_u pre t nx l pos acc s Hpre eq_refl Hnt Hs Hi ltac:(rewrite app_length in Hlf; cbn in Hlf; lia))
        as (pos1 & s5 & Hs5 & Hi5 & Hrun).
      specialize (Hrun (normalize (flag pre) false x)). rewrite Hce in Hrun. specialize (Hrun Hrt).
      exists 1%nat, [], (match normalize (flag pre) false x with [] => [] | v => [NRawText (t_pos t) v] end), (Some pos1), s5.
      split; [cbn; lia|]. split; [constructor|]. split; [cbn; lia|].
      split; [destruct (normalize (flag pre) false x); constructor; [exact I|constructor]|].
      split; [destruct (normalize (flag pre) false x) eqn:En; cbn; [reflexivity|rewrite app_nil_r; reflexivity]|].
      split; [exact Hs5|]. split; [exact Hi5|]. intros f. change (1 + f)%nat with (S f). rewrite Hrun.
      destruct (normalize (flag pre) false x); [rewrite app_nil_r|]; reflexivity.
  - inversion Hnn as [|? ? Hnx Hnr]; subst.
    pose proof (pshape_nonempty _ _ Hsh) as Hne. destruct rest as [|y rest']; [congruence|]. rewrite norm_pieces_cons.
    assert (Hc' : t_typ c = pit_Comment) by exact Hc.
    rewrite (norm_tail (flag pre) x x' Hx). pose proof (mx_no_nul_tail x x' Hx Hnx) as Hnx'.
    unfold is_text_of in Htx. destruct (droppable x') eqn:Ed.
    + subst txt. cbn [app] in *.
      assert (Hs' : stream (c_p s) = (pre ++ [c]) ++ items' ++ nx :: l) by (rewrite <- app_assoc; exact Hs).
      destruct (IH Hnr (pre ++ [c]) ltac:(apply Forall_app; split; [exact Hpre|constructor; [exact Hc'|constructor]]) nx l acc pos s Hnt Hnc Hs' Hi
                  ltac:(rewrite <- app_assoc; exact Hlf)) as (k & pre' & nodes & pos' & s' & Hk & Hpre' & Hlen & Hraw & Hcat & Hst & Hiv & Hrun).
      exists k, pre', nodes, pos', s'. split; [cbn [length]; lia|]. split; [exact Hpre'|]. split; [rewrite <- app_assoc in Hlen; exact Hlen|].
      split; [exact Hraw|]. split; [|split; [exact Hst|split; [exact Hiv|exact Hrun]]].
      rewrite Hcat, (droppable_norm _ _ _ Ed). destruct pre; reflexivity.
    + destruct Htx as (p & ->). set (t := {| t_typ := itemText; t_pos := p; t_val := x' |}) in *. cbn [app] in *.
      assert (Hs0 : stream (c_p s) = pre ++ t :: c :: (items' ++ nx :: l)) by exact Hs.
      destruct (text_iter_u pre t c (items' ++ nx :: l) pos acc s Hpre eq_refl ltac:(rewrite Hc'; discriminate) Hs0 Hi
                  ltac:(rewrite app_length in Hlf; cbn in Hlf; lia)) as (pos1 & s5 & Hs5 & Hi5 & Hrun).
      assert (Hcc : tis c pit_Comment = true) by (unfold tis; rewrite Hc'; reflexivity).
      specialize (Hrun (normalize (flag pre) true x')). rewrite Hcc in Hrun. specialize (Hrun (rawtext_run_spec x' (flag pre) true Hnx')).
      set (acc1 := match normalize (flag pre) true x' with [] => acc | _ => acc ++ [NRawText (t_pos t) (normalize (flag pre) true x')] end) in *.
      assert (Hs5' : stream (c_p s5) = [c] ++ items' ++ nx :: l) by exact Hs5.
      destruct (IH Hnr [c] ltac:(constructor; [exact Hc'|constructor]) nx l acc1 (Some pos1) s5 Hnt Hnc Hs5' Hi5
                  ltac:(rewrite app_length in Hlf; cbn in Hlf |- *; lia)) as (k & pre' & nodes & pos' & s' & Hk & Hpre' & Hlen & Hraw & Hcat & Hst & Hiv & Hrun2).
      cbn [flag] in Hcat.
      exists (S k), pre', (match normalize (flag pre) true x' with [] => nodes | v => NRawText (t_pos t) v :: nodes end), pos', s'.
      split; [cbn [length]; lia|]. split; [exact Hpre'|]. split; [rewrite app_length in *; cbn [length] in *; lia|].
      split; [destruct (normalize (flag pre) true x'); [exact Hraw|constructor; [exact I|exact Hraw]]|].
      split; [destruct (normalize (flag pre) true x') eqn:En; [exact Hcat|cbn [map raw_text_of concat]; rewrite Hcat; reflexivity]|].
      split; [exact Hst|]. split; [exact Hiv|]. intros f. change (S k + f)%nat with (S (k + f)). rewrite Hrun, Hrun2.
      unfold acc1. destruct (normalize (flag pre) true x'); [reflexivity|rewrite <- app_assoc; reflexivity].
Qed.

(* itemList(until) over the items of a body closed by "{" and an item of the until-set *)
Lemma mshapeT_nodes : forall ld u l pcs rp items, mshapeT (ld :: u :: l) pcs rp items ->
  t_typ ld = pit_LeftDelim -> one_of (t_typ u) until = true ->
  Forall no_nul pcs -> Forall (fun q => Forall no_nul (snd q)) rp ->
  forall pre, Forall is_comment pre -> forall f acc pos s,
  stream (c_p s) = pre ++ items -> inv (c_p s) -> (length (pre ++ items) + 2 <= lf)%nat -> (length items <= f)%nat ->
  exists pos' nodes s', loop f until pos acc s = COk (NList pos' (acc ++ nodes)) s' /\ stream (c_p s') = l /\ inv (c_p s') /\
     Forall is_raw nodes /\ concat (map raw_text_of nodes) = norm_pieces (flag pre) pcs ++ mix_out rp.
Proof.
  intros ld u l pcs rp items Hsh Hld Hu. induction Hsh as [pcs its Hps|pcs its o tg pcs' rest items' Hps Htg Hsh IH];
    intros Hnn Hnr pre Hpre f acc pos s Hs Hi Hlf Hf.
  - destruct (stretch_nodes_u pcs its Hps Hnn pre Hpre ld (u :: l) acc pos s ltac:(rewrite Hld; discriminate) ltac:(rewrite Hld; discriminate) Hs Hi
                ltac:(rewrite !app_length in *; cbn [length] in *; lia)) as (k & pre' & nodes & pos' & s' & Hk & Hpre' & Hlen & Hraw & Hcat & Hst & Hiv & Hrun).
    rewrite app_length in Hf. cbn [length] in Hf.
    replace f with (k + S (f - k - 1))%nat by lia. rewrite Hrun.
    destruct (halt_iter pre' ld u l pos' (acc ++ nodes) s' (f - k - 1) Hpre' Hld Hu Hst Hiv
                ltac:(rewrite !app_length in *; cbn [length] in *; lia)) as (pos1 & s'' & Hrun2 & Hs'' & Hi'').
    exists pos1, nodes, s''. split; [exact Hrun2|]. split; [exact Hs''|]. split; [exact Hi''|]. split; [exact Hraw|].
    cbn [mix_out]. rewrite app_nil_r. exact Hcat.
  - inversion Hnr as [|? ? Hnn' Hnr']; subst. cbn [snd] in Hnn'.
    assert (Htg0 : exists ld0 tg', tg = ld0 :: tg' /\ t_typ ld0 = pit_LeftDelim).
    { destruct Htg; eexists; eexists; split; try reflexivity; assumption. }
    destruct Htg0 as (ld0 & tg' & Etg & Hld0).
    assert (Hs0 : stream (c_p s) = pre ++ its ++ ld0 :: (tg' ++ items')).
    { rewrite Hs, Etg. reflexivity. }
    assert (Hlt : (1 <= length tg)%nat) by (rewrite Etg; cbn; lia).
    destruct (stretch_nodes_u pcs its Hps Hnn pre Hpre ld0 (tg' ++ items') acc pos s ltac:(rewrite Hld0; discriminate) ltac:(rewrite Hld0; discriminate) Hs0 Hi
                ltac:(rewrite !app_length in *; lia)) as (k & pre' & nodes & pos' & s' & Hk & Hpre' & Hlen & Hraw & Hcat & Hst & Hiv & Hrun).
    assert (Hst' : stream (c_p s') = pre' ++ tg ++ items') by (rewrite Hst, Etg; reflexivity).
    destruct (tag_iter_u o tg Htg pre' items' pos' (acc ++ nodes) s' Hpre' Hst' Hiv ltac:(rewrite !app_length in *; lia))
      as (pos1 & p & s2 & Hs2 & Hi2 & Hrun2).
    rewrite !app_length in Hf.
    replace f with (k + S (f - k - 1))%nat by lia. rewrite Hrun, Hrun2.
    destruct (IH Hnn' Hnr' [] ltac:(constructor) (f - k - 1)%nat ((acc ++ nodes) ++ [NRawText p o]) (Some pos1) s2 Hs2 Hi2
                ltac:(rewrite !app_length in *; cbn [app length] in *; lia) ltac:(lia)) as (pos2 & nodes2 & s3 & Hrun3 & Hs3 & Hi3 & Hraw3 & Hcat3).
    exists pos2, (nodes ++ NRawText p o :: nodes2), s3. split; [rewrite Hrun3, <- !app_assoc; reflexivity|].
    split; [exact Hs3|]. split; [exact Hi3|].
    split; [apply Forall_app; split; [exact Hraw|constructor; [exact I|exact Hraw3]]|].
    rewrite map_app, concat_app. cbn [map raw_text_of concat mix_out flag] in *. rewrite Hcat, Hcat3, <- ?app_assoc. reflexivity.
Qed.

End U.

(* ---- parseTemplate around such a body, as the one command of a file ---- *)
Lemma special_not_template_end t o : assoc t parser_special_chars = Some o -> one_of t u_template = false.
Proof.
  intros H. pose proof (mx_special_types _ _ H) as Hin. cbn [In] in Hin.
  destruct Hin as [E|[E|[E|[E|[E|[E|[E|[]]]]]]]]; rewrite <- E; reflexivity.
Qed.

Section File.
Variable inlen : N.
Variable lexq : bstr -> list tok.
Variable unq : bstr -> option bstr.

Lemma template_file_nodes ld0 tk di rd0 body ld2 te rd2 e pcs rp :
  t_typ ld0 = pit_LeftDelim -> t_typ tk = pit_Template -> t_typ di = pit_DotIdent -> t_typ rd0 = pit_RightDelim ->
  (forall term, mshapeT term pcs rp (body ++ term)) ->
  t_typ ld2 = pit_LeftDelim -> t_typ te = pit_TemplateEnd -> t_typ rd2 = pit_RightDelim -> t_typ e = pit_EOF ->
  Forall no_nul pcs -> Forall (fun q => Forall no_nul (snd q)) rp ->
  exists F pos tp nm ae pv bpos nodes s',
    item_list inlen lexq unq parse_expr expr_fuel F u_eof (cst_init (ld0 :: tk :: di :: rd0 :: body ++ [ld2; te; rd2; e]))
      = COk (NList pos [NTemplate tp nm (NList bpos nodes) ae pv]) s' /\
    Forall is_raw nodes /\ concat (map raw_text_of nodes) = norm_pieces false pcs ++ mix_out rp.
Proof.
  intros Hld0 Htk Hdi Hrd0 Hbody Hld2 Hte Hrd2 He Hnn Hnr.
  set (items := ld0 :: tk :: di :: rd0 :: body ++ [ld2; te; rd2; e]).
  set (G1 := S (S (length items + 5))). set (G := S G1).
  destruct (stream_init items) as [Hs0 Hi0].
  (* the file level: "{" template ... *)
  destruct (ld_iter inlen lexq unq parse_expr expr_fuel (lift_expr inlen parse_expr G) (item_list inlen lexq unq parse_expr expr_fuel G) G
              [] ld0 tk (di :: rd0 :: body ++ [ld2; te; rd2; e]) None [] (cst_init items) ltac:(constructor) Hld0 ltac:(rewrite Htk; reflexivity)
              Hs0 Hi0 ltac:(unfold G, G1; cbn [length]; lia)) as (pos1 & sb & Hsb & Hib & Hrun).
  destruct (mx_next sb tk _ Hsb Hib) as (s1 & Hn1 & Hs1 & Hi1 & _).
  destruct (mx_expect inlen pit_DotIdent x_template s1 di _ Hs1 Hi1 Hdi) as (s2 & He2 & Hs2 & Hi2).
  destruct (mx_next s2 rd0 _ Hs2 Hi2) as (s3 & Hn3 & Hs3 & Hi3 & Hsb3 & Hib3).
  destruct (mx_expect inlen pit_RightDelim x_template (c_backup s3) rd0 _ Hsb3 Hib3 Hrd0) as (s5 & He5 & Hs5 & Hi5).
  (* the body, one level down *)
  destruct (mshapeT_nodes inlen lexq unq parse_expr expr_fuel (lift_expr inlen parse_expr G1) (item_list inlen lexq unq parse_expr expr_fuel G1) G1
              u_template eq_refl eq_refl special_not_template_end eq_refl ld2 te [rd2; e] pcs rp (body ++ [ld2; te; rd2; e]) (Hbody _)
              Hld2 ltac:(rewrite Hte; reflexivity) Hnn Hnr [] ltac:(constructor) (S G1) [] None s5 Hs5 Hi5
              ltac:(unfold G1, items; cbn [app length]; rewrite !app_length; cbn [length]; lia)
              ltac:(unfold G1, items; cbn [app length]; rewrite !app_length; cbn [length]; lia))
    as (bpos & nodes & s6 & Hbd & Hs6 & Hi6 & Hraw & Hcat).
  destruct (mx_expect inlen pit_RightDelim x_template s6 rd2 _ Hs6 Hi6 Hrd2) as (s7 & He7 & Hs7 & Hi7).
  set (tpl := NTemplate (t_pos tk) (c_ns s6 ++ t_val di) (NList bpos nodes) 0 false).
  assert (Hb : begin_tag inlen lexq unq parse_expr expr_fuel (lift_expr inlen parse_expr G) (item_list inlen lexq unq parse_expr expr_fuel G) G sb
               = COk (Some tpl) s7).
  { unfold begin_tag. rewrite Hn1. cbn [cbind]. unfold tis. rewrite Htk. eval_tests.
    unfold parse_template. rewrite He2. cbn [cbind].
    unfold G at 1. cbn [attrs_loop]. rewrite Hn3. cbn [cbind]. unfold tis. rewrite Hrd0. eval_tests. cbn [cbind].
    change (parse_autoescape inlen [] (c_backup s3)) with (@COk N 0 (c_backup s3)). cbn [cbind].
    change (bool_attr inlen [] k_private false (c_backup s3)) with (COk false (c_backup s3)). cbn [cbind].
    rewrite He5. cbn [cbind].
    change (item_list inlen lexq unq parse_expr expr_fuel G u_template s5)
      with (item_list_loop inlen lexq unq parse_expr expr_fuel (lift_expr inlen parse_expr G1) (item_list inlen lexq unq parse_expr expr_fuel G1) G1 (S G1) u_template None [] s5).
    rewrite Hbd. cbn [cbind app]. rewrite He7. cbn [cbind]. reflexivity. }
  destruct (eof_iter inlen lexq unq parse_expr expr_fuel (lift_expr inlen parse_expr G) (item_list inlen lexq unq parse_expr expr_fuel G) G
              [] e [] G1 (Some pos1) [tpl] s7 ltac:(constructor) He Hs7 Hi7 ltac:(unfold G, G1; cbn [length]; lia)) as (pos2 & s' & Hend).
  exists (S G), pos2, (t_pos tk), (c_ns s6 ++ t_val di), 0, false, bpos, nodes, s'. split; [|split; [exact Hraw|exact Hcat]].
  change (item_list inlen lexq unq parse_expr expr_fuel (S G) u_eof (cst_init items))
    with (item_list_loop inlen lexq unq parse_expr expr_fuel (lift_expr inlen parse_expr G) (item_list inlen lexq unq parse_expr expr_fuel G) G (S G) u_eof None [] (cst_init items)).
  rewrite (Hrun tpl s7 Hb G). exact Hend.
Qed.

End File.
