(* A GUARDED version of the generic walker induction principle of
   Proofs/InterpLogic.v (Part B), for properties that hold only of some nodes.

   [deep g n] says that the local predicate [g] holds of [n] and of every node
   below it.  A "guarded walker logic" [walker_logic_g g Phi PhiT pure_ok] is the
   record of closure conditions of Part B with two differences: the NTemplate
   step (the one place where the walker changes the autoescape mode) is needed
   only for template nodes that satisfy [g], and the bracket of [call_enter]
   takes its premise from a SEPARATE predicate [PhiT] on the walk of a callee's
   template node -- the callee comes from the registry, not from below the
   current node, so no guard on the current node says anything about it.
   Theorem [walk_logic_g]: if [Phi (w n)] for every [n] with [deep g n] and
   [PhiT (w (t_node callee))] for every template of the registry, then
   [Phi (walk_body cf w n)] for every [n] with [deep g n]; one lemma per hoisted
   loop.  The only nodes the walker synthesises ([NMsg mp 0 [] [] body] for the
   selected plural case) must satisfy [g] ([g_plural]). *)
From Soy Require Import Model.Bytes Model.Num Model.Values Model.Outcome Model.Ast
  Model.Escape Model.Directives Model.Print Generated.Tables Model.Interp Proofs.InterpLogic.
Require Import Lia.
Open Scope N_scope.

Section Deep.
Variable g : node -> bool.

Definition deep_opt (d : node -> bool) (o : option node) : bool :=
  match o with Some x => d x | None => true end.

Fixpoint deep (n : node) : bool :=
  g n &&
  match n with
  | NPrint p arg dirs => deep arg && forallb deep dirs
  | NFunc p name args => forallb deep args
  | NListLit p items => forallb deep items
  | NMapLit p items => forallb (fun kv => deep (snd kv)) items
  | NDataRef p key access => forallb deep access
  | NAccExpr p ns arg => deep arg
  | NNot p a => deep a
  | NNeg p a => deep a
  | NBin op p a1 a2 => deep a1 && deep a2
  | NTern p a1 a2 a3 => deep a1 && deep a2 && deep a3
  | NList p ns => forallb deep ns
  | NDirective p name args => forallb deep args
  | NCss p e suffix => deep_opt deep e
  | NLog p body => deep body
  | NIf p conds => forallb deep conds
  | NIfCond p c body => deep_opt deep c && deep body
  | NFor p var lst body ifempty => deep lst && deep body && deep_opt deep ifempty
  | NSwitch p v cases => deep v && forallb deep cases
  | NSwitchCase p values body => forallb deep values && deep body
  | NCall p name alldata dat params => deep_opt deep dat && forallb deep params
  | NParamValue p k v => deep v
  | NParamContent p k c => deep c
  | NLetValue p name e => deep e
  | NLetContent p name body => deep body
  | NMsg p id meaning desc body => forallb deep body
  | NMsgPlaceholder p name body => deep body
  | NMsgPlural p vn v cases dflt => deep v && forallb deep cases && forallb deep dflt
  | NMsgPluralCase p v body => forallb deep body
  | NTemplate p name body ae priv => deep body
  | _ => true
  end.

Lemma deep_g n : deep n = true -> g n = true.
Proof. destruct n; cbn [deep]; intros H; apply andb_prop in H; apply H. Qed.
End Deep.

(* split a [deep] hypothesis into its conjuncts *)
Ltac dsplit H :=
  cbn [deep deep_opt forallb snd] in H;
  repeat match goal with
         | Hx : (_ && _) = true |- _ => let H1 := fresh Hx in apply andb_prop in Hx; destruct Hx as [H1 Hx]
         end.

Section Guarded.
Variable cf : cfg.
Variable g : node -> bool.
Variable Phi : forall A : Type, M A -> Prop.
Arguments Phi {A} _.
Variable PhiT : M value -> Prop.       (* of the walk of a callee's template node *)
Variable pure_ok : forall A : Type, outcome A -> Prop.
Arguments pure_ok {A} _.

Record walker_logic_g : Prop := {
  wg_ext : forall A (m m' : M A), (forall st, m st = m' st) -> Phi m -> Phi m';
  wg_ret : forall A (x : A), Phi (ret x);
  wg_fail : forall A e, Phi (@fail A e);
  wg_lift : forall A (o : outcome A), pure_ok o -> Phi (lift o);
  wg_bind : forall A B (m : M A) (f : A -> M B), Phi m -> (forall x, Phi (f x)) -> Phi (mbind m f);
  wg_set_cur : forall p, Phi (modify (fun st => set_cur st p));
  wg_template_mode : forall p name body ae priv, g (NTemplate p name body ae priv) = true ->
      Phi (modify (fun st => set_mode st (template_mode (mode st) ae)));
  wg_write : forall w, Phi (write w);
  wg_set : forall k v, Phi (m_set k v);
  wg_lookup : forall k, Phi (m_lookup k);
  wg_fresh_list : forall l, Phi (fresh_list l);
  wg_fresh_list_or_nil : forall l, Phi (fresh_list_or_nil l);
  wg_fresh_map : forall m, Phi (fresh_map m);
  wg_read_mode : forall B (f : N -> M B), (forall x, Phi (f x)) -> Phi (st <-- get ;;; f (mode st));
  wg_read_ctx : forall B (f : scope -> M B), (forall x, Phi (f x)) -> Phi (st <-- get ;;; f (ctx st));
  wg_scoped : forall (m : M unit), Phi m -> Phi (_ <-- m_push ;;; _ <-- m ;;; _ <-- m_pop ;;; ret VUndef);
  wg_eval : forall (w : node -> M value) e, Phi (w e) -> Phi (eval w e);
  wg_block : forall (w : node -> M value) body, Phi (w body) -> Phi (render_block w body);
  wg_enter : forall (w : node -> M value) callee cd, PhiT (w (t_node callee)) -> Phi (call_enter w callee cd);
}.

Hypothesis L : walker_logic_g.
Hypothesis PS : pure_sites (@pure_ok).
Hypothesis g_plural : forall p l, g (NMsg p 0 [] [] l) = true.

Ltac phi_bind := apply (wg_bind L); [ | intro ].
Ltac phi_leaf :=
  first [ apply (wg_ret L) | apply (wg_fail L) | apply (wg_write L) | apply (wg_set L)
        | apply (wg_lookup L) | apply (wg_fresh_list L) | apply (wg_fresh_list_or_nil L)
        | apply (wg_fresh_map L) | apply (wg_set_cur L) ].

Lemma gphi_write_all ws : Phi (write_all ws).
Proof.
  induction ws as [|x r IH]; cbn [write_all]; [apply (wg_ret L)|].
  phi_bind; [apply (wg_write L) | exact IH].
Qed.

Section Body.
Variable w : node -> M value.
Hypothesis Hw : forall n, deep g n = true -> Phi (w n).
Hypothesis HwT : forall callee, In callee (r_templates (c_reg cf)) -> PhiT (w (t_node callee)).

Lemma gphi_eval e : deep g e = true -> Phi (eval w e).
Proof. intros H. apply (wg_eval L). apply Hw. exact H. Qed.

Lemma gphi_evaldef e : deep g e = true -> Phi (evaldef w e).
Proof. intros H. unfold evaldef. phi_bind; [apply gphi_eval; exact H|]. destruct x; phi_leaf. Qed.

Lemma gphi_eval_list es : forallb (deep g) es = true -> Phi (eval_list w es).
Proof.
  induction es as [|e r IH]; cbn [eval_list]; intros H; [phi_leaf|]. dsplit H.
  phi_bind; [apply gphi_eval; assumption|]. phi_bind; [apply IH; assumption|]. phi_leaf.
Qed.

Lemma gphi_walk_list ns : forallb (deep g) ns = true -> Phi (walk_list w ns).
Proof.
  induction ns as [|x r IH]; cbn [walk_list]; intros H; [phi_leaf|]. dsplit H.
  phi_bind; [apply Hw; assumption | apply IH; assumption].
Qed.

Lemma gphi_render_block body : deep g body = true -> Phi (render_block w body).
Proof. intros H. apply (wg_block L). apply Hw. exact H. Qed.

Lemma gphi_maplit_items l : forallb (fun kv => deep g (snd kv)) l = true -> Phi (maplit_items w l).
Proof.
  induction l as [|[k e] r IH]; cbn [maplit_items]; intros H; [phi_leaf|]. dsplit H.
  phi_bind; [apply gphi_eval; assumption|]. phi_bind; [apply IH; assumption|]. phi_leaf.
Qed.

Lemma gphi_loop_func name args : Phi (loop_func name args).
Proof.
  unfold loop_func. destruct args as [|a r]; [phi_leaf|].
  destruct a; try phi_leaf.
  phi_bind; [phi_leaf|].
  destruct (fn_is name n_index); [phi_leaf|].
  destruct x; try phi_leaf.
  destruct (fn_is name n_isFirst); [phi_leaf|].
  phi_bind; [phi_leaf|]. destruct x; phi_leaf.
Qed.

Lemma gphi_call_func name args : forallb (deep g) args = true -> Phi (call_func w name args).
Proof.
  intros H. unfold call_func. destruct (func_arities name) as [ar|] eqn:Har; [|phi_leaf].
  destruct (negb _); [phi_leaf|].
  phi_bind; [apply gphi_eval_list; exact H|].
  phi_bind; [apply (wg_lift L); eapply (ps_func _ PS); exact Har|].
  destruct x0; phi_leaf.
Qed.

Lemma gphi_dataref_access acc : forallb (deep g) acc = true -> forall ref, Phi (dataref_access w acc ref).
Proof.
  induction acc as [|a rest IH]; intros H ref; cbn [dataref_access]; [phi_leaf|]. dsplit H.
  phi_bind.
  - destruct a; try phi_leaf.
    dsplit H0.
    phi_bind; [apply gphi_eval; assumption|].
    destruct x; try phi_leaf;
      (phi_bind; [apply (wg_lift L); apply (ps_string _ PS) | phi_leaf]).
  - destruct x as [oi k].
    destruct ref; try phi_leaf.
    + destruct (is_nullsafe a); phi_leaf.
    + destruct (is_nullsafe a); phi_leaf.
    + destruct oi as [i|]; [apply IH; assumption | phi_leaf].
    + destruct oi as [i|]; [phi_leaf | apply IH; assumption].
Qed.

Lemma gphi_print_dirs l : forallb (deep g) l = true -> forall v, Phi (print_dirs cf w l v).
Proof.
  induction l as [|d r IH]; cbn [print_dirs]; intros H v; [phi_leaf|]. dsplit H.
  destruct d; try phi_leaf. dsplit H0.
  destruct (lookup_directive name) as [[arglens ?]|]; [|phi_leaf].
  destruct (negb _); [phi_leaf|].
  phi_bind; [apply gphi_eval_list; assumption|].
  phi_bind; [apply (wg_lift L); apply (ps_string _ PS)|].
  phi_bind; [apply (wg_lift L); apply (ps_print _ PS)|].
  phi_bind; [apply IH; assumption|]. phi_leaf.
Qed.

Lemma gphi_if_conds cs : forallb (deep g) cs = true -> Phi (if_conds w cs).
Proof.
  induction cs as [|c0 r IH]; cbn [if_conds]; intros H; [phi_leaf|]. dsplit H.
  destruct c0; try phi_leaf. dsplit H0.
  destruct cond as [c|].
  - phi_bind; [apply gphi_eval; assumption|].
    destruct (truthy x); [|apply IH; assumption]. phi_bind; [apply Hw; assumption | phi_leaf].
  - phi_bind; [apply Hw; assumption | phi_leaf].
Qed.

Lemma gphi_for_items var body items : deep g body = true -> forall i, Phi (for_items w var body i items).
Proof.
  intros H. induction items as [|x r IH]; intros i; cbn [for_items]; [phi_leaf|].
  phi_bind; [phi_leaf|]. phi_bind; [phi_leaf|]. phi_bind; [apply Hw; exact H|]. apply IH.
Qed.

Lemma gphi_case_hit sv vs : forallb (deep g) vs = true -> Phi (case_hit w sv vs).
Proof.
  induction vs as [|x r IH]; cbn [case_hit]; intros H; [phi_leaf|]. dsplit H.
  phi_bind; [apply gphi_eval; assumption|]. destruct (equals sv x0); [phi_leaf | apply IH; assumption].
Qed.

Lemma gphi_switch_cases sv cs : forallb (deep g) cs = true -> Phi (switch_cases w sv cs).
Proof.
  induction cs as [|c r IH]; cbn [switch_cases]; intros H; [phi_leaf|]. dsplit H.
  destruct c; try phi_leaf. dsplit H0.
  phi_bind; [apply gphi_case_hit; assumption|].
  destruct (x || _); [|apply IH; assumption]. phi_bind; [apply Hw; assumption | phi_leaf].
Qed.

Lemma gphi_call_params ps : forallb (deep g) ps = true -> forall cd, Phi (call_params w ps cd).
Proof.
  induction ps as [|p r IH]; intros H cd; cbn [call_params]; [phi_leaf|]. dsplit H.
  destruct p; try phi_leaf; dsplit H0.
  - phi_bind; [apply gphi_eval; assumption | apply IH; assumption].
  - phi_bind; [apply gphi_render_block; assumption | apply IH; assumption].
Qed.

Lemma gphi_call_data alldata dat : deep_opt (deep g) dat = true -> Phi (call_data w alldata dat).
Proof.
  intros H. unfold call_data.
  apply (wg_read_ctx L _ (fun c =>
    if alldata then match sc_alldata c with Some s => ret (sc_push s) | None => fail e_impossible end
    else match dat with
         | Some e => dv <-- eval w e ;;; match dv with VMap id m => ret (sc_push (new_scope id m)) | _ => fail e_notmap end
         | None => ret [fresh_frame]
         end)).
  intros c. destruct alldata.
  - destruct (sc_alldata c); phi_leaf.
  - destruct dat as [e|]; [|phi_leaf].
    phi_bind; [apply gphi_eval; exact H|]. destruct x; phi_leaf.
Qed.

Lemma gphi_plural_pick mp i dflt cs :
  forallb (deep g) dflt = true -> forallb (deep g) cs = true -> Phi (plural_pick w mp i dflt cs).
Proof.
  intros Hd. induction cs as [|c r IH]; cbn [plural_pick]; intros H.
  - phi_bind; [|phi_leaf]. apply Hw. cbn [deep]. rewrite g_plural, Hd. reflexivity.
  - dsplit H. destruct c; try phi_leaf. dsplit H0.
    destruct (i =? v)%Z; [|apply IH; assumption]. phi_bind; [|phi_leaf].
    apply Hw. cbn [deep]. rewrite g_plural. cbn. assumption.
Qed.

Lemma gphi_msg_body mp ns : forallb (deep g) ns = true -> Phi (msg_body w mp ns).
Proof.
  induction ns as [|x r IH]; cbn [msg_body]; intros H; [phi_leaf|]. dsplit H.
  destruct x; try (apply IH; assumption).
  - phi_bind; [apply Hw; assumption | apply IH; assumption].
  - dsplit H0. phi_bind; [apply Hw; assumption | apply IH; assumption].
  - dsplit H0. phi_bind; [apply gphi_eval; assumption|]. destruct x0; try phi_leaf.
    phi_bind; [apply gphi_plural_pick; assumption | apply IH; assumption].
Qed.

Lemma gphi_walk_node n : deep g n = true -> Phi (walk_node cf w n).
Proof.
  intros H. pose proof (deep_g g n H) as Hg.
  destruct n; cbn [walk_node]; try phi_leaf; dsplit H.
  - (* NFunc *) destruct (_ || _); [apply gphi_loop_func | apply gphi_call_func; assumption].
  - (* NListLit *) phi_bind; [apply gphi_eval_list; assumption | phi_leaf].
  - (* NMapLit *) phi_bind; [apply gphi_maplit_items; assumption | phi_leaf].
  - (* NDataRef *)
    phi_bind; [|apply gphi_dataref_access; assumption].
    destruct (bstr_eqb key s_ij); [|phi_leaf]. destruct (c_ij cf); phi_leaf.
  - (* NNot *) phi_bind; [apply gphi_eval; assumption | phi_leaf].
  - (* NNeg *) phi_bind; [apply gphi_evaldef; assumption|]. destruct x; phi_leaf.
  - (* NBin *)
    destruct op.
    1-5: (phi_bind; [apply gphi_evaldef; assumption|]; phi_bind; [apply gphi_evaldef; assumption|]; apply (wg_lift L); apply (ps_arith _ PS)).
    1-2: (phi_bind; [apply gphi_eval; assumption|]; phi_bind; [apply gphi_eval; assumption|]; phi_leaf).
    1-4: (phi_bind; [apply gphi_evaldef; assumption|]; phi_bind; [apply gphi_evaldef; assumption|]; apply (wg_lift L); apply (ps_compare _ PS)).
    + phi_bind; [apply gphi_eval; assumption|]. destruct (truthy x); [phi_leaf|].
      phi_bind; [apply gphi_eval; assumption | phi_leaf].
    + phi_bind; [apply gphi_eval; assumption|]. destruct (truthy x); [|phi_leaf].
      phi_bind; [apply gphi_eval; assumption | phi_leaf].
    + phi_bind; [apply gphi_eval; assumption|]. destruct (is_nullish x); [apply gphi_eval; assumption | phi_leaf].
  - (* NTern *) phi_bind; [apply gphi_eval; assumption|]. destruct (truthy x); apply gphi_eval; assumption.
  - (* NList *) apply (wg_scoped L). apply gphi_walk_list. assumption.
  - (* NRawText *) phi_bind; phi_leaf.
  - (* NPrint *)
    phi_bind; [apply Hw; assumption|].
    assert (Hrest : Phi (ds <-- print_dirs cf w dirs x ;;;
                         s <-- lift (value_string x) ;;;
                         st <-- get ;;;
                         ws <-- lift (print_writes (mode st) ds s) ;;;
                         _ <-- write_all ws ;;; ret VUndef)).
    { phi_bind; [apply gphi_print_dirs; assumption|].
      phi_bind; [apply (wg_lift L); apply (ps_string _ PS)|].
      apply (wg_read_mode L _ (fun md => ws <-- lift (print_writes md x0 x1) ;;; _ <-- write_all ws ;;; ret VUndef)).
      intros md. phi_bind; [apply (wg_lift L); apply (ps_print _ PS)|].
      phi_bind; [apply gphi_write_all | phi_leaf]. }
    destruct x; try exact Hrest. phi_leaf.
  - (* NCss *)
    phi_bind; [|phi_bind; phi_leaf].
    destruct expr as [e|]; [|phi_leaf].
    phi_bind; [apply gphi_eval; assumption|]. phi_bind; [apply (wg_lift L); apply (ps_string _ PS) | phi_leaf].
  - (* NLog *) phi_bind; [apply gphi_render_block; assumption | phi_leaf].
  - (* NIf *) apply gphi_if_conds. assumption.
  - (* NFor *)
    phi_bind; [apply gphi_eval; assumption|].
    destruct x; try phi_leaf.
    destruct l as [|y l'].
    + destruct ifempty as [ie|]; [|phi_leaf]. phi_bind; [apply Hw; assumption | phi_leaf].
    + set (l := y :: l').
      apply (wg_ext L _ (_ <-- m_push ;;;
                         _ <-- (_ <-- m_set (var ++ s_lastindex) (VInt (Z.of_nat (length l) - 1)) ;;;
                                for_items w var n2 0%Z l) ;;;
                         _ <-- m_pop ;;; ret VUndef)).
      * intros st. apply mbind_ext. intros [] s. apply mbind_assoc.
      * apply (wg_scoped L). phi_bind; [phi_leaf | apply gphi_for_items; assumption].
  - (* NSwitch *) phi_bind; [apply gphi_eval; assumption | apply gphi_switch_cases; assumption].
  - (* NCall *)
    destruct (find_template _ name) as [callee|] eqn:Hf; [|phi_leaf].
    phi_bind; [apply gphi_call_data; assumption|]. phi_bind; [apply gphi_call_params; assumption |].
    phi_bind; [phi_leaf|]. apply (wg_enter L). apply HwT.
    clear - Hf. induction (r_templates (c_reg cf)) as [|t r IH]; cbn in Hf; [discriminate|].
    destruct (bstr_eqb (t_name t) name); [inversion Hf; left; reflexivity | right; apply IH; exact Hf].
  - (* NLetValue *) phi_bind; [apply gphi_eval; assumption|]. phi_bind; phi_leaf.
  - (* NLetContent *) phi_bind; [apply gphi_render_block; assumption|]. phi_bind; phi_leaf.
  - (* NMsg *) phi_bind; [apply gphi_msg_body; assumption | phi_leaf].
  - (* NMsgHtmlTag *) phi_bind; phi_leaf.
  - (* NTemplate *) phi_bind; [eapply (wg_template_mode L); exact Hg|]. phi_bind; [apply Hw; assumption | phi_leaf].
Qed.

Lemma gphi_walk_body n : deep g n = true -> Phi (walk_body cf w n).
Proof. intros H. unfold walk_body. phi_bind; [phi_leaf | apply gphi_walk_node; exact H]. Qed.
End Body.

(* closing the recursion: [PhiT] of the walks of the registry's template nodes is supplied separately *)
Theorem walk_logic_g :
  (forall fuel callee, In callee (r_templates (c_reg cf)) -> PhiT (walk cf fuel (t_node callee))) ->
  forall fuel n, deep g n = true -> Phi (walk cf fuel n).
Proof.
  intros HT. induction fuel as [|f IH]; intros n H.
  - rewrite walk_O. apply (wg_lift L). apply (ps_fuel _ PS).
  - rewrite walk_S. apply gphi_walk_body; [exact IH | apply HT | exact H].
Qed.
End Guarded.
