(* C17, print commands through the file entry point: parse.SoyFile on the string PrintNode.String() writes.
   The scanner half is Proofs/LexPrintCmd.v; the parser half is the dispatch itemList -> textOrTag -> beginTag
   (implicit print) -> parsePrint of Model/Parser.v, related here to the expression-level parsePrint model
   (Model/ExprParser.v parse_print) by a simulation on successful runs, and brought to the entry point's own
   budget by the monotonicity of the command-level model (Proofs/CmdParserFuel.v) and its totality
   (Proofs/ParserProofs.v). *)
From Soy Require Import Model.Bytes Model.Num Model.Values Model.Outcome Model.Ast Model.Token Model.RawText Model.ExprParser Model.Parser
  Model.AstPrint Model.Lexer Generated.Tables Spec.ExprSyntax
  Proofs.ParserMeasure Proofs.ExprTotal Proofs.ParserProofs Proofs.LexParseBridge Proofs.LexerProofs
  Proofs.ExprParserProofs Proofs.ExprParserStrip Proofs.ExprParserFuel Proofs.PlaceholderTextProofs
  Proofs.LexPrintMain Proofs.LexParseText Proofs.LexPrintCmd Proofs.PrintCmdText Proofs.CmdRoundtripBase Proofs.CmdRoundtripPrint
  Proofs.CmdParserFuel Proofs.ParseBodyText Proofs.ParseEndToEnd Proofs.ExprParserRules.
From Coq Require Import ZifyBool ZifyNat ZifyN Lia.
Open Scope N_scope.

(* a tree under SOME budget is the tree of parse.SoyFile's own budget *)
Lemma soy_file_of_big_fuel inlen lexq unq ts F n s : lexq_wf lexq -> items_wf inlen ts ->
  item_list inlen lexq unq parse_expr expr_fuel F u_eof (cst_init ts) = COk n s ->
  po_result (soy_file inlen lexq unq ts) = POk n (c_p s).
Proof.
  intros Hq Hw HF. pose proof (soy_file_total inlen lexq unq Hq ts Hw) as Ht.
  unfold soy_file, parse_file in *.
  assert (Hne : item_list inlen lexq unq parse_expr expr_fuel (file_fuel ts) u_eof (cst_init ts) <> CFuel).
  { intros E. rewrite E in Ht. cbn in Ht. exact Ht. }
  rewrite (item_list_agree inlen lexq unq expr_fuel (file_fuel ts) F u_eof (cst_init ts) Hne ltac:(rewrite HF; discriminate)), HF.
  reflexivity.
Qed.

(* ---- cmd_print / cmd_print_loop / directive_args (Model/Parser.v) follow parse_print / print_loop /
   directive_args_loop (Model/ExprParser.v) on every successful run ---- *)
Section Sim.
Variable inlen : N.
Notation PINV := (pinv inlen 0 false).
Variable s : cst.
Variable g : nat.
Notation PE := (lift_expr inlen parse_expr g).

Lemma sim_next p t p1 : PINV p -> p_next p = (t, p1) ->
  c_next (set_p s p) = COk t (set_p s p1) /\ PINV p1 /\ PINV (p_backup p1).
Proof.
  intros Hi E. pose proof (p_next_rel inlen 0 false p Hi) as R. rewrite E in R. cbn [fst snd] in R.
  split; [|split; [apply R|apply R]].
  unfold c_next. cbn [c_p set_p].
  assert (H : (3 <=? p_peek p)%nat = false) by (apply Nat.leb_gt; pose proof (pi_peek _ _ _ _ Hi); lia).
  rewrite H, E. reflexivity.
Qed.

Lemma sim_pe p e p' : PINV p -> parse_expr g 0 p = POk e p' -> PE 0 (set_p s p) = COk e (set_p s p') /\ PINV p'.
Proof.
  intros Hi E. split.
  - unfold lift_expr. cbn [c_p set_p]. rewrite E. reflexivity.
  - set (G := max g (S (mu p))).
    assert (EG : parse_expr G 0 p = POk e p').
    { destruct (parse_expr_le g G ltac:(lia) 0 p) as [H|H]; [rewrite E in H; discriminate|rewrite <- H; exact E]. }
    pose proof (parse_expr_ok inlen 0 false G 0 p (kap p) Hi eq_refl ltac:(lia)) as P. rewrite EG in P. apply P.
Qed.

Lemma sim_dargs : forall f f2, (f <= f2)%nat -> forall args p r p', PINV p ->
  directive_args_loop (parse_expr g) f args p = POk r p' ->
  directive_args PE f2 args (set_p s p) = COk r (set_p s p') /\ PINV p'.
Proof.
  induction f as [|f IH]; intros f2 Hle args p r p' Hi E; [discriminate|]. destruct f2 as [|f2]; [lia|].
  cbn [directive_args_loop] in E. cbn [directive_args]. destruct (p_next p) as [nx p1] eqn:En.
  destruct (sim_next p nx p1 Hi En) as (Hn & Hi1 & Hib). rewrite Hn. cbn [cbind].
  change (tis nx pit_Colon || tis nx pit_Comma) with ((t_typ nx =? pk_itemColon) || (t_typ nx =? pk_itemComma)).
  destruct ((t_typ nx =? pk_itemColon) || (t_typ nx =? pk_itemComma)).
  - destruct (parse_expr g 0 p1) as [e p2| | |] eqn:Ee; cbn [pbind] in E; try discriminate.
    destruct (sim_pe p1 e p2 Hi1 Ee) as (Hpe & Hi2). rewrite Hpe. cbn [cbind]. apply (IH f2 ltac:(lia)); assumption.
  - injection E as <- <-. split; [reflexivity|exact Hib].
Qed.

Lemma sim_ploop : forall f f2, (f <= f2)%nat -> (f <= g)%nat -> forall q e dirs p n p', PINV p ->
  print_loop (parse_expr g) f q e dirs p = POk n p' ->
  cmd_print_loop inlen PE g f2 q e dirs (set_p s p) = COk n (set_p s p') /\ PINV p'.
Proof.
  induction f as [|f IH]; intros f2 Hle Hg q e dirs p n p' Hi E; [discriminate|]. destruct f2 as [|f2]; [lia|].
  cbn [print_loop] in E. cbn [cmd_print_loop]. destruct (p_next p) as [t p1] eqn:En.
  destruct (sim_next p t p1 Hi En) as (Hn & Hi1 & Hib). rewrite Hn. cbn [cbind].
  change (tis t pit_RightDelim) with (t_typ t =? pk_itemRightDelim). destruct (t_typ t =? pk_itemRightDelim).
  { injection E as <- <-. split; [reflexivity|exact Hi1]. }
  change (tis t pit_Pipe) with (t_typ t =? pk_itemPipe). destruct (t_typ t =? pk_itemPipe).
  2:{ unfold p_unexpected in E. destruct (t_typ t =? pk_itemError); discriminate. }
  unfold p_expect in E. unfold c_expect. destruct (p_next p1) as [id p2] eqn:En2.
  destruct (sim_next p1 id p2 Hi1 En2) as (Hn2 & Hi2 & _). rewrite Hn2. cbn [cbind].
  change (tis id pit_Ident) with (t_typ id =? pk_itemIdent). destruct (t_typ id =? pk_itemIdent).
  2:{ unfold p_unexpected in E. destruct (t_typ id =? pk_itemError); discriminate. }
  cbn [pbind] in E.
  destruct (directive_args_loop (parse_expr g) (S f) [] p2) as [args p3| | |] eqn:Ed; cbn [pbind] in E; try discriminate.
  destruct (sim_dargs (S f) g Hg [] p2 args p3 Hi2 Ed) as (Hd & Hi3). cbn [cbind]. rewrite Hd. cbn [cbind].
  apply (IH f2 ltac:(lia) ltac:(lia)); assumption.
Qed.

Lemma sim_print token p n p' : PINV p -> parse_print g (t_pos token) p = POk n p' ->
  cmd_print inlen PE g token (set_p s p) = COk n (set_p s p') /\ PINV p'.
Proof.
  intros Hi E. unfold parse_print, parse_print_body in E. unfold cmd_print.
  destruct (parse_expr g 0 p) as [e p1| | |] eqn:Ee; cbn [pbind] in E; try discriminate.
  destruct (sim_pe p e p1 Hi Ee) as (Hpe & Hi1). rewrite Hpe. cbn [cbind].
  apply (sim_ploop g g (le_n _) (le_n _)); assumption.
Qed.
End Sim.

Lemma start_not_eof x : mem (t_typ x) expr_start_types = true -> one_of (t_typ x) u_eof = false.
Proof.
  intros H. unfold mem, expr_start_types in H. cbn [existsb] in H.
  repeat (apply Bool.orb_true_iff in H; destruct H as [H|H]); try discriminate H; apply N.eqb_eq in H; rewrite H; reflexivity.
Qed.

(* parse.SoyFile(String(n)) = a file whose one node is n, up to node positions *)
Theorem print_command_file_roundtrip lexq unq p arg dirs txt :
  lexq_wf lexq ->
  wf_print (NPrint p arg dirs) -> lex_ok_print (NPrint p arg dirs) -> print_node (NPrint p arg dirs) = Some txt ->
  exists items pos n' st,
    lex_items is_letter_tbl is_digit_tbl (lex_budget txt) false txt = Ok items /\
    po_result (soy_file (N.of_nat (length txt)) lexq unq items) = POk (NList pos [n']) st /\
    strip_pos n' = strip_pos (NPrint p arg dirs).
Proof.
  intros Hq Hwf Hlo Hp.
  destruct (lex_print_command_tbl _ txt Hwf Hlo Hp) as (ld & mid & e & Hlex & Hld & _ & Hm & He).
  destruct tables_eof as [El Ed].
  destruct (lex_items_total _ _ El Ed false txt) as (ts & Hl & Hsc). rewrite Hlex in Hl. injection Hl as <-.
  pose proof (scan_items_wf_all _ _ Hsc) as Hw. set (inlen := N.of_nat (length txt)) in *.
  (* the first item of the command starts an expression *)
  pose proof Hwf as [Hwa Hwd].
  destruct (show_starts_expression sty_min arg Hwa [0%nat] (sty_min [0%nat])) as (x & lx & Ex & Hx).
  assert (Hk : exists k mid', mid = k :: mid' /\ t_typ k = t_typ x).
  { unfold tokens_of_print in Hm. cbn [show_print] in Hm. rewrite Ex in Hm. cbn [app map] in Hm.
    destruct mid as [|k mid']; [discriminate Hm|]. exists k, mid'. split; [reflexivity|].
    exact (f_equal (fun l : list (N * bstr) => match l with a :: _ => fst a | [] => 0 end) Hm). }
  destruct Hk as (k & mid' & -> & Hkx). rewrite <- Hkx in Hx.
  set (l := mid' ++ [e]). set (items := ld :: (k :: mid') ++ [e]) in *.
  (* the state in which beginTag calls parsePrint: "{" and the first item read, the first item backed up *)
  set (pk := {| p_rest := l; p_tok0 := k; p_tok1 := zero_tok; p_peek := 1; p_recv := 2 |}).
  assert (Hwl : Forall (twf inlen) (k :: l) /\ twf inlen ld).
  { unfold items_wf, items in Hw. inversion Hw as [|? ? H1 H2]; subst. split; assumption. }
  destruct Hwl as [Hwkl Hwld]. inversion Hwkl as [|? ? Hwk Hwl]; subst.
  assert (Hpk : pinv inlen 0 false pk).
  { constructor; cbn [pk p_peek p_rest p_tok0 p_tok1 p_recv]; auto using twf_zero; try lia; try (intros E; discriminate E). }
  assert (Hspk : stream pk = (k :: mid') ++ [e] /\ inv pk) by (split; [reflexivity|unfold inv; cbn; lia]).
  destruct Hspk as [Hspk Hipk].
  (* the expression-level parsePrint on these items, at this state *)
  pose proof (wf_print_strip _ Hwf) as Hwf0. cbn [strip_pos] in Hwf0.
  assert (Hmid : map strip_tok (k :: mid') = tokens_of_print (NPrint 0 (strip_pos arg) (map strip_pos dirs))).
  { change (NPrint 0 (strip_pos arg) (map strip_pos dirs)) with (strip_pos (NPrint p arg dirs)).
    unfold tokens_of_print. rewrite show_print_strip. apply tv_strip. exact Hm. }
  assert (Hsz : stream (zs pk) = show_print sty_min [] (NPrint 0 (strip_pos arg) (map strip_pos dirs)) ++ [strip_tok e]).
  { rewrite stream_zs, Hspk, map_app, Hmid. reflexivity. }
  destruct (parse_show_print sty_min [] 0 _ _ [strip_tok e] Hwf0 (zs pk) Hsz ltac:(unfold inv, zs; cbn; lia))
    as (st0 & Hst0 & _ & f0 & HF).
  set (G1 := S (S (max f0 (length items)))). set (G := S G1).
  pose proof (parse_print_sim G (t_pos k) pk) as [Hsim _]. rewrite (HF G G ltac:(unfold G, G1; lia) ltac:(unfold G, G1; lia)) in Hsim.
  destruct (zr_ok_inv _ _ _ _ Hsim) as (n' & p' & Hrun & Hn' & Hzs).
  set (s0 := cst_init items).
  destruct (sim_print inlen s0 G k pk n' p' Hpk Hrun) as (Hcmd & Hp').
  (* what is left: one item of type EOF *)
  assert (Hrest : exists e', stream p' = [e'] /\ t_typ e' = pit_EOF).
  { pose proof (stream_zs p') as Hz. rewrite Hzs, Hst0 in Hz. destruct (stream p') as [|e' r]; [discriminate Hz|].
    destruct r; [|discriminate Hz]. exists e'. split; [reflexivity|]. cbn [map] in Hz. injection Hz as Hz.
    transitivity (t_typ e); [congruence|exact He]. }
  destruct Hrest as (e' & Hsp' & He').
  assert (Hip' : inv p') by (unfold inv; apply (pi_peek _ _ _ _ Hp')).
  (* the outer loop: "{" -> beginTag -> the implicit print; then EOF *)
  destruct (eof_iter inlen lexq unq parse_expr expr_fuel (lift_expr inlen parse_expr G) (item_list inlen lexq unq parse_expr expr_fuel G) G
              [] e' [] G1 (Some (t_pos ld)) [n'] (set_p s0 p') ltac:(constructor) He' Hsp' Hip' ltac:(unfold G, G1; cbn [length]; lia))
    as (pos1 & s' & Hend).
  exists items, pos1, n', (c_p s'). split; [exact Hlex|]. split; [|exact Hn'].
  apply (soy_file_of_big_fuel inlen lexq unq items (S G) (NList pos1 [n']) s' Hq Hw).
  rewrite <- Hend. rewrite item_list_S, item_list_loop_S. fold G. fold s0.
  (* first iteration, by computation on the initial state *)
  assert (Hn1 : c_next s0 = COk ld (set_p s0 {| p_rest := k :: l; p_tok0 := ld; p_tok1 := zero_tok; p_peek := 0; p_recv := 1 |})) by reflexivity.
  rewrite Hn1. cbn [cbind]. unfold text_or_tag.
  assert (Hsk : forall st, skip_comments G ld st = COk ld st).
  { intros st. unfold G. apply skip_non. rewrite Hld. discriminate. }
  cbv zeta.
  rewrite Hsk. cbn [cbind].
  assert (H1 : one_of (t_typ ld) u_eof = false) by (rewrite Hld; reflexivity). rewrite H1.
  assert (Hn2 : c_next (set_p s0 {| p_rest := k :: l; p_tok0 := ld; p_tok1 := zero_tok; p_peek := 0; p_recv := 1 |})
                = COk k (set_p s0 {| p_rest := l; p_tok0 := k; p_tok1 := zero_tok; p_peek := 0; p_recv := 2 |})) by reflexivity.
  rewrite Hn2. cbn [cbind]. rewrite (start_not_eof k Hx), Bool.andb_false_r. cbv zeta.
  assert (H2 : tis ld pit_Text = false) by (unfold tis; rewrite Hld; reflexivity).
  assert (H3 : tis ld pit_LeftDelim = true) by (unfold tis; rewrite Hld; reflexivity). rewrite H2, H3.
  change (c_backup (set_p s0 {| p_rest := l; p_tok0 := k; p_tok1 := zero_tok; p_peek := 0; p_recv := 2 |}))
    with (set_ps s0 pk []).
  rewrite (begin_tag_implicit inlen lexq unq expr_fuel G k s0 pk [] {| p_rest := l; p_tok0 := k; p_tok1 := zero_tok; p_peek := 0; p_recv := 2 |} Hx eq_refl).
  change (set_ps s0 (p_backup {| p_rest := l; p_tok0 := k; p_tok1 := zero_tok; p_peek := 0; p_recv := 2 |}) []) with (set_p s0 pk).
  rewrite Hcmd. cbn [cbind snd fst app]. reflexivity.
Qed.
