(* C14, token grammar: every command node of an accepted file is written as a
   sequence of statements of Spec/JsSyntax.v. *)
From Soy Require Import Model.Bytes Model.Num Model.Values Model.Outcome Model.Ast Model.JsGen Generated.Tables
  Spec.JsSyntax Spec.JsShape Proofs.JsWfSplitBase Proofs.JsWfSplitNum Proofs.JsWfSplit Proofs.JsWfTail Proofs.JsWfLeaf
  Proofs.JsWfBase Proofs.JsWfFrame Proofs.JsWfMonad Proofs.JsWfExpr.
From Coq Require Import ZifyBool ZifyNat ZifyN Lia.
Open Scope N_scope.
#[local] Arguments assoc_s {A} k l : simpl never.

(* ---- generated names ---- *)
Lemma digits_ident_part ds : forallb is_digit ds = true -> forallb is_ident_part ds = true.
Proof.
  induction ds as [|c ds IH]; cbn; [reflexivity|]. intro H. apply andb_prop in H. destruct H as [H1 H2].
  unfold is_ident_part. rewrite H1, orb_true_r. cbn. auto.
Qed.

Lemma gen_name_ok v mid n : ident_ok v = true -> forallb is_ident_part mid = true -> name_ok (v ++ mid ++ t_us ++ dec_of_N n).
Proof.
  intros Hv Hm. apply name_ok_intro.
  - apply ident_ok_app; [exact Hv|]. rewrite forallb_app, Hm. cbn. apply digits_ident_part. apply dec_digits_all.
  - apply existsb_app_r. apply existsb_app_r. reflexivity.
Qed.
Lemma gen_name_ok0 v n : ident_ok v = true -> name_ok (v ++ t_us ++ dec_of_N n).
Proof. intro Hv. exact (gen_name_ok v [] n Hv eq_refl). Qed.

(* the buffer variable: an identifier, not reserved *)
Definition buf_ok (bf : bstr) : Prop := ident_ok bf = true /\ name_ok bf.
Lemma gen_buf_ok v n : ident_ok v = true -> buf_ok (v ++ t_us ++ dec_of_N n).
Proof.
  intro Hv. split; [|apply gen_name_ok0; exact Hv].
  apply ident_ok_app; [exact Hv|]. cbn. apply digits_ident_part. apply dec_digits_all.
Qed.
Lemma log_buf_ok bf : buf_ok bf -> buf_ok (bf ++ t_us).
Proof.
  intros [Hi _]. assert (H2 : ident_ok (bf ++ t_us) = true) by (apply ident_ok_app; [exact Hi|reflexivity]).
  split; [exact H2|]. apply name_ok_intro; [exact H2|]. apply existsb_app_r. reflexivity.
Qed.

(* ---- association lists ---- *)
Lemma bstr_eqb_sym x y : bstr_eqb x y = bstr_eqb y x.
Proof.
  destruct (bstr_eqb x y) eqn:E.
  - apply bstr_eqb_true in E. subst. symmetry. apply bstr_eqb_refl.
  - destruct (bstr_eqb y x) eqn:E2; [|reflexivity]. apply bstr_eqb_true in E2. subst. rewrite bstr_eqb_refl in E. discriminate.
Qed.

Lemma assoc_s_aset {A} (l : list (bstr * A)) k v g :
  assoc_s k (aset l v g) = if bstr_eqb k v then Some g else assoc_s k l.
Proof.
  induction l as [|[k' v'] l IH]; cbn [aset].
  - unfold assoc_s. destruct (bstr_eqb k v); reflexivity.
  - destruct (bstr_eqb v k') eqn:E.
    + apply bstr_eqb_true in E. subst k'. unfold assoc_s; fold (@assoc_s A). destruct (bstr_eqb k v); reflexivity.
    + unfold assoc_s; fold (@assoc_s A). destruct (bstr_eqb k k') eqn:E2.
      * apply bstr_eqb_true in E2. subst k'. rewrite bstr_eqb_sym, E. reflexivity.
      * exact IH.
Qed.

Lemma ident_not_dot v k : ident_ok v = true -> (match k with 46 :: _ => True | _ => False end) -> bstr_eqb k v = false.
Proof.
  intros Hv Hk. destruct (bstr_eqb k v) eqn:E; [|reflexivity]. apply bstr_eqb_true in E. subst k.
  destruct v as [|c r]; [contradiction|]. destruct c as [|p]; [contradiction|].
  repeat (destruct p as [p|p|]; try contradiction). cbn in Hv. discriminate.
Qed.

Section Scope.
Variable fmt : jsfmt.

Lemma frame_ok_nil : frame_ok [].
Proof. split; intros; discriminate. Qed.

Lemma frame_ok_bind f v g : frame_ok f -> ident_ok v = true -> name_ok g -> frame_ok (aset f v g).
Proof.
  intros [F1 F2] Hv Hg. split.
  - intros k g' Hk. rewrite assoc_s_aset. destruct (bstr_eqb k v); [intros E _; inversion E; subst; exact Hg|apply F1; exact Hk].
  - intros ix. rewrite assoc_s_aset, (ident_not_dot v jk_index Hv I). intros E Hn. destruct (F2 ix E Hn) as (N1 & lim & El & Nl).
    split; [exact N1|]. exists lim. rewrite assoc_s_aset, (ident_not_dot v jk_limit Hv I). auto.
Qed.

Lemma frame_ok_loop v d : ident_ok v = true -> name_ok (v ++ d) -> name_ok (v ++ t_limit ++ d) -> name_ok (v ++ t_index ++ d) ->
  frame_ok (aset (aset (aset (aset [] v (v ++ d)) jk_var v) jk_limit (v ++ t_limit ++ d)) jk_index (v ++ t_index ++ d)).
Proof.
  intros Hv N1 N2 N3. split.
  - intros k g Hk. rewrite !assoc_s_aset.
    rewrite (bstr_eqb_sym k jk_index), (ident_not_dot k jk_index Hk I).
    rewrite (bstr_eqb_sym k jk_limit), (ident_not_dot k jk_limit Hk I).
    rewrite (bstr_eqb_sym k jk_var), (ident_not_dot k jk_var Hk I).
    destruct (bstr_eqb k v); [intros E _; inversion E; subst; exact N1|discriminate].
  - intros ix. rewrite !assoc_s_aset. rewrite bstr_eqb_refl. intros E _. inversion E; subst. split; [exact N3|].
    exists (v ++ t_limit ++ d). split; [|exact N2]. rewrite ?assoc_s_aset. reflexivity.
Qed.
End Scope.

(* one chunk, also the indentation; chains with sub-runs taken from the context *)
Ltac units := repeat match goal with u : unit |- _ => destruct u end.
Ltac norm_app2 := repeat (progress (rewrite <- ?app_assoc; cbn [app])).
Ltac ssingle := first [ apply emits_indent | esingle ].
Ltac schain :=
  lazymatch goal with
  | |- emits _ [] _ _ _ _ _ => apply emits_nil
  | |- emits _ (_ :: _) _ _ _ _ _ => eapply emits_cons0; [ ssingle | schain ]
  | |- emits _ (_ ++ _) _ _ _ _ _ => eapply emits_app0; [ first [ eassumption | ssub ] | schain ]
  | |- _ => first [ eassumption | ssub ]
  end
with ssub :=
  match goal with
  | H : exprC _ ?cs _ |- emits _ ?cs _ _ _ _ _ => apply H
  | H : forall cl s, emits _ ?cs (MWant cl) s _ _ _ |- emits _ ?cs _ _ _ _ _ => apply H
  end.

Section Stmt.
Variable o : jopts.
Notation fmt := (o_fmt o).
Notation md := (is_module (o_fmt o)).
Variable w : node -> J unit.
Variable fk : nat.
Hypothesis IHe : forall n i, expr_chk fmt fk n = Some i -> expr_post0 o (w n) i.

Definition stmt_post0 (m : J unit) : Prop :=
  forall st st', scope_ok (j_scope st) -> called_ok fmt st -> buf_ok (j_buf st) -> m st = Ok (tt, st') ->
    exists cs, ext st st' cs /\ stmtC fmt cs /\ scope_ok (j_scope st') /\ j_buf st' = j_buf st /\ called_ok fmt st'.
Hypothesis IHs : forall n, stmt_chk fmt fk n = true -> stmt_post0 (w n).

Definition oke (n : node) : bool := expr_okb fmt fk n.
Lemma oke_some n : oke n = true -> exists i, expr_chk fmt fk n = Some i.
Proof. unfold oke, expr_okb. destruct (expr_chk fmt fk n); [eauto|discriminate]. Qed.

(* the last three conjuncts of a statement's postcondition, when only the output changed *)
Ltac keep := proj; first [ assumption | congruence | (unfold called_ok in *; proj; first [assumption | congruence]) ].
Ltac sfin3 := split; [keep|split; [keep|keep]].

Lemma post_raw t : stmt_post0 (write_raw_text t).
Proof.
  intros st st' Hs Hk [Hi Hb] H. unfold write_raw_text in H. jinv H. proj.
  eexists. split; [ext_build|]. split; [|sfin3].
  intros e s. exists false. norm_app. schain.
Qed.

Lemma post_debugger : stmt_post0 (jsln [CText t_debugger]).
Proof.
  intros st st' Hs Hk [Hi Hb] H. jinv H. eexists. split; [ext_build|]. split; [|sfin3].
  intros e s. exists false. norm_app. schain.
Qed.

(* use the expression hypothesis on a sub-run *)
Ltac ihe Hc Hw :=
  let cs := fresh "cs" in let E := fresh "E" in let C := fresh "C" in let S := fresh "S" in let B := fresh "B" in let K := fresh "K" in
  lazymatch type of Hw with
  | _ ?sa = Ok (tt, ?sb) =>
      destruct (IHe _ _ Hc sa sb ltac:(proj; congruence) ltac:(unfold called_ok in *; proj; first [assumption|congruence]) Hw) as (cs & E & C & S & B & K); proj
  end.

Lemma post_css e sfx : match e with Some x => oke x | None => true end = true ->
  stmt_post0 ((match e with
               | Some x => jindent ;;; bn <~ bufname ;; jemit (bn ++ [CText t_pluseq]) ;;; w x ;;; jemit [CText t_css_tail; CText t_nl]
               | None => jret tt
               end) ;;; write_raw_text sfx).
Proof.
  intros He st st' Hs Hk [Hi Hb] H. apply bind_inv in H. destruct H as (u & st1 & H1 & H2). units. unfold write_raw_text in H2.
  destruct e as [x|].
  - destruct (oke_some _ He) as (i & Hc). jinv H1. units. jinv H2. proj.
    match goal with Hw : w x _ = Ok _ |- _ => ihe Hc Hw end.
    eexists. split; [ext_build|]. split; [|split; [keep|split; [keep|keep]]].
    intros e s. exists false. norm_app. rewrite B. schain.
  - jinv H1. jinv H2. proj. eexists. split; [ext_build|]. split; [|sfin3]. intros e s. exists false. norm_app. schain.
Qed.

(* ---- print ---- *)
Definition kept_ok (d : bstr * list node) : Prop := operand_text fmt (directive_js (fst d)) = true /\ forallb oke (snd d) = true.

Lemma dir_text name jn c : assoc_s name js_directives = Some (jn, c) -> directive_js name = jn.
Proof. unfold directive_js. intros ->. reflexivity. Qed.

Lemma scan_post dirs : forall escape kept st res st', forallb (dir_chk fmt fk) dirs = true -> Forall kept_ok kept ->
  operand_text fmt (directive_js n_escapeHtml) = true -> called_ok fmt st ->
  print_scan o dirs escape kept st = Ok (res, st') ->
  j_out st' = j_out st /\ j_scope st' = j_scope st /\ j_buf st' = j_buf st /\ j_indent st' = j_indent st /\ called_ok fmt st' /\ Forall kept_ok (snd res).
Proof.
  induction dirs as [|d dirs IH]; intros escape kept st res st' Hall Hkept Hesc Hk H; cbn [print_scan] in H.
  - jinv H. cbn [snd]. auto 8.
  - cbn [forallb] in Hall. apply andb_prop in Hall. destruct Hall as [Hd Hl]. destruct d; try discriminate Hd. cbn [dir_chk] in Hd.
    destruct (assoc_s name js_directives) as [[jn cancel]|] eqn:Ea; [|discriminate]. apply andb_prop in Hd. destruct Hd as [Hargs Hd].
    destruct (bstr_eqb name n_id || bstr_eqb name n_noAutoescape) eqn:Eid.
    + eapply IH; eauto.
    + cbn [orb] in Hd. apply andb_prop in Hd. destruct Hd as [Hop Himp].
      apply bind_inv in H. destruct H as (u & st1 & H1 & H2).
      destruct (note_called_inv o _ _ _ _ _ H1 Himp Hk) as (O1 & S1 & B1 & K1).
      assert (I1 : j_indent st1 = j_indent st). { unfold note_called in H1. destruct (fmt_chunks (fmt_directive fmt) jn); jinv H1; reflexivity. }
      assert (Hnew : kept_ok (name, args)). { split; cbn [fst snd]; [rewrite (dir_text _ _ _ Ea); exact Hop|exact Hargs]. }
      match type of H2 with print_scan _ _ _ ?k _ = _ =>
        destruct (IH _ k st1 res st' Hl ltac:(destruct (bstr_eqb name n_changeNewlineToBr || bstr_eqb name n_insertWordBreaks); repeat (apply Forall_app; split); auto; repeat constructor; auto; split; auto) Hesc K1 H2)
          as (O2 & S2 & B2 & I2 & K2 & F2) end.
      repeat split; try congruence; auto.
Qed.

Lemma operand_run t cl s : operand_text fmt t = true -> emits md [CText t] (MWant cl) s (MHave false) s [].
Proof.
  unfold operand_text. intro H. destruct (text_toks t) as [ts|] eqn:Et; [|discriminate].
  destruct (js_run md ts (MWant false) []) as [[[m1 s1] d1]|] eqn:Er; [|discriminate].
  destruct m1; try discriminate. destruct isint; try discriminate. destruct s1; try discriminate. destruct d1; try discriminate.
  eapply emits_toks1; [|apply expr_toks_run; exact Er|apply text_okb_tail; exact H]. cbn [lex_chunk]. unfold text_toks in Et.
  destruct (lex_text 0 LNormal t) as [[ts' m']|]; [|discriminate]. destruct m'; try discriminate. inversion Et; subst. reflexivity.
Qed.

Lemma opens_post l : forall st st', Forall kept_ok l -> print_opens l st = Ok (tt, st') ->
  exists cs, ext st st' cs /\ j_scope st' = j_scope st /\ j_buf st' = j_buf st /\ j_called st' = j_called st /\
    forall cl s, exists cl', emits md cs (MWant cl) s (MWant cl') (repeat KCall (List.length l) ++ s) [].
Proof.
  induction l as [|[name args] l IH]; intros st st' Hl H; cbn [print_opens] in H.
  - jinv H. exists []. split; [apply ext_refl; reflexivity|]. repeat split; auto. intros cl s. exists cl. apply emits_nil.
  - inversion Hl as [|? ? [Hop _] Hl']; subst. apply bind_inv in H. destruct H as (u & st1 & H1 & H2). jinv H1. units.
    destruct (IH _ st' Hl' H2) as (c2 & E2 & S2 & B2 & K2 & R2). proj.
    eexists. split; [ext_build|]. repeat (split; [assumption|]).
    intros cl s. destruct (R2 true (KCall :: s)) as (cl' & R). exists cl'. norm_app. cbn [List.length]. rewrite <- repeat_snoc. cbn [fst] in Hop.
    eapply emits_cons0; [apply operand_run; exact Hop|]. eapply emits_cons0; [esingle|]. exact R.
Qed.

Lemma args_post args : forall st st', forallb oke args = true -> scope_ok (j_scope st) -> called_ok fmt st -> print_args w args st = Ok (tt, st') ->
  exists cs, ext st st' cs /\ j_scope st' = j_scope st /\ j_buf st' = j_buf st /\ called_ok fmt st' /\
    forall i s, exists i', emits md cs (MHave i) (KCall :: s) (MHave i') (KCall :: s) [].
Proof.
  induction args as [|a args IH]; intros st st' Hall Hs Hk H; cbn [print_args] in H.
  - jinv H. exists []. split; [apply ext_refl; reflexivity|]. repeat split; auto. intros i s. exists i. apply emits_nil.
  - cbn [forallb] in Hall. apply andb_prop in Hall. destruct Hall as [Ha Hl]. destruct (oke_some _ Ha) as (ia & Hc).
    apply bind_inv in H. destruct H as (u & st1 & H1 & H). apply bind_inv in H. destruct H as (u2 & st2 & H2 & H3). jinv H1. units.
    ihe Hc H2. destruct (IH st2 st' Hl ltac:(congruence) K H3) as (c3 & E3 & S3 & B3 & K3 & R3).
    eexists. split; [ext_build|]. split; [congruence|]. split; [congruence|]. split; [exact K3|].
    intros i s. destruct (R3 ia s) as (i' & R). exists i'. norm_app. eapply emits_cons0; [esingle|]. eapply emits_app0; [apply C|exact R].
Qed.

Lemma closes_post l : forall st st', Forall kept_ok l -> scope_ok (j_scope st) -> called_ok fmt st -> print_closes w l st = Ok (tt, st') ->
  exists cs, ext st st' cs /\ j_scope st' = j_scope st /\ j_buf st' = j_buf st /\ called_ok fmt st' /\
    forall i s, exists i', emits md cs (MHave i) (repeat KCall (List.length l) ++ s) (MHave i') s [].
Proof.
  induction l as [|[name args] l IH]; intros st st' Hl Hs Hk H; cbn [print_closes] in H.
  - jinv H. exists []. split; [apply ext_refl; reflexivity|]. repeat split; auto. intros i s. exists i. apply emits_nil.
  - inversion Hl as [|? ? [_ Hargs] Hl']; subst. cbn [snd] in Hargs.
    apply bind_inv in H. destruct H as (u & st1 & H1 & H). apply bind_inv in H. destruct H as (u2 & st2 & H2 & H).
    apply bind_inv in H. destruct H as (u3 & st3 & H3 & H4). units. jinv H3.
    destruct (args_post args st st1 Hargs Hs Hk H1) as (c1 & E1 & S1 & B1 & K1 & R1).
    assert (P2 : exists c2, ext st1 st2 c2 /\ j_scope st2 = j_scope st1 /\ j_buf st2 = j_buf st1 /\ j_called st2 = j_called st1 /\
                 forall i s, exists i', emits md c2 (MHave i) (KCall :: s) (MHave i') (KCall :: s) []).
    { destruct (bstr_eqb name n_truncate && Nat.eqb (List.length args) 1); jinv H2.
      - eexists. split; [ext_build|]. proj. repeat (split; [reflexivity|]). intros i s. exists false. norm_app. eapply emits_toks1; [vm_compute; reflexivity|reflexivity|tail_solve].
      - exists []. split; [apply ext_refl; reflexivity|]. repeat (split; [reflexivity|]). intros i s. exists i. apply emits_nil. }
    destruct P2 as (c2 & E2 & S2 & B2 & K2 & R2).
    match type of H4 with _ _ _ ?sa = _ =>
      destruct (IH sa st' Hl' ltac:(proj; congruence) ltac:(unfold called_ok in *; proj; congruence) H4) as (c4 & E4 & S4 & B4 & K4 & R4) end. proj.
    exists (c1 ++ c2 ++ [CText t_rpar] ++ c4). split.
    { eapply ext_trans; [exact E1|]. eapply ext_trans; [exact E2|]. eapply ext_trans; [|exact E4]. eapply (ext_step st2 st2 _ []); [apply ext_refl; reflexivity|reflexivity]. }
    split; [congruence|]. split; [congruence|]. split; [exact K4|].
    intros i s. cbn [List.length repeat app].
    destruct (R1 i (repeat KCall (List.length l) ++ s)) as (i1 & Q1). destruct (R2 i1 (repeat KCall (List.length l) ++ s)) as (i2 & Q2).
    destruct (R4 false s) as (i4 & Q4). exists i4.
    eapply emits_app0; [exact Q1|]. eapply emits_app0; [exact Q2|]. eapply emits_cons0; [esingle|exact Q4].
Qed.

Lemma post_print arg dirs : oke arg = true -> forallb (dir_chk fmt fk) dirs = true -> operand_text fmt (directive_js n_escapeHtml) = true ->
  stmt_post0 (visit_print o w arg dirs).
Proof.
  intros Harg Hdirs Hesc st st' Hs Hk [Hi Hb] H. unfold visit_print in H. destruct (oke_some _ Harg) as (ia & Hc).
  apply bind_inv in H. destruct H as (st0 & st1 & H0 & H). apply get_inv in H0. destruct H0; subst.
  apply bind_inv in H. destruct H as ([escape kept] & st1 & Hscan & H).
  destruct (scan_post dirs _ _ _ _ _ Hdirs ltac:(constructor) Hesc Hk Hscan) as (O1 & S1 & B1 & I1 & K1 & F1). cbn [snd] in F1.
  set (kept' := if escape =? 2 then kept else kept ++ [(n_escapeHtml, [])]) in *.
  assert (Fk : Forall kept_ok kept'). { subst kept'. destruct (escape =? 2); [exact F1|]. apply Forall_app. split; [exact F1|]. repeat constructor; auto. }
  apply bind_inv in H. destruct H as (u1 & st2 & H1 & H). apply bind_inv in H. destruct H as (bn & st3 & H2 & H).
  apply bind_inv in H. destruct H as (u3 & st4 & H3 & H). apply bind_inv in H. destruct H as (u4 & st5 & H4 & H).
  apply bind_inv in H. destruct H as (u5 & st6 & H5 & H). apply bind_inv in H. destruct H as (u6 & st7 & H6 & H7).
  jinv H1. jinv H2. jinv H3. jinv H7. units.
  destruct (opens_post (rev kept') _ st5 ltac:(apply Forall_rev; exact Fk) H4) as (c4 & E4 & S4 & B4 & K4 & R4). proj.
  destruct (IHe _ _ Hc st5 st6 ltac:(congruence) ltac:(unfold called_ok in *; congruence) H5) as (c5 & E5 & C5 & S5 & B5 & K5).
  destruct (closes_post kept' st6 st7 Fk ltac:(congruence) K5 H6) as (c6 & E6 & S6 & B6 & K6 & R6).
  eexists. split.
  { eapply ext_upd. eapply ext_trans; [|exact E6]. eapply ext_trans; [|exact E5]. eapply ext_trans; [|exact E4].
    eapply ext_upd. eapply ext_upd. apply ext_refl. exact O1. }
  split; [|split; [keep|split; [keep|keep]]].
  intros e s. exists false. norm_app. rewrite I1, B1.
  destruct (R4 false (KStmtE :: s)) as (cl' & Q4). destruct (R6 ia (KStmtE :: s)) as (i6 & Q6). rewrite rev_length in Q4.
  eapply emits_cons0; [ssingle|]. eapply emits_cons0; [ssingle|]. eapply emits_cons0; [ssingle|].
  eapply emits_app0; [exact Q4|]. eapply emits_app0; [apply C5|]. eapply emits_app0; [exact Q6|]. esingle.
Qed.

(* use the statement hypothesis on a sub-run *)
Ltac ihs Hc Hw :=
  let cs := fresh "cs" in let E := fresh "E" in let C := fresh "C" in let S := fresh "S" in let B := fresh "B" in let K := fresh "K" in
  lazymatch type of Hw with
  | _ ?sa = Ok (tt, ?sb) =>
      destruct (IHs _ Hc sa sb ltac:(proj; first [assumption|congruence]) ltac:(unfold called_ok in *; proj; first [assumption|congruence]) ltac:(proj; first [assumption|congruence]) Hw) as (cs & E & C & S & B & K); proj
  end.

Lemma list_post ns : forallb (stmt_chk fmt fk) ns = true -> stmt_post0 (jwalk_list w ns).
Proof.
  induction ns as [|x ns IH]; intros Hall st st' Hs Hk Hb H; cbn [jwalk_list] in H.
  - jinv H. exists []. split; [apply ext_refl; reflexivity|]. split; [apply stmtC_nil|auto].
  - cbn [forallb] in Hall. apply andb_prop in Hall. destruct Hall as [Hx Hl].
    apply bind_inv in H. destruct H as (u & st1 & H1 & H2). units.
    destruct (IHs _ Hx st st1 Hs Hk Hb H1) as (c1 & E1 & C1 & S1 & B1 & K1).
    destruct (IH Hl st1 st' S1 K1 ltac:(congruence) H2) as (c2 & E2 & C2 & S2 & B2 & K2).
    exists (c1 ++ c2). split; [eapply ext_trans; eauto|]. split; [apply stmtC_app; assumption|]. split; [exact S2|]. split; [congruence|exact K2].
Qed.

Lemma scope_ok_tl s : scope_ok s -> scope_ok (tl s).
Proof. destruct 1; [constructor|assumption]. Qed.

Lemma post_nlist ns : forallb (stmt_chk fmt fk) ns = true -> stmt_post0 (jsc_push ;;; jwalk_list w ns ;;; jsc_pop).
Proof.
  intros Hall st st' Hs Hk Hb H. unfold jsc_push, jsc_pop in H. jinv H. units.
  match goal with Hw : jwalk_list _ _ ?sa = Ok (tt, ?sb) |- _ =>
    destruct (list_post ns Hall sa sb ltac:(proj; constructor; [apply frame_ok_nil|assumption]) ltac:(unfold called_ok in *; proj; assumption) ltac:(proj; assumption) Hw) as (c & E & C & S & B & K) end. proj.
  eexists. split; [ext_build|]. split; [cbn [app]; exact C|]. split; [apply scope_ok_tl; exact S|]. split; [exact B|]. unfold called_ok in *. proj. exact K.
Qed.

Lemma post_log bd : stmt_chk fmt fk bd = true ->
  stmt_post0 (st <~ jget ;;
      let nb := j_buf st ++ t_us in
      jmod (set_buf nb) ;;;
      jsln [CText t_var; CName nb; CText t_eq_empty] ;;;
      w bd ;;;
      st' <~ jget ;;
      jsln [CText t_console_log; CName (j_buf st'); CText t_close_semi] ;;;
      jmod (fun s => set_buf (removelast (j_buf s)) s)).
Proof.
  intros Hc st st' Hs Hk Hb H. jinv H. units. proj.
  pose proof (log_buf_ok _ Hb) as Hnb.
  match goal with Hw : w bd _ = Ok _ |- _ => ihs Hc Hw end. destruct Hnb as [Hnb1 Hnb2].
  eexists. split; [ext_build|]. split; [|split; [exact S|split; [rewrite B; unfold t_us; apply removelast_last|keep]]].
  intros e s. destruct (C false s) as (e1 & R1). exists false. norm_app. rewrite B.
  eapply emits_cons0; [ssingle|]. eapply emits_cons0; [ssingle|]. eapply emits_cons0; [ssingle|]. eapply emits_cons0; [ssingle|]. eapply emits_cons0; [ssingle|].
  eapply emits_app0; [exact R1|]. schain.
Qed.

(* ---- binders ---- *)
Lemma genname_inv v st g st' : jsc_genname v st = Ok (g, st') ->
  g = v ++ t_us ++ dec_of_N (j_n st + 1) /\ st' = set_scope (j_scope st) (j_n st + 1) st.
Proof. unfold jsc_genname. intro H. jinv H. auto. Qed.

Lemma bind_var_inv v g st x st' : jsc_bind v g st = Ok (x, st') -> ident_ok v = true -> name_ok g -> scope_ok (j_scope st) ->
  scope_ok (j_scope st') /\ j_out st' = j_out st /\ j_buf st' = j_buf st /\ j_called st' = j_called st /\ j_indent st' = j_indent st.
Proof.
  unfold jsc_bind. intros H Hv Hg Hs. apply bind_inv in H. destruct H as (st0 & st1 & H0 & H). apply get_inv in H0. destruct H0; subst.
  destruct (j_scope st) as [|f r] eqn:Es; [discriminate H|]. jinv H. proj. repeat split; auto.
  inversion Hs; subst. constructor; [apply frame_ok_bind; assumption|assumption].
Qed.

Lemma makevar_inv v st g st' : jsc_makevar v st = Ok (g, st') -> ident_ok v = true -> scope_ok (j_scope st) ->
  buf_ok g /\ scope_ok (j_scope st') /\ j_out st' = j_out st /\ j_buf st' = j_buf st /\ j_called st' = j_called st /\ j_indent st' = j_indent st.
Proof.
  unfold jsc_makevar. intros H Hv Hs. apply bind_inv in H. destruct H as (g0 & st1 & H1 & H). apply genname_inv in H1. destruct H1 as [-> ->].
  apply bind_inv in H. destruct H as (u & st2 & H2 & H3). jinv H3.
  pose proof (gen_buf_ok v (j_n st + 1) Hv) as Hg.
  destruct (bind_var_inv _ _ _ _ _ H2 Hv (proj2 Hg) ltac:(proj; exact Hs)) as (S2 & O2 & B2 & K2 & I2). proj. auto 8.
Qed.


(* the buffer of a content parameter is a generated name that is not bound (/repo 516f5ee) *)
Lemma genname_post v st g st' : jsc_genname v st = Ok (g, st') -> ident_ok v = true -> scope_ok (j_scope st) ->
  buf_ok g /\ scope_ok (j_scope st') /\ j_out st' = j_out st /\ j_buf st' = j_buf st /\ j_called st' = j_called st /\ j_indent st' = j_indent st.
Proof.
  intros H Hv Hs. apply genname_inv in H. destruct H as [-> ->].
  pose proof (gen_buf_ok v (j_n st + 1) Hv) as Hg. proj. split; [exact Hg|]. split; [exact Hs|]. repeat split; reflexivity.
Qed.

Lemma post_letvalue name e : ident_ok name = true -> oke e = true ->
  stmt_post0 (v <~ jblock w e ;; g <~ jsc_makevar name ;; jsln ([CText t_var; CName g; CText t_eq] ++ v ++ [CText t_semi])).
Proof.
  intros Hn He st st' Hs Hk Hb H. destruct (oke_some _ He) as (i & Hc).
  apply bind_inv in H. destruct H as (v & st1 & H1 & H). apply bind_inv in H. destruct H as (g & st2 & H2 & H3). jinv H3.
  destruct (jblock_post o w fk IHe e i st v st1 Hc Hs Hk H1) as (Cv & O1 & S1 & B1 & K1).
  destruct (makevar_inv _ _ _ _ H2 Hn ltac:(congruence)) as ([Hg1 Hg2] & S2 & O2 & B2 & K2 & I2).
  eexists. split; [eapply ext_upd; apply ext_refl; congruence|]. split; [|split; [keep|split; [keep|unfold called_ok in *; proj; congruence]]].
  intros e0 s. exists false. norm_app. schain.
Qed.

Lemma post_letcontent name bd : ident_ok name = true -> stmt_chk fmt fk bd = true ->
  stmt_post0 (st <~ jget ;;
      let old := j_buf st in
      g <~ jsc_genname name ;;
      jmod (set_buf g) ;;;
      jsln [CText t_var; CName g; CText t_eq_empty] ;;;
      w bd ;;;
      jsc_bind name g ;;;
      jmod (set_buf old)).
Proof.
  intros Hn Hc st st' Hs Hk Hb H.
  apply bind_inv in H. destruct H as (st0 & st1 & H0 & H). apply get_inv in H0. destruct H0; subst. cbv beta zeta in H.
  apply bind_inv in H. destruct H as (g & st1 & H1 & H). apply genname_inv in H1. destruct H1 as [-> ->].
  apply bind_inv in H. destruct H as (u1 & st2 & H2 & H). jinv H2.
  apply bind_inv in H. destruct H as (u2 & st3 & H3 & H). jinv H3.
  apply bind_inv in H. destruct H as (u3 & st4 & H4 & H). apply bind_inv in H. destruct H as (u5 & st5 & H5 & H6). jinv H6. units.
  pose proof (gen_buf_ok name (j_n st + 1) Hn) as Hg.
  ihs Hc H4. destruct Hg as [Hg1 Hg2].
  destruct (bind_var_inv _ _ _ _ _ H5 Hn Hg2 S) as (S5 & O5 & B5 & K5 & I5).
  eexists. split; [eapply ext_w1; [reflexivity|]; eapply ext_same; [|exact O5]; ext_build|].
  split; [|split; [keep|split; [keep|unfold called_ok in *; proj; congruence]]].
  intros e0 s. destruct (C false s) as (e1 & R1). exists e1. norm_app.
  eapply emits_cons0; [ssingle|]. eapply emits_cons0; [ssingle|]. eapply emits_cons0; [ssingle|]. eapply emits_cons0; [ssingle|]. eapply emits_cons0; [ssingle|].
  first [exact R1 | rewrite app_nil_r; exact R1].
Qed.

(* ---- if ---- *)
Lemma if_post cs : forall first st st', if_shape oke (stmt_chk fmt fk) cs = true -> (first = true -> if_head cs = true \/ cs = []) ->
  scope_ok (j_scope st) -> called_ok fmt st -> buf_ok (j_buf st) -> jif_conds w first cs st = Ok (tt, st') ->
  exists c, ext st st' c /\ scope_ok (j_scope st') /\ j_buf st' = j_buf st /\ called_ok fmt st' /\
    forall e s, exists e', emits md c (MStmt (if first then e else true)) s (MStmt e') s [].
Proof.
  induction cs as [|x cs IH]; intros first st st' Hsh Hhd Hs Hk Hb H; cbn [jif_conds] in H.
  - jinv H. exists []. split; [apply ext_refl; reflexivity|]. repeat (split; [assumption || reflexivity|]). intros e s. eexists. apply emits_nil.
  - destruct x; try discriminate Hsh. cbn [if_shape] in Hsh. apply andb_prop in Hsh. destruct Hsh as [Hsh Hrest]. apply andb_prop in Hsh. destruct Hsh as [Hcond Hbody].
    apply bind_inv in H. destruct H as (u1 & st1 & H1 & H). apply bind_inv in H. destruct H as (u2 & st2 & H2 & H).
    apply bind_inv in H. destruct H as (u3 & st3 & H3 & H). apply bind_inv in H. destruct H as (u4 & st4 & H4 & H).
    apply bind_inv in H. destruct H as (u5 & st5 & H5 & H). apply bind_inv in H. destruct H as (u6 & st6 & H6 & H).
    apply bind_inv in H. destruct H as (u7 & st7 & H7 & H). apply bind_inv in H. destruct H as (u8 & st8 & H8 & H9).
    units. jinv H3. unfold indent_inc in H4. jinv H4. unfold indent_dec in H6. jinv H6. jinv H7. jinv H8.
    (* the optional " else " *)
    assert (P1 : exists c1, ext st st1 c1 /\ j_scope st1 = j_scope st /\ j_buf st1 = j_buf st /\ j_called st1 = j_called st /\
                 forall e s, emits md c1 (MStmt (if first then e else true)) s (if first then MStmt e else MElse) s []).
    { destruct first; jinv H1.
      - exists []. split; [apply ext_refl; reflexivity|]. repeat (split; [reflexivity|]). intros e s. apply emits_nil.
      - eexists. split; [ext_build|]. proj. repeat (split; [reflexivity|]). intros e s. norm_app. esingle. }
    destruct P1 as (c1 & E1 & S1 & B1 & K1 & R1).
    (* the optional condition, and the opening brace *)
    set (blk := match cond with Some _ => BIf | None => if first then BIf else BElse end).
    assert (P2 : exists c2, ext st1 st2 c2 /\ j_scope st2 = j_scope st1 /\ j_buf st2 = j_buf st1 /\ called_ok fmt st2 /\
                 forall e s, emits md (c2 ++ [CText t_brace_nl]) (if first then MStmt e else MElse) s (MStmt false) (KBlock blk :: s) []).
    { subst blk. destruct cond as [cnd|].
      - destruct (oke_some _ Hcond) as (i & Hc). jinv H2. units.
        match goal with Hw : w cnd _ = Ok _ |- _ => ihe Hc Hw end.
        eexists. split; [ext_build|]. split; [congruence|]. split; [congruence|]. split; [keep|].
        intros e s. norm_app. destruct first; schain.
      - jinv H2. exists []. split; [apply ext_refl; reflexivity|]. repeat (split; [reflexivity || (unfold called_ok in *; congruence)|]).
        intros e s. cbn [app]. destruct first.
        + exfalso. destruct (Hhd eq_refl) as [Hh|Hh]; discriminate Hh.
        + esingle. }
    destruct P2 as (c2 & E2 & S2 & B2 & K2 & R2).
    ihs Hbody H5.
    assert (P9 : exists c9, ext (upd_out (fun o0 => rev_append [CText t_rbrace] o0) (upd_out (fun o0 => rev_append [CText (indent_text (j_indent (set_indent (Nat.pred (j_indent st5)) st5)))] o0) (set_indent (Nat.pred (j_indent st5)) st5))) st' c9
                 /\ scope_ok (j_scope st') /\ j_buf st' = j_buf st /\ called_ok fmt st' /\
                 forall e5 s, exists e', emits md (CText t_rbrace :: c9) (MStmt e5) (KBlock blk :: s) (MStmt e') s []).
    { subst blk. destruct cond as [cnd|].
      - match type of H9 with _ _ _ _ ?sa = _ =>
          destruct (IH false sa st' Hrest ltac:(discriminate) ltac:(proj; assumption) ltac:(unfold called_ok in *; proj; assumption) ltac:(proj; congruence) H9)
            as (c9 & E9 & S9 & B9 & K9 & R9) end. proj.
        exists c9. split; [exact E9|]. split; [exact S9|]. split; [congruence|]. split; [exact K9|].
        intros e5 s. destruct (R9 false s) as (e9 & Q9). exists e9. eapply emits_cons0; [esingle|exact Q9].
      - destruct first; [exfalso; destruct (Hhd eq_refl) as [Hh|Hh]; discriminate Hh|].
        destruct cs; [|discriminate Hcond]. cbn [jif_conds] in H9. jinv H9. exists []. split; [apply ext_refl; reflexivity|]. proj.
        split; [exact S|]. split; [congruence|]. split; [keep|]. intros e5 s. exists false. esingle. }
    destruct P9 as (c9 & E9 & S9 & B9 & K9 & R9).
    eexists. split; [eapply ext_trans; [|exact E9]; eapply ext_upd; eapply ext_upd; eapply ext_w1; [reflexivity|]; eapply ext_trans; [|exact E];
                     eapply ext_w1; [reflexivity|]; eapply ext_upd; eapply ext_trans; [exact E1|exact E2]|].
    split; [exact S9|]. split; [exact B9|]. split; [exact K9|].
    intros e s. destruct (C false (KBlock blk :: s)) as (e5 & R5). destruct (R9 e5 s) as (e9 & Q9). exists e9.
    rewrite <- !app_assoc. eapply emits_app0; [apply R1|]. rewrite app_assoc. eapply emits_app0; [apply R2|].
    eapply emits_app0; [exact R5|]. eapply emits_cons0; [ssingle|]. exact Q9.
Qed.

Lemma post_if conds : if_head conds = true -> if_shape oke (stmt_chk fmt fk) conds = true ->
  stmt_post0 (jindent ;;; jif_conds w true conds ;;; jtxt t_nl).
Proof.
  intros Hh Hsh st st' Hs Hk Hb H. jinv H. units.
  match goal with Hw : jif_conds _ _ _ ?sa = Ok (tt, ?sb) |- _ =>
    destruct (if_post conds true sa sb Hsh ltac:(auto) ltac:(proj; assumption) ltac:(unfold called_ok in *; proj; assumption) ltac:(proj; assumption) Hw)
      as (c & E & S & B & K & R) end. proj.
  eexists. split; [ext_build|]. split; [|split; [keep|split; [keep|keep]]].
  intros e s. destruct (R e s) as (e' & Q). exists e'. norm_app. eapply emits_cons0; [ssingle|]. eapply emits_app0; [exact Q|]. esingle.
Qed.

(* ---- loops ---- *)
Lemma loop_post body ifempty vd item vlen vidx ii : stmt_chk fmt fk body = true -> match ifempty with Some x => stmt_chk fmt fk x | None => true end = true ->
  name_ok vd -> name_ok vlen -> name_ok vidx -> exprC fmt item ii ->
  stmt_post0 (visit_loop w body ifempty vd item vlen vidx).
Proof.
  intros Hbody Hie Nvd Nvlen Nvidx Citem st st' Hs Hk Hb H. unfold visit_loop in H.
  apply bind_inv in H. destruct H as (u1 & st1 & H1 & H). apply bind_inv in H. destruct H as (u2 & st2 & H2 & H).
  apply bind_inv in H. destruct H as (u3 & st3 & H3 & H). apply bind_inv in H. destruct H as (u4 & st4 & H4 & H).
  apply bind_inv in H. destruct H as (u5 & st5 & H5 & H). apply bind_inv in H. destruct H as (u6 & st6 & H6 & H).
  apply bind_inv in H. destruct H as (u7 & st7 & H7 & H). apply bind_inv in H. destruct H as (u8 & st8 & H8 & H9). units.
  jinv H2. unfold indent_inc in H3. jinv H3. jinv H4. unfold indent_dec in H6. jinv H6. jinv H7. unfold jsc_pop in H8. jinv H8.
  (* the optional "if (len > 0) {" *)
  set (pre := match ifempty with Some _ => [KBlock BIf] | None => [] end).
  assert (P1 : exists c1, ext st st1 c1 /\ j_scope st1 = j_scope st /\ j_buf st1 = j_buf st /\ j_called st1 = j_called st /\
               forall e s, exists e1, emits md c1 (MStmt e) s (MStmt e1) (pre ++ s) []).
  { subst pre. destruct ifempty; unfold indent_inc in H1; jinv H1; proj.
    - eexists. split; [ext_build|]. repeat (split; [reflexivity|]). intros e s. exists false. norm_app. schain.
    - exists []. split; [apply ext_refl; reflexivity|]. repeat (split; [reflexivity|]). intros e s. exists e. apply emits_nil. }
  destruct P1 as (c1 & E1 & S1 & B1 & K1 & R1).
  ihs Hbody H5.
  (* the optional "} else { ... }" *)
  assert (P9 : exists c9, ext (set_scope (tl (j_scope st5)) (j_n st5) (upd_out (fun o0 => rev_append (CText (indent_text (j_indent (set_indent (Nat.pred (j_indent st5)) st5))) :: [CText t_rbrace] ++ [CText t_nl]) o0) (set_indent (Nat.pred (j_indent st5)) st5))) st' c9
               /\ scope_ok (j_scope st') /\ j_buf st' = j_buf st /\ called_ok fmt st' /\
               forall s, exists e', emits md c9 (MStmt false) (pre ++ s) (MStmt e') s []).
  { subst pre. destruct ifempty as [ie|].
    - apply bind_inv in H9. destruct H9 as (v1 & t1 & G1 & H9). apply bind_inv in H9. destruct H9 as (v2 & t2 & G2 & H9).
      apply bind_inv in H9. destruct H9 as (v3 & t3 & G3 & H9). apply bind_inv in H9. destruct H9 as (v4 & t4 & G4 & H9).
      apply bind_inv in H9. destruct H9 as (v5 & t5 & G5 & G6). units.
      unfold indent_dec in G1. jinv G1. jinv G2. unfold indent_inc in G3. jinv G3. unfold indent_dec in G5. jinv G5. jinv G6.
      match type of G4 with _ ?sa = Ok (tt, ?sb) =>
        destruct (IHs _ Hie sa sb ltac:(proj; apply scope_ok_tl; assumption) ltac:(unfold called_ok in *; proj; assumption) ltac:(proj; congruence) G4) as (c4 & E4 & C4 & S4 & B4 & K4) end. proj.
      eexists. split; [ext_build|]. split; [exact S4|]. split; [congruence|]. split; [keep|].
      intros s. destruct (C4 false (KBlock BElse :: s)) as (e4 & Q4). exists false. norm_app.
      eapply emits_cons0; [ssingle|]. eapply emits_cons0; [ssingle|]. eapply emits_cons0; [ssingle|]. eapply emits_app0; [exact Q4|]. schain.
    - jinv H9. exists []. split; [apply ext_refl; reflexivity|]. proj. split; [apply scope_ok_tl; exact S|]. split; [congruence|]. split; [keep|].
      intros s. exists false. apply emits_nil. }
  destruct P9 as (c9 & E9 & S9 & B9 & K9 & R9).
  eexists. split; [eapply ext_trans; [|exact E9]; eapply ext_w1; [reflexivity|]; eapply ext_upd; eapply ext_w1; [reflexivity|]; eapply ext_trans; [|exact E];
                   eapply ext_upd; eapply ext_w1; [reflexivity|]; eapply ext_upd; exact E1|].
  split; [|split; [exact S9|split; [exact B9|exact K9]]].
  intros e s. destruct (R1 e s) as (e1 & Q1). destruct (C false (KBlock BFor :: pre ++ s)) as (e5 & Q5). destruct (R9 s) as (e9 & Q9). exists e9.
  norm_app2. schain.
Qed.

Lemma scope_push_loop v n s : ident_ok v = true -> scope_ok s ->
  scope_ok (aset (aset (aset (aset [] v (v ++ t_us ++ dec_of_N n)) jk_var v) jk_limit (v ++ t_limit ++ t_us ++ dec_of_N n)) jk_index (v ++ t_index ++ t_us ++ dec_of_N n) :: s).
Proof.
  intros Hv Hs. constructor; [|exact Hs]. apply frame_ok_loop; [exact Hv|apply gen_name_ok0; exact Hv|apply gen_name_ok; [exact Hv|reflexivity]|apply gen_name_ok; [exact Hv|reflexivity]].
Qed.

Lemma post_foreach var lst body ifempty : ident_ok var = true -> oke lst = true -> stmt_chk fmt fk body = true ->
  match ifempty with Some x => stmt_chk fmt fk x | None => true end = true ->
  stmt_post0 (visit_foreach w var lst body ifempty).
Proof.
  intros Hv Hl Hbody Hie st st' Hs Hk Hb H. destruct (oke_some _ Hl) as (i & Hc). unfold visit_foreach in H.
  apply bind_inv in H. destruct H as (le & st1 & H1 & H).
  destruct (jblock_post o w fk IHe lst i st le st1 Hc Hs Hk H1) as (Cle & O1 & S1 & B1 & K1).
  apply bind_inv in H. destruct H as ([[[vd vlist] vlen] vidx] & st2 & H2 & H). unfold jsc_push_for_each in H2. jinv H2. match goal with X : (_, _) = (_, _) |- _ => injection X; clear X; intros; subst end.
  apply bind_inv in H. destruct H as (u3 & st3 & H3 & H). apply bind_inv in H. destruct H as (u4 & st4 & H4 & H5). jinv H3. jinv H4. units.
  set (n := j_n st1 + 1) in *.
  match type of H5 with visit_loop _ _ _ ?vd [CName ?vlist; _; _; _] ?vlen ?vidx ?sa = Ok (tt, ?sb) =>
    assert (N1 : name_ok vd) by (exact (gen_name_ok0 var n Hv));
    assert (N2 : name_ok vlist) by (exact (gen_name_ok var t_list n Hv eq_refl));
    assert (N3 : name_ok vlen) by (exact (gen_name_ok var t_limit n Hv eq_refl));
    assert (N4 : name_ok vidx) by (exact (gen_name_ok var t_index n Hv eq_refl))
  end.
  match type of H5 with visit_loop _ _ _ _ ?item _ _ ?sa = Ok (tt, ?sb) =>
    assert (Citem : exprC fmt item false) by (intros cl s; schain);
    destruct (loop_post body ifempty _ item _ _ false Hbody Hie N1 N3 N4 Citem sa sb
                ltac:(proj; apply scope_push_loop; [exact Hv|congruence]) ltac:(unfold called_ok in *; proj; assumption) ltac:(proj; congruence) H5)
      as (c5 & E5 & C5 & S5 & B5 & K5) end. proj.
  eexists. split; [eapply ext_trans; [|exact E5]; eapply ext_upd; eapply ext_upd; eapply ext_w1; [reflexivity|]; apply ext_refl; exact O1|].
  split; [|split; [exact S5|split; [congruence|exact K5]]].
  intros e s. destruct (C5 false s) as (e5 & Q5). exists e5. norm_app2. schain.
Qed.

Lemma expr_chk_fuel n i : expr_chk fmt fk n = Some i -> exists fk', fk = S fk'.
Proof. destruct fk; [discriminate|eauto]. Qed.

Lemma post_for_range var args body ifempty : ident_ok var = true ->
  match args with [_] | [_; _] | [_; _; _] => forallb oke args | _ => false end = true -> stmt_chk fmt fk body = true ->
  match ifempty with Some x => stmt_chk fmt fk x | None => true end = true ->
  stmt_post0 (visit_for_range w var args body ifempty).
Proof.
  intros Hv Hargs Hbody Hie st st' Hs Hk Hb H. unfold visit_for_range in H.
  assert (Hsel : exists init limit incr i1 i2 i3,
            match args with [l] => Some (NInt 0 0, l, NInt 0 1) | [i; l] => Some (i, l, NInt 0 1) | [i; l; s] => Some (i, l, s) | _ => None end = Some (init, limit, incr)
            /\ expr_chk fmt fk init = Some i1 /\ expr_chk fmt fk limit = Some i2 /\ expr_chk fmt fk incr = Some i3).
  { destruct args as [|a1 [|a2 [|a3 [|a4 r]]]]; try discriminate Hargs; cbn [forallb] in Hargs;
      repeat match type of Hargs with (_ && _) = true => let X := fresh "X" in apply andb_prop in Hargs; destruct Hargs as [X Hargs] end.
    - destruct (oke_some _ X) as (j1 & J1). destruct (expr_chk_fuel _ _ J1) as (fk' & Efk).
      exists (NInt 0 0), a1, (NInt 0 1), true, j1, true. rewrite Efk in *. auto.
    - destruct (oke_some _ X) as (j1 & J1). destruct (oke_some _ X0) as (j2 & J2). destruct (expr_chk_fuel _ _ J1) as (fk' & Efk).
      exists a1, a2, (NInt 0 1), j1, j2, true. rewrite Efk in *. auto.
    - destruct (oke_some _ X) as (j1 & J1). destruct (oke_some _ X0) as (j2 & J2). destruct (oke_some _ X1) as (j3 & J3).
      exists a1, a2, a3, j1, j2, j3. auto. }
  destruct Hsel as (init & limit & incr & i1 & i2 & i3 & Esel & C1 & C2 & C3). rewrite Esel in H.
  apply bind_inv in H. destruct H as (ie & st1 & H1 & H). destruct (jblock_post o w fk IHe init i1 st ie st1 C1 Hs Hk H1) as (Cie & O1 & S1 & B1 & K1).
  apply bind_inv in H. destruct H as (se & st2 & H2 & H). destruct (jblock_post o w fk IHe incr i3 st1 se st2 C3 ltac:(congruence) K1 H2) as (Cse & O2 & S2 & B2 & K2).
  apply bind_inv in H. destruct H as (le & st3 & H3 & H). destruct (jblock_post o w fk IHe limit i2 st2 le st3 C2 ltac:(congruence) K2 H3) as (Cle & O3 & S3 & B3 & K3).
  apply bind_inv in H. destruct H as ([[[[vd vinit] vstep] vlen] vidx] & st4 & H4 & H). unfold jsc_push_for_range in H4. jinv H4. match goal with X : (_, _) = (_, _) |- _ => injection X; clear X; intros; subst end.
  apply bind_inv in H. destruct H as (u5 & st5 & H5 & H). apply bind_inv in H. destruct H as (u6 & st6 & H6 & H).
  apply bind_inv in H. destruct H as (u7 & st7 & H7 & H8). jinv H5. jinv H6. jinv H7. units.
  set (n := j_n st3 + 1) in *.
  match type of H8 with visit_loop _ _ _ ?vd [CName ?vinit; _; _; _; CName ?vstep] ?vlen ?vidx ?sa = Ok (tt, ?sb) =>
    assert (N1 : name_ok vd) by (exact (gen_name_ok0 var n Hv));
    assert (N2 : name_ok vinit) by (exact (gen_name_ok var t_init n Hv eq_refl));
    assert (N3 : name_ok vstep) by (exact (gen_name_ok var t_step n Hv eq_refl));
    assert (N4 : name_ok vlen) by (exact (gen_name_ok var t_limit n Hv eq_refl));
    assert (N5 : name_ok vidx) by (exact (gen_name_ok var t_index n Hv eq_refl))
  end.
  match type of H8 with visit_loop _ _ _ _ ?item _ _ ?sa = Ok (tt, ?sb) =>
    assert (Citem : exprC fmt item false) by (intros cl s; schain);
    destruct (loop_post body ifempty _ item _ _ false Hbody Hie N1 N4 N5 Citem sa sb
                ltac:(proj; apply scope_push_loop; [exact Hv|congruence]) ltac:(unfold called_ok in *; proj; assumption) ltac:(proj; congruence) H8)
      as (c8 & E8 & C8 & S8 & B8 & K8) end. proj.
  eexists. split; [eapply ext_trans; [|exact E8]; eapply ext_upd; eapply ext_upd; eapply ext_upd; eapply ext_w1; [reflexivity|]; apply ext_refl; congruence|].
  split; [|split; [exact S8|split; [congruence|exact K8]]].
  intros e s. destruct (C8 false s) as (e8 & Q8). exists e8. norm_app2. schain.
Qed.

(* ---- switch ---- *)
Definition label_ready (m : mode) : Prop := m = MSwStart \/ exists e, m = MStmt e.

Lemma values_post vs : forall st st', forallb oke vs = true -> scope_ok (j_scope st) -> called_ok fmt st -> case_values w vs st = Ok (tt, st') ->
  exists c, ext st st' c /\ j_scope st' = j_scope st /\ j_buf st' = j_buf st /\ called_ok fmt st' /\
    forall m d s, label_ready m -> emits md c m (KBlock (BSwitch d) :: s) (match vs with [] => m | _ => MStmt false end) (KBlock (BSwitch d) :: s) [].
Proof.
  induction vs as [|v vs IH]; intros st st' Hall Hs Hk H; cbn [case_values] in H.
  - jinv H. exists []. split; [apply ext_refl; reflexivity|]. repeat (split; [auto|]). intros m d s _. apply emits_nil.
  - cbn [forallb] in Hall. apply andb_prop in Hall. destruct Hall as [Hv Hl]. destruct (oke_some _ Hv) as (i & Hc).
    apply bind_inv in H. destruct H as (u1 & st1 & H1 & H). apply bind_inv in H. destruct H as (u2 & st2 & H2 & H).
    apply bind_inv in H. destruct H as (u3 & st3 & H3 & H). apply bind_inv in H. destruct H as (u4 & st4 & H4 & H5). units.
    jinv H1. jinv H2. jinv H4. ihe Hc H3.
    match type of H5 with _ _ _ ?sa = _ =>
      destruct (IH sa st' Hl ltac:(proj; congruence) ltac:(unfold called_ok in *; proj; assumption) H5) as (c5 & E5 & S5 & B5 & K5 & R5) end. proj.
    eexists. split; [eapply ext_trans; [|exact E5]; ext_build|]. split; [congruence|]. split; [congruence|]. split; [exact K5|].
    intros m d s Hm. norm_app2.
    eapply emits_cons0; [ssingle|]. eapply emits_cons0; [eapply emits_toks1; [vm_compute; reflexivity|destruct Hm as [->|[e ->]]; reflexivity|tail_solve]|].
    eapply emits_app0; [apply C|]. eapply emits_cons0; [ssingle|]. eapply emits_cons0; [ssingle|].
    pose proof (R5 (MStmt false) d s ltac:(right; eauto)) as Q. destruct vs; exact Q.
Qed.

Lemma cases_post cs : forall d st st', forallb (case_shape oke (stmt_chk fmt fk)) cs = true ->
  (Nat.b2n d + List.length (filter is_default_case cs) <= 1)%nat ->
  scope_ok (j_scope st) -> called_ok fmt st -> buf_ok (j_buf st) -> jswitch_cases w cs st = Ok (tt, st') ->
  exists c, ext st st' c /\ scope_ok (j_scope st') /\ j_buf st' = j_buf st /\ called_ok fmt st' /\
    forall m s, label_ready m -> exists m' d', label_ready m' /\ emits md c m (KBlock (BSwitch d) :: s) m' (KBlock (BSwitch d') :: s) [].
Proof.
  induction cs as [|x cs IH]; intros d st st' Hall Hcnt Hs Hk Hb H; cbn [jswitch_cases] in H.
  - jinv H. exists []. split; [apply ext_refl; reflexivity|]. repeat (split; [auto|]). intros m s Hm. exists m, d. split; [exact Hm|apply emits_nil].
  - cbn [forallb] in Hall. apply andb_prop in Hall. destruct Hall as [Hx Hl]. destruct x; try discriminate Hx. cbn [case_shape] in Hx.
    apply andb_prop in Hx. destruct Hx as [Hvs Hbody].
    apply bind_inv in H. destruct H as (u1 & st1 & H1 & H). apply bind_inv in H. destruct H as (u2 & st2 & H2 & H).
    apply bind_inv in H. destruct H as (u3 & st3 & H3 & H). apply bind_inv in H. destruct H as (u4 & st4 & H4 & H).
    apply bind_inv in H. destruct H as (u5 & st5 & H5 & H). apply bind_inv in H. destruct H as (u6 & st6 & H6 & H7). units.
    destruct (values_post values st st1 Hvs Hs Hk H1) as (c1 & E1 & S1 & B1 & K1 & R1).
    unfold indent_inc in H3. jinv H3. jinv H5. unfold indent_dec in H6. jinv H6.
    set (d1 := match values with [] => true | _ => d end).
    assert (P2 : exists c2, ext st1 st2 c2 /\ j_scope st2 = j_scope st1 /\ j_buf st2 = j_buf st1 /\ j_called st2 = j_called st1 /\
                 forall m s, label_ready m -> emits md (c1 ++ c2) m (KBlock (BSwitch d) :: s) (MStmt false) (KBlock (BSwitch d1) :: s) []).
    { subst d1. destruct values as [|v0 vs0].
      - jinv H2. proj. eexists. split; [ext_build|]. repeat (split; [reflexivity|]).
        assert (d = false). { cbn [filter is_default_case List.length] in Hcnt. destruct d; [cbn in Hcnt; lia|reflexivity]. } subst d.
        intros m s Hm. eapply emits_app0; [apply R1; exact Hm|]. norm_app2.
        eapply emits_cons0; [ssingle|]. eapply emits_cons0; [eapply emits_toks1; [vm_compute; reflexivity|destruct Hm as [->|[e ->]]; reflexivity|tail_solve]|]. ssingle.
      - jinv H2. exists []. split; [apply ext_refl; reflexivity|]. repeat (split; [reflexivity|]). intros m s Hm. rewrite app_nil_r. apply R1. exact Hm. }
    destruct P2 as (c2 & E2 & S2 & B2 & K2 & R2).
    ihs Hbody H4.
    match type of H7 with _ _ _ ?sa = _ =>
      destruct (IH d1 sa st' Hl ltac:(subst d1; cbn [filter] in Hcnt; destruct values; cbn [is_default_case List.length Nat.b2n] in *; lia)
                  ltac:(proj; assumption) ltac:(unfold called_ok in *; proj; assumption) ltac:(proj; congruence) H7) as (c7 & E7 & S7 & B7 & K7 & R7) end. proj.
    eexists. split; [eapply ext_trans; [|exact E7]; eapply ext_w1; [reflexivity|]; eapply ext_upd; eapply ext_trans; [|exact E]; eapply ext_w1; [reflexivity|];
                     eapply ext_trans; [exact E1|exact E2]|].
    split; [exact S7|]. split; [congruence|]. split; [exact K7|].
    intros m s Hm. destruct (C false (KBlock (BSwitch d1) :: s)) as (e4 & Q4).
    destruct (R7 (MStmt false) s ltac:(right; eauto)) as (m' & d' & Hm' & Q7). exists m', d'. split; [exact Hm'|].
    rewrite <- !app_assoc. rewrite (app_assoc c1 c2). eapply emits_app0; [apply R2; exact Hm|]. eapply emits_app0; [exact Q4|]. norm_app2.
    eapply emits_cons0; [ssingle|]. eapply emits_cons0; [eapply emits_toks1; [vm_compute; reflexivity|reflexivity|tail_solve]|]. eapply emits_cons0; [ssingle|]. exact Q7.
Qed.

Lemma post_switch v cases : oke v = true -> forallb (case_shape oke (stmt_chk fmt fk)) cases = true ->
  (List.length (filter is_default_case cases) <=? 1)%nat = true ->
  stmt_post0 (jindent ;;; jtxt t_switch_open ;;; w v ;;; jemit [CText t_for_close; CText t_nl] ;;;
              indent_inc ;;; jswitch_cases w cases ;;; indent_dec ;;; jsln [CText t_rbrace]).
Proof.
  intros Hv Hcs Hcnt st st' Hs Hk Hb H. destruct (oke_some _ Hv) as (i & Hc).
  apply bind_inv in H. destruct H as (u1 & st1 & H1 & H). apply bind_inv in H. destruct H as (u2 & st2 & H2 & H).
  apply bind_inv in H. destruct H as (u3 & st3 & H3 & H). apply bind_inv in H. destruct H as (u4 & st4 & H4 & H).
  apply bind_inv in H. destruct H as (u5 & st5 & H5 & H). apply bind_inv in H. destruct H as (u6 & st6 & H6 & H).
  apply bind_inv in H. destruct H as (u7 & st7 & H7 & H8). units.
  jinv H1. jinv H2. jinv H4. unfold indent_inc in H5. jinv H5. unfold indent_dec in H7. jinv H7. jinv H8. ihe Hc H3.
  match type of H6 with _ _ _ ?sa = _ =>
    destruct (cases_post cases false sa st6 Hcs ltac:(cbn [Nat.b2n]; apply Nat.leb_le in Hcnt; lia) ltac:(proj; congruence) ltac:(unfold called_ok in *; proj; assumption) ltac:(proj; congruence) H6)
      as (c6 & E6 & S6 & B6 & K6 & R6) end. proj.
  eexists. split; [eapply ext_upd; eapply ext_w1; [reflexivity|]; eapply ext_trans; [|exact E6]; ext_build|].
  split; [|split; [exact S6|split; [congruence|keep]]].
  intros e s. destruct (R6 MSwStart s ltac:(left; reflexivity)) as (m' & d' & Hm' & Q6). exists false. norm_app2.
  eapply emits_cons0; [ssingle|]. eapply emits_cons0; [ssingle|]. eapply emits_app0; [apply C|]. eapply emits_cons0; [ssingle|]. eapply emits_cons0; [ssingle|].
  eapply emits_app0; [exact Q6|]. eapply emits_cons0; [ssingle|]. eapply emits_cons0; [|ssingle].
  eapply emits_toks1; [vm_compute; reflexivity| |tail_solve]. destruct Hm' as [->|[e' ->]]; reflexivity.
Qed.

(* ---- call ---- *)
Lemma name_tail_run l : l <> [] -> forall s, js_run md (name_tokens l) MDot s = Some (MHave false, s, []).
Proof.
  induction l as [|p l IH]; intros Hne s; [congruence|]. destruct l as [|q r].
  - cbn [name_tokens]. destruct (tok_of_ident_cases p) as [(k & ->)| ->]; reflexivity.
  - change (name_tokens (p :: q :: r)) with (tok_of_ident p :: TP PDot :: name_tokens (q :: r)).
    specialize (IH ltac:(discriminate) s).
    destruct (tok_of_ident_cases p) as [(k & ->)| ->]; cbn [js_run js_step step_have cfg]; rewrite IH; reflexivity.
Qed.

Lemma dname_run nm cl s : dname_okb nm = true -> emits md [CName nm] (MWant cl) s (MHave false) s [].
Proof.
  unfold dname_okb. intro H. destruct (lex_name nm) as [ts|] eqn:El; [|discriminate]. destruct ts as [|t ts]; [discriminate|]. destruct t; try discriminate.
  eapply emits_toks1; [cbn [lex_chunk]; rewrite El; reflexivity| |tail_solve].
  unfold lex_name in El. destruct (forallb ident_ok (split_dots [] nm)); [|discriminate]. inversion El as [E2]. clear El.
  destruct (split_dots [] nm) as [|p [|q r]]; [discriminate E2| |].
  - cbn [name_tokens] in *. injection E2 as E3 E4. rewrite E3. reflexivity.
  - change (name_tokens (p :: q :: r)) with (tok_of_ident p :: TP PDot :: name_tokens (q :: r)) in *. injection E2 as E3 E4. rewrite E3.
    cbn [js_run js_step step_want step_have cfg]. rewrite (name_tail_run (q :: r) ltac:(discriminate) s). reflexivity.
Qed.

Definition accC (acc : list chunk) (m' : mode) : Prop := forall cl s, emits md acc (MWant cl) s m' (KObj :: KCall :: s) [].

Lemma key_run key s : ident_ok key = true -> forall cl, emits md [CName key; CText t_colon_sp] (MKey cl) (KObj :: s) (MWant false) (KObj :: s) [].
Proof.
  intros Hk cl. apply (emits_cons0 md _ _ _ _ (seq1 PColon None (MWant false)) (KObj :: s)); [|esingle].
  eapply emits_toks1; [cbn [lex_chunk]; rewrite (lex_name_ident _ Hk); reflexivity| |tail_solve].
  destruct (tok_of_ident_cases key) as [(k & ->)| ->]; reflexivity.
Qed.

Lemma params_post ps : forall (first : bool) acc m0 st st' res, forallb (param_shape oke (stmt_chk fmt fk)) ps = true -> accC acc m0 ->
  (if first then m0 = MKey true else exists j, m0 = MHave j) ->
  scope_ok (j_scope st) -> called_ok fmt st -> buf_ok (j_buf st) -> jcall_params w first ps acc st = Ok (res, st') ->
  exists cs m1, ext st st' cs /\ stmtC fmt cs /\ accC res m1 /\ after_keys m1 /\ scope_ok (j_scope st') /\ j_buf st' = j_buf st /\ called_ok fmt st'.
Proof.
  induction ps as [|p ps IH]; intros first acc m0 st st' res Hall Hacc Hm0 Hs Hk Hb H; cbn [jcall_params] in H.
  - jinv H. exists [], m0. split; [apply ext_refl; reflexivity|]. split; [apply stmtC_nil|]. split; [exact Hacc|].
    split; [destruct first; [left; exact Hm0|right; exact Hm0]|auto].
  - cbn [forallb] in Hall. apply andb_prop in Hall. destruct Hall as [Hp Hl].
    set (acc1 := if first then acc else acc ++ [CText t_comma_sp]) in *.
    assert (Hacc1 : forall cl s, exists c, emits md acc1 (MWant cl) s (MKey c) (KObj :: KCall :: s) []).
    { subst acc1. intros cl s. destruct first.
      - subst m0. exists true. apply Hacc.
      - destruct Hm0 as (j & ->). exists false. eapply emits_app0; [apply Hacc|]. esingle. }
    destruct p; try discriminate Hp; cbn [param_shape] in Hp; apply andb_prop in Hp; destruct Hp as [Hkey Hv].
    + (* value *)
      destruct (oke_some _ Hv) as (i & Hc). apply bind_inv in H. destruct H as (bl & st1 & H1 & H2).
      match type of H1 with jblock _ ?vv _ = _ => destruct (jblock_post o w fk IHe vv i st bl st1 Hc Hs Hk H1) as (Cb & O1 & S1 & B1 & K1) end.
      match type of H2 with jcall_params _ _ _ ?ac _ = _ =>
        assert (A0 : accC ac (MHave i))
          by (intros cl s; destruct (Hacc1 cl s) as (c & Q); eapply emits_app0; [exact Q|]; eapply emits_app0; [apply key_run; exact Hkey|]; apply Cb);
        destruct (IH false ac (MHave i) st1 st' res Hl A0 ltac:(cbv iota; eexists; reflexivity) ltac:(congruence) K1 ltac:(congruence) H2) as (cs & m1 & E & C & A & Hm1 & S & B & K)
      end.
      exists cs, m1. split; [unfold ext in *; rewrite E, O1; reflexivity|]. split; [exact C|]. split; [exact A|]. split; [exact Hm1|]. split; [exact S|]. split; [congruence|exact K].
    + (* content *)
      apply bind_inv in H. destruct H as (st0 & st1 & H0 & H). apply get_inv in H0. destruct H0; subst. cbv beta zeta in H.
      apply bind_inv in H. destruct H as (g & st1 & H1 & H). destruct (genname_post _ _ _ _ H1 eq_refl Hs) as ([Hg1 Hg2] & S1 & O1 & B1 & K1 & _).
      apply bind_inv in H. destruct H as (u2 & st2 & H2 & H). jinv H2. apply bind_inv in H. destruct H as (u3 & st3 & H3 & H). jinv H3.
      apply bind_inv in H. destruct H as (u4 & st4 & H4 & H). apply bind_inv in H. destruct H as (u5 & st5 & H5 & H6). jinv H5. units.
      match type of H4 with _ ?sa = Ok (tt, ?sb) =>
        destruct (IHs _ Hv sa sb ltac:(proj; assumption) ltac:(unfold called_ok in *; proj; congruence) ltac:(proj; split; assumption) H4) as (c4 & E4 & C4 & S4 & B4 & K4) end. proj.
      match type of H6 with jcall_params _ _ _ ?ac ?sa = _ =>
        assert (A0 : accC ac (MHave false))
          by (intros cl s; destruct (Hacc1 cl s) as (c & Q); eapply emits_app0; [exact Q|];
              apply (emits_cons0 md _ _ _ _ (seq1 PColon None (MWant false)) (KObj :: KCall :: s)); [|eapply emits_cons0; [esingle|esingle]];
              eapply emits_toks1; [cbn [lex_chunk]; rewrite (lex_name_ident _ Hkey); reflexivity|destruct (tok_of_ident_cases key) as [(k & ->)| ->]; reflexivity|tail_solve]);
        destruct (IH false ac (MHave false) sa st' res Hl A0 ltac:(cbv iota; eexists; reflexivity) ltac:(proj; assumption) ltac:(unfold called_ok in *; proj; assumption) ltac:(proj; exact Hb) H6)
          as (cs & m1 & E & C & A & Hm1 & S & B & K)
      end.
      proj. eexists. exists m1. split; [eapply ext_trans; [|exact E]; eapply ext_w1; [reflexivity|]; eapply ext_trans; [|exact E4]; eapply ext_upd; eapply ext_w1; [reflexivity|]; apply ext_refl; exact O1|].
      split; [|split; [exact A|split; [exact Hm1|split; [exact S|split; [congruence|exact K]]]]].
      apply stmtC_app; [|exact C]. intros e s. destruct (C4 false s) as (e4 & Q4). exists e4. norm_app2. schain.
Qed.

Lemma post_call name alldata data params :
  dname_okb (fmt_bytes (fmt_call_name fmt) name) = true -> imp_ok fmt (fmt_chunks (fmt_call_text fmt) name) = true ->
  match data with Some d => oke d | None => true end = true -> forallb (param_shape oke (stmt_chk fmt fk)) params = true ->
  stmt_post0 (visit_call o w name alldata data params).
Proof.
  intros Hname Himp Hdata Hps st st' Hs Hk Hb H. unfold visit_call in H.
  apply bind_inv in H. destruct H as (d0 & st1 & H1 & H).
  assert (P1 : exists i0, exprC fmt d0 i0 /\ j_out st1 = j_out st /\ j_scope st1 = j_scope st /\ j_buf st1 = j_buf st /\ called_ok fmt st1).
  { destruct data as [d|].
    - destruct (oke_some _ Hdata) as (i & Hc). exists i. exact (jblock_post o w fk IHe d i st d0 st1 Hc Hs Hk H1).
    - jinv H1. exists false. split; [|auto]. intros cl s. destruct alldata; esingle. }
  destruct P1 as (i0 & C0 & O1 & S1 & B1 & K1).
  apply bind_inv in H. destruct H as (d1 & st2 & H2 & H).
  assert (P2 : exists c2 i1, ext st1 st2 c2 /\ stmtC fmt c2 /\ exprC fmt d1 i1 /\ scope_ok (j_scope st2) /\ j_buf st2 = j_buf st1 /\ called_ok fmt st2).
  { destruct params as [|p0 ps0] eqn:Eps.
    - jinv H2. exists [], i0. split; [apply ext_refl; reflexivity|]. split; [apply stmtC_nil|]. split; [exact C0|]. split; [congruence|auto].
    - rewrite <- Eps in *. clear Eps. apply bind_inv in H2. destruct H2 as (ps' & st2' & H2 & H3). jinv H3.
      match type of H2 with jcall_params _ _ _ ?ac _ = Ok (_, ?sb) =>
        assert (A0 : accC ac (MKey true)) by (intros cl s; norm_app2; eapply emits_cons0; [esingle|]; eapply emits_app0; [apply C0|]; esingle);
        destruct (params_post params true ac (MKey true) st1 sb ps' Hps A0 eq_refl ltac:(congruence) K1 ltac:(congruence) H2) as (c2 & m1 & E2 & C2 & A2 & Hm1 & S2 & B2 & K2)
      end.
      exists c2, false. split; [exact E2|]. split; [exact C2|]. split; [|auto].
      intros cl s. eapply emits_app0; [apply A2|]. eapply emits_toks1; [vm_compute; reflexivity| |tail_solve]. destruct Hm1 as [->|[j ->]]; reflexivity. }
  destruct P2 as (c2 & i1 & E2 & C2 & C1 & S2 & B2 & K2).
  apply bind_inv in H. destruct H as (bn & st3 & H3 & H). jinv H3. apply bind_inv in H. destruct H as (u4 & st4 & H4 & H5). jinv H4. units.
  match type of H5 with note_called _ _ ?sa = _ => destruct (note_called_inv o _ _ sa _ _ H5 Himp ltac:(unfold called_ok in *; proj; assumption)) as (O5 & S5 & B5 & K5) end. proj.
  destruct Hb as [Hb1 Hb2].
  eexists. split; [eapply ext_step; [|exact O5]; eapply ext_trans; [apply ext_refl; exact O1|exact E2]|].
  split; [|split; [congruence|split; [congruence|exact K5]]].
  cbn [app]. apply stmtC_app; [exact C2|]. intros e s. exists false. norm_app2. rewrite B2, B1.
  eapply emits_cons0; [ssingle|]. eapply emits_cons0; [ssingle|]. eapply emits_cons0; [ssingle|].
  eapply emits_cons0; [apply dname_run; exact Hname|]. eapply emits_cons0; [ssingle|]. eapply emits_app0; [apply C1|]. schain.
Qed.

(* ---- messages ---- *)
Inductive mq_ok : node -> Prop :=
| mq_raw p t : stmt_chk fmt fk (NRawText p t) = true -> mq_ok (NRawText p t)
| mq_ph p nm bd : stmt_chk fmt fk bd = true -> mq_ok (NMsgPlaceholder p nm bd)
| mq_plural p vn v cases dflt : oke v = true -> Forall mq_ok cases -> Forall mq_ok dflt -> mq_ok (NMsgPlural p vn v cases dflt)
| mq_case p z body : Forall mq_ok body -> mq_ok (NMsgPluralCase p z body)
| mq_list p l : Forall mq_ok l -> mq_ok (NList p l)
| mq_other n : match n with NRawText _ _ | NMsgPlaceholder _ _ _ | NMsgPlural _ _ _ _ _ | NMsgPluralCase _ _ _ | NList _ _ => False | _ => True end -> mq_ok n.

Lemma mq_chk_ok f : forall n, mq_chk oke (stmt_chk fmt fk) f n = true -> mq_ok n.
Proof.
  induction f as [|f IH]; intros n H; [discriminate H|].
  assert (IHl : forall l, forallb (mq_chk oke (stmt_chk fmt fk) f) l = true -> Forall mq_ok l).
  { intros l Hl. rewrite forallb_forall in Hl. apply Forall_forall. intros x Hx. apply IH. apply Hl. exact Hx. }
  destruct n; cbn [mq_chk] in H; try (apply mq_other; exact I).
  - apply mq_list. apply IHl. exact H.
  - apply mq_raw. exact H.
  - apply mq_ph. exact H.
  - apply andb_prop in H. destruct H as [H H3]. apply andb_prop in H. destruct H as [H1 H2]. apply mq_plural; auto.
  - apply mq_case. apply IHl. exact H.
Qed.

Definition spost (st st' : jstate) (cs : list chunk) : Prop :=
  ext st st' cs /\ stmtC fmt cs /\ scope_ok (j_scope st') /\ j_buf st' = j_buf st /\ called_ok fmt st'.
Lemma spost_nil st : scope_ok (j_scope st) -> called_ok fmt st -> spost st st [].
Proof. intros Hs Hk. split; [apply ext_refl; reflexivity|]. split; [apply stmtC_nil|auto]. Qed.
Lemma spost_trans st st1 st2 c1 c2 : spost st st1 c1 -> spost st1 st2 c2 -> spost st st2 (c1 ++ c2).
Proof.
  intros (E1 & C1 & S1 & B1 & K1) (E2 & C2 & S2 & B2 & K2). split; [eapply ext_trans; eauto|]. split; [apply stmtC_app; assumption|].
  split; [exact S2|]. split; [congruence|exact K2].
Qed.

Lemma children_post fuel : forall l st st', Forall mq_ok l -> scope_ok (j_scope st) -> called_ok fmt st -> buf_ok (j_buf st) ->
  jmsg_children w fuel l st = Ok (tt, st') -> exists cs, spost st st' cs.
Proof.
  induction fuel as [|f IH]; intros l st st' Hl Hs Hk Hb H; [discriminate H|]. cbn [jmsg_children] in H.
  destruct l as [|x r]; [jinv H; exists []; apply spost_nil; assumption|].
  inversion Hl as [|? ? Hx Hr]; subst. apply bind_inv in H. destruct H as (u & st1 & H1 & H2). units.
  assert (P1 : exists c1, spost st st1 c1).
  { inversion Hx; subst.
    - destruct (IHs _ H st st1 Hs Hk Hb H1) as (c & P). exists c. exact P.
    - destruct (IHs _ H st st1 Hs Hk Hb H1) as (c & P). exists c. exact P.
    - (* plural *)
      destruct (oke_some _ H) as (i & Hc).
      apply bind_inv in H1. destruct H1 as (u1 & t1 & G1 & H1). apply bind_inv in H1. destruct H1 as (u2 & t2 & G2 & H1).
      apply bind_inv in H1. destruct H1 as (u3 & t3 & G3 & H1). apply bind_inv in H1. destruct H1 as (u4 & t4 & G4 & H1).
      apply bind_inv in H1. destruct H1 as (u5 & t5 & G5 & H1). apply bind_inv in H1. destruct H1 as (u6 & t6 & G6 & H1).
      apply bind_inv in H1. destruct H1 as (u7 & t7 & G7 & H1). apply bind_inv in H1. destruct H1 as (u8 & t8 & G8 & H1).
      apply bind_inv in H1. destruct H1 as (u9 & t9 & G9 & H1). apply bind_inv in H1. destruct H1 as (u10 & t10 & G10 & H1).
      apply bind_inv in H1. destruct H1 as (u11 & t11 & G11 & G12). units.
      jinv G1. jinv G2. jinv G4. unfold indent_inc in G5. jinv G5. jinv G7. unfold indent_inc in G8. jinv G8.
      unfold indent_dec in G10. jinv G10. unfold indent_dec in G11. jinv G11. jinv G12. ihe Hc G3.
      (* the cases *)
      assert (Pc : forall cs0 sa sb, Forall mq_ok cs0 -> scope_ok (j_scope sa) -> called_ok fmt sa -> buf_ok (j_buf sa) ->
                (fix go (cs : list node) : J unit := match cs with [] => jret tt | c :: cr => plural_case_body (jmsg_children w f) c ;;; go cr end) cs0 sa = Ok (tt, sb) ->
                exists c, ext sa sb c /\ scope_ok (j_scope sb) /\ j_buf sb = j_buf sa /\ called_ok fmt sb /\
                  forall m d s, label_ready m -> exists m', label_ready m' /\ emits md c m (KBlock (BSwitch d) :: s) m' (KBlock (BSwitch d) :: s) []).
      { induction cs0 as [|c0 cs0 IHc]; intros sa sb Hcs Hsa Hka Hba Hgo.
        - jinv Hgo. exists []. split; [apply ext_refl; reflexivity|]. repeat (split; [auto|]). intros m d s Hm. exists m. split; [exact Hm|apply emits_nil].
        - inversion Hcs as [|? ? Hc0 Hcs']; subst. apply bind_inv in Hgo. destruct Hgo as (v1 & sm & Hb1 & Hgo). units.
          inversion Hc0; subst; try (cbn [plural_case_body] in Hb1; discriminate Hb1);
            [|match goal with X : match ?c with _ => _ end |- _ => destruct c; try contradiction; cbn [plural_case_body] in Hb1; discriminate Hb1 end].
          cbn [plural_case_body] in Hb1.
          apply bind_inv in Hb1. destruct Hb1 as (w1 & r1 & F1 & Hb1). apply bind_inv in Hb1. destruct Hb1 as (w2 & r2 & F2 & Hb1).
          apply bind_inv in Hb1. destruct Hb1 as (w3 & r3 & F3 & Hb1). apply bind_inv in Hb1. destruct Hb1 as (w4 & r4 & F4 & F5). units.
          jinv F1. unfold indent_inc in F2. jinv F2. jinv F4. unfold indent_dec in F5. jinv F5.
          match type of F3 with _ _ _ _ ?sx = Ok (tt, ?sy) =>
            destruct (IH body sx sy ltac:(assumption) ltac:(proj; assumption) ltac:(unfold called_ok in *; proj; assumption) ltac:(proj; assumption) F3) as (cb & Eb & Cb & Sb & Bb & Kb) end. proj.
          match type of Hgo with _ _ ?sx = _ =>
            destruct (IHc sx sb Hcs' ltac:(proj; assumption) ltac:(unfold called_ok in *; proj; assumption) ltac:(proj; congruence) Hgo) as (cr & Er & Sr & Br & Kr & Rr) end. proj.
          eexists. split; [eapply ext_trans; [|exact Er]; eapply ext_w1; [reflexivity|]; eapply ext_upd; eapply ext_trans; [|exact Eb]; eapply ext_w1; [reflexivity|]; eapply ext_upd; apply ext_refl; reflexivity|].
          split; [exact Sr|]. split; [congruence|]. split; [exact Kr|].
          intros m d s Hm. destruct (Cb false (KBlock (BSwitch d) :: s)) as (eb & Qb). destruct (Rr (MStmt false) d s ltac:(right; eauto)) as (m' & Hm' & Qr).
          exists m'. split; [exact Hm'|]. norm_app2.
          eapply emits_cons0; [ssingle|]. eapply emits_cons0; [eapply emits_toks1; [vm_compute; reflexivity|destruct Hm as [->|[e0 ->]]; reflexivity|tail_solve]|].
          eapply emits_cons0; [apply emits_num_Z|]. eapply emits_cons0; [ssingle|]. eapply emits_cons0; [ssingle|].
          eapply emits_app0; [exact Qb|]. eapply emits_cons0; [ssingle|]. eapply emits_cons0; [eapply emits_toks1; [vm_compute; reflexivity|reflexivity|tail_solve]|].
          eapply emits_cons0; [ssingle|]. exact Qr. }
      match type of G6 with _ _ ?sa = Ok (tt, ?sb) =>
        destruct (Pc cases sa sb ltac:(assumption) ltac:(proj; congruence) ltac:(unfold called_ok in *; proj; assumption) ltac:(proj; congruence) G6) as (c6 & E6 & S6 & B6 & K6 & R6) end. proj.
      match type of G9 with _ _ _ _ ?sa = Ok (tt, ?sb) =>
        destruct (IH dflt sa sb ltac:(assumption) ltac:(proj; assumption) ltac:(unfold called_ok in *; proj; assumption) ltac:(proj; congruence) G9) as (c9 & E9 & C9 & S9 & B9 & K9) end. proj.
      eexists. split; [|split; [|split; [keep|split; [keep|keep]]]].
      + eapply ext_upd. eapply ext_w1; [reflexivity|]. eapply ext_w1; [reflexivity|]. eapply ext_trans; [|exact E9]. eapply ext_w1; [reflexivity|]. eapply ext_upd.
        eapply ext_trans; [|exact E6]. ext_build.
      + intros e s. destruct (R6 MSwStart false s ltac:(left; reflexivity)) as (m6 & Hm6 & Q6). destruct (C9 false (KBlock (BSwitch true) :: s)) as (e9 & Q9). exists false.
        norm_app2. eapply emits_cons0; [ssingle|]. eapply emits_cons0; [ssingle|]. eapply emits_app0; [apply C|]. eapply emits_cons0; [ssingle|]. eapply emits_cons0; [ssingle|].
        eapply emits_app0; [exact Q6|]. eapply emits_cons0; [ssingle|].
        eapply emits_cons0; [eapply emits_toks1; [vm_compute; reflexivity|destruct Hm6 as [->|[e6 ->]]; reflexivity|tail_solve]|]. eapply emits_cons0; [ssingle|].
        eapply emits_app0; [exact Q9|]. eapply emits_cons0; [ssingle|]. eapply emits_cons0; [ssingle|]. ssingle.
    - (* a plural case outside a plural: nothing is written *) jinv H1. exists []. apply spost_nil; assumption.
    - jinv H1. exists []. apply spost_nil; assumption.
    - destruct x; try contradiction; jinv H1; exists []; apply spost_nil; assumption. }
  destruct P1 as (c1 & P1). pose proof P1 as (E1 & C1 & S1 & B1 & K1).
  destruct (IH r st1 st' Hr S1 K1 ltac:(rewrite B1; exact Hb) H2) as (c2 & P2). exists (c1 ++ c2). eapply spost_trans; eauto.
Qed.

(* ---- messages with a bundle ---- *)
Lemma find_ph_ok fuel : forall q name bd, Forall mq_ok q -> jfind_placeholder fuel q name = Ok (Some bd) -> stmt_chk fmt fk bd = true.
Proof.
  induction fuel as [|f IH]; intros q name bd Hq H; [discriminate H|]. cbn [jfind_placeholder] in H.
  destruct q as [|x r]; [discriminate H|]. inversion Hq as [|? ? Hx Hr]; subst.
  inversion Hx; subst.
  - eapply IH; eauto.
  - destruct (bstr_eqb nm name); [inversion H; subst; assumption|eapply IH; eauto].
  - eapply IH; [|exact H]. apply Forall_app. split; [exact Hr|]. apply Forall_app. split; [assumption|]. constructor; [apply mq_list; assumption|constructor].
  - eapply IH; [|exact H]. apply Forall_app. split; [exact Hr|]. constructor; [apply mq_list; assumption|constructor].
  - eapply IH; [|exact H]. apply Forall_app. split; assumption.
  - destruct x; try contradiction; eapply IH; eauto.
Qed.

Lemma find_plural_ok body var x : Forall mq_ok body -> jfind_plural body var = Some x ->
  exists p vn v cases dflt, x = NMsgPlural p vn v cases dflt /\ oke v = true.
Proof.
  induction body as [|y body IH]; intros Hb H; [discriminate H|]. inversion Hb as [|? ? Hy Hr]; subst. cbn [jfind_plural] in H.
  destruct y; try (apply IH; assumption).
  destruct (bstr_eqb varname var); [|apply IH; assumption]. inversion H; subst. inversion Hy; subst; [|contradiction]. eauto 10.
Qed.

Lemma lift_inv {A} (r : outcome A) st x st' : jlift r st = Ok (x, st') -> r = Ok x /\ st' = st.
Proof. unfold jlift. destruct r; intro H; inversion H; auto. Qed.

Fixpoint jmpart_ind' (P : jmpart -> Prop) (Hraw : forall t, P (JMRaw t)) (Hph : forall n, P (JMPh n))
  (Hpl : forall v cases, Forall (Forall P) cases -> P (JMPlural v cases)) (p : jmpart) : P p :=
  match p with
  | JMRaw t => Hraw t
  | JMPh n => Hph n
  | JMPlural v cases =>
      Hpl v cases ((fix go (cs : list (list jmpart)) : Forall (Forall P) cs :=
                      match cs with
                      | [] => Forall_nil _
                      | c :: r => Forall_cons _ ((fix go2 (ps : list jmpart) : Forall P ps :=
                                                    match ps with
                                                    | [] => Forall_nil _
                                                    | q :: qr => Forall_cons _ (jmpart_ind' P Hraw Hph Hpl q) (go2 qr)
                                                    end) c) (go r)
                      end) cases)
  end.

Definition part_post (body : list node) (p : jmpart) : Prop :=
  forall st st', scope_ok (j_scope st) -> called_ok fmt st -> buf_ok (j_buf st) -> jeval_part w body p st = Ok (tt, st') -> exists cs, spost st st' cs.

Lemma part_post_all body : Forall mq_ok body -> forall p, part_post body p.
Proof.
  intros Hbody. apply jmpart_ind'.
  - (* raw *) intros t st st' Hs Hk Hb H. cbn [jeval_part] in H. destruct (post_raw t st st' Hs Hk Hb H) as (cs & P). exists cs. exact P.
  - (* placeholder *) intros name st st' Hs Hk Hb H. cbn [jeval_part] in H. apply bind_inv in H. destruct H as (ph & st1 & H1 & H2).
    apply lift_inv in H1. destruct H1 as [Hf ->]. destruct ph as [phbody|]; [|discriminate H2].
    pose proof (find_ph_ok _ _ _ _ Hbody Hf) as Hc. destruct (IHs _ Hc st st' Hs Hk Hb H2) as (cs & P). exists cs. exact P.
  - (* plural *) intros var cases IHc st st' Hs Hk Hb H. cbn [jeval_part] in H.
    destruct (jfind_plural body var) as [x|] eqn:Ef; [|discriminate H].
    destruct (find_plural_ok _ _ _ Hbody Ef) as (p0 & vn & v & cs0 & dflt & -> & Hv). destruct (oke_some _ Hv) as (i & Hc).
    apply bind_inv in H. destruct H as (u1 & t1 & G1 & H). apply bind_inv in H. destruct H as (u2 & t2 & G2 & H).
    apply bind_inv in H. destruct H as (u3 & t3 & G3 & H). apply bind_inv in H. destruct H as (u4 & t4 & G4 & H).
    apply bind_inv in H. destruct H as (u5 & t5 & G5 & H). apply bind_inv in H. destruct H as (u6 & t6 & G6 & H).
    apply bind_inv in H. destruct H as (u7 & t7 & G7 & G8). units.
    jinv G1. jinv G2. jinv G4. unfold indent_inc in G5. jinv G5. unfold indent_dec in G7. jinv G7. jinv G8. ihe Hc G3.
    (* the parts of one case *)
    assert (Pp : forall ps sa sb, Forall (part_post body) ps -> scope_ok (j_scope sa) -> called_ok fmt sa -> buf_ok (j_buf sa) ->
              (fix parts_loop (ps : list jmpart) : J unit := match ps with [] => jret tt | q :: qr => jeval_part w body q ;;; parts_loop qr end) ps sa = Ok (tt, sb) ->
              exists c, spost sa sb c).
    { induction ps as [|q qr IHq]; intros sa sb Hps Hsa Hka Hba Hl.
      - jinv Hl. exists []. apply spost_nil; assumption.
      - inversion Hps as [|? ? Hq Hqr]; subst. apply bind_inv in Hl. destruct Hl as (v1 & sm & L1 & L2). units.
        destruct (Hq sa sm Hsa Hka Hba L1) as (c1 & P1). pose proof P1 as (E1 & C1 & S1 & B1 & K1).
        destruct (IHq sm sb Hqr S1 K1 ltac:(rewrite B1; exact Hba) L2) as (c2 & P2). exists (c1 ++ c2). eapply spost_trans; eauto. }
    (* the cases *)
    assert (Pc : forall cs1 n0 sa sb, Forall (Forall (part_post body)) cs1 -> scope_ok (j_scope sa) -> called_ok fmt sa -> buf_ok (j_buf sa) ->
              (fix cases_loop (i : N) (cs : list (list jmpart)) {struct cs} : J unit :=
                 match cs with
                 | [] => jret tt
                 | c :: cr =>
                     jsln [CText t_case; CNum (dec_of_N i); CText t_colon] ;;; indent_inc ;;;
                     (fix parts_loop (ps : list jmpart) : J unit := match ps with [] => jret tt | q :: qr => jeval_part w body q ;;; parts_loop qr end) c ;;;
                     jsln [CText t_break] ;;; indent_dec ;;; cases_loop (i + 1) cr
                 end) n0 cs1 sa = Ok (tt, sb) ->
              exists c, ext sa sb c /\ scope_ok (j_scope sb) /\ j_buf sb = j_buf sa /\ called_ok fmt sb /\
                forall m d s, label_ready m -> exists m', label_ready m' /\ emits md c m (KBlock (BSwitch d) :: s) m' (KBlock (BSwitch d) :: s) []).
    { induction cs1 as [|c1 cs1 IHc1]; intros n0 sa sb Hcs Hsa Hka Hba Hl.
      - jinv Hl. exists []. split; [apply ext_refl; reflexivity|]. repeat (split; [auto|]). intros m d s Hm. exists m. split; [exact Hm|apply emits_nil].
      - inversion Hcs as [|? ? Hc1 Hcs1]; subst.
        apply bind_inv in Hl. destruct Hl as (w1 & r1 & F1 & Hl). apply bind_inv in Hl. destruct Hl as (w2 & r2 & F2 & Hl).
        apply bind_inv in Hl. destruct Hl as (w3 & r3 & F3 & Hl). apply bind_inv in Hl. destruct Hl as (w4 & r4 & F4 & Hl).
        apply bind_inv in Hl. destruct Hl as (w5 & r5 & F5 & F6). units.
        jinv F1. unfold indent_inc in F2. jinv F2. jinv F4. unfold indent_dec in F5. jinv F5.
        match type of F3 with _ _ ?sx = Ok (tt, ?sy) =>
          destruct (Pp c1 sx sy Hc1 ltac:(proj; assumption) ltac:(unfold called_ok in *; proj; assumption) ltac:(proj; assumption) F3) as (cb & Eb & Cb & Sb & Bb & Kb) end. proj.
        match type of F6 with _ _ _ ?sx = _ =>
          destruct (IHc1 (n0 + 1) sx sb Hcs1 ltac:(proj; assumption) ltac:(unfold called_ok in *; proj; assumption) ltac:(proj; congruence) F6) as (cr & Er & Sr & Br & Kr & Rr) end. proj.
        eexists. split; [eapply ext_trans; [|exact Er]; eapply ext_w1; [reflexivity|]; eapply ext_upd; eapply ext_trans; [|exact Eb]; eapply ext_w1; [reflexivity|]; eapply ext_upd; apply ext_refl; reflexivity|].
        split; [exact Sr|]. split; [congruence|]. split; [exact Kr|].
        intros m d s Hm. destruct (Cb false (KBlock (BSwitch d) :: s)) as (eb & Qb). destruct (Rr (MStmt false) d s ltac:(right; eauto)) as (m' & Hm' & Qr).
        exists m'. split; [exact Hm'|]. norm_app2.
        eapply emits_cons0; [ssingle|]. eapply emits_cons0; [eapply emits_toks1; [vm_compute; reflexivity|destruct Hm as [->|[e0 ->]]; reflexivity|tail_solve]|].
        eapply emits_cons0; [apply emits_num_N|]. eapply emits_cons0; [ssingle|]. eapply emits_cons0; [ssingle|].
        eapply emits_app0; [exact Qb|]. eapply emits_cons0; [ssingle|]. eapply emits_cons0; [eapply emits_toks1; [vm_compute; reflexivity|reflexivity|tail_solve]|].
        eapply emits_cons0; [ssingle|]. exact Qr. }
    match type of G6 with _ _ _ ?sa = Ok (tt, ?sb) =>
      destruct (Pc cases 0 sa sb IHc ltac:(proj; congruence) ltac:(unfold called_ok in *; proj; assumption) ltac:(proj; congruence) G6) as (c6 & E6 & S6 & B6 & K6 & R6) end. proj.
    eexists. split; [|split; [|split; [keep|split; [keep|keep]]]].
    + eapply ext_upd. eapply ext_w1; [reflexivity|]. eapply ext_trans; [|exact E6]. ext_build.
    + intros e s. destruct (R6 MSwStart false s ltac:(left; reflexivity)) as (m6 & Hm6 & Q6). exists false.
      norm_app2. eapply emits_cons0; [ssingle|]. eapply emits_cons0; [ssingle|]. eapply emits_app0; [apply C|]. eapply emits_cons0; [ssingle|]. eapply emits_cons0; [ssingle|].
      eapply emits_app0; [exact Q6|]. eapply emits_cons0; [ssingle|]. eapply emits_cons0; [|ssingle].
      eapply emits_toks1; [vm_compute; reflexivity| |tail_solve]. destruct Hm6 as [->|[e6 ->]]; reflexivity.
Qed.

Lemma parts_post body ps : Forall mq_ok body -> forall st st', scope_ok (j_scope st) -> called_ok fmt st -> buf_ok (j_buf st) ->
  jeval_parts w body ps st = Ok (tt, st') -> exists cs, spost st st' cs.
Proof.
  intro Hb. induction ps as [|p ps IH]; intros st st' Hs Hk Hbf H; cbn [jeval_parts] in H.
  - jinv H. exists []. apply spost_nil; assumption.
  - apply bind_inv in H. destruct H as (u & st1 & H1 & H2). units.
    destruct (part_post_all body Hb p st st1 Hs Hk Hbf H1) as (c1 & P1). pose proof P1 as (E1 & C1 & S1 & B1 & K1).
    destruct (IH st1 st' S1 K1 ltac:(rewrite B1; exact Hbf) H2) as (c2 & P2). exists (c1 ++ c2). eapply spost_trans; eauto.
Qed.

Lemma post_msg id body : forallb (mq_chk oke (stmt_chk fmt fk) fk) body = true -> stmt_post0 (visit_msg o w id body).
Proof.
  intros Hc st st' Hs Hk Hb H.
  assert (Hbody : Forall mq_ok body). { rewrite forallb_forall in Hc. apply Forall_forall. intros x Hx. eapply mq_chk_ok. apply Hc. exact Hx. }
  unfold visit_msg in H.
  assert (G : (exists cs, spost st st' cs)).
  { destruct (o_msgs o) as [msgs|]; [destruct (assoc_n id msgs) as [parts|]|].
    - eapply parts_post; eauto.
    - eapply children_post; eauto.
    - eapply children_post; eauto. }
  destruct G as (cs & P). exists cs. exact P.
Qed.

Lemma stmt_lift (m : J unit) c : stmt_post0 m ->
  forall st st', scope_ok (j_scope st) -> called_ok fmt st -> buf_ok (j_buf st) -> m (jset_cur c st) = Ok (tt, st') ->
  exists cs, ext st st' cs /\ stmtC fmt cs /\ scope_ok (j_scope st') /\ j_buf st' = j_buf st /\ called_ok fmt st'.
Proof. intros P st st' Hs Hk Hb H. destruct (P (jset_cur c st) st' Hs Hk Hb H) as (cs & E & C & S & B & K). exists cs. auto. Qed.

Lemma stmt_body n : stmt_chk fmt (S fk) n = true -> stmt_post0 (jwalk_body o w n).
Proof.
  intros Hc st st' Hs Hk Hb H. unfold jwalk_body in H. apply bind_inv in H. destruct H as (st0 & st1 & H0 & H). apply get_inv in H0. destruct H0; subst.
  apply bind_inv in H. destruct H as (u & st1 & H0 & H). apply mod_inv in H0. subst st1.
  destruct n; try discriminate Hc; cbn [jwalk_node] in H; cbn [stmt_chk] in Hc; fold oke in Hc.
  - (* list *) exact (stmt_lift _ _ (post_nlist _ Hc) st st' Hs Hk Hb H).
  - (* raw text *) exact (stmt_lift _ _ (post_raw _) st st' Hs Hk Hb H).
  - (* print *) apply andb_prop in Hc. destruct Hc as [Hc H3]. apply andb_prop in Hc. destruct Hc as [H1 H2].
    exact (stmt_lift _ _ (post_print _ _ H1 H2 H3) st st' Hs Hk Hb H).
  - (* css *) exact (stmt_lift _ _ (post_css _ _ Hc) st st' Hs Hk Hb H).
  - (* log *) exact (stmt_lift _ _ (post_log _ Hc) st st' Hs Hk Hb H).
  - (* debugger *) exact (stmt_lift _ _ post_debugger st st' Hs Hk Hb H).
  - (* if *) apply andb_prop in Hc. destruct Hc as [H1 H2]. exact (stmt_lift _ _ (post_if _ H1 H2) st st' Hs Hk Hb H).
  - (* for *)
    apply andb_prop in Hc. destruct Hc as [Hc H4]. apply andb_prop in Hc. destruct Hc as [Hc H3]. apply andb_prop in Hc. destruct Hc as [H1 H2].
    match type of H2 with for_list_shape _ ?l = _ => destruct l end; cbn [for_list_shape] in H2; try exact (stmt_lift _ _ (post_foreach _ _ _ _ H1 H2 H3 H4) st st' Hs Hk Hb H).
    destruct (bstr_eqb name jn_range); [exact (stmt_lift _ _ (post_for_range _ _ _ _ H1 H2 H3 H4) st st' Hs Hk Hb H)|exact (stmt_lift _ _ (post_foreach _ _ _ _ H1 H2 H3 H4) st st' Hs Hk Hb H)].
  - (* switch *)
    apply andb_prop in Hc. destruct Hc as [Hc H3]. apply andb_prop in Hc. destruct Hc as [H1 H2].
    exact (stmt_lift _ _ (post_switch _ _ H1 H2 H3) st st' Hs Hk Hb H).
  - (* call *)
    apply andb_prop in Hc. destruct Hc as [Hc H4]. apply andb_prop in Hc. destruct Hc as [Hc H3]. apply andb_prop in Hc. destruct Hc as [H1 H2].
    exact (stmt_lift _ _ (post_call _ _ _ _ H1 H2 H3 H4) st st' Hs Hk Hb H).
  - (* let value *) apply andb_prop in Hc. destruct Hc as [H1 H2]. exact (stmt_lift _ _ (post_letvalue _ _ H1 H2) st st' Hs Hk Hb H).
  - (* let content *) apply andb_prop in Hc. destruct Hc as [H1 H2]. exact (stmt_lift _ _ (post_letcontent _ _ H1 H2) st st' Hs Hk Hb H).
  - (* msg *) exact (stmt_lift _ _ (post_msg _ _ Hc) st st' Hs Hk Hb H).
  - (* msg html tag *) exact (stmt_lift _ _ (post_raw _) st st' Hs Hk Hb H).
Qed.
End Stmt.

(* every command node of a checked file, at every fuel of the walker *)
Theorem stmt_walk o : forall fk n, stmt_chk (o_fmt o) fk n = true -> forall g, stmt_post0 o (jwalk o g n).
Proof.
  induction fk as [|fk IH]; intros n Hc g; [discriminate Hc|].
  destruct g as [|g]; [intros st st' _ _ _ H; discriminate H|].
  change (jwalk o (S g)) with (jwalk_body o (jwalk o g)). apply stmt_body with (fk := fk); [| |exact Hc].
  - intros n' i' Hc'. exact (expr_walk o fk n' i' Hc' g).
  - intros n' Hc'. apply IH. exact Hc'.
Qed.
