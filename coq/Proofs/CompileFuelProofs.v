(* C13: the recursion budgets of the tree walkers of Model/Compile.v suffice:
   the explicit out-of-fuel outcomes of the checker, of SetGlobals and of the
   message walk are never returned for the budget [walk_fuel] that compile uses. *)
From Coq Require Import Lia.
From Soy Require Import Model.Bytes Model.Num Model.Values Model.Outcome Model.Ast Model.MsgId Model.Compile.
Open Scope N_scope.

Definition hl := fix hl (l : list node) : nat := match l with [] => O | x :: r => Nat.max (node_height x) (hl r) end.
Definition hm := fix hm (l : list (bstr * node)) : nat := match l with [] => O | (_, x) :: r => Nat.max (node_height x) (hm r) end.

Lemma hl_In c l : In c l -> (node_height c <= hl l)%nat.
Proof.
  induction l as [|x r IH]; cbn [In hl]; [intros []|]. intros [->|H]; [lia|]. specialize (IH H). lia.
Qed.
Lemma hm_In k c l : In (k, c) l -> (node_height c <= hm l)%nat.
Proof.
  induction l as [|[k' x] r IH]; cbn [In hm]; [intros []|]. intros [[= -> ->]|H]; [lia|]. specialize (IH H). lia.
Qed.

Lemma assoc_s_In' {A} k (v : A) l : assoc_s k l = Some v -> exists k', In (k', v) l.
Proof.
  induction l as [|[k' v'] r IH]; cbn [assoc_s]; [discriminate|].
  destruct (bstr_eqb k k'); [intros [= ->]; exists k'; left; reflexivity|].
  intros H. destruct (IH H) as (k2 & Hi). exists k2. right. exact Hi.
Qed.

Lemma map_values_In ko items c : In c (map_values ko items) -> exists k, In (k, c) items.
Proof.
  unfold map_values. intros H. apply in_flat_map in H. destruct H as (k & _ & H).
  destruct (assoc_s k items) as [v|] eqn:E; [|destruct H]. destruct H as [<-|[]]. eapply assoc_s_In', E.
Qed.

(* the measure that decreases from a node to its children: twice the node_height,
   one less for a ListNode (the bodies of plural cases are wrapped in one) *)
Definition is_list (n : node) : bool := match n with NList _ _ => true | _ => false end.
Definition rank (n : node) : nat := (2 * node_height n - (if is_list n then 1 else 0))%nat.

Lemma height_pos n : (1 <= node_height n)%nat.
Proof. destruct n; cbn [node_height]; lia. Qed.

Lemma rank_le n : (rank n <= 2 * node_height n)%nat.
Proof. unfold rank. lia. Qed.

Lemma rank_lt_walk_fuel n : (rank n < walk_fuel n)%nat.
Proof. unfold walk_fuel. pose proof (rank_le n). lia. Qed.

Ltac bound_children :=
  repeat match goal with
         | H : In _ (_ :: _) |- _ => destruct H as [<-|H]
         | H : In _ (_ ++ _) |- _ => apply in_app_or in H; destruct H as [H|H]
         | H : In _ [] |- _ => destruct H
         | H : In _ (olist ?o) |- _ => destruct o; cbn [olist] in H
         | H : In ?c (map_values _ ?items) |- _ =>
             let k := fresh "k" in apply map_values_In in H; destruct H as (k & H); apply hm_In in H
         | H : In ?c ?l |- _ => apply hl_In in H
         end.

Lemma children_rank ko n c : In c (children ko n) -> (rank c < rank n)%nat.
Proof.
  intros H. pose proof (height_pos c) as Hc. pose proof (rank_le c) as Hr.
  destruct n; cbn [children] in H; try (destruct H; fail);
    bound_children; unfold rank in *; cbn [is_list node_height] in *; fold hl in *; fold hm in *;
    repeat match goal with |- context [if is_list ?x then _ else _] => destruct (is_list x) end; lia.
Qed.

(* ---- the checker ---- *)
Definition nofuel (r : check_err + tcs) : Prop := r <> inl CKOutOfFuel.

Section CheckerFuel.
  Variable ko : korder.
  Variable lk : bstr -> option template.
  Variable params : list bstr.

  Lemma check_seq_nofuel w l : (forall st c, In c l -> nofuel (w st c)) -> forall st, nofuel (check_seq w st l).
  Proof.
    induction l as [|n r IH]; intros Hw st; cbn [check_seq]; [discriminate|].
    destruct (w st n) as [e|st'] eqn:E.
    - intros [= ->]. apply (Hw st n (or_introl eq_refl)). exact E.
    - apply IH. intros st2 c Hc. apply Hw. right. exact Hc.
  Qed.

  Lemma pop_block_nofuel k st : nofuel (pop_block k st).
  Proof. unfold pop_block, nofuel. destruct (map vb_name _); discriminate. Qed.

  Lemma check_block_nofuel w n : (forall st c, In c (children ko n) -> nofuel (w st c)) -> forall st, nofuel (check_block ko w st n).
  Proof.
    intros Hw st. unfold check_block. destruct (check_seq w st (children ko n)) as [e|st'] eqn:E.
    - intros [= ->]. apply (check_seq_nofuel w _ Hw st). exact E.
    - apply pop_block_nofuel.
  Qed.

  Lemma visit_key_nofuel st key : nofuel (visit_key params st key).
  Proof.
    unfold visit_key, nofuel. destruct (bstr_eqb key k_ij); [discriminate|].
    destruct (mark_used key (tc_vars st)); [discriminate|]. destruct (mem_s key params); discriminate.
  Qed.

  Lemma check_call_nofuel st p name alldata data ps : nofuel (check_call lk params st p name alldata data ps).
  Proof.
    unfold check_call, nofuel. destruct (lk name) as [callee|]; [|discriminate].
    destruct (call_param_keys ps); [|discriminate]. destruct (filter _ _); [|discriminate].
    destruct data; [discriminate|]. destruct (filter _ _); discriminate.
  Qed.

  Lemma check_body_nofuel w n : (forall st c, In c (children ko n) -> nofuel (w st c)) ->
    forall st, nofuel (check_body ko lk params w st n).
  Proof.
    intros Hw st. unfold check_body.
    destruct n; try apply (check_block_nofuel w _ Hw).
    - (* NFunc *) destruct (check_loop_func st name args) as [e|] eqn:E; [|apply (check_block_nofuel w _ Hw)].
      intros [= ->]. unfold check_loop_func in E. destruct (_ || _); [|discriminate].
      destruct args as [|a [|a2 r]]; [discriminate| |destruct a; try discriminate; destruct access; discriminate].
      destruct a; try discriminate. destruct access; [|discriminate].
      destruct (existsb _ _); discriminate.
    - (* NDataRef *) destruct (visit_key params st key) as [e|st'] eqn:E; [intros [= ->]; apply (visit_key_nofuel st key E) | apply (check_block_nofuel w _ Hw)].
    - (* NFor *) cbn [children] in Hw.
      match goal with |- nofuel (match w st ?a with _ => _ end) =>
        destruct (w st a) as [e1|st1] eqn:E1; [intros [= ->]; apply (Hw st a (or_introl eq_refl) E1)|] end.
      match goal with |- nofuel (match w ?s ?a with _ => _ end) =>
        destruct (w s a) as [e2|st2] eqn:E2; [intros [= ->]; apply (Hw s a (or_intror (or_introl eq_refl)) E2)|] end.
      match goal with |- nofuel (match ?o with Some _ => _ | None => _ end) => destruct o end; [|discriminate].
      apply Hw. right. right. left. reflexivity.
    - (* NCall *)
      match goal with |- nofuel (match ?c with _ => _ end) =>
        destruct c as [e|st'] eqn:E; [intros [= ->]; apply (check_call_nofuel _ _ _ _ _ _ E) | apply (check_block_nofuel w _ Hw)] end.
    - (* NLetValue *) destruct (bstr_eqb name k_ij); [discriminate|].
      match goal with |- nofuel (match ?c with _ => _ end) =>
        destruct c as [e'|st'] eqn:E; [intros [= ->]; apply (check_block_nofuel w _ Hw st E) | discriminate] end.
    - (* NLetContent *) destruct (bstr_eqb name k_ij); [discriminate|].
      match goal with |- nofuel (match ?c with _ => _ end) =>
        destruct c as [e'|st'] eqn:E; [intros [= ->]; apply (check_block_nofuel w _ Hw st E) | discriminate] end.
    - (* NHeaderParam *) discriminate.
  Qed.

  Lemma check_node_nofuel fuel : forall n, (rank n < fuel)%nat -> forall st, nofuel (check_node ko lk params fuel st n).
  Proof.
    induction fuel as [|f IH]; intros n Hr st; [lia|]. cbn [check_node].
    apply check_body_nofuel. intros st' c Hc. apply IH. pose proof (children_rank ko n c Hc). lia.
  Qed.
End CheckerFuel.

Theorem check_template_fuel ko lk t : check_template ko lk t <> Some CKOutOfFuel.
Proof.
  unfold check_template. destruct (check_node _ _ _ _ _ _) as [e|st] eqn:E.
  - intros [= ->]. eapply check_node_nofuel; [apply rank_lt_walk_fuel | exact E].
  - destruct (filter _ _); discriminate.
Qed.

(* ---- SetGlobals ---- *)
Section GlobalsFuel.
  Variable ko : korder.
  Variable globals : gmap.
  Lemma globals_seq_fuel w l : (forall c, In c l -> w c <> Some GOutOfFuel) -> globals_seq w l <> Some GOutOfFuel.
  Proof.
    induction l as [|n r IH]; intros Hw; cbn [globals_seq]; [discriminate|].
    destruct (w n) as [e|] eqn:E; [intros [= ->]; apply (Hw n (or_introl eq_refl) E)|].
    apply IH. intros c Hc. apply Hw. right. exact Hc.
  Qed.
  Lemma globals_node_fuel fuel : forall n, (rank n < fuel)%nat -> globals_node ko globals fuel n <> Some GOutOfFuel.
  Proof.
    induction fuel as [|f IH]; intros n Hr; [lia|]. cbn [globals_node]. unfold globals_body.
    assert (H : globals_seq (globals_node ko globals f) (children ko n) <> Some GOutOfFuel).
    { apply globals_seq_fuel. intros c Hc. apply IH. pose proof (children_rank ko n c Hc). lia. }
    destruct n; try exact H. destruct (assoc_s name globals); discriminate.
  Qed.
End GlobalsFuel.

Theorem set_globals_template_fuel ko globals t : set_globals_template ko globals t <> Some GOutOfFuel.
Proof. apply globals_node_fuel, rank_lt_walk_fuel. Qed.

(* ---- ProcessMessages: every entry is the result of SetPlaceholdersAndID on a message ---- *)
Section MsgsFuel.
  Variable ns : node -> bstr.
  Variables ko pho : korder.
  Definition from_msg (x : outcome (N * list npart)) : Prop :=
    exists meaning desc body, x = process_msg ns pho meaning desc body.
  Lemma msgs_seq_fuel w l : (forall c x, In c l -> In x (w c) -> from_msg x) -> forall x, In x (msgs_seq w l) -> from_msg x.
  Proof.
    induction l as [|n r IH]; intros Hw x; cbn [msgs_seq]; [intros []|]. intros H. apply in_app_or in H.
    destruct H as [H|H]; [apply (Hw n x (or_introl eq_refl) H)|]. apply IH; [|exact H]. intros c y Hc. apply Hw. right. exact Hc.
  Qed.
  Lemma msgs_node_fuel fuel : forall n, (rank n < fuel)%nat -> forall x, In x (msgs_node ns ko pho fuel n) -> from_msg x.
  Proof.
    induction fuel as [|f IH]; intros n Hr x; [lia|]. cbn [msgs_node]. unfold msgs_body.
    assert (H : In x (msgs_seq (msgs_node ns ko pho f) (children ko n)) -> from_msg x).
    { apply msgs_seq_fuel. intros c y Hc. apply IH. pose proof (children_rank ko n c Hc). lia. }
    destruct n; try exact H. intros [<-|[]]. eexists _, _, _. reflexivity.
  Qed.
End MsgsFuel.

Theorem template_msgs_fuel ns ko pho t x : In x (template_msgs ns ko pho t) -> from_msg ns pho x.
Proof. apply msgs_node_fuel, rank_lt_walk_fuel. Qed.
