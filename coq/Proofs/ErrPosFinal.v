(* C19, parse half: scanner model and parser model composed -- parse_error_position.

   For EVERY input s: if the scan of s returns the items ts and the model of parse.SoyFile on ts
   returns an error, then the error is reported
     - at the item the parser received last, or at the one received just before it (the window of
       Proofs/ErrPosWindow*.v: every errorf / unexpected / expect site), an item the scanner sent
       for s (or the zero item of its closed channel): it lies inside s and its line, as
       lexer.lineNumber computes it, is between 1 and the number of lines of s;
     - if that item is an error item (the scanner could not go on): it is the LAST item of the scan
       and stands at the cursor where scanning stopped; for an unterminated soydoc / block comment /
       string / tag that is the end of the input, i.e. the last line;
     - or (class "quoted:...") at the last or last-but-one item the scanner of a quoted attribute
       expression delivered, placed in the enclosing file (position <= |s|) at
       base + offset in the expression, or -- without enclosing text -- in the expression itself. *)
From Soy Require Import Model.Bytes Model.Utf8 Model.Outcome Model.Num Model.Values Model.Ast Model.Token
  Model.Lexer Model.RawText Model.ExprParser Model.Parser Generated.Tables Model.Interp Spec.ErrPos Spec.LexSpec
  Proofs.LexerPrim Proofs.LexerStates Proofs.LexerProofs Proofs.ErrTokProofs Proofs.LexErrPos Proofs.LexEofPos
  Proofs.LexFinalPos Proofs.ErrPosWindow Proofs.ErrPosWindowCmd.
From Coq Require Import ZifyBool ZifyNat ZifyN Lia List.
Import ListNotations.
Open Scope N_scope.

Lemma itm_cases ts k : itm ts k = zero_tok \/ In (itm ts k) ts.
Proof.
  destruct k as [|i]; [left; reflexivity|]. cbn [itm].
  destruct (Nat.ltb_spec i (length ts)) as [H|H]; [right; apply nth_In; exact H|left; apply nth_overflow; exact H].
Qed.

Lemma werr_cases ts t st : werr ts t st -> t = zero_tok \/ In t ts.
Proof. intros [->| ->]; apply itm_cases. Qed.

Lemma final_last_in ts : final_last ts -> forall t, In t ts -> is_final (t_typ t) = true -> exists pre, ts = pre ++ [t].
Proof.
  induction ts as [|a r IH]; intros Hf t Hin Ht; [contradiction|]. cbn in Hf. destruct Hf as [Ha Hr].
  destruct Hin as [->|Hin].
  - rewrite (Ha Ht). exists []. reflexivity.
  - destruct (IH Hr t Hin Ht) as (pre & ->). exists (a :: pre). reflexivity.
Qed.

Definition error_code_agrees : pit_Error = itemError := eq_refl.

Section Compose.
Variable uni_letter uni_digit : Z -> bool.
Hypothesis letter_eof : uni_letter (-1)%Z = false.
Hypothesis digit_eof : uni_digit (-1)%Z = false.

(* what is known of an item the parser complains about, given that it is one the scanner sent for s *)
Definition item_facts (s : bstr) (ts : list tok) (t : tok) : Prop :=
  (t = zero_tok \/ In t ts) /\
  t_pos t <= N.of_nat (length s) /\ 1 <= line_at s (t_pos t) <= lines s /\
  (t_typ t = itemError ->
     (exists pre, ts = pre ++ [t]) /\
     (exists fuel l, lex_run uni_letter uni_digit fuel false s = Ok l /\ t_pos t = Z.to_N (l_pos l)) /\
     (eof_class (t_val t) = true -> t_pos t = N.of_nat (length s) /\ line_at s (t_pos t) = lines s)).

Lemma scanned_item_facts fuel s ts t :
  lex_items uni_letter uni_digit fuel false s = Ok ts -> (t = zero_tok \/ In t ts) -> item_facts s ts t.
Proof.
  intros Hlex Hin. unfold item_facts.
  pose proof (lex_items_scan_ok _ _ letter_eof digit_eof _ _ _ _ Hlex) as (Hall & Hends & Hfl).
  assert (Hpos : t_pos t <= N.of_nat (length s)).
  { destruct Hin as [->|Hin]; [cbn; lia|]. rewrite Forall_forall in Hall. exact (proj1 (Hall t Hin)). }
  split; [exact Hin|]. split; [exact Hpos|]. split; [apply line_at_inside|].
  intros Hty.
  destruct Hin as [->|Hin]; [vm_compute in Hty; discriminate|].
  assert (Hfin : is_final (t_typ t) = true) by (rewrite Hty; reflexivity).
  destruct (final_last_in ts Hfl t Hin Hfin) as (pre & Ets).
  split; [exists pre; exact Ets|].
  unfold lex_items in Hlex. destruct (lex_run uni_letter uni_digit fuel false s) as [l| | | | |] eqn:El; cbn in Hlex; try discriminate.
  injection Hlex as Hts.
  destruct (scan_final_item _ _ letter_eof digit_eof 0%Z ltac:(lia) fuel false s l El) as (it & rest & Ho & Hp & Hb & He).
  assert (Eit : it = t).
  { rewrite Ho in Hts. cbn [rev] in Hts. rewrite Ets in Hts. apply app_inj_tail in Hts. exact (proj2 Hts). }
  subst it. rewrite Z.add_0_l in Hp.
  split; [exists fuel, l; split; [exact El|exact Hp]|].
  intros Hc. specialize (He Hty Hc).
  assert (Ep : t_pos t = N.of_nat (length s)) by lia.
  split; [exact Ep|]. rewrite Ep. exact (proj1 (end_of_input_line s 0 ltac:(lia))).
Qed.

(* ---- parse_error_position ---- *)
Theorem parse_error_position fuel s ts lexq unq t c st :
  lex_items uni_letter uni_digit fuel false s = Ok ts ->
  let out := soy_file (N.of_nat (length s)) lexq unq ts in
  po_result out = PErr t c st ->
  (werr ts t st /\ item_facts s ts t)
  \/ quoted_window (N.of_nat (length s)) lexq t c (po_scans out).
Proof.
  intros Hlex out Herr. destruct (soy_file_error_window _ _ _ _ _ _ _ Herr) as [Hw|Hq]; [left|right; exact Hq].
  split; [exact Hw|]. eapply scanned_item_facts; [exact Hlex|]. eapply werr_cases; exact Hw.
Qed.

(* the line an error of the file's own scanner/parser is reported on always lies inside the file *)
Corollary parse_error_line_inside fuel s ts lexq unq t c st :
  lex_items uni_letter uni_digit fuel false s = Ok ts ->
  po_result (soy_file (N.of_nat (length s)) lexq unq ts) = PErr t c st ->
  forall src, 1 <= line_at src (t_pos t) <= lines src.
Proof. intros _ _ src. apply line_at_inside. Qed.
End Compose.

(* a quoted attribute expression: where its items stand.  The sub-scanner's item at offset p of the
   expression text is placed at base + p; an error complaining about it is reported there (the model
   turns a position beyond the text into the slice panic of lineNumber, never into an error) *)
Lemma shifted_item_pos base (lexq : bstr -> list tok) str k :
  itm (map (shift_tok base) (lexq str)) k = zero_tok \/
  exists it, In it (lexq str) /\ itm (map (shift_tok base) (lexq str)) k = shift_tok base it /\
             t_pos (shift_tok base it) = base + t_pos it.
Proof.
  destruct (itm_cases (map (shift_tok base) (lexq str)) k) as [H|H]; [left; exact H|right].
  apply in_map_iff in H. destruct H as (it & E & Hin). exists it. split; [exact Hin|]. split; [symmetry; exact E|reflexivity].
Qed.

Theorem quoted_error_position inlen lexq t c scans :
  quoted_window inlen lexq t c scans ->
  exists str base,
    (t = zero_tok \/ exists it, In it (lexq str) /\ t = shift_tok base it /\ t_pos t = base + t_pos it) /\
    (t_pos t <= inlen \/ (base = 0 /\ t_pos t <= N.of_nat (length str))) /\
    forall src, 1 <= line_at src (t_pos t) <= lines src.
Proof.
  intros (_ & str & base & sr & _ & Ht & Hpos). exists str, base.
  split; [|split; [exact Hpos|intros; apply line_at_inside]].
  assert (Hk : exists k, t = itm (map (shift_tok base) (lexq str)) k) by (destruct Ht as [Ht|Ht]; eauto).
  destruct Hk as (k & Ek).
  destruct (shifted_item_pos base lexq str k) as [E|(it & Hin & E & Ep)].
  - left. rewrite Ek. exact E.
  - right. exists it. split; [exact Hin|]. split; [rewrite Ek; exact E|rewrite Ek, E; exact Ep].
Qed.
