(* C05, lexer half: the scanner is total and linear.  The per-state progress lemmas
   (LexerStates, LexerLoops, LexerText, LexerHeader, LexerSoyDoc) are assembled into
   [step_ok]; [run_total] is the induction on the potential. *)
From Soy Require Import Model.Bytes Model.Utf8 Model.Outcome Model.Token Generated.Tables Model.Lexer Spec.LexSpec
  Proofs.LexerPrim Proofs.LexerStates Proofs.LexerLoops Proofs.LexerText Proofs.LexerHeader Proofs.LexerSoyDoc.
From Coq Require Import ZifyBool ZifyNat ZifyN Lia.
Open Scope Z_scope.

Section Init.
Variable inp : bstr.
Notation ilen := (Z.of_nat (length inp)).

Lemma phi_ticks st l : wf inp l -> l_ticks l <= phi inp st l.
Proof. unfold wf, phi. intros H. destruct st; cbn [rank]; lia. Qed.

Lemma phi_pos st l : wf inp l -> st = LDone \/ l_ticks l + 12 <= phi inp st l.
Proof. unfold wf, phi. intros H. destruct st; cbn [rank]; try (right; lia). left; reflexivity. Qed.

Lemma init_inv expr_mode : inv inp (entry_state expr_mode) lex_init.
Proof.
  unfold inv, wf, lex_init. cbn [l_pos l_start]. repeat split; try lia; destruct expr_mode; discriminate.
Qed.

Lemma init_phi expr_mode : phi inp (entry_state expr_mode) lex_init <= 40 * ilen + 24.
Proof. destruct expr_mode; unfold phi, lex_init; cbn [entry_state rank l_ticks l_pos]; lia. Qed.

End Init.

Section Total.
Variable uni_letter uni_digit : Z -> bool.
Hypothesis letter_eof : uni_letter (-1) = false.
Hypothesis digit_eof : uni_digit (-1) = false.
Variable inp : bstr.
Notation ilen := (Z.of_nat (length inp)).
Variable base : Z.
Hypothesis base_nonneg : 0 <= base.

(* one progress lemma per state function *)
Lemma step_ok st l : inv inp st l -> st <> LDone ->
  okp (step uni_letter uni_digit inp ilen base st l) (step_post inp st l).
Proof.
  intros Hi Hst. destruct st; cbn [step]; try congruence.
  - apply lex_text_ok; assumption.
  - apply lex_left_delim_ok; assumption.
  - apply lex_right_delim_ok; assumption.
  - apply lex_right_delim_end_ok; assumption.
  - apply lex_begin_tag_ok; assumption.
  - apply lex_inside_tag_ok; assumption.
  - apply lex_soydoc_ok; assumption.
  - apply lex_line_comment_ok; assumption.
  - apply lex_block_comment_ok; assumption.
  - apply lex_string_ok; assumption.
  - apply lex_ident_ok; assumption.
  - apply lex_header_param_ok; assumption.
  - apply lex_css_ok; assumption.
  - apply lex_literal_ok; assumption.
  - apply lex_number_ok; assumption.
Qed.



(* the run: from any state satisfying its invariant, a budget of phi - ticks steps suffices; the scan ends
   in the nil state having sent an EOF or error item last, and the total work stays below phi *)
Lemma run_total : forall fuel st l, inv inp st l -> phi inp st l - l_ticks l <= Z.of_nat fuel ->
  okp (run uni_letter uni_digit inp ilen base fuel st l)
      (fun l' => done_ok l' /\ l_ticks l' <= phi inp st l /\ wf inp l').
Proof.
  induction fuel as [|f IH]; intros st l Hi Hf.
  - destruct (phi_pos inp st l (proj1 Hi)) as [->|Hp]; [|lia].
    cbn. destruct Hi as (Hw & _ & Hd). split; [apply Hd; reflexivity|split; [unfold phi; lia|exact Hw]].
  - destruct st;
      try (cbn [run];
           eapply okp_bind; [apply step_ok; [assumption|discriminate]|];
           intros [st' l'] (Hi' & Hphi & Ht);
           eapply okp_weaken; [apply IH; [exact Hi'|lia]|];
           intros l'' (Hd & Htk & Hw); split; [exact Hd|split; [lia|exact Hw]]).
    cbn. destruct Hi as (Hw & _ & Hd). split; [apply Hd; reflexivity|split; [unfold phi; lia|exact Hw]].
Qed.



End Total.

Lemma done_ok_ends l : done_ok l -> ends_scan (rev (l_out l)).
Proof.
  intros (it & rest & Ho & Ht). rewrite Ho. cbn [rev]. exists (rev rest), it. split; [reflexivity|exact Ht].
Qed.

(* lex_total_linear: for EVERY byte string, in both entry modes (and for the nested scanner of
   parseQuotedExpr at any offset base >= 0), the scanner run with the budget 40 + 40*|s| returns
   normally -- never Crash, Diverge, OutOfFuel or OutOfModel -- having sent a list of items whose
   last one is EOF or an error item, and the work done (calls of next() plus bytes scanned by
   strings.Index) is at most 40*|s| + 24.  The unicode classes are arbitrary predicates that are
   false of eof. *)
Theorem lex_total_linear (uni_letter uni_digit : Z -> bool) :
  uni_letter (-1) = false -> uni_digit (-1) = false ->
  forall (base : Z), 0 <= base -> forall (expr_mode : bool) (s : bstr),
  exists l, lex_run_at uni_letter uni_digit base (lex_budget s) expr_mode s = Ok l /\
            ends_scan (rev (l_out l)) /\ l_ticks l <= 40 * Z.of_nat (length s) + 24.
Proof.
  intros Hl Hd base Hb expr_mode s. unfold lex_run_at.
  pose proof (run_total uni_letter uni_digit Hl Hd s base Hb (lex_budget s) (entry_state expr_mode) lex_init
                (init_inv s expr_mode)) as H.
  pose proof (init_phi s expr_mode) as Hphi.
  assert (Hf : phi s (entry_state expr_mode) lex_init - l_ticks lex_init <= Z.of_nat (lex_budget s)).
  { unfold lex_budget. cbn [l_ticks lex_init]. lia. }
  specialize (H Hf).
  destruct (run uni_letter uni_digit s (Z.of_nat (length s)) base (lex_budget s) (entry_state expr_mode) lex_init) as [l| | | | |];
    cbn in H; try contradiction.
  exists l. destruct H as (Hdone & Ht & _). split; [reflexivity|]. split; [apply done_ok_ends; exact Hdone|lia].
Qed.

(* the same for the item list, and for the instance the model runner executes *)
Corollary lex_items_total (uni_letter uni_digit : Z -> bool) :
  uni_letter (-1) = false -> uni_digit (-1) = false ->
  forall (expr_mode : bool) (s : bstr),
  exists ts, lex_items uni_letter uni_digit (lex_budget s) expr_mode s = Ok ts /\ ends_scan ts.
Proof.
  intros Hl Hd expr_mode s. destruct (lex_total_linear _ _ Hl Hd 0 ltac:(lia) expr_mode s) as (l & Hr & He & _).
  exists (rev (l_out l)). unfold lex_items, lex_run. rewrite Hr. cbn. split; [reflexivity|exact He].
Qed.

Lemma tables_eof : is_letter_tbl (-1) = false /\ is_digit_tbl (-1) = false.
Proof. vm_compute. split; reflexivity. Qed.

Theorem lex_tbl_total_linear : forall expr_mode, scanner_total_linear (lex_items_tbl expr_mode) 40.
Proof.
  intros expr_mode s. destruct tables_eof as [Hl Hd].
  destruct (lex_total_linear _ _ Hl Hd 0 ltac:(lia) expr_mode s) as (l & Hr & He & Ht).
  exists (rev (l_out l)), (l_ticks l). unfold lex_items_tbl, lex_run.
  rewrite Hr. cbn. split; [reflexivity|]. split; [exact He|lia].
Qed.
