(* C05, lexer half: the scanner is total and linear.  The per-state progress lemmas
   (LexerStates, LexerLoops, LexerText, LexerHeader, LexerSoyDoc) are assembled into
   [step_ok]; [run_total] is the induction on the potential. *)
From Soy Require Import Model.Bytes Model.Utf8 Model.Outcome Model.Token Generated.Tables Model.Lexer Spec.LexSpec
  Proofs.LexerPrim Proofs.LexerStates Proofs.LexerLoops Proofs.LexerText Proofs.LexerHeader Proofs.LexerSoyDoc.
From Coq Require Import ZifyBool ZifyNat ZifyN Lia.
Open Scope Z_scope.

Section Init.
Variable inp : bstr.
Notation ilen := (Z.of_nat (length inp)).
Variable base : Z.

Lemma phi_ticks st l : wf inp l -> l_ticks l <= phi inp st l.
Proof. unfold wf, phi. intros H. destruct st; cbn [rank]; lia. Qed.

Lemma phi_pos st l : wf inp l -> st = LDone \/ l_ticks l + 12 <= phi inp st l.
Proof. unfold wf, phi. intros H. destruct st; cbn [rank]; try (right; lia). left; reflexivity. Qed.

Lemma init_inv expr_mode : inv inp base (entry_state expr_mode) lex_init.
Proof.
  unfold inv, wf, lex_init. cbn [l_pos l_start l_out]. repeat split; try lia.
  - destruct expr_mode; constructor.
  - destruct expr_mode; discriminate.
Qed.

Lemma init_phi expr_mode : phi inp (entry_state expr_mode) lex_init <= 40 * ilen + 24.
Proof. destruct expr_mode; unfold phi, lex_init; cbn [entry_state rank l_ticks l_pos]; lia. Qed.

End Init.

(* ---------- what the invariant says about the finished item list ---------- *)

(* an EOF or error item is the last item sent *)
Fixpoint final_last (ts : list tok) : Prop :=
  match ts with
  | [] => True
  | t :: r => (is_final (t_typ t) = true -> r = []) /\ final_last r
  end.

(* the claim about a finished scan, on the items in the order they were sent *)
Definition scan_ok (lim : N) (ts : list tok) : Prop :=
  Forall (item_ok lim) ts /\ ends_scan ts /\ final_last ts.

Lemma final_last_plain lim (pre : list tok) it : Forall (plain_ok lim) pre -> final_last (pre ++ [it]).
Proof.
  induction pre as [|a pre IH]; intros H; cbn.
  - split; [reflexivity|exact I].
  - inversion H as [|? ? Ha Hp]; subst. split; [|apply IH; exact Hp].
    destruct Ha as [_ Ha]. rewrite Ha. discriminate.
Qed.

Lemma items_ok_scan lim out : items_ok lim true out -> scan_ok lim (rev out).
Proof.
  unfold items_ok. destruct out as [|it rest]; [contradiction|]. intros (Hi & Hf & Hr). cbn [rev].
  assert (Hrev : Forall (plain_ok lim) (rev rest)).
  { apply Forall_forall. intros x Hx. rewrite Forall_forall in Hr. apply Hr. apply in_rev. exact Hx. }
  split; [|split].
  - apply Forall_app. split; [|constructor; [exact Hi|constructor]].
    eapply Forall_impl; [|exact Hrev]. intros a [Ha _]. exact Ha.
  - exists (rev rest), it. split; [reflexivity|]. unfold is_final in Hf. apply Bool.orb_true_iff in Hf.
    destruct Hf as [Hf|Hf]; apply N.eqb_eq in Hf; auto.
  - apply (final_last_plain lim). exact Hrev.
Qed.

Section Total.
Variable uni_letter uni_digit : Z -> bool.
Hypothesis letter_eof : uni_letter (-1) = false.
Hypothesis digit_eof : uni_digit (-1) = false.
Variable inp : bstr.
Notation ilen := (Z.of_nat (length inp)).
Variable base : Z.
Hypothesis base_nonneg : 0 <= base.
Notation lim := (Z.to_N (base + ilen)).

(* one progress lemma per state function *)
Lemma step_ok st l : inv inp base st l -> st <> LDone ->
  okp (step uni_letter uni_digit inp ilen base st l) (step_post inp base st l).
Proof.
  intros Hi Hst. destruct st; cbn [step]; try congruence.
  - apply lex_text_ok; assumption.
  - apply lex_left_delim_ok; assumption.
  - apply lex_right_delim_ok; assumption.
  - apply lex_right_delim_end_ok; assumption.
  - apply lex_begin_tag_ok; assumption.
  - apply lex_inside_tag_ok; assumption.
  - apply lex_soydoc_ok; assumption.
  - apply lex_line_comment_ok; assumption.
  - apply lex_block_comment_ok; assumption.
  - apply lex_string_ok; assumption.
  - apply lex_ident_ok; assumption.
  - apply lex_header_param_ok; assumption.
  - apply lex_css_ok; assumption.
  - apply lex_literal_ok; assumption.
  - apply lex_number_ok; assumption.
Qed.

(* the run: from any state satisfying its invariant, a budget of phi - ticks steps suffices; the scan ends
   in the nil state with a well-formed item list whose last item is EOF or an error, and the total work
   stays below phi *)
Lemma run_total : forall fuel st l, inv inp base st l -> phi inp st l - l_ticks l <= Z.of_nat fuel ->
  okp (run uni_letter uni_digit inp ilen base fuel st l)
      (fun l' => items_ok lim true (l_out l') /\ l_ticks l' <= phi inp st l /\ wf inp l').
Proof.
  induction fuel as [|f IH]; intros st l Hi Hf.
  - destruct (phi_pos inp st l (proj1 Hi)) as [->|Hp]; [|lia].
    cbn. destruct Hi as (Hw & Hd & _). split; [exact Hd|split; [unfold phi; lia|exact Hw]].
  - destruct st;
      try (cbn [run];
           eapply okp_bind; [apply step_ok; [assumption|discriminate]|];
           intros [st' l'] (Hi' & Hphi & Ht);
           eapply okp_weaken; [apply IH; [exact Hi'|lia]|];
           intros l'' (Hd & Htk & Hw); split; [exact Hd|split; [lia|exact Hw]]).
    cbn. destruct Hi as (Hw & Hd & _). split; [exact Hd|split; [unfold phi; lia|exact Hw]].
Qed.

(* whatever the budget: a run that returns has kept the invariant *)
Lemma run_inv : forall fuel st l l', inv inp base st l ->
  run uni_letter uni_digit inp ilen base fuel st l = Ok l' -> items_ok lim true (l_out l').
Proof.
  induction fuel as [|f IH]; intros st l l' Hi Hr.
  - destruct st; cbn in Hr; try discriminate. injection Hr as <-. apply Hi.
  - destruct st;
      try (cbn [run] in Hr;
           pose proof (step_ok _ l Hi ltac:(discriminate)) as Hs;
           match type of Hr with bind ?x _ = _ => destruct x as [[st' l1]| | | | |] end; cbn in Hs, Hr; try discriminate; try contradiction;
           exact (IH _ _ _ (proj1 Hs) Hr)).
    cbn in Hr. injection Hr as <-. apply Hi.
Qed.

End Total.

(* lex_total_linear: for EVERY byte string, in both entry modes (and for the nested scanner of
   parseQuotedExpr at any offset base >= 0), the scanner run with the budget 40 + 40*|s| returns
   normally -- never Crash, Diverge, OutOfFuel or OutOfModel -- having sent a list of items that all lie
   inside the input (positions <= base + |s|; $ident .ident .N items at least one byte long, ?.ident ?.N
   items at least two), with EOF or an error item as the last and only as the last item; the work done
   (calls of next() plus bytes scanned by strings.Index) is at most 40*|s| + 24.  The unicode classes are
   arbitrary predicates that are false of eof. *)
Theorem lex_total_linear (uni_letter uni_digit : Z -> bool) :
  uni_letter (-1) = false -> uni_digit (-1) = false ->
  forall (base : Z), 0 <= base -> forall (expr_mode : bool) (s : bstr),
  exists l, lex_run_at uni_letter uni_digit base (lex_budget s) expr_mode s = Ok l /\
            scan_ok (Z.to_N (base + Z.of_nat (length s))) (rev (l_out l)) /\
            l_ticks l <= 40 * Z.of_nat (length s) + 24.
Proof.
  intros Hl Hd base Hb expr_mode s. unfold lex_run_at.
  pose proof (run_total uni_letter uni_digit Hl Hd s base Hb (lex_budget s) (entry_state expr_mode) lex_init
                (init_inv s base expr_mode)) as H.
  pose proof (init_phi s expr_mode) as Hphi.
  assert (Hf : phi s (entry_state expr_mode) lex_init - l_ticks lex_init <= Z.of_nat (lex_budget s)).
  { unfold lex_budget. cbn [l_ticks lex_init]. lia. }
  specialize (H Hf).
  destruct (run uni_letter uni_digit s (Z.of_nat (length s)) base (lex_budget s) (entry_state expr_mode) lex_init) as [l| | | | |];
    cbn in H; try contradiction.
  exists l. destruct H as (Hdone & Ht & _). split; [reflexivity|]. split; [apply items_ok_scan; exact Hdone|lia].
Qed.

(* the items of ANY run that returns (whatever budget it was given) are well-formed *)
Theorem lex_run_items_ok (uni_letter uni_digit : Z -> bool) :
  uni_letter (-1) = false -> uni_digit (-1) = false ->
  forall (base : Z), 0 <= base -> forall (fuel : nat) (expr_mode : bool) (s : bstr) l,
  lex_run_at uni_letter uni_digit base fuel expr_mode s = Ok l ->
  scan_ok (Z.to_N (base + Z.of_nat (length s))) (rev (l_out l)).
Proof.
  intros Hl Hd base Hb fuel expr_mode s l Hr. apply items_ok_scan.
  exact (run_inv uni_letter uni_digit Hl Hd s base Hb fuel _ _ _ (init_inv s base expr_mode) Hr).
Qed.

(* the same for the item lists of lex / lexExpr (base 0) and of lexExprAt *)
Corollary lex_items_total (uni_letter uni_digit : Z -> bool) :
  uni_letter (-1) = false -> uni_digit (-1) = false ->
  forall (expr_mode : bool) (s : bstr),
  exists ts, lex_items uni_letter uni_digit (lex_budget s) expr_mode s = Ok ts /\ scan_ok (N.of_nat (length s)) ts.
Proof.
  intros Hl Hd expr_mode s. destruct (lex_total_linear _ _ Hl Hd 0 ltac:(lia) expr_mode s) as (l & Hr & He & _).
  exists (rev (l_out l)). unfold lex_items, lex_run. rewrite Hr. cbn. split; [reflexivity|].
  replace (N.of_nat (length s)) with (Z.to_N (0 + Z.of_nat (length s))) by lia. exact He.
Qed.

Corollary lex_items_scan_ok (uni_letter uni_digit : Z -> bool) :
  uni_letter (-1) = false -> uni_digit (-1) = false ->
  forall (fuel : nat) (expr_mode : bool) (s : bstr) ts,
  lex_items uni_letter uni_digit fuel expr_mode s = Ok ts -> scan_ok (N.of_nat (length s)) ts.
Proof.
  intros Hl Hd fuel expr_mode s ts H. unfold lex_items, lex_run in H.
  destruct (lex_run_at uni_letter uni_digit 0 fuel expr_mode s) as [l| | | | |] eqn:E; cbn in H; try discriminate.
  injection H as <-. replace (N.of_nat (length s)) with (Z.to_N (0 + Z.of_nat (length s))) by lia.
  exact (lex_run_items_ok _ _ Hl Hd 0 ltac:(lia) _ _ _ _ E).
Qed.

(* every item of a scan lies inside the input (the form C19 uses) *)
Corollary lex_items_pos_le (uni_letter uni_digit : Z -> bool) :
  uni_letter (-1) = false -> uni_digit (-1) = false ->
  forall (fuel : nat) (expr_mode : bool) (s : bstr) ts,
  lex_items uni_letter uni_digit fuel expr_mode s = Ok ts ->
  Forall (fun t => (t_pos t <= N.of_nat (length s))%N) ts.
Proof.
  intros Hl Hd fuel expr_mode s ts H. destruct (lex_items_scan_ok _ _ Hl Hd _ _ _ _ H) as (Hall & _).
  eapply Forall_impl; [|exact Hall]. intros t [Hp _]. exact Hp.
Qed.

Corollary lex_items_at_scan_ok (uni_letter uni_digit : Z -> bool) :
  uni_letter (-1) = false -> uni_digit (-1) = false ->
  forall (base : Z), 0 <= base -> forall (fuel : nat) (s : bstr) ts,
  lex_items_at uni_letter uni_digit base fuel s = Ok ts -> scan_ok (Z.to_N (base + Z.of_nat (length s))) ts.
Proof.
  intros Hl Hd base Hb fuel s ts H. unfold lex_items_at in H.
  destruct (lex_run_at uni_letter uni_digit base fuel true s) as [l| | | | |] eqn:E; cbn in H; try discriminate.
  injection H as <-. exact (lex_run_items_ok _ _ Hl Hd base Hb _ _ _ _ E).
Qed.

Lemma tables_eof : is_letter_tbl (-1) = false /\ is_digit_tbl (-1) = false.
Proof. vm_compute. split; reflexivity. Qed.

Theorem lex_tbl_total_linear : forall expr_mode, scanner_total_linear (lex_items_tbl expr_mode) 40.
Proof.
  intros expr_mode s. destruct tables_eof as [Hl Hd].
  destruct (lex_total_linear _ _ Hl Hd 0 ltac:(lia) expr_mode s) as (l & Hr & (_ & He & _) & Ht).
  exists (rev (l_out l)), (l_ticks l). unfold lex_items_tbl, lex_run.
  rewrite Hr. cbn. split; [reflexivity|]. split; [exact He|lia].
Qed.
