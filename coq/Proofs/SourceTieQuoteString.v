(* Source tie, family 83-gotrans-quote, parse/quote.go quoteString: the whole function (the opening quote written into
   a one-element rune slice, the range over the RUNES of the string, the lookup in `escapes` with its ok, the two
   appends, the closing quote, string([]rune)) against Model/Quote.v's quote_string, with the function as gotrans
   translates it from today's source.

   `escapes` is the map that init() fills as the inverse of the literal `unescapes`; gotrans emits it as
   src_parse_escapes (the inverse of the literal, after checking that init() is the only place that touches it and
   that the literal's values are distinct), and escape_of_matches_source ties the model's escapes_table to it.
   The range over the string is translated through utf8.DecodeRuneInString (a parameter, instantiated with
   Model/Utf8.v's decode_rune: st_dec); string([]rune) is the parameter instantiated with string_of_runes
   (st_string_runes).  The loop's fuel len(s)+1 is shown sufficient (every rune is at least one byte wide). *)
From Coq Require Import ZArith NArith Bool Lia ZifyBool ZifyNat ZifyN List.
From Soy Require Import Model.Bytes Model.Num Model.Utf8 Model.NumLit Generated.Tables Model.Quote
  Proofs.SourceTieBase Proofs.SourceTieState Proofs.SourceTieUtf8 Proofs.SourceTieQuote Proofs.SourceTieUnquote.
Import ListNotations.
Open Scope N_scope.

(* escapes[ch] *)
Lemma escapes_table_matches_source (r : N) :
  option_map Z.of_N (assoc r escapes_table) = go_assoc_z (Z.of_N r) src_parse_escapes.
Proof.
  apply (assoc_z_ext Z.of_N Z.eqb); [exact Z_eqb_true|vm_compute; reflexivity|vm_compute; reflexivity].
Qed.

Lemma escape_of_matches_source (r : N) :
  match escape_of r with Some x => (Z.of_N x, true) | None => (0%Z, false) end =
  (go_lookup_z (Z.of_N r) src_parse_escapes 0%Z, go_has_z (Z.of_N r) src_parse_escapes).
Proof.
  unfold escape_of, go_lookup_z, go_has_z. rewrite <- escapes_table_matches_source.
  destruct (assoc r escapes_table); reflexivity.
Qed.

(* the loop: at byte index i (a rune boundary), q so far *)
Lemma quote_loop_matches (s : bstr) :
  st_small (go_len s) ->
  forall (m i : nat) (q : list Z) (w0 : Z) (fuel : nat),
    (length s - i <= m)%nat -> (i <= length s)%nat -> (m < fuel)%nat ->
    exists w' : Z,
      src_parse_quoteString_loop1 fuel st_dec s q (Z.of_nat i) w0 =
      Some (go_exit (q ++ map Z.of_N (quote_runes (runes (drop i s))), go_len s, w')).
Proof.
  intros Hs m. unfold st_small in Hs. induction m as [|m IH]; intros i q w0 fuel Hm Hi Hf.
  - assert (i = length s) as -> by lia. destruct fuel as [|fuel]; [lia|].
    cbn [src_parse_quoteString_loop1].
    replace (drop (length s) s) with (@nil N)
      by (symmetry; apply length_zero_iff_nil; rewrite st_drop_length; lia).
    replace (Z.ltb _ _) with false by (unfold go_len; lia).
    exists w0. cbn [runes runes_aux quote_runes map]. rewrite app_nil_r. reflexivity.
  - destruct (Nat.eq_dec i (length s)) as [->|Hne].
    { apply (IH (length s) q w0 fuel); lia. }
    destruct fuel as [|fuel]; [lia|]. cbn [src_parse_quoteString_loop1].
    replace (Z.ltb (Z.of_nat i) (go_len s)) with true by (unfold go_len; lia).
    rewrite st_go_slice_drop by lia. cbn [go_bind].
    remember (drop i s) as rest eqn:Erest.
    assert (Hrl : length rest = (length s - i)%nat) by (subst rest; apply st_drop_length).
    assert (Hrne : rest <> []) by (intros E; rewrite E in Hrl; cbn [length] in Hrl; lia).
    pose proof (st_decode_width rest Hrne) as Hw.
    rewrite (stq_runes_step rest Hrne).
    change (st_dec rest) with (let '(r0, w1) := decode_rune rest in (Z.of_N r0, Z.of_nat w1)).
    destruct (decode_rune rest) as [r w] eqn:Ed. cbn [fst snd] in *. cbv beta iota zeta.
    rewrite !(st_wrap64 (Z.of_nat i + Z.of_nat w)) by (unfold go_len in *; lia).
    replace (Z.of_nat i + Z.of_nat w)%Z with (Z.of_nat (i + w)) by lia.
    assert (Hs1 : drop w rest = drop (i + w) s) by (subst rest; apply st_drop_drop).
    rewrite Hs1. cbn [quote_runes].
    pose proof (escape_of_matches_source r) as He.
    (* the case is split on the MODEL's lookup; the source's lookup and its ok follow *)
    destruct (escape_of r) as [seq|]; injection He as Hlk Hok; rewrite <- Hlk, <- Hok; cbv iota;
      match goal with
      | |- context [src_parse_quoteString_loop1 fuel _ _ ?q1 _ _] =>
          destruct (IH (i + w)%nat q1 (Z.of_nat w) fuel) as [w' Hw']; try lia
      end;
      exists w'; rewrite Hw'; rewrite <- app_assoc; reflexivity.
Qed.

(* parse/quote.go quoteString, whole *)
Theorem quote_string_matches_source (s : bstr) :
  st_small (go_len s) ->
  src_parse_quoteString st_dec st_string_runes s = Some (quote_string s).
Proof.
  intros Hs. assert (Hs' := Hs). unfold st_small in Hs'.
  unfold src_parse_quoteString. cbn [go_set_nth go_bind]. cbv zeta.
  rewrite st_wrap64 by lia.
  destruct (quote_loop_matches s Hs (length s) 0 [39%Z] 0%Z (Z.to_nat (go_len s + 1))) as [w' Hl];
    try (unfold go_len; lia).
  change (Z.of_nat 0) with 0%Z in Hl.
  cbn [drop] in Hl.
  match goal with
  | |- context [go_set_nth ?l ?i ?v] => let r := eval vm_compute in (go_set_nth l i v) in change (go_set_nth l i v) with r
  end.
  cbn [go_bind]. rewrite Hl. f_equal.
  unfold st_string_runes, quote_string. f_equal.
  rewrite !map_app, map_map. cbn [map app].
  rewrite (map_ext (fun x => st_rune (Z.of_N x)) (fun x => x)) by (intro x; apply st_rune_of_N).
  rewrite map_id. reflexivity.
Qed.
