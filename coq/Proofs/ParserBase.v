(* Hoare-style reasoning for the command-level parser model: invariant, postconditions, and one
   lemma per primitive of Model/Parser.v (next, peek, backup, backup2, expect, errorf, the lifted
   expression parser, the nested expression parser). *)
From Soy Require Import Model.Bytes Model.Ast Model.Token Model.NumLit Model.ExprParser Model.Parser.
From Soy Require Import Generated.Tables Proofs.ParserMeasure Proofs.ExprTotal.
From Coq Require Import ZifyBool ZifyNat ZifyN Lia.
Open Scope N_scope.

(* every nested scanner was drained, after at most |items| + 4 receives *)
Definition scan_ok (r : scanrec) : Prop := sc_drained r = true /\ (sc_recv r <= sc_sent r + 4)%nat.
Definition scans_ok (l : list scanrec) : Prop := Forall scan_ok l.
Definition until_ok (u : list N) : Prop := ~ In 0 u.

Lemma one_of_in c l : one_of c l = true -> In c l.
Proof.
  unfold one_of. rewrite existsb_exists. intros (x & Hx & E). apply N.eqb_eq in E. subst; auto.
Qed.
Lemma one_of_nz c l : until_ok l -> one_of c l = true -> c <> 0.
Proof. intros U H E. apply one_of_in in H. subst. exact (U H). Qed.

Lemma cbind_assoc {A B C} (x : cres A) (f : A -> cst -> cres B) (k : B -> cst -> cres C) :
  cbind (cbind x f) k = cbind x (fun a s => cbind (f a s) k).
Proof. destruct x; reflexivity. Qed.

Section Base.
Variable inlen : N.
Variable NT : nat.
Variable eofchk : bool.

Notation pinv := (pinv inlen NT eofchk).
Notation nrel := (nrel inlen NT eofchk).
Notation twf := (twf inlen).

Definition cinv (s : cst) : Prop := pinv (c_p s) /\ scans_ok (c_scans s).
Notation cmu s := (mu (c_p s)).
Notation clpz s := (lpz (c_p s)).
Notation ckap s := (kap (c_p s)).
Notation cpeek s := (p_peek (c_p s)).
Notation ccur s := (cur_tok (c_p s)).

Definition cpost {A} (b : Z) (Q : A -> cst -> Prop) (r : cres A) : Prop :=
  match r with
  | COk a s' => cinv s' /\ ckap s' = b /\ Q a s'
  | CErr t c s' => cinv s' /\ (clpz s' <= b + 2)%Z
  | CCrash _ => False
  | CFuel => False
  end.

Lemma cpost_bind {A B} b (Q1 : A -> cst -> Prop) (Q : B -> cst -> Prop) x f :
  cpost b Q1 x ->
  (forall a s', cinv s' -> ckap s' = b -> Q1 a s' -> cpost b Q (f a s')) ->
  cpost b Q (cbind x f).
Proof.
  destruct x as [a s'|t c s'|m|]; cbn; intros H K; auto. destruct H as (H1 & H2 & H3). apply K; auto.
Qed.
Lemma cpost_weaken {A} b (Q1 Q : A -> cst -> Prop) r :
  cpost b Q1 r -> (forall a s', cinv s' -> ckap s' = b -> Q1 a s' -> Q a s') -> cpost b Q r.
Proof. destruct r; cbn; intros H K; auto. destruct H as (H1 & H2 & H3). auto. Qed.

Lemma cinv_peek s : cinv s -> (cpeek s <= 2)%nat.
Proof. intros (H & _). apply (pi_peek _ _ _ _ H). Qed.

(* ---------- next ---------- *)
Definition cnrel (s : cst) (t : tok) (s1 : cst) : Prop :=
  nrel (c_p s) t (c_p s1) /\ c_scans s1 = c_scans s.

Lemma c_next_eq s : cinv s ->
  exists t s1, c_next s = COk t s1 /\ cnrel s t s1.
Proof.
  intros Hi. pose proof (cinv_peek s Hi) as Hp. destruct Hi as (Hi & Hs).
  unfold c_next. destruct (Nat.leb_spec 3 (cpeek s)); [lia|].
  pose proof (p_next_rel inlen NT eofchk _ Hi) as R.
  destruct (p_next (c_p s)) as [t p'] eqn:E. cbn [fst snd] in R.
  exists t, (set_p s p'). split; [reflexivity|]. split; cbn [c_p c_scans set_p]; auto.
Qed.

Lemma cnrel_inv s t s1 : cinv s -> cnrel s t s1 -> cinv s1.
Proof. intros (_ & Hs) (R & E). split; [apply (nr_inv _ _ _ _ _ _ R)|rewrite E; auto]. Qed.

Lemma c_next_step {B} b (Q : B -> cst -> Prop) s f :
  cinv s -> (forall t s1, cnrel s t s1 -> cinv s1 -> cpost b Q (f t s1)) -> cpost b Q (cbind (c_next s) f).
Proof.
  intros Hi K. destruct (c_next_eq s Hi) as (t & s1 & E & R). rewrite E. cbn [cbind].
  apply K; auto. eapply cnrel_inv; eauto.
Qed.

(* backup after that next *)
Lemma c_backup_after s t s1 : cinv s -> cnrel s t s1 ->
  cinv (c_backup s1) /\ cmu (c_backup s1) = cmu s /\ clpz (c_backup s1) = clpz s.
Proof.
  intros (_ & Hs) (R & E). unfold c_backup, cinv; cbn [c_p c_scans set_p].
  destruct R. rewrite E. split; [split|split]; auto.
Qed.

(* backup over an item of non-zero type, and the next that reads it again *)
Lemma c_backup_nz s : cinv s -> (cpeek s <= 1)%nat -> t_typ (ccur s) <> 0 ->
  cinv (c_backup s) /\ cmu (c_backup s) = S (cmu s) /\ clpz (c_backup s) = (clpz s - 1)%Z
  /\ c_next (c_backup s) = COk (ccur s) s.
Proof.
  intros (Hi & Hs) Hk Hz. destruct (p_backup_rel inlen NT eofchk _ Hi Hk Hz) as (A & B & C).
  unfold c_backup, cinv; cbn [c_p c_scans set_p]. split; [split; auto|]. split; [auto|]. split; [auto|].
  unfold c_next; cbn [c_p set_p]. pose proof (pi_peek _ _ _ _ A).
  destruct (Nat.leb_spec 3 (p_peek (p_backup (c_p s)))); [lia|].
  rewrite p_next_backup by auto. destruct s; reflexivity.
Qed.

Lemma c_backup2_rel s t s1 t1 :
  cinv s -> (cpeek s <= 1)%nat -> t1 = ccur s -> t_typ t1 <> 0 -> t_typ t1 <> pit_EOF -> twf t1 ->
  cnrel s t s1 ->
  cinv (c_backup2 s1 t1) /\ cmu (c_backup2 s1 t1) = S (cmu s) /\ clpz (c_backup2 s1 t1) = (clpz s - 1)%Z.
Proof.
  intros (Hi & Hs) Hk Ht1 Hz Hne Hw (R & E).
  destruct (p_backup2_rel inlen NT eofchk _ _ _ _ Hi Hk Ht1 Hz Hne Hw R) as (A & B & C).
  unfold c_backup2, cinv; cbn [c_p c_scans set_p]. rewrite E. split; [split|split]; auto.
Qed.

(* ---------- peek (followed by the next that consumes the peeked item) ---------- *)
Lemma c_peek_step {B} b (Q : B -> cst -> Prop) s f :
  cinv s ->
  (forall t s1, cinv s1 -> cmu s1 = cmu s -> clpz s1 = clpz s ->
                (exists s2, c_next s1 = COk t s2 /\ cnrel s1 t s2) -> cpost b Q (f t s1)) ->
  cpost b Q (cbind (c_peek s) f).
Proof.
  intros Hi K. pose proof (cinv_peek s Hi) as Hp. destruct Hi as (Hi & Hs).
  unfold c_peek. destruct (Nat.leb_spec 3 (cpeek s)); [lia|].
  pose proof (p_peek_rel inlen NT eofchk _ Hi) as R.
  destruct (p_peek_tok (c_p s)) as [t p'] eqn:E. cbn [fst snd] in R. cbn [cbind].
  destruct R as [Ri Rpk Rl Rm Rn Rr].
  assert (Hi1 : cinv (set_p s p')) by (split; cbn [c_p c_scans set_p]; auto).
  apply K; cbn [c_p set_p]; auto.
  destruct (c_next_eq _ Hi1) as (t2 & s2 & E2 & R2). exists s2.
  assert (t2 = t).
  { unfold c_next in E2. cbn [c_p set_p] in E2. destruct (Nat.leb_spec 3 (p_peek p')); [discriminate|].
    rewrite Rn in E2. inversion E2; auto. }
  subst t2. auto.
Qed.

(* ---------- errorf / unexpected / expect ---------- *)
Lemma c_error_at_post {A} b (Q : A -> cst -> Prop) tk cls s :
  cinv s -> twf tk -> (clpz s <= b + 2)%Z -> cpost b Q (c_error_at inlen tk cls s).
Proof.
  intros Hi Hw Hl. unfold c_error_at. pose proof (twf_pos _ _ Hw).
  destruct (N.leb_spec (t_pos tk) inlen); [|lia]. cbn. auto.
Qed.
Lemma c_errorf_post {A} b (Q : A -> cst -> Prop) cls s :
  cinv s -> (clpz s <= b + 2)%Z -> cpost b Q (c_errorf inlen cls s).
Proof.
  intros Hi Hl. pose proof (cinv_peek s Hi) as Hp. unfold c_errorf.
  destruct (Nat.leb_spec 3 (cpeek s)); [lia|].
  apply c_error_at_post; auto. destruct Hi as (Hi & Hs). apply (pinv_err_tok _ _ _ _ Hi).
Qed.
Lemma c_unexp_post {A} b (Q : A -> cst -> Prop) tk ctx s :
  cinv s -> twf tk -> (clpz s <= b + 2)%Z -> cpost b Q (c_unexp inlen tk ctx s).
Proof. intros. unfold c_unexp. destruct (tis tk pit_Error); apply c_error_at_post; auto. Qed.

Lemma c_expect_post b typ ctx s :
  cinv s -> typ <> 0 -> ckap s = b ->
  cpost b (fun t s1 => cmu s = S (cmu s1) /\ (cpeek s1 <= 1)%nat /\ t = ccur s1 /\ t_typ t = typ /\ twf t
                       /\ c_scans s1 = c_scans s)
        (c_expect inlen typ ctx s).
Proof.
  intros Hi Hz Hb. unfold c_expect. apply c_next_step; auto. intros t s1 (R & Es) Hi1.
  destruct R. unfold tis. destruct (N.eqb_spec (t_typ t) typ) as [Et|Et].
  - assert (t_typ t <> 0) by congruence. cbn [cpost]. unfold kap in *. split; [auto|]. split; [lia|].
    repeat (apply conj); auto; lia.
  - apply c_unexp_post; auto. unfold kap in *; lia.
Qed.

Lemma tail1_ok v s : (1 <= length v)%nat -> exists r, tail1 v s = COk r s.
Proof. destruct v; cbn; [lia|eauto]. Qed.

(* ---------- the expression parser on the command-level state ---------- *)
Lemma lift_expr_post f prec s b :
  cinv s -> ckap s = b -> (cmu s < f)%nat ->
  cpost b (fun _ s' => (cmu s' < cmu s)%nat /\ c_scans s' = c_scans s) (lift_expr inlen parse_expr f prec s).
Proof.
  intros (Hi & Hs) Hb Hf. unfold lift_expr.
  pose proof (parse_expr_ok inlen NT eofchk f prec (c_p s) b Hi Hb Hf) as H.
  destruct (parse_expr f prec (c_p s)) as [n p'|t c p'|m|]; cbn [ppost] in H; try contradiction.
  - destruct H as (A & B & C). cbn [cpost]. unfold cinv. cbn [c_p c_scans set_p]. auto.
  - destruct H as (A & B & C).
    pose proof (twf_pos _ _ C) as Hpos.
    destruct (N.leb_spec (t_pos t) inlen); [|lia]. cbn [cpost]. unfold cinv. cbn [c_p c_scans set_p]. auto.
Qed.

(* ---------- parseQuotedExpr: its own scanner, always drained ---------- *)
Section Quoted.
Variable lexq : bstr -> list tok.
(* the scanner run on an attribute string yields well-formed items *)
Hypothesis Hlexq : forall str, Forall (ParserMeasure.twf (N.of_nat (length str))) (lexq str).

Lemma twf_shift il il' base t :
  ParserMeasure.twf il t -> base + t_pos t <= il' -> ParserMeasure.twf il' (shift_tok base t).
Proof.
  unfold ParserMeasure.twf, twfb, shift_tok. cbn [t_pos t_typ t_val]. intros H Hp.
  destruct (N.leb_spec (t_pos t) il); [|cbn in H; discriminate].
  destruct (N.leb_spec (base + t_pos t) il'); [|lia]. exact H.
Qed.

Lemma parse_quoted_expr_post str s b :
  cinv s -> ckap s = b ->
  cpost b (fun _ s' => c_p s' = c_p s) (parse_quoted_expr inlen lexq parse_expr expr_fuel str s).
Proof.
  intros Hi Hb. pose proof (cinv_peek s Hi) as Hp. destruct Hi as (Hi & Hs). unfold parse_quoted_expr.
  destruct (Nat.leb_spec 3 (cpeek s)) as [Hpk3|Hpk3]; [lia|]. cbv zeta.
  set (tk := err_tok (c_p s)). set (len := N.of_nat (length str)).
  set (inside := (len <=? t_pos tk) && (t_pos tk <=? inlen)).
  set (base := if inside then t_pos tk - len else 0).
  set (il := if inside then inlen else len).
  set (ts := map (shift_tok base) (lexq str)).
  assert (Hts : Forall (ParserMeasure.twf il) ts).
  { unfold ts. apply Forall_forall. intros x Hx. apply in_map_iff in Hx. destruct Hx as (y & Ey & Hy). subst x.
    pose proof (Hlexq str) as HF. rewrite Forall_forall in HF. pose proof (HF y Hy) as Hy'.
    pose proof (twf_pos _ _ Hy') as Hyp. fold len in Hyp.
    apply (twf_shift len); auto. unfold base, il. destruct inside eqn:Ein; [unfold inside in Ein|]; lia. }
  assert (Hi0 : ParserMeasure.pinv il 0 false (pst_init ts)).
  { apply pinv_init; [auto|lia|discriminate]. }
  pose proof (mu_init ts) as Hm.
  assert (Hf : (mu (pst_init ts) < expr_fuel ts)%nat) by (unfold expr_fuel; lia).
  pose proof (parse_expr_ok il 0 false (expr_fuel ts) 0 (pst_init ts) _ Hi0 eq_refl Hf) as HP.
  destruct (parse_expr (expr_fuel ts) 0 (pst_init ts)) as [n p'|t c p'|m|]; cbn [ppost] in HP; try contradiction.
  - destruct HP as (A & B & C). pose proof (pi_peek _ _ _ _ A).
    assert (Hrk : (p_recv p' <= length ts + 4)%nat) by (unfold kap, lpz in *; cbn [pst_init p_recv p_peek] in *; lia).
    cbn [cpost]. unfold cinv. cbn [c_p c_scans add_scan]. split; [split; [auto|constructor; [split; cbn; auto|auto]]|auto].
  - destruct HP as (A & B & C). pose proof (pi_peek _ _ _ _ A).
    assert (Hrk : (p_recv p' <= length ts + 4)%nat) by (unfold kap, lpz in *; cbn [pst_init p_recv p_peek] in *; lia).
    pose proof (twf_pos _ _ C) as Hpos.
    destruct (N.leb_spec (t_pos t) il); [|lia].
    cbn [cpost]. unfold cinv. cbn [c_p c_scans add_scan]. split; [split; [auto|constructor; [split; cbn; auto|auto]]|]. unfold kap in Hb. lia.
Qed.
End Quoted.

End Base.
