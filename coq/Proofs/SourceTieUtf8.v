(* Source tie, common part for the translated functions that decode UTF-8 (utf8.DecodeRuneInString as a parameter of the
   translation, range over the runes of a string): the decoder of Model/Utf8.v as the instance of that parameter
   ([st_dec]), its width bounds, the runes of a string one decoding step at a time, and Go's s[i:] / s[i:i+k] on byte
   strings.  Imports Model/Bytes.v, Model/Utf8.v and the generated tables only. *)
From Coq Require Import ZArith NArith Bool Lia ZifyBool ZifyNat ZifyN List.
From Soy Require Import Model.Bytes Model.Utf8 Generated.Tables Proofs.SourceTieBase Proofs.SourceTieState.
Import ListNotations.
Open Scope N_scope.

Definition st_dec (s : bstr) : Z * Z := let '(r, w) := decode_rune s in (Z.of_N r, Z.of_nat w).

Lemma st_decode_width (s : bstr) : s <> [] -> (1 <= snd (decode_rune s) <= length s)%nat.
Proof.
  intros Hne. destruct s as [|b0 s]; [congruence|]. unfold decode_rune, is_cont, in_range, rune_error.
  destruct s as [|b1 [|b2 [|b3 s]]];
  repeat match goal with |- context [if ?c then _ else _] => destruct c eqn:? end;
  cbn [fst snd length]; lia.
Qed.


Lemma st_go_slice_drop (s : bstr) (i : nat) : (i <= length s)%nat -> go_slice s (Z.of_nat i) (go_len s) = Some (drop i s).
Proof.
  intros H. unfold go_slice, go_len. replace (orb _ _) with false by lia. f_equal.
  rewrite Nat2Z.id. replace (Z.to_nat (Z.of_nat (length s) - Z.of_nat i)) with (length s - i)%nat by lia.
  revert i H. induction s as [|c s IH]; intros [|i] H; cbn [drop length] in *; try reflexivity; try lia.
  - cbn [Nat.sub take]. f_equal. specialize (IH 0%nat ltac:(lia)). cbn [drop] in IH. rewrite Nat.sub_0_r in IH. exact IH.
  - apply IH. lia.
Qed.

Lemma st_drop_length (i : nat) (s : bstr) : length (drop i s) = (length s - i)%nat.
Proof. revert s. induction i as [|i IH]; intros [|c s]; cbn [drop length]; try lia. apply IH. Qed.

Lemma st_drop_drop (i j : nat) (s : bstr) : drop j (drop i s) = drop (i + j) s.
Proof. revert s. induction i as [|i IH]; intros s; [reflexivity|]. destruct s as [|c s]; [destruct j; reflexivity|]. cbn [drop Nat.add]. apply IH. Qed.

Lemma st_go_slice_take_drop (s : bstr) (i k : nat) :
  (i + k <= length s)%nat -> go_slice s (Z.of_nat i) (Z.of_nat i + Z.of_nat k)%Z = Some (take k (drop i s)).
Proof.
  intros H. unfold go_slice, go_len. replace (orb _ _) with false by lia. f_equal.
  rewrite Nat2Z.id. replace (Z.to_nat (Z.of_nat i + Z.of_nat k - Z.of_nat i)) with k by lia. reflexivity.
Qed.


(* the runes of a string, one decoding step at a time *)
Lemma stq_runes_aux_skip (t : bstr) : forall k, runes_aux k t = runes_aux 0 (drop k t).
Proof.
  induction t as [|c t IH]; intros [|k]; try reflexivity.
  cbn [runes_aux drop]. apply IH.
Qed.

Lemma stq_runes_step (s : bstr) : s <> [] ->
  runes s = fst (decode_rune s) :: runes (drop (snd (decode_rune s)) s).
Proof.
  intros Hne. pose proof (st_decode_width s Hne) as Hw. destruct s as [|c t]; [congruence|].
  unfold runes. cbn [runes_aux]. destruct (decode_rune (c :: t)) as [r w]. cbn [fst snd] in *.
  destruct w as [|w]; [lia|]. cbn [pred drop]. f_equal. apply stq_runes_aux_skip.
Qed.

