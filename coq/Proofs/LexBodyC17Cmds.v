(* C17, scanner half for template bodies, middle layer: the relation [lb17_sim] between the scanner's items and the
   Spec's (types; texts except for the command keywords, whose Spec item carries no text; positions not compared),
   [lb17_go] (a run of the state machine between two states, with the items it sends) and its instances for the
   tag steps of LexBodyC17.v, [lb17_fin] (the end of a body: the next tag or EOF). *)
From Soy Require Import Model.Bytes Model.Utf8 Model.Num Model.Values Model.Outcome Model.Ast Model.Token Model.NumLit Model.Quote
  Model.AstPrint Model.AstPrintCmd Generated.Tables Model.Lexer Spec.ExprSyntax Spec.CmdSyntax Spec.Text Spec.TextBody
  Proofs.Utf8Proofs Proofs.ExprParserProofs Proofs.LexerPrim Proofs.LexerStates Proofs.LexerProofs
  Proofs.LexTokens Proofs.LexNumbers Proofs.LexStrings Proofs.LexExpr Proofs.LexPrint Proofs.LexPrintMain Proofs.LexPrintTop
  Proofs.LexBodyText Proofs.LexBodyTop Proofs.LexBodySeg Proofs.LexBodyCmd Proofs.LexPrintCmd.
From Soy Require Import Proofs.LexBodyC17.
From Coq Require Import ZifyBool ZifyNat ZifyN Lia.
Open Scope Z_scope.

(* ---------- comparing the scanner's items with the Spec's ---------- *)
(* same type and text (positions are not compared) *)
Definition lb17_sim (a b : tok) : Prop := t_typ a = t_typ b /\ t_val a = t_val b.
(* between l and l' the items ts were sent *)
Definition lb17_sent (ts : list tok) (l l' : lx) : Prop :=
  exists its, l_out l' = rev its ++ l_out l /\ Forall2 lb17_sim its ts.

Lemma lb17_sent_nil l l' : l_out l' = l_out l -> lb17_sent [] l l'.
Proof. intros H. exists []. split; [exact H|constructor]. Qed.

Lemma lb17_sent_app ts1 ts2 l l1 l2 : lb17_sent ts1 l l1 -> lb17_sent ts2 l1 l2 -> lb17_sent (ts1 ++ ts2) l l2.
Proof.
  intros (i1 & H1 & F1) (i2 & H2 & F2). exists (i1 ++ i2). split; [|apply Forall2_app; assumption].
  rewrite H2, H1, rev_app_distr, <- app_assoc. reflexivity.
Qed.

Lemma lb17_sim_map : forall its ts, map (fun it => (t_typ it, t_val it)) its = map tv ts -> Forall2 lb17_sim its ts.
Proof.
  induction its as [|a its IH]; intros [|b0 ts] H; cbn [map] in H; try discriminate; [constructor|].
  injection H as Ht Hv Hr. constructor; [|apply IH; exact Hr]. split; [exact Ht|exact Hv].
Qed.

Lemma lb17_sent_sends ts l l' : sends (map tv ts) l l' -> lb17_sent ts l l'.
Proof. intros H. destruct (sends_out _ _ _ H) as (its & Ho & Hm & _). exists its. split; [exact Ho|apply lb17_sim_map; exact Hm]. Qed.

Lemma lb17_sim_tv : forall its ts, Forall2 lb17_sim its ts -> map tv its = map tv ts.
Proof. induction 1 as [|a b0 its ts [Ht Hv] _ IH]; [reflexivity|]. cbn [map]. unfold tv at 1 3. rewrite Ht, Hv, IH. reflexivity. Qed.

(* the Spec's keyword items carry the scanner's text *)
Lemma lb17_open_kw_text name t : In (name, t) lb17_open_kws -> kw_text t = name.
Proof.
  intros Hin. unfold lb17_open_kws in Hin.
  repeat (destruct Hin as [E|Hin]; [injection E as <- <-; vm_compute; reflexivity|]). contradiction.
Qed.
Lemma lb17_close_kw_text cs t : In (cs, t) lb17_close_kws -> kw_text t = 47%N :: cs.
Proof.
  intros Hin. unfold lb17_close_kws in Hin.
  repeat (destruct Hin as [E|Hin]; [injection E as <- <-; vm_compute; reflexivity|]). contradiction.
Qed.

Section Go.
Variable uni_letter uni_digit : Z -> bool.
Hypothesis letter_ascii : forall c, (c < 128)%N -> uni_letter (Z.of_N c) = ((65 <=? c) && (c <=? 90) || (97 <=? c) && (c <=? 122))%N.
Hypothesis digit_ascii : forall c, (c < 128)%N -> uni_digit (Z.of_N c) = digit_b c.
Hypothesis letter_eof : uni_letter (-1) = false.
Hypothesis digit_eof : uni_digit (-1) = false.
Variable inp : bstr.
Notation L := (lexes uni_letter uni_digit inp 0).
Notation W lem := (lem uni_letter uni_digit letter_ascii digit_ascii letter_eof digit_eof inp).
Notation steps := (steps uni_letter uni_digit inp 0).
Notation span := (span inp).
Notation ilen := (Z.of_nat (length inp)).

(* from state st at l the machine reaches st' at l', having sent ts *)
Definition lb17_go (st : lstate) (l : lx) (st' : lstate) (l' : lx) (ts : list tok) : Prop :=
  exists k, steps k st l = Ok (st', l') /\ lb17_sent ts l l'.

Lemma lb17_go_trans st l st1 l1 st2 l2 ts1 ts2 :
  lb17_go st l st1 l1 ts1 -> lb17_go st1 l1 st2 l2 ts2 -> lb17_go st l st2 l2 (ts1 ++ ts2).
Proof.
  pose proof (conj letter_ascii (conj digit_ascii (conj letter_eof digit_eof))) as Hyps.
  intros (k1 & H1 & S1) (k2 & H2 & S2). exists (k1 + k2)%nat. split; [rewrite (steps_app _ _ _ _ k1 k2 _ _ _ _ H1); exact H2|].
  eapply lb17_sent_app; eassumption.
Qed.

(* "{" kw *)
Lemma lb17_go_open l name t p s : In (name, t) lb17_open_kws -> span l [] ([123%N] ++ name ++ s) -> stops s ->
  exists l', lb17_go LLeftDelim l LInsideTag l' [T_ldelim; kw t p] /\ span l' [] s /\ l_dd l' = false /\ last_typ l' = t.
Proof.
  pose proof (conj letter_ascii (conj digit_ascii (conj letter_eof digit_eof))) as Hyps.
  intros Hin Hs Hst. destruct (W lb17_open_kw l name t s Hin Hs Hst) as (l' & ld & k & H1 & H2 & H3 & H4 & H5 & H6 & H7 & H8 & H9).
  exists l'. split; [|split; [exact H2|split; [exact H9|unfold last_typ; rewrite H8; exact H6]]].
  exists 4%nat. split; [exact H1|]. exists [ld; k]. split; [rewrite H3; reflexivity|].
  constructor; [split; [exact H4|exact H5]|]. constructor; [|constructor].
  split; [exact H6|]. cbn [kw tk t_val]. rewrite H7. symmetry. apply lb17_open_kw_text. exact Hin.
Qed.

(* "}" and "/}" *)
Lemma lb17_go_rdelim l s : span l [] (125%N :: s) -> l_dd l = false ->
  exists l', lb17_go LInsideTag l LText l' [T_rdelim] /\ span l' [] s /\ l_dd l' = false.
Proof.
  pose proof (conj letter_ascii (conj digit_ascii (conj letter_eof digit_eof))) as Hyps.
  intros Hs Hdd. destruct (close_brace uni_letter uni_digit letter_eof digit_eof inp l s Hs Hdd) as (l' & p & H1 & H2 & H3 & H4 & H5).
  exists l'. split; [|split; [exact H2|exact H5]]. exists 2%nat. split; [exact H1|]. eexists [_]. split; [rewrite H3; reflexivity|].
  constructor; [|constructor]. split; reflexivity.
Qed.

Lemma lb17_go_rdelim_end l s : span l [] (47%N :: 125%N :: s) -> l_dd l = false ->
  exists l', lb17_go LInsideTag l LText l' [T_rdelim_end] /\ span l' [] s /\ l_dd l' = false.
Proof.
  pose proof (conj letter_ascii (conj digit_ascii (conj letter_eof digit_eof))) as Hyps.
  intros Hs Hdd. destruct (lb17_close_slash uni_letter uni_digit letter_eof digit_eof inp l s Hs Hdd) as (l' & p & H1 & H2 & H3 & H4 & H5).
  exists l'. split; [|split; [exact H2|exact H5]]. exists 2%nat. split; [exact H1|]. eexists [_]. split; [rewrite H3; reflexivity|].
  constructor; [|constructor]. split; reflexivity.
Qed.

(* "{/" kw "}" *)
Lemma lb17_go_close l cs t s : In (cs, t) lb17_close_kws -> span l [] ([123; 47]%N ++ cs ++ [125%N] ++ s) ->
  exists l', lb17_go LLeftDelim l LText l' (CmdSyntax.close_tag t) /\ span l' [] s /\ l_dd l' = false.
Proof.
  pose proof (conj letter_ascii (conj digit_ascii (conj letter_eof digit_eof))) as Hyps.
  intros Hin Hs. destruct (W lb17_close_cmd l cs t s Hin Hs) as (l' & ld & k & rd & H1 & H2 & H3 & H4 & H5 & H6 & H6v & H7 & H8 & H9 & H10).
  exists l'. split; [|split; [exact H2|exact H10]]. exists 5%nat. split; [exact H1|]. exists [ld; k; rd]. split; [rewrite H3; reflexivity|].
  unfold CmdSyntax.close_tag. constructor; [split; [exact H4|exact H5]|].
  constructor; [split; [exact H6|cbn [kw tk t_val]; rewrite H6v; symmetry; apply lb17_close_kw_text; exact Hin]|].
  constructor; [split; [exact H7|exact H8]|constructor].
Qed.

(* "{css" sp txt "}" *)
Lemma lb17_go_css l p txt s : span l [] ([123; 99; 115; 115]%N ++ 32%N :: txt ++ 125%N :: s) ->
  Forall (fun c => (c < 128)%N /\ c <> 125%N) txt ->
  exists l', lb17_go LLeftDelim l LText l' [T_ldelim; kw pit_Css p; tk pit_Text 0 txt; T_rdelim] /\ span l' [] s /\ l_dd l' = false.
Proof.
  pose proof (conj letter_ascii (conj digit_ascii (conj letter_eof digit_eof))) as Hyps.
  intros Hs Hall.
  destruct (W lb17_open_css l txt s Hs Hall) as (l' & ld & k & tx & rd & H1 & H2 & H3 & A1 & A2 & A3 & A4 & A5 & A6 & A7 & A8 & A9 & A10).
  exists l'. split; [|split; [exact H2|exact A10]]. exists 5%nat. split; [exact H1|]. exists [ld; k; tx; rd]. split; [rewrite H3; reflexivity|].
  constructor; [split; [exact A1|exact A2]|].
  constructor; [split; [exact A3|rewrite A4; reflexivity]|].
  constructor; [split; [exact A5|exact A6]|].
  constructor; [split; [exact A7|exact A8]|constructor].
Qed.

(* the same run against another item list with the same types and texts (positions differ) *)
Lemma lb17_go_retok st l st' l' ts ts' : lb17_go st l st' l' ts -> map tv ts = map tv ts' -> lb17_go st l st' l' ts'.
Proof.
  pose proof (conj letter_ascii (conj digit_ascii (conj letter_eof digit_eof))) as Hyps.
  intros (k & Hst & (its & Ho & HF)) Hm. exists k. split; [exact Hst|]. exists its. split; [exact Ho|].
  clear - HF Hm. revert ts' Hm. induction HF as [|a b0 its ts Hab HF IH]; intros [|b' ts'] Hm; cbn [map] in Hm; try discriminate; [constructor|].
  injection Hm as Ht Hv Hr. constructor; [|apply IH; exact Hr].
  destruct Hab as [A B]. unfold lb17_sim. rewrite <- Ht, <- Hv. split; [exact A|exact B].
Qed.

(* "=" inside a tag, before a byte that is not "=" *)
Lemma lb17_L_equals : L anyty (fun s => exists c r, s = c :: r /\ (c < 128)%N /\ c <> 61%N) [61%N] [(itemEquals, [61%N])] (eq itemEquals).
Proof.
  pose proof (conj letter_ascii (conj digit_ascii (conj letter_eof digit_eof))) as Hyps.
  apply (lexes_tok uni_letter uni_digit letter_ascii digit_ascii letter_eof digit_eof). intros l s Hs _ (c & r & -> & Hc & Hne).
  cbn [app] in Hs. destruct (W lb17_lex_equals l c r Hs Hc Hne) as (l' & A & B & C). exists 1%nat, l'. auto.
Qed.

(* a fragment inside a tag *)
Lemma lb17_go_lexes (P : N -> Prop) (F : bstr -> Prop) txt ts (Q : N -> Prop) l s :
  L P F txt (map tv ts) Q -> span l [] (txt ++ s) -> P (last_typ l) -> F s ->
  exists l', lb17_go LInsideTag l LInsideTag l' ts /\ span l' [] s /\ l_dd l' = l_dd l /\ Q (last_typ l').
Proof.
  pose proof (conj letter_ascii (conj digit_ascii (conj letter_eof digit_eof))) as Hyps.
  intros HL Hs HP HF. destruct (HL l s Hs HP HF) as (k & l' & H1 & H2 & H3 & H4).
  exists l'. split; [exists k; split; [exact H1|apply lb17_sent_sends; exact H3]|]. split; [exact H2|]. split; [|exact H4].
  destruct (sends_out _ _ _ H3) as (_ & _ & _ & Hd). exact Hd.
Qed.

(* lexText in front of a tag *)
Lemma lb17_go_text_tag l tl : span l [] (123%N :: tl) ->
  exists l', lb17_go LText l LLeftDelim l' [] /\ span l' [] (123%N :: tl) /\ l_dd l' = l_dd l.
Proof.
  pose proof (conj letter_ascii (conj digit_ascii (conj letter_eof digit_eof))) as Hyps.
  intros Hs. destruct (lb17_text_tag uni_letter uni_digit letter_eof digit_eof inp l tl Hs) as (l' & H1 & H2 & H3 & H4 & H5).
  exists l'. split; [exists 1%nat; split; [exact H1|apply lb17_sent_nil; exact H3]|auto].
Qed.

(* ---------- the end of a body: the next tag (tl <> []) or the end of the input ---------- *)
Definition lb17_fin (tl : bstr) (ts : list tok) (st : lstate) (l : lx) : Prop :=
  (tl <> [] /\ exists l', lb17_go st l LLeftDelim l' ts /\ span l' [] tl /\ l_dd l' = false) \/
  (tl = [] /\ exists k l' its e, steps k st l = Ok (LDone, l') /\ Forall2 lb17_sim its ts /\ t_typ e = itemEOF /\
                 l_out l' = e :: rev its ++ l_out l).

Lemma lb17_fin_prefix tl st l st1 l1 ts1 ts2 :
  lb17_go st l st1 l1 ts1 -> lb17_fin tl ts2 st1 l1 -> lb17_fin tl (ts1 ++ ts2) st l.
Proof.
  pose proof (conj letter_ascii (conj digit_ascii (conj letter_eof digit_eof))) as Hyps.
  intros Hgo [(Hne & l' & Hgo2 & Hs & Hdd)|(-> & k & l' & its & e & Hst & HF & He & Ho)].
  - left. split; [exact Hne|]. exists l'. split; [eapply lb17_go_trans; eassumption|auto].
  - right. split; [reflexivity|]. destruct Hgo as (k1 & Hst1 & (i1 & Ho1 & HF1)).
    exists (k1 + k)%nat, l', (i1 ++ its), e. split; [rewrite (steps_app _ _ _ _ k1 k _ _ _ _ Hst1); exact Hst|].
    split; [apply Forall2_app; assumption|]. split; [exact He|]. rewrite Ho, Ho1, rev_app_distr, <- app_assoc. reflexivity.
Qed.

(* a stretch of raw text (possibly empty) at the end of a body *)
Lemma lb17_fin_text l T tl (ts : list tok) : span l [] (T ++ tl) -> l_dd l = false -> LexBodyText.plain T ->
  lb17_one_piece T -> tag_or_end tl ->
  (if droppable T then ts = [] else exists p, ts = [tk pit_Text p T]) ->
  lb17_fin tl ts LText l.
Proof.
  pose proof (conj letter_ascii (conj digit_ascii (conj letter_eof digit_eof))) as Hyps.
  intros Hs Hdd Hpl Hns Htl Hts.
  destruct (lb17_text_run uni_letter uni_digit letter_eof digit_eof inp l T tl Hs Hpl Hns Htl) as (st' & l' & Hrun & (txt & Htx & Hdd' & Hres)).
  assert (HF : Forall2 lb17_sim txt ts).
  { unfold is_text_of in Htx. destruct (droppable T).
    - subst. constructor.
    - destruct Htx as (p & ->). destruct Hts as (q & ->). constructor; [|constructor]. split; reflexivity. }
  destruct Hres as [(-> & -> & e & He & Ho)|(Hne & -> & Ho & Hs' & _)].
  - right. split; [reflexivity|]. exists 1%nat, l', txt, e. auto.
  - left. split; [exact Hne|]. exists l'. split; [exists 1%nat; split; [exact Hrun|exists txt; auto]|]. split; [exact Hs'|congruence].
Qed.

End Go.
