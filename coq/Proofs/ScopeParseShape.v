(* C02, parser shape, part 2: what the command parser (Model/Parser.v) guarantees of
   EVERY tree it returns, for every token stream, parser state and budget:

   * [pwf]: the tree has the parser's shape -- expression positions hold expressions
     (Spec/Cmd.v [wf KExpr], through ScopeExprWf), the bodies of if / for / switch cases /
     let / param / log / template are blocks, the conditions of an if are IfCond nodes,
     the cases of a switch are SwitchCase nodes, the params of a call are param nodes,
     the children of a msg are raw text, placeholders and plurals.  [pwf] is LAXER than
     Spec/Cmd.v's [wf] in exactly three ways (ScopeParseWf.v closes the gap): an item of a
     block may also be a file-level tag ({namespace}, {template}, a soydoc comment) or a
     {plural} that was not placeholderized; a placeholder may hold any item (also a let).
   * [calls_of] / [resolved_in]: every NCall below the root carries a written, non-empty
     name resolved (Spec/CallNames.v [resolves]) against a namespace and alias list that
     were in force between the start state and the final state of the parse: the
     namespace is written once (nle: empty, then fixed), the aliases only grow. *)
From Coq Require Import Lia.
From Soy Require Import Model.Bytes Model.Values Model.Outcome Model.Ast Model.Token Generated.Tables Model.RawText
  Model.Parser Spec.Cmd Spec.CallNames Proofs.ScopeNames Proofs.ScopeExprWf.
Open Scope N_scope.

(* ------------------------------------------------------------------ *)
(* the parser's shape *)

Inductive pshape := PBlock | PItem | PIfCond | PCase | PParam | PMsgItem | PPluralCase | PRawCase.

Definition oall (f : node -> bool) (o : option node) : bool := match o with Some x => f x | None => true end.

Fixpoint pwf (k : pshape) (n : node) {struct n} : bool :=
  match k, n with
  | PBlock, NList _ l => forallb (pwf PItem) l
  | PItem, (NRawText _ _ | NMsgHtmlTag _ _ | NDebugger _ | NHeaderParam _ _ _ _ _ | NNamespace _ _ _ | NSoyDoc _ _) => true
  | PItem, NPrint _ arg dirs => wf KExpr arg && forallb (wf KDirective) dirs
  | PItem, NCss _ e _ => oall (wf KExpr) e
  | PItem, NLetValue _ _ e => wf KExpr e
  | PItem, NLetContent _ _ body => pwf PBlock body
  | PItem, NLog _ body => pwf PBlock body
  | PItem, NIf _ conds => forallb (pwf PIfCond) conds
  | PItem, NFor _ _ lst body ie => wf KExpr lst && pwf PBlock body && match ie with Some x => pwf PBlock x | None => true end
  | PItem, NSwitch _ v cases => wf KExpr v && forallb (pwf PCase) cases
  | PItem, NCall _ _ _ dat params => oall (wf KExpr) dat && forallb (pwf PParam) params
  | PItem, NMsg _ _ _ _ body => forallb (pwf PMsgItem) body
  | PItem, NTemplate _ _ body _ _ => pwf PBlock body
  | PItem, NMsgPlural _ _ v cases dflt => wf KExpr v && forallb (pwf PRawCase) cases && forallb (pwf PItem) dflt
  | PRawCase, NMsgPluralCase _ _ body => forallb (pwf PItem) body
  | PIfCond, NIfCond _ c body => oall (wf KExpr) c && pwf PBlock body
  | PCase, NSwitchCase _ vs body => forallb (wf KExpr) vs && pwf PBlock body
  | PParam, NParamValue _ _ v => wf KExpr v
  | PParam, NParamContent _ _ c => pwf PBlock c
  | PMsgItem, NRawText _ _ => true
  | PMsgItem, NMsgPlaceholder _ _ ph => pwf PItem ph
  | PMsgItem, NMsgPlural _ _ v cases dflt => wf KExpr v && forallb (pwf PPluralCase) cases && forallb (pwf PMsgItem) dflt
  | PPluralCase, NMsgPluralCase _ _ body => forallb (pwf PMsgItem) body
  | _, _ => false
  end.

(* the names of the calls below a node (commands only: an expression holds no call) *)
Fixpoint calls_of (n : node) {struct n} : list bstr :=
  match n with
  | NList _ l => flat_map calls_of l
  | NLog _ body => calls_of body
  | NIf _ conds => flat_map calls_of conds
  | NIfCond _ _ body => calls_of body
  | NFor _ _ _ body ie => calls_of body ++ match ie with Some x => calls_of x | None => [] end
  | NSwitch _ _ cases => flat_map calls_of cases
  | NSwitchCase _ _ body => calls_of body
  | NCall _ name _ _ params => name :: flat_map calls_of params
  | NParamContent _ _ c => calls_of c
  | NLetContent _ _ body => calls_of body
  | NMsg _ _ _ _ body => flat_map calls_of body
  | NMsgPlaceholder _ _ body => calls_of body
  | NMsgPlural _ _ _ cases dflt => flat_map calls_of cases ++ flat_map calls_of dflt
  | NMsgPluralCase _ _ body => flat_map calls_of body
  | NTemplate _ _ body _ _ => calls_of body
  | _ => []
  end.

(* ------------------------------------------------------------------ *)
(* namespace and aliases: the part of the parser state a call name depends on *)

Definition stt := (bstr * list (bstr * bstr))%type.
Definition st (s : cst) : stt := (c_ns s, c_al s).
Definition al_ext (al al' : list (bstr * bstr)) : Prop := exists pre, al' = pre ++ al.
(* the namespace is written once (empty, then fixed); the aliases only grow *)
Definition nle (a c : stt) : Prop := (fst a = [] \/ fst c = fst a) /\ al_ext (snd a) (snd c).

Lemma nle_refl a : nle a a.
Proof. split; [right; reflexivity | exists []; reflexivity]. Qed.
Lemma nle_trans a c d : nle a c -> nle c d -> nle a d.
Proof.
  intros [H1 [p1 E1]] [H2 [p2 E2]]. split.
  - destruct H1 as [H1|H1]; [left; exact H1|]. destruct H2 as [H2|H2]; [left; congruence | right; congruence].
  - exists (p2 ++ p1). rewrite E2, E1, app_assoc. reflexivity.
Qed.
Lemma nle_eq a c : c = a -> nle a c.
Proof. intros ->. apply nle_refl. Qed.
Lemma same_names_st s s' : same_names s s' -> st s' = st s.
Proof. intros [H1 H2]. unfold st. rewrite H1, H2. reflexivity. Qed.

(* facts that stay true however the state develops *)
Definition up (hi : stt) (P : stt -> Prop) : Prop := forall hi', nle hi hi' -> P hi'.
Lemma up_step hi hi' P : nle hi hi' -> up hi P -> up hi' P.
Proof. intros H K h Hh. apply K. eapply nle_trans; eassumption. Qed.

(* [name] is a written name resolved against a state between [lo] and [hi] *)
Definition resolved_in (lo hi : stt) (name : bstr) : Prop :=
  exists mid written, nle lo mid /\ nle mid hi /\ written <> [] /\ resolves (fst mid) (snd mid) written name.

Definition calls_in (lo : stt) (l : list bstr) (hi : stt) : Prop := up hi (fun h => Forall (resolved_in lo h) l).

Lemma calls_in_nil lo hi : calls_in lo [] hi.
Proof. intros h _. constructor. Qed.
Lemma calls_in_app lo l1 l2 hi : calls_in lo l1 hi -> calls_in lo l2 hi -> calls_in lo (l1 ++ l2) hi.
Proof. intros H1 H2 h Hh. apply Forall_app. split; [apply H1 | apply H2]; exact Hh. Qed.
Lemma calls_in_step lo l hi hi' : nle hi hi' -> calls_in lo l hi -> calls_in lo l hi'.
Proof. apply up_step. Qed.

(* ------------------------------------------------------------------ *)
(* postconditions *)

Definition post {A} (Q : A -> cst -> Prop) (r : cres A) : Prop :=
  match r with COk a s' => Q a s' | _ => True end.
(* the state moves up; [P] holds of the value and the final (namespace, aliases) *)
Definition stepr {A} (s : cst) (P : A -> stt -> Prop) (r : cres A) : Prop :=
  post (fun a s' => nle (st s) (st s') /\ P a (st s')) r.
Definition leaf {A} (s : cst) (r : cres A) : Prop := stepr s (fun _ _ => True) r.

Lemma stepr_bind {A B} s (P : A -> stt -> Prop) (Q : B -> stt -> Prop) (x : cres A) (f : A -> cst -> cres B) :
  stepr s P x ->
  (forall a s1, nle (st s) (st s1) -> P a (st s1) -> stepr s1 Q (f a s1)) ->
  stepr s Q (cbind x f).
Proof.
  destruct x as [a s1| | |]; cbn [cbind stepr post]; auto. intros [H1 H2] K. specialize (K a s1 H1 H2).
  destruct (f a s1) as [b0 s2| | |]; cbn [stepr post] in *; auto. destruct K as [K1 K2]. split; [|exact K2].
  eapply nle_trans; eassumption.
Qed.
Lemma stepr_weaken {A} s (P Q : A -> stt -> Prop) (r : cres A) :
  (forall a hi, nle (st s) hi -> P a hi -> Q a hi) -> stepr s P r -> stepr s Q r.
Proof. intros H. destruct r; cbn [stepr post]; auto. intros [H1 H2]. split; [exact H1 | apply H; assumption]. Qed.
Lemma stepr_ok {A} s (P : A -> stt -> Prop) a s' : st s' = st s -> P a (st s) -> stepr s P (COk a s').
Proof. intros E H. cbn [stepr post]. rewrite E. split; [apply nle_refl | exact H]. Qed.
Lemma stepr_same {A} s s' (Q : A -> stt -> Prop) (r : cres A) : st s' = st s -> stepr s' Q r -> stepr s Q r.
Proof. intros E. destruct r; cbn [stepr post]; auto. rewrite E. auto. Qed.
Lemma leaf_keeps {A} s (r : cres A) : keeps s r -> leaf s r.
Proof. destruct r; cbn; auto. intros H. split; [apply nle_eq, same_names_st, H | exact I]. Qed.
Lemma stepr_leaf {A} s (r : cres A) : leaf s r -> stepr s (fun _ _ => True) r.
Proof. exact (fun H => H). Qed.
Lemma stepr_never {A} s (P : A -> stt -> Prop) (r : cres A) : (forall a s', r <> COk a s') -> stepr s P r.
Proof. destruct r as [a s'| | |]; cbn; auto. intros H. exfalso. exact (H a s' eq_refl). Qed.

(* what a procedure that returns a node of shape [k] guarantees *)
Definition nodeP (k : pshape) (lo : stt) (n : node) (hi : stt) : Prop :=
  pwf k n = true /\ calls_in lo (calls_of n) hi.
(* ... a node without calls *)
Definition flatP (n : node) (_ : stt) : Prop := pwf PItem n = true /\ calls_of n = [].
Lemma flat_node lo n hi : flatP n hi -> nodeP PItem lo n hi.
Proof. intros [H1 H2]. split; [exact H1 | rewrite H2; apply calls_in_nil]. Qed.
(* the params of a call *)
Definition paramsP (lo : stt) (ps : list node) (hi : stt) : Prop :=
  forallb (pwf PParam) ps = true /\ calls_in lo (flat_map calls_of ps) hi.
(* a switch: the node is a SwitchNode whose cases are cases *)
Definition switchP (lo : stt) (n : node) (hi : stt) : Prop :=
  exists p v cs, n = NSwitch p v cs /\ wf KExpr v = true /\ forallb (pwf PCase) cs = true /\ calls_in lo (flat_map calls_of cs) hi.
Definition pluralP (lo : stt) (cd : list node * option (list node)) (hi : stt) : Prop :=
  forallb (pwf PRawCase) (fst cd) = true /\ calls_in lo (flat_map calls_of (fst cd)) hi /\
  match snd cd with Some d => forallb (pwf PItem) d = true /\ calls_in lo (flat_map calls_of d) hi | None => True end.
Definition optP (lo : stt) (o : option node) (hi : stt) : Prop :=
  match o with Some n => nodeP PItem lo n hi | None => True end.
Definition optBP (lo : stt) (o : option node) (hi : stt) : Prop :=
  match o with Some n => nodeP PBlock lo n hi | None => True end.

Lemma nodeP_step k lo n hi hi' : nle hi hi' -> nodeP k lo n hi -> nodeP k lo n hi'.
Proof. intros H [H1 H2]. split; [exact H1 | eapply calls_in_step; eassumption]. Qed.
Lemma paramsP_step lo n hi hi' : nle hi hi' -> paramsP lo n hi -> paramsP lo n hi'.
Proof. intros H [H1 H2]. split; [exact H1 | eapply calls_in_step; eassumption]. Qed.
Lemma switchP_step lo n hi hi' : nle hi hi' -> switchP lo n hi -> switchP lo n hi'.
Proof. intros H (p & v & cs & E & H1 & H2 & H3). exists p, v, cs. repeat split; try assumption. eapply calls_in_step; eassumption. Qed.
Lemma pluralP_step lo n hi hi' : nle hi hi' -> pluralP lo n hi -> pluralP lo n hi'.
Proof.
  intros H (H1 & H2 & H3). split; [exact H1|]. split; [eapply calls_in_step; eassumption|].
  destruct (snd n); [|exact I]. destruct H3 as [H3 H4]. split; [exact H3 | eapply calls_in_step; eassumption].
Qed.
Lemma optP_step lo n hi hi' : nle hi hi' -> optP lo n hi -> optP lo n hi'.
Proof. destruct n; [apply nodeP_step | auto]. Qed.
Lemma optBP_step lo n hi hi' : nle hi hi' -> optBP lo n hi -> optBP lo n hi'.
Proof. destruct n; [apply nodeP_step | auto]. Qed.

(* a step moves every fact about the old state to the new one *)
Ltac adv H :=
  repeat match goal with
  | K : calls_in _ _ (st ?s) |- _ =>
      match type of H with nle (st s) _ => apply (calls_in_step _ _ _ _ H) in K end
  | K : nodeP _ _ _ (st ?s) |- _ =>
      match type of H with nle (st s) _ => apply (nodeP_step _ _ _ _ _ H) in K end
  | K : paramsP _ _ (st ?s) |- _ =>
      match type of H with nle (st s) _ => apply (paramsP_step _ _ _ _ H) in K end
  | K : switchP _ _ (st ?s) |- _ =>
      match type of H with nle (st s) _ => apply (switchP_step _ _ _ _ H) in K end
  | K : pluralP _ _ (st ?s) |- _ =>
      match type of H with nle (st s) _ => apply (pluralP_step _ _ _ _ H) in K end
  | K : optP _ _ (st ?s) |- _ =>
      match type of H with nle (st s) _ => apply (optP_step _ _ _ _ H) in K end
  | K : optBP _ _ (st ?s) |- _ =>
      match type of H with nle (st s) _ => apply (optBP_step _ _ _ _ H) in K end
  | K : nle ?lo (st ?s) |- _ =>
      match type of H with nle (st s) _ =>
        lazymatch lo with st _ => fail | _ => apply (fun K' => nle_trans _ _ _ K' H) in K end
      end
  end.
Ltac sb :=
  eapply stepr_bind;
  [ | let a := fresh "a" in let s1 := fresh "s" in let Hs := fresh "Hs" in let Ha := fresh "Ha" in
      intros a s1 Hs Ha; cbv beta in Ha; adv Hs; clear Hs ].

Lemma forallb_snoc' {A} (f : A -> bool) l x : forallb f l = true -> f x = true -> forallb f (l ++ [x]) = true.
Proof. intros H K. rewrite forallb_app, H. cbn. rewrite K. reflexivity. Qed.
Lemma flat_map_snoc {A B} (f : A -> list B) l x : flat_map f (l ++ [x]) = flat_map f l ++ f x.
Proof. rewrite flat_map_app. cbn. rewrite app_nil_r. reflexivity. Qed.

(* ------------------------------------------------------------------ *)
(* placeholderize *)

Fixpoint psize (n : node) {struct n} : nat :=
  match n with
  | NMsgPlural _ _ _ cases dflt =>
      S (fold_right (fun x a => psize x + a)%nat 0%nat cases + fold_right (fun x a => psize x + a)%nat 0%nat dflt)
  | NMsgPluralCase _ _ body => S (fold_right (fun x a => psize x + a)%nat 0%nat body)
  | _ => 1%nat
  end.
Lemma psize_in x l : In x l -> (psize x <= fold_right (fun x a => psize x + a)%nat 0%nat l)%nat.
Proof. induction l as [|y r IH]; cbn [In fold_right]; [tauto|]. intros [->|H]; [lia|]. specialize (IH H). lia. Qed.

Lemma msg_raw_text_loop_ok f : forall pos txt,
  forallb (pwf PMsgItem) (msg_raw_text_loop f pos txt) = true /\ flat_map calls_of (msg_raw_text_loop f pos txt) = [].
Proof.
  induction f as [|f IH]; intros pos txt; cbn [msg_raw_text_loop]; [split; reflexivity|].
  destruct txt as [|c r]; [split; reflexivity|]. destruct (find_tag _ _) as [[st0 en]|]; [|split; reflexivity].
  destruct (IH (pos + N.of_nat st0 + N.of_nat (en - st0)) (drop en (c :: r))) as [H1 H2].
  destruct (0 <? st0)%nat; cbn [app forallb pwf flat_map calls_of]; rewrite H1, H2; split; reflexivity.
Qed.

Lemma plz_ok k : forall n, (psize n <= k)%nat -> pwf PItem n = true ->
  forallb (pwf PMsgItem) (plz n) = true /\ flat_map calls_of (plz n) = calls_of n.
Proof.
  induction k as [|k IH]; intros n Hk Hn; [destruct n; cbn [psize] in Hk; lia|].
  assert (Hl : forall l, (forall x, In x l -> (psize x <= k)%nat) -> forallb (pwf PItem) l = true ->
            forallb (pwf PMsgItem) ((fix go (l : list node) : list node := match l with [] => [] | x :: r => plz x ++ go r end) l) = true
            /\ flat_map calls_of ((fix go (l : list node) : list node := match l with [] => [] | x :: r => plz x ++ go r end) l)
               = flat_map calls_of l).
  { induction l as [|x r IHl]; intros Hs Hf; [split; reflexivity|].
    cbn [forallb] in Hf. apply andb_true_iff in Hf as [Hx Hr].
    destruct (IH x (Hs x (or_introl eq_refl)) Hx) as [A1 A2].
    destruct (IHl (fun y Hy => Hs y (or_intror Hy)) Hr) as [B1 B2].
    split; [rewrite forallb_app, A1, B1; reflexivity | rewrite flat_map_app, A2, B2; reflexivity]. }
  destruct n; cbn [pwf] in Hn; try discriminate;
    try (cbn [plz forallb pwf flat_map calls_of pos_of]; rewrite ?Hn, ?app_nil_r; split; reflexivity).
  - (* raw text *) unfold plz, msg_raw_text. apply msg_raw_text_loop_ok.
  - (* plural *)
    apply andb_true_iff in Hn as [Hn Hd]. apply andb_true_iff in Hn as [Hv Hc].
    cbn [psize] in Hk.
    destruct (Hl default) as [D1 D2]; [intros x Hx; pose proof (psize_in x default Hx); lia | exact Hd |].
    assert (Hcs : forall cs, (forall c, In c cs -> (psize c <= k)%nat) -> forallb (pwf PRawCase) cs = true ->
              forallb (pwf PPluralCase)
                ((fix goc (l : list node) : list node :=
                    match l with
                    | [] => []
                    | c :: r => match c with
                                | NMsgPluralCase cp cv body =>
                                    NMsgPluralCase cp cv
                                      ((fix go (l0 : list node) : list node := match l0 with [] => [] | x :: r0 => plz x ++ go r0 end) body)
                                | other => other
                                end :: goc r
                    end) cs) = true
              /\ flat_map calls_of
                   ((fix goc (l : list node) : list node :=
                       match l with
                       | [] => []
                       | c :: r => match c with
                                   | NMsgPluralCase cp cv body =>
                                       NMsgPluralCase cp cv
                                         ((fix go (l0 : list node) : list node := match l0 with [] => [] | x :: r0 => plz x ++ go r0 end) body)
                                   | other => other
                                   end :: goc r
                       end) cs) = flat_map calls_of cs).
    { induction cs as [|c r IHc]; intros Hs Hf; [split; reflexivity|].
      cbn [forallb] in Hf. apply andb_true_iff in Hf as [Hc0 Hr].
      destruct (IHc (fun y Hy => Hs y (or_intror Hy)) Hr) as [B1 B2].
      destruct c; cbn [pwf] in Hc0; try discriminate.
      pose proof (Hs _ (or_introl eq_refl)) as Hsz. cbn [psize] in Hsz.
      destruct (Hl body) as [A1 A2]; [intros x Hx; pose proof (psize_in x body Hx); lia | exact Hc0 |].
      split; [cbn [forallb pwf]; rewrite A1, B1; reflexivity | cbn [flat_map calls_of]; rewrite A2, B2; reflexivity]. }
    destruct (Hcs cases) as [C1 C2]; [intros c Hc0; pose proof (psize_in c cases Hc0); lia | exact Hc |].
    cbn [plz forallb pwf flat_map calls_of]. rewrite Hv, C1, D1, C2, D2, app_nil_r. split; reflexivity.
Qed.

Lemma plz_children_ok l : forallb (pwf PItem) l = true ->
  forallb (pwf PMsgItem) (plz_children l) = true /\ flat_map calls_of (plz_children l) = flat_map calls_of l.
Proof.
  induction l as [|x r IH]; intros Hf; [split; reflexivity|].
  cbn [forallb] in Hf. apply andb_true_iff in Hf as [Hx Hr].
  destruct (plz_ok (psize x) x (le_n _) Hx) as [A1 A2]. destruct (IH Hr) as [B1 B2].
  cbn [plz_children flat_map]. split; [rewrite forallb_app, A1, B1; reflexivity | rewrite flat_map_app, A2, B2; reflexivity].
Qed.

(* ------------------------------------------------------------------ *)
Section Shape.
Variable inlen : N.
Variable lexq : bstr -> list tok.
Variable unq : bstr -> option bstr.
Variable pexpr : nat -> N -> pst -> presult node.
Variable efuel : list tok -> nat.
(* the expression parser returns expressions (ScopeExprWf.parse_expr_wf for Model/ExprParser.v) *)
Hypothesis Hpexpr : forall f prec p n p', pexpr f prec p = POk n p' -> wf KExpr n = true.

Definition exprP (n : node) (_ : stt) : Prop := wf KExpr n = true.

Lemma leaf_next s : leaf s (c_next s). Proof. apply leaf_keeps, keeps_next. Qed.
Lemma leaf_peek s : leaf s (c_peek s). Proof. apply leaf_keeps, keeps_peek. Qed.
Lemma leaf_expect ty c s : leaf s (c_expect inlen ty c s). Proof. apply leaf_keeps, keeps_expect. Qed.
Lemma leaf_tail1 v s : leaf s (tail1 v s). Proof. apply leaf_keeps, keeps_tail1. Qed.
Lemma leaf_attrs f al acc s : leaf s (attrs_loop inlen unq f al acc s). Proof. apply leaf_keeps, keeps_attrs. Qed.
Lemma never_unexp {A} (P : A -> stt -> Prop) t c s s0 : stepr s P (@c_unexp inlen A t c s0).
Proof. apply stepr_never. intros a s'. apply unexp_not_ok. Qed.
Lemma never_errorf {A} (P : A -> stt -> Prop) c s s0 : stepr s P (@c_errorf inlen A c s0).
Proof. apply stepr_never. intros a s'. apply errorf_not_ok. Qed.

Lemma expr_lift f prec s : stepr s exprP (lift_expr inlen pexpr f prec s).
Proof.
  unfold lift_expr. destruct (pexpr f prec (c_p s)) eqn:E; try exact I.
  - apply stepr_ok; [reflexivity | exact (Hpexpr _ _ _ _ _ E)].
  - match goal with |- stepr _ _ (if ?c then _ else _) => destruct c end; exact I.
Qed.
Lemma expr_quoted str s : stepr s exprP (parse_quoted_expr inlen lexq pexpr efuel str s).
Proof.
  unfold parse_quoted_expr. destruct (3 <=? _)%nat; [exact I|].
  destruct (pexpr _ _ _) eqn:E; try exact I.
  - apply stepr_ok; [reflexivity | exact (Hpexpr _ _ _ _ _ E)].
  - match goal with |- stepr _ _ (if ?c then _ else _) => destruct c end; exact I.
Qed.

Ltac lb := sb; [ first [ apply leaf_next | apply leaf_peek | apply leaf_expect | apply leaf_tail1 | apply leaf_attrs ] | ].
Ltac nv := first [ apply never_unexp | apply never_errorf | exact I ].
Ltac okk := apply stepr_ok; [ reflexivity | ].

Lemma leaf_autoescape attrs s : leaf s (parse_autoescape inlen attrs s).
Proof. unfold parse_autoescape. destruct (assoc_s _ _); [okk; exact I | nv]. Qed.
Lemma leaf_bool_attr attrs k d s : leaf s (bool_attr inlen attrs k d s).
Proof.
  unfold bool_attr. destruct (attr k attrs); [|okk; exact I].
  destruct (bstr_eqb _ _); [okk; exact I|]. destruct (bstr_eqb _ _); [okk; exact I | nv].
Qed.
Lemma leaf_next_non_comment f : forall s, leaf s (next_non_comment f s).
Proof. induction f as [|f IH]; intros s; [exact I|]. cbn [next_non_comment]. lb. destruct (tis _ _); [apply IH | okk; exact I]. Qed.
Lemma leaf_skip_comments f : forall t s, leaf s (skip_comments f t s).
Proof. induction f as [|f IH]; intros t s; [exact I|]. cbn [skip_comments]. destruct (tis _ _); [|okk; exact I]. lb. apply IH. Qed.
Lemma leaf_text_run f : forall txt s, leaf s (text_run f txt s).
Proof. induction f as [|f IH]; intros txt s; [exact I|]. cbn [text_run]. lb. destruct (tis _ _); [apply IH | okk; exact I]. Qed.
Lemma flat_soydoc f : forall pos ps s, stepr s flatP (soydoc_loop inlen f pos ps s).
Proof.
  induction f as [|f IH]; intros pos ps s; [exact I|]. cbn [soydoc_loop]. lb.
  destruct (tis _ _); [apply IH|]. destruct (_ || _); [lb; apply IH|].
  destruct (tis _ _); [okk; split; reflexivity | nv].
Qed.
Lemma leaf_dotted f : forall name s, leaf s (dotted_name f name s).
Proof. induction f as [|f IH]; intros name s; [exact I|]. cbn [dotted_name]. lb. destruct (tis _ _); [apply IH | okk; exact I]. Qed.

(* {alias}: the aliases grow by one binding *)
Lemma leaf_alias f s : leaf s (parse_alias inlen f s).
Proof.
  destruct (parse_alias inlen f s) as [[] s'| | |] eqn:E; try exact I.
  destruct (parse_alias_binds inlen f s s' E) as (first & segs & Hn & Ha).
  cbn [leaf stepr post]. split; [|exact I]. unfold nle, st. cbn [fst snd]. split; [right; exact Hn|].
  exists [(alias_key first segs, alias_target first segs)]. exact Ha.
Qed.

(* {namespace}: only while the namespace is empty *)
Lemma keeps_dotted f : forall name s, keeps s (dotted_name f name s).
Proof.
  induction f as [|f IH]; intros name s; [exact I|]. cbn [dotted_name]. apply keeps_bind; [apply keeps_next|].
  intros t s1. destruct (tis _ _); [apply IH | split; reflexivity].
Qed.
Lemma keeps_autoescape attrs s : keeps s (parse_autoescape inlen attrs s).
Proof. unfold parse_autoescape. destruct (assoc_s _ _); [split; reflexivity | apply keeps_errorf]. Qed.

Lemma flat_namespace f token s : stepr s flatP (parse_namespace inlen unq f token s).
Proof.
  unfold parse_namespace. destruct (c_ns s) eqn:En; [|nv].
  match goal with |- stepr _ _ ?r => destruct r as [n s'| | |] eqn:E end; try exact I.
  apply cbind_ok in E as (id & s1 & E1 & E). apply cbind_ok in E as (name & s2 & E2 & E).
  apply cbind_ok in E as (attrs & s3 & E3 & E). apply cbind_ok in E as (ae & s4 & E4 & E).
  apply cbind_ok in E as (x & s5 & E5 & E). injection E as <- <-.
  pose proof (keeps_expect inlen pit_Ident x_namespace s) as K1. rewrite E1 in K1.
  pose proof (keeps_dotted f (t_val id) s1) as K2. rewrite E2 in K2.
  pose proof (keeps_attrs inlen unq f [k_autoescape] [] s2) as K3. rewrite E3 in K3.
  pose proof (keeps_autoescape attrs s3) as K4. rewrite E4 in K4.
  pose proof (keeps_expect inlen pit_RightDelim x_namespace s4) as K5. rewrite E5 in K5.
  destruct (same_names_trans _ _ _ (same_names_trans _ _ _ (same_names_trans _ _ _ (same_names_trans _ _ _ K1 K2) K3) K4) K5) as [_ Kal].
  cbn [stepr post]. split; [|split; reflexivity]. unfold nle, st. cbn [fst snd c_ns c_al set_ns].
  split; [left; exact En | exists []; exact Kal].
Qed.

(* ---- the procedures over parseExpr and itemList ---- *)
Ltac brk := cbv beta in *; repeat match goal with
  | H : nodeP _ _ _ _ |- _ => destruct H as [? ?]
  | H : paramsP _ _ _ |- _ => destruct H as [? ?]
  | H : flatP _ _ |- _ => destruct H as [? ?]
  | H : exprP _ _ |- _ => unfold exprP in H
  end.
Ltac bools := cbv beta in *; cbn [pwf forallb snd fst]; repeat match goal with H : _ = true |- _ => rewrite H end; try reflexivity;
  cbn [oall]; repeat match goal with H : _ = true |- _ => rewrite H end; try reflexivity.
Ltac callsg := cbn [calls_of flat_map fst snd]; rewrite ?flat_map_snoc, ?app_nil_r; cbn [calls_of]; rewrite ?app_nil_r;
  repeat (apply calls_in_app); first [ assumption | apply calls_in_nil ].
Ltac snoc := cbv beta in *; apply forallb_snoc'; [ assumption | bools ].
Ltac here sx :=
  match goal with |- stepr ?s0 _ _ =>
    let s1 := fresh "s" in let Hs := fresh "Hs" in
    apply (stepr_same s0 sx); [ reflexivity | ];
    assert (Hs : nle (st s0) (st sx)) by (apply nle_eq; reflexivity);
    set (s1 := sx) in *; clearbody s1; adv Hs; clear Hs
  end.

Section Level.
Variable pe : N -> cst -> cres node.
Variable w : list N -> cst -> cres node.
Variable lf : nat.
Hypothesis Hpe : forall prec s, stepr s exprP (pe prec s).
Hypothesis Hw : forall lo u s, nle lo (st s) -> stepr s (nodeP PBlock lo) (w u s).

Lemma args_directive f : forall args s, forallb (wf KExpr) args = true ->
  stepr s (fun a _ => forallb (wf KExpr) a = true) (directive_args pe f args s).
Proof.
  induction f as [|f IH]; intros args s Ha; [exact I|]. cbn [directive_args]. lb.
  destruct (_ || _); [|okk; exact Ha]. sb; [apply Hpe|]. apply IH. apply forallb_snoc'; assumption.
Qed.
Lemma flat_print_loop f : forall pos e ds s, wf KExpr e = true -> forallb (wf KDirective) ds = true ->
  stepr s flatP (cmd_print_loop inlen pe lf f pos e ds s).
Proof.
  induction f as [|f IH]; intros pos e ds s He Hd; [exact I|]. cbn [cmd_print_loop]. lb.
  destruct (tis _ _); [okk; split; [bools | reflexivity]|].
  destruct (tis _ _); [|nv]. lb. sb; [apply args_directive; reflexivity|].
  apply IH; [exact He|]. apply forallb_snoc'; [exact Hd | cbn [wf]; assumption].
Qed.
Lemma flat_print token s : stepr s flatP (cmd_print inlen pe lf token s).
Proof. unfold cmd_print. sb; [apply Hpe|]. apply flat_print_loop; [assumption | reflexivity]. Qed.

Lemma node_let lo token s : nle lo (st s) -> stepr s (nodeP PItem lo) (parse_let inlen unq pe w lf token s).
Proof.
  intros Hlo. unfold parse_let. lb. lb. destruct (tis _ _).
  - lb. sb; [apply Hpe|]. lb. lb. okk. brk. split; [bools | callsg].
  - lb. lb. destruct (tis _ _); [|nv]. sb; [apply (Hw lo); exact Hlo|]. lb. lb. okk. brk. split; [bools | callsg].
Qed.

Lemma flat_css token s : stepr s flatP (parse_css inlen lexq pexpr efuel token s).
Proof.
  unfold parse_css. lb. lb. destruct (last_index_of _ _); [|okk; split; reflexivity].
  sb; [apply expr_quoted|]. okk. brk. split; [bools | reflexivity].
Qed.

Lemma leaf_orphan f : forall t s, leaf s (orphan_text inlen lf f t s).
Proof.
  induction f as [|f IH]; intros t s; [exact I|]. cbn [orphan_text]. destruct (tis _ _); [|okk; exact I].
  destruct (rawtext_run _ _ _) as [[|? ?]| | | | |]; try exact I; [|nv].
  sb; [apply leaf_next_non_comment | apply IH].
Qed.

Lemma params_attr_form lo rec ps initial key0 s :
  (forall ps' s', nle lo (st s') -> paramsP lo ps' (st s') -> stepr s' (paramsP lo) (rec ps' s')) ->
  nle lo (st s) -> paramsP lo ps (st s) ->
  stepr s (paramsP lo) (param_attr_form inlen lexq unq pexpr efuel w lf rec ps initial key0 s).
Proof.
  intros Hrec Hlo HP. unfold param_attr_form. lb.
  sb; [instantiate (1 := fun _ _ => True); destruct key0; [destruct (attr _ _); [okk; exact I | nv] | okk; exact I]|].
  destruct (attr k_value _).
  - sb; [apply expr_quoted|]. lb. apply Hrec; [exact Hlo|]. brk. split; [snoc | callsg].
  - lb. sb; [apply (Hw lo); exact Hlo|]. lb. apply Hrec; [exact Hlo|]. brk. split; [snoc | callsg].
Qed.

Lemma params_loop lo f : forall ps s, nle lo (st s) -> paramsP lo ps (st s) ->
  stepr s (paramsP lo) (call_params_loop inlen lexq unq pexpr efuel pe w lf f ps s).
Proof.
  induction f as [|f IH]; intros ps s Hlo HP; [exact I|]. cbn [call_params_loop].
  sb; [apply leaf_next_non_comment|]. sb; [apply leaf_orphan|].
  destruct (negb _); [nv|]. lb. destruct (tis _ _); [okk; exact HP|]. destruct (negb _); [nv|].
  lb. lb.
  destruct (tis _ _).
  { sb; [apply Hpe|]. lb. apply IH; [exact Hlo|]. brk. split; [snoc | callsg]. }
  destruct (tis _ _).
  { sb; [apply (Hw lo); exact Hlo|]. lb. apply IH; [exact Hlo|]. brk. split; [snoc | callsg]. }
  destruct (tis _ _).
  { here (c_backup s4). apply params_attr_form; [intros; apply IH; assumption | exact Hlo | exact HP]. }
  destruct (tis _ _); [|nv].
  here (c_backup2 s4 a2). apply params_attr_form; [intros; apply IH; assumption | exact Hlo | exact HP].
Qed.

(* {call}: the node's name is a written name resolved against the state in force at the call *)
Lemma node_call lo token s : nle lo (st s) -> stepr s (nodeP PItem lo) (parse_call inlen lexq unq pexpr efuel pe w lf token s).
Proof.
  intros Hlo. unfold parse_call. sb; [apply leaf_keeps, keeps_call_name|]. lb.
  destruct (match a with [] => attr_or_empty k_name a0 | _ :: _ => a end) as [|c0 r0] eqn:En; [nv|].
  assert (Hres : calls_in lo [resolve_name s1 (c0 :: r0)] (st s1)).
  { intros h Hh. constructor; [|constructor]. exists (st s1), (c0 :: r0).
    split; [exact Hlo|]. split; [exact Hh|]. split; [discriminate|]. apply resolve_name_spec. }
  sb.
  { instantiate (1 := fun ad _ => oall (wf KExpr) (snd ad) = true).
    destruct (attr k_data _); [|okk; reflexivity]. destruct (bstr_eqb _ _); [okk; reflexivity|].
    sb; [apply expr_quoted|]. okk. assumption. }
  lb. destruct (tis _ _).
  { okk. split; [bools | cbn [calls_of flat_map]; exact Hres]. }
  destruct (tis _ _); [|nv].
  sb; [apply (params_loop lo); [exact Hlo | split; [reflexivity | apply calls_in_nil]]|].
  lb. lb. lb. okk. brk. split; [bools|].
  cbn [calls_of]. apply (calls_in_app lo [_]); assumption.
Qed.

Lemma node_case lo f : forall token vs s, nle lo (st s) -> forallb (wf KExpr) vs = true ->
  stepr s (nodeP PCase lo) (case_loop inlen pe w f token vs s).
Proof.
  induction f as [|f IH]; intros token vs s Hlo Hv; [exact I|]. cbn [case_loop].
  sb.
  { instantiate (1 := fun v1 _ => forallb (wf KExpr) v1 = true).
    destruct (tis _ _); [okk; exact Hv|]. sb; [apply Hpe|]. okk. apply forallb_snoc'; assumption. }
  lb. destruct (tis _ _); [apply IH; assumption|]. destruct (tis _ _); [|nv].
  sb; [apply (Hw lo); exact Hlo|]. okk. brk. split; [bools | callsg].
Qed.

Lemma switch_node lo n hi : switchP lo n hi -> nodeP PItem lo n hi.
Proof. intros (p & v & cs & -> & Hv & Hc & Hk). split; [bools | exact Hk]. Qed.

Lemma sw_loop lo f : forall pos endt v cs s, nle lo (st s) -> wf KExpr v = true ->
  forallb (pwf PCase) cs = true -> calls_in lo (flat_map calls_of cs) (st s) ->
  stepr s (switchP lo) (switch_loop inlen pe w lf f pos endt v cs s).
Proof.
  induction f as [|f IH]; intros pos endt v cs s Hlo Hv Hc Hk; [exact I|]. cbn [switch_loop]. lb.
  destruct (tis _ _); [apply IH; assumption|].
  destruct (tis _ _); [destruct (all_space _); [apply IH; assumption | nv]|].
  destruct (_ || _).
  { destruct (last_is_default _); [nv|]. sb; [apply (node_case lo); [exact Hlo | reflexivity]|].
    brk. apply IH; [exact Hlo | exact Hv | apply forallb_snoc'; assumption | callsg]. }
  destruct (tis _ _); [lb; okk; exists pos, v, cs; repeat split; assumption|].
  destruct (tis _ _); [apply IH; assumption | nv].
Qed.
Lemma sw_parse lo token endt s : nle lo (st s) -> stepr s (switchP lo) (parse_switch inlen pe w lf token endt s).
Proof.
  intros Hlo. unfold parse_switch. sb; [apply Hpe|]. lb.
  apply sw_loop; [exact Hlo | assumption | reflexivity | apply calls_in_nil].
Qed.

Lemma plural_cases_ok lo cs : forall cases d s, forallb (pwf PCase) cs = true -> calls_in lo (flat_map calls_of cs) (st s) ->
  pluralP lo (cases, d) (st s) -> stepr s (pluralP lo) (plural_cases inlen cs cases d s).
Proof.
  induction cs as [|c cs IH]; intros cases d s Hc Hk HP; cbn [plural_cases]; [okk; exact HP|].
  cbn [forallb] in Hc. apply andb_true_iff in Hc as [Hc0 Hcs].
  cbn [flat_map] in Hk.
  assert (Hk0 : calls_in lo (calls_of c) (st s)) by (intros h Hh; exact (proj1 (proj1 (Forall_app _ _ _) (Hk h Hh)))).
  assert (Hk1 : calls_in lo (flat_map calls_of cs) (st s)) by (intros h Hh; exact (proj2 (proj1 (Forall_app _ _ _) (Hk h Hh)))).
  destruct c; cbn [pwf] in Hc0; try discriminate.
  apply andb_true_iff in Hc0 as [Hvs Hb].
  match type of Hb with pwf PBlock ?bd = true => destruct bd; cbn [pwf] in Hb; try discriminate end. cbn [calls_of] in Hk0.
  destruct HP as (Q1 & Q2 & Q3). cbn [fst snd] in *.
  destruct values as [|v0 vr].
  { apply IH; [exact Hcs | exact Hk1|]. cbn [children_of]. split; [exact Q1|]. split; [exact Q2|]. cbn [snd]. split; assumption. }
  destruct v0; try nv. destruct vr; [|nv].
  apply IH; [exact Hcs | exact Hk1|]. cbn [children_of]. split; cbn [fst snd].
  - apply forallb_snoc'; [exact Q1 | exact Hb].
  - split; [|exact Q3]. rewrite flat_map_snoc. cbn [calls_of]. apply calls_in_app; assumption.
Qed.

Lemma node_plural lo tok s : nle lo (st s) -> stepr s (nodeP PItem lo) (parse_plural inlen pe w lf tok s).
Proof.
  intros Hlo. unfold parse_plural. destruct (negb _); [nv|]. sb; [apply (sw_parse lo); exact Hlo|].
  destruct Ha as (p & v & cs & -> & Hv & Hc & Hk).
  sb; [apply (plural_cases_ok lo); [exact Hc | exact Hk | split; [reflexivity | split; [apply calls_in_nil | exact I]]]|].
  destruct Ha as (Q1 & Q2 & Q3). destruct (snd a) as [d|]; [|nv]. destruct Q3 as [Q3 Q4]. okk. split; [bools | callsg].
Qed.

Lemma node_for lo token s : nle lo (st s) -> stepr s (nodeP PItem lo) (parse_for inlen pe w token s).
Proof.
  intros Hlo. unfold parse_for. lb. lb. destruct (negb _); [nv|].
  sb; [apply Hpe|]. lb. sb; [apply (Hw lo); exact Hlo|].
  here (c_backup s4). lb.
  sb.
  { instantiate (1 := optBP lo).
    destruct (tis _ _); [|okk; exact I]. lb. sb; [apply (Hw lo); exact Hlo|]. okk. assumption. }
  lb. lb. okk. brk.
  match goal with H : optBP _ ?o _ |- _ => destruct o as [ie|]; cbn [optBP] in H end; brk; (split; [bools | callsg]).
Qed.

Lemma node_if lo f : forall pos cs e s, nle lo (st s) -> forallb (pwf PIfCond) cs = true ->
  calls_in lo (flat_map calls_of cs) (st s) -> stepr s (nodeP PItem lo) (if_loop inlen pe w f pos cs e s).
Proof.
  induction f as [|f IH]; intros pos cs e s Hlo Hc Hk; [exact I|]. cbn [if_loop].
  sb.
  { instantiate (1 := fun c _ => oall (wf KExpr) c = true).
    destruct e; [okk; reflexivity|]. sb; [apply Hpe|]. okk. assumption. }
  lb. sb; [apply (Hw lo); exact Hlo|]. brk.
  match goal with |- stepr _ _ (cbind (c_next (c_backup ?sx)) _) => here (c_backup sx) end. lb.
  match goal with |- stepr ?sc _ ?g => match g with context [cs ++ [?c]] =>
    assert (Hc' : forallb (pwf PIfCond) (cs ++ [c]) = true) by snoc;
    assert (Hk' : calls_in lo (flat_map calls_of (cs ++ [c])) (st sc)) by callsg end end.
  destruct (tis _ _); [apply IH; assumption|]. destruct (tis _ _); [apply IH; assumption|].
  destruct (tis _ _); [lb; okk; split; [cbn [pwf]; exact Hc' | cbn [calls_of]; assumption] | apply IH; assumption].
Qed.

Lemma node_msg lo token s : nle lo (st s) -> stepr s (nodeP PItem lo) (parse_msg inlen unq w lf token s).
Proof.
  intros Hlo. unfold parse_msg. lb. destruct (attr k_desc _); [|nv]. lb.
  match goal with |- stepr _ _ (cbind (w _ ?sx) _) => here sx end.
  sb; [apply (Hw lo); exact Hlo|]. cbv zeta.
  match goal with |- context [set_inmsg ?sx false] => here (set_inmsg sx false) end.
  brk.
  destruct (_ && _); [nv|]. lb. okk.
  match goal with H : pwf PBlock ?n = true |- _ => destruct n; cbn [pwf] in H; try discriminate end.
  cbn [children_of calls_of] in *.
  match goal with H : forallb (pwf PItem) ?l = true |- _ => destruct (plz_children_ok l H) as [C1 C2] end.
  split; [cbn [pwf]; exact C1 | cbn [calls_of]; rewrite C2; assumption].
Qed.

Lemma node_template lo token s : nle lo (st s) -> stepr s (nodeP PItem lo) (parse_template inlen unq w lf token s).
Proof.
  intros Hlo. unfold parse_template. lb. lb. sb; [apply leaf_autoescape|]. sb; [apply leaf_bool_attr|]. lb.
  sb; [apply (Hw lo); exact Hlo|]. cbv zeta. lb. okk. brk. split; [bools | callsg].
Qed.

Lemma flat_header_param token s : stepr s flatP (parse_header_param inlen pe token s).
Proof.
  unfold parse_header_param. lb. lb. lb. lb.
  sb; [instantiate (1 := fun _ _ => True); destruct (tis _ _); [sb; [apply Hpe|]; okk; exact I | okk; exact I]|].
  lb. okk. split; reflexivity.
Qed.

Lemma opt_some lo s (r : cres node) : stepr s (nodeP PItem lo) r -> stepr s (optP lo) (cbind r (fun n s' => COk (Some n) s')).
Proof. intros H. eapply stepr_bind; [exact H|]. intros n s1 _ Hn. okk. exact Hn. Qed.
Lemma opt_flat lo s (r : cres node) : stepr s flatP r -> stepr s (optP lo) (cbind r (fun n s' => COk (Some n) s')).
Proof. intros H. apply opt_some. eapply stepr_weaken; [|exact H]. intros n hi _. apply flat_node. Qed.

Lemma opt_begin_tag lo s : nle lo (st s) -> stepr s (optP lo) (begin_tag inlen lexq unq pexpr efuel pe w lf s).
Proof.
  intros Hlo. unfold begin_tag. lb. rename a into token.
  destruct (tis token pit_Namespace); [apply opt_flat, flat_namespace|].
  destruct (tis token pit_Template); [apply opt_some, node_template; exact Hlo|].
  destruct (_ || _); [apply opt_flat, flat_header_param|].
  destruct (tis token pit_If); [unfold notmsg; destruct (c_inmsg _); [nv | apply opt_some, node_if; [exact Hlo | reflexivity | apply calls_in_nil]]|].
  destruct (tis token pit_Msg); [unfold notmsg; destruct (c_inmsg _); [nv | apply opt_some, node_msg; exact Hlo]|].
  destruct (tis token pit_Plural); [apply opt_some, node_plural; exact Hlo|].
  destruct (_ || _); [unfold notmsg; destruct (c_inmsg _); [nv | apply opt_some, node_for; exact Hlo]|].
  destruct (tis token pit_Switch).
  { unfold notmsg; destruct (c_inmsg _); [nv|]. apply opt_some. eapply stepr_weaken; [|apply (sw_parse lo); exact Hlo].
    intros n hi _. apply switch_node. }
  destruct (tis token pit_Call); [apply opt_some, node_call; exact Hlo|].
  destruct (tis token pit_Literal).
  { lb. lb. lb. lb. lb. okk. apply flat_node. split; reflexivity. }
  destruct (tis token pit_Css); [apply opt_flat, flat_css|].
  destruct (tis token pit_Log).
  { lb. sb; [apply (Hw lo); exact Hlo|]. lb. okk. brk. split; [bools | callsg]. }
  destruct (tis token pit_Debugger); [lb; okk; apply flat_node; split; reflexivity|].
  destruct (tis token pit_Let); [apply opt_some, node_let; exact Hlo|].
  destruct (tis token pit_Alias); [sb; [apply leaf_alias|]; okk; exact I|].
  destruct (assoc _ _); [lb; okk; apply flat_node; split; reflexivity|].
  destruct (one_of _ _).
  { apply opt_some. eapply stepr_weaken; [intros n hi _; apply flat_node|].
    match goal with |- stepr _ _ (cmd_print _ _ _ _ ?sx) => here sx end. apply flat_print. }
  destruct (tis token pit_Print); [apply opt_flat, flat_print | nv].
Qed.

Lemma opt_text_or_tag lo t0 until s : nle lo (st s) ->
  stepr s (fun r hi => optP lo (fst r) hi) (text_or_tag inlen lexq unq pexpr efuel pe w lf t0 until s).
Proof.
  intros Hlo. unfold text_or_tag. sb; [apply leaf_skip_comments|]. destruct (one_of _ _); [okk; exact I|].
  lb. destruct (_ && _); [okk; exact I|]. cbv zeta.
  destruct (tis _ _).
  { match goal with |- stepr _ _ (cbind (text_run _ _ ?sx) _) => here sx end.
    sb; [apply leaf_text_run|]. destruct (rawtext_run _ _ _) as [[|? ?]| | | | |]; try exact I; okk; [exact I|].
    apply flat_node. split; reflexivity. }
  destruct (tis _ _).
  { match goal with |- stepr _ _ (cbind (begin_tag _ _ _ _ _ _ _ _ ?sx) _) => here sx end.
    sb; [apply opt_begin_tag; exact Hlo|]. okk. assumption. }
  destruct (tis _ _); [|nv].
  match goal with |- stepr _ _ (cbind (soydoc_loop _ _ _ _ ?sx) _) => here sx end.
  sb; [apply flat_soydoc|]. okk. apply flat_node. assumption.
Qed.

Lemma block_item_list_loop lo f : forall unt pos acc s, nle lo (st s) ->
  forallb (pwf PItem) acc = true -> calls_in lo (flat_map calls_of acc) (st s) ->
  stepr s (nodeP PBlock lo) (item_list_loop inlen lexq unq pexpr efuel pe w lf f unt pos acc s).
Proof.
  induction f as [|f IH]; intros unt pos acc s Hlo Hc Hk; [exact I|]. cbn [item_list_loop]. lb.
  sb; [apply opt_text_or_tag; exact Hlo|]. cbv zeta. cbv beta in *.
  destruct (snd a0); [okk; split; [cbn [pwf]; exact Hc | cbn [calls_of]; exact Hk]|].
  destruct (fst a0) as [n|]; [|apply IH; assumption].
  cbn [optP] in *. brk. apply IH; [exact Hlo | apply forallb_snoc'; assumption | callsg].
Qed.
End Level.

(* itemList, for every budget: the tree is a block of the parser's shape and every call below it
   is resolved against a (namespace, aliases) between [lo] and the final state *)
Theorem item_list_shape fuel : forall lo unt s, nle lo (st s) ->
  stepr s (nodeP PBlock lo) (item_list inlen lexq unq pexpr efuel fuel unt s).
Proof.
  induction fuel as [|f IH]; intros lo unt s Hlo; [exact I|]. cbn [item_list].
  apply block_item_list_loop; [intros; apply expr_lift | intros; apply IH; assumption | exact Hlo | reflexivity | apply calls_in_nil].
Qed.
End Shape.
