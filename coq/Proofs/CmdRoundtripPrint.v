(* C17 at command level, part 3: the print command as beginTag reads it inside a template body
   (Model/Parser.v cmd_print / cmd_print_loop / directive_args: the command-level copy of
   parsePrint), on the items String() prints for it: "{", the expression, the directives with
   their arguments, "}". *)
From Soy Require Import Model.Bytes Model.Outcome Model.Ast Model.Token Model.RawText Model.ExprParser Model.Parser Generated.Tables
  Spec.ExprSyntax Spec.CmdSyntax Proofs.ExprParserRules Proofs.ExprParserProofs Proofs.CmdRoundtripBase Proofs.CmdRoundtripRules.
From Coq Require Import Lia.
Open Scope N_scope.

Section Print.
Variable inlen : N.
Variable lexq : bstr -> list tok.
Variable unq : bstr -> option bstr.
Variable efuel : list tok -> nat.

Notation PE g := (lift_expr inlen parse_expr g).
Notation IL g := (item_list inlen lexq unq parse_expr efuel g).
Notation BT g := (begin_tag inlen lexq unq parse_expr efuel (PE g) (IL g) g).
Notation Tag := (Tag inlen lexq unq efuel).

Definition CDArgs (args : list node) (ts : list tok) (args' : list node) (rest : list tok) : Prop :=
  CRun (fun g k s => directive_args (PE g) k args s) ts args' rest.
Definition CPLoop (p : N) (e : node) (dirs : list node) (ts : list tok) (n : node) (rest : list tok) : Prop :=
  CRun (fun g k s => cmd_print_loop inlen (PE g) g k p e dirs s) ts n rest.

Lemma directive_args_S pe f args s : directive_args pe (S f) args s =
  cbind (c_next s) (fun nx s1 =>
    if tis nx pit_Colon || tis nx pit_Comma then cbind (pe 0 s1) (fun a s2 => directive_args pe f (args ++ [a]) s2)
    else COk args (c_backup s1)).
Proof. reflexivity. Qed.

Lemma cmd_print_loop_S pe lf f pos expr dirs s : cmd_print_loop inlen pe lf (S f) pos expr dirs s =
  cbind (c_next s) (fun tok s1 =>
    if tis tok pit_RightDelim then COk (NPrint pos expr dirs) s1
    else if tis tok pit_Pipe then
      cbind (c_expect inlen pit_Ident x_directive s1) (fun id s2 =>
      cbind (directive_args pe lf [] s2) (fun args s3 =>
        cmd_print_loop inlen pe lf f pos expr (dirs ++ [NDirective (t_pos tok) (t_val id) args]) s3))
    else c_unexp inlen tok x_print s1).
Proof. reflexivity. Qed.

Lemma CDArgs_stop args t l :
  ((t_typ t =? pk_itemColon) || (t_typ t =? pk_itemComma)) = false -> CDArgs args (t :: l) args (t :: l).
Proof.
  intros Ht s Hs Hi Hm.
  cnext0 s Hs Hi p1 Hn1 Hs1 Hi1 Hsb1 Hib1.
  exists (p_backup p1). repeat (split; [assumption|]). exists 1%nat. intros g k _ Hk.
  destruct k as [|k]; [lia|]. rewrite directive_args_S, Hn1. cbn [cbind]. unfold tis.
  change pit_Colon with pk_itemColon. change pit_Comma with pk_itemComma. rewrite Ht. reflexivity.
Qed.

Lemma CDArgs_more args t l e l2 args' rest :
  ((t_typ t =? pk_itemColon) || (t_typ t =? pk_itemComma)) = true ->
  Parses 0 l e l2 -> CDArgs (args ++ [e]) l2 args' rest -> CDArgs args (t :: l) args' rest.
Proof.
  intros Ht HP HL s Hs Hi Hm.
  cnext0 s Hs Hi p1 Hn1 Hs1 Hi1 Hsb1 Hib1.
  cexprp inlen s p1 HP Hs1 Hi1 p2 Hs2 Hi2 f1 HF1.
  destruct (HL (set_p s p2) Hs2 Hi2 Hm) as (p' & H1 & H2 & f0 & HF).
  change (set_p (set_p s p2) p') with (set_p s p') in HF.
  exists p'. repeat (split; [assumption|]). exists (S (max f0 f1)). intros g k Hg Hk.
  destruct k as [|k]; [lia|]. rewrite directive_args_S, Hn1. cbn [cbind]. unfold tis.
  change pit_Colon with pk_itemColon. change pit_Comma with pk_itemComma. rewrite Ht.
  rewrite (HF1 g) by lia. cbn [cbind]. apply HF; lia.
Qed.

Lemma CPLoop_end p e dirs t l : t_typ t = pk_itemRightDelim -> CPLoop p e dirs (t :: l) (NPrint p e dirs) l.
Proof.
  intros Ht s Hs Hi Hm.
  cnext0 s Hs Hi p1 Hn1 Hs1 Hi1 Hsb1 Hib1.
  exists p1. repeat (split; [assumption|]). exists 1%nat. intros g k _ Hk.
  destruct k as [|k]; [lia|]. rewrite cmd_print_loop_S, Hn1. cbn [cbind].
  rewrite (tis_typ t _ _ Ht). dec_closed. reflexivity.
Qed.

Lemma CPLoop_dir p e dirs t id l args l2 n rest :
  t_typ t = pk_itemPipe -> t_typ id = pk_itemIdent ->
  CDArgs [] l args l2 ->
  CPLoop p e (dirs ++ [NDirective (t_pos t) (t_val id) args]) l2 n rest ->
  CPLoop p e dirs (t :: id :: l) n rest.
Proof.
  intros Ht Hid HD HL s Hs Hi Hm.
  cnext0 s Hs Hi p1 Hn1 Hs1 Hi1 Hsb1 Hib1.
  cexpectp inlen pit_Ident x_directive s p1 Hs1 Hi1 (Hid : t_typ id = pit_Ident) p2 He2 Hs2 Hi2.
  destruct (HD (set_p s p2) Hs2 Hi2 Hm) as (p3 & Hs3 & Hi3 & f1 & HF1).
  change (set_p (set_p s p2) p3) with (set_p s p3) in HF1.
  destruct (HL (set_p s p3) Hs3 Hi3 Hm) as (p' & H1 & H2 & f0 & HF).
  change (set_p (set_p s p3) p') with (set_p s p') in HF.
  exists p'. repeat (split; [assumption|]). exists (S (max f0 f1)). intros g k Hg Hk.
  destruct k as [|k]; [lia|]. rewrite cmd_print_loop_S, Hn1. cbn [cbind].
  rewrite !(tis_typ t _ _ Ht). dec_closed. rewrite He2. cbn [cbind].
  rewrite (HF1 g g) by lia. cbn [cbind]. apply HF; lia.
Qed.

(* ---- the chains over the items of Spec/ExprSyntax.v (minimal style) ---- *)
Lemma cdargs_chain path t rest :
  ((t_typ t =? pk_itemColon) || (t_typ t =? pk_itemComma)) = false -> closer t = true ->
  forall cs done i, allP wf_expr cs ->
  CDArgs done (List.concat (mapi_from (dir_arg_toks sty_min path) i cs) ++ t :: rest) (done ++ cs) (t :: rest).
Proof.
  intros Ht Hc. induction cs as [|c cs IH]; intros done i Hw.
  - cbn [mapi_from List.concat app]. rewrite app_nil_r. apply CDArgs_stop, Ht.
  - destruct Hw as [Hwc Hw]. rewrite mapi_from_cons. cbn [List.concat]. unfold dir_arg_toks at 1. cbn [app].
    rewrite <- app_assoc. specialize (IH (done ++ [c]) (S i) Hw). rewrite <- app_assoc in IH. cbn [app] in IH.
    destruct cs as [|c' cs'].
    + cbn [mapi_from List.concat app] in *.
      eapply CDArgs_more with (e := c); [destruct (Nat.eqb i 0); reflexivity | | exact IH].
      apply child_closed; [apply Good_all | exact Hwc | exact Hc].
    + rewrite mapi_from_cons in *. cbn [List.concat] in *. unfold dir_arg_toks at 1. unfold dir_arg_toks at 1 in IH.
      cbn [Nat.eqb app] in *. rewrite <- app_assoc in *.
      eapply CDArgs_more with (e := c); [destruct (Nat.eqb i 0); reflexivity | | exact IH].
      apply child_closed; [apply Good_all | exact Hwc | reflexivity].
Qed.

Lemma cploop_chain p e path rest : forall ds done i, allP wf_directive ds ->
  CPLoop p e done (List.concat (mapi_from (fun i d => show_directive sty_min (S i :: path) d) i ds) ++ T_rdelim :: rest)
         (NPrint p e (done ++ ds)) rest.
Proof.
  induction ds as [|d ds IH]; intros done i Hw.
  - cbn [mapi_from List.concat app]. rewrite app_nil_r. apply CPLoop_end. reflexivity.
  - destruct Hw as [Hwd Hw]. rewrite mapi_from_cons. cbn [List.concat].
    destruct (show_directive_shape sty_min (S i :: path) d Hwd) as (pd & name & args & -> & Hwa & ->).
    specialize (IH (done ++ [NDirective pd name args]) (S i) Hw). rewrite <- app_assoc in IH. cbn [app] in IH.
    cbn [app]. rewrite <- app_assoc.
    destruct ds as [|d' ds'].
    + cbn [mapi_from List.concat app] in *.
      eapply CPLoop_dir with (args := args); [reflexivity | reflexivity | | exact IH].
      exact (cdargs_chain (S i :: path) T_rdelim rest eq_refl eq_refl args [] 0%nat Hwa).
    + destruct Hw as [Hwd' Hw']. rewrite mapi_from_cons in *. cbn [List.concat] in *.
      destruct (show_directive_shape sty_min (S (S i) :: path) d' Hwd') as (pd' & name' & args' & -> & Hwa' & E').
      rewrite E' in *. cbn [app] in *.
      eapply CPLoop_dir with (args := args); [reflexivity | reflexivity | | exact IH].
      exact (cdargs_chain (S i :: path) (tk pk_itemPipe pd' [124]) _ eq_refl eq_refl args [] 0%nat Hwa).
Qed.

(* ---- beginTag on the first item of an expression: the implicit print ---- *)
Lemma begin_tag_implicit g k s p1 :
  mem (t_typ k) expr_start_types = true -> c_next s = COk k (set_p s p1) ->
  BT g s = cbind (cmd_print inlen (PE g) g k (set_p s (p_backup p1))) (fun n s' => COk (Some n) s').
Proof.
  intros Hmem Hn. unfold begin_tag. rewrite Hn. cbn [cbind].
  change (c_backup (set_p s p1)) with (set_p s (p_backup p1)).
  unfold mem, expr_start_types in Hmem. cbn [existsb] in Hmem.
  repeat (apply orb_true_iff in Hmem; destruct Hmem as [Hmem|Hmem]);
    try discriminate Hmem;
    apply N.eqb_eq in Hmem; rewrite !(tis_typ k _ _ Hmem); rewrite Hmem; dec_closed; reflexivity.
Qed.

Theorem Tag_print p arg dirs rest k l :
  wf_print (NPrint p arg dirs) -> p = first_pos (tokens_of_print (NPrint p arg dirs)) ->
  tokens_of_print (NPrint p arg dirs) ++ rest = k :: l ->
  Tag (k :: l) (NPrint p arg dirs) rest.
Proof.
  intros [Hwa Hwd] Hp E s Hs Hi Hm.
  cnext0 s Hs Hi p1 Hn1 Hs1 Hi1 Hsb1 Hib1.
  (* the first item starts an expression and carries the command's position *)
  destruct (show_starts_expression sty_min arg Hwa [0%nat] (sty_min [0%nat])) as (x & lx & Ex & Hx).
  assert (Hk : k = x /\ p = t_pos x).
  { unfold tokens_of_print in E, Hp. cbn [show_print] in E, Hp. rewrite Ex in E, Hp. cbn [app first_pos] in E, Hp.
    inversion E. split; congruence. }
  destruct Hk as [-> Hpx].
  (* the expression, then the directive loop *)
  pose proof (cploop_chain p arg [] rest dirs [] 0%nat Hwd) as HL. cbn [app] in HL.
  assert (HP : exists t0 l0, Parses 0 (x :: l) arg (t0 :: l0) /\
                 CPLoop p arg [] (t0 :: l0) (NPrint p arg dirs) rest).
  { rewrite <- E. unfold tokens_of_print. cbn [show_print]. rewrite <- !app_assoc. cbn [app].
    destruct dirs as [|d ds].
    - cbn [mapi_from List.concat app] in *. do 2 eexists. split; [|exact HL].
      apply child_closed; [apply Good_all | exact Hwa | reflexivity].
    - destruct Hwd as [Hd _]. rewrite mapi_from_cons in *. cbn [List.concat] in *.
      destruct (show_directive_shape sty_min [1%nat] d Hd) as (pd & name & args & -> & _ & Ed).
      rewrite Ed in *. cbn [app] in *. do 2 eexists. split; [|exact HL].
      apply child_closed; [apply Good_all | exact Hwa | reflexivity]. }
  destruct HP as (t0 & l0 & HP & HL').
  cexprp inlen s (p_backup p1) HP Hsb1 Hib1 p2 Hs2 Hi2 f1 HF1.
  destruct (HL' (set_p s p2) Hs2 Hi2 Hm) as (p' & H1 & H2 & f0 & HF).
  change (set_p (set_p s p2) p') with (set_p s p') in HF.
  exists p'. repeat (split; [assumption|]). exists (max f0 f1). intros g lf Hg _.
  rewrite (begin_tag_implicit g x s p1 Hx Hn1). unfold cmd_print.
  rewrite (HF1 g) by lia. cbn [cbind]. rewrite <- Hpx. rewrite (HF g g) by lia. reflexivity.
Qed.
End Print.
