(* C15, parser half for bodies in which comments and tags mix: itemList / textOrTag / beginTag on the items
   described by [mshape] (Proofs/LexBodyMixMain.v). *)
From Soy Require Import Model.Bytes Model.Utf8 Model.Outcome Model.Num Model.Values Model.Ast Model.Token Model.RawText
  Model.ExprParser Model.Parser Model.Lexer Generated.Tables Spec.Text Spec.TextBody Spec.TextMix
  Proofs.RawTextProofs Proofs.ExprParserRules Proofs.BodyTextSpec Proofs.LexBodyText Proofs.LexBodyTop Proofs.LexTokens
  Proofs.LexBodyMain Proofs.LexBodyMixMain Proofs.ParseBodyText Proofs.ParseBodySeg.
From Coq Require Import ZifyBool ZifyNat ZifyN Lia.
Open Scope N_scope.

(* the text of a body given by the pieces of its stretches *)
Fixpoint mix_out (rp : list (bstr * list bstr)) : bstr :=
  match rp with [] => [] | (o, pcs) :: rp' => o ++ norm_pieces false pcs ++ mix_out rp' end.

(* token plumbing (restated outside a section, so that no section variable is attached) *)
Lemma mx_next s t l : stream (c_p s) = t :: l -> inv (c_p s) ->
  exists s1, c_next s = COk t s1 /\ stream (c_p s1) = l /\ inv (c_p s1) /\
             stream (c_p (c_backup s1)) = t :: l /\ inv (c_p (c_backup s1)).
Proof.
  intros Hs Hi. destruct (next_spec _ _ _ Hs Hi) as (st1 & Hn & Hs1 & Hi1 & Hsb & Hib).
  exists (set_p s st1). unfold c_next. assert (E : (3 <=? p_peek (c_p s))%nat = false) by (unfold inv in Hi; apply Nat.leb_gt; lia).
  rewrite E, Hn. split; [reflexivity|]. cbn [c_p set_p c_backup]. auto.
Qed.

Lemma mx_skip_run : forall pre n c s t l, t_typ c = pit_Comment -> Forall is_comment pre -> t_typ t <> pit_Comment ->
  stream (c_p s) = pre ++ t :: l -> inv (c_p s) -> (length pre + 2 <= n)%nat ->
  exists s', skip_comments n c s = COk t s' /\ stream (c_p s') = l /\ inv (c_p s').
Proof.
  induction pre as [|c' pre IH]; intros n c s t l Hc Hpre Ht Hs Hi Hn; (destruct n as [|n]; [lia|]); cbn [skip_comments]; unfold tis at 1; rewrite Hc, N.eqb_refl.
  - cbn [app] in Hs. destruct (mx_next s t l Hs Hi) as (s1 & Hnx & Hs1 & Hi1 & _). rewrite Hnx. cbn [cbind].
    destruct n as [|n]; [cbn in Hn; lia|]. rewrite skip_non by exact Ht. eauto.
  - cbn [app] in Hs. destruct (mx_next s c' _ Hs Hi) as (s1 & Hnx & Hs1 & Hi1 & _). rewrite Hnx. cbn [cbind].
    inversion Hpre; subst. apply (IH n c' s1 t l); auto. cbn in Hn; lia.
Qed.

Lemma mx_no_nul_tail (x x' : bstr) : (x = x' \/ exists b, ws b = true /\ x = x' ++ [b]) -> no_nul x -> no_nul x'.
Proof. intros [->|(b & Hb & ->)] H; [exact H|]. unfold no_nul in *. apply Forall_app in H. tauto. Qed.

Lemma mx_special_types t o : assoc t parser_special_chars = Some o -> In t [79; 80; 81; 82; 83; 84; 85].
Proof.
  unfold parser_special_chars, assoc. intros H.
  repeat match type of H with (if (t =? ?k) then _ else _) = _ => destruct (N.eqb_spec t k) as [->|_]; [cbn; tauto|] end.
  discriminate.
Qed.

Lemma pshape_nonempty pcs its : pshape pcs its -> pcs <> [].
Proof. intros H. destruct H; discriminate. Qed.

Section P.
Variable inlen : N.
Variable lexq : bstr -> list tok.
Variable unq : bstr -> option bstr.
Variable pexpr : nat -> N -> pst -> presult node.
Variable efuel : list tok -> nat.
Variable pe : N -> cst -> cres node.
Variable w : list N -> cst -> cres node.
Variable lf : nat.
Notation loop := (item_list_loop inlen lexq unq pexpr efuel pe w lf).
Notation tot := (text_or_tag inlen lexq unq pexpr efuel pe w lf).
Notation btag := (begin_tag inlen lexq unq pexpr efuel pe w lf).

(* one iteration of itemList on a text item followed by a comment, "{" or EOF (Proofs/ParseBodyText.v text_iter
   with the fuel quantified last) *)
Lemma text_iter_all pre t nx l pos acc s : Forall is_comment pre -> t_typ t = pit_Text ->
  t_typ nx <> pit_Text ->
  stream (c_p s) = pre ++ t :: nx :: l -> inv (c_p s) -> (length pre + 2 <= lf)%nat ->
  exists pos1 s5, stream (c_p s5) = nx :: l /\ inv (c_p s5) /\
    forall rt, rawtext_run (t_val t) (flag pre) (tis nx pit_Comment) = Ok rt -> forall f,
      loop (S f) u_eof pos acc s =
      loop f u_eof (Some pos1) (match rt with [] => acc | _ => acc ++ [NRawText (t_pos t) rt] end) s5.
Proof.
  intros Hpre Ht Hnx Hs Hi Hlf.
  assert (Hne : t_typ t <> pit_Comment) by (rewrite Ht; discriminate).
  destruct pre as [|c pre].
  - cbn [app] in Hs. destruct (mx_next s t _ Hs Hi) as (s1 & Hnx1 & Hs1 & Hi1 & _).
    assert (Hsk : skip_comments lf t s1 = COk t s1) by (destruct lf as [|lf']; [lia|]; apply skip_non; exact Hne).
    destruct (tot_text inlen lexq unq pexpr efuel pe w lf t s1 s1 t nx l Hsk Ht Hnx Hs1 Hi1 ltac:(lia)) as (s5 & Hs5 & Hi5 & Hrun).
    exists (match pos with Some p => p | None => t_pos t end), s5.
    split; [exact Hs5|]. split; [exact Hi5|]. intros rt Hrt f. cbn [flag] in Hrt.
    assert (Hseen : tis t pit_Comment = false) by (unfold tis; rewrite Ht; reflexivity). rewrite Hseen in Hrun.
    cbn [item_list_loop]. rewrite Hnx1. cbn [cbind]. rewrite (Hrun rt Hrt). cbn [cbind snd fst]. destruct rt; reflexivity.
  - cbn [app] in Hs. destruct (mx_next s c _ Hs Hi) as (s1 & Hnx1 & Hs1 & Hi1 & _).
    inversion Hpre as [|? ? Hc Hpre']; subst.
    destruct (mx_skip_run pre lf c s1 t (nx :: l) Hc Hpre' Hne Hs1 Hi1 ltac:(cbn in Hlf; lia)) as (s2 & Hsk & Hs2 & Hi2).
    destruct (tot_text inlen lexq unq pexpr efuel pe w lf c s1 s2 t nx l Hsk Ht Hnx Hs2 Hi2 ltac:(lia)) as (s5 & Hs5 & Hi5 & Hrun).
    exists (match pos with Some p => p | None => t_pos c end), s5.
    split; [exact Hs5|]. split; [exact Hi5|]. intros rt Hrt f. cbn [flag] in Hrt.
    assert (Hseen : tis c pit_Comment = true) by (unfold tis; rewrite Hc; reflexivity). rewrite Hseen in Hrun.
    cbn [item_list_loop]. rewrite Hnx1. cbn [cbind]. rewrite (Hrun rt Hrt). cbn [cbind snd fst]. destruct rt; reflexivity.
Qed.

(* one iteration of itemList on comments, "{" and a token that does not end the list: beginTag's turn *)
Lemma ld_iter pre ld t2 l pos acc s : Forall is_comment pre -> t_typ ld = pit_LeftDelim -> one_of (t_typ t2) u_eof = false ->
  stream (c_p s) = pre ++ ld :: t2 :: l -> inv (c_p s) -> (length pre + 2 <= lf)%nat ->
  exists pos1 sb, stream (c_p sb) = t2 :: l /\ inv (c_p sb) /\
    forall n s', btag sb = COk (Some n) s' -> forall f, loop (S f) u_eof pos acc s = loop f u_eof (Some pos1) (acc ++ [n]) s'.
Proof.
  intros Hpre Hld Hce Hs Hi Hlf.
  assert (Hne : t_typ ld <> pit_Comment) by (rewrite Hld; discriminate).
  assert (H1 : one_of (t_typ ld) u_eof = false) by (rewrite Hld; reflexivity).
  assert (H2 : tis ld pit_Text = false) by (unfold tis; rewrite Hld; reflexivity).
  assert (H3 : tis ld pit_LeftDelim = true) by (unfold tis; rewrite Hld; reflexivity).
  assert (Hfin : forall token0 s1 s2, skip_comments lf token0 s1 = COk ld s2 -> stream (c_p s2) = t2 :: l -> inv (c_p s2) ->
            exists sb, stream (c_p sb) = t2 :: l /\ inv (c_p sb) /\
              forall n s', btag sb = COk (Some n) s' -> tot token0 u_eof s1 = COk (Some n, false) s').
  { intros token0 s1 s2 Hsk Hs2 Hi2. destruct (mx_next s2 t2 l Hs2 Hi2) as (s3 & Hn3 & Hs3 & Hi3 & Hsb & Hib).
    exists (c_backup s3). split; [exact Hsb|]. split; [exact Hib|]. intros n s' Hb.
    unfold text_or_tag. rewrite Hsk. cbn [cbind]. rewrite H1, Hn3. cbn [cbind]. rewrite Hce, Bool.andb_false_r.
    cbv zeta. rewrite H2, H3, Hb. reflexivity. }
  destruct pre as [|c pre].
  - cbn [app] in Hs. destruct (mx_next s ld _ Hs Hi) as (s1 & Hn1 & Hs1 & Hi1 & _).
    assert (Hsk : skip_comments lf ld s1 = COk ld s1) by (destruct lf; [lia|apply skip_non; exact Hne]).
    destruct (Hfin ld s1 s1 Hsk Hs1 Hi1) as (sb & Hsb & Hib & Hrun).
    exists (match pos with Some p => p | None => t_pos ld end), sb. split; [exact Hsb|]. split; [exact Hib|]. intros n s' Hb f.
    cbn [item_list_loop]. rewrite Hn1. cbn [cbind]. rewrite (Hrun n s' Hb). cbn [cbind snd fst]. reflexivity.
  - cbn [app] in Hs. destruct (mx_next s c _ Hs Hi) as (s1 & Hn1 & Hs1 & Hi1 & _).
    inversion Hpre as [|? ? Hc Hpre']; subst.
    destruct (mx_skip_run pre lf c s1 ld (t2 :: l) Hc Hpre' Hne Hs1 Hi1 ltac:(cbn in Hlf; lia)) as (s2 & Hsk & Hs2 & Hi2).
    destruct (Hfin c s1 s2 Hsk Hs2 Hi2) as (sb & Hsb & Hib & Hrun).
    exists (match pos with Some p => p | None => t_pos c end), sb. split; [exact Hsb|]. split; [exact Hib|]. intros n s' Hb f.
    cbn [item_list_loop]. rewrite Hn1. cbn [cbind]. rewrite (Hrun n s' Hb). cbn [cbind snd fst]. reflexivity.
Qed.

(* a tag: one iteration, whatever comments precede it *)
Lemma tag_iter_pre o tg : tagitems o tg -> forall pre l pos acc s, Forall is_comment pre ->
  stream (c_p s) = pre ++ tg ++ l -> inv (c_p s) -> (length pre + 2 <= lf)%nat ->
  exists pos1 p s', stream (c_p s') = l /\ inv (c_p s') /\
    forall f, loop (S f) u_eof pos acc s = loop f u_eof (Some pos1) (acc ++ [NRawText p o]) s'.
Proof.
  intros Htg pre l pos acc s Hpre Hs Hi Hlf. destruct Htg as [o ld c rd Hld Hc Hrd|o ld kw rd tx ld2 ke rd2 Hld Hkw Hrd Htx Hval Hld2 Hke Hrd2].
  - assert (Hce : one_of (t_typ c) u_eof = false).
    { pose proof (mx_special_types _ _ Hc) as Hin. cbn [In] in Hin. destruct Hin as [E|[E|[E|[E|[E|[E|[E|[]]]]]]]]; rewrite <- E; reflexivity. }
    cbn [app] in Hs. destruct (ld_iter pre ld c (rd :: l) pos acc s Hpre Hld Hce Hs Hi Hlf) as (pos1 & sb & Hsb & Hib & Hrun).
    destruct (begin_tag_special inlen lexq unq pexpr efuel pe w lf c rd l o sb Hsb Hib Hc Hrd) as (s' & Hb & Hs' & Hi').
    exists pos1, (t_pos c), s'. split; [exact Hs'|]. split; [exact Hi'|]. apply Hrun. exact Hb.
  - assert (Hce : one_of (t_typ kw) u_eof = false) by (rewrite Hkw; reflexivity).
    cbn [app] in Hs. destruct (ld_iter pre ld kw (rd :: tx :: ld2 :: ke :: rd2 :: l) pos acc s Hpre Hld Hce Hs Hi Hlf) as (pos1 & sb & Hsb & Hib & Hrun).
    destruct (begin_tag_literal inlen lexq unq pexpr efuel pe w lf kw rd tx ld2 ke rd2 l sb Hsb Hib Hkw Hrd Htx Hld2 Hke Hrd2) as (s' & Hb & Hs' & Hi').
    exists pos1, (t_pos tx), s'. split; [exact Hs'|]. split; [exact Hi'|]. rewrite <- Hval. apply Hrun. exact Hb.
Qed.

(* itemList over the items of one stretch, followed by an item [nx] that is neither text nor comment ("{" or
   EOF): after k iterations the loop is in front of [nx], the comments that follow the last text item still unread *)
Lemma stretch_nodes : forall pcs its, pshape pcs its -> Forall no_nul pcs ->
  forall pre, Forall is_comment pre -> forall nx l acc pos s,
  t_typ nx <> pit_Text -> t_typ nx <> pit_Comment ->
  stream (c_p s) = pre ++ its ++ nx :: l -> inv (c_p s) -> (length (pre ++ its) + 2 <= lf)%nat ->
  exists k pre' nodes pos' s', (k <= length its)%nat /\ Forall is_comment pre' /\ (length pre' <= length (pre ++ its))%nat /\
     Forall is_raw nodes /\ concat (map raw_text_of nodes) = norm_pieces (flag pre) pcs /\
     stream (c_p s') = pre' ++ nx :: l /\ inv (c_p s') /\
     forall f, loop (k + f) u_eof pos acc s = loop f u_eof pos' (acc ++ nodes) s'.
Proof.
  intros pcs its Hsh. induction Hsh as [x txt Htx|x x' txt c rest items' Htx Hx Hc Hsh IH];
    intros Hnn pre Hpre nx l acc pos s Hnt Hnc Hs Hi Hlf.
  - (* the last piece *)
    inversion Hnn as [|? ? Hnx _]; subst. rewrite norm_pieces_one.
    unfold is_text_of in Htx. destruct (droppable x) eqn:Ed.
    + subst txt. cbn [app] in *. exists 0%nat, pre, [], pos, s. split; [cbn; lia|]. split; [exact Hpre|]. split; [rewrite app_nil_r; lia|].
      split; [constructor|]. split; [cbn; symmetry; apply droppable_norm; exact Ed|]. split; [exact Hs|]. split; [exact Hi|].
      intros f. rewrite app_nil_r. reflexivity.
    + destruct Htx as (p & ->). set (t := {| t_typ := itemText; t_pos := p; t_val := x |}) in *. cbn [app] in *.
      assert (Hce : tis nx pit_Comment = false) by (unfold tis; apply N.eqb_neq; exact Hnc).
      pose proof (rawtext_run_spec x (flag pre) false Hnx) as Hrt.
      destruct (text_iter_all pre t nx l pos acc s Hpre eq_refl Hnt Hs Hi ltac:(rewrite app_length in Hlf; cbn in Hlf; lia))
        as (pos1 & s5 & Hs5 & Hi5 & Hrun).
      specialize (Hrun (normalize (flag pre) false x)). rewrite Hce in Hrun. specialize (Hrun Hrt).
      exists 1%nat, [], (match normalize (flag pre) false x with [] => [] | v => [NRawText (t_pos t) v] end), (Some pos1), s5.
      split; [cbn; lia|]. split; [constructor|]. split; [cbn; lia|].
      split; [destruct (normalize (flag pre) false x); constructor; [exact I|constructor]|].
      split; [destruct (normalize (flag pre) false x) eqn:En; cbn; [reflexivity|rewrite app_nil_r; reflexivity]|].
      split; [exact Hs5|]. split; [exact Hi5|]. intros f. change (1 + f)%nat with (S f). rewrite Hrun.
      destruct (normalize (flag pre) false x); [rewrite app_nil_r|]; reflexivity.
  - (* a piece followed by a comment *)
    inversion Hnn as [|? ? Hnx Hnr]; subst.
    pose proof (pshape_nonempty _ _ Hsh) as Hne. destruct rest as [|y rest']; [congruence|]. rewrite norm_pieces_cons.
    assert (Hc' : t_typ c = pit_Comment) by exact Hc.
    rewrite (norm_tail (flag pre) x x' Hx). pose proof (mx_no_nul_tail x x' Hx Hnx) as Hnx'.
    unfold is_text_of in Htx. destruct (droppable x') eqn:Ed.
    + subst txt. cbn [app] in *.
      assert (Hs' : stream (c_p s) = (pre ++ [c]) ++ items' ++ nx :: l) by (rewrite <- app_assoc; exact Hs).
      destruct (IH Hnr (pre ++ [c]) ltac:(apply Forall_app; split; [exact Hpre|constructor; [exact Hc'|constructor]]) nx l acc pos s Hnt Hnc Hs' Hi
                  ltac:(rewrite <- app_assoc; exact Hlf)) as (k & pre' & nodes & pos' & s' & Hk & Hpre' & Hlen & Hraw & Hcat & Hst & Hiv & Hrun).
      exists k, pre', nodes, pos', s'. split; [cbn [length]; lia|]. split; [exact Hpre'|]. split; [rewrite <- app_assoc in Hlen; exact Hlen|].
      split; [exact Hraw|]. split; [|split; [exact Hst|split; [exact Hiv|exact Hrun]]].
      rewrite Hcat, (droppable_norm _ _ _ Ed). destruct pre; reflexivity.
    + destruct Htx as (p & ->). set (t := {| t_typ := itemText; t_pos := p; t_val := x' |}) in *. cbn [app] in *.
      assert (Hs0 : stream (c_p s) = pre ++ t :: c :: (items' ++ nx :: l)) by exact Hs.
      destruct (text_iter_all pre t c (items' ++ nx :: l) pos acc s Hpre eq_refl ltac:(rewrite Hc'; discriminate) Hs0 Hi
                  ltac:(rewrite app_length in Hlf; cbn in Hlf; lia)) as (pos1 & s5 & Hs5 & Hi5 & Hrun).
      assert (Hcc : tis c pit_Comment = true) by (unfold tis; rewrite Hc'; reflexivity).
      specialize (Hrun (normalize (flag pre) true x')). rewrite Hcc in Hrun. specialize (Hrun (rawtext_run_spec x' (flag pre) true Hnx')).
      set (acc1 := match normalize (flag pre) true x' with [] => acc | _ => acc ++ [NRawText (t_pos t) (normalize (flag pre) true x')] end) in *.
      assert (Hs5' : stream (c_p s5) = [c] ++ items' ++ nx :: l) by exact Hs5.
      destruct (IH Hnr [c] ltac:(constructor; [exact Hc'|constructor]) nx l acc1 (Some pos1) s5 Hnt Hnc Hs5' Hi5
                  ltac:(rewrite app_length in Hlf; cbn in Hlf |- *; lia)) as (k & pre' & nodes & pos' & s' & Hk & Hpre' & Hlen & Hraw & Hcat & Hst & Hiv & Hrun2).
      cbn [flag] in Hcat.
      exists (S k), pre', (match normalize (flag pre) true x' with [] => nodes | v => NRawText (t_pos t) v :: nodes end), pos', s'.
      split; [cbn [length]; lia|]. split; [exact Hpre'|]. split; [rewrite app_length in *; cbn [length] in *; lia|].
      split; [destruct (normalize (flag pre) true x'); [exact Hraw|constructor; [exact I|exact Hraw]]|].
      split; [destruct (normalize (flag pre) true x') eqn:En; [exact Hcat|cbn [map raw_text_of concat]; rewrite Hcat; reflexivity]|].
      split; [exact Hst|]. split; [exact Hiv|]. intros f. change (S k + f)%nat with (S (k + f)). rewrite Hrun, Hrun2.
      unfold acc1. destruct (normalize (flag pre) true x'); [reflexivity|rewrite <- app_assoc; reflexivity].
Qed.

(* itemList over the items of a body *)
Lemma mshape_nodes : forall pcs rp items, mshape pcs rp items -> Forall no_nul pcs -> Forall (fun q => Forall no_nul (snd q)) rp ->
  forall pre, Forall is_comment pre -> forall f acc pos s,
  stream (c_p s) = pre ++ items -> inv (c_p s) -> (length (pre ++ items) + 2 <= lf)%nat -> (length items <= f)%nat ->
  exists pos' nodes s', loop f u_eof pos acc s = COk (NList pos' (acc ++ nodes)) s' /\ Forall is_raw nodes /\
     concat (map raw_text_of nodes) = norm_pieces (flag pre) pcs ++ mix_out rp.
Proof.
  intros pcs rp items Hsh. induction Hsh as [pcs its e Hps He|pcs its o tg pcs' rest items' Hps Htg Hsh IH];
    intros Hnn Hnr pre Hpre f acc pos s Hs Hi Hlf Hf.
  - assert (He' : t_typ e = pit_EOF) by exact He.
    destruct (stretch_nodes pcs its Hps Hnn pre Hpre e [] acc pos s ltac:(rewrite He'; discriminate) ltac:(rewrite He'; discriminate) Hs Hi
                ltac:(rewrite !app_length in *; cbn [length] in *; lia)) as (k & pre' & nodes & pos' & s' & Hk & Hpre' & Hlen & Hraw & Hcat & Hst & Hiv & Hrun).
    rewrite app_length in Hf. cbn [length] in Hf.
    replace f with (k + S (f - k - 1))%nat by lia. rewrite Hrun.
    destruct (eof_iter inlen lexq unq pexpr efuel pe w lf pre' e [] (f - k - 1) pos' (acc ++ nodes) s' Hpre' He' Hst Hiv
                ltac:(rewrite !app_length in *; cbn [length] in *; lia)) as (pos1 & s'' & Hrun2).
    exists pos1, nodes, s''. split; [exact Hrun2|]. split; [exact Hraw|]. cbn [mix_out]. rewrite app_nil_r. exact Hcat.
  - inversion Hnr as [|? ? Hnn' Hnr']; subst. cbn [snd] in Hnn'.
    assert (Htg0 : exists ld tg', tg = ld :: tg' /\ t_typ ld = pit_LeftDelim).
    { destruct Htg; eexists; eexists; split; try reflexivity; assumption. }
    destruct Htg0 as (ld & tg' & Etg & Hld).
    assert (Hs0 : stream (c_p s) = pre ++ its ++ ld :: (tg' ++ items')).
    { rewrite Hs, Etg. reflexivity. }
    assert (Hlt : (1 <= length tg)%nat) by (rewrite Etg; cbn; lia).
    destruct (stretch_nodes pcs its Hps Hnn pre Hpre ld (tg' ++ items') acc pos s ltac:(rewrite Hld; discriminate) ltac:(rewrite Hld; discriminate) Hs0 Hi
                ltac:(rewrite !app_length in *; lia)) as (k & pre' & nodes & pos' & s' & Hk & Hpre' & Hlen & Hraw & Hcat & Hst & Hiv & Hrun).
    assert (Hst' : stream (c_p s') = pre' ++ tg ++ items') by (rewrite Hst, Etg; reflexivity).
    destruct (tag_iter_pre o tg Htg pre' items' pos' (acc ++ nodes) s' Hpre' Hst' Hiv ltac:(rewrite !app_length in *; lia))
      as (pos1 & p & s2 & Hs2 & Hi2 & Hrun2).
    rewrite !app_length in Hf.
    replace f with (k + S (f - k - 1))%nat by lia. rewrite Hrun, Hrun2.
    destruct (IH Hnn' Hnr' [] ltac:(constructor) (f - k - 1)%nat ((acc ++ nodes) ++ [NRawText p o]) (Some pos1) s2 Hs2 Hi2
                ltac:(rewrite !app_length in *; cbn [app length] in *; lia) ltac:(lia)) as (pos2 & nodes2 & s3 & Hrun3 & Hraw3 & Hcat3).
    exists pos2, (nodes ++ NRawText p o :: nodes2), s3. split; [rewrite Hrun3, <- !app_assoc; reflexivity|].
    split; [apply Forall_app; split; [exact Hraw|constructor; [exact I|exact Hraw3]]|].
    rewrite map_app, concat_app. cbn [map raw_text_of concat mix_out flag] in *. rewrite Hcat, Hcat3, <- ?app_assoc. reflexivity.
Qed.

End P.
