(* C06, part 6: the recursion budget is only an approximation index.
   [walk cf f] approximates [walk cf (f + k)]: on every node and state it either
   runs out of fuel or gives the SAME outcome and final state.  So an answer
   (result, error value) obtained with some budget is the answer with every
   larger budget, and [OutOfFuel] never stands for anything but "a deeper
   nesting of calls than the budget".  Proof: the relational walker principle
   of Proofs/InterpRel.v with the guard that holds of every node. *)
From Coq Require Import Lia.
From Soy Require Import Model.Bytes Model.Num Model.Values Model.Outcome Model.Ast
  Model.Escape Model.Directives Model.Print Generated.Tables Model.Interp
  Proofs.InterpLogic Proofs.InterpGuard Proofs.InterpRel.
Open Scope N_scope.

(* the guard "every node" *)
Lemma deep_true : forall n, deep (fun _ => true) n = true.
Proof.
  fix IH 1. intros n.
  destruct n; cbn [deep andb deep_opt]; try reflexivity;
    repeat match goal with
    | |- context [deep (fun _ => true) ?x] => rewrite (IH x)
    end; cbn [andb];
    repeat match goal with
    | |- context [deep_opt _ ?o] => destruct o; cbn [deep_opt]; [rewrite IH|]; cbn [andb]
    end;
    repeat (apply andb_true_intro; split);
    try reflexivity;
    try match goal with
    | |- forallb (deep _) ?l = true =>
        induction l as [|a r IHr]; [reflexivity | cbn [forallb]; rewrite (IH a), IHr; reflexivity]
    | |- forallb (fun kv => deep _ (snd kv)) ?l = true =>
        induction l as [|[k e] r IHr]; [reflexivity | cbn [forallb snd]; rewrite (IH e), IHr; reflexivity]
    end.
Qed.

(* [m1] approximates [m2] *)
Definition approx {A} (m1 m2 : M A) : Prop :=
  forall st, fst (m1 st) = OutOfFuel \/ m1 st = m2 st.

Lemma approx_refl {A} (m : M A) : approx m m.
Proof. intros st. right. reflexivity. Qed.

Lemma approx_bind {A B} (m1 m2 : M A) (f1 f2 : A -> M B) :
  approx m1 m2 -> (forall x, approx (f1 x) (f2 x)) -> approx (mbind m1 f1) (mbind m2 f2).
Proof.
  intros Hm Hf st. unfold mbind. destruct (Hm st) as [Ho|He].
  - left. destruct (m1 st) as [r s]. cbn [fst] in Ho. subst r. reflexivity.
  - rewrite <- He. destruct (m1 st) as [[x|e|e| | | ] s]; try (right; reflexivity). apply Hf.
Qed.

Lemma approx_logic : walker_logic_r (fun _ => true) (@approx) (@approx value) (fun _ _ => True).
Proof.
  constructor; intros; try apply approx_refl.
  - (* ext *) intros st. rewrite <- H, <- H0. apply H1.
  - apply approx_bind; assumption.
  - (* read mode *) intros st. apply (H (mode st) st).
  - (* read ctx *) intros st. apply (H (ctx st) st).
  - (* scoped *)
    apply approx_bind; [apply approx_refl|]. intros _.
    apply approx_bind; [assumption|]. intros _. apply approx_refl.
  - (* eval *)
    intros st. rewrite !eval_eq. destruct (H st) as [Ho|He].
    + left. rewrite Ho. reflexivity.
    + right. rewrite He. reflexivity.
  - (* block *)
    intros st. rewrite !render_block_eq. destruct (H (buf_pushed st)) as [Ho|He].
    + left. rewrite Ho. reflexivity.
    + right. rewrite He. reflexivity.
  - (* enter *)
    intros st. rewrite !call_enter_eq. cbn zeta. destruct (H (entered st callee cd)) as [Ho|He].
    + left. cbn [fst]. rewrite Ho. reflexivity.
    + right. rewrite He. reflexivity.
Qed.

Lemma approx_pure_sites : pure_sites (fun _ _ => True).
Proof. constructor; intros; exact I. Qed.

Theorem walk_approx_S cf : forall f n, approx (walk cf f n) (walk cf (S f) n).
Proof.
  induction f as [|f IH]; intros n.
  - intros st. left. reflexivity.
  - rewrite (walk_S cf f n), (walk_S cf (S f) n).
    apply (rphi_walk_body cf (fun _ => true) (@approx) (@approx value) (fun _ _ => True)
             approx_logic approx_pure_sites (fun _ _ => eq_refl) (walk cf f) (walk cf (S f))).
    + intros c _. apply IH.
    + intros callee _. apply IH.
    + apply deep_true.
Qed.

Lemma approx_trans {A} (m1 m2 m3 : M A) : approx m1 m2 -> approx m2 m3 -> approx m1 m3.
Proof.
  intros H1 H2 st. destruct (H1 st) as [Ho|He]; [left; exact Ho|].
  rewrite He. apply H2.
Qed.

Theorem walk_approx cf f k n : approx (walk cf f n) (walk cf (f + k) n).
Proof.
  induction k as [|k IH].
  - rewrite Nat.add_0_r. apply approx_refl.
  - rewrite Nat.add_succ_r. eapply approx_trans; [exact IH | apply walk_approx_S].
Qed.

(* an answer is stable under more fuel *)
Theorem walk_fuel_monotone cf f f' n st r st' :
  (f <= f')%nat -> walk cf f n st = (r, st') -> r <> OutOfFuel -> walk cf f' n st = (r, st').
Proof.
  intros Hle H Hr. replace f' with (f + (f' - f))%nat by lia.
  destruct (walk_approx cf f (f' - f) n st) as [Ho|He].
  - rewrite H in Ho. cbn in Ho. contradiction.
  - rewrite <- He. exact H.
Qed.

(* ... and so is the whole render: outcome, accepted writes, reported file and line *)
Theorem render_fuel_monotone cf f f' name data_id data cl bl first_id :
  (f <= f')%nat ->
  rr_outcome (render cf f name data_id data cl bl first_id) <> OutOfFuel ->
  render cf f' name data_id data cl bl first_id = render cf f name data_id data cl bl first_id.
Proof.
  intros Hle. unfold render.
  destruct (find_template (r_templates (c_reg cf)) name) as [t|]; [|reflexivity].
  set (st0 := init_state _ _ _ _ _ _).
  destruct (walk cf f (t_node t) st0) as [r st] eqn:Hrun. intros Hr.
  assert (Hne : r <> OutOfFuel).
  { intros ->. apply Hr. reflexivity. }
  rewrite (walk_fuel_monotone cf f f' (t_node t) st0 r st Hle Hrun Hne). reflexivity.
Qed.
