(* C04, expressions: on the common subset the JavaScript the generator emits
   evaluates to the image of the value the Soy expression has. *)
From Soy Require Import Model.Bytes Model.Num Model.Values Model.Outcome Model.Ast Model.JsGen Model.MiniJS.
Open Scope N_scope.

(* ---- small facts ---- *)
Lemma assoc_s_map_to_js k (m : list (bstr * value)) :
  assoc_s k (map (fun kv => (fst kv, to_js (snd kv))) m) = option_map to_js (assoc_s k m).
Proof.
  induction m as [|[k' v] m IH]; [reflexivity|]. cbn [map fst snd assoc_s option_map].
  destruct (bstr_eqb k k'); [reflexivity|exact IH].
Qed.

Lemma js_member_obj m k : js_member (to_js (VMap 0 m)) k = Ok (to_js (map_key m k)).
Proof.
  cbn [to_js js_member]. rewrite assoc_s_map_to_js. unfold map_key. destruct (assoc_s k m); reflexivity.
Qed.

Lemma js_index_arr l i : js_index (JArr (map to_js l)) i = Ok (to_js (list_index l i)).
Proof.
  cbn [js_index]. unfold list_index. rewrite map_length.
  destruct ((i <? 0)%Z || (Z.of_nat (length l) <=? i)%Z); [reflexivity|].
  rewrite nth_error_map. destruct (nth_error l (Z.to_nat i)); reflexivity.
Qed.

Lemma core_list_index l i : forallb core_value l = true -> core_value (list_index l i) = true.
Proof.
  intro H. unfold list_index. destruct ((i <? 0)%Z || (Z.of_nat (length l) <=? i)%Z); [reflexivity|].
  destruct (nth_error l (Z.to_nat i)) as [x|] eqn:E; [|reflexivity].
  apply nth_error_In in E. exact (proj1 (forallb_forall _ _) H x E).
Qed.
Lemma core_map_key m k : forallb (fun kv : bstr * value => core_value (snd kv)) m = true -> core_value (map_key m k) = true.
Proof.
  intro H. unfold map_key. destruct (assoc_s k m) as [x|] eqn:E; [|reflexivity].
  induction m as [|[k' v] m IH]; [discriminate|]. cbn [assoc_s] in E. cbn [forallb snd] in H.
  apply andb_prop in H. destruct H as [H1 H2]. destruct (bstr_eqb k k'). inversion E; subst; exact H1. apply IH; assumption.
Qed.

Lemma truthy_js v : core_value v = true -> js_truthy (to_js v) = truthy v.
Proof. destruct v; try reflexivity; try discriminate. Qed.
Lemma nullish_js v : core_value v = true -> js_nullish (to_js v) = c_nullish v.
Proof. destruct v; try reflexivity; try discriminate. Qed.

Lemma bstr_eqb_refl' x : bstr_eqb x x = true.
Proof. induction x as [|a x IH]; [reflexivity|]. cbn. rewrite N.eqb_refl. exact IH. Qed.
Lemma assoc_s_aset {A} k (v : A) (l : list (bstr * A)) : assoc_s k (aset l k v) = Some v.
Proof.
  induction l as [|[k' x] l IH]; cbn [aset assoc_s]. rewrite bstr_eqb_refl'. reflexivity.
  destruct (bstr_eqb k k') eqn:Ek; cbn [assoc_s]; rewrite ?Ek, ?bstr_eqb_refl'; [reflexivity|exact IH].
Qed.

#[local] Arguments assoc_s {A} k l : simpl never.

(* ---- the relation between the Soy scope and the JavaScript environment ---- *)
Section JsCorrect.
Variable sc : list (list (bstr * bstr)).      (* the generator's scope stack *)
Variable ij : option value.
Variable env : bstr -> option value.
Variable je : jenv.

Definition env_val (key : bstr) : value := match env key with Some v => v | None => VUndef end.

(* every Soy variable is found where the generator will look for it: in the
   generated variable the scope maps it to, or in opt_data; the injected data
   is opt_ijData; everything is core data *)
Record env_rel : Prop := {
  er_var : forall key, is_ident key = true -> bstr_eqb key n_ij = false ->
             match jsc_lookup sc key with
             | [] => js_member (je_data je) key = Ok (to_js (env_val key))
             | g => assoc_s g (je_vars je) = Some (to_js (env_val key))
             end;
  er_ij : forall v, ij = Some v -> assoc_s t_opt_ij (je_vars je) = Some (to_js v);
  er_core : forall key, core_value (env_val key) = true;
  er_core_ij : forall v, ij = Some v -> core_value v = true;
  (* inside a loop over $x (the renderer's hidden $x.index is bound) the generator's scope has a loop frame for x,
     whose index variable holds the position and whose limit variable holds the count *)
  er_loop : forall x i, env (x ++ jk_index) = Some (VInt i) ->
              fst (jsc_loop sc x) <> [] /\ assoc_s (fst (jsc_loop sc x)) (je_vars je) = Some (JNum i)
              /\ forall l, env (x ++ c_lastindex) = Some (VInt l) -> assoc_s (snd (jsc_loop sc x)) (je_vars je) = Some (JNum (l + 1));
}.
Hypothesis ER : env_rel.

Lemma cgen_ref_correct accs : forall r rj v, js_eval je rj = Ok (to_js r) -> core_value r = true ->
  cacc_eval accs r = Some v -> js_eval je (cgen_ref accs rj) = Ok (to_js v) /\ core_value v = true.
Proof.
  induction accs as [|a rest IH]; intros r rj v Hj Hc E; cbn [cacc_eval cgen_ref] in *.
  - inversion E; subst. auto.
  - assert (Hstep : forall r', js_eval je (cacc_apply rj a) = Ok (to_js r') -> core_value r' = true ->
              cacc_eval rest r' = Some v -> c_nullish r = false ->
              js_eval je (if cacc_ns a then JENullSafe rj (cgen_ref rest (cacc_apply rj a)) else cgen_ref rest (cacc_apply rj a)) = Ok (to_js v)
              /\ core_value v = true).
    { intros r' Hj' Hc' E' Hn. destruct (IH r' _ v Hj' Hc' E') as [H1 H2]. split; [|exact H2].
      destruct (cacc_ns a); [|exact H1]. cbn [js_eval]. rewrite Hj. cbn [bind]. rewrite nullish_js, Hn by exact Hc. exact H1. }
    destruct r; try discriminate.
    + (* undefined *) destruct (cacc_ns a); [|discriminate]. inversion E; subst. cbn [js_eval]. rewrite Hj. cbn. auto.
    + (* null *) destruct (cacc_ns a); [|discriminate]. inversion E; subst. cbn [js_eval]. rewrite Hj. cbn. auto.
    + (* list *) destruct a as [ns k|ns i]; [discriminate|]. cbn [core_value] in Hc.
      apply (Hstep (list_index l i)); auto.
      cbn [cacc_apply js_eval]. rewrite Hj. cbn [bind to_js]. apply js_index_arr. apply core_list_index; exact Hc.
    + (* map *) destruct a as [ns k|ns i]; [|discriminate]. cbn [core_value] in Hc.
      apply (Hstep (map_key m k)); auto.
      cbn [cacc_apply js_eval]. rewrite Hj. cbn [bind]. apply (js_member_obj m k). apply core_map_key; exact Hc.
Qed.

Lemma cint_inv z v : cint z = Some v -> v = VInt z /\ small z = true.
Proof. unfold cint. destruct (small z) eqn:E; intro H; inversion H; auto. Qed.

(* gen_expr_correct_partial: on the common subset (ceval gives Some) the
   generated JavaScript expression evaluates to the image of the Soy value *)
Theorem cgen_correct e : forall v, ceval ij env e = Some v ->
  js_eval je (cgen sc e) = Ok (to_js v) /\ core_value v = true.
Proof.
  induction e as [| x | z | s | key accs | a IHa | a IHa | op a IHa c IHc | c IHc a IHa d IHd | k x]; intros v E; cbn [ceval cgen] in *.
  - inversion E; subst. auto.
  - inversion E; subst. auto.
  - apply cint_inv in E. destruct E as [-> Hs]. cbn. auto.
  - inversion E; subst. auto.
  - (* variable *)
    destruct (is_ident key) eqn:Eid; [|discriminate].
    destruct (bstr_eqb key n_ij) eqn:Ek.
    + destruct ij as [iv|] eqn:Eij; [|discriminate].
      apply (cgen_ref_correct accs iv); auto. cbn [js_eval]. rewrite (er_ij ER iv Eij). reflexivity. apply (er_core_ij ER); exact Eij.
    + apply (cgen_ref_correct accs (env_val key)); auto; [|apply (er_core ER)].
      pose proof (er_var ER key Eid Ek) as H. destruct (jsc_lookup sc key) as [|g0 g] eqn:El; cbn [js_eval].
      * exact H.
      * rewrite H. reflexivity.
  - (* neg *)
    destruct (ceval ij env a) as [[| | |z| | | |]|] eqn:Ea; try discriminate.
    destruct (IHa _ eq_refl) as [Ha _]. apply cint_inv in E. destruct E as [-> Hs].
    cbn [js_eval]. rewrite Ha. cbn [bind to_js]. unfold js_num. rewrite Hs. auto.
  - (* not *)
    destruct (ceval ij env a) as [x|] eqn:Ea; [|discriminate]. inversion E; subst.
    destruct (IHa _ eq_refl) as [Ha Hc]. cbn [js_eval]. rewrite Ha. cbn [bind]. rewrite truthy_js by exact Hc. auto.
  - (* binary *)
    destruct op;
      try (destruct (ceval ij env a) as [x|] eqn:Ea; [|discriminate]; destruct (ceval ij env c) as [y|] eqn:Ec; [|discriminate];
           destruct (IHa _ eq_refl) as [Ha Hca]; destruct (IHc _ eq_refl) as [Hb Hcb];
           cbn [cgen_binop js_eval]; rewrite Ha; cbn [bind]; rewrite Hb; cbn [bind];
           destruct x; try discriminate; destruct y; try discriminate; cbn [to_js js_binop];
           try (apply cint_inv in E; destruct E as [-> Hs]; unfold js_num; rewrite Hs; auto; fail);
           try (inversion E; subst; auto; fail)).
    + (* mod *)
      destruct (z0 =? 0)%Z; [discriminate|]. apply cint_inv in E. destruct E as [-> Hs]. unfold js_num. rewrite Hs. auto.
    + (* or *)
      destruct (ceval ij env a) as [[| |[|]| | | | |]|] eqn:Ea; try discriminate; destruct (IHa _ eq_refl) as [Ha _];
        cbn [cgen_binop js_eval]; rewrite Ha; cbn [bind to_js js_truthy].
      * inversion E; subst. auto.
      * destruct (ceval ij env c) as [[| |y| | | | |]|] eqn:Ec; try discriminate. inversion E; subst. destruct (IHc _ eq_refl) as [Hb _]. auto.
    + (* and *)
      destruct (ceval ij env a) as [[| |[|]| | | | |]|] eqn:Ea; try discriminate; destruct (IHa _ eq_refl) as [Ha _];
        cbn [cgen_binop js_eval]; rewrite Ha; cbn [bind to_js js_truthy].
      * destruct (ceval ij env c) as [[| |y| | | | |]|] eqn:Ec; try discriminate. inversion E; subst. destruct (IHc _ eq_refl) as [Hb _]. auto.
      * inversion E; subst. auto.
    + (* elvis *)
      destruct (ceval ij env a) as [x|] eqn:Ea; [|discriminate]. destruct (IHa _ eq_refl) as [Ha Hca].
      cbn [js_eval]. rewrite Ha. cbn [bind]. rewrite nullish_js by exact Hca.
      destruct (c_nullish x). apply IHc; exact E. inversion E; subst. auto.
  - (* ternary *)
    destruct (ceval ij env c) as [x|] eqn:Ec; [|discriminate]. destruct (IHc _ eq_refl) as [Hc Hcc].
    cbn [js_eval]. rewrite Hc. cbn [bind]. rewrite truthy_js by exact Hcc.
    destruct (truthy x); [apply IHa|apply IHd]; exact E.
  - (* loop function *)
    destruct (env (x ++ jk_index)) as [[| | |i| | | |]|] eqn:Ei; try discriminate.
    destruct (er_loop ER x i Ei) as (Hne & Hix & Hlim).
    pose proof (er_core ER (x ++ jk_index)) as Hci. unfold env_val in Hci. rewrite Ei in Hci.
    destruct (jsc_loop sc x) as [ix lim]. cbn [fst snd] in *. destruct k.
    + inversion E; subst. cbn [js_eval]. rewrite Hix. auto.
    + inversion E; subst. cbn [js_eval]. rewrite Hix. auto.
    + destruct (env (x ++ c_lastindex)) as [[| | |l| | | |]|] eqn:El; try discriminate. inversion E; subst.
      pose proof (er_core ER (x ++ c_lastindex)) as Hcl. unfold env_val in Hcl. rewrite El in Hcl.
      cbn [js_eval]. rewrite Hix, (Hlim l eq_refl). replace (l + 1 - 1)%Z with l by lia.
      change (core_value (VInt l)) with (small l) in Hcl. rewrite Hcl. auto.
Qed.
End JsCorrect.

(* ------------------------------------------------------------------ *)
(* ceval is the Soy meaning: Model/Interp.v's walker returns the same value *)
From Soy Require Import Model.Escape Model.Directives Model.Print Generated.Tables Model.Interp Proofs.ValueProofs.

Lemma wrap64_small z : small z = true -> wrap64 z = z.
Proof.
  unfold small, wrap64, two53, two63, two64. intro H. apply Z.leb_le in H.
  rewrite Z.mod_small by lia. lia.
Qed.

Lemma fl_cmp_small x y : small x = true -> small y = true ->
  match fl_of_int x, fl_of_int y with
  | Some f, Some g => fl_cmp f g = Some (Z.compare x y)
  | _, _ => False
  end.
Proof.
  unfold small. intros Hx Hy. apply Z.leb_le in Hx, Hy.
  pose proof (fl_of_int_small x Hx) as Sx. pose proof (fl_of_int_small y Hy) as Sy.
  destruct (fl_of_int x) as [[| |[|]|q k]|]; try contradiction;
    destruct (fl_of_int y) as [[| |[|]|m e]|]; try contradiction; cbn [fl_cmp].
  - subst. reflexivity.
  - destruct Sy as (He & -> & Hm). subst x. assert (0 < 2 ^ e)%Z by (apply pow2_pos; lia).
    destruct (Z.ltb_spec m 0); f_equal; symmetry; [apply Z.compare_gt_iff|apply Z.compare_lt_iff]; nia.
  - destruct Sx as (Hk & -> & Hq). subst y. assert (0 < 2 ^ k)%Z by (apply pow2_pos; lia).
    destruct (Z.ltb_spec q 0); f_equal; symmetry; [apply Z.compare_lt_iff|apply Z.compare_gt_iff]; nia.
  - destruct Sx as (Hk & -> & Hq). destruct Sy as (He & -> & Hm). f_equal.
    set (mn := Z.min k e).
    assert (Hmn : (0 <= mn /\ mn <= k /\ mn <= e)%Z) by (subst mn; lia).
    assert (Hp : (0 < 2 ^ mn)%Z) by (apply pow2_pos; lia).
    replace (2 ^ k)%Z with (2 ^ (k - mn) * 2 ^ mn)%Z by (rewrite <- Z.pow_add_r by lia; f_equal; lia).
    replace (2 ^ e)%Z with (2 ^ (e - mn) * 2 ^ mn)%Z by (rewrite <- Z.pow_add_r by lia; f_equal; lia).
    rewrite !Z.mul_assoc. apply Zmult_compare_compat_r. lia.
Qed.

Lemma compare_small op p q : small p = true -> small q = true ->
  compare_op op (VInt p) (VInt q)
  = Ok (VBool (match op with OLt => (p <? q)%Z | OLte => (p <=? q)%Z | OGt => (q <? p)%Z | OGte => (q <=? p)%Z | _ => false end)).
Proof.
  intros Hp Hq. unfold compare_op, to_float.
  pose proof (fl_cmp_small p q Hp Hq) as H1. pose proof (fl_cmp_small q p Hq Hp) as H2.
  destruct (fl_of_int p) as [f|]; [|contradiction]. destruct (fl_of_int q) as [g|]; [|contradiction].
  cbn [bind]. unfold fl_ltb, fl_leb. rewrite H1, H2. unfold Z.ltb, Z.leb. rewrite (Z.compare_antisym p q).
  destruct op; try reflexivity; destruct (p ?= q)%Z; reflexivity.
Qed.

Section Bridge.
Variable cf : cfg.

(* the action returns v and leaves the scope as it was *)
(* what an expression of the subset leaves untouched: the scope, the autoescape mode and the writer *)
Definition pres (st st' : mstate) : Prop :=
  ctx st' = ctx st /\ mode st' = mode st /\ out st' = out st /\ bufs st' = bufs st
  /\ calls_left st' = calls_left st /\ bytes_left st' = bytes_left st.
Lemma pres_refl st : pres st st. Proof. repeat split. Qed.
Lemma pres_trans a c d : pres a c -> pres c d -> pres a d.
Proof. unfold pres. intros (A1 & A2 & A3 & A4 & A5 & A6) (B1 & B2 & B3 & B4 & B5 & B6). repeat split; congruence. Qed.
Lemma pres_set_cur st p : pres st (set_cur st p). Proof. repeat split. Qed.
Lemma pres_bump st : pres st (bump_unbound st). Proof. repeat split. Qed.
Lemma pres_ctx a c : pres a c -> ctx c = ctx a. Proof. intro H; exact (proj1 H). Qed.

Definition mok (m : M value) (st : mstate) (v : value) : Prop := exists st', m st = (Ok v, st') /\ pres st st'.

Lemma mok_bind (m : M value) (f : value -> M value) st x v :
  mok m st x -> (forall st1, ctx st1 = ctx st -> mok (f x) st1 v) -> mok (mbind m f) st v.
Proof.
  intros (st1 & E1 & C1) Hf. destruct (Hf st1 (pres_ctx _ _ C1)) as (st2 & E2 & C2).
  exists st2. unfold mbind. rewrite E1. split; [exact E2|eapply pres_trans; eauto].
Qed.
Lemma mok_ret st v : mok (ret v) st v.
Proof. exists st. split; [reflexivity|apply pres_refl]. Qed.

Lemma mok_eval w e st v : mok (w e) st v -> mok (eval w e) st v.
Proof.
  intros (st1 & E1 & C1). unfold mok, eval, mbind, get, modify, ret. rewrite E1.
  eexists. split; [reflexivity|]. eapply pres_trans; [exact C1|apply pres_set_cur].
Qed.
Lemma mok_evaldef w e st v : v <> VUndef -> mok (w e) st v -> mok (evaldef w e) st v.
Proof.
  intros Hv H. unfold evaldef. apply mok_bind with (x := v). apply mok_eval; exact H.
  intros st1 _. destruct v; try apply mok_ret. congruence.
Qed.

Lemma mok_dataref w accs : forall r st v, cacc_eval accs r = Some v -> mok (dataref_access w (map cacc_node accs) r) st v.
Proof.
  induction accs as [|a rest IH]; intros r st v E; cbn [map dataref_access cacc_eval] in *.
  - inversion E; subst. apply mok_ret.
  - destruct a as [ns k|ns i]; cbn [cacc_node cacc_ns] in *; unfold mbind at 1; cbn [ret];
      destruct r; try discriminate; cbn [is_nullsafe];
      try (destruct ns; [inversion E; subst; apply mok_ret|discriminate]);
      apply IH; exact E.
Qed.

Section Env.
Variable st0 : mstate.
Let env := sc_lookup (ctx st0).
Hypothesis env_core : forall k v, env k = Some v -> core_value v = true.
Hypothesis ij_core : forall v, c_ij cf = Some v -> core_value v = true.

Lemma cacc_core accs : forall r v, core_value r = true -> cacc_eval accs r = Some v -> core_value v = true.
Proof.
  induction accs as [|a rest IH]; intros r v Hc E; cbn [cacc_eval] in E. inversion E; subst; exact Hc.
  destruct r; try discriminate.
  - destruct (cacc_ns a); inversion E; reflexivity.
  - destruct (cacc_ns a); inversion E; reflexivity.
  - destruct a; [discriminate|]. apply (IH _ _ (core_list_index l i Hc) E).
  - destruct a; [|discriminate]. apply (IH _ _ (core_map_key m k Hc) E).
Qed.

Lemma ceval_core e : forall v, ceval (c_ij cf) env e = Some v -> core_value v = true.
Proof.
  induction e as [| x | z | s | key accs | a IHa | a IHa | op a IHa c IHc | c IHc a IHa d IHd | k x]; intros v E; cbn [ceval] in E.
  - inversion E; reflexivity.
  - inversion E; reflexivity.
  - apply cint_inv in E. destruct E as [-> Hs]. exact Hs.
  - inversion E; reflexivity.
  - destruct (is_ident key); [|discriminate]. destruct (bstr_eqb key n_ij).
    + destruct (c_ij cf) as [iv|] eqn:Ei; [|discriminate]. apply (cacc_core accs iv); auto.
    + apply (cacc_core accs _ v) in E; auto. destruct (env key) eqn:Ek; [eapply env_core; eauto|reflexivity].
  - destruct (ceval (c_ij cf) env a) as [[| | |z| | | |]|]; try discriminate. apply cint_inv in E. destruct E as [-> Hs]. exact Hs.
  - destruct (ceval (c_ij cf) env a); [|discriminate]. inversion E; reflexivity.
  - destruct op;
      try (destruct (ceval (c_ij cf) env a) as [x|]; [|discriminate]; destruct (ceval (c_ij cf) env c) as [y|]; [|discriminate];
           destruct x; try discriminate; destruct y; try discriminate;
           try (apply cint_inv in E; destruct E as [-> Hs]; exact Hs); try (inversion E; reflexivity); fail).
    + destruct (ceval (c_ij cf) env a) as [x|]; [|discriminate]; destruct (ceval (c_ij cf) env c) as [y|]; [|discriminate].
      destruct x; try discriminate; destruct y; try discriminate. destruct (z0 =? 0)%Z; [discriminate|].
      apply cint_inv in E. destruct E as [-> Hs]. exact Hs.
    + destruct (ceval (c_ij cf) env a) as [[| |[|]| | | | |]|]; try discriminate. inversion E; reflexivity.
      destruct (ceval (c_ij cf) env c) as [[| |y| | | | |]|]; try discriminate. inversion E; reflexivity.
    + destruct (ceval (c_ij cf) env a) as [[| |[|]| | | | |]|]; try discriminate.
      destruct (ceval (c_ij cf) env c) as [[| |y| | | | |]|]; try discriminate. inversion E; reflexivity. inversion E; reflexivity.
    + destruct (ceval (c_ij cf) env a) as [x|] eqn:Ea; [|discriminate]. destruct (c_nullish x). apply IHc; exact E. inversion E; subst. apply IHa; reflexivity.
  - destruct (ceval (c_ij cf) env c) as [x|]; [|discriminate]. destruct (truthy x); [apply IHa|apply IHd]; exact E.
  - destruct (env (x ++ jk_index)) as [[| | |i| | | |]|] eqn:Ei; try discriminate. destruct k.
    + inversion E; subst. eapply env_core; eauto.
    + inversion E; reflexivity.
    + destruct (env (x ++ c_lastindex)) as [[| | |l| | | |]|]; try discriminate. inversion E; reflexivity.
Qed.

Lemma mok_lookup st k v : ctx st = ctx st0 -> env k = Some v -> mok (m_lookup k) st v.
Proof.
  intros Hc Hk. unfold mok, m_lookup. rewrite Hc. fold (env k). rewrite Hk. exists st. split; [reflexivity|apply pres_refl].
Qed.

Lemma walk_S f n st v : mok (walk_node cf (walk cf f) n) (set_cur st (pos_of n)) v -> mok (walk cf (S f) n) st v.
Proof.
  intros (st' & E & C). exists st'. cbn [walk]. unfold walk_body, mbind, modify. split; [exact E|].
  eapply pres_trans; [apply pres_set_cur|exact C].
Qed.

Lemma core_small z : core_value (VInt z) = true -> small z = true.
Proof. intro H; exact H. Qed.

(* interp_ceval: for every fuel above the depth of the expression and every
   state whose scope is that of st0, the walker returns the value of ceval *)
Theorem interp_ceval e : forall fuel st v, (cdepth e < fuel)%nat -> ctx st = ctx st0 ->
  ceval (c_ij cf) env e = Some v -> mok (walk cf fuel (cnode e)) st v.
Proof.
  induction e as [| x | z | s | key accs | a IHa | a IHa | op a IHa c IHc | c IHc a IHa d IHd | k x];
    intros fuel st v Hf Hctx E; (destruct fuel as [|f]; [cbn in Hf; lia|]); cbn [cdepth] in Hf;
    apply walk_S; cbn [cnode];
    match goal with |- mok _ ?s _ => set (st1 := s) end;
    assert (Hc1 : ctx st1 = ctx st0) by (subst st1; cbn; exact Hctx);
    clearbody st1; cbn [ceval] in E.
  - inversion E; subst. cbn [walk_node]. apply mok_ret.
  - inversion E; subst. cbn [walk_node]. apply mok_ret.
  - apply cint_inv in E. destruct E as [-> _]. cbn [walk_node]. apply mok_ret.
  - inversion E; subst. cbn [walk_node]. apply mok_ret.
  - (* variable *)
    cbn [walk_node]. change s_ij with n_ij. destruct (is_ident key); [|discriminate].
    destruct (bstr_eqb key n_ij).
    + destruct (c_ij cf) as [iv|]; [|discriminate]. apply mok_bind with (x := iv). apply mok_ret. intros s1 _. apply mok_dataref; exact E.
    + apply mok_bind with (x := match env key with Some v0 => v0 | None => VUndef end).
      * unfold mok, m_lookup, env. rewrite Hc1. destruct (sc_lookup (ctx st0) key); eexists; (split; [reflexivity|first [apply pres_refl|apply pres_bump]]).
      * intros s1 _. apply mok_dataref; exact E.
  - (* neg *)
    cbn [walk_node]. destruct (ceval (c_ij cf) env a) as [[| | |z| | | |]|] eqn:Ea; try discriminate.
    apply cint_inv in E. destruct E as [-> Hs].
    apply mok_bind with (x := VInt z). apply mok_evaldef; [discriminate|]. apply IHa; [lia|exact Hc1|reflexivity].
    intros s1 _. rewrite (wrap64_small _ Hs). apply mok_ret.
  - (* not *)
    cbn [walk_node]. destruct (ceval (c_ij cf) env a) as [x|] eqn:Ea; [|discriminate]. inversion E; subst.
    apply mok_bind with (x := x). apply mok_eval. apply IHa; [lia|exact Hc1|reflexivity]. intros s1 _. apply mok_ret.
  - (* binary *)
    assert (Ha : forall x s1, ctx s1 = ctx st0 -> ceval (c_ij cf) env a = Some x -> mok (walk cf f (cnode a)) s1 x) by (intros; apply IHa; [lia|assumption|assumption]).
    assert (Hb : forall x s1, ctx s1 = ctx st0 -> ceval (c_ij cf) env c = Some x -> mok (walk cf f (cnode c)) s1 x) by (intros; apply IHc; [lia|assumption|assumption]).
    cbn [walk_node].
    destruct op;
      try (destruct (ceval (c_ij cf) env a) as [x|] eqn:Ea; [|discriminate]; destruct (ceval (c_ij cf) env c) as [y|] eqn:Ec; [|discriminate];
           pose proof (ceval_core a _ Ea) as Cx; pose proof (ceval_core c _ Ec) as Cy;
           destruct x; try discriminate; destruct y; try discriminate;
           match goal with |- mok (mbind (?ev _ (cnode a)) _) _ _ =>
             match type of Ea with _ = Some ?xv =>
               apply mok_bind with (x := xv);
               [first [apply mok_evaldef; [discriminate|] | apply mok_eval]; apply Ha; [exact Hc1|reflexivity] | intros s1 Hs1]
             end
           end;
           match goal with |- mok (mbind (?ev _ (cnode c)) _) _ _ =>
             match type of Ec with _ = Some ?yv =>
               apply mok_bind with (x := yv);
               [first [apply mok_evaldef; [discriminate|] | apply mok_eval]; apply Hb; [congruence|reflexivity] | intros s2 Hs2]
             end
           end;
           first [ apply cint_inv in E; destruct E as [-> Hs]; cbn [arith lift]; rewrite (wrap64_small _ Hs); apply mok_ret
                 | inversion E; subst; unfold lift; rewrite compare_small by assumption; apply mok_ret
                 | inversion E; subst; cbn; apply mok_ret ]; fail).
    + (* mod *)
      destruct (ceval (c_ij cf) env a) as [x|] eqn:Ea; [|discriminate]; destruct (ceval (c_ij cf) env c) as [y|] eqn:Ec; [|discriminate].
      destruct x; try discriminate; destruct y; try discriminate.
      apply mok_bind with (x := VInt z). apply mok_evaldef; [discriminate|]. apply Ha; [exact Hc1|reflexivity]. intros s1 Hs1.
      apply mok_bind with (x := VInt z0). apply mok_evaldef; [discriminate|]. apply Hb; [congruence|reflexivity]. intros s2 Hs2.
      cbn [arith lift]. destruct (z0 =? 0)%Z; [discriminate|]. apply cint_inv in E. destruct E as [-> Hs]. rewrite (wrap64_small _ Hs). apply mok_ret.
    + (* or *)
      destruct (ceval (c_ij cf) env a) as [[| |[|]| | | | |]|] eqn:Ea; try discriminate.
      * inversion E; subst. apply mok_bind with (x := VBool true). apply mok_eval. apply Ha; [exact Hc1|reflexivity]. intros s1 _. apply mok_ret.
      * destruct (ceval (c_ij cf) env c) as [[| |y| | | | |]|] eqn:Ec; try discriminate. inversion E; subst.
        apply mok_bind with (x := VBool false). apply mok_eval. apply Ha; [exact Hc1|reflexivity]. intros s1 Hs1. cbn [truthy].
        apply mok_bind with (x := VBool y). apply mok_eval. apply Hb; [congruence|reflexivity]. intros s2 _. apply mok_ret.
    + (* and *)
      destruct (ceval (c_ij cf) env a) as [[| |[|]| | | | |]|] eqn:Ea; try discriminate.
      * destruct (ceval (c_ij cf) env c) as [[| |y| | | | |]|] eqn:Ec; try discriminate. inversion E; subst.
        apply mok_bind with (x := VBool true). apply mok_eval. apply Ha; [exact Hc1|reflexivity]. intros s1 Hs1. cbn [truthy].
        apply mok_bind with (x := VBool y). apply mok_eval. apply Hb; [congruence|reflexivity]. intros s2 _. apply mok_ret.
      * inversion E; subst. apply mok_bind with (x := VBool false). apply mok_eval. apply Ha; [exact Hc1|reflexivity]. intros s1 _. apply mok_ret.
    + (* elvis *)
      destruct (ceval (c_ij cf) env a) as [x|] eqn:Ea; [|discriminate].
      apply mok_bind with (x := x). apply mok_eval. apply Ha; [exact Hc1|reflexivity]. intros s1 Hs1.
      change (is_nullish x) with (c_nullish x). destruct (c_nullish x).
      apply mok_eval. apply Hb; [congruence|exact E]. inversion E; subst. apply mok_ret.
  - (* ternary *)
    cbn [walk_node]. destruct (ceval (c_ij cf) env c) as [x|] eqn:Ec; [|discriminate].
    apply mok_bind with (x := x). apply mok_eval. apply IHc; [lia|exact Hc1|reflexivity]. intros s1 Hs1.
    destruct (truthy x); apply mok_eval; [apply IHa|apply IHd]; try lia; try congruence; exact E.
  - (* loop function *)
    cbn [walk_node].
    replace (fn_is (cloop_name k) n_index || fn_is (cloop_name k) n_isFirst || fn_is (cloop_name k) n_isLast) with true by (destruct k; reflexivity).
    unfold loop_func. change s_index with jk_index. change s_lastindex with c_lastindex.
    destruct (env (x ++ jk_index)) as [[| | |i| | | |]|] eqn:Ei; try discriminate.
    apply mok_bind with (x := VInt i). apply mok_lookup; assumption. intros s1 Hs1.
    destruct k.
    + replace (fn_is (cloop_name LIndex) n_index) with true by reflexivity. inversion E; subst. apply mok_ret.
    + replace (fn_is (cloop_name LIsFirst) n_index) with false by reflexivity.
      replace (fn_is (cloop_name LIsFirst) n_isFirst) with true by reflexivity. inversion E; subst. apply mok_ret.
    + replace (fn_is (cloop_name LIsLast) n_index) with false by reflexivity.
      replace (fn_is (cloop_name LIsLast) n_isFirst) with false by reflexivity.
      destruct (env (x ++ c_lastindex)) as [[| | |l| | | |]|] eqn:El; try discriminate. inversion E; subst.
      apply mok_bind with (x := VInt l). apply mok_lookup; [congruence|assumption]. intros s2 _. apply mok_ret.
Qed.
End Env.
End Bridge.

(* ---- both halves together ---- *)
Theorem gen_expr_correct_partial cf sc je st e fuel v :
  (cdepth e < fuel)%nat ->
  env_rel sc (c_ij cf) (sc_lookup (ctx st)) je ->
  ceval (c_ij cf) (sc_lookup (ctx st)) e = Some v ->
  (exists st', walk cf fuel (cnode e) st = (Ok v, st') /\ pres st st')
  /\ js_eval je (cgen sc e) = Ok (to_js v).
Proof.
  intros Hf ER E. split.
  - apply (interp_ceval cf st) with (fuel := fuel); auto.
    + intros k x Hk. pose proof (er_core _ _ _ _ ER k) as H. unfold env_val in H. rewrite Hk in H. exact H.
    + intros x Hx. exact (er_core_ij _ _ _ _ ER x Hx).
  - exact (proj1 (cgen_correct sc (c_ij cf) (sc_lookup (ctx st)) je ER e v E)).
Qed.

Lemma bstr_eqb_true : forall x y, bstr_eqb x y = true -> x = y.
Proof.
  induction x as [|a x IH]; destruct y as [|c y]; cbn; intro H; try discriminate; auto.
  apply andb_prop in H. destruct H as [H1 H2]. apply N.eqb_eq in H1. subst. f_equal. auto.
Qed.

Lemma bstr_eqb_refl_iff x : True <-> bstr_eqb x x = true.
Proof. split; [intros _|auto]. induction x as [|a x IH]; [reflexivity|]. cbn. rewrite N.eqb_refl. exact IH. Qed.

(* ------------------------------------------------------------------ *)
(* the print stage: {print e} with autoescaping off *)
Lemma tostring_value_string v : printable_scalar v = true ->
  exists s, value_string v = Ok s /\ js_tostring (to_js v) = Some s.
Proof.
  destruct v; try discriminate; intros _.
  - exists s_null. split; reflexivity.
  - destruct x; eexists; split; reflexivity.
  - exists (dec_of_Z z). split; reflexivity.
  - exists s. split; reflexivity.
Qed.


(* the Go side: with autoescaping off, no obligatory directives and a writer
   that does not fail, {print e} writes exactly String() of the value *)
Lemma interp_print cf e fuel st v s :
  c_oblig cf = [] -> mode st = 2 -> bufs st = [] -> calls_left st = None -> bytes_left st = None ->
  (forall k x, sc_lookup (ctx st) k = Some x -> core_value x = true) ->
  (forall x, c_ij cf = Some x -> core_value x = true) ->
  (S (cdepth e) < fuel)%nat ->
  ceval (c_ij cf) (sc_lookup (ctx st)) e = Some v -> v <> VUndef -> value_string v = Ok s ->
  exists st', walk cf fuel (NPrint 0 (cnode e) []) st = (Ok VUndef, st')
              /\ out st' = s :: out st /\ ctx st' = ctx st /\ mode st' = mode st.
Proof.
  intros Hob Hm Hb Hcl Hbl Hce Hci Hf E Hv Hs.
  destruct fuel as [|f]; [lia|]. cbn [walk]. unfold walk_body. unfold mbind at 1. cbn [modify].
  set (st1 := set_cur st (pos_of (NPrint 0 (cnode e) []))).
  assert (P1 : pres st st1) by apply pres_set_cur.
  destruct (interp_ceval cf st Hce Hci e f st1 v ltac:(lia) (pres_ctx _ _ P1) E) as (st2 & E2 & P2).
  pose proof (pres_trans _ _ _ P1 P2) as (C & Mo & Ou & Bu & Cl & Bl).
  cbn [walk_node]. unfold mbind at 1. rewrite E2.
  assert (Hrest : (ds <-- print_dirs cf (walk cf f) [] v;;;
                   s0 <-- lift (value_string v);;;
                   st3 <-- get;;;
                   ws <-- lift (print_writes (mode st3) ds s0);;; _ <-- write_all ws;;; ret VUndef) st2
                  = (Ok VUndef, set_out st2 (s :: out st2) None None)).
  { cbn [print_dirs]. rewrite Hob. cbn [map]. unfold mbind at 1. cbn [ret]. unfold mbind at 1. rewrite Hs. cbn [lift].
    unfold mbind at 1. cbn [get]. unfold mbind at 1. rewrite Mo, Hm.
    unfold print_writes. cbn [apply_directives bind]. change (negb (2 =? 2)) with false. cbn [lift].
    unfold mbind at 1. cbn [write_all]. unfold mbind at 1. unfold write. rewrite Bu, Hb, Cl, Hcl, Bl, Hbl. cbn [ret]. unfold mbind. cbn [ret]. reflexivity. }
  destruct v; try congruence; (eexists; split; [exact Hrest|]); cbn; repeat split; congruence.
Qed.

(* the JavaScript side: the statement appends ToString of the value *)
Lemma js_print sc ij env je e v s buf old :
  env_rel sc ij env je -> ceval ij env e = Some v -> printable_scalar v = true -> value_string v = Ok s ->
  assoc_s buf (je_vars je) = Some (JStr old) ->
  exists je', js_append je buf (cgen sc e) = Ok (s, je') /\ assoc_s buf (je_vars je') = Some (JStr (old ++ s)) /\ je_data je' = je_data je.
Proof.
  intros ER E Hp Hs Hb. destruct (cgen_correct sc ij env je ER e v E) as [Hj _].
  destruct (tostring_value_string v Hp) as (s' & Hs' & Ht). assert (s' = s) by congruence. subst s'.
  unfold js_append. rewrite Hj. cbn [bind]. rewrite Ht, Hb. eexists. split; [reflexivity|]. cbn [je_vars je_data]. split; [|reflexivity].
  apply assoc_s_aset.
Qed.

(* gen_correct_partial_print: one {print e} of the subset under autoescape off: the bytes the Go renderer
   writes are the text the generated statement appends to the output buffer *)
Theorem gen_correct_partial_print cf sc je st e fuel v buf old :
  c_oblig cf = [] -> mode st = 2 -> bufs st = [] -> calls_left st = None -> bytes_left st = None ->
  (S (cdepth e) < fuel)%nat ->
  env_rel sc (c_ij cf) (sc_lookup (ctx st)) je ->
  ceval (c_ij cf) (sc_lookup (ctx st)) e = Some v -> printable_scalar v = true ->
  assoc_s buf (je_vars je) = Some (JStr old) ->
  exists s,
    (exists st', walk cf fuel (NPrint 0 (cnode e) []) st = (Ok VUndef, st')
                 /\ out st' = s :: out st /\ ctx st' = ctx st /\ mode st' = mode st)
    /\ (exists je', js_append je buf (cgen sc e) = Ok (s, je')
                    /\ assoc_s buf (je_vars je') = Some (JStr (old ++ s)) /\ je_data je' = je_data je).
Proof.
  intros Hob Hm Hb Hcl Hbl Hf ER E Hp Hbuf.
  destruct (tostring_value_string v Hp) as (s & Hs & _). exists s. split.
  - apply (interp_print cf e fuel st v s); auto.
    + intros k x Hk. pose proof (er_core _ _ _ _ ER k) as H. unfold env_val in H. rewrite Hk in H. exact H.
    + intros x Hx. exact (er_core_ij _ _ _ _ ER x Hx).
    + destruct v; try discriminate; discriminate.
  - apply (js_print sc (c_ij cf) (sc_lookup (ctx st)) je e v s buf old); auto.
Qed.
