(* C19, parse half: scanner model and parser model composed, for ALL inputs of one shape --
   plain ASCII text (any number of lines, no '/', '{', '}') followed by a stray closing brace and
   anything whatsoever after it: parse.SoyFile's model returns the lexical error positioned at the
   scanner's error item, and the line lexer.lineNumber computes from it is the line of the brace. *)
From Soy Require Import Model.Bytes Model.Utf8 Model.Outcome Model.Num Model.Values Model.Ast Model.Token Model.Lexer
  Model.RawText Model.ExprParser Model.Parser Model.Interp Spec.ErrPos Generated.Tables
  Proofs.ErrTokProofs Proofs.LexErrPos.
From Coq Require Import ZifyBool ZifyNat ZifyN Lia.
Open Scope N_scope.

Lemma item_list_S inlen lexq unq pexpr efuel f until s :
  item_list inlen lexq unq pexpr efuel (S f) until s =
  item_list_loop inlen lexq unq pexpr efuel (lift_expr inlen pexpr f) (item_list inlen lexq unq pexpr efuel f) f (S f) until None [] s.
Proof. reflexivity. Qed.

Lemma item_list_loop_S inlen lexq unq pexpr efuel pe w lf f until pos acc s :
  item_list_loop inlen lexq unq pexpr efuel pe w lf (S f) until pos acc s =
  cbind (c_next s) (fun token s1 =>
    let pos1 := match pos with Some p => p | None => t_pos token end in
    cbind (text_or_tag inlen lexq unq pexpr efuel pe w lf token until s1) (fun r s2 =>
      if snd r then COk (NList pos1 acc) s2
      else item_list_loop inlen lexq unq pexpr efuel pe w lf f until (Some pos1)
             (match fst r with Some n => acc ++ [n] | None => acc end) s2)).
Proof. reflexivity. Qed.

Theorem stray_brace_end_to_end ul ud lexq unq fuel txt rest :
  Forall plain txt ->
  let s := txt ++ 125 :: rest in
  let e := err_item (Z.of_nat (length txt) + 1) e_close_brace in
  lex_items ul ud (S fuel) false s = Ok [e] /\
  (exists st, po_result (soy_file (N.of_nat (length s)) lexq unq [e]) = PErr e e_lexical st) /\
  line_at s (t_pos e) = 1 + count_nl txt.
Proof.
  intros Hpl s e.
  assert (Hlex : lex_items ul ud (S fuel) false s = Ok [e]).
  { unfold lex_items, lex_run, lex_run_at, entry_state.
    destruct (stray_brace ul ud s 0%Z (Z.le_refl 0) fuel lex_init txt rest Hpl) as (l' & Hr & Ho); [cbn; lia | reflexivity|].
    rewrite Hr. cbn [bind]. rewrite Ho. reflexivity. }
  split; [exact Hlex|]. split.
  - assert (Hpos : t_pos e <= N.of_nat (length s)).
    { unfold e, err_item, s. cbn [t_pos]. rewrite app_length. cbn [length]. lia. }
    unfold soy_file, parse_file, file_fuel.
    change (length [e] + 8)%nat with 9%nat.
    rewrite item_list_S, item_list_loop_S.
    change (c_next (cst_init [e])) with (COk e (set_p (cst_init [e]) (snd (p_next (pst_init [e]))))).
    cbn [cbind].
    match goal with |- context [text_or_tag ?i ?lq ?u ?px ?ef ?pe ?w (S ?lf) e ?un ?st] =>
      destruct (text_or_tag_error_item i lq u px ef pe w lf e un st) as (s' & Ht);
        [reflexivity | reflexivity | cbn; lia | exact Hpos | rewrite Ht]
    end.
    cbn [cbind po_result]. eexists. reflexivity.
  - unfold e, err_item, s. cbn [t_pos].
    replace (Z.to_N (Z.of_nat (length txt) + 1)) with (N.of_nat (length txt) + 1) by lia.
    apply stray_brace_line.
Qed.
