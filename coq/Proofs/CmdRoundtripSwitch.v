(* C17 at command level, rules for {switch}: parseSwitch / parseCase of Model/Parser.v (the
   code after /repo 5b2986c and 751cace: {default} must be the last case).  The loop rules hold
   inside and outside a {msg} ({plural} runs the same loop with the closing item "/plural");
   the {switch} tag itself is refused inside a {msg}. *)
From Soy Require Import Model.Bytes Model.Outcome Model.Ast Model.Token Model.RawText Model.ExprParser Model.Parser Generated.Tables
  Spec.ExprSyntax Spec.CmdSyntax Proofs.ExprParserRules Proofs.CmdRoundtripBase Proofs.CmdRoundtripRules.
From Coq Require Import Lia.
Open Scope N_scope.

Section Switch.
Variable ns : bstr.
Variable al : list (bstr * bstr).
Variable inlen : N.
Variable lexq : bstr -> list tok.
Variable unq : bstr -> option bstr.
Variable efuel : list tok -> nat.

Notation PE g := (lift_expr inlen parse_expr g).
Notation IL g := (item_list inlen lexq unq parse_expr efuel g).
Notation BT g := (begin_tag inlen lexq unq parse_expr efuel (PE g) (IL g) g).
Notation CRun := (CRun ns al).
Notation Body := (Body ns al inlen lexq unq efuel).
Notation Tag := (Tag ns al inlen lexq unq efuel).

(* parseCase after "case" / "default": returns the case, backed up onto the item that ended its body *)
Definition CaseRun (m : bool) (token : tok) (values : list node) (ts : list tok) (n : node) (rest : list tok) : Prop :=
  CRun m (fun g k s => case_loop inlen (PE g) (IL g) k token values s) ts n rest.

Lemma case_loop_S pe w f token values s : case_loop inlen pe w (S f) token values s =
  cbind (if tis token pit_Default then COk values s else cbind (pe 0 s) (fun v s0 => COk (values ++ [v]) s0)) (fun values1 s1 =>
  cbind (c_next s1) (fun tok s2 =>
    if tis tok pit_Comma then case_loop inlen pe w f token values1 s2
    else if tis tok pit_RightDelim then
      cbind (w u_case s2) (fun body s3 => COk (NSwitchCase (t_pos token) values1 body) (c_backup s3))
    else c_unexp inlen tok x_case s2)).
Proof. reflexivity. Qed.

Lemma Case_more m token values ts v c l1 n rest :
  t_typ token <> pit_Default -> Parses 0 ts v (c :: l1) -> t_typ c = pit_Comma ->
  CaseRun m token (values ++ [v]) l1 n rest -> CaseRun m token values ts n rest.
Proof.
  intros Hd HP Hc HL s p0 sc0 Hs Hi Hm.
  cexprp inlen s p0 HP Hs Hi p1 Hs1 Hi1 f1 HF1.
  cnextp s p1 Hs1 Hi1 p2 Hn2 Hs2 Hi2 Hsb2 Hib2.
  destruct (HL s p2 sc0 Hs2 Hi2 Hm) as (p' & sc' & H1 & H2 & f0 & HF).
  exists p', sc'. repeat (split; [assumption|]). exists (S (max f0 f1)). intros g k Hg Hk.
  destruct k as [|k]; [lia|]. rewrite case_loop_S. rewrite (tis_ne token pit_Default Hd).
  rewrite (HF1 g) by lia. cbn [cbind]. rewrite Hn2. cbn [cbind]. rewrite (tis_eq c pit_Comma Hc). apply HF; lia.
Qed.

Lemma Case_last m token values ts v rd l1 x u l2 :
  t_typ token <> pit_Default -> Parses 0 ts v (rd :: l1) -> t_typ rd = pit_RightDelim ->
  Body m u_case l1 x u l2 ->
  CaseRun m token values ts (NSwitchCase (t_pos token) (values ++ [v]) x) (u :: l2).
Proof.
  intros Hd HP Hrd HB s p0 sc0 Hs Hi Hm.
  cexprp inlen s p0 HP Hs Hi p1 Hs1 Hi1 f1 HF1.
  cnextp s p1 Hs1 Hi1 p2 Hn2 Hs2 Hi2 Hsb2 Hib2.
  destruct (HB s p2 sc0 Hs2 Hi2 Hm) as (p3 & sc3 & Hs3 & Hi3 & Hsb3 & Hib3 & f0 & HF).
  exists (p_backup p3), sc3. repeat (split; [assumption|]). exists (S (max f0 f1)). intros g k Hg Hk.
  destruct k as [|k]; [lia|]. rewrite case_loop_S. rewrite (tis_ne token pit_Default Hd).
  rewrite (HF1 g) by lia. cbn [cbind]. rewrite Hn2. cbn [cbind].
  rewrite (tis_ne rd pit_Comma) by (rewrite Hrd; vm_compute; discriminate).
  rewrite (tis_eq rd pit_RightDelim Hrd). rewrite (HF g g) by lia. cbn [cbind]. cbk. reflexivity.
Qed.

Lemma Case_default m token values rd l x u l2 :
  t_typ token = pit_Default -> t_typ rd = pit_RightDelim ->
  Body m u_case l x u l2 ->
  CaseRun m token values (rd :: l) (NSwitchCase (t_pos token) values x) (u :: l2).
Proof.
  intros Hd Hrd HB s p0 sc0 Hs Hi Hm.
  cnextp s p0 Hs Hi p2 Hn2 Hs2 Hi2 Hsb2 Hib2.
  destruct (HB s p2 sc0 Hs2 Hi2 Hm) as (p3 & sc3 & Hs3 & Hi3 & Hsb3 & Hib3 & f0 & HF).
  exists (p_backup p3), sc3. repeat (split; [assumption|]). exists (S f0). intros g k Hg Hk.
  destruct k as [|k]; [lia|]. rewrite case_loop_S. rewrite (tis_eq token pit_Default Hd).
  cbn [cbind]. rewrite Hn2. cbn [cbind].
  rewrite (tis_ne rd pit_Comma) by (rewrite Hrd; vm_compute; discriminate).
  rewrite (tis_eq rd pit_RightDelim Hrd). rewrite (HF g g) by lia. cbn [cbind]. cbk. reflexivity.
Qed.

(* parseSwitch's loop, after "{switch e}" *)
Definition SwLoop (m : bool) (pos endt : N) (value : node) (cases : list node) (ts : list tok) (n : node) (rest : list tok) : Prop :=
  CRun m (fun g k s => switch_loop inlen (PE g) (IL g) g k pos endt value cases s) ts n rest.

Lemma switch_loop_S pe w lf f pos endt value cases s : switch_loop inlen pe w lf (S f) pos endt value cases s =
  cbind (c_next s) (fun tok s1 =>
    if tis tok pit_LeftDelim then switch_loop inlen pe w lf f pos endt value cases s1
    else if tis tok pit_Text then
      if all_space (t_val tok) then switch_loop inlen pe w lf f pos endt value cases s1
      else c_unexp inlen tok x_between s1
    else if tis tok pit_Case || tis tok pit_Default then
      if last_is_default cases then c_unexp inlen tok x_after_default s1
      else cbind (case_loop inlen pe w lf tok [] s1) (fun c s2 => switch_loop inlen pe w lf f pos endt value (cases ++ [c]) s2)
    else if tis tok endt then
      cbind (c_expect inlen pit_RightDelim x_switch s1) (fun _ s2 => COk (NSwitch pos value cases) s2)
    else if tis tok pit_Comment then switch_loop inlen pe w lf f pos endt value cases s1
    else c_unexp inlen tok x_switch s1).
Proof. reflexivity. Qed.

Lemma SwLoop_ld m pos endt v cases t l n rest :
  t_typ t = pit_LeftDelim -> SwLoop m pos endt v cases l n rest -> SwLoop m pos endt v cases (t :: l) n rest.
Proof.
  intros Ht HL s p0 sc0 Hs Hi Hm.
  cnextp s p0 Hs Hi p1 Hn1 Hs1 Hi1 Hsb1 Hib1.
  destruct (HL s p1 sc0 Hs1 Hi1 Hm) as (p' & sc' & H1 & H2 & f0 & HF).
  exists p', sc'. repeat (split; [assumption|]). exists (S f0). intros g k Hg Hk.
  destruct k as [|k]; [lia|]. rewrite switch_loop_S, Hn1. cbn [cbind]. rewrite (tis_eq t pit_LeftDelim Ht). apply HF; lia.
Qed.

Lemma SwLoop_case m pos endt v cases t l c l2 n rest :
  (t_typ t = pit_Case \/ t_typ t = pit_Default) -> last_is_default cases = false ->
  CaseRun m t [] l c l2 -> SwLoop m pos endt v (cases ++ [c]) l2 n rest ->
  SwLoop m pos endt v cases (t :: l) n rest.
Proof.
  intros Ht Hld HC HL s p0 sc0 Hs Hi Hm.
  cnextp s p0 Hs Hi p1 Hn1 Hs1 Hi1 Hsb1 Hib1.
  destruct (HC s p1 sc0 Hs1 Hi1 Hm) as (p2 & sc2 & Hs2 & Hi2 & f1 & HF1).
  destruct (HL s p2 sc2 Hs2 Hi2 Hm) as (p' & sc' & H1 & H2 & f0 & HF).
  exists p', sc'. repeat (split; [assumption|]). exists (S (max f0 f1)). intros g k Hg Hk.
  destruct k as [|k]; [lia|]. rewrite switch_loop_S, Hn1. cbn [cbind].
  assert (E : tis t pit_LeftDelim = false /\ tis t pit_Text = false /\ tis t pit_Case || tis t pit_Default = true).
  { destruct Ht as [Ht|Ht]; rewrite !(tis_typ t _ _ Ht); vm_compute; auto. }
  destruct E as (E1 & E2 & E3). rewrite E1, E2, E3, Hld.
  rewrite (HF1 g g) by lia. cbn [cbind]. apply HF; lia.
Qed.

Lemma SwLoop_end m pos endt v cases t rd rest :
  t_typ t = endt -> (endt = pit_SwitchEnd \/ endt = pit_PluralEnd) -> t_typ rd = pit_RightDelim ->
  SwLoop m pos endt v cases (t :: rd :: rest) (NSwitch pos v cases) rest.
Proof.
  intros Ht He Hrd s p0 sc0 Hs Hi Hm.
  cnextp s p0 Hs Hi p1 Hn1 Hs1 Hi1 Hsb1 Hib1.
  cexpectp inlen pit_RightDelim x_switch s p1 Hs1 Hi1 Hrd p2 He2 Hs2 Hi2.
  exists p2, sc0. repeat (split; [assumption|]). exists 1%nat. intros g k Hg Hk.
  destruct k as [|k]; [lia|]. rewrite switch_loop_S, Hn1. cbn [cbind].
  assert (E : tis t pit_LeftDelim = false /\ tis t pit_Text = false /\ tis t pit_Case || tis t pit_Default = false /\ tis t endt = true).
  { destruct He as [He|He]; rewrite He in Ht |- *; rewrite !(tis_typ t _ _ Ht); vm_compute; auto. }
  destruct E as (E1 & E2 & E3 & E4). rewrite E1, E2, E3, E4. rewrite He2. reflexivity.
Qed.

(* {switch e} ... {/switch} *)
Lemma Tag_switch k l v rd l1 n rest :
  t_typ k = pit_Switch -> Parses 0 l v (rd :: l1) -> t_typ rd = pit_RightDelim ->
  SwLoop false (t_pos k) pit_SwitchEnd v [] l1 n rest -> Tag false (k :: l) n rest.
Proof.
  intros Hk HP Hrd HL s p0 sc0 Hs Hi Hm.
  cnext0 s Hs Hi p1 Hn1 Hs1 Hi1 Hsb1 Hib1.
  cexprp inlen s p1 HP Hs1 Hi1 p2 Hs2 Hi2 f1 HF1.
  cexpectp inlen pit_RightDelim x_switch s p2 Hs2 Hi2 Hrd p3 He3 Hs3 Hi3.
  destruct (HL s p3 sc0 Hs3 Hi3 Hm) as (p' & sc' & H1 & H2 & f0 & HF).
  exists p', sc'. repeat (split; [assumption|]). exists (max f0 f1). intros g lf Hg _.
  unfold begin_tag. rewrite Hn1. cbn [cbind]. rewrite !(tis_typ k _ _ Hk). dec_closed.
  unfold notmsg. change (c_inmsg (set_ps s p1 sc0)) with (c_inmsg s). rewrite (proj1 Hm).
  unfold parse_switch. rewrite (HF1 g) by lia. cbn [cbind]. rewrite He3. cbn [cbind].
  rewrite (HF g g) by lia. reflexivity.
Qed.
End Switch.
