(* Every float item the scanner model sends has a text of the syntax  -?D+(.D+)?(e[+-]?D+)? :
   NumLit.split_float of its text is Some _, so the FRSyntax branch of NumLit.parse_float_round is
   dead for scanner output.

   Part 1: split_float accepts every text  sign? ++ D+ ++ (.D+)? ++ (e[+-]?D+)? .
   Part 2: backward lemmas about accept / acceptRun / scanNumber: whatever scanNumber consumed with
           ok = true on the decimal branch is such a text (no hypothesis on unicode.IsLetter/IsDigit,
           no bounds precondition: everything is derived from `... = Ok _`).
   Part 3: lexNumber preserves "every float item sent is well-formed"; with the run invariant of
           Proofs/ScanStartInv.v this gives the theorem for whole runs. *)
From Soy Require Import Model.Bytes Model.Utf8 Model.Outcome Model.Token Generated.Tables Model.Lexer Model.NumLit
  Proofs.LexerPrim Proofs.LexTokens Proofs.ScanStartInv.
From Coq Require Import ZifyBool ZifyNat ZifyN Lia.
Open Scope Z_scope.

(* ================= Part 1: split_float on the scanner's syntax ================= *)

Definition digs (bs : bstr) : Prop := Forall (fun c => is_dec_digit c = true) bs.

Definition fl_sign_text (hs : bool) : bstr := if hs then [45%N] else [].
Definition fl_frac_text (frac : option bstr) : bstr := match frac with Some f => 46%N :: f | None => [] end.
Definition fl_exp_text (ex : option (bstr * bstr)) : bstr := match ex with Some (sg, e) => 101%N :: sg ++ e | None => [] end.
Definition fl_sign_ok (sg : bstr) : Prop := sg = [] \/ sg = [43%N] \/ sg = [45%N].
Definition frac_ok (frac : option bstr) : Prop := match frac with Some f => digs f /\ f <> [] | None => True end.
Definition exp_ok (ex : option (bstr * bstr)) : Prop :=
  match ex with Some (sg, e) => fl_sign_ok sg /\ digs e /\ e <> [] | None => True end.

(* split_float with its pieces named (convertible) *)
Definition strip_neg (s : bstr) : bool * bstr := match s with 45%N :: r => (true, r) | _ => (false, s) end.
Definition strip_sign (s4 : bstr) : bool * bstr :=
  match s4 with 43%N :: r => (false, r) | 45%N :: r => (true, r) | _ => (false, s4) end.
Definition after_frac (neg : bool) (ip fp s3 : bstr) : option float_lit :=
  match s3 with
  | [] => Some {| lit_neg := neg; lit_int := ip; lit_frac := fp; lit_eneg := false; lit_exp := [] |}
  | 101%N :: s4 =>
      let '(eneg, s5) := strip_sign s4 in
      let '(ex, s6) := span_digits s5 in
      match ex, s6 with
      | _ :: _, [] => Some {| lit_neg := neg; lit_int := ip; lit_frac := fp; lit_eneg := eneg; lit_exp := ex |}
      | _, _ => None
      end
  | _ => None
  end.
Definition split_float' (s : bstr) : option float_lit :=
  let '(neg, s1) := strip_neg s in
  let '(ip, s2) := span_digits s1 in
  match ip with
  | [] => None
  | _ =>
      match s2 with
      | 46%N :: s3 =>
          let '(fp, s4) := span_digits s3 in
          match fp with [] => None | _ => after_frac neg ip fp s4 end
      | _ => after_frac neg ip [] s2
      end
  end.
Lemma split_float_eq s : split_float s = split_float' s.
Proof. reflexivity. Qed.

Lemma digit_cases d : is_dec_digit d = true ->
  (d = 48 \/ d = 49 \/ d = 50 \/ d = 51 \/ d = 52 \/ d = 53 \/ d = 54 \/ d = 55 \/ d = 56 \/ d = 57)%N.
Proof. unfold is_dec_digit, in_range. lia. Qed.

Lemma strip_neg_digit d r : is_dec_digit d = true -> strip_neg (d :: r) = (false, d :: r).
Proof. intros H. destruct (digit_cases d H) as [->|[->|[->|[->|[->|[->|[->|[->|[->| ->]]]]]]]]]; reflexivity. Qed.
Lemma strip_sign_digit d r : is_dec_digit d = true -> strip_sign (d :: r) = (false, d :: r).
Proof. intros H. destruct (digit_cases d H) as [->|[->|[->|[->|[->|[->|[->|[->|[->| ->]]]]]]]]]; reflexivity. Qed.

(* the longest digit prefix of  ds ++ rest  is ds when rest does not start with a digit *)
Definition no_digit_head (rest : bstr) : Prop := match rest with [] => True | c :: _ => is_dec_digit c = false end.
Lemma span_digits_app ds rest : digs ds -> no_digit_head rest -> span_digits (ds ++ rest) = (ds, rest).
Proof.
  intros Hd Hr. induction Hd as [|c ds Hc _ IH]; cbn [app].
  - destruct rest as [|c r]; [reflexivity|]. cbn in Hr |- *. rewrite Hr. reflexivity.
  - cbn [span_digits]. rewrite Hc, IH. reflexivity.
Qed.
Lemma span_digits_all ds : digs ds -> span_digits ds = (ds, []).
Proof. intros Hd. rewrite <- (app_nil_r ds) at 1. apply span_digits_app; [exact Hd|exact I]. Qed.

Lemma exp_text_head ex : no_digit_head (fl_exp_text ex).
Proof. destruct ex as [[sg e]|]; cbn; [reflexivity|exact I]. Qed.

Lemma after_frac_ok neg ip fp ex : exp_ok ex -> exists fl, after_frac neg ip fp (fl_exp_text ex) = Some fl.
Proof.
  destruct ex as [[sg e]|]; cbn [exp_ok fl_exp_text]; [|intros _; eexists; reflexivity].
  intros (Hsg & He & Hne). destruct e as [|d e]; [congruence|]. inversion He as [|? ? Hd He']; subst.
  unfold after_frac.
  assert (Hs : exists eneg, strip_sign (sg ++ d :: e) = (eneg, d :: e)).
  { destruct Hsg as [->|[->| ->]]; cbn [app]; [rewrite (strip_sign_digit d e Hd)|cbn|cbn]; eexists; reflexivity. }
  destruct Hs as (eneg & ->). rewrite (span_digits_all (d :: e) He). eexists; reflexivity.
Qed.

Theorem split_float_shape hs ip frac ex : digs ip -> ip <> [] -> frac_ok frac -> exp_ok ex ->
  exists fl, split_float (fl_sign_text hs ++ ip ++ fl_frac_text frac ++ fl_exp_text ex) = Some fl.
Proof.
  intros Hip Hne Hfr Hex. rewrite split_float_eq. unfold split_float'.
  destruct ip as [|d ip]; [congruence|]. pose proof Hip as Hip0. inversion Hip as [|? ? Hd Hip']; subst.
  assert (Hs : strip_neg (fl_sign_text hs ++ (d :: ip) ++ fl_frac_text frac ++ fl_exp_text ex) = (hs, (d :: ip) ++ fl_frac_text frac ++ fl_exp_text ex)).
  { destruct hs; cbn [fl_sign_text app]; [reflexivity|]. apply strip_neg_digit. exact Hd. }
  rewrite Hs. clear Hs.
  destruct frac as [f|]; cbn [fl_frac_text frac_ok] in *.
  - destruct Hfr as [Hf Hfne]. change ((46%N :: f) ++ fl_exp_text ex) with (46%N :: f ++ fl_exp_text ex).
    rewrite (span_digits_app (d :: ip) (46%N :: f ++ fl_exp_text ex) Hip0 ltac:(reflexivity)).
    rewrite (span_digits_app f _ Hf (exp_text_head ex)). destruct f as [|d2 f]; [congruence|]. apply after_frac_ok. exact Hex.
  - cbn [app]. change (d :: ip ++ fl_exp_text ex) with ((d :: ip) ++ fl_exp_text ex).
    rewrite (span_digits_app (d :: ip) _ Hip0 (exp_text_head ex)).
    destruct ex as [[sg e]|]; cbn [fl_exp_text]; [apply (after_frac_ok hs (d :: ip) [] (Some (sg, e))); exact Hex|eexists; reflexivity].
Qed.

(* ================= Part 2: what scanNumber consumed ================= *)

Lemma in_set_mem set r : in_set set r = true -> 0 <= r < 128 /\ mem (Z.to_N r) set = true.
Proof.
  unfold in_set. intros H. apply Bool.andb_true_iff in H. destruct H as [H1 H2]. split; [lia|exact H2].
Qed.
Lemma mem_dec c : mem c dec_digits_set = true -> is_dec_digit c = true.
Proof. unfold mem, dec_digits_set, is_dec_digit, in_range. cbn [existsb]. lia. Qed.
Lemma mem_dot c : mem c num_dot_set = true -> c = 46%N.
Proof. unfold mem, num_dot_set. cbn [existsb]. lia. Qed.
Lemma mem_exp c : mem c num_exp_set = true -> c = 101%N.
Proof. unfold mem, num_exp_set. cbn [existsb]. lia. Qed.
Lemma mem_sign c : mem c num_sign_set = true -> c = 43%N \/ c = 45%N.
Proof. unfold mem, num_sign_set. cbn [existsb]. lia. Qed.

Ltac binv H :=
  let a := fresh "a" in let E := fresh "E" in
  apply bind_ok_inv in H; destruct H as (a & E & H); cbn beta in H.

Section Shape.
Variable uni_letter uni_digit : Z -> bool.
Variable inp : bstr.
Variable base : Z.
Notation ilen := (Z.of_nat (length inp)).

(* from l to l' the cursor moved over the bytes bs; start and the items sent are untouched *)
Definition adv_by (l l' : lx) (bs : bstr) : Prop :=
  l_start l' = l_start l /\ l_out l' = l_out l /\ l_pos l' = l_pos l + Z.of_nat (length bs) /\
  (0 <= l_pos l -> drop (Z.to_nat (l_pos l)) inp = bs ++ drop (Z.to_nat (l_pos l')) inp).

Lemma adv_trans l l1 l2 b1 b2 : adv_by l l1 b1 -> adv_by l1 l2 b2 -> adv_by l l2 (b1 ++ b2).
Proof.
  intros (A1 & A2 & A3 & A4) (B1 & B2 & B3 & B4). repeat split; try congruence.
  - rewrite app_length. lia.
  - intros H0. rewrite (A4 H0), (B4 ltac:(lia)), app_assoc. reflexivity.
Qed.

Lemma adv_nil l l' : l_start l' = l_start l -> l_out l' = l_out l -> l_pos l' = l_pos l -> adv_by l l' [].
Proof. intros A B C. repeat split; try assumption; [cbn [length]; lia|]. intros _. rewrite C. reflexivity. Qed.

Lemma next_back_adv l r l1 : next inp ilen l = Ok (r, l1) -> adv_by l (backup l1) [].
Proof.
  intros H. destruct (next_frame inp _ _ _ H) as (A & B & _ & _ & C). apply adv_nil; unfold backup, set_pos; cbn [l_start l_out l_pos]; assumption.
Qed.

Lemma next_one l r l1 : next inp ilen l = Ok (r, l1) -> 0 <= r < 128 ->
  exists c, r = Z.of_N c /\ (c < 128)%N /\ adv_by l l1 [c].
Proof.
  intros H Hr. destruct (next_frame inp _ _ _ H) as (A & B & _ & _ & _).
  destruct (next_ascii_inv inp _ _ _ H Hr) as (c & rest & -> & Hc & H0 & Hd & Hp & _).
  exists c. split; [reflexivity|]. split; [exact Hc|]. repeat split; try assumption.
  intros _. rewrite Hp. replace (Z.to_nat (l_pos l + 1)) with (S (Z.to_nat (l_pos l))) by lia.
  rewrite (drop_S_cons _ _ _ _ Hd). exact Hd.
Qed.

Lemma peek_inv l r l1 : peek inp ilen l = Ok (r, l1) -> adv_by l l1 [].
Proof. unfold peek. intros H. binv H. destruct a as [r0 l0]. injection H as <- <-. eapply next_back_adv; exact E. Qed.

(* accept(set): one ASCII byte of the set, or nothing *)
Lemma accept_inv set l b l1 : accept inp ilen set l = Ok (b, l1) ->
  exists r l0, next inp ilen l = Ok (r, l0) /\
    if b then exists c, r = Z.of_N c /\ mem c set = true /\ adv_by l l1 [c] else adv_by l l1 [].
Proof.
  unfold accept. intros H. binv H. destruct a as [r l0]. exists r, l0. split; [exact E|].
  destruct (in_set set r) eqn:Ei; injection H as <- <-.
  - destruct (in_set_mem _ _ Ei) as [Hr Hm]. destruct (next_one _ _ _ E Hr) as (c & -> & Hc & Ha).
    exists c. rewrite N2Z.id in Hm. auto.
  - eapply next_back_adv; exact E.
Qed.

Lemma accept_run_loop_inv set fuel : forall l l1, accept_run_loop inp ilen fuel set l = Ok l1 ->
  exists bs, Forall (fun c => mem c set = true) bs /\ adv_by l (backup l1) bs.
Proof.
  induction fuel as [|f IH]; intros l l1 H; cbn [accept_run_loop] in H; [discriminate|].
  binv H. destruct a as [r l0]. destruct (in_set set r) eqn:Ei.
  - destruct (in_set_mem _ _ Ei) as [Hr Hm]. destruct (next_one _ _ _ E Hr) as (c & -> & Hc & Ha). rewrite N2Z.id in Hm.
    destruct (IH _ _ H) as (bs & Hall & Hb). exists (c :: bs). split; [constructor; assumption|].
    change (c :: bs) with ([c] ++ bs). eapply adv_trans; eassumption.
  - injection H as <-. exists []. split; [constructor|]. eapply next_back_adv; exact E.
Qed.

Lemma accept_run_inv set l b l1 : accept_run inp ilen set l = Ok (b, l1) ->
  exists bs, Forall (fun c => mem c set = true) bs /\ adv_by l l1 bs /\ b = match bs with [] => false | _ => true end.
Proof.
  unfold accept_run. intros H. binv H. cbv zeta in H. injection H as <- <-.
  destruct (accept_run_loop_inv _ _ _ _ E) as (bs & Hall & Ha). exists bs. split; [exact Hall|]. split; [exact Ha|].
  destruct Ha as (_ & _ & Hp & _). unfold backup, set_pos in Hp. cbn [l_pos] in Hp. rewrite Hp. destruct bs; cbn [length]; lia.
Qed.

Lemma accept_run_digits_inv l b l1 : accept_run inp ilen dec_digits_set l = Ok (b, l1) ->
  exists ds, digs ds /\ adv_by l l1 ds /\ b = match ds with [] => false | _ => true end.
Proof.
  intros H. destruct (accept_run_inv _ _ _ _ H) as (bs & Hall & Ha & Hb). exists bs. split; [|split; assumption].
  eapply Forall_impl; [|exact Hall]. intros c. apply mem_dec.
Qed.

(* the mantissa: D+ or D+ . D+ *)
Lemma scan_mantissa_inv hs l1 t l4 : scan_mantissa inp ilen hs l1 = Ok (inr (t, l4)) ->
  exists ip frac, digs ip /\ ip <> [] /\ frac_ok frac /\ adv_by l1 l4 (ip ++ fl_frac_text frac).
Proof.
  unfold scan_mantissa. intros H. binv H. destruct a as [some l2].
  destruct (accept_run_digits_inv _ _ _ E) as (ip & Hip & Ha & ->).
  destruct ip as [|d ip]; cbn [negb] in H; [discriminate|].
  binv H. destruct a as [dot l3]. destruct (accept_inv _ _ _ _ E0) as (r & l0 & _ & Hacc).
  destruct dot.
  - destruct Hacc as (c & _ & Hm & Hb). apply mem_dot in Hm. subst c.
    binv H. destruct a as [fr l5]. destruct (accept_run_digits_inv _ _ _ E1) as (f & Hf & Hc & ->).
    destruct f as [|d2 f]; cbn [negb] in H; [discriminate|]. injection H as <- <-.
    exists (d :: ip), (Some (d2 :: f)). split; [exact Hip|]. split; [discriminate|]. split; [split; [exact Hf|discriminate]|].
    cbn [fl_frac_text]. change (46%N :: d2 :: f) with ([46%N] ++ d2 :: f).
    eapply adv_trans; [exact Ha|]. eapply adv_trans; eassumption.
  - binv H. binv H. destruct (_ || _); [discriminate|]. injection H as <- <-.
    exists (d :: ip), None. split; [exact Hip|]. split; [discriminate|]. split; [exact I|].
    cbn [fl_frac_text]. eapply adv_trans; [exact Ha|exact Hacc].
Qed.

(* the exponent: nothing, or e [+-]? D+ *)
Lemma scan_exponent_inv t l4 t' l7 : scan_exponent inp ilen t l4 = Ok (inr (t', l7)) ->
  exists ex, exp_ok ex /\ adv_by l4 l7 (fl_exp_text ex).
Proof.
  unfold scan_exponent. intros H. binv H. destruct a as [e l5]. destruct (accept_inv _ _ _ _ E) as (r & l0 & _ & Hacc).
  destruct e.
  - destruct Hacc as (c & _ & Hm & Ha). apply mem_exp in Hm. subst c.
    binv H. destruct a as [sgb l6]. destruct (accept_inv _ _ _ _ E0) as (r2 & l02 & _ & Hacc2).
    binv H. destruct a as [ds l8]. destruct (accept_run_digits_inv _ _ _ E1) as (ex & Hex & Hc & ->).
    destruct ex as [|d ex]; cbn [negb] in H; [discriminate|]. injection H as <- <-.
    assert (Hsg : exists sg, fl_sign_ok sg /\ adv_by l5 l6 sg).
    { destruct sgb.
      - destruct Hacc2 as (c & _ & Hm & Hb). apply mem_sign in Hm. exists [c]. split; [|exact Hb]. unfold fl_sign_ok. destruct Hm; subst; auto.
      - exists []. split; [left; reflexivity|exact Hacc2]. }
    destruct Hsg as (sg & Hsg & Hb).
    exists (Some (sg, d :: ex)). split; [cbn; split; [exact Hsg|split; [exact Hex|discriminate]]|].
    cbn [fl_exp_text]. change (101%N :: sg ++ d :: ex) with ([101%N] ++ sg ++ d :: ex).
    eapply adv_trans; [exact Ha|]. eapply adv_trans; eassumption.
  - injection H as <- <-. exists None. split; [exact I|exact Hacc].
Qed.

Lemma scan_hex_type l1 t l2 : scan_hex inp ilen l1 = Ok (inr (t, l2)) -> t = itemInteger.
Proof.
  unfold scan_hex. intros H. binv H. destruct a as [some l3]. destruct (negb some); [discriminate|].
  binv H. destruct a as [dot l4]. destruct dot; [discriminate|]. injection H as <- _. reflexivity.
Qed.

(* scanNumber, entered at anything but a "+", ok = true, type float: the bytes consumed *)
Lemma scan_number_inv l l' : scan_number uni_letter uni_digit inp ilen l = Ok (itemFloat, true, l') -> numhead inp l ->
  exists hs ip frac ex, digs ip /\ ip <> [] /\ frac_ok frac /\ exp_ok ex /\
    adv_by l l' (fl_sign_text hs ++ ip ++ fl_frac_text frac ++ fl_exp_text ex).
Proof.
  unfold scan_number. intros H Hnh. binv H. destruct a as [hasSign l1].
  destruct (accept_inv _ _ _ _ E) as (r & l0 & Hn & Hacc). specialize (Hnh _ _ Hn).
  assert (Hs : adv_by l l1 (fl_sign_text hasSign)).
  { destruct hasSign; cbn [fl_sign_text]; [|exact Hacc]. destruct Hacc as (c & -> & Hm & Ha). apply mem_sign in Hm.
    destruct Hm as [->| ->]; [exfalso; apply Hnh; reflexivity|exact Ha]. }
  clear Hacc. binv H. rename a into hex. binv H. destruct a as [[t l2]|[t l2]]; [injection H as _ Hf _; discriminate|].
  binv H. destruct a as [p l3]. destruct (is_alnum _ _ p); [binv H; destruct a; injection H as _ Hf _; discriminate|].
  injection H as -> <-. pose proof (peek_inv _ _ _ E2) as Hpk.
  destruct hex.
  - destruct hasSign; [discriminate|]. apply scan_hex_type in E1. discriminate.
  - binv E1. destruct a as [[t1 l4]|[t1 l4]]; [discriminate|].
    destruct (scan_mantissa_inv _ _ _ _ E3) as (ip & frac & Hip & Hne & Hfr & Ham).
    destruct (scan_exponent_inv _ _ _ _ E1) as (ex & Hex & Hae).
    exists hasSign, ip, frac, ex. repeat (split; [assumption|]).
    eapply adv_trans; [exact Hs|]. rewrite app_assoc. eapply adv_trans; [exact Ham|].
    rewrite <- (app_nil_r (fl_exp_text ex)). eapply adv_trans; eassumption.
Qed.

(* emit after such a move from start = pos: the text of the item is the bytes consumed *)
Lemma emit_text t l0 l l' bs : adv_by l0 l bs -> l_start l0 = l_pos l0 -> emit inp ilen base t l = Ok l' ->
  exists it, l_out l' = it :: l_out l0 /\ t_typ it = t /\ t_val it = bs /\ l_start l' = l_pos l'.
Proof.
  intros (A1 & A2 & A3 & A4) Hsp. unfold emit. intros H. binv H. injection H as <-. cbn [l_out l_start l_pos].
  eexists. split.
  { apply f_equal2; [reflexivity|]. destruct (ilen <? l_pos l); cbn [set_pos l_out]; exact A2. }
  cbn [t_typ t_val]. split; [reflexivity|]. split; [|reflexivity].
  - unfold slice in E. set (l1 := if ilen <? l_pos l then set_pos l ilen else l) in *.
    destruct ((l_start l1 <? 0) || (l_pos l1 <? l_start l1) || (ilen <? l_pos l1)) eqn:Eb; [discriminate|].
    injection E as <-.
    assert (Hst : l_start l1 = l_pos l0) by (subst l1; destruct (ilen <? l_pos l); cbn [set_pos l_start]; congruence).
    assert (H0 : 0 <= l_pos l0) by lia. specialize (A4 H0).
    pose proof (f_equal (@length _) A4) as HL. rewrite drop_length, app_length, drop_length in HL.
    assert (Hp : l_pos l1 = l_pos l) by (subst l1; destruct (ilen <? l_pos l) eqn:E5; [lia|reflexivity]).
    rewrite Hst, Hp, A4. replace (Z.to_nat (l_pos l - l_pos l0)) with (length bs) by lia. apply take_app_len.
Qed.

(* ================= Part 3: lexNumber, then whole runs ================= *)

(* scanNumber sends nothing *)
Lemma next_out l r l1 : next inp ilen l = Ok (r, l1) -> l_out l1 = l_out l.
Proof. intros H. apply (next_frame inp _ _ _ H). Qed.
Lemma peek_out l r l1 : peek inp ilen l = Ok (r, l1) -> l_out l1 = l_out l.
Proof. intros H. apply (peek_inv _ _ _ H). Qed.
Lemma accept_out set l b l1 : accept inp ilen set l = Ok (b, l1) -> l_out l1 = l_out l.
Proof. intros H. destruct (accept_inv _ _ _ _ H) as (r & l0 & _ & Ha). destruct b; [destruct Ha as (c & _ & _ & Ha)|]; apply Ha. Qed.
Lemma accept_run_out set l b l1 : accept_run inp ilen set l = Ok (b, l1) -> l_out l1 = l_out l.
Proof. intros H. destruct (accept_run_inv _ _ _ _ H) as (bs & _ & Ha & _). apply Ha. Qed.

Ltac inv1 H := lazymatch type of H with
  | bind _ _ = Ok _ => let a := fresh "a" in let E := fresh "E" in apply bind_ok_inv in H; destruct H as (a & E & H); cbn beta in H
  | match ?x with _ => _ end = Ok _ => destruct x
  | Ok _ = Ok _ => injection H; clear H; intros; subst
  | _ = Ok _ => discriminate H
  end.
Ltac outs := repeat match goal with
  | E : next _ _ _ = Ok _ |- _ => apply next_out in E
  | E : peek _ _ _ = Ok _ |- _ => apply peek_out in E
  | E : accept _ _ _ _ = Ok _ |- _ => apply accept_out in E
  | E : accept_run _ _ _ _ = Ok _ |- _ => apply accept_run_out in E
  end.

Definition res_lx (m : N * lx + N * lx) : lx := match m with inl (_, l) => l | inr (_, l) => l end.

Lemma scan_hex_out l1 m : scan_hex inp ilen l1 = Ok m -> l_out (res_lx m) = l_out l1.
Proof. unfold scan_hex. intros H. repeat inv1 H; outs; cbn [res_lx set_pos l_out] in *; congruence. Qed.
Lemma scan_mantissa_out hs l1 m : scan_mantissa inp ilen hs l1 = Ok m -> l_out (res_lx m) = l_out l1.
Proof. unfold scan_mantissa. intros H. repeat inv1 H; outs; cbn [res_lx set_pos l_out] in *; congruence. Qed.
Lemma scan_exponent_out t l4 m : scan_exponent inp ilen t l4 = Ok m -> l_out (res_lx m) = l_out l4.
Proof. unfold scan_exponent. intros H. repeat inv1 H; outs; cbn [res_lx set_pos l_out] in *; congruence. Qed.

Lemma scan_number_out l t ok l1 : scan_number uni_letter uni_digit inp ilen l = Ok (t, ok, l1) -> l_out l1 = l_out l.
Proof.
  unfold scan_number. intros H. inv1 H. destruct a as [hasSign l0]. inv1 H. rename a into hex. inv1 H. rename a into m.
  assert (Hm : l_out (res_lx m) = l_out l0).
  { destruct hex.
    - destruct hasSign; [injection E1 as <-; reflexivity|apply scan_hex_out; exact E1].
    - inv1 E1. apply scan_mantissa_out in E2. destruct a as [[t1 l4]|[t1 l4]]; [injection E1 as <-; exact E2|].
      apply scan_exponent_out in E1. cbn [res_lx] in E2. congruence. }
  apply accept_out in E. destruct m as [[t2 l2]|[t2 l2]]; cbn [res_lx] in Hm; repeat inv1 H; outs; congruence.
Qed.

Lemma lex_number_float_ok l st' l' :
  lex_number uni_letter uni_digit inp ilen base l = Ok (st', l') -> l_start l = l_pos l -> numhead inp l -> fgood l ->
  fgood l' /\ (st' = LInsideTag \/ st' = LDone) /\ (st' = LInsideTag -> l_start l' = l_pos l').
Proof.
  unfold lex_number. intros H Hsp Hnh Hg. binv H. destruct a as [[t ok] l1]. pose proof (scan_number_out _ _ _ _ E) as Ho.
  destruct ok; cbn [negb] in H.
  - unfold emit_to in H. binv H. injection H as <- <-.
    assert (Hout : exists it, l_out a = it :: l_out l /\ l_start a = l_pos a /\ float_ok it).
    { destruct (N.eq_dec t itemFloat) as [->|Hne].
      - destruct (scan_number_inv _ _ E Hnh) as (hs & ip & frac & ex & Hip & Hne & Hfr & Hex & Ha).
        destruct (emit_text _ _ _ _ _ Ha Hsp E0) as (it & Ho' & Ht & Hv & Hs). exists it. repeat (split; [assumption|]).
        intros _. rewrite Hv. apply split_float_shape; assumption.
      - unfold emit in E0. binv E0. injection E0 as <-. cbn [l_out l_start l_pos]. eexists. split.
        { apply f_equal2; [reflexivity|]. destruct (ilen <? l_pos l1); cbn [set_pos l_out]; exact Ho. }
        split; [reflexivity|]. apply nonfloat_ok. exact Hne. }
    destruct Hout as (it & Ho' & Hs & Hf). split; [|split; [left; reflexivity|intros _; exact Hs]].
    unfold fgood. rewrite Ho'. constructor; assumption.
  - binv H. unfold errorf in H. destruct (base + l_pos l1 <? 0); [discriminate|]. injection H as <- <-.
    split; [|split; [right; reflexivity|discriminate]].
    unfold fgood. cbn [l_out]. rewrite Ho. constructor; [apply nonfloat_ok; cbn; discriminate|exact Hg].
Qed.

End Shape.

(* ================= the theorems ================= *)

Lemma run_good uni_letter uni_digit base fuel mode s l :
  lex_run_at uni_letter uni_digit base fuel mode s = Ok l -> fgood l.
Proof.
  unfold lex_run_at. intros H.
  eapply (run_sinv_num uni_letter uni_digit s base (lex_number_float_ok uni_letter uni_digit s base)); [exact H|apply sinv_init].
Qed.

(* every float item of a run of the scanner model has a text split_float accepts *)
Theorem scan_float_shape : forall uni_letter uni_digit base fuel mode s l,
  lex_run_at uni_letter uni_digit base fuel mode s = Ok l ->
  forall t, In t (l_out l) -> t_typ t = itemFloat -> exists fl, split_float (t_val t) = Some fl.
Proof.
  intros ul ud base fuel mode s l H t Hin Ht. pose proof (run_good _ _ _ _ _ _ _ H) as Hg.
  unfold fgood in Hg. rewrite Forall_forall in Hg. exact (Hg t Hin Ht).
Qed.

Corollary scan_float_shape_run : forall uni_letter uni_digit fuel mode s l,
  lex_run uni_letter uni_digit fuel mode s = Ok l ->
  forall t, In t (l_out l) -> t_typ t = itemFloat -> exists fl, split_float (t_val t) = Some fl.
Proof. intros ul ud fuel mode s l. apply scan_float_shape. Qed.

Corollary scan_float_shape_items : forall uni_letter uni_digit fuel mode s its,
  lex_items uni_letter uni_digit fuel mode s = Ok its ->
  forall t, In t its -> t_typ t = itemFloat -> exists fl, split_float (t_val t) = Some fl.
Proof.
  intros ul ud fuel mode s its H t Hin Ht. unfold lex_items in H. apply bind_ok_inv in H. destruct H as (l & Hr & H).
  injection H as <-. apply in_rev in Hin. exact (scan_float_shape_run _ _ _ _ _ _ Hr t Hin Ht).
Qed.

Corollary scan_float_shape_items_at : forall uni_letter uni_digit base fuel s its,
  lex_items_at uni_letter uni_digit base fuel s = Ok its ->
  forall t, In t its -> t_typ t = itemFloat -> exists fl, split_float (t_val t) = Some fl.
Proof.
  intros ul ud base fuel s its H t Hin Ht. unfold lex_items_at in H. apply bind_ok_inv in H. destruct H as (l & Hr & H).
  injection H as <-. apply in_rev in Hin. exact (scan_float_shape _ _ _ _ _ _ _ Hr t Hin Ht).
Qed.

(* float_of_lit never answers FRSyntax, so FRSyntax means exactly "split_float = None" *)
Lemma float_of_lit_not_syntax fl : float_of_lit fl <> FRSyntax.
Proof.
  unfold float_of_lit, round_ratio.
  repeat match goal with
  | |- context [if ?c then _ else _] => destruct c
  | |- context [match ?x with _ => _ end] => destruct x
  end; discriminate.
Qed.

Lemma split_some_not_syntax v fl : split_float v = Some fl -> parse_float_round v <> FRSyntax.
Proof. intros H. unfold parse_float_round. rewrite H. apply float_of_lit_not_syntax. Qed.

(* the FRSyntax branch of parse_float_round is dead for scanner output *)
Corollary scan_float_not_syntax : forall uni_letter uni_digit base fuel mode s l,
  lex_run_at uni_letter uni_digit base fuel mode s = Ok l ->
  forall t, In t (l_out l) -> t_typ t = itemFloat -> parse_float_round (t_val t) <> FRSyntax.
Proof.
  intros ul ud base fuel mode s l H t Hin Ht. destruct (scan_float_shape _ _ _ _ _ _ _ H t Hin Ht) as (fl & Hfl).
  eapply split_some_not_syntax; exact Hfl.
Qed.

(* the same with the parser's name of the item code, on the item lists the parser receives *)
Corollary scan_float_not_syntax_items : forall uni_letter uni_digit fuel mode s its,
  lex_items uni_letter uni_digit fuel mode s = Ok its ->
  forall t, In t its -> t_typ t = pk_itemFloat -> parse_float_round (t_val t) <> FRSyntax.
Proof.
  intros ul ud fuel mode s its H t Hin Ht. change pk_itemFloat with itemFloat in Ht.
  destruct (scan_float_shape_items _ _ _ _ _ _ H t Hin Ht) as (fl & Hfl). eapply split_some_not_syntax; exact Hfl.
Qed.

Corollary scan_float_not_syntax_items_at : forall uni_letter uni_digit base fuel s its,
  lex_items_at uni_letter uni_digit base fuel s = Ok its ->
  forall t, In t its -> t_typ t = pk_itemFloat -> parse_float_round (t_val t) <> FRSyntax.
Proof.
  intros ul ud base fuel s its H t Hin Ht. change pk_itemFloat with itemFloat in Ht.
  destruct (scan_float_shape_items_at _ _ _ _ _ _ H t Hin Ht) as (fl & Hfl). eapply split_some_not_syntax; exact Hfl.
Qed.

Print Assumptions scan_float_shape.
Print Assumptions scan_float_not_syntax_items_at.
