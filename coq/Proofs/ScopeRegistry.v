(* C02, call names, part 2 (registry): after Bundle.Compile's loop over the files
   (Model/Compile.v add_all_files = parse + Registry.Add per file), looking a
   name up finds exactly the template a {template} tag with that name declares --
   its body without the header params, under the autoescape mode of the
   namespace of ITS file -- and nothing else; so a {call} whose resolved name is
   that name runs that body (Spec/Cmd.v, case NCall). *)
From Coq Require Import Lia Permutation.
From Soy Require Import Model.Bytes Model.Num Model.Values Model.Outcome Model.Ast Model.Escape Model.Interp Model.Compile
  Spec.Cmd Proofs.CompilePermProofs Proofs.ScopeSpecProofs.
Open Scope N_scope.

(* the node before position |l1| of a body, [prev] before the body *)
Definition prev_of (prev : option node) (l1 : list node) : option node :=
  match rev l1 with [] => prev | a :: _ => Some a end.

Lemma prev_of_cons prev a l : prev_of prev (a :: l) = prev_of (Some a) l.
Proof. unfold prev_of. cbn [rev]. destruct (rev l) as [|x r]; reflexivity. Qed.

Lemma file_units_in fname ns ae body : forall prev x,
  In x (file_units fname ns ae prev body) <->
  exists l1 tn l2, body = l1 ++ tn :: l2 /\ is_template tn = true /\
                   x = template_local fname ns ae (prev_of prev l1) tn.
Proof.
  induction body as [|n r IH]; intros prev x; cbn [file_units].
  - split; [intros [] | intros (l1 & tn & l2 & H & _); destruct l1; discriminate].
  - rewrite in_app_iff, IH. split.
    + intros [H|(l1 & tn & l2 & -> & Ht & ->)].
      * destruct (is_template n) eqn:Et; [|destruct H]. destruct H as [<-|[]].
        exists [], n, r. repeat split; assumption.
      * exists (n :: l1), tn, l2. rewrite prev_of_cons. repeat split; assumption.
    + intros (l1 & tn & l2 & Hb & Ht & ->). destruct l1 as [|a l1]; cbn [app] in Hb; injection Hb as -> ->.
      * left. rewrite Ht. left. reflexivity.
      * right. exists l1, tn, l2. rewrite prev_of_cons. repeat split; assumption.
Qed.

Lemma units_ok_in us l : units_ok us = Some l -> forall u, In u l <-> In (inr u) us.
Proof.
  revert l. induction us as [|[e|u0] r IH]; cbn [units_ok]; intros l H u.
  - injection H as <-. split; intros [].
  - discriminate.
  - destruct (units_ok r) as [l'|]; [|discriminate]. injection H as <-. cbn [In]. rewrite (IH l' eq_refl u).
    split; intros [E|E]; auto; [left; congruence | left; congruence].
Qed.

(* what Registry.Add derives from one {template} node *)
Lemma template_local_spec fname ns nsae prev tn u :
  template_local fname ns nsae prev tn = inr u ->
  exists p name lp nodes ae priv pv,
    tn = NTemplate p name (NList lp nodes) ae priv /\ prev = Some pv /\
    tu_template u =
      {| t_name := name; t_node := NTemplate p name (NList lp (snd (span_headers nodes))) ae priv;
         t_ns_name := ns; t_ns_autoescape := nsae;
         t_params := flat_map docparam_sig
                       ((match pv with NSoyDoc _ ps => ps | _ => [] end) ++ map header_to_docparam (fst (span_headers nodes)));
         t_file := fname |}.
Proof.
  unfold template_local. destruct tn; try discriminate. destruct tn; try discriminate.
  destruct prev as [pv|]; [|discriminate].
  destruct (span_headers nodes) as [hs rest] eqn:Es. intros H.
  exists p, name, p0, nodes, autoescape, private, pv. rewrite Es. cbn [fst snd].
  split; [reflexivity|]. split; [reflexivity|].
  destruct hs as [|h hs]; [|destruct (match pv with NSoyDoc _ ps => ps | _ => [] end) as [|d ds] eqn:Ed; [|discriminate]];
    injection H as <-; reflexivity.
Qed.

(* the templates of a file whose own processing succeeds *)
Lemma file_ts_in f t : file_result f <> None ->
  (In t (file_ts f) <->
   exists ns nsae l1 tn l2 u,
     find_namespace (sfile_body f) = inr (ns, nsae) /\ sfile_body f = l1 ++ tn :: l2 /\ is_template tn = true /\
     template_local (sfile_name f) ns nsae (prev_of None l1) tn = inr u /\ t = tu_template u).
Proof.
  unfold file_ts, file_result. intros Hr.
  destruct (find_namespace (sfile_body f)) as [e|[ns nsae]]; [contradiction|].
  destruct (units_ok _) as [l|] eqn:El; [|contradiction]. rewrite in_map_iff. split.
  - intros (u & <- & Hu). apply (units_ok_in _ _ El) in Hu. apply file_units_in in Hu.
    destruct Hu as (l1 & tn & l2 & Hb & Ht & Hx). exists ns, nsae, l1, tn, l2, u. repeat split; auto.
  - intros (ns' & nsae' & l1 & tn & l2 & u & [= <- <-] & Hb & Ht & Hx & ->). exists u. split; [reflexivity|].
    apply (units_ok_in _ _ El). apply file_units_in. exists l1, tn, l2. repeat split; auto.
Qed.

Section Registry.
Variable srcs : list src.
Variable r : creg.
Hypothesis Hadd : add_all_files empty_creg srcs = COk r.

(* the lookup finds a template iff a file of the bundle yields it; names are unique *)
Theorem registry_lookup_exact :
  exists fs, srcs = map SrcOk fs /\ NoDup (map t_name (all_ts fs)) /\
    forall name t, find_template (r_templates (cr_reg r)) name = Some t <-> (In t (all_ts fs) /\ t_name t = name).
Proof.
  destruct (add_files_parsed _ _ _ Hadd) as (fs & Hs). exists fs. split; [exact Hs|].
  rewrite Hs in Hadd. apply add_files_ok in Hadd; [|apply reg_inv_empty].
  destruct Hadd as ((Hall & Hnd & _) & ->). split; [exact Hnd|].
  intros name t. rewrite big_extend_templates, find_template_assoc. split.
  - intros H. apply assoc_s_Some_In in H. apply in_map_iff in H. destruct H as (t' & E & Hin).
    unfold template_entry in E. injection E as <- <-. split; [exact Hin | reflexivity].
  - intros [Hin <-]. apply assoc_s_In_NoDup; [rewrite map_fst_entries; exact Hnd|].
    apply in_map_iff. exists t. split; [reflexivity | exact Hin].
Qed.

(* a {template} tag of a file of the bundle: the lookup of its name finds its body (header params taken out),
   with the namespace and the autoescape mode of that file *)
Theorem declared_template_found f l1 p name body ae priv l2 :
  In (SrcOk f) srcs -> sfile_body f = l1 ++ NTemplate p name body ae priv :: l2 ->
  exists t lp nodes,
    body = NList lp nodes /\
    find_template (r_templates (cr_reg r)) name = Some t /\
    t_name t = name /\ t_node t = NTemplate p name (NList lp (snd (span_headers nodes))) ae priv /\
    find_namespace (sfile_body f) = inr (t_ns_name t, t_ns_autoescape t) /\ t_file t = sfile_name f.
Proof.
  intros Hf Hb. destruct registry_lookup_exact as (fs & Hs & Hnd & Hlook).
  rewrite Hs in Hf. apply in_map_iff in Hf. destruct Hf as (f' & [= ->] & Hf).
  pose proof Hadd as Ha. rewrite Hs in Ha. apply add_files_ok in Ha; [|apply reg_inv_empty].
  destruct Ha as ((Hall & _ & _) & _). rewrite Forall_forall in Hall. specialize (Hall f Hf).
  (* the unit of this template node *)
  pose proof Hall as Hres. unfold file_result in Hres.
  destruct (find_namespace (sfile_body f)) as [e|[ns nsae]] eqn:En; [contradiction|].
  destruct (units_ok _) as [l|] eqn:El; [|contradiction]. clear Hres.
  destruct (template_local (sfile_name f) ns nsae (prev_of None l1) (NTemplate p name body ae priv)) as [e|u] eqn:Eu.
  { exfalso. assert (Hin : In (inl e) (file_units (sfile_name f) ns nsae None (sfile_body f))).
    { apply file_units_in. exists l1, (NTemplate p name body ae priv), l2. repeat split; [exact Hb | symmetry; exact Eu]. }
    clear - El Hin. revert l El. induction (file_units _ _ _ _ _) as [|[e'|u'] us IH]; intros l El; cbn [units_ok] in El; [destruct Hin | discriminate|].
    destruct (units_ok us) as [l'|]; [|discriminate]. destruct Hin as [Hx|Hx]; [discriminate | exact (IH Hx l' eq_refl)]. }
  destruct (template_local_spec _ _ _ _ _ _ Eu) as (p' & name' & lp & nodes & ae' & priv' & pv & Etn & _ & Et).
  injection Etn as <- <- -> <- <-.
  assert (Hin : In (tu_template u) (all_ts fs)).
  { unfold all_ts. apply in_flat_map. exists f. split; [exact Hf|]. apply file_ts_in; [exact Hall|].
    exists ns, nsae, l1, (NTemplate p name (NList lp nodes) ae priv), l2, u. repeat split; assumption. }
  exists (tu_template u), lp, nodes. split; [reflexivity|].
  split; [apply Hlook; split; [exact Hin | rewrite Et; reflexivity]|].
  rewrite Et. cbn. repeat split; reflexivity.
Qed.

(* conversely: whatever the lookup finds was declared by a {template} tag of a file of the bundle *)
Theorem found_template_declared name t :
  find_template (r_templates (cr_reg r)) name = Some t ->
  exists f l1 p lp nodes ae priv l2,
    In (SrcOk f) srcs /\ sfile_body f = l1 ++ NTemplate p name (NList lp nodes) ae priv :: l2 /\
    t_node t = NTemplate p name (NList lp (snd (span_headers nodes))) ae priv /\
    find_namespace (sfile_body f) = inr (t_ns_name t, t_ns_autoescape t) /\ t_file t = sfile_name f.
Proof.
  intros H. destruct registry_lookup_exact as (fs & Hs & Hnd & Hlook).
  apply Hlook in H. destruct H as [Hin Hname].
  pose proof Hadd as Ha. rewrite Hs in Ha. apply add_files_ok in Ha; [|apply reg_inv_empty].
  destruct Ha as ((Hall & _ & _) & _). rewrite Forall_forall in Hall.
  unfold all_ts in Hin. apply in_flat_map in Hin. destruct Hin as (f & Hf & Hin).
  apply file_ts_in in Hin; [|exact (Hall f Hf)].
  destruct Hin as (ns & nsae & l1 & tn & l2 & u & En & Hb & Ht & Eu & ->).
  destruct (template_local_spec _ _ _ _ _ _ Eu) as (p & name' & lp & nodes & ae & priv & pv & -> & _ & Et).
  rewrite Et in Hname. cbn in Hname. subst name'.
  exists f, l1, p, lp, nodes, ae, priv, l2. rewrite Et. cbn.
  split; [rewrite Hs; apply in_map; exact Hf|]. repeat split; assumption.
Qed.
End Registry.

(* ---- with the command semantics: a call whose (resolved) name is that of a declared template runs
        that template's body, in the callee environment, under the autoescape mode of the callee's file ---- *)
Theorem call_runs_declared_template cf srcs r f l1 p name body ae priv l2 l entry md en pc alldata dat params :
  add_all_files empty_creg srcs = COk r -> c_reg cf = cr_reg r ->
  In (SrcOk f) srcs -> sfile_body f = l1 ++ NTemplate p name body ae priv :: l2 ->
  exists lp nodes ns nsae,
    body = NList lp nodes /\ find_namespace (sfile_body f) = inr (ns, nsae) /\
    exec_body cf l entry md en (NCall pc name alldata dat params) =
    (base <~~ base_spec l entry en alldata dat ;;
     ps <~~ params_spec l entry md en params [] ;;
     l_exec l (ps ++ base) (ps ++ base) (call_mode nsae)
            (NTemplate p name (NList lp (snd (span_headers nodes))) ae priv)).
Proof.
  intros Hadd Hreg Hf Hb.
  destruct (declared_template_found srcs r Hadd f l1 p name body ae priv l2 Hf Hb)
    as (t & lp & nodes & -> & Hfind & _ & Hnode & Hns & _).
  exists lp, nodes, (t_ns_name t), (t_ns_autoescape t). split; [reflexivity|]. split; [exact Hns|].
  rewrite <- Hreg in Hfind. rewrite (ScopeSpecProofs.callee_env_exact cf l entry md en pc name alldata dat params t Hfind), Hnode.
  reflexivity.
Qed.
