(* C13: the tree of the file on which Registry.Add returned an error half-way.
   Add works in place and returns at the first template it rejects: the nodes in
   front of the cut are rewritten, the nodes behind it are not; when the error
   is "both soydoc and header params" the header params are already appended to
   the SoyDoc node of the rejected template (on every failed Add once more).
   Handing such a tree to Add again gives the same error. *)
From Coq Require Import List Lia.
From Soy Require Import Model.Bytes Model.Num Model.Values Model.Outcome Model.Ast Model.MsgId Model.Compile
  Generated.Tables Spec.Determinism Proofs.CompileProofs Proofs.CompileReaddProofs.
Import ListNotations.
Open Scope N_scope.

Section Interrupted.
  Variables (fname nsname : bstr) (nsae : N).
  Notation tl_ := (template_local fname nsname nsae).
  Notation pb := (processed_body fname nsname nsae).
  Notation fu := (file_units fname nsname nsae).
  Notation on := (out_node fname nsname nsae).

  Lemma fu_prev_ext prev prev' body :
    option_map docparams_of prev' = option_map docparams_of prev -> fu prev' body = fu prev body.
  Proof.
    intros H. destruct body as [|n r]; [reflexivity|]. cbn [file_units].
    rewrite (tl_prev_ext fname nsname nsae prev' prev n H). reflexivity.
  Qed.

  Definition cut (k : nat) (tail : list node -> list node) (prev : option node) (body : list node) : list node :=
    firstn k (pb prev body) ++ tail (skipn k body).

  (* the cut does not separate a SoyDoc node that Add has filled from its template *)
  Fixpoint cut_ok (k : nat) (prev : option node) (body : list node) : Prop :=
    match k, body with
    | S k', n :: r =>
        match k' with
        | O => docparams_of (on prev n r) = docparams_of n
        | S _ => cut_ok k' (Some n) r
        end
    | _, _ => True
    end.

  Definition rel (k : nat) (prev prev' : option node) (body : list node) : Prop :=
    match k with
    | O => option_map docparams_of prev' = option_map docparams_of prev
    | S _ => params_moved fname nsname nsae prev prev' body
    end.

  Lemma fu_cut tail body : forall k prev prev',
    (k <= length body)%nat ->
    headers_documented prev body = true ->
    rel k prev prev' body ->
    cut_ok k prev body ->
    (forall pv pv', option_map docparams_of pv' = option_map docparams_of pv ->
                    fu pv' (tail (skipn k body)) = fu pv (skipn k body)) ->
    fu prev' (cut k tail prev body) = fu prev body.
  Proof.
    induction body as [|n r IH]; intros k prev prev' Hk Hd Hr Hc Ht.
    - destruct k; [|cbn in Hk; lia]. unfold cut. cbn [firstn skipn app]. apply (Ht prev prev'), Hr.
    - destruct k as [|k'].
      + unfold cut. cbn [firstn skipn app]. apply (Ht prev prev'), Hr.
      + unfold cut. rewrite pb_cons. cbn [firstn skipn app file_units]. rewrite is_template_out.
        cbn [headers_documented] in Hd. apply andb_prop in Hd. destruct Hd as [_ Hd].
        f_equal.
        * destruct (is_template n) eqn:Et; [|reflexivity]. f_equal. apply tl_out_node; [exact Et | exact Hr].
        * apply (IH k' (Some n) (Some (on prev n r))).
          -- cbn [length] in Hk. lia.
          -- exact Hd.
          -- destruct k' as [|k'']; cbn [rel].
             ++ cbn [cut_ok] in Hc. cbn [option_map]. rewrite Hc. reflexivity.
             ++ apply params_moved_step, Hd.
          -- destruct k' as [|k'']; [exact I | exact Hc].
          -- exact Ht.
  Qed.

  Lemma find_namespace_cut tail body : forall k prev x,
    find_namespace (firstn k body) = inr x -> find_namespace (cut k tail prev body) = inr x.
  Proof.
    induction body as [|n r IH]; intros k prev x H.
    - destruct k; discriminate.
    - destruct k as [|k']; [discriminate|].
      unfold cut. rewrite pb_cons. cbn [firstn skipn app].
      destruct n; cbn [firstn find_namespace] in H; try discriminate.
      + rewrite out_node_other by reflexivity. exact H.
      + assert (Hs : is_soydoc (on prev (NSoyDoc p params) r) = true) by (rewrite is_soydoc_out; reflexivity).
        destruct (on prev (NSoyDoc p params) r); try discriminate. cbn [find_namespace]. apply (IH k' _ x H).
  Qed.

  Lemma find_namespace_firstn body : forall k x, find_namespace (firstn k body) = inr x -> find_namespace body = inr x.
  Proof.
    induction body as [|n r IH]; intros k x H; destruct k; try discriminate.
    destruct n; cbn [firstn find_namespace] in *; try discriminate; [exact H | apply (IH k x H)].
  Qed.

  (* sufficient conditions for [cut_ok]: the first node behind the cut is not a template ... *)
  Lemma cut_ok_before_non_template body : forall k prev,
    (forall m, nth_error body k = Some m -> is_template m = false) -> cut_ok k prev body.
  Proof.
    induction body as [|n r IH]; intros k prev H; destruct k as [|k']; try exact I.
    cbn [cut_ok]. destruct k' as [|k''].
    - destruct (is_soydoc n) eqn:Ed.
      + destruct n; try discriminate. unfold out_node. destruct r as [|t r2]; [reflexivity|].
        rewrite (H t eq_refl). reflexivity.
      + rewrite !docparams_of_not_soydoc; [reflexivity | exact Ed | rewrite is_soydoc_out; exact Ed].
    - apply IH. intros m Hm. apply H. exact Hm.
  Qed.

  (* ... or the last node in front of it is not a SoyDoc *)
  Lemma cut_ok_after_non_soydoc body : forall k prev,
    (forall m, nth_error body k = Some m -> is_soydoc m = false) -> cut_ok (S k) prev body.
  Proof.
    induction body as [|n r IH]; intros k prev H; [exact I|].
    cbn [cut_ok]. destruct k as [|k'].
    - specialize (H n eq_refl).
      rewrite !docparams_of_not_soydoc; [reflexivity | exact H | rewrite is_soydoc_out; exact H].
    - apply IH. intros m Hm. apply H. exact Hm.
  Qed.

  (* the two tails *)
  Lemma tail_id_ok suffix pv pv' :
    option_map docparams_of pv' = option_map docparams_of pv -> fu pv' ((fun l => l) suffix) = fu pv suffix.
  Proof. apply fu_prev_ext. Qed.

  Lemma tail_appended_ok extra p ps t rest name pv pv' :
    tl_ (Some (NSoyDoc p ps)) t = inl (AEBothParamKinds name) ->
    fu pv' (params_appended extra (NSoyDoc p ps :: t :: rest)) = fu pv (NSoyDoc p ps :: t :: rest).
  Proof.
    intros E. cbn [params_appended file_units is_template app]. f_equal.
    destruct (is_template t) eqn:Et; [|reflexivity]. f_equal.
    destruct t; try discriminate. destruct t; try discriminate.
    rewrite tl_some in E. rewrite !tl_some. unfold unit_of in *. cbn [docparams_of] in *.
    destruct (fst (span_headers nodes)) as [|h hs]; [discriminate|].
    destruct ps as [|d ds]; [discriminate|]. reflexivity.
  Qed.
End Interrupted.

(* Add on the tree of a file on which an earlier Add returned the error [e]:
   the same error.  [k] = number of nodes Add had rewritten, [tail] = what it
   did to the rest. *)
Theorem registry_add_interrupted r f k tail e ns ae :
  headers_documented None (sfile_body f) = true ->
  (k <= length (sfile_body f))%nat ->
  find_namespace (firstn k (sfile_body f)) = inr (ns, ae) ->
  cut_ok (sfile_name f) ns ae k None (sfile_body f) ->
  (forall pv pv', option_map docparams_of pv' = option_map docparams_of pv ->
                  file_units (sfile_name f) ns ae pv' (tail (skipn k (sfile_body f))) =
                  file_units (sfile_name f) ns ae pv (skipn k (sfile_body f))) ->
  registry_add r f = inl e -> registry_add r (interrupted_file k tail f) = inl e.
Proof.
  intros Hd Hk Hn Hc Ht H.
  pose proof (find_namespace_firstn _ _ _ Hn) as Hn'.
  unfold interrupted_file. rewrite Hn'. unfold registry_add in *. cbn [sfile_body sfile_name sfile_text].
  rewrite Hn' in H.
  change (firstn k (processed_body (sfile_name f) ns ae None (sfile_body f)) ++ tail (skipn k (sfile_body f)))
    with (cut (sfile_name f) ns ae k tail None (sfile_body f)).
  rewrite (find_namespace_cut _ _ _ tail _ _ None _ Hn).
  rewrite (fu_cut (sfile_name f) ns ae tail (sfile_body f) k None None Hk Hd); [| |exact Hc|exact Ht].
  - destruct (add_units _ _ _ _) as [e'|reg']; [exact H | discriminate].
  - destruct k; cbn [rel]; [reflexivity|].
    intros t r0 _ Et. destruct t; try discriminate. destruct t; reflexivity.
Qed.

Lemma skipn_cons_nth {A} (l : list A) : forall k x rest, skipn k l = x :: rest -> nth_error l k = Some x /\ (k < length l)%nat.
Proof.
  induction l as [|a l IH]; intros k x rest H; destruct k; cbn in *; try discriminate.
  - injection H as -> _. split; [reflexivity | lia].
  - destruct (IH k x rest H) as [H1 H2]. split; [exact H1 | lia].
Qed.

Theorem registry_add_interrupted_variant r f f' e :
  headers_documented None (sfile_body f) = true -> interrupted_variant f f' ->
  registry_add r f = inl e -> registry_add r f' = inl e.
Proof.
  intros Hd Hv H. destruct Hv as [j ns ae Hn Hk Hm | k extra p ps t rest name ns ae Hn Hs Ht].
  - apply (registry_add_interrupted r f (S j) _ e ns ae Hd Hk Hn); [|intros pv pv'; apply fu_prev_ext|exact H].
    apply cut_ok_after_non_soydoc, Hm.
  - destruct (skipn_cons_nth _ _ _ _ Hs) as [Hnth Hlen].
    apply (registry_add_interrupted r f k _ e ns ae Hd); [lia | exact Hn | | | exact H].
    + apply cut_ok_before_non_template. intros m Hm. rewrite Hnth in Hm. injection Hm as <-. reflexivity.
    + intros pv pv' _. rewrite Hs. eapply tail_appended_ok, Ht.
Qed.

Lemma interrupted_variant_name f f' : interrupted_variant f f' -> sfile_name f' = sfile_name f.
Proof.
  intros [j ns ae _ _ _ | k extra p ps t rest name ns ae _ _ _]; unfold interrupted_file;
    destruct (find_namespace (sfile_body f)) as [e|[ns' ae']]; reflexivity.
Qed.

Lemma add_all_files_app pre : forall r0 rest,
  add_all_files r0 (pre ++ rest) =
  match add_all_files r0 pre with COk r => add_all_files r rest | CErr e => CErr e end.
Proof.
  induction pre as [|s pre IH]; intros r0 rest; [reflexivity|].
  cbn [app add_all_files]. destruct s as [f|name msg]; [|reflexivity].
  destruct (registry_add r0 f) as [e|r']; [reflexivity | apply IH].
Qed.

(* Compiling again after a compilation that Registry.Add rejected, from the
   trees that compilation left behind: the files in front of the rejected one
   as they were or rewritten, the rejected file half rewritten, the files behind
   it anything at all (they were not parsed): the same error. *)
Theorem compile_after_failed_add ns o o' calls pre pre' f f' post post' r e :
  perm_orders o -> perm_orders o' ->
  Forall (fun s => src_documented s = true) pre -> Forall2 readd_variant pre pre' ->
  headers_documented None (sfile_body f) = true -> interrupted_variant f f' ->
  add_all_files empty_creg pre = COk r -> registry_add r f = inl e ->
  compile ns o' calls (pre' ++ SrcOk f' :: post') = compile ns o calls (pre ++ SrcOk f :: post).
Proof.
  intros Ho Ho' Hd H2 Hdf Hv Hpre Hadd.
  rewrite (compile_oracle_independent ns o' o calls _ Ho' Ho).
  unfold compile, compile_gen.
  rewrite !add_all_files_app, (add_all_files_readd pre pre' empty_creg H2 Hd), Hpre.
  cbn [add_all_files]. rewrite Hadd, (registry_add_interrupted_variant r f f' e Hdf Hv Hadd), (interrupted_variant_name f f' Hv).
  reflexivity.
Qed.
