(* C15, parser half for bodies with print commands among the tags: itemList over the items [c15_gshape c15_X0]
   (print-command items with all positions 0), at ONE budget g for every level: either some print command's
   beginTag runs out of budget (the whole run is then CFuel), or the list node read has the Spec's reading.  The
   totality of the entry point excludes the first alternative (Proofs/BodyTagsMain.v). *)
From Soy Require Import Model.Bytes Model.Utf8 Model.Outcome Model.Num Model.Values Model.Ast Model.Token Model.RawText
  Model.ExprParser Model.Parser Model.Lexer Generated.Tables Spec.Text Spec.TextBody Spec.TextMix Spec.TextTags Spec.ExprSyntax Spec.CmdSyntax
  Proofs.RawTextProofs Proofs.ExprParserRules Proofs.ExprParserProofs Proofs.LexTokens Proofs.LexBodyText Proofs.LexBodyTop
  Proofs.LexBodyMain Proofs.LexBodyMixMain Proofs.ParseBodyText Proofs.ParseBodySeg Proofs.ParseBodyMix Proofs.PlaceholderTextProofs
  Proofs.CmdRoundtripBase Proofs.CmdRoundtripRules Proofs.CmdRoundtripPrint Proofs.CmdParserFuel Proofs.CmdParserStripDefs Proofs.PrintCmdFile
  Proofs.BodyTagsShape.
From Coq Require Import ZifyBool ZifyNat ZifyN Lia.
Open Scope N_scope.

Section P.
Variable inlen : N.
Variable lexq : bstr -> list tok.
Variable unq : bstr -> option bstr.
Variable pexpr : nat -> N -> pst -> presult node.
Variable efuel : list tok -> nat.
Variable pe : N -> cst -> cres node.
Variable w : list N -> cst -> cres node.
Variable lf : nat.
Notation loop := (item_list_loop inlen lexq unq pexpr efuel pe w lf).
Notation tot := (text_or_tag inlen lexq unq pexpr efuel pe w lf).
Notation btag := (begin_tag inlen lexq unq pexpr efuel pe w lf).

(* Proofs/ParseBodyMix.v ld_iter with the case "beginTag runs out of budget" *)
Lemma ld_iter_cases pre ld t2 l pos acc s : Forall is_comment pre -> t_typ ld = pit_LeftDelim -> one_of (t_typ t2) u_eof = false ->
  stream (c_p s) = pre ++ ld :: t2 :: l -> inv (c_p s) -> (length pre + 2 <= lf)%nat ->
  exists pos1 sb, stream (c_p sb) = t2 :: l /\ inv (c_p sb) /\
    (btag sb = CFuel -> forall f, loop (S f) u_eof pos acc s = CFuel) /\
    forall n s', btag sb = COk (Some n) s' -> forall f, loop (S f) u_eof pos acc s = loop f u_eof (Some pos1) (acc ++ [n]) s'.
Proof.
  intros Hpre Hld Hce Hs Hi Hlf.
  assert (Hne : t_typ ld <> pit_Comment) by (rewrite Hld; discriminate).
  assert (H1 : one_of (t_typ ld) u_eof = false) by (rewrite Hld; reflexivity).
  assert (H2 : tis ld pit_Text = false) by (unfold tis; rewrite Hld; reflexivity).
  assert (H3 : tis ld pit_LeftDelim = true) by (unfold tis; rewrite Hld; reflexivity).
  assert (Hfin : forall token0 s1 s2, skip_comments lf token0 s1 = COk ld s2 -> stream (c_p s2) = t2 :: l -> inv (c_p s2) ->
            exists sb, stream (c_p sb) = t2 :: l /\ inv (c_p sb) /\
              (btag sb = CFuel -> tot token0 u_eof s1 = CFuel) /\
              forall n s', btag sb = COk (Some n) s' -> tot token0 u_eof s1 = COk (Some n, false) s').
  { intros token0 s1 s2 Hsk Hs2 Hi2. destruct (mx_next s2 t2 l Hs2 Hi2) as (s3 & Hn3 & Hs3 & Hi3 & Hsb & Hib).
    exists (c_backup s3). split; [exact Hsb|]. split; [exact Hib|]. split.
    - intros Hb. unfold text_or_tag. rewrite Hsk. cbn [cbind]. rewrite H1, Hn3. cbn [cbind]. rewrite Hce, Bool.andb_false_r.
      cbv zeta. rewrite H2, H3, Hb. reflexivity.
    - intros n s' Hb.
      unfold text_or_tag. rewrite Hsk. cbn [cbind]. rewrite H1, Hn3. cbn [cbind]. rewrite Hce, Bool.andb_false_r.
      cbv zeta. rewrite H2, H3, Hb. reflexivity. }
  destruct pre as [|c pre].
  - cbn [app] in Hs. destruct (mx_next s ld _ Hs Hi) as (s1 & Hn1 & Hs1 & Hi1 & _).
    assert (Hsk : skip_comments lf ld s1 = COk ld s1) by (destruct lf; [lia|apply skip_non; exact Hne]).
    destruct (Hfin ld s1 s1 Hsk Hs1 Hi1) as (sb & Hsb & Hib & Hfu & Hrun).
    exists (match pos with Some p => p | None => t_pos ld end), sb. split; [exact Hsb|]. split; [exact Hib|]. split.
    + intros Hb f. cbn [item_list_loop]. rewrite Hn1. cbn [cbind]. rewrite (Hfu Hb). reflexivity.
    + intros n s' Hb f. cbn [item_list_loop]. rewrite Hn1. cbn [cbind]. rewrite (Hrun n s' Hb). cbn [cbind snd fst]. reflexivity.
  - cbn [app] in Hs. destruct (mx_next s c _ Hs Hi) as (s1 & Hn1 & Hs1 & Hi1 & _).
    inversion Hpre as [|? ? Hc Hpre']; subst.
    destruct (mx_skip_run pre lf c s1 ld (t2 :: l) Hc Hpre' Hne Hs1 Hi1 ltac:(cbn in Hlf; lia)) as (s2 & Hsk & Hs2 & Hi2).
    destruct (Hfin c s1 s2 Hsk Hs2 Hi2) as (sb & Hsb & Hib & Hfu & Hrun).
    exists (match pos with Some p => p | None => t_pos c end), sb. split; [exact Hsb|]. split; [exact Hib|]. split.
    + intros Hb f. cbn [item_list_loop]. rewrite Hn1. cbn [cbind]. rewrite (Hfu Hb). reflexivity.
    + intros n s' Hb f. cbn [item_list_loop]. rewrite Hn1. cbn [cbind]. rewrite (Hrun n s' Hb). cbn [cbind snd fst]. reflexivity.
Qed.
End P.

Section Run.
Variable inlen : N.
Variable lexq : bstr -> list tok.
Variable unq : bstr -> option bstr.
Variable g : nat.
Notation PE g := (lift_expr inlen parse_expr g).
Notation IL g := (item_list inlen lexq unq parse_expr expr_fuel g).
Notation LOOP := (item_list_loop inlen lexq unq parse_expr expr_fuel (PE g) (IL g) g).
Notation BT g := (begin_tag inlen lexq unq parse_expr expr_fuel (PE g) (IL g) g).

(* beginTag on the items of a print command (positions 0), at the budget g: out of budget, or the command *)
Lemma begin_tag_print_cases n rest sb : wf_print n -> stream (c_p sb) = tokens_of_print (strip_pos n) ++ rest -> inv (c_p sb) ->
  BT g sb = CFuel \/ exists s', BT g sb = COk (Some (strip_pos n)) s' /\ stream (c_p s') = rest /\ inv (c_p s').
Proof.
  intros Hwf Hs Hi. pose proof (wf_print_strip n Hwf) as Hwf0.
  assert (Hp0 : 0 = first_pos (tokens_of_print (strip_pos n))).
  { unfold tokens_of_print. rewrite show_print_strip. destruct (show_print sty_min [] n); reflexivity. }
  destruct n; cbn [wf_print] in Hwf; try contradiction. cbn [strip_pos] in *.
  match type of Hwf0 with wf_print (NPrint 0 ?a ?d) => set (arg0 := a) in *; set (dirs0 := d) in * end.
  (* the first item *)
  destruct Hwf0 as [Hwa Hwd].
  destruct (show_starts_expression sty_min arg0 Hwa [0%nat] (sty_min [0%nat])) as (x & lx & Ex & Hx).
  assert (Hk : exists k l, tokens_of_print (NPrint 0 arg0 dirs0) ++ rest = k :: l).
  { unfold tokens_of_print. cbn [show_print]. rewrite Ex. cbn [app]. eauto. }
  destruct Hk as (k & l & Ekl).
  pose proof (Tag_print (c_ns sb) (c_al sb) (c_inmsg sb) inlen lexq unq expr_fuel 0 arg0 dirs0 rest k l (conj Hwa Hwd) Hp0 Ekl) as HT.
  rewrite Ekl in Hs.
  destruct (HT sb (c_p sb) (c_scans sb) Hs Hi ltac:(repeat split)) as (p' & sc' & Hs' & Hi' & f0 & HF).
  rewrite set_ps_eta in HF.
  pose proof (begin_tag_le inlen lexq unq expr_fuel (PE g) (PE (max g f0)) (IL g) (IL (max g f0)) g (max g f0)
                (fun p0 s0 => lift_expr_le inlen g (max g f0) p0 s0 ltac:(lia))
                (fun u s0 => item_list_le inlen lexq unq expr_fuel g (max g f0) ltac:(lia) u s0) ltac:(lia) sb) as [Hc|Hc].
  - left. exact Hc.
  - right. exists (set_ps sb p' sc'). rewrite Hc, (HF (max g f0) (max g f0)) by lia. split; [reflexivity|]. split; assumption.
Qed.

Definition tags_wf (rp : list (c15_tag * list bstr)) : Prop :=
  Forall (fun q => Forall no_nul (snd q) /\ match fst q with C15Print n _ => wf_print n | _ => True end) rp.

Lemma gshape_run : forall pcs rp items, c15_gshape c15_X0 pcs rp items -> Forall no_nul pcs -> tags_wf rp ->
  forall pre, Forall is_comment pre -> forall f acc pos s,
  stream (c_p s) = pre ++ items -> inv (c_p s) -> (length (pre ++ items) + 2 <= g)%nat -> (length items <= f)%nat ->
  LOOP f u_eof pos acc s = CFuel \/
  exists pos' nodes s', LOOP f u_eof pos acc s = COk (NList pos' (acc ++ nodes)) s' /\
     c15_view0 (map cps_strip nodes) = gs_out (flag pre) pcs rp.
Proof.
  intros pcs rp items Hsh. induction Hsh as [pcs its e Hps He|pcs its c o tg pcs' rest items' Hps Htg Hsh IH|pcs its n txt ld mid pcs' rest items' Hps Hld HX Hsh IH];
    intros Hnn Hnr pre Hpre f acc pos s Hs Hi Hlf Hf.
  - right. assert (He' : t_typ e = pit_EOF) by exact He.
    destruct (stretch_nodes inlen lexq unq parse_expr expr_fuel (PE g) (IL g) g pcs its Hps Hnn pre Hpre e [] acc pos s ltac:(rewrite He'; discriminate) ltac:(rewrite He'; discriminate) Hs Hi
                ltac:(rewrite !app_length in *; cbn [length] in *; lia)) as (k & pre' & nodes & pos' & s' & Hk & Hpre' & Hlen & Hraw & Hcat & Hst & Hiv & Hrun).
    rewrite app_length in Hf. cbn [length] in Hf.
    replace f with (k + S (f - k - 1))%nat by lia. rewrite Hrun.
    destruct (eof_iter inlen lexq unq parse_expr expr_fuel (PE g) (IL g) g pre' e [] (f - k - 1) pos' (acc ++ nodes) s' Hpre' He' Hst Hiv
                ltac:(rewrite !app_length in *; cbn [length] in *; lia)) as (pos1 & s'' & Hrun2).
    exists pos1, nodes, s''. split; [exact Hrun2|].
    rewrite <- (app_nil_r nodes), (view0_raw_app nodes [] Hraw). unfold gs_out. cbn [map c15_view0 gs_rest_out fst snd]. rewrite Hcat. reflexivity.
  - inversion Hnr as [|? ? [Hnn' _] Hnr']; subst. cbn [snd] in Hnn'.
    assert (Htg0 : exists ld tg', tg = ld :: tg' /\ t_typ ld = pit_LeftDelim).
    { destruct Htg; eexists; eexists; split; try reflexivity; assumption. }
    destruct Htg0 as (ld & tg' & Etg & Hld).
    assert (Hs0 : stream (c_p s) = pre ++ its ++ ld :: (tg' ++ items')).
    { rewrite Hs, Etg. reflexivity. }
    assert (Hlt : (1 <= length tg)%nat) by (rewrite Etg; cbn; lia).
    destruct (stretch_nodes inlen lexq unq parse_expr expr_fuel (PE g) (IL g) g pcs its Hps Hnn pre Hpre ld (tg' ++ items') acc pos s ltac:(rewrite Hld; discriminate) ltac:(rewrite Hld; discriminate) Hs0 Hi
                ltac:(rewrite !app_length in *; lia)) as (k & pre' & nodes & pos' & s' & Hk & Hpre' & Hlen & Hraw & Hcat & Hst & Hiv & Hrun).
    assert (Hst' : stream (c_p s') = pre' ++ tg ++ items') by (rewrite Hst, Etg; reflexivity).
    destruct (tag_iter_pre inlen lexq unq parse_expr expr_fuel (PE g) (IL g) g o tg Htg pre' items' pos' (acc ++ nodes) s' Hpre' Hst' Hiv ltac:(rewrite !app_length in *; lia))
      as (pos1 & p & s2 & Hs2 & Hi2 & Hrun2).
    rewrite !app_length in Hf.
    replace f with (k + S (f - k - 1))%nat by lia. rewrite Hrun, Hrun2.
    destruct (IH Hnn' Hnr' [] ltac:(constructor) (f - k - 1)%nat ((acc ++ nodes) ++ [NRawText p o]) (Some pos1) s2 Hs2 Hi2
                ltac:(rewrite !app_length in *; cbn [app length] in *; lia) ltac:(lia)) as [Hfu|(pos2 & nodes2 & s3 & Hrun3 & Hv3)]; [left; exact Hfu|right].
    exists pos2, (nodes ++ NRawText p o :: nodes2), s3. split; [rewrite Hrun3, <- !app_assoc; reflexivity|].
    rewrite (view0_raw_app nodes _ Hraw), view0_raw_cons, Hv3, Hcat. unfold gs_out. cbn [gs_rest_out fst snd flag]. rewrite <- ?app_assoc. reflexivity.
  - inversion Hnr as [|? ? [Hnn' Hwfn] Hnr']; subst. cbn [snd fst] in Hnn', Hwfn.
    red in HX. subst mid.
    assert (Hs0 : stream (c_p s) = pre ++ its ++ ld :: (tokens_of_print (strip_pos n) ++ items')).
    { rewrite Hs. reflexivity. }
    destruct (stretch_nodes inlen lexq unq parse_expr expr_fuel (PE g) (IL g) g pcs its Hps Hnn pre Hpre ld _ acc pos s ltac:(rewrite Hld; discriminate) ltac:(rewrite Hld; discriminate) Hs0 Hi
                ltac:(rewrite !app_length in *; cbn [length] in *; lia)) as (k & pre' & nodes & pos' & s' & Hk & Hpre' & Hlen & Hraw & Hcat & Hst & Hiv & Hrun).
    (* the first item of the command *)
    pose proof (wf_print_strip n Hwfn) as Hwf0.
    assert (Hk1 : exists k1 l1, tokens_of_print (strip_pos n) = k1 :: l1 /\ one_of (t_typ k1) u_eof = false).
    { destruct n; cbn [wf_print] in Hwfn; try contradiction. cbn [strip_pos] in *. destruct Hwf0 as [Hwa _].
      match goal with |- context [NPrint 0 ?a ?d] => destruct (show_starts_expression sty_min a Hwa [0%nat] (sty_min [0%nat])) as (x & lx & Ex & Hx) end.
      unfold tokens_of_print. cbn [show_print]. rewrite Ex. cbn [app]. do 2 eexists. split; [reflexivity|apply start_not_eof; exact Hx]. }
    destruct Hk1 as (k1 & l1 & Ek1 & Hce).
    assert (Hst' : stream (c_p s') = pre' ++ ld :: k1 :: (l1 ++ items')) by (rewrite Hst, Ek1; reflexivity).
    destruct (ld_iter_cases inlen lexq unq parse_expr expr_fuel (PE g) (IL g) g pre' ld k1 (l1 ++ items') pos' (acc ++ nodes) s' Hpre' Hld Hce Hst' Hiv
                ltac:(rewrite !app_length in *; cbn [length] in *; lia)) as (pos1 & sb & Hsb & Hib & Hfu & Hok).
    assert (Hsb' : stream (c_p sb) = tokens_of_print (strip_pos n) ++ items') by (rewrite Hsb, Ek1; reflexivity).
    rewrite !app_length in Hf. cbn [length] in Hf.
    replace f with (k + S (f - k - 1))%nat by lia. rewrite Hrun.
    destruct (begin_tag_print_cases n items' sb Hwfn Hsb' Hib) as [Hb|(s2 & Hb & Hs2 & Hi2)]; [left; apply Hfu; exact Hb|].
    rewrite (Hok _ _ Hb).
    destruct (IH Hnn' Hnr' [] ltac:(constructor) (f - k - 1)%nat ((acc ++ nodes) ++ [strip_pos n]) (Some pos1) s2 Hs2 Hi2
                ltac:(rewrite !app_length in *; cbn [app length] in *; lia) ltac:(lia)) as [Hfu2|(pos2 & nodes2 & s3 & Hrun3 & Hv3)]; [left; exact Hfu2|right].
    exists pos2, (nodes ++ strip_pos n :: nodes2), s3. split; [rewrite Hrun3, <- !app_assoc; reflexivity|].
    rewrite (view0_raw_app nodes _ Hraw), (view0_print_cons n nodes2 Hwfn), Hv3, Hcat. unfold gs_out. cbn [gs_rest_out fst snd flag]. rewrite app_nil_r. reflexivity.
Qed.

End Run.
