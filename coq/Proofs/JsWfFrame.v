(* C14, token grammar: runs of the recogniser inside an expression are local --
   they never look below the frames they pushed themselves, so a run from the
   empty stack can be replayed on top of any stack. *)
From Soy Require Import Model.Bytes Model.JsGen Spec.JsSyntax Spec.JsShape.
Open Scope N_scope.

Ltac crackl H :=
  repeat match type of H with
         | context [match ?x with _ => _ end] => destruct x; try discriminate H
         | context [if ?x then _ else _] => destruct x; try discriminate H
         end;
  inversion H; subst; clear H.

Lemma step_local md m s t m' s' d r :
  emode m = true -> forallb eframe s = true -> js_step md m s t = Some (m', s', d) ->
  emode m' = true /\ forallb eframe s' = true /\ d = [] /\ js_step md m (s ++ r) t = Some (m', s' ++ r, []).
Proof.
  intros Hm Hs H. destruct m; try discriminate Hm; cbn [js_step] in *.
  - unfold step_want, cfg in *. destruct t as [x|k x|x| |p|nlt]; [| destruct k | | | destruct p |]; try discriminate H;
      try (inversion H; subst; clear H; cbn; rewrite ?Hs; auto; fail).
    + destruct closable; [|discriminate H]. destruct s as [|f s]; [discriminate H|]. destruct f; try discriminate H.
      inversion H; subst. cbn in Hs. cbn. auto.
    + destruct closable; [|discriminate H]. destruct s as [|f s]; [discriminate H|]. destruct f; try discriminate H.
      inversion H; subst. cbn in Hs. cbn. auto.
  - unfold step_have, cfg, seq1 in *. destruct t as [x|k x|x| |p|nlt]; try discriminate H. destruct p; try discriminate H;
      try (inversion H; subst; clear H; cbn; rewrite ?Hs; auto; fail);
      try (destruct isint; [discriminate H|]; inversion H; subst; clear H; cbn; rewrite ?Hs; auto; fail);
      destruct s as [|f s]; try discriminate H; destruct f; try discriminate H; cbn in Hs; try discriminate Hs;
      inversion H; subst; clear H; cbn; rewrite ?Hs; auto.
  - unfold cfg in *. destruct t as [x|k x|x| |p|nlt]; try discriminate H; inversion H; subst; cbn; rewrite ?Hs; auto.
  - unfold cfg, seq1 in *. destruct t as [x|k x|x| |p|nlt]; try discriminate H; try (inversion H; subst; cbn; rewrite ?Hs; auto; fail).
    destruct p; try discriminate H. destruct closable; [|discriminate H]. destruct s as [|f s]; [discriminate H|]. destruct f; try discriminate H.
    inversion H; subst. cbn in Hs. cbn. auto.
  - (* MSeq [:] None (MWant false) *)
    destruct ps as [|p ps]; [discriminate Hm|]. destruct p as [t'| |]; try discriminate Hm.
    destruct t' as [x|k x|x| |q|nlt]; try discriminate Hm. destruct q; try discriminate Hm.
    destruct ps; [|discriminate Hm]. destruct push; [discriminate Hm|]. destruct m; try discriminate Hm. destruct closable; [discriminate Hm|].
    destruct (pat_match (PT (TP PColon)) t); [|discriminate H]. unfold cfg in *. inversion H; subst. cbn. rewrite ?Hs. auto.
Qed.

Lemma run_local md ts : forall m s m' s' d r,
  emode m = true -> forallb eframe s = true -> js_run md ts m s = Some (m', s', d) ->
  d = [] /\ js_run md ts m (s ++ r) = Some (m', s' ++ r, []).
Proof.
  induction ts as [|t ts IH]; intros m s m' s' d r Hm Hs H; cbn [js_run] in *.
  - inversion H; subst. auto.
  - destruct (js_step md m s t) as [[[m1 s1] d1]|] eqn:E; [|discriminate].
    destruct (step_local md m s t m1 s1 d1 r Hm Hs E) as (Hm1 & Hs1 & -> & E').
    rewrite E'. destruct (js_run md ts m1 s1) as [[[m2 s2] d2]|] eqn:E2; [|discriminate]. inversion H; subst.
    destruct (IH _ _ _ _ _ r Hm1 Hs1 E2) as (-> & E2'). rewrite E2'. auto.
Qed.

Lemma step_want_cl cl s t r : step_want false s t = Some r -> step_want cl s t = Some r.
Proof.
  unfold step_want. destruct t as [x|k x|x| |p|nlt]; auto. destruct p; auto; discriminate.
Qed.

(* an expression: from "operand expected" to "operand seen" on the empty stack *)
Definition expr_toks (md : bool) (ts : list jstoken) (i : bool) : Prop :=
  js_run md ts (MWant false) [] = Some (MHave i, [], []).

Lemma expr_toks_run md ts i cl s : expr_toks md ts i -> js_run md ts (MWant cl) s = Some (MHave i, s, []).
Proof.
  unfold expr_toks. intro H.
  destruct (run_local md ts (MWant false) [] (MHave i) [] [] s eq_refl eq_refl H) as (_ & H'). cbn [app] in H'.
  destruct ts as [|t ts]; [discriminate H|]. cbn [js_run js_step] in *.
  destruct (step_want false s t) as [[[m1 s1] d1]|] eqn:E; [|discriminate H'].
  rewrite (step_want_cl cl s t _ E). exact H'.
Qed.
