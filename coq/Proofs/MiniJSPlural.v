(* C04, a message whose only child is a {plural}, rendered WITHOUT a translation bundle:
     {msg desc=".."}{plural v}{case z1}b1 .. {case zk}bk{default}d{/plural}{/msg}
   with case bodies of raw text and placeholders (print, call: msg_ok).
   soyhtml walkPlural evaluates v (an integer, else an error), renders the first case whose number equals it, else the
   default; soyjs walkPlural writes
       switch (v) {  case z1: <statements of b1> break;  ..  default: <statements of d>  }
   (no break after the default clause).  The MiniJS statement is JSSwitch (cgen v) (case JENum z_i: jb_i .. default: jd)
   with the blocks generated one after the other from the generator's counter (c04_plgen); its printed form
   (Model/MiniJS.v sprint) differs from the emitted text exactly by the line "break;" after the default clause
   (c04_plprint_sprint), which has no effect as the last clause.

   [gen_correct_partial_plural] is the same three-sided simulation step as Proofs/MiniJSSim.v sim_step, built from the step
   of the selected body (gen_correct_partial_stmt on SMsg b), stated for the node over a LIST of cases.  Since wave 5 the
   plural is also a constructor of cstmt (SMsgPl; the mutual inductions sgen_mono_all / js_exec_all / interp_all /
   sgen_print_all have its cases), so the step is a case of gen_correct_partial_stmt (gen_correct_partial_plural_stmt) and part
   of the programs of Model/MiniJSProg.v; the last section ties the two formulations (c04_qof). *)
From Soy Require Import Model.Bytes Model.Num Model.Values Model.Outcome Model.Ast Model.JsGen Model.MiniJS
  Model.Escape Model.Directives Model.Print Generated.Tables Model.Interp
  Proofs.EscapeProofs Proofs.MiniJSProofs Proofs.MiniJSPrint Proofs.MiniJSStmt Model.MsgId Proofs.MsgIdProofs
  Proofs.MiniJSCtl Proofs.MiniJSGo Proofs.MiniJSGen Proofs.MiniJSSim.
Open Scope N_scope.

(* the blocks of the cases, generated in order: the counter runs through them *)
Fixpoint c04_plgen (mode : N) (buf : bstr) (sc : list (list (bstr * bstr))) (n : N) (cs : list (Z * cblk)) : list (Z * jblk) * N :=
  match cs with
  | [] => ([], n)
  | zb :: r => let '(jb, n1) := bgen mode buf sc n (snd zb) in
               let '(jr, n2) := c04_plgen mode buf sc n1 r in ((fst zb, jb) :: jr, n2)
  end.
Definition c04_plk (jcs : list (Z * jblk)) (jd : jblk) : jcases :=
  fold_right (fun zj r => JKCase (JENum (fst zj)) [] (snd zj) r) (JKDefault jd) jcs.
Definition c04_plcases (cs : list (Z * cblk)) : list node := map (fun zb => NMsgPluralCase 0 (fst zb) (mnodes (snd zb))) cs.
Definition c04_plural_node (pname : bstr) (v : cexpr) (cs : list (Z * cblk)) (d : cblk) : node :=
  NMsg 0 0 [] [] [NMsgPlural 0 pname (cnode v) (c04_plcases cs) (mnodes d)].
(* the body both walkPlural's select *)
Fixpoint c04_plpick (i : Z) (cs : list (Z * cblk)) (d : cblk) : cblk :=
  match cs with [] => d | zb :: r => if (i =? fst zb)%Z then snd zb else c04_plpick i r d end.

(* the text soyjs writes *)
Fixpoint c04_plprint_cases (ind : nat) (jcs : list (Z * jblk)) : list chunk :=
  match jcs with
  | [] => []
  | zj :: r => (sp_ind ind ++ [CText t_case; CNum (dec_of_Z (fst zj)); CText t_colon] ++ [CText t_nl])
               ++ bprint (S ind) (snd zj) ++ (sp_ind (S ind) ++ [CText t_break] ++ [CText t_nl]) ++ c04_plprint_cases ind r
  end.
Definition c04_plprint (ind : nat) (jv : jexpr) (jcs : list (Z * jblk)) (jd : jblk) : list chunk :=
  sp_ind ind ++ [CText t_switch_open] ++ jprint jv ++ [CText t_for_close; CText t_nl]
  ++ c04_plprint_cases (S ind) jcs
  ++ (sp_ind (S ind) ++ [CText t_default] ++ [CText t_nl]) ++ bprint (S (S ind)) jd
  ++ (sp_ind ind ++ [CText t_rbrace] ++ [CText t_nl]).

(* c04_gosum and its equations: Proofs/MiniJSGen.v *)
Lemma c04_gosum_cases cs zb : In zb cs -> (length (mnodes (snd zb)) < c04_gosum (c04_plcases cs))%nat.
Proof.
  induction cs as [|x r IH]; [intros []|]. intros [<-|H]; cbn [c04_plcases map c04_gosum]; fold c04_gosum; fold (c04_plcases r); rewrite c04_nmsg_case, c04_gosum_mnodes.
  - lia.
  - specialize (IH H). lia.
Qed.

Tactic Notation "gbind" ident(x) ident(H) := eapply gres_bind; [ | intros x H ].
Ltac chunks_eq := repeat rewrite <- app_assoc; cbn [app]; rewrite ?app_nil_r; reflexivity.

Section PluralGen.
Variable o : jopts.
Hypothesis HCN : cn_ok o.
Hypothesis HNB : o_msgs o = None.
Variable lv : list bstr.

(* one body: visitMsgNode's loop over raw text and placeholders = the statements, one after the other *)
Lemma gen_plural_body b f F st i bf a sc n jb n1 :
  msg_ok b = true -> bwf lv b = true -> (bdepth b <= F)%nat -> (length (mnodes b) < f)%nat ->
  sc <> [] -> lvok lv sc -> shape st i bf a sc n -> bgen a bf sc n b = (jb, n1) ->
  gres o (jmsg_children (jwalk o F) f (mnodes b)) st (bprint i jb) i bf a sc n1.
Proof.
  intros Hm Hw Hd Hl Hn Hlv Hs Eb.
  destruct (proj1 (proj2 (sgen_print_all o HCN HNB)) b lv F st jb n1 i bf a sc n Hd Hn Hlv Hw Hs Eb) as (sc' & _ & Hsame & G).
  rewrite (Hsame Hm) in G. destruct G as (z3 & E3 & R3). exists z3. rewrite (gen_msg_children (jwalk o F) b Hm f st Hl). split; [exact E3|exact R3].
Qed.

Lemma gen_plural_cases f F : forall cs st i bf a sc n jcs n1,
  (forall zb, In zb cs -> msg_ok (snd zb) = true /\ bwf lv (snd zb) = true /\ (bdepth (snd zb) <= F)%nat /\ (length (mnodes (snd zb)) < f)%nat) ->
  sc <> [] -> lvok lv sc -> shape st i bf a sc n -> c04_plgen a bf sc n cs = (jcs, n1) ->
  gres o ((fix go (cs0 : list node) : J unit :=
             match cs0 with [] => jret tt | c :: cr => plural_case_body (jmsg_children (jwalk o F) f) c ;;; go cr end) (c04_plcases cs))
       st (c04_plprint_cases i jcs) i bf a sc n1.
Proof.
  induction cs as [|zb r IH]; intros st i bf a sc n jcs n1 Hall Hn Hlv Hs Eg.
  - cbn in Eg. inversion Eg; subst. cbn. apply gres_ret; exact Hs.
  - cbn [c04_plgen] in Eg. destruct (bgen a bf sc n (snd zb)) as [jb nb] eqn:Eb. destruct (c04_plgen a bf sc nb r) as [jr nr] eqn:Er. inversion Eg; subst. clear Eg.
    destruct (Hall zb (or_introl eq_refl)) as (Hm & Hw & Hd & Hl).
    cbn [c04_plcases map c04_plprint_cases fst snd]. fold (c04_plcases r).
    eapply gres_eq.
    + gbind x1 H1.
      { unfold plural_case_body. gbind y1 Y1. apply gres_sln; exact Hs. gbind y2 Y2. apply gres_inc; exact Y1.
        gbind y3 Y3. apply (gen_plural_body (snd zb) f F y2 (S i) bf a sc n jb nb Hm Hw Hd Hl Hn Hlv Y2 Eb).
        gbind y4 Y4. apply gres_sln; exact Y3. apply gres_dec; exact Y4. }
      apply (IH x1 i bf a sc nb jr n1); auto. intros zb' Hzb. apply Hall. right. exact Hzb.
    + chunks_eq.
Qed.

Theorem gen_plural pname v cs d F st i bf a sc n jcs n1 jd n2 :
  (cdepth v < F)%nat -> cwf lv v = true ->
  (forall zb, In zb cs -> msg_ok (snd zb) = true /\ bwf lv (snd zb) = true /\ (bdepth (snd zb) <= F)%nat) ->
  msg_ok d = true -> bwf lv d = true -> (bdepth d <= F)%nat ->
  sc <> [] -> lvok lv sc -> shape st i bf a sc n ->
  c04_plgen a bf sc n cs = (jcs, n1) -> bgen a bf sc n1 d = (jd, n2) ->
  gres o (jwalk o (S F) (c04_plural_node pname v cs d)) st (c04_plprint i (cgen sc v) jcs jd) i bf a sc n2.
Proof.
  intros Hv Hwv Hall Hmd Hwd Hdd Hn Hlv Hs Eg Ed. unfold c04_plural_node.
  eapply gres_walk; [reflexivity|exact Hs|]. intros st1 H1. cbn [jwalk_node]. unfold visit_msg. rewrite HNB.
  set (k := (4 + c04_gosum (c04_plcases cs) + c04_gosum (mnodes d) + 0)%nat).
  assert (Hsz : msg_size [NMsgPlural 0 pname (cnode v) (c04_plcases cs) (mnodes d)] = S k) by reflexivity.
  assert (Hkc : forall zb, In zb cs -> (length (mnodes (snd zb)) < k)%nat) by (intros zb Hzb; pose proof (c04_gosum_cases cs zb Hzb); subst k; lia).
  assert (Hkd : (length (mnodes d) < k)%nat) by (subst k; rewrite c04_gosum_mnodes; lia).
  rewrite Hsz. clearbody k. cbn [jmsg_children].
  eapply gres_eq.
  - gbind z0 Z0.
    { gbind x1 X1. apply gres_indent; exact H1. gbind x2 X2. apply gres_txt; exact X1.
      gbind x3 X3. apply (gres_expr o v lv F x2); [exact Hv|exact Hwv|exact Hlv|exact X2].
      gbind x4 X4. apply gres_emit; exact X3. gbind x5 X5. apply gres_inc; exact X4.
      gbind x6 X6.
      { apply (gen_plural_cases k F cs x5 (S i) bf a sc n jcs n1); auto.
        intros zb Hzb. destruct (Hall zb Hzb) as (A1 & A2 & A3). repeat split; auto. }
      gbind x7 X7. apply gres_sln; exact X6. gbind x8 X8. apply gres_inc; exact X7.
      gbind x9 X9. apply (gen_plural_body d k F x8 (S (S i)) bf a sc n1 jd n2 Hmd Hwd Hdd Hkd Hn Hlv X8 Ed).
      gbind x10 X10. apply gres_dec; exact X9. gbind x11 X11. apply gres_dec; exact X10. apply gres_sln; exact X11. }
    (* no further child *)
    destruct k as [|k']; [lia|]. cbn [jmsg_children]. apply gres_ret; exact Z0.
  - unfold c04_plprint. chunks_eq.
Qed.
End PluralGen.

(* ------------------------------------------------------------------ *)
(* the JavaScript side: the switch selects the block of the case walkPlural selects *)
Fixpoint c04_pljpick (i : Z) (jcs : list (Z * jblk)) (jd : jblk) : jblk :=
  match jcs with [] => jd | zj :: r => if (i =? fst zj)%Z then snd zj else c04_pljpick i r jd end.
Lemma js_plural_exec jfn je i jcs jd : jk_exec jfn je (JNum i) (c04_plk jcs jd) = jb_exec jfn je (c04_pljpick i jcs jd).
Proof.
  induction jcs as [|zj r IH]; [reflexivity|]. cbn [c04_plk fold_right c04_pljpick jk_exec jk_hit js_eval bind js_strict_eq]. fold (c04_plk r jd).
  destruct (i =? fst zj)%Z; [reflexivity|exact IH].
Qed.
Lemma c04_plgen_mono mode buf sc : forall cs n jcs n1, c04_plgen mode buf sc n cs = (jcs, n1) -> n <= n1.
Proof.
  induction cs as [|zb r IH]; intros n jcs n1 Eg; [cbn in Eg; inversion Eg; lia|].
  cbn [c04_plgen] in Eg. destruct (bgen mode buf sc n (snd zb)) as [jb nb] eqn:Eb. destruct (c04_plgen mode buf sc nb r) as [jr nr] eqn:Er. inversion Eg; subst.
  pose proof (proj1 (proj2 (sgen_mono_all mode)) _ _ _ _ _ _ Eb). specialize (IH _ _ _ Er). lia.
Qed.
(* the selected block is the block generated for the selected body, from some counter in between *)
Lemma c04_plgen_pick mode buf sc i : forall cs n jcs n1 d jd n2,
  c04_plgen mode buf sc n cs = (jcs, n1) -> bgen mode buf sc n1 d = (jd, n2) ->
  exists ns ns', n <= ns /\ ns' <= n2 /\ bgen mode buf sc ns (c04_plpick i cs d) = (c04_pljpick i jcs jd, ns').
Proof.
  induction cs as [|zb r IH]; intros n jcs n1 d jd n2 Eg Ed.
  - cbn in Eg. inversion Eg; subst. exists n1, n2. cbn [c04_plpick c04_pljpick]. split; [lia|]. split; [lia|exact Ed].
  - cbn [c04_plgen] in Eg. destruct (bgen mode buf sc n (snd zb)) as [jb nb] eqn:Eb. destruct (c04_plgen mode buf sc nb r) as [jr nr] eqn:Er. inversion Eg; subst. clear Eg.
    pose proof (proj1 (proj2 (sgen_mono_all mode)) _ _ _ _ _ _ Eb) as M1.
    destruct (IH nb jr n1 d jd n2 Er Ed) as (ns & ns' & A1 & A2 & A3).
    cbn [c04_plpick c04_pljpick fst snd]. destruct (i =? fst zb)%Z.
    + exists n, nb. pose proof (c04_plgen_mono _ _ _ _ _ _ _ Er). pose proof (proj1 (proj2 (sgen_mono_all mode)) _ _ _ _ _ _ Ed).
      split; [lia|]. split; [lia|exact Eb].
    + exists ns, ns'. split; [lia|]. split; [exact A2|exact A3].
Qed.

(* the Go side: walkPlural walks the body of the selected case as a message of its own *)
Lemma go_plural_pick w i d : forall cs st,
  plural_pick w 0 i (mnodes d) (c04_plcases cs) st = (_ <-- w (NMsg 0 0 [] [] (mnodes (c04_plpick i cs d))) ;;; ret tt) st.
Proof.
  induction cs as [|zb r IH]; intro st; [reflexivity|]. cbn [c04_plcases map plural_pick c04_plpick]. fold (c04_plcases r).
  destruct (i =? fst zb)%Z; [reflexivity|apply IH].
Qed.

Lemma pl_mbind_ok {A B} (m : M A) (f : A -> M B) st x st' r : m st = (Ok x, st') -> f x st' = r -> mbind m f st = r.
Proof. intros H <-. unfold mbind. rewrite H. reflexivity. Qed.

Lemma sim_pres cf cc st st2 je jst old : pres st st2 -> sim cf cc st je jst old -> sim cf cc st2 je jst old.
Proof.
  intros (C & M & P) (Hg & Hd & ER & DR & G & Hb & Hm). unfold sim. rewrite C, M.
  split; [exact (wsame_wok _ _ (pres_wsame _ _ (conj C (conj M P))) Hg)|]. split; [exact Hd|]. split; [exact ER|]. split; [exact DR|]. split; [exact G|]. split; [exact Hb|exact Hm].
Qed.

Section PluralStep.
Variable cf : cfg.
Variable o : jopts.
Variable cc : callctx.
Variable lv : list bstr.
Hypothesis Hob : c_oblig cf = [].
Hypothesis Hcc : callctx_ok cf o cc.

Theorem gen_correct_partial_plural pname v cs d D st je jst fuel i text env' old :
  sim cf cc st je jst old ->
  (cdepth v < D)%nat -> cwf lv v = true ->
  (forall zb, In zb cs -> msg_ok (snd zb) = true /\ bwf lv (snd zb) = true /\ (bdepth (snd zb) <= D)%nat) ->
  msg_ok d = true -> bwf lv d = true -> (bdepth d <= D)%nat ->
  (cc_fuel cc + S (S (S D)) < fuel)%nat -> lvok lv (j_scope jst) ->
  ceval (c_ij cf) (sc_lookup (ctx st)) v = Some (VInt i) ->
  sout (c_ij cf) (mode st) go_print_text (cc_denv cc) (cc_callee cc) (sc_lookup (ctx st)) (SMsg (c04_plpick i cs d)) = Some (text, env') ->
  forall jcs n1 jd n2,
  c04_plgen (mode st) (j_buf jst) (j_scope jst) (j_n jst) cs = (jcs, n1) -> bgen (mode st) (j_buf jst) (j_scope jst) n1 d = (jd, n2) ->
  let nd := c04_plural_node pname v cs d in
  let j := JSSwitch (cgen (j_scope jst) v) (c04_plk jcs jd) in
  exists st' ws rv je' jst',
    (* Go *)  walk cf fuel nd st = (Ok rv, st') /\ wrote st st' ws /\ concat_b ws = text
              /\ mode st' = mode st /\ tl (ctx st') = tl (ctx st) /\ (forall k, sc_lookup (ctx st') k = env' k)
    (* JS *)  /\ js_exec (cc_jfn cc) je j = Ok je' /\ je_data je' = je_data je
    (* Gen *) /\ jwalk o fuel nd jst = Ok (tt, jst') /\ j_out jst' = rev (c04_plprint (j_indent jst) (cgen (j_scope jst) v) jcs jd) ++ j_out jst
              /\ j_indent jst' = j_indent jst /\ j_buf jst' = j_buf jst /\ j_scope jst' = j_scope jst /\ j_n jst' = n2
    /\ sim cf cc st' je' jst' (old ++ text) /\ lvok lv (j_scope jst').
Proof.
  intros HS Hv Hwv Hall Hmd Hwd Hdd Hfuel Hlv Ev E jcs n1 jd n2 Eg Ed nd j.
  pose proof Hcc as (HCN & HNB & Hdenv & HGo & HJs).
  pose proof HS as (Hg & Hd & ER & DR & G & Hbuf & Hmode).
  set (b := c04_plpick i cs d) in *.
  assert (Hb : msg_ok b = true /\ bwf lv b = true /\ (bdepth b <= D)%nat).
  { subst b. clear E Eg. induction cs as [|zb r IH]; cbn [c04_plpick]; [auto|].
    destruct (i =? fst zb)%Z; [apply Hall; left; reflexivity|apply IH; intros zb' H'; apply Hall; right; exact H']. }
  destruct Hb as (Hmb & Hwb & Hdb).
  assert (Hc : envok (sc_lookup (ctx st))).
  { intros k x Hk. pose proof (er_core _ _ _ _ ER k) as H. unfold env_val in H. rewrite Hk in H. exact H. }
  assert (Hij : forall x, c_ij cf = Some x -> core_value x = true) by (intros x Hx; exact (er_core_ij _ _ _ _ ER x Hx)).
  destruct fuel as [|f1]; [lia|].
  (* ---- Go ---- *)
  set (st1 := set_cur st (pos_of nd)).
  assert (P1 : pres st st1) by apply pres_set_cur.
  assert (A1 : agrees (cc_denv cc) st1 (sc_lookup (ctx st))) by (split; [intro k; reflexivity|exact Hd]).
  destruct (go_eval cf Hij (cc_denv cc) f1 v st1 (VInt i) (sc_lookup (ctx st)) A1 Hc ltac:(lia) Ev) as (st2 & E2 & P2).
  assert (P12 : pres st st2).
  { destruct P1 as (a1 & a2 & a3 & a4 & a5 & a6). destruct P2 as (b1 & b2 & b3 & b4 & b5 & b6). repeat split; congruence. }
  pose proof (sim_pres cf cc st st2 je jst old P12 HS) as HS2.
  (* the generator state the selected body is generated from *)
  rewrite <- Hmode in Eg, Ed.
  destruct (c04_plgen_pick (j_auto jst) (j_buf jst) (j_scope jst) i cs (j_n jst) jcs n1 d jd n2 Eg Ed) as (ns & ns' & Hns & Hns' & Ebs).
  fold b in Ebs.
  set (jsel := set_scope (j_scope jst) ns jst).
  assert (HSsel : sim cf cc st2 je jsel old).
  { destruct HS2 as (g1 & g2 & g3 & g4 & g5 & g6 & g7). unfold sim. subst jsel. destruct jst; cbn in *.
    split; [exact g1|]. split; [exact g2|]. split; [exact g3|]. split; [exact g4|]. split; [eapply ginv_mono; [exact Hns|exact g5]|]. split; [exact g6|exact g7]. }
  assert (Hlvsel : lvok lv (j_scope jsel)) by (subst jsel; destruct jst; exact Hlv).
  assert (Esel : sout (c_ij cf) (mode st2) go_print_text (cc_denv cc) (cc_callee cc) (sc_lookup (ctx st2)) (SMsg b) = Some (text, env')).
  { destruct P12 as (C & M & _). rewrite C, M. exact E. }
  assert (Hswf : swf lv (SMsg b) = true) by (cbn [swf]; rewrite Hmb, Hwb; reflexivity).
  destruct (gen_correct_partial_stmt cf o cc lv st2 je jsel (SMsg b) f1 text env' old Hob Hcc ltac:(rewrite sdepth_msg; lia) HSsel Hswf Hlvsel Esel)
    as (st3 & ws & rv & je' & jsel' & W3 & Wr3 & T3 & M3 & Tl3 & L3 & X3 & D3 & Gw3 & _ & _ & _ & _ & S3 & _).
  (* the generator's run on the selected body, with its final scope and counter *)
  assert (Hsel' : j_scope jsel' = j_scope jst /\ j_n jsel' = ns' /\ j_buf jsel' = j_buf jst).
  { assert (Egs : sgen (j_auto jst) (j_buf jst) (j_scope jst) ns (SMsg b) = (JSSeq (c04_pljpick i jcs jd), (j_scope jst, ns'))) by (rewrite sgen_msg, Ebs; reflexivity).
    destruct (proj1 (sgen_print_all o HCN HNB) (SMsg b) lv f1 jsel _ _ _ (j_indent jst) (j_buf jst) (j_auto jst) (j_scope jst) ns
                ltac:(rewrite sdepth_msg; lia) (gi_nonempty _ _ _ G) Hlv Hswf ltac:(subst jsel; destruct jst; repeat split) Egs)
      as (x & Ex & _ & (_ & Bx & _ & Sx & Nx) & _).
    rewrite Ex in Gw3. inversion Gw3; subst x. auto. }
  destruct Hsel' as (Ssel & Nsel & Bsel).
  (* ---- Gen ---- *)
  destruct (gen_plural o HCN HNB lv pname v cs d f1 jst (j_indent jst) (j_buf jst) (j_auto jst) (j_scope jst) (j_n jst) jcs n1 jd n2
              ltac:(lia) Hwv ltac:(intros zb Hzb; destruct (Hall zb Hzb) as (q1 & q2 & q3); repeat split; auto; lia) Hmd Hwd ltac:(lia)
              (gi_nonempty _ _ _ G) Hlv (shape_refl jst) Eg Ed) as (jst' & Ej & Oj & (Ij & Bj & Aj & Sj & Nj) & _).
  assert (C12 : ctx st2 = ctx st /\ mode st2 = mode st) by (destruct P12 as (C & M & _); auto). destruct C12 as (C12 & M12).
  assert (Epick : plural_pick (walk cf f1) 0 i (mnodes d) (c04_plcases cs) st2 = (Ok tt, st3)).
  { rewrite go_plural_pick. fold b. rewrite <- snode_msg. exact (pl_mbind_ok _ _ _ _ _ _ W3 eq_refl). }
  assert (Ebody : msg_body (walk cf f1) 0 [NMsgPlural 0 pname (cnode v) (c04_plcases cs) (mnodes d)] st1 = (Ok tt, st3)).
  { cbn [msg_body]. eapply pl_mbind_ok; [exact E2|]. cbn iota. eapply pl_mbind_ok; [exact Epick|reflexivity]. }
  assert (EGo : walk cf (S f1) nd st = (Ok VUndef, st3)).
  { subst nd. unfold c04_plural_node. rewrite walk_unfold. cbn [walk_node]. eapply pl_mbind_ok; [exact Ebody|reflexivity]. }
  assert (X3' : jb_exec (cc_jfn cc) je (c04_pljpick i jcs jd) = Ok je').
  { replace (mode st2) with (j_auto jst) in X3 by congruence.
    change (j_buf jsel) with (j_buf jst) in X3. change (j_scope jsel) with (j_scope jst) in X3. change (j_n jsel) with ns in X3.
    rewrite sgen_msg, Ebs in X3. cbn [fst] in X3. rewrite js_exec_seq in X3. exact X3. }
  assert (EJs : js_exec (cc_jfn cc) je j = Ok je').
  { subst j. rewrite js_exec_switch. rewrite (proj1 (cgen_correct _ _ _ _ ER v (VInt i) Ev)). cbn [bind to_js]. rewrite js_plural_exec. exact X3'. }
  exists st3, ws, VUndef, je', jst'.
  split; [exact EGo|]. split; [exact (wrote_l _ _ _ _ (pres_wsame _ _ P12) Wr3)|]. split; [exact T3|]. split; [congruence|]. split; [congruence|].
  split; [exact L3|]. split; [exact EJs|]. split; [exact D3|]. split; [exact Ej|]. split; [exact Oj|]. split; [exact Ij|]. split; [exact Bj|].
  split; [exact Sj|]. split; [exact Nj|]. split; [|rewrite Sj; exact Hlv].
  destruct S3 as (h1 & h2 & h3 & h4 & h5 & h6 & h7). unfold sim.
  split; [exact h1|]. split; [exact h2|]. split; [rewrite Sj, <- Ssel; exact h3|]. split; [exact h4|].
  split; [rewrite Sj, Nj, Bj; rewrite Ssel, Nsel, Bsel in h5; exact (ginv_mono _ _ _ _ Hns' h5)|].
  split; [rewrite Bj, <- Bsel; exact h6|congruence].
Qed.
End PluralStep.

(* the emitted text against the printed form of the MiniJS statement: the same, except that sprint closes the default
   clause with "break;" (the last clause of the switch: no effect) *)
Definition c04_plprint_brk (ind : nat) (jv : jexpr) (jcs : list (Z * jblk)) (jd : jblk) : list chunk :=
  sp_ind ind ++ [CText t_switch_open] ++ jprint jv ++ [CText t_for_close; CText t_nl]
  ++ c04_plprint_cases (S ind) jcs
  ++ (sp_ind (S ind) ++ [CText t_default] ++ [CText t_nl]) ++ bprint (S (S ind)) jd
  ++ (sp_ind (S (S ind)) ++ [CText t_break] ++ [CText t_nl])
  ++ (sp_ind ind ++ [CText t_rbrace] ++ [CText t_nl]).
Lemma c04_plk_kprint ind jd : forall jcs,
  kprint ind (c04_plk jcs jd) = c04_plprint_cases ind jcs ++ (sp_ind ind ++ [CText t_default] ++ [CText t_nl]) ++ bprint (S ind) jd ++ (sp_ind (S ind) ++ [CText t_break] ++ [CText t_nl]).
Proof.
  induction jcs as [|zj r IH]; cbn [c04_plk fold_right c04_plprint_cases].
  - rewrite kprint_default. chunks_eq.
  - fold (c04_plk r jd). rewrite kprint_case, IH. cbn [jk_values jprint]. chunks_eq.
Qed.
Lemma c04_plprint_sprint ind jv jcs jd : sprint ind (JSSwitch jv (c04_plk jcs jd)) = c04_plprint_brk ind jv jcs jd.
Proof. rewrite sprint_switch, c04_plk_kprint. unfold c04_plprint_brk. chunks_eq. Qed.

(* ------------------------------------------------------------------ *)
(* the plural as a STATEMENT of the subset: the node, the generated blocks, the text and the selected body of the
   formulation above (lists of cases) are those of the statement SMsgPl pname v (c04_qof cs d); its MiniJS statement is
   JSPlural -- executed as the JSSwitch above, printed without the "break;" after the default clause, i.e. exactly the
   emitted text c04_plprint -- so the step above is gen_correct_partial_plural_stmt (Proofs/MiniJSSim.v) and templates
   with plural messages are programs of the file / registry theorems *)
Fixpoint c04_qof (cs : list (Z * cblk)) (d : cblk) : cplur :=
  match cs with [] => QDflt d | zb :: r => QCase (fst zb) (snd zb) (c04_qof r d) end.
Lemma c04_qof_cnodes d : forall cs, qcnodes (c04_qof cs d) = c04_plcases cs.
Proof. induction cs as [|zb r IH]; [reflexivity|]. cbn [c04_qof]. rewrite qcnodes_case, IH. reflexivity. Qed.
Lemma c04_qof_dnodes d : forall cs, qdnodes (c04_qof cs d) = mnodes d.
Proof. induction cs as [|zb r IH]; [reflexivity|]. cbn [c04_qof]. rewrite qdnodes_case, IH. reflexivity. Qed.
Lemma c04_qof_node pname v cs d : snode (SMsgPl pname v (c04_qof cs d)) = c04_plural_node pname v cs d.
Proof. rewrite snode_msgpl, c04_qof_cnodes, c04_qof_dnodes. reflexivity. Qed.
Lemma c04_qof_gen mode buf sc d jd : forall cs n jcs n1 n2,
  c04_plgen mode buf sc n cs = (jcs, n1) -> bgen mode buf sc n1 d = (jd, n2) -> qgen mode buf sc n (c04_qof cs d) = (c04_plk jcs jd, n2).
Proof.
  induction cs as [|zb r IH]; intros n jcs n1 n2 Eg Ed.
  - cbn in Eg. inversion Eg; subst. cbn [c04_qof c04_plk fold_right]. rewrite qgen_dflt, Ed. reflexivity.
  - cbn [c04_plgen] in Eg. destruct (bgen mode buf sc n (snd zb)) as [jb nb] eqn:Eb. destruct (c04_plgen mode buf sc nb r) as [jr nr] eqn:Er. inversion Eg; subst. clear Eg.
    cbn [c04_qof]. rewrite qgen_case, Eb, (IH nb jr n1 n2 Er Ed). reflexivity.
Qed.
Lemma c04_qof_sgen mode buf sc pname v cs d n jcs n1 jd n2 :
  c04_plgen mode buf sc n cs = (jcs, n1) -> bgen mode buf sc n1 d = (jd, n2) ->
  sgen mode buf sc n (SMsgPl pname v (c04_qof cs d)) = (JSPlural (cgen sc v) (c04_plk jcs jd), (sc, n2)).
Proof. intros Eg Ed. rewrite sgen_msgpl, (c04_qof_gen mode buf sc d jd cs n jcs n1 n2 Eg Ed). reflexivity. Qed.
Lemma c04_qof_out ij mode pt dv cl env i d : forall cs,
  qout ij mode pt dv cl env i (c04_qof cs d)
  = if msg_ok (c04_plpick i cs d) then bout ij mode pt dv cl env (c04_plpick i cs d) else None.
Proof.
  induction cs as [|zb r IH]; [reflexivity|]. cbn [c04_qof c04_plpick]. rewrite qout_case. destruct (i =? fst zb)%Z; [reflexivity|exact IH].
Qed.
(* the statement's meaning: the value of v is an integer and the selected body is rendered as a message *)
Lemma c04_qof_sout ij mode pt dv cl env pname v cs d i : ceval ij env v = Some (VInt i) ->
  sout ij mode pt dv cl env (SMsgPl pname v (c04_qof cs d)) = sout ij mode pt dv cl env (SMsg (c04_plpick i cs d)).
Proof. intro Ev. rewrite sout_msgpl, Ev, c04_qof_out, sout_msg. destruct (msg_ok (c04_plpick i cs d)); reflexivity. Qed.
Lemma c04_qof_swf lv pname v cs d :
  swf lv (SMsgPl pname v (c04_qof cs d)) = cwf lv v && (forallb (fun zb => msg_ok (snd zb) && bwf lv (snd zb)) cs && (msg_ok d && bwf lv d)).
Proof.
  rewrite swf_msgpl. f_equal. induction cs as [|zb r IH]; [reflexivity|]. cbn [c04_qof forallb]. rewrite qwf_case, IH. rewrite <- !andb_assoc. reflexivity.
Qed.
Lemma c04_js_plural_switch jfn je jv jk : js_exec jfn je (JSPlural jv jk) = js_exec jfn je (JSSwitch jv jk).
Proof. reflexivity. Qed.
Lemma c04_plk_kprint_nb ind jd : forall jcs,
  kprint_nb ind (c04_plk jcs jd) = c04_plprint_cases ind jcs ++ (sp_ind ind ++ [CText t_default] ++ [CText t_nl]) ++ bprint (S ind) jd.
Proof.
  induction jcs as [|zj r IH]; cbn [c04_plk fold_right c04_plprint_cases].
  - rewrite kprint_nb_default. chunks_eq.
  - fold (c04_plk r jd). rewrite kprint_nb_case, IH. cbn [jk_values jprint]. chunks_eq.
Qed.
(* the printed form of the statement is the emitted text *)
Lemma c04_plprint_sprint_plural ind jv jcs jd : sprint ind (JSPlural jv (c04_plk jcs jd)) = c04_plprint ind jv jcs jd.
Proof. rewrite sprint_plural, c04_plk_kprint_nb. unfold c04_plprint. chunks_eq. Qed.
