(* C04, a message whose only child is a {plural}, rendered WITHOUT a translation bundle:
     {msg desc=".."}{plural v}{case z1}b1 .. {case zk}bk{default}d{/plural}{/msg}
   with case bodies of raw text and placeholders (print, call: msg_ok).
   soyhtml walkPlural evaluates v (an integer, else an error), renders the first case whose number equals it, else the
   default; soyjs walkPlural writes
       switch (v) {  case z1: <statements of b1> break;  ..  default: <statements of d>  }
   (no break after the default clause).  The MiniJS statement is JSSwitch (cgen v) (case JENum z_i: jb_i .. default: jd)
   with the blocks generated one after the other from the generator's counter (c04_plgen); its printed form
   (Model/MiniJS.v sprint) differs from the emitted text exactly by the line "break;" after the default clause
   (c04_plprint_sprint), which has no effect as the last clause.

   [gen_correct_partial_plural] is the same three-sided simulation step as Proofs/MiniJSSim.v sim_step, built from the step
   of the selected body (gen_correct_partial_stmt on SMsg b) -- the plural is not a constructor of cstmt, so the step is
   stated for the node and is NOT part of the programs of Model/MiniJSProg.v (not composed into the file theorem). *)
From Soy Require Import Model.Bytes Model.Num Model.Values Model.Outcome Model.Ast Model.JsGen Model.MiniJS
  Model.Escape Model.Directives Model.Print Generated.Tables Model.Interp
  Proofs.EscapeProofs Proofs.MiniJSProofs Proofs.MiniJSPrint Proofs.MiniJSStmt Model.MsgId Proofs.MsgIdProofs
  Proofs.MiniJSCtl Proofs.MiniJSGo Proofs.MiniJSGen Proofs.MiniJSSim.
Open Scope N_scope.

(* the blocks of the cases, generated in order: the counter runs through them *)
Fixpoint c04_plgen (mode : N) (buf : bstr) (sc : list (list (bstr * bstr))) (n : N) (cs : list (Z * cblk)) : list (Z * jblk) * N :=
  match cs with
  | [] => ([], n)
  | zb :: r => let '(jb, n1) := bgen mode buf sc n (snd zb) in
               let '(jr, n2) := c04_plgen mode buf sc n1 r in ((fst zb, jb) :: jr, n2)
  end.
Definition c04_plk (jcs : list (Z * jblk)) (jd : jblk) : jcases :=
  fold_right (fun zj r => JKCase (JENum (fst zj)) [] (snd zj) r) (JKDefault jd) jcs.
Definition c04_plcases (cs : list (Z * cblk)) : list node := map (fun zb => NMsgPluralCase 0 (fst zb) (mnodes (snd zb))) cs.
Definition c04_plural_node (pname : bstr) (v : cexpr) (cs : list (Z * cblk)) (d : cblk) : node :=
  NMsg 0 0 [] [] [NMsgPlural 0 pname (cnode v) (c04_plcases cs) (mnodes d)].
(* the body both walkPlural's select *)
Fixpoint c04_plpick (i : Z) (cs : list (Z * cblk)) (d : cblk) : cblk :=
  match cs with [] => d | zb :: r => if (i =? fst zb)%Z then snd zb else c04_plpick i r d end.

(* the text soyjs writes *)
Fixpoint c04_plprint_cases (ind : nat) (jcs : list (Z * jblk)) : list chunk :=
  match jcs with
  | [] => []
  | zj :: r => (sp_ind ind ++ [CText t_case; CNum (dec_of_Z (fst zj)); CText t_colon] ++ [CText t_nl])
               ++ bprint (S ind) (snd zj) ++ (sp_ind (S ind) ++ [CText t_break] ++ [CText t_nl]) ++ c04_plprint_cases ind r
  end.
Definition c04_plprint (ind : nat) (jv : jexpr) (jcs : list (Z * jblk)) (jd : jblk) : list chunk :=
  sp_ind ind ++ [CText t_switch_open] ++ jprint jv ++ [CText t_for_close; CText t_nl]
  ++ c04_plprint_cases (S ind) jcs
  ++ (sp_ind (S ind) ++ [CText t_default] ++ [CText t_nl]) ++ bprint (S (S ind)) jd
  ++ (sp_ind ind ++ [CText t_rbrace] ++ [CText t_nl]).

(* the budget visitMsgNode's loop gets covers every case body *)
Definition c04_gosum : list node -> nat :=
  fix go (l : list node) : nat := match l with [] => 0%nat | x :: r => (nmsg_size x + go r)%nat end.
Lemma c04_nmsg_plural p vn v cases dflt : nmsg_size (NMsgPlural p vn v cases dflt) = (4 + c04_gosum cases + c04_gosum dflt)%nat.
Proof. reflexivity. Qed.
Lemma c04_nmsg_case p z bd : nmsg_size (NMsgPluralCase p z bd) = (3 + c04_gosum bd)%nat.
Proof. reflexivity. Qed.
Lemma c04_gosum_mnodes b : c04_gosum (mnodes b) = length (mnodes b).
Proof. induction b as [|s r IH]; [reflexivity|]. cbn [mnodes c04_gosum length]. fold c04_gosum. rewrite IH. destruct s; reflexivity. Qed.
Lemma c04_gosum_cases cs zb : In zb cs -> (length (mnodes (snd zb)) < c04_gosum (c04_plcases cs))%nat.
Proof.
  induction cs as [|x r IH]; [intros []|]. intros [<-|H]; cbn [c04_plcases map c04_gosum]; fold c04_gosum; fold (c04_plcases r); rewrite c04_nmsg_case, c04_gosum_mnodes.
  - lia.
  - specialize (IH H). lia.
Qed.

Tactic Notation "gbind" ident(x) ident(H) := eapply gres_bind; [ | intros x H ].
Ltac chunks_eq := repeat rewrite <- app_assoc; cbn [app]; rewrite ?app_nil_r; reflexivity.

Section PluralGen.
Variable o : jopts.
Hypothesis HCN : cn_ok o.
Hypothesis HNB : o_msgs o = None.
Variable lv : list bstr.

(* one body: visitMsgNode's loop over raw text and placeholders = the statements, one after the other *)
Lemma gen_plural_body b f F st i bf a sc n jb n1 :
  msg_ok b = true -> bwf lv b = true -> (bdepth b <= F)%nat -> (length (mnodes b) < f)%nat ->
  sc <> [] -> lvok lv sc -> shape st i bf a sc n -> bgen a bf sc n b = (jb, n1) ->
  gres o (jmsg_children (jwalk o F) f (mnodes b)) st (bprint i jb) i bf a sc n1.
Proof.
  intros Hm Hw Hd Hl Hn Hlv Hs Eb.
  destruct (proj1 (proj2 (sgen_print_all o HCN HNB)) b lv F st jb n1 i bf a sc n Hd Hn Hlv Hw Hs Eb) as (sc' & _ & Hsame & G).
  rewrite (Hsame Hm) in G. destruct G as (z3 & E3 & R3). exists z3. rewrite (gen_msg_children (jwalk o F) b Hm f st Hl). split; [exact E3|exact R3].
Qed.

Lemma gen_plural_cases f F : forall cs st i bf a sc n jcs n1,
  (forall zb, In zb cs -> msg_ok (snd zb) = true /\ bwf lv (snd zb) = true /\ (bdepth (snd zb) <= F)%nat /\ (length (mnodes (snd zb)) < f)%nat) ->
  sc <> [] -> lvok lv sc -> shape st i bf a sc n -> c04_plgen a bf sc n cs = (jcs, n1) ->
  gres o ((fix go (cs0 : list node) : J unit :=
             match cs0 with [] => jret tt | c :: cr => plural_case_body (jmsg_children (jwalk o F) f) c ;;; go cr end) (c04_plcases cs))
       st (c04_plprint_cases i jcs) i bf a sc n1.
Proof.
  induction cs as [|zb r IH]; intros st i bf a sc n jcs n1 Hall Hn Hlv Hs Eg.
  - cbn in Eg. inversion Eg; subst. cbn. apply gres_ret; exact Hs.
  - cbn [c04_plgen] in Eg. destruct (bgen a bf sc n (snd zb)) as [jb nb] eqn:Eb. destruct (c04_plgen a bf sc nb r) as [jr nr] eqn:Er. inversion Eg; subst. clear Eg.
    destruct (Hall zb (or_introl eq_refl)) as (Hm & Hw & Hd & Hl).
    cbn [c04_plcases map c04_plprint_cases fst snd]. fold (c04_plcases r).
    eapply gres_eq.
    + gbind x1 H1.
      { unfold plural_case_body. gbind y1 Y1. apply gres_sln; exact Hs. gbind y2 Y2. apply gres_inc; exact Y1.
        gbind y3 Y3. apply (gen_plural_body (snd zb) f F y2 (S i) bf a sc n jb nb Hm Hw Hd Hl Hn Hlv Y2 Eb).
        gbind y4 Y4. apply gres_sln; exact Y3. apply gres_dec; exact Y4. }
      apply (IH x1 i bf a sc nb jr n1); auto. intros zb' Hzb. apply Hall. right. exact Hzb.
    + chunks_eq.
Qed.

Theorem gen_plural pname v cs d F st i bf a sc n jcs n1 jd n2 :
  (cdepth v < F)%nat -> cwf lv v = true ->
  (forall zb, In zb cs -> msg_ok (snd zb) = true /\ bwf lv (snd zb) = true /\ (bdepth (snd zb) <= F)%nat) ->
  msg_ok d = true -> bwf lv d = true -> (bdepth d <= F)%nat ->
  sc <> [] -> lvok lv sc -> shape st i bf a sc n ->
  c04_plgen a bf sc n cs = (jcs, n1) -> bgen a bf sc n1 d = (jd, n2) ->
  gres o (jwalk o (S F) (c04_plural_node pname v cs d)) st (c04_plprint i (cgen sc v) jcs jd) i bf a sc n2.
Proof.
  intros Hv Hwv Hall Hmd Hwd Hdd Hn Hlv Hs Eg Ed. unfold c04_plural_node.
  eapply gres_walk; [reflexivity|exact Hs|]. intros st1 H1. cbn [jwalk_node]. unfold visit_msg. rewrite HNB.
  set (k := (4 + c04_gosum (c04_plcases cs) + c04_gosum (mnodes d) + 0)%nat).
  assert (Hsz : msg_size [NMsgPlural 0 pname (cnode v) (c04_plcases cs) (mnodes d)] = S k) by reflexivity.
  assert (Hkc : forall zb, In zb cs -> (length (mnodes (snd zb)) < k)%nat) by (intros zb Hzb; pose proof (c04_gosum_cases cs zb Hzb); subst k; lia).
  assert (Hkd : (length (mnodes d) < k)%nat) by (subst k; rewrite c04_gosum_mnodes; lia).
  rewrite Hsz. clearbody k. cbn [jmsg_children].
  eapply gres_eq.
  - gbind z0 Z0.
    { gbind x1 X1. apply gres_indent; exact H1. gbind x2 X2. apply gres_txt; exact X1.
      gbind x3 X3. apply (gres_expr o v lv F x2); [exact Hv|exact Hwv|exact Hlv|exact X2].
      gbind x4 X4. apply gres_emit; exact X3. gbind x5 X5. apply gres_inc; exact X4.
      gbind x6 X6.
      { apply (gen_plural_cases k F cs x5 (S i) bf a sc n jcs n1); auto.
        intros zb Hzb. destruct (Hall zb Hzb) as (A1 & A2 & A3). repeat split; auto. }
      gbind x7 X7. apply gres_sln; exact X6. gbind x8 X8. apply gres_inc; exact X7.
      gbind x9 X9. apply (gen_plural_body d k F x8 (S (S i)) bf a sc n1 jd n2 Hmd Hwd Hdd Hkd Hn Hlv X8 Ed).
      gbind x10 X10. apply gres_dec; exact X9. gbind x11 X11. apply gres_dec; exact X10. apply gres_sln; exact X11. }
    (* no further child *)
    destruct k as [|k']; [lia|]. cbn [jmsg_children]. apply gres_ret; exact Z0.
  - unfold c04_plprint. chunks_eq.
Qed.
End PluralGen.
