(* C17, print commands at text level: the scanner model on the string PrintNode.String() writes, composed with
   the parsePrint model and with the injectivity of the printed items; the "placeholders by text" statement
   with the scanner model in place of an abstract scanner. *)
From Soy Require Import Model.Bytes Model.Num Model.Values Model.Outcome Model.Ast Model.Token Model.NumLit Model.Quote
  Model.ExprParser Model.AstPrint Generated.Tables Model.Lexer Model.MsgId Spec.ExprSyntax
  Proofs.ExprParserRules Proofs.ExprParserProofs Proofs.ExprParserStrip Proofs.ExprParserFuel Proofs.PlaceholderTextProofs Proofs.MsgIdProofs
  Proofs.LexTokens Proofs.LexerProofs Proofs.LexPrintMain Proofs.LexPrintTop Proofs.LexParseText Proofs.LexPrintCmd.
From Coq Require Import ZifyBool ZifyNat ZifyN Lia.
Open Scope N_scope.

Definition is_print (n : node) : Prop := match n with NPrint _ _ _ => True | _ => False end.

Lemma lex_print_command_tbl n txt : wf_print n -> lex_ok_print n -> print_node n = Some txt ->
  exists ld mid e, lex_items is_letter_tbl is_digit_tbl (lex_budget txt) false txt = Ok (ld :: mid ++ [e]) /\
    t_typ ld = itemLeftDelim /\ t_val ld = [123] /\ map tv mid = map tv (tokens_of_print n) /\ t_typ e = itemEOF.
Proof.
  destruct n; cbn [wf_print]; try contradiction. intros Hwf Hlo Hp.
  destruct tables_ascii as [Hl Hd]. destruct tables_eof as [El Ed].
  exact (lex_print_command is_letter_tbl is_digit_tbl Hl Hd El Ed _ _ _ txt Hwf Hlo Hp).
Qed.

(* two print commands that print the same STRING are the same print command up to positions *)
Theorem print_command_string_injective n1 n2 txt :
  wf_print n1 -> lex_ok_print n1 -> wf_print n2 -> lex_ok_print n2 ->
  print_node n1 = Some txt -> print_node n2 = Some txt -> strip_pos n1 = strip_pos n2.
Proof.
  intros W1 L1 W2 L2 P1 P2.
  destruct (lex_print_command_tbl n1 txt W1 L1 P1) as (ld1 & mid1 & e1 & R1 & _ & _ & M1 & _).
  destruct (lex_print_command_tbl n2 txt W2 L2 P2) as (ld2 & mid2 & e2 & R2 & _ & _ & M2 & _).
  rewrite R1 in R2. injection R2 as _ Emid. apply app_inj_tail in Emid. destruct Emid as [-> _].
  apply print_command_injective; [exact W1|exact W2|]. apply tv_strip. rewrite <- M1, <- M2. reflexivity.
Qed.

(* the scanner's items for String(n), minus the opening "{", put through the parsePrint model: the command, up to positions *)
Theorem print_command_text_roundtrip p arg dirs txt :
  wf_print (NPrint p arg dirs) -> lex_ok_print (NPrint p arg dirs) -> print_node (NPrint p arg dirs) = Some txt ->
  exists ld its, lex_items is_letter_tbl is_digit_tbl (lex_budget txt) false txt = Ok (ld :: its) /\ t_typ ld = itemLeftDelim /\
    exists f0, forall f q, (f0 <= f)%nat ->
      exists n' st', parse_print f q (pst_init its) = POk n' st' /\ strip_pos n' = strip_pos (NPrint p arg dirs).
Proof.
  intros Hwf Hlo Hp.
  destruct (lex_print_command_tbl _ txt Hwf Hlo Hp) as (ld & mid & e & Hlex & Hld & _ & Hm & He).
  exists ld, (mid ++ [e]). split; [exact Hlex|]. split; [exact Hld|].
  pose proof (wf_print_strip _ Hwf) as Hwf0. cbn [strip_pos] in Hwf0.
  destruct (parse_print_roundtrip_cmd 0 _ _ [strip_tok e] Hwf0) as (st0 & f0 & _ & HF).
  exists f0. intros f q Hf.
  pose proof (parse_print_sim f q (pst_init (mid ++ [e]))) as [Hsim _].
  rewrite zs_init, map_app in Hsim. cbn [map] in Hsim.
  assert (Hmid : map strip_tok mid = tokens_of_print (NPrint 0 (strip_pos arg) (map strip_pos dirs))).
  { change (NPrint 0 (strip_pos arg) (map strip_pos dirs)) with (strip_pos (NPrint p arg dirs)).
    unfold tokens_of_print. rewrite show_print_strip. apply tv_strip. exact Hm. }
  rewrite Hmid, (HF f Hf) in Hsim.
  destruct (zr_ok_inv _ _ _ _ Hsim) as (n' & st' & Hrun & Hn' & _). exists n', st'. split; [exact Hrun|exact Hn'].
Qed.

(* "the message extractor identifies placeholders by this text", with the scanner model: in the model of
   setPlaceholderNames two placeholders whose texts are those of well-formed, lexically well-formed print commands
   get the same name only if they are the same print command up to positions *)
Theorem placeholders_by_text_scanner order body es nm :
  is_perm order -> msg_entries body = Ok es -> msg_names order body = Ok nm ->
  forall b1 b2 n1 n2 s1 s2,
  wf_print n1 -> lex_ok_print n1 -> wf_print n2 -> lex_ok_print n2 -> print_node n1 = Some s1 -> print_node n2 = Some s2 ->
  In (b1, s1) es -> In (b2, s2) es ->
  name_of nm b1 s1 = name_of nm b2 s2 -> b1 = b2 /\ strip_pos n1 = strip_pos n2.
Proof.
  intros Hp Hes Hnm b1 b2 n1 n2 s1 s2 W1 L1 W2 L2 P1 P2 I1 I2 E.
  pose proof (names_distinct order body es nm Hp Hes Hnm b1 s1 b2 s2 I1 I2 E) as Heq.
  injection Heq as -> ->. split; [reflexivity|]. eapply print_command_string_injective; eauto.
Qed.
