(* C06, part 3: the code inside errRecover, soyhtml.EvalExpr, soy.ParseGlobals,
   and funcRange's loop. *)
From Coq Require Import Lia ZifyN ZifyBool ZifyNat.
From Soy Require Import Model.Bytes Model.Num Model.Values Model.Outcome Model.Ast
  Model.Escape Model.Directives Model.Print Generated.Tables Model.Interp Model.InterpSafety Model.Globals
  Spec.Safety Proofs.SafetyProofs.
Open Scope N_scope.

(* ================================================================== *)
(* errRecover                                                          *)
(* ================================================================== *)

(* the body of the (repaired) recover handler cannot itself panic when the
   state has no template (EvalExpr), or when its node lies inside the source
   recorded for its template *)
Theorem err_recover_safe_lemma v :
  match rv_tmpl v with
  | None => True
  | Some name =>
      match assoc_s name (r_sources (rv_reg v)) with
      | Some src => rv_pos v <= N.of_nat (length src)
      | None => True
      end
  end ->
  exists file line, err_recover true v = Ok (file, line).
Proof.
  unfold err_recover, call_annotation, err_from_node, reg_line, line_number.
  destruct (rv_tmpl v) as [name|]; [|intros _; eexists _, _; reflexivity].
  destruct (assoc_s name (r_sources (rv_reg v))) as [src|]; intros H.
  - destruct (N.leb_spec (rv_pos v) (N.of_nat (length src))); [|lia]. eexists _, _; reflexivity.
  - eexists _, _; reflexivity.
Qed.

(* the pinned handler dereferences the nil template *)
Theorem err_recover_pinned_nil reg pos :
  err_recover false {| rv_reg := reg; rv_tmpl := None; rv_pos := pos |} = Crash e_nilderef.
Proof. reflexivity. Qed.

(* outcomes up to the text carried by a crash *)
Definition crash_class {A} (o : outcome A) : outcome A := match o with Crash _ => Crash [] | x => x end.

(* Interp.render inlines exactly this handler (for registries that record a file
   whenever they record a source, which Registry.Add guarantees) *)
Theorem render_uses_err_recover cf fuel name data_id data cl bl first_id t :
  find_template (r_templates (c_reg cf)) name = Some t ->
  (assoc_s name (r_sources (c_reg cf)) = None <-> assoc_s name (r_files (c_reg cf)) = None) ->
  let st0 := init_state (sc_enter (new_scope data_id data)) (entry_mode (t_ns_autoescape t)) name cl bl first_id in
  let run := walk cf fuel (t_node t) st0 in
  let rr := render cf fuel name data_id data cl bl first_id in
  (crash_class (rr_outcome rr), rr_file rr, rr_line rr) =
  (let '(o, f, l) := finish_render true {| rv_reg := c_reg cf; rv_tmpl := Some name; rv_pos := cur (snd run) |} (fst run) in
   (crash_class o, f, l)).
Proof.
  intros Hf Hrec. cbv zeta. unfold render. rewrite Hf.
  destruct (walk cf fuel (t_node t) _) as [r st]. cbn [fst snd].
  destruct r; cbn [finish_render rr_outcome rr_file rr_line]; try reflexivity.
  unfold err_recover, call_annotation, err_from_node, reg_line, reg_file. cbn [rv_tmpl rv_reg rv_pos].
  destruct (assoc_s name (r_sources (c_reg cf))) as [src|] eqn:Hs;
    destruct (assoc_s name (r_files (c_reg cf))) as [file|] eqn:Hfl.
  - destruct (line_number src (cur st)); reflexivity.
  - destruct Hrec as [_ Hrec]. discriminate (Hrec eq_refl).
  - destruct Hrec as [Hrec _]. discriminate (Hrec eq_refl).
  - reflexivity.
Qed.

(* ================================================================== *)
(* soyhtml.EvalExpr                                                    *)
(* ================================================================== *)

Theorem eval_expr_no_escape_lemma fuel n : no_escape (eval_expr_impl true fuel n).
Proof.
  unfold eval_expr_impl.
  pose proof (walk_no_escape
    {| c_reg := empty_registry; c_ij := None; c_oblig := []; c_msgs := None |} fuel n (init_state [] 0 [] None None 2)) as H.
  unfold eval_expr. destruct (fst (walk _ fuel n _)); cbn in H |- *; try exact I; exact H.
Qed.

(* the same through the pinned handler: every evaluation error escapes *)
Theorem eval_expr_pinned_escapes fuel n m :
  eval_expr fuel n = Err m -> eval_expr_impl false fuel n = Crash e_nilderef.
Proof. unfold eval_expr_impl. intros ->. reflexivity. Qed.

(* ================================================================== *)
(* soy.ParseGlobals                                                    *)
(* ================================================================== *)

Section GlobalsSafe.
Variable parse : bstr -> outcome node.
Hypothesis parse_safe : forall t, no_escape (parse t).     (* C05: parse.Expr returns a tree or an error *)
Variable fuel : nat.

Lemma no_escape_bind {A B} (x : outcome A) (f : A -> outcome B) :
  no_escape x -> (forall v, no_escape (f v)) -> no_escape (bind x f).
Proof. destruct x; cbn; try tauto. intros _ H. apply H. Qed.

Lemma globals_line_safe g line : no_escape (globals_line parse fuel g line).
Proof.
  unfold globals_line. destruct line as [|c l]; [exact I|].
  destruct (is_comment _); [exact I|].
  destruct (split_eq [] _) as [[lhs rhs]|]; [|exact I].
  apply no_escape_bind; [apply parse_safe|]. intros nd.
  apply no_escape_bind; [apply eval_expr_no_escape_lemma|]. intros v. exact I.
Qed.

Lemma globals_lines_safe ls : forall g, no_escape (globals_lines parse fuel g ls).
Proof.
  induction ls as [|raw r IH]; intros g; cbn [globals_lines]; [exact I|].
  destruct (max_token <=? _); [exact I|].
  apply no_escape_bind; [apply globals_line_safe | intros g'; apply IH].
Qed.

Theorem parse_globals_no_escape_lemma input : no_escape (parse_globals parse fuel input).
Proof. unfold parse_globals. apply globals_lines_safe. Qed.
End GlobalsSafe.

(* ================================================================== *)
(* funcRange                                                           *)
(* ================================================================== *)

(* enough fuel: the loop leaves through its condition (or the overflow guard), never through the fuel *)
Lemma range_loop_enough step limit : (0 < step)%Z -> (limit < two63)%Z ->
  forall fuel i, (limit - i <= Z.of_nat fuel * step)%Z ->
    range_loop fuel i limit step = Ok (range_list fuel i limit step).
Proof.
  intros Hs Hl. induction fuel as [|f IH]; intros i Hf.
  - cbn [range_loop range_list]. destruct (Z.ltb_spec i limit); [lia | reflexivity].
  - cbn [range_loop range_list]. destruct (Z.ltb_spec i limit) as [Hlt|]; [|reflexivity].
    destruct (Z.leb_spec two63 (i + step)) as [Hov|Hno].
    + (* the guard: the next index is past every limit *)
      destruct f; cbn [range_list]; [reflexivity|].
      destruct (Z.ltb_spec (i + step) limit); [lia | reflexivity].
    + rewrite IH by lia. reflexivity.
Qed.

Lemma range_fuel_enough i limit step : (0 < step)%Z ->
  (limit - i <= Z.of_nat (Z.to_nat ((limit - i) / step + 1)) * step)%Z.
Proof.
  intros Hs. destruct (Z_le_gt_dec (limit - i) 0) as [Hle|Hgt]; [nia|].
  assert (0 <= (limit - i) / step)%Z by (apply Z.div_pos; lia).
  rewrite Z2Nat.id by lia.
  pose proof (Z.mul_succ_div_gt (limit - i) step Hs). lia.
Qed.

(* range with a positive step always returns; with a non-positive step it is an error *)
Theorem range_terminates_lemma i limit step :
  (limit < two63)%Z ->
  func_range_repaired i limit step =
    if (step <=? 0)%Z then Err e_range
    else Ok (range_list (Z.to_nat ((limit - i) / step + 1)) i limit step).
Proof.
  intros Hl. unfold func_range_repaired. destruct (Z.leb_spec step 0); [reflexivity|].
  apply range_loop_enough; [lia | exact Hl | apply range_fuel_enough; lia].
Qed.

(* without the bound on the limit (not a Go int) the loop still never diverges *)
Lemma range_loop_no_diverge step limit : (0 < step)%Z ->
  forall fuel i, (limit - i <= Z.of_nat fuel * step)%Z -> no_escape (range_loop fuel i limit step).
Proof.
  intros Hs. induction fuel as [|f IH]; intros i Hf; cbn [range_loop].
  - destruct (Z.ltb_spec i limit); [lia | exact I].
  - destruct (Z.ltb_spec i limit); [|exact I]. destruct (two63 <=? i + step)%Z; [exact I|].
    specialize (IH (i + step)%Z ltac:(lia)). destruct (range_loop f (i + step) limit step); cbn in *; tauto.
Qed.

Theorem range_no_escape i limit step : no_escape (func_range_repaired i limit step).
Proof.
  unfold func_range_repaired. destruct (Z.leb_spec step 0); [exact I|].
  apply range_loop_no_diverge; [lia | apply range_fuel_enough; lia].
Qed.

(* the list the loop builds, in closed form: i, i+step, ... below the limit *)
Definition range_count (i limit step : Z) : nat := Z.to_nat ((limit - i + step - 1) / step).

Lemma range_list_closed step limit : (0 < step)%Z ->
  forall fuel i, (range_count i limit step <= fuel)%nat ->
    range_list fuel i limit step = map (fun k => VInt (i + Z.of_nat k * step)) (seq 0 (range_count i limit step)).
Proof.
  intros Hs. induction fuel as [|f IH]; intros i Hf.
  - assert (range_count i limit step = 0)%nat as -> by lia. reflexivity.
  - cbn [range_list]. destruct (Z.ltb_spec i limit) as [Hlt|Hge].
    + assert (Hc : range_count i limit step = S (range_count (i + step) limit step)).
      { unfold range_count.
        replace (limit - i + step - 1)%Z with ((limit - (i + step) + step - 1) + 1 * step)%Z by lia.
        rewrite Z.div_add by lia.
        assert (0 <= (limit - (i + step) + step - 1) / step)%Z by (apply Z.div_pos; lia).
        lia. }
      rewrite Hc in Hf |- *. rewrite IH by lia. cbn [seq map]. f_equal; [f_equal; lia|].
      rewrite <- seq_shift, map_map. apply map_ext. intros k. f_equal. lia.
    + assert (range_count i limit step = 0)%nat as ->; [|reflexivity].
      unfold range_count. assert ((limit - i + step - 1) / step < 1)%Z; [|lia].
      apply Z.div_lt_upper_bound; lia.
Qed.

Lemma range_count_fuel i limit step : (0 < step)%Z ->
  (range_count i limit step <= Z.to_nat ((limit - i) / step + 1))%nat.
Proof.
  intros Hs. unfold range_count.
  assert ((limit - i + step - 1) / step <= (limit - i) / step + 1)%Z; [|lia].
  replace ((limit - i) / step + 1)%Z with ((limit - i + 1 * step) / step)%Z by (rewrite Z.div_add by lia; reflexivity).
  apply Z.div_le_mono; lia.
Qed.

Theorem range_result i limit step : (0 < step)%Z -> (limit < two63)%Z ->
  func_range_repaired i limit step =
    Ok (map (fun k => VInt (i + Z.of_nat k * step)) (seq 0 (range_count i limit step))).
Proof.
  intros Hs Hl. rewrite range_terminates_lemma by exact Hl.
  destruct (Z.leb_spec step 0); [lia|]. f_equal.
  apply range_list_closed; [exact Hs | apply range_count_fuel; exact Hs].
Qed.

(* ---- the pinned loop really never exits on the ledger's witnesses ---- *)

Theorem range_pinned_step0_diverges : forall fuel, range_loop_pinned fuel 0 5 0 = Diverge.
Proof.
  induction fuel as [|f IH]; [reflexivity|].
  cbn [range_loop_pinned]. change (0 <? 5)%Z with true. cbv iota.
  change (wrap64 (0 + 0)) with 0%Z. rewrite IH. reflexivity.
Qed.

Definition max_int : Z := 9223372036854775807.
Definition two62 : Z := 4611686018427387904.

(* range(0, MaxInt64, 2^62): the index runs 0, 2^62, -2^63, -2^62, 0, ... for ever *)
Theorem range_pinned_overflow_diverges : forall fuel,
  range_loop_pinned fuel 0 max_int two62 = Diverge
  /\ range_loop_pinned fuel two62 max_int two62 = Diverge
  /\ range_loop_pinned fuel (- two63) max_int two62 = Diverge
  /\ range_loop_pinned fuel (- two62) max_int two62 = Diverge.
Proof.
  induction fuel as [|f (H0 & H1 & H2 & H3)]; [repeat split; reflexivity|].
  repeat split; cbn [range_loop_pinned].
  - change (0 <? max_int)%Z with true. cbv iota.
    change (wrap64 (0 + two62)) with two62. rewrite H1. reflexivity.
  - change (two62 <? max_int)%Z with true. cbv iota.
    change (wrap64 (two62 + two62)) with (- two63)%Z. rewrite H2. reflexivity.
  - change (- two63 <? max_int)%Z with true. cbv iota.
    change (wrap64 (- two63 + two62)) with (- two62)%Z. rewrite H3. reflexivity.
  - change (- two62 <? max_int)%Z with true. cbv iota.
    change (wrap64 (- two62 + two62)) with 0%Z. rewrite H0. reflexivity.
Qed.
