(* C15, scanner half: what lexText and the two comment states do on a stretch of template text without
   braces, related to the Spec's [pieces] (Spec/Text.v).  String-level lemmas in the style of
   Proofs/LexTokens.v ([span]: the cursor; items described by what is appended to [l_out]). *)
From Soy Require Import Model.Bytes Model.Utf8 Model.Outcome Model.Token Generated.Tables Model.Lexer Spec.Text
  Proofs.Utf8Proofs Proofs.RawTextProofs Proofs.LexerPrim Proofs.LexerStates Proofs.LexTokens.
From Coq Require Import ZifyBool ZifyNat ZifyN Lia.
Open Scope Z_scope.

(* ---------- small facts ---------- *)
Lemma take_firstn (n : nat) (s : bstr) : take n s = firstn n s.
Proof. revert s; induction n as [|n IH]; intros [|a s]; reflexivity. Qed.

Lemma last_byte_snoc (x : bstr) c : Lexer.last_byte (x ++ [c]) = Z.of_N c.
Proof.
  induction x as [|a x IH]; [reflexivity|]. cbn [app]. destruct (x ++ [c]) as [|d r] eqn:E.
  - destruct x; discriminate.
  - change (Lexer.last_byte (a :: d :: r)) with (Lexer.last_byte (d :: r)). exact IH.
Qed.

Lemma eol_byte c : gen_isEndOfLine (Z.of_N c) = line_break c.
Proof. unfold gen_isEndOfLine, line_break. lia. Qed.
Lemma spaceeol_byte c : gen_isSpaceEOL (Z.of_N c) = ws c.
Proof. unfold gen_isSpaceEOL, gen_isSpace, gen_isEndOfLine, ws. lia. Qed.

(* the test lexText makes before taking "//" as a comment: the character before is white space, or there is none *)
Definition pwof (r0 : Z) (l : lx) : bool :=
  let lce := if (r0 =? 0) && negb (match t_val (l_last l) with [] => true | _ => false end)
             then Lexer.last_byte (t_val (l_last l)) else r0 in
  (lce =? 0) || gen_isSpaceEOL lce.

(* the items a piece of text gives rise to: none when it is empty or only white space with a line break *)
Definition droppable (v : bstr) : bool := match v with [] => true | _ => all_space_with_newline v end.
Definition is_text_of (v : bstr) (txt : list tok) : Prop :=
  if droppable v then txt = [] else exists p, txt = [{| t_typ := itemText; t_pos := p; t_val := v |}].

Section BT.
Variable inp : bstr.
Notation ilen := (Z.of_nat (length inp)).
Notation span := (span inp).
Notation next := (next inp ilen).

(* reading one rune, whatever the next byte is *)
Lemma next_any l w c s : span l w (c :: s) ->
  exists r bs s' l', c :: s = bs ++ s' /\ (0 < length bs)%nat /\ next l = Ok (r, l') /\ span l' (w ++ bs) s' /\
    l_out l' = l_out l /\ l_last l' = l_last l /\ l_dd l' = l_dd l /\ l_start l' = l_start l /\
    l_width l' = Z.of_nat (length bs) /\ l_pos l' = l_pos l + Z.of_nat (length bs) /\
    (((c < 128)%N /\ bs = [c] /\ r = Z.of_N c) \/ ((128 <= c)%N /\ Forall (fun x => (128 <= x)%N) bs /\ 128 <= r)).
Proof.
  intros Hs. destruct (N.ltb_spec c 128) as [Hlt|Hge].
  { destruct (next_ascii inp l w c s Hs Hlt) as (Hn & Hs'). exists (Z.of_N c), [c], s, (adv l).
    split; [reflexivity|]. split; [cbn; lia|]. split; [exact Hn|]. split; [exact Hs'|]. unfold adv. cbn [l_out l_last l_dd l_start l_width l_pos length].
    repeat split. left. auto. }
  pose proof (span_cur _ _ _ _ Hs) as (Hp & Hd). pose proof (span_bounds _ _ _ _ Hs) as (Hb & Hl).
  destruct (decode_rune (c :: s)) as [ru wd] eqn:E.
  destruct (decode_class c s ru wd E) as [(Hc & _)|(_ & Hru & Hwd & Hcont)]; [lia|].
  pose proof (decode_rune_width (c :: s) ltac:(discriminate)) as (Hw1 & _). rewrite E in Hw1. cbn [snd] in Hw1.
  set (bs := take wd (c :: s)). set (s' := drop wd (c :: s)).
  assert (Hbs : length bs = wd) by (apply take_length; lia).
  assert (Hsplit : c :: s = bs ++ s') by (symmetry; apply take_drop).
  eexists (Z.of_N ru), bs, s', _. split; [exact Hsplit|]. split; [lia|]. split.
  { unfold Lexer.next. destruct (ilen <=? l_pos l) eqn:E1; [cbn [length] in Hl; lia|]. destruct (l_pos l <? 0) eqn:E2; [lia|].
    rewrite Hd, E. reflexivity. }
  cbn [l_out l_last l_dd l_start l_width l_pos]. rewrite Hbs.
  split.
  { destruct Hs as (H0 & Hds & Hps). unfold LexTokens.span. cbn [l_start l_pos]. split; [exact H0|]. split.
    - rewrite Hds, <- app_assoc, <- Hsplit. reflexivity.
    - rewrite app_length, Hbs. lia. }
  repeat split. right. split; [exact Hge|]. split; [|lia].
  unfold bs. destruct wd as [|wd']; [lia|]. cbn [take]. constructor; [exact Hge|].
  rewrite take_firstn. cbn [pred] in Hcont. eapply Forall_impl; [|exact Hcont]. intros x Hx. apply cont_hi. exact Hx.
Qed.

Lemma span_eof_next l w : span l w [] ->
  next l = Ok (eof, ateof l) /\ span (backup (ateof l)) w [].
Proof.
  intros Hs. split; [apply (next_eof inp l w Hs)|].
  destruct Hs as (H0 & Hd & Hp). unfold LexTokens.span, backup, ateof, set_pos. cbn [l_pos l_start l_width]. repeat split; try assumption; lia.
Qed.

(* moving the cursor over bytes already known *)
Lemma span_fwd l w wb s : span l w (wb ++ s) -> span (set_pos l (l_pos l + Z.of_nat (length wb))) (w ++ wb) s.
Proof.
  intros (H0 & Hd & Hp). unfold LexTokens.span, set_pos. cbn [l_start l_pos]. split; [exact H0|]. split.
  - rewrite Hd, <- app_assoc. reflexivity.
  - rewrite app_length. lia.
Qed.
Lemma span_back l w wb s : span l (w ++ wb) s -> span (set_pos l (l_pos l - Z.of_nat (length wb))) w (wb ++ s).
Proof.
  intros (H0 & Hd & Hp). unfold LexTokens.span, set_pos. cbn [l_start l_pos]. split; [exact H0|]. split.
  - rewrite Hd, <- app_assoc. reflexivity.
  - rewrite app_length in Hp. lia.
Qed.

(* maybeEmitText(l, backup): the pending text [w] before the [bk] bytes just read *)
Lemma met_span l w wb s : span l (w ++ wb) s ->
  exists l' txt, maybe_emit_text inp ilen 0 l (Z.of_nat (length wb)) = Ok l' /\ span l' wb s /\
    is_text_of w txt /\ l_out l' = rev txt ++ l_out l /\ l_dd l' = l_dd l /\
    (w = [] -> l_start l' = l_start l /\ l_last l' = l_last l).
Proof.
  intros Hs. pose proof Hs as (H0 & Hd & Hp). rewrite app_length in Hp. unfold maybe_emit_text.
  destruct w as [|a w'].
  - destruct (l_start l <? l_pos l - Z.of_nat (length wb)) eqn:E; [exfalso; cbn [length] in Hp; lia|].
    exists l, []. split; [reflexivity|]. split; [exact Hs|]. split; [reflexivity|]. repeat split; reflexivity.
  - assert (Hwl : (1 <= length (a :: w'))%nat) by (cbn [length]; lia). set (w := a :: w') in *.
    destruct (l_start l <? l_pos l - Z.of_nat (length wb)) eqn:E; [|exfalso; lia].
    pose proof (span_back l w wb s Hs) as Hs1. set (l1 := set_pos l (l_pos l - Z.of_nat (length wb))) in *.
    rewrite (slice_span inp l1 w (wb ++ s) Hs1). cbn [bind].
    assert (Hdr : droppable w = all_space_with_newline w) by reflexivity.
    destruct (all_space_with_newline w) eqn:Ea; cbn [bind].
    + pose proof (span_ignore inp l1 w (wb ++ s) Hs1) as Hs2. pose proof (span_fwd _ _ _ _ Hs2) as Hs3.
      eexists _, []. split; [reflexivity|]. split; [exact Hs3|]. split; [unfold is_text_of; rewrite Hdr; reflexivity|].
      repeat split; discriminate.
    + destruct (emit_span inp 0 itemText l1 w (wb ++ s) Hs1) as (He & Hs2). rewrite He. cbn [bind].
      pose proof (span_fwd _ _ _ _ Hs2) as Hs3.
      eexists _, [mktok 0 itemText l1 w]. split; [reflexivity|]. split; [exact Hs3|].
      split; [unfold is_text_of; rewrite Hdr; eexists; reflexivity|]. repeat split; discriminate.
Qed.

(* ---------- lexLineComment ---------- *)
Lemma line_comment_run : forall n s, (length s <= n)%nat -> forall cw l fuel rest, span l cw s -> (length s < fuel)%nat ->
  pieces MLine false [] s = Some rest ->
  exists l' s'' v p, line_comment_loop inp ilen 0 fuel l = Ok (LText, l') /\ span l' [] s'' /\ (length s'' <= length s)%nat /\
    l_out l' = {| t_typ := itemComment; t_pos := p; t_val := v |} :: l_out l /\ l_dd l' = l_dd l /\
    pieces MText (pwof 0 l') [] s'' = Some rest.
Proof.
  induction n as [|n IH]; intros s Hn cw l fuel rest Hs Hf Hpc; (destruct fuel as [|f]; [lia|]); cbn [line_comment_loop].
  - destruct s; [|cbn in Hn; lia]. destruct (span_eof_next l cw Hs) as (Hnx & _). rewrite Hnx. cbn [bind].
    change (gen_isEndOfLine eof || (eof =? eof)) with true. cbv iota.
    assert (Hs1 : span (ateof l) cw []).
    { destruct Hs as (H0 & Hd & Hp). unfold LexTokens.span, ateof. cbn [l_start l_pos]. auto. }
    destruct (emit_span inp 0 itemComment (ateof l) cw [] Hs1) as (He & Hs2). unfold emit_to. rewrite He. cbn [bind].
    eexists _, [], cw, _. split; [reflexivity|]. split; [exact Hs2|]. split; [lia|]. split; [reflexivity|]. split; [reflexivity|].
    cbn [pieces] in Hpc. exact Hpc.
  - destruct s as [|c s].
    { destruct (span_eof_next l cw Hs) as (Hnx & _). rewrite Hnx. cbn [bind].
      change (gen_isEndOfLine eof || (eof =? eof)) with true. cbv iota.
      assert (Hs1 : span (ateof l) cw []).
      { destruct Hs as (H0 & Hd & Hp). unfold LexTokens.span, ateof. cbn [l_start l_pos]. auto. }
      destruct (emit_span inp 0 itemComment (ateof l) cw [] Hs1) as (He & Hs2). unfold emit_to. rewrite He. cbn [bind].
      eexists _, [], cw, _. split; [reflexivity|]. split; [exact Hs2|]. split; [lia|]. split; [reflexivity|]. split; [reflexivity|].
      cbn [pieces] in Hpc. exact Hpc. }
    destruct (next_any l cw c s Hs) as (r & bs & s' & l1 & Hsplit & Hbl & Hnx & Hs1 & Ho & Hla & Hdd & Hst & Hwd & Hps & Hcls).
    rewrite Hnx. cbn [bind].
    destruct Hcls as [(Hc & -> & ->)|(Hc & Hall & Hr)].
    + cbn [app] in Hsplit. injection Hsplit as <-. rewrite eol_byte.
      assert (Hne : (Z.of_N c =? eof) = false) by (unfold eof; lia). rewrite Hne, Bool.orb_false_r.
      cbn [pieces] in Hpc. destruct (line_break c) eqn:Elb.
      * destruct (emit_span inp 0 itemComment l1 (cw ++ [c]) s Hs1) as (He & Hs2). unfold emit_to. rewrite He. cbn [bind].
        eexists _, s, (cw ++ [c]), _. split; [reflexivity|]. split; [exact Hs2|]. split; [cbn; lia|].
        split; [cbn [emitted l_out]; rewrite Ho; reflexivity|]. split; [cbn [emitted l_dd]; exact Hdd|].
        unfold pwof, emitted. cbn [l_last mktok t_val]. destruct (cw ++ [c]) as [|q qs] eqn:Eq; [destruct cw; discriminate|].
        rewrite <- Eq. cbn [Z.eqb andb negb]. rewrite last_byte_snoc, spaceeol_byte.
        assert (Hw : ws c = true) by (unfold ws, line_break in *; lia). rewrite Hw, Bool.orb_true_r. exact Hpc.
      * destruct (IH s ltac:(cbn in Hn; lia) (cw ++ [c]) l1 f rest Hs1 ltac:(cbn in Hf; lia) Hpc)
          as (l' & s'' & v & p & Hrun & Hs'' & Hlen & Hout & Hdd' & Hpc').
        exists l', s'', v, p. split; [exact Hrun|]. split; [exact Hs''|]. split; [cbn; lia|]. split; [rewrite Hout, Ho; reflexivity|].
        split; [congruence|exact Hpc'].
    + assert (Hne : (gen_isEndOfLine r || (r =? eof)) = false) by (unfold gen_isEndOfLine, eof; lia). rewrite Hne.
      assert (Hpc' : pieces MLine false [] s' = Some rest).
      { rewrite Hsplit in Hpc. clear - Hpc Hall. induction bs as [|x bs IHb]; [exact Hpc|].
        inversion Hall; subst. cbn [app pieces] in Hpc. assert (E : line_break x = false) by (unfold line_break; lia).
        rewrite E in Hpc. apply IHb; assumption. }
      assert (Hlen : (length (c :: s) = length bs + length s')%nat) by (rewrite Hsplit, app_length; reflexivity).
      destruct (IH s' ltac:(cbn in Hn, Hlen; lia) (cw ++ bs) l1 f rest Hs1 ltac:(cbn in Hf, Hlen; lia) Hpc')
        as (l' & s'' & v & p & Hrun & Hs'' & Hlen' & Hout & Hdd' & Hpc'').
      exists l', s'', v, p. split; [exact Hrun|]. split; [exact Hs''|]. split; [cbn in *; lia|]. split; [rewrite Hout, Ho; reflexivity|].
      split; [congruence|exact Hpc''].
Qed.

End BT.
