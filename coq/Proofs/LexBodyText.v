(* C15, scanner half: what lexText and the two comment states do on a stretch of template text without
   braces, related to the Spec's [pieces] (Spec/Text.v).  String-level lemmas in the style of
   Proofs/LexTokens.v ([span]: the cursor; items described by what is appended to [l_out]). *)
From Soy Require Import Model.Bytes Model.Utf8 Model.Outcome Model.Token Generated.Tables Model.Lexer Spec.Text
  Proofs.Utf8Proofs Proofs.RawTextProofs Proofs.LexerPrim Proofs.LexerStates Proofs.LexTokens.
From Coq Require Import ZifyBool ZifyNat ZifyN Lia.
Open Scope Z_scope.

(* ---------- small facts ---------- *)
Lemma take_firstn (n : nat) (s : bstr) : take n s = firstn n s.
Proof. revert s; induction n as [|n IH]; intros [|a s]; reflexivity. Qed.

Lemma last_byte_snoc (x : bstr) c : Lexer.last_byte (x ++ [c]) = Z.of_N c.
Proof.
  induction x as [|a x IH]; [reflexivity|]. cbn [app]. destruct (x ++ [c]) as [|d r] eqn:E.
  - destruct x; discriminate.
  - change (Lexer.last_byte (a :: d :: r)) with (Lexer.last_byte (d :: r)). exact IH.
Qed.

Lemma eol_byte c : gen_isEndOfLine (Z.of_N c) = line_break c.
Proof. unfold gen_isEndOfLine, line_break. lia. Qed.
Lemma spaceeol_byte c : gen_isSpaceEOL (Z.of_N c) = ws c.
Proof. unfold gen_isSpaceEOL, gen_isSpace, gen_isEndOfLine, ws. lia. Qed.

(* the test lexText makes before taking "//" as a comment: the character before is white space, or there is none *)
Definition pwof (r0 : Z) (l : lx) : bool :=
  let lce := if (r0 =? 0) && negb (match t_val (l_last l) with [] => true | _ => false end)
             then Lexer.last_byte (t_val (l_last l)) else r0 in
  (lce =? 0) || gen_isSpaceEOL lce.

(* the items a piece of text gives rise to: none when it is empty or only white space with a line break *)
Definition droppable (v : bstr) : bool := match v with [] => true | _ => all_space_with_newline v end.
Definition is_text_of (v : bstr) (txt : list tok) : Prop :=
  if droppable v then txt = [] else exists p, txt = [{| t_typ := itemText; t_pos := p; t_val := v |}].

(* [t] is what remains of [s] after some prefix (all that is used: predicates on every byte are inherited) *)
Definition suffix_of (t s : bstr) : Prop := forall P : N -> Prop, Forall P s -> Forall P t.
Lemma suffix_refl s : suffix_of s s. Proof. intros P H. exact H. Qed.
Lemma suffix_cons t c s : suffix_of t s -> suffix_of t (c :: s).
Proof. intros H P HP. inversion HP; subst. apply H. assumption. Qed.
Lemma suffix_app t bs s : suffix_of t s -> suffix_of t (bs ++ s).
Proof. intros H P HP. apply Forall_app in HP. apply H. tauto. Qed.
Lemma suffix_trans a c d : suffix_of a c -> suffix_of c d -> suffix_of a d.
Proof. intros H1 H2 P HP. apply H1, H2, HP. Qed.

Section BT.
Variable inp : bstr.
Notation ilen := (Z.of_nat (length inp)).
Notation span := (span inp).
Notation next := (next inp ilen).

(* reading one rune, whatever the next byte is *)
Lemma next_any l w c s : span l w (c :: s) ->
  exists r bs s' l', c :: s = bs ++ s' /\ (0 < length bs)%nat /\ next l = Ok (r, l') /\ span l' (w ++ bs) s' /\
    l_out l' = l_out l /\ l_last l' = l_last l /\ l_dd l' = l_dd l /\ l_start l' = l_start l /\
    l_width l' = Z.of_nat (length bs) /\ l_pos l' = l_pos l + Z.of_nat (length bs) /\
    (((c < 128)%N /\ bs = [c] /\ r = Z.of_N c) \/ ((128 <= c)%N /\ Forall (fun x => (128 <= x)%N) bs /\ 128 <= r)).
Proof.
  intros Hs. destruct (N.ltb_spec c 128) as [Hlt|Hge].
  { destruct (next_ascii inp l w c s Hs Hlt) as (Hn & Hs'). exists (Z.of_N c), [c], s, (adv l).
    split; [reflexivity|]. split; [cbn; lia|]. split; [exact Hn|]. split; [exact Hs'|]. unfold adv. cbn [l_out l_last l_dd l_start l_width l_pos length].
    repeat split. left. auto. }
  pose proof (span_cur _ _ _ _ Hs) as (Hp & Hd). pose proof (span_bounds _ _ _ _ Hs) as (Hb & Hl).
  destruct (decode_rune (c :: s)) as [ru wd] eqn:E.
  destruct (decode_class c s ru wd E) as [(Hc & _)|(_ & Hru & Hwd & Hcont)]; [lia|].
  pose proof (decode_rune_width (c :: s) ltac:(discriminate)) as (Hw1 & _). rewrite E in Hw1. cbn [snd] in Hw1.
  set (bs := take wd (c :: s)). set (s' := drop wd (c :: s)).
  assert (Hbs : length bs = wd) by (apply take_length; lia).
  assert (Hsplit : c :: s = bs ++ s') by (symmetry; apply take_drop).
  eexists (Z.of_N ru), bs, s', _. split; [exact Hsplit|]. split; [lia|]. split.
  { unfold Lexer.next. destruct (ilen <=? l_pos l) eqn:E1; [cbn [length] in Hl; lia|]. destruct (l_pos l <? 0) eqn:E2; [lia|].
    rewrite Hd, E. reflexivity. }
  cbn [l_out l_last l_dd l_start l_width l_pos]. rewrite Hbs.
  split.
  { destruct Hs as (H0 & Hds & Hps). unfold LexTokens.span. cbn [l_start l_pos]. split; [exact H0|]. split.
    - rewrite Hds, <- app_assoc, <- Hsplit. reflexivity.
    - rewrite app_length, Hbs. lia. }
  repeat split. right. split; [exact Hge|]. split; [|lia].
  unfold bs. destruct wd as [|wd']; [lia|]. cbn [take]. constructor; [exact Hge|].
  rewrite take_firstn. cbn [pred] in Hcont. eapply Forall_impl; [|exact Hcont]. intros x Hx. apply cont_hi. exact Hx.
Qed.

Lemma span_eof_next l w : span l w [] ->
  next l = Ok (eof, ateof l) /\ span (backup (ateof l)) w [].
Proof.
  intros Hs. split; [apply (next_eof inp l w Hs)|].
  destruct Hs as (H0 & Hd & Hp). unfold LexTokens.span, backup, ateof, set_pos. cbn [l_pos l_start l_width]. repeat split; try assumption; lia.
Qed.

(* moving the cursor over bytes already known *)
Lemma span_fwd l w wb s : span l w (wb ++ s) -> span (set_pos l (l_pos l + Z.of_nat (length wb))) (w ++ wb) s.
Proof.
  intros (H0 & Hd & Hp). unfold LexTokens.span, set_pos. cbn [l_start l_pos]. split; [exact H0|]. split.
  - rewrite Hd, <- app_assoc. reflexivity.
  - rewrite app_length. lia.
Qed.
Lemma span_back l w wb s : span l (w ++ wb) s -> span (set_pos l (l_pos l - Z.of_nat (length wb))) w (wb ++ s).
Proof.
  intros (H0 & Hd & Hp). unfold LexTokens.span, set_pos. cbn [l_start l_pos]. split; [exact H0|]. split.
  - rewrite Hd, <- app_assoc. reflexivity.
  - rewrite app_length in Hp. lia.
Qed.

(* maybeEmitText(l, backup): the pending text [w] before the [bk] bytes just read *)
Lemma met_span l w wb s : span l (w ++ wb) s ->
  exists l' txt, maybe_emit_text inp ilen 0 l (Z.of_nat (length wb)) = Ok l' /\ span l' wb s /\
    is_text_of w txt /\ l_out l' = rev txt ++ l_out l /\ l_dd l' = l_dd l /\
    (w = [] -> l_start l' = l_start l /\ l_last l' = l_last l).
Proof.
  intros Hs. pose proof Hs as (H0 & Hd & Hp). rewrite app_length in Hp. unfold maybe_emit_text.
  destruct w as [|a w'].
  - destruct (l_start l <? l_pos l - Z.of_nat (length wb)) eqn:E; [exfalso; cbn [length] in Hp; lia|].
    exists l, []. split; [reflexivity|]. split; [exact Hs|]. split; [reflexivity|]. repeat split; reflexivity.
  - assert (Hwl : (1 <= length (a :: w'))%nat) by (cbn [length]; lia). set (w := a :: w') in *.
    destruct (l_start l <? l_pos l - Z.of_nat (length wb)) eqn:E; [|exfalso; lia].
    pose proof (span_back l w wb s Hs) as Hs1. set (l1 := set_pos l (l_pos l - Z.of_nat (length wb))) in *.
    rewrite (slice_span inp l1 w (wb ++ s) Hs1). cbn [bind].
    assert (Hdr : droppable w = all_space_with_newline w) by reflexivity.
    destruct (all_space_with_newline w) eqn:Ea; cbn [bind].
    + pose proof (span_ignore inp l1 w (wb ++ s) Hs1) as Hs2. pose proof (span_fwd _ _ _ _ Hs2) as Hs3.
      eexists _, []. split; [reflexivity|]. split; [exact Hs3|]. split; [unfold is_text_of; rewrite Hdr; reflexivity|].
      repeat split; discriminate.
    + destruct (emit_span inp 0 itemText l1 w (wb ++ s) Hs1) as (He & Hs2). rewrite He. cbn [bind].
      pose proof (span_fwd _ _ _ _ Hs2) as Hs3.
      eexists _, [mktok 0 itemText l1 w]. split; [reflexivity|]. split; [exact Hs3|].
      split; [unfold is_text_of; rewrite Hdr; eexists; reflexivity|]. repeat split; discriminate.
Qed.

(* ---------- lexLineComment ---------- *)
Lemma line_comment_run : forall n s, (length s <= n)%nat -> forall cw l fuel rest, span l cw s -> (length s < fuel)%nat ->
  pieces MLine false [] s = Some rest ->
  exists l' s'' v p, line_comment_loop inp ilen 0 fuel l = Ok (LText, l') /\ span l' [] s'' /\ ((length s'' <= length s)%nat /\ suffix_of s'' s) /\
    l_out l' = {| t_typ := itemComment; t_pos := p; t_val := v |} :: l_out l /\ l_dd l' = l_dd l /\
    pieces MText (pwof 0 l') [] s'' = Some rest.
Proof.
  induction n as [|n IH]; intros s Hn cw l fuel rest Hs Hf Hpc; (destruct fuel as [|f]; [lia|]); cbn [line_comment_loop].
  - destruct s; [|cbn in Hn; lia]. destruct (span_eof_next l cw Hs) as (Hnx & _). rewrite Hnx. cbn [bind].
    change (gen_isEndOfLine eof || (eof =? eof)) with true. cbv iota.
    assert (Hs1 : span (ateof l) cw []).
    { destruct Hs as (H0 & Hd & Hp). unfold LexTokens.span, ateof. cbn [l_start l_pos]. auto. }
    destruct (emit_span inp 0 itemComment (ateof l) cw [] Hs1) as (He & Hs2). unfold emit_to. rewrite He. cbn [bind].
    eexists _, [], cw, _. split; [reflexivity|]. split; [exact Hs2|]. split; [split; [lia|apply suffix_refl]|]. split; [reflexivity|]. split; [reflexivity|].
    cbn [pieces] in Hpc. exact Hpc.
  - destruct s as [|c s].
    { destruct (span_eof_next l cw Hs) as (Hnx & _). rewrite Hnx. cbn [bind].
      change (gen_isEndOfLine eof || (eof =? eof)) with true. cbv iota.
      assert (Hs1 : span (ateof l) cw []).
      { destruct Hs as (H0 & Hd & Hp). unfold LexTokens.span, ateof. cbn [l_start l_pos]. auto. }
      destruct (emit_span inp 0 itemComment (ateof l) cw [] Hs1) as (He & Hs2). unfold emit_to. rewrite He. cbn [bind].
      eexists _, [], cw, _. split; [reflexivity|]. split; [exact Hs2|]. split; [split; [lia|apply suffix_refl]|]. split; [reflexivity|]. split; [reflexivity|].
      cbn [pieces] in Hpc. exact Hpc. }
    destruct (next_any l cw c s Hs) as (r & bs & s' & l1 & Hsplit & Hbl & Hnx & Hs1 & Ho & Hla & Hdd & Hst & Hwd & Hps & Hcls).
    rewrite Hnx. cbn [bind].
    destruct Hcls as [(Hc & -> & ->)|(Hc & Hall & Hr)].
    + cbn [app] in Hsplit. injection Hsplit as <-. rewrite eol_byte.
      assert (Hne : (Z.of_N c =? eof) = false) by (unfold eof; lia). rewrite Hne, Bool.orb_false_r.
      cbn [pieces] in Hpc. destruct (line_break c) eqn:Elb.
      * destruct (emit_span inp 0 itemComment l1 (cw ++ [c]) s Hs1) as (He & Hs2). unfold emit_to. rewrite He. cbn [bind].
        eexists _, s, (cw ++ [c]), _. split; [reflexivity|]. split; [exact Hs2|]. split; [split; [cbn; lia|apply suffix_cons, suffix_refl]|].
        split; [cbn [emitted l_out]; rewrite Ho; reflexivity|]. split; [cbn [emitted l_dd]; exact Hdd|].
        unfold pwof, emitted. cbn [l_last mktok t_val]. destruct (cw ++ [c]) as [|q qs] eqn:Eq; [destruct cw; discriminate|].
        rewrite <- Eq. cbn [Z.eqb andb negb]. rewrite last_byte_snoc, spaceeol_byte.
        assert (Hw : ws c = true) by (unfold ws, line_break in *; lia). rewrite Hw, Bool.orb_true_r. exact Hpc.
      * destruct (IH s ltac:(cbn in Hn; lia) (cw ++ [c]) l1 f rest Hs1 ltac:(cbn in Hf; lia) Hpc)
          as (l' & s'' & v & p & Hrun & Hs'' & Hlen & Hout & Hdd' & Hpc').
        exists l', s'', v, p. split; [exact Hrun|]. split; [exact Hs''|]. split; [split; [cbn; lia|apply suffix_cons; tauto]|]. split; [rewrite Hout, Ho; reflexivity|].
        split; [congruence|exact Hpc'].
    + assert (Hne : (gen_isEndOfLine r || (r =? eof)) = false) by (unfold gen_isEndOfLine, eof; lia). rewrite Hne.
      assert (Hpc' : pieces MLine false [] s' = Some rest).
      { rewrite Hsplit in Hpc. clear - Hpc Hall. induction bs as [|x bs IHb]; [exact Hpc|].
        inversion Hall; subst. cbn [app pieces] in Hpc. assert (E : line_break x = false) by (unfold line_break; lia).
        rewrite E in Hpc. apply IHb; assumption. }
      assert (Hlen : (length (c :: s) = length bs + length s')%nat) by (rewrite Hsplit, app_length; reflexivity).
      destruct (IH s' ltac:(cbn in Hn, Hlen; lia) (cw ++ bs) l1 f rest Hs1 ltac:(cbn in Hf, Hlen; lia) Hpc')
        as (l' & s'' & v & p & Hrun & Hs'' & Hlen' & Hout & Hdd' & Hpc'').
      exists l', s'', v, p. split; [exact Hrun|]. split; [exact Hs''|]. split; [split; [cbn in *; lia|rewrite Hsplit; apply suffix_app; tauto]|]. split; [rewrite Hout, Ho; reflexivity|].
      split; [congruence|exact Hpc''].
Qed.

(* ---------- lexBlockComment ---------- *)
Lemma pieces_block_hi bs : Forall (fun x => (128 <= x)%N) bs -> bs <> [] -> forall star s rest,
  pieces (MBlock star) false [] (bs ++ s) = Some rest -> pieces (MBlock false) false [] s = Some rest.
Proof.
  induction bs as [|x bs IHb]; intros Hall Hne star s rest Hpc; [congruence|].
  inversion Hall; subst. cbn [app pieces] in Hpc.
  assert (E1 : (x =? 42)%N = false) by lia. assert (E2 : (x =? 47)%N = false) by lia. rewrite E1, E2 in Hpc. cbn [andb] in Hpc.
  destruct bs as [|y bs]; [exact Hpc|]. apply (IHb ltac:(assumption) ltac:(discriminate) false). exact Hpc.
Qed.

Lemma block_comment_run : forall n s, (length s <= n)%nat -> forall cw l fuel star rest, span l cw s -> (length s < fuel)%nat ->
  pieces (MBlock star) false [] s = Some rest ->
  exists l' s'' v p, block_comment_loop inp ilen 0 fuel star l = Ok (LText, l') /\ span l' [] s'' /\ ((length s'' <= length s)%nat /\ suffix_of s'' s) /\
    l_out l' = {| t_typ := itemComment; t_pos := p; t_val := v |} :: l_out l /\ l_dd l' = l_dd l /\
    pwof 0 l' = false /\ pieces MText false [] s'' = Some rest.
Proof.
  induction n as [|n IH]; intros s Hn cw l fuel star rest Hs Hf Hpc; (destruct fuel as [|f]; [lia|]); cbn [block_comment_loop].
  - destruct s; [|cbn in Hn; lia]. cbn [pieces] in Hpc. discriminate.
  - destruct s as [|c s]; [cbn [pieces] in Hpc; discriminate|].
    destruct (next_any l cw c s Hs) as (r & bs & s' & l1 & Hsplit & Hbl & Hnx & Hs1 & Ho & Hla & Hdd & Hst & Hwd & Hps & Hcls).
    rewrite Hnx. cbn [bind].
    destruct Hcls as [(Hc & -> & ->)|(Hc & Hall & Hr)].
    + cbn [app] in Hsplit. injection Hsplit as <-.
      assert (Hne : (Z.of_N c =? eof) = false) by (unfold eof; lia). rewrite Hne.
      cbn [pieces] in Hpc. destruct (N.eqb_spec c 42) as [->|H42].
      { change (Z.of_N 42 =? 42) with true. cbv iota.
        destruct (IH s ltac:(cbn in Hn; lia) (cw ++ [42%N]) l1 f true rest Hs1 ltac:(cbn in Hf; lia) Hpc)
          as (l' & s'' & v & p & Hrun & Hs'' & Hlen & Hout & Hdd' & Hpw & Hpc').
        exists l', s'', v, p. split; [exact Hrun|]. split; [exact Hs''|]. split; [split; [cbn; lia|apply suffix_cons; tauto]|]. split; [rewrite Hout, Ho; reflexivity|].
        split; [congruence|]. split; assumption. }
      assert (E42 : (Z.of_N c =? 42) = false) by lia. rewrite E42.
      destruct ((c =? 47)%N && star) eqn:Ecl.
      * assert (E47 : ((Z.of_N c =? 47) && star) = true) by lia. rewrite E47.
        apply Bool.andb_true_iff in Ecl. destruct Ecl as [Ec _]. apply N.eqb_eq in Ec. subst c.
        destruct (emit_span inp 0 itemComment l1 (cw ++ [47%N]) s Hs1) as (He & Hs2). unfold emit_to. rewrite He. cbn [bind].
        eexists _, s, (cw ++ [47%N]), _. split; [reflexivity|]. split; [exact Hs2|]. split; [split; [cbn; lia|apply suffix_cons, suffix_refl]|].
        split; [cbn [emitted l_out]; rewrite Ho; reflexivity|]. split; [cbn [emitted l_dd]; exact Hdd|]. split; [|exact Hpc].
        unfold pwof, emitted. cbn [l_last mktok t_val]. destruct (cw ++ [47%N]) as [|q qs] eqn:Eq; [destruct cw; discriminate|].
        rewrite <- Eq. cbn [Z.eqb andb negb]. rewrite last_byte_snoc. reflexivity.
      * assert (E47 : ((Z.of_N c =? 47) && star) = false) by lia. rewrite E47.
        destruct (IH s ltac:(cbn in Hn; lia) (cw ++ [c]) l1 f false rest Hs1 ltac:(cbn in Hf; lia) Hpc)
          as (l' & s'' & v & p & Hrun & Hs'' & Hlen & Hout & Hdd' & Hpw & Hpc').
        exists l', s'', v, p. split; [exact Hrun|]. split; [exact Hs''|]. split; [split; [cbn; lia|apply suffix_cons; tauto]|]. split; [rewrite Hout, Ho; reflexivity|].
        split; [congruence|]. split; assumption.
    + assert (E1 : (r =? eof) = false) by (unfold eof; lia). assert (E2 : (r =? 42) = false) by lia.
      assert (E3 : ((r =? 47) && star) = false) by lia. rewrite E1, E2, E3.
      assert (Hpc' : pieces (MBlock false) false [] s' = Some rest).
      { rewrite Hsplit in Hpc. apply (pieces_block_hi bs Hall ltac:(destruct bs; [cbn in Hbl; lia|discriminate]) star s' rest Hpc). }
      assert (Hlen : (length (c :: s) = length bs + length s')%nat) by (rewrite Hsplit, app_length; reflexivity).
      destruct (IH s' ltac:(cbn in Hn, Hlen; lia) (cw ++ bs) l1 f false rest Hs1 ltac:(cbn in Hf, Hlen; lia) Hpc')
        as (l' & s'' & v & p & Hrun & Hs'' & Hlen' & Hout & Hdd' & Hpw & Hpc'').
      exists l', s'', v, p. split; [exact Hrun|]. split; [exact Hs''|]. split; [split; [cbn in *; lia|rewrite Hsplit; apply suffix_app; tauto]|]. split; [rewrite Hout, Ho; reflexivity|].
      split; [congruence|]. split; assumption.
Qed.

(* ---------- lexText ---------- *)
(* bytes of ordinary template text: no NUL (outside the property's alphabet), no brace *)
Definition plain (s : bstr) : Prop := Forall (fun c => c <> 0%N /\ c <> 123%N /\ c <> 125%N) s.

(* what lexText does after reading a '/' *)
Definition slash_inner (r0 : Z) (l1 : lx) : outcome (lstate * lx + lx) :=
  '(r2, l2) <- next l1 ;;
  if r2 =? 47 then
    if pwof r0 l2 then
      l3 <- maybe_emit_text inp ilen 0 l2 3 ;;
      let l4 := if negb (r0 =? 0) then set_start l3 (l_start l3 + 1) else l3 in
      Ok (inl (LLineComment, l4))
    else Ok (inr (backup l2))
  else if r2 =? 42 then
    l3 <- maybe_emit_text inp ilen 0 l2 2 ;;
    '(r3, l4) <- next l3 ;;
    '(doc, l5) <- (if r3 =? 42 then '(r4, l') <- peek inp ilen l4 ;; Ok (negb (r4 =? 47), l') else Ok (false, l4)) ;;
    if doc then Ok (inl (LSoyDoc, l5)) else Ok (inl (LBlockComment, backup l5))
  else Ok (inr (backup l2)).

Lemma lex_text_loop_S f r0 l : lex_text_loop inp ilen 0 (S f) r0 l =
  '(r, l1) <- next l ;;
  res <- (if r =? 47 then slash_inner r0 l1 else Ok (inr l1)) ;;
  match res with
  | inl sl => Ok sl
  | inr l2 =>
      if r =? 123 then l3 <- maybe_emit_text inp ilen 0 (backup l2) 0 ;; Ok (LLeftDelim, l3)
      else if r =? 125 then errorf 0 e_close_brace l2
      else if r =? eof then
        l3 <- maybe_emit_text inp ilen 0 (backup l2) 0 ;;
        l4 <- emit inp ilen 0 itemEOF l3 ;;
        Ok (LDone, l4)
      else lex_text_loop inp ilen 0 f r l2
  end.
Proof. reflexivity. Qed.

Lemma span_backup_any l' w bs s' : span l' (w ++ bs) s' -> l_width l' = Z.of_nat (length bs) -> span (backup l') w (bs ++ s').
Proof. intros Hs Hw. unfold backup. rewrite Hw. apply span_back. exact Hs. Qed.

Lemma span_skip1 l c wb s : span l (c :: wb) s -> span (set_start l (l_start l + 1)) wb s.
Proof.
  intros Hs. pose proof (span_bounds _ _ _ _ Hs) as (Hb & Hl). destruct Hs as (H0 & Hd & Hp). cbn [length] in Hp.
  unfold LexTokens.span, set_start. cbn [l_start l_pos]. split; [lia|]. split; [|lia].
  replace (Z.to_nat (l_start l + 1)) with (S (Z.to_nat (l_start l))) by lia.
  apply drop_S_cons with (c := c). exact Hd.
Qed.

Lemma pwof_last r0 l l' : l_last l' = l_last l -> pwof r0 l' = pwof r0 l.
Proof. intros H. unfold pwof. rewrite H. reflexivity. Qed.

Lemma pwof_nz r0 l : r0 <> 0 -> pwof r0 l = gen_isSpaceEOL r0.
Proof. intros H. unfold pwof. assert (E : (r0 =? 0) = false) by lia. rewrite E. cbn [andb]. rewrite E. reflexivity. Qed.

Lemma pieces_text_hi bs : Forall (fun x => (128 <= x)%N) bs -> bs <> [] -> forall pw cur s,
  pieces MText pw cur (bs ++ s) = pieces MText false (rev bs ++ cur) s.
Proof.
  induction bs as [|x bs IHb]; intros Hall Hne pw cur s; [congruence|].
  inversion Hall; subst. cbn [app pieces].
  assert (E1 : (x =? 47)%N = false) by lia. rewrite E1.
  assert (E2 : ws x = false) by (unfold ws; lia). rewrite E2.
  destruct bs as [|y bs]; [reflexivity|]. rewrite (IHb ltac:(assumption) ltac:(discriminate)). cbn [rev]. rewrite <- !app_assoc. reflexivity.
Qed.

Lemma pieces_slash pw cur d s2 : pieces MText pw cur (47%N :: d :: s2) =
  if (d =? 42)%N then
    match s2 with
    | e :: r3 => if (e =? 42)%N && negb (match r3 with f :: _ => (f =? 47)%N | [] => false end) then None
                 else cons_opt (rev cur) (pieces (MBlock false) false [] s2)
    | [] => None
    end
  else if (d =? 47)%N && pw then cons_opt (rev cur) (pieces MLine false [] s2)
  else pieces MText false (47%N :: cur) (d :: s2).
Proof. reflexivity. Qed.

(* the result of one scan of lexText, in the Spec's terms: [pcs] are the pieces of the text from here on *)
Definition text_result (l : lx) (s : bstr) (pcs : list bstr) (st' : lstate) (l' : lx) : Prop :=
  exists x rest txt, pcs = x :: rest /\ l_dd l' = l_dd l /\
   ((rest = [] /\ st' = LDone /\ is_text_of x txt /\ exists e, t_typ e = itemEOF /\ l_out l' = e :: rev txt ++ l_out l)
    \/ (exists x' s2, st' = LLineComment /\ is_text_of x' txt /\ l_out l' = rev txt ++ l_out l /\
          (x = x' \/ exists b, ws b = true /\ x = x' ++ [b]) /\ span l' [47%N; 47%N] s2 /\ ((length s2 < length s)%nat /\ suffix_of s2 s) /\
          pieces MLine false [] s2 = Some rest)
    \/ (exists s2, st' = LBlockComment /\ is_text_of x txt /\ l_out l' = rev txt ++ l_out l /\
          span l' [47%N; 42%N] s2 /\ ((length s2 < length s)%nat /\ suffix_of s2 s) /\ pieces (MBlock false) false [] s2 = Some rest)).

(* after a '/': either it is ordinary text (the scan goes on), or a comment starts *)
Lemma slash_step l l1 w s1 r0 pcs :
  span l1 (w ++ [47%N]) s1 -> l_out l1 = l_out l -> l_last l1 = l_last l -> l_dd l1 = l_dd l ->
  (r0 = 0 -> w = []) -> (r0 <> 0 -> exists w' b, w = w' ++ [b] /\ (gen_isSpaceEOL r0 = true -> ws b = true)) ->
  pieces MText (pwof r0 l) (rev w) (47%N :: s1) = Some pcs ->
  (exists lb, slash_inner r0 l1 = Ok (inr lb) /\ span lb (w ++ [47%N]) s1 /\ l_out lb = l_out l /\ l_last lb = l_last l /\ l_dd lb = l_dd l /\
              pieces MText false (47%N :: rev w) s1 = Some pcs)
  \/ (exists st' l', slash_inner r0 l1 = Ok (inl (st', l')) /\ text_result l (47%N :: s1) pcs st' l').
Proof.
  intros Hs1 Ho1 Hla1 Hdd1 Hr0 Hr1 Hpc. unfold slash_inner.
  destruct s1 as [|d s2].
  { (* '/' at the end of the input *)
    destruct (span_eof_next l1 _ Hs1) as (Hnx & Hsb). rewrite Hnx. cbn [bind].
    change (eof =? 47) with false. change (eof =? 42) with false. cbv iota.
    left. exists (backup (ateof l1)). split; [reflexivity|]. split; [exact Hsb|].
    unfold backup, ateof, set_pos. cbn [l_out l_last l_dd]. repeat split; assumption. }
  destruct (next_any l1 _ d s2 Hs1) as (r2 & bs2 & s2' & l2 & Hsplit & Hbl & Hnx & Hs2 & Ho2 & Hla2 & Hdd2 & Hst2 & Hwd2 & Hps2 & Hcls).
  rewrite Hnx. cbn [bind].
  assert (Hcont : (d =? 47)%N = false \/ pwof r0 l = false -> (d =? 42)%N = false ->
                  pieces MText false (47%N :: rev w) (d :: s2) = Some pcs).
  { intros H47 H42. rewrite pieces_slash, H42 in Hpc.
    destruct H47 as [H47|H47]; [rewrite H47 in Hpc|rewrite H47, Bool.andb_false_r in Hpc]; exact Hpc. }
  assert (Hback : span (backup l2) (w ++ [47%N]) (d :: s2)).
  { rewrite Hsplit. apply span_backup_any; assumption. }
  assert (Hfld : l_out (backup l2) = l_out l /\ l_last (backup l2) = l_last l /\ l_dd (backup l2) = l_dd l).
  { unfold backup, set_pos. cbn [l_out l_last l_dd]. repeat split; congruence. }
  destruct Hcls as [(Hd & -> & ->)|(Hd & Hall & Hr2)].
  2:{ (* a non-ASCII rune after '/': text *)
    assert (E1 : (r2 =? 47) = false) by lia. assert (E2 : (r2 =? 42) = false) by lia. rewrite E1, E2.
    left. exists (backup l2). split; [reflexivity|]. split; [exact Hback|]. destruct Hfld as (A & B & C). repeat split; try assumption;
    try (apply Hcont; [left|]; lia). }
  cbn [app] in Hsplit. injection Hsplit as <-.
  destruct (N.eqb_spec d 47) as [->|H47].
  { (* "//" *)
    change (Z.of_N 47 =? 47) with true. cbv iota.
    rewrite (pwof_last r0 l l2) by congruence.
    destruct (pwof r0 l) eqn:Epw.
    2:{ left. exists (backup l2). split; [reflexivity|]. split; [exact Hback|]. destruct Hfld as (A & B & C). repeat split; try assumption;
        try (apply Hcont; [right; reflexivity|reflexivity]). }
    right. rewrite pieces_slash in Hpc. change (47 =? 47)%N with true in Hpc. change (47 =? 42)%N with false in Hpc. cbv iota in Hpc.
    try rewrite Epw in Hpc. cbn [andb] in Hpc. rewrite rev_involutive in Hpc.
    destruct (pieces MLine false [] s2) as [rest|] eqn:Erest; [|discriminate]. cbn [cons_opt] in Hpc. injection Hpc as <-.
    destruct (Z.eq_dec r0 0) as [Hz|Hnz].
    - (* at the very start of this lexText: nothing pending *)
      specialize (Hr0 Hz). subst w r0. cbn [app] in *.
      assert (Hm : maybe_emit_text inp ilen 0 l2 3 = Ok l2).
      { unfold maybe_emit_text. destruct Hs2 as (_ & _ & Hp). cbn [length] in Hp.
        destruct (l_start l2 <? l_pos l2 - 3) eqn:E; [exfalso; lia|reflexivity]. }
      rewrite Hm. cbn [bind]. change (negb (0 =? 0)) with false. cbv iota.
      eexists _, _. split; [reflexivity|]. exists [], rest, []. split; [reflexivity|]. split; [congruence|].
      right. left. exists [], s2. split; [reflexivity|]. split; [reflexivity|]. split; [cbn [rev app]; congruence|].
      split; [left; reflexivity|]. split; [exact Hs2|]. split; [split; [cbn; lia|do 2 apply suffix_cons; apply suffix_refl]|exact Erest].
    - destruct (Hr1 Hnz) as (w' & b & -> & Hb).
      assert (Hwsb : ws b = true) by (apply Hb; rewrite (pwof_nz r0 l Hnz) in Epw; exact Epw).
      assert (Hs2' : span l2 (w' ++ [b; 47%N; 47%N]) s2) by (rewrite <- !app_assoc in Hs2; exact Hs2).
      destruct (met_span l2 w' [b; 47%N; 47%N] s2 Hs2') as (l3 & txt & Hm & Hs3 & Htx & Ho3 & Hdd3 & _).
      change (Z.of_nat (length [b; 47%N; 47%N])) with 3 in Hm. rewrite Hm. cbn [bind].
      assert (En : negb (r0 =? 0) = true) by lia. rewrite En. cbv iota.
      eexists _, _. split; [reflexivity|]. exists (w' ++ [b]), rest, txt. split; [reflexivity|].
      split; [unfold set_start; cbn [l_dd]; congruence|].
      right. left. exists w', s2. split; [reflexivity|]. split; [exact Htx|].
      split; [unfold set_start; cbn [l_out]; rewrite Ho3; congruence|].
      split; [right; exists b; auto|]. split; [apply (span_skip1 l3 b _ s2 Hs3)|]. split; [split; [cbn; lia|do 2 apply suffix_cons; apply suffix_refl]|exact Erest]. }
  assert (E47 : (Z.of_N d =? 47) = false) by lia. rewrite E47.
  destruct (N.eqb_spec d 42) as [->|H42].
  2:{ assert (E42 : (Z.of_N d =? 42) = false) by lia. rewrite E42.
      left. exists (backup l2). split; [reflexivity|]. split; [exact Hback|]. destruct Hfld as (A & B & C). repeat split; try assumption;
      try (apply Hcont; [left|]; lia). }
  (* "/*" *)
  change (Z.of_N 42 =? 42) with true. cbv iota. right.
  rewrite pieces_slash in Hpc. change (42 =? 42)%N with true in Hpc. cbv iota in Hpc.
  destruct s2 as [|e s3]; [discriminate|].
  destruct ((e =? 42)%N && negb (match s3 with f :: _ => (f =? 47)%N | [] => false end)) eqn:Edoc; [discriminate|].
  rewrite rev_involutive in Hpc.
  destruct (pieces (MBlock false) false [] (e :: s3)) as [rest|] eqn:Erest; [|discriminate]. cbn [cons_opt] in Hpc. injection Hpc as <-.
  assert (Hs2' : span l2 (w ++ [47%N; 42%N]) (e :: s3)) by (rewrite <- app_assoc in Hs2; exact Hs2).
  destruct (met_span l2 w [47%N; 42%N] (e :: s3) Hs2') as (l3 & txt & Hm & Hs3 & Htx & Ho3 & Hdd3 & _).
  change (Z.of_nat (length [47%N; 42%N])) with 2 in Hm. rewrite Hm. cbn [bind].
  destruct (next_any l3 _ e s3 Hs3) as (r3 & bs3 & s3' & l4 & Hsplit3 & Hbl3 & Hnx3 & Hs4 & Ho4 & Hla4 & Hdd4 & Hst4 & Hwd4 & Hps4 & Hcls3).
  rewrite Hnx3. cbn [bind].
  assert (Hback4 : span (backup l4) [47%N; 42%N] (e :: s3)) by (rewrite Hsplit3; apply span_backup_any; assumption).
  assert (Hfin : forall l5, span l5 [47%N; 42%N] (e :: s3) -> l_out l5 = l_out l3 -> l_dd l5 = l_dd l3 ->
                 text_result l (47%N :: 42%N :: e :: s3) (w :: rest) LBlockComment l5).
  { intros l5 Hs5 Ho5 Hdd5. exists w, rest, txt. split; [reflexivity|]. split; [congruence|]. right. right.
    exists (e :: s3). split; [reflexivity|]. split; [exact Htx|]. split; [rewrite Ho5, Ho3; congruence|].
    split; [exact Hs5|]. split; [split; [cbn; lia|do 2 apply suffix_cons; apply suffix_refl]|exact Erest]. }
  destruct (r3 =? 42) eqn:E3.
  2:{ cbn [bind]. eexists _, _. split; [reflexivity|]. apply Hfin; [exact Hback4| |]; unfold backup, set_pos; cbn [l_out l_dd]; congruence. }
  (* "/**": only "/**/" is a comment *)
  destruct Hcls3 as [(He & -> & ->)|(He & _ & Hr3)]; [|lia].
  cbn [app] in Hsplit3. injection Hsplit3 as <-. assert (e = 42%N) by lia. subst e.
  cbn [andb] in Edoc. destruct s3 as [|f s4]; [discriminate|]. destruct (N.eqb_spec f 47) as [->|Hf]; [|discriminate].
  destruct (next_ascii inp l4 _ 47%N s4 Hs4 ltac:(lia)) as (Hnx5 & Hs5). unfold peek. rewrite Hnx5. cbn [bind].
  change (negb (Z.of_N 47 =? 47)) with false. cbv iota.
  eexists _, _. split; [reflexivity|]. apply Hfin.
  - destruct Hs4 as (H0 & Hd4 & Hp4). unfold LexTokens.span, backup, adv, set_pos. cbn [l_start l_pos l_width].
    split; [exact H0|]. split; [rewrite Hd4; reflexivity|]. rewrite app_length in Hp4. cbn [length] in *. lia.
  - unfold backup, adv, set_pos. cbn [l_out]. exact Ho4.
  - unfold backup, adv, set_pos. cbn [l_dd]. exact Hdd4.
Qed.

Lemma text_result_weaken l1 l s1 s pcs st' l' :
  l_out l1 = l_out l -> l_dd l1 = l_dd l -> (length s1 <= length s)%nat -> suffix_of s1 s ->
  text_result l1 s1 pcs st' l' -> text_result l s pcs st' l'.
Proof.
  intros Ho Hd Hl Hsf (x & rest & txt & Hp & Hdd & H). exists x, rest, txt. split; [exact Hp|]. split; [congruence|].
  destruct H as [(A & B & C & e & D & E)|[(x' & s2 & A & B & C & D & E & (F1 & F2) & G)|(s2 & A & B & C & D & (F1 & F2) & G)]].
  - left. split; [exact A|]. split; [exact B|]. split; [exact C|]. exists e. split; [exact D|]. rewrite E, Ho. reflexivity.
  - right. left. exists x', s2. split; [exact A|]. split; [exact B|]. split; [rewrite C, Ho; reflexivity|]. split; [exact D|].
    split; [exact E|]. split; [split; [lia|eapply suffix_trans; eassumption]|exact G].
  - right. right. exists s2. split; [exact A|]. split; [exact B|]. split; [rewrite C, Ho; reflexivity|].
    split; [exact D|]. split; [split; [lia|eapply suffix_trans; eassumption]|exact G].
Qed.

(* end of input inside lexText *)
Lemma text_eof l w r0 f : span l w [] ->
  exists l', lex_text_loop inp ilen 0 (S f) r0 l = Ok (LDone, l') /\ text_result l [] [w] LDone l'.
Proof.
  intros Hs. rewrite lex_text_loop_S. destruct (span_eof_next l w Hs) as (Hnx & Hsb). rewrite Hnx. cbn [bind].
  change (eof =? 47) with false. cbv iota. cbn [bind]. change (eof =? 123) with false. change (eof =? 125) with false.
  change (eof =? eof) with true. cbv iota.
  assert (Hsb' : span (backup (ateof l)) (w ++ []) []) by (rewrite app_nil_r; exact Hsb).
  destruct (met_span (backup (ateof l)) w [] [] Hsb') as (l3 & txt & Hm & Hs3 & Htx & Ho3 & Hdd3 & _).
  change (Z.of_nat (length (@nil N))) with 0 in Hm. rewrite Hm. cbn [bind].
  destruct (emit_span inp 0 itemEOF l3 [] [] Hs3) as (He & Hs4). rewrite He. cbn [bind].
  eexists. split; [reflexivity|]. exists w, [], txt. split; [reflexivity|].
  split; [cbn [emitted l_dd]; rewrite Hdd3; reflexivity|]. left. split; [reflexivity|]. split; [reflexivity|]. split; [exact Htx|].
  eexists. split; [|cbn [emitted l_out]; rewrite Ho3; reflexivity]. reflexivity.
Qed.

Lemma text_loop_run : forall n s, (length s <= n)%nat -> forall w l r0 fuel pcs,
  span l w s -> (length s < fuel)%nat -> plain s ->
  (r0 = 0 -> w = []) -> (r0 <> 0 -> exists w' b, w = w' ++ [b] /\ (gen_isSpaceEOL r0 = true -> ws b = true)) ->
  pieces MText (pwof r0 l) (rev w) s = Some pcs ->
  exists st' l', lex_text_loop inp ilen 0 fuel r0 l = Ok (st', l') /\ text_result l s pcs st' l'.
Proof.
  induction n as [|n IH]; intros s Hn w l r0 fuel pcs Hs Hf Hpl Hr0 Hr1 Hpc; (destruct fuel as [|f]; [lia|]).
  - destruct s; [|cbn in Hn; lia]. cbn [pieces] in Hpc. rewrite rev_involutive in Hpc. injection Hpc as <-.
    destruct (text_eof l w r0 f Hs) as (l' & H1 & H2). eauto.
  - destruct s as [|c s1].
    { cbn [pieces] in Hpc. rewrite rev_involutive in Hpc. injection Hpc as <-.
      destruct (text_eof l w r0 f Hs) as (l' & H1 & H2). eauto. }
    inversion Hpl as [|c' s' (Hc0 & Hc1 & Hc2) Hpl1]; subst.
    rewrite lex_text_loop_S.
    destruct (next_any l w c s1 Hs) as (r & bs & s' & l1 & Hsplit & Hbl & Hnx & Hs1 & Ho & Hla & Hdd & Hst & Hwd & Hps & Hcls).
    rewrite Hnx. cbn [bind].
    destruct Hcls as [(Hc & -> & ->)|(Hc & Hall & Hr)].
    + cbn [app] in Hsplit. injection Hsplit as <-.
      destruct (N.eqb_spec c 47) as [->|H47].
      * change (Z.of_N 47 =? 47) with true. cbv iota.
        destruct (slash_step l l1 w s1 r0 pcs Hs1 Ho Hla Hdd Hr0 Hr1 Hpc) as [(lb & Hin & Hsb & Hob & Hlab & Hddb & Hpcb)|(st' & l' & Hin & Hres)].
        -- rewrite Hin. cbn [bind]. change (Z.of_N 47 =? 123) with false. change (Z.of_N 47 =? 125) with false.
           change (Z.of_N 47 =? eof) with false. cbv iota.
           destruct (IH s1 ltac:(cbn in Hn; lia) (w ++ [47%N]) lb (Z.of_N 47) f pcs Hsb ltac:(cbn in Hf; lia) Hpl1)
             as (st' & l' & Hrun & Hres).
           { intros E. discriminate E. }
           { intros _. exists w, 47%N. split; [reflexivity|]. intros E. discriminate E. }
           { rewrite (pwof_nz _ lb) by discriminate. rewrite rev_unit. exact Hpcb. }
           exists st', l'. split; [exact Hrun|].
           apply (text_result_weaken lb l s1 (47%N :: s1)); [exact Hob|exact Hddb|cbn; lia|apply suffix_cons, suffix_refl|exact Hres].
        -- rewrite Hin. cbn [bind]. exists st', l'. split; [reflexivity|exact Hres].
      * assert (E47 : (Z.of_N c =? 47) = false) by lia. rewrite E47. cbn [bind].
        assert (E1 : (Z.of_N c =? 123) = false) by lia. assert (E2 : (Z.of_N c =? 125) = false) by lia.
        assert (E3 : (Z.of_N c =? eof) = false) by (unfold eof; lia). rewrite E1, E2, E3.
        destruct (IH s1 ltac:(cbn in Hn; lia) (w ++ [c]) l1 (Z.of_N c) f pcs Hs1 ltac:(cbn in Hf; lia) Hpl1)
          as (st' & l' & Hrun & Hres).
        { intros E. lia. }
        { intros _. exists w, c. split; [reflexivity|]. rewrite spaceeol_byte. auto. }
        { rewrite (pwof_nz _ l1) by lia. rewrite spaceeol_byte, rev_unit.
          cbn [pieces] in Hpc. assert (E : (c =? 47)%N = false) by lia. rewrite E in Hpc. exact Hpc. }
        exists st', l'. split; [exact Hrun|].
        apply (text_result_weaken l1 l s1 (c :: s1)); [exact Ho|exact Hdd|cbn; lia|apply suffix_cons, suffix_refl|exact Hres].
    + assert (E47 : (r =? 47) = false) by lia. rewrite E47. cbn [bind].
      assert (E1 : (r =? 123) = false) by lia. assert (E2 : (r =? 125) = false) by lia.
      assert (E3 : (r =? eof) = false) by (unfold eof; lia). rewrite E1, E2, E3.
      assert (Hne : bs <> []) by (destruct bs; [cbn in Hbl; lia|discriminate]).
      assert (Hlen : (length (c :: s1) = length bs + length s')%nat) by (rewrite Hsplit, app_length; reflexivity).
      assert (Hpl' : plain s') by (unfold plain in *; rewrite Hsplit in Hpl; apply Forall_app in Hpl; tauto).
      destruct (IH s' ltac:(cbn in Hn, Hlen; lia) (w ++ bs) l1 r f pcs Hs1 ltac:(cbn in Hf, Hlen; lia) Hpl')
        as (st' & l' & Hrun & Hres).
      { intros E. lia. }
      { intros _. destruct (exists_last Hne) as (bs' & b & ->). exists (w ++ bs'), b. split; [rewrite app_assoc; reflexivity|].
        intros E. unfold gen_isSpaceEOL, gen_isSpace, gen_isEndOfLine in E. lia. }
      { rewrite (pwof_nz _ l1) by lia. assert (E : gen_isSpaceEOL r = false) by (unfold gen_isSpaceEOL, gen_isSpace, gen_isEndOfLine; lia).
        rewrite E, rev_app_distr. rewrite Hsplit, (pieces_text_hi bs Hall Hne) in Hpc. exact Hpc. }
      exists st', l'. split; [exact Hrun|].
      apply (text_result_weaken l1 l s' (c :: s1)); [exact Ho|exact Hdd|lia|rewrite Hsplit; apply suffix_app, suffix_refl|exact Hres].
Qed.

End BT.
