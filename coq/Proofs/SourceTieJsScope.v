(* Source tie, family 78-gotrans-soyjs-scope (soyjs/scope.go): the naming functions of the JavaScript generator
   as Model/JsGen.v has them (the jsc_ functions), against the methods as gotrans translates them from today's source, with the
   receiver's fields (stack, n) as explicit state.

   Go's stack grows at the end of the slice, the model's at the head of the list: the model's scope is the Go stack
   reversed.  Go's int arithmetic wraps at 2^63; every lemma that goes through `len(s.stack)-1` or `s.n++` carries the
   corresponding bound (a stack or a counter below 2^62), which is what keeps the translation's go_wrap_s the
   identity. *)
From Coq Require Import ZArith NArith Bool Lia ZifyBool ZifyN List.
From Soy Require Import Model.Bytes Model.Outcome Generated.Tables Model.JsGen Proofs.SourceTieBase.
From Soy Require Import Proofs.SourceTieState.
Import ListNotations.
Open Scope N_scope.

Lemma go_map_set_s_aset {A} (k : bstr) (v : A) (m : list (bstr * A)) : go_map_set_s k v m = aset m k v.
Proof.
  induction m as [|[k' v'] r IH]; cbn [go_map_set_s aset]; [reflexivity|]. rewrite IH. reflexivity.
Qed.

(* ---- push / pop ---- *)
Theorem jsc_push_matches_source (st : jstate) :
  jsc_push st = Ok (tt, set_scope (rev (src_soyjs_scope_push (rev (j_scope st)))) (j_n st) st).
Proof.
  unfold jsc_push, jmod, src_soyjs_scope_push. cbv zeta. rewrite rev_app_distr, rev_involutive. reflexivity.
Qed.

(* pop of an empty stack panics in Go (s.stack[:-1]); the model's [tl] would answer the empty stack, so the lemma
   is about the states the generator is in when it pops: after a push *)
Theorem jsc_pop_matches_source (st : jstate) (f : list (bstr * bstr)) (r : list (list (bstr * bstr))) :
  j_scope st = f :: r -> st_small (go_len (f :: r)) ->
  match src_soyjs_scope_pop (rev (j_scope st)) with
  | Some s' => jsc_pop st = Ok (tt, set_scope (rev s') (j_n st) st)
  | None => False
  end.
Proof.
  intros E Hs. unfold src_soyjs_scope_pop. rewrite E. rewrite st_go_len_rev.
  rewrite st_wrap64 by (unfold st_small in Hs; lia).
  rewrite go_slice_l_pop. cbn [go_bind]. rewrite rev_involutive.
  unfold jsc_pop, jmod. rewrite E. reflexivity.
Qed.

Theorem pop_empty_panics_in_source : src_soyjs_scope_pop [] = None.
Proof. reflexivity. Qed.

(* ---- genname / bind / makevar ---- *)
Theorem jsc_genname_matches_source (v : bstr) (st : jstate) :
  st_small (Z.of_N (j_n st)) ->
  let '(n', g) := src_soyjs_scope_genname (Z.of_N (j_n st)) v in
  jsc_genname v st = Ok (g, set_scope (j_scope st) (Z.to_N n') st) /\ n' = Z.of_N (j_n st + 1).
Proof.
  intros Hs. unfold src_soyjs_scope_genname. repeat progress autounfold with src_helpers. cbv beta iota zeta.
  rewrite st_wrap64 by (unfold st_small in Hs; lia).
  replace (Z.of_N (j_n st) + 1)%Z with (Z.of_N (j_n st + 1)) by lia.
  rewrite st_dec_of_Z_of_N, N2Z.id. split; [|reflexivity].
  unfold jsc_genname, jbind, jget, jmod, jret, t_us. cbn. rewrite <- ?app_assoc. reflexivity.
Qed.

Theorem jsc_bind_matches_source (v g : bstr) (st : jstate) :
  st_small (go_len (j_scope st)) ->
  match src_soyjs_scope_bind (rev (j_scope st)) v g with
  | Some s' => jsc_bind v g st = Ok (tt, set_scope (rev s') (j_n st) st)
  | None => jsc_bind v g st = Crash je_args          (* s.stack[len(s.stack)-1] on an empty stack *)
  end.
Proof.
  intros Hs. unfold src_soyjs_scope_bind. rewrite st_go_len_rev.
  rewrite st_wrap64 by (unfold st_small in Hs; lia).
  unfold jsc_bind, jbind, jget. destruct (j_scope st) as [|f r] eqn:E.
  - reflexivity.
  - rewrite go_index_top. cbn [go_bind].
    rewrite go_set_nth_top. cbn [go_bind]. rewrite rev_involutive, go_map_set_s_aset. reflexivity.
Qed.

(* ---- lookup ---- *)
Fixpoint st_jsc_find (s : list (list (bstr * bstr))) (v : bstr) : option bstr :=
  match s with
  | [] => None
  | f :: r => match assoc_s v f with Some g => Some g | None => st_jsc_find r v end
  end.

Lemma st_jsc_lookup_find s v : jsc_lookup s v = match st_jsc_find s v with Some g => g | None => [] end.
Proof. induction s as [|f r IH]; cbn [jsc_lookup st_jsc_find]; [reflexivity|]. destruct (assoc_s v f); [reflexivity|exact IH]. Qed.

(* scope.lookup walks s.stack from its end; gotrans (gotrans_norm.go: revRange) translates every spelling of such a walk
   (`for i := range xs {.. xs[len(xs)-i-1] ..}`, `for i := len(xs)-1; i >= 0; i--`, `for d := len(xs); d > 0; d--
   {.. xs[d-1] ..}`) as ONE list loop over `rev xs`, so the lemma is an induction on the model's stack. *)
Lemma lookup_loop_matches (s : list (list (bstr * bstr))) (v : bstr) :
  src_soyjs_scope_lookup_loop1 s v =
  Some (match st_jsc_find s v with Some g => go_ret g | None => go_exit tt end).
Proof.
  induction s as [|f r IH]; [reflexivity|].
  cbn [src_soyjs_scope_lookup_loop1 st_jsc_find]. cbv zeta. try unfold go_has_s. try unfold go_lookup_s.
  destruct (assoc_s v f) as [g|]; [reflexivity|exact IH].
Qed.

Theorem jsc_lookup_matches_source (s : list (list (bstr * bstr))) (v : bstr) :
  st_small (go_len s) -> src_soyjs_scope_lookup (rev s) v = Some (jsc_lookup s v).
Proof.
  intros _. unfold src_soyjs_scope_lookup. cbv zeta. rewrite rev_involutive, lookup_loop_matches, st_jsc_lookup_find.
  destruct (st_jsc_find s v); reflexivity.
Qed.

(* ---- makevar = genname + bind ---- *)
Theorem jsc_makevar_matches_source (v : bstr) (st : jstate) :
  st_small (Z.of_N (j_n st)) -> st_small (go_len (j_scope st)) ->
  match src_soyjs_scope_makevar (rev (j_scope st)) (Z.of_N (j_n st)) v with
  | Some (s', n', g) => jsc_makevar v st = Ok (g, set_scope (rev s') (Z.to_N n') st)
  | None => jsc_makevar v st = Crash je_args
  end.
Proof.
  intros Hn Hs. unfold src_soyjs_scope_makevar.
  pose proof (jsc_genname_matches_source v st Hn) as G.
  destruct (src_soyjs_scope_genname (Z.of_N (j_n st)) v) as [n' g]. destruct G as [G ->].
  pose proof (jsc_bind_matches_source v g (set_scope (j_scope st) (Z.to_N (Z.of_N (j_n st + 1))) st)) as B.
  cbn [j_scope set_scope j_n] in B. specialize (B Hs).
  unfold jsc_makevar, jbind. rewrite G.
  destruct (src_soyjs_scope_bind (rev (j_scope st)) v g) as [s'|]; cbn [go_bind]; rewrite B; reflexivity.
Qed.

(* ---- the loop frames: pushForRange / pushForEach (this is where the hidden keys .var / .limit / .index and the
   name pieces Init / Step / Limit / Index / List of Model/JsGen.v meet the source's) ---- *)
Theorem jsc_push_for_range_matches_source (v : bstr) (st : jstate) :
  st_small (Z.of_N (j_n st)) ->
  let '(s', n', a, b0, c, d, e) := src_soyjs_scope_pushForRange (rev (j_scope st)) (Z.of_N (j_n st)) v in
  jsc_push_for_range v st = Ok ((a, b0, c, d, e), set_scope (rev s') (Z.to_N n') st).
Proof.
  intros Hn. unfold src_soyjs_scope_pushForRange. repeat progress autounfold with src_helpers. cbv beta iota zeta.
  rewrite st_wrap64 by (unfold st_small in Hn; lia).
  replace (Z.of_N (j_n st) + 1)%Z with (Z.of_N (j_n st + 1)) by lia.
  rewrite st_dec_of_Z_of_N, N2Z.id, rev_app_distr, rev_involutive. rewrite !go_map_set_s_aset.
  unfold jsc_push_for_range, jbind, jget, jmod, jret. cbv zeta.
  unfold jk_var, jk_limit, jk_index, t_us, t_limit, t_index, t_init, t_step. cbn [rev app].
  rewrite <- ?app_assoc. cbn [app]. reflexivity.
Qed.

Theorem jsc_push_for_each_matches_source (v : bstr) (st : jstate) :
  st_small (Z.of_N (j_n st)) ->
  let '(s', n', a, b0, c, d) := src_soyjs_scope_pushForEach (rev (j_scope st)) (Z.of_N (j_n st)) v in
  jsc_push_for_each v st = Ok ((a, b0, c, d), set_scope (rev s') (Z.to_N n') st).
Proof.
  intros Hn. unfold src_soyjs_scope_pushForEach. repeat progress autounfold with src_helpers. cbv beta iota zeta.
  rewrite st_wrap64 by (unfold st_small in Hn; lia).
  replace (Z.of_N (j_n st) + 1)%Z with (Z.of_N (j_n st + 1)) by lia.
  rewrite st_dec_of_Z_of_N, N2Z.id, rev_app_distr, rev_involutive. rewrite !go_map_set_s_aset.
  unfold jsc_push_for_each, jbind, jget, jmod, jret. cbv zeta.
  unfold jk_var, jk_limit, jk_index, t_us, t_limit, t_index, t_list. cbn [rev app].
  rewrite <- ?app_assoc. cbn [app]. reflexivity.
Qed.

(* ---- loop: index and limit of the innermost loop frame for a variable ---- *)
Definition st_frame_hit (f : list (bstr * bstr)) (v : bstr) : option (bstr * bstr) :=
  let get k := match assoc_s k f with Some x => x | None => [] end in
  if bstr_eqb (get jk_var) v && negb (match get jk_index with [] => true | _ => false end)
  then Some (get jk_index, get jk_limit) else None.

Fixpoint st_loop_find (s : list (list (bstr * bstr))) (v : bstr) : option (bstr * bstr) :=
  match s with
  | [] => None
  | f :: r => match st_frame_hit f v with Some p => Some p | None => st_loop_find r v end
  end.

Lemma st_jsc_loop_find s v : jsc_loop s v = match st_loop_find s v with Some p => p | None => ([], []) end.
Proof.
  induction s as [|f r IH]; cbn [jsc_loop st_loop_find]; [reflexivity|]. unfold st_frame_hit. cbv zeta.
  destruct (_ && _); [reflexivity|exact IH].
Qed.

Lemma loop_loop_matches (s : list (list (bstr * bstr))) (v : bstr) :
  src_soyjs_scope_loop_loop1 s v =
  Some (match st_loop_find s v with Some p => go_ret p | None => go_exit tt end).
Proof.
  induction s as [|f r IH]; [reflexivity|].
  cbn [src_soyjs_scope_loop_loop1 st_loop_find]. cbv zeta. unfold st_frame_hit. try unfold go_lookup_s. cbv zeta.
  rewrite ?bstr_eqb_nil_r. unfold jk_var, jk_index, jk_limit.
  (* the cases are split on the MODEL's side: the frame's entries for the two hidden keys, the comparison with v *)
  let kv := eval unfold jk_var in jk_var in destruct (assoc_s kv f) as [x|];
  (let ki := eval unfold jk_index in jk_index in destruct (assoc_s ki f) as [[|c t]|]);
  destruct (bstr_eqb _ v); cbn [andb orb negb]; first [reflexivity|exact IH].
Qed.

Theorem jsc_loop_matches_source (s : list (list (bstr * bstr))) (v : bstr) :
  st_small (go_len s) -> src_soyjs_scope_loop (rev s) v = Some (jsc_loop s v).
Proof.
  intros _. unfold src_soyjs_scope_loop. cbv zeta. rewrite rev_involutive, loop_loop_matches, st_jsc_loop_find.
  destruct (st_loop_find s v); reflexivity.
Qed.
