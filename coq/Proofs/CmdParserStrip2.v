(* Position independence of the successful runs of the command-level parser model: the second half of
   Section Level of Model/Parser.v (case_loop ... item_list_loop), under the three facts about
   placeholderization that CmdParserStripPlz.v proves (section hypotheses here). *)
From Soy Require Import Model.Bytes Model.Num Model.Values Model.Outcome Model.Ast Model.Token Model.RawText Model.ExprParser Model.Parser
  Generated.Tables Spec.ExprSyntax Proofs.ExprParserStrip.
From Soy Require Import Proofs.CmdParserStripDefs Proofs.CmdParserStrip.
Require Import Lia List.
Import ListNotations.
Open Scope N_scope.

Definition cps_oneq (o o' : option node) : Prop := option_map cps_strip o = option_map cps_strip o'.
Definition cps_oxeq (o o' : option node) : Prop := option_map strip_pos o = option_map strip_pos o'.
Definition cps_oleq (o o' : option (list node)) : Prop := option_map (map cps_strip) o = option_map (map cps_strip) o'.
Definition cps_pceq (x x' : list node * option (list node)) : Prop := cps_leq (fst x) (fst x') /\ cps_oleq (snd x) (snd x').
Definition cps_obeq (x x' : option node * bool) : Prop := cps_oneq (fst x) (fst x') /\ snd x = snd x'.

Ltac cps_node2 :=
  unfold cps_neq, cps_xeq, cps_leq, cps_xleq, cps_oneq, cps_oxeq, cps_oleq in *; cbn [cps_strip strip_pos option_map]; congruence.

Lemma cps_last_is_default_strip l : last_is_default (map cps_strip l) = last_is_default l.
Proof.
  unfold last_is_default. rewrite <- map_rev. destruct (rev l) as [|x r]; [reflexivity|]. cbn [map].
  destruct x; try reflexivity. cbn [cps_strip]. destruct values; reflexivity.
Qed.
Lemma cps_last_is_default l l' : cps_leq l l' -> last_is_default l = last_is_default l'.
Proof. intros H. rewrite <- (cps_last_is_default_strip l), <- (cps_last_is_default_strip l'). unfold cps_leq in H. rewrite H. reflexivity. Qed.

Definition cps_is_case (n : node) : bool := match n with NSwitchCase _ _ _ => true | _ => false end.
Lemma cps_is_case_strip n : cps_is_case (cps_strip n) = cps_is_case n.
Proof. destruct n; reflexivity. Qed.

Lemma cps_some r r' : cps_ok cps_neq r r' ->
  cps_ok cps_oneq (cbind r (fun n s' => COk (Some n) s')) (cbind r' (fun n s' => COk (Some n) s')).
Proof.
  intros H. eapply cps_ok_bind; [exact H|]. intros n n' s s' Hn Hs. apply cps_ok_ret; [cps_node2|exact Hs].
Qed.

Section Level2.
Variables (inlen inlen' : N) (lexq : bstr -> list tok) (unq : bstr -> option bstr) (efuel : list tok -> nat).
Hypothesis Hefuel : forall ts ts', map strip_tok ts = map strip_tok ts' -> efuel ts = efuel ts'.
Hypothesis Hplz : forall l l', cps_leq l l' -> cps_leq (plz_children l) (plz_children l').
Hypothesis Hexp : forall l l', cps_leq l l' -> existsb is_plural l = existsb is_plural l'.
Hypothesis Hch : forall n n', cps_neq n n' -> cps_leq (children_of n) (children_of n').
Variables (pe pe' : N -> cst -> cres node) (w w' : list N -> cst -> cres node) (lf : nat).
Hypothesis Hpe : forall prec s s', cps_R s s' -> cps_ok cps_xeq (pe prec s) (pe' prec s').
Hypothesis Hw : forall until s s', cps_R s s' -> cps_ok cps_neq (w until s) (w' until s').

Lemma cps_case_loop f : forall token token' values values' s s', cps_teq token token' -> cps_xleq values values' -> cps_R s s' ->
  cps_ok cps_neq (case_loop inlen pe w f token values s) (case_loop inlen' pe' w' f token' values' s').
Proof.
  induction f as [|f IH]; intros token token' values values' s s' Ht Hl H; cbn [case_loop]; [cps_triv|].
  cps_tok Ht. eapply cps_ok_bind with (eqa := cps_xleq).
  { destruct (tis token pit_Default); [apply cps_ok_ret; assumption|].
    eapply cps_ok_bind; [apply Hpe; exact H|]. intros v v' s0 s0' Hv Hs0.
    apply cps_ok_ret; [apply cps_xleq_app; assumption|exact Hs0]. }
  intros values1 values1' s1 s1' Hv1 Hs1.
  cps_nx Hs1 tok tok' s2 s2' Htok Hs2.
  destruct (tis tok pit_Comma); [apply IH; assumption|].
  destruct (tis tok pit_RightDelim); [|cps_triv].
  eapply cps_ok_bind; [apply Hw; exact Hs2|]. intros body body' s3 s3' Hb Hs3.
  apply cps_ok_ret; [cps_node2|apply cps_R_backup; exact Hs3].
Qed.

Lemma cps_switch_loop f : forall pos pos' endt value value' cases cases' s s',
  cps_xeq value value' -> cps_leq cases cases' -> cps_R s s' ->
  cps_ok cps_neq (switch_loop inlen pe w lf f pos endt value cases s) (switch_loop inlen' pe' w' lf f pos' endt value' cases' s').
Proof.
  induction f as [|f IH]; intros pos pos' endt value value' cases cases' s s' Hv Hl H; cbn [switch_loop]; [cps_triv|].
  cps_nx H tok tok' s1 s1' Htok Hs1.
  destruct (tis tok pit_LeftDelim); [apply IH; assumption|].
  destruct (tis tok pit_Text). { destruct (all_space (t_val tok)); [apply IH; assumption|cps_triv]. }
  destruct (tis tok pit_Case || tis tok pit_Default).
  { rewrite <- (cps_last_is_default _ _ Hl). destruct (last_is_default cases); [cps_triv|].
    eapply cps_ok_bind; [apply cps_case_loop; [exact Htok|apply cps_xleq_nil|exact Hs1]|]. intros c c' s2 s2' Hc Hs2.
    apply IH; [exact Hv| |exact Hs2]. apply cps_leq_app; assumption. }
  destruct (tis tok endt).
  { cps_ex Hs1 r r' s2 s2' Hr Hs2. apply cps_ok_ret; [cps_node2|exact Hs2]. }
  destruct (tis tok pit_Comment); [apply IH; assumption|cps_triv].
Qed.

Lemma cps_parse_switch token token' endt s s' : cps_R s s' ->
  cps_ok cps_neq (parse_switch inlen pe w lf token endt s) (parse_switch inlen' pe' w' lf token' endt s').
Proof.
  intros H. unfold parse_switch. eapply cps_ok_bind; [apply Hpe; exact H|]. intros v v' s1 s1' Hv Hs1.
  cps_ex Hs1 r r' s2 s2' Hr Hs2. apply cps_switch_loop; [exact Hv|apply cps_leq_nil|exact Hs2].
Qed.

Lemma cps_plural_skip il c r cases dflt s : cps_is_case c = false ->
  plural_cases il (c :: r) cases dflt s = plural_cases il r cases dflt s.
Proof. intros K. destruct c; try reflexivity. discriminate K. Qed.

Lemma cps_plural_cases : forall cs cs' cases cases' dflt dflt' s s',
  cps_leq cs cs' -> cps_leq cases cases' -> cps_oleq dflt dflt' -> cps_R s s' ->
  cps_ok cps_pceq (plural_cases inlen cs cases dflt s) (plural_cases inlen' cs' cases' dflt' s').
Proof.
  induction cs as [|c r IH]; intros cs' cases cases' dflt dflt' s s' Hcs Hl Hd H.
  { destruct cs' as [|c' r']; [|discriminate Hcs]. cbn [plural_cases]. apply cps_ok_ret; [split; assumption|exact H]. }
  destruct cs' as [|c' r']; [discriminate Hcs|]. unfold cps_leq in Hcs. cbn [map] in Hcs. injection Hcs as Hc Hr.
  pose proof (f_equal cps_is_case Hc) as K. rewrite !cps_is_case_strip in K.
  destruct (cps_is_case c) eqn:Kc.
  2:{ rewrite (cps_plural_skip inlen c), (cps_plural_skip inlen' c') by congruence. apply IH; assumption. }
  destruct c; try discriminate Kc. destruct c'; try discriminate K.
  cbn [cps_strip] in Hc. injection Hc as Hvals Hbody. cbn [plural_cases].
  destruct values as [|v0 vr]; destruct values0 as [|v0' vr']; try discriminate Hvals.
  { apply IH; try assumption. unfold cps_oleq. cbn [option_map]. f_equal. apply Hch. exact Hbody. }
  cbn [map] in Hvals. injection Hvals as Hv0 Hvr.
  destruct v0; try cps_triv. destruct vr as [|v1 vr]; [|cps_triv].
  destruct vr' as [|v1' vr']; [|discriminate Hvr].
  destruct v0'; cbn [strip_pos] in Hv0; try discriminate Hv0. injection Hv0 as Hz. subst z0.
  apply IH; try assumption. apply cps_leq_app; [exact Hl|]. unfold cps_neq. cbn [cps_strip]. f_equal. apply Hch. exact Hbody.
Qed.

Lemma cps_parse_plural tok tok' s s' : cps_R s s' ->
  cps_ok cps_neq (parse_plural inlen pe w lf tok s) (parse_plural inlen' pe' w' lf tok' s').
Proof.
  intros H. unfold parse_plural. rewrite <- (cps_R_inmsg _ _ H). destruct (negb (c_inmsg s)); [cps_triv|].
  eapply cps_ok_bind; [apply cps_parse_switch; exact H|]. intros sw sw' s1 s1' Hsw Hs1.
  unfold cps_neq in Hsw. destruct sw; try cps_triv.
  destruct sw'; cbn [cps_strip strip_pos] in Hsw; try discriminate Hsw. injection Hsw as Hv Hcs.
  eapply cps_ok_bind; [apply cps_plural_cases; [exact Hcs|apply cps_leq_nil|reflexivity|exact Hs1]|].
  intros cd cd' s2 s2' [Hcd1 Hcd2] Hs2.
  destruct (snd cd) as [d|]; [|cps_triv]. destruct (snd cd') as [d'|]; [|discriminate Hcd2].
  apply cps_ok_ret; [|exact Hs2]. unfold cps_oleq in Hcd2. cbn [option_map] in Hcd2. injection Hcd2 as Hd. cps_node2.
Qed.

Lemma cps_parse_for token token' s s' : cps_R s s' ->
  cps_ok cps_neq (parse_for inlen pe w token s) (parse_for inlen' pe' w' token' s').
Proof.
  intros H. unfold parse_for.
  cps_ex H vartoken vartoken' s1 s1' Hvt Hs1.
  cps_ex Hs1 intoken intoken' s2 s2' Hit Hs2.
  destruct (negb (bstr_eqb (t_val intoken) k_in)); [cps_triv|].
  eapply cps_ok_bind; [apply Hpe; exact Hs2|]. intros coll coll' s3 s3' Hcoll Hs3.
  cps_ex Hs3 r r' s4 s4' Hr Hs4.
  eapply cps_ok_bind; [apply Hw; exact Hs4|]. intros body body' s5 s5' Hb Hs5.
  assert (Hs5b : cps_R (c_backup s5) (c_backup s5')) by (apply cps_R_backup; exact Hs5).
  cps_nx Hs5b nx nx' s6 s6' Hnx Hs6.
  eapply cps_ok_bind with (eqa := cps_oneq).
  { destruct (tis nx pit_Ifempty); [|apply cps_ok_ret; [reflexivity|exact Hs6]].
    cps_ex Hs6 r2 r2' s8 s8' Hr2 Hs8.
    eapply cps_ok_bind; [apply Hw; exact Hs8|]. intros b2 b2' s9 s9' Hb2 Hs9.
    apply cps_ok_ret; [cps_node2|exact Hs9]. }
  intros ie ie' s7 s7' Hie Hs7.
  cps_ex Hs7 r3 r3' s8 s8' Hr3 Hs8.
  eapply cps_ok_bind; [apply cps_tail1; exact Hs8|]. intros nm nm' s9 s9' <- Hs9.
  apply cps_ok_ret; [cps_node2|exact Hs9].
Qed.

Lemma cps_if_loop f : forall pos pos' conds conds' is_else s s', cps_leq conds conds' -> cps_R s s' ->
  cps_ok cps_neq (if_loop inlen pe w f pos conds is_else s) (if_loop inlen' pe' w' f pos' conds' is_else s').
Proof.
  induction f as [|f IH]; intros pos pos' conds conds' is_else s s' Hl H; cbn [if_loop]; [cps_triv|].
  eapply cps_ok_bind with (eqa := cps_oxeq).
  { destruct is_else; [apply cps_ok_ret; [reflexivity|exact H]|].
    eapply cps_ok_bind; [apply Hpe; exact H|]. intros c c' s0 s0' Hc Hs0. apply cps_ok_ret; [cps_node2|exact Hs0]. }
  intros cond cond' s1 s1' Hcond Hs1.
  cps_ex Hs1 r r' s2 s2' Hr Hs2.
  eapply cps_ok_bind; [apply Hw; exact Hs2|]. intros body body' s3 s3' Hb Hs3. cbv zeta.
  assert (Hl1 : cps_leq (conds ++ [NIfCond pos cond body]) (conds' ++ [NIfCond pos' cond' body'])).
  { apply cps_leq_app; [exact Hl|]. cps_node2. }
  assert (Hs3b : cps_R (c_backup s3) (c_backup s3')) by (apply cps_R_backup; exact Hs3).
  cps_nx Hs3b nx nx' s4 s4' Hnx Hs4.
  destruct (tis nx pit_Elseif); [apply IH; assumption|].
  destruct (tis nx pit_Else); [apply IH; assumption|].
  destruct (tis nx pit_IfEnd); [|apply IH; assumption].
  cps_ex Hs4 r2 r2' s5 s5' Hr2 Hs5. apply cps_ok_ret; [cps_node2|exact Hs5].
Qed.

Lemma cps_parse_msg token token' s s' : cps_R s s' ->
  cps_ok cps_neq (parse_msg inlen unq w lf token s) (parse_msg inlen' unq w' lf token' s').
Proof.
  intros H. unfold parse_msg.
  eapply cps_ok_bind; [apply cps_attrs_loop; exact H|]. intros attrs attrs' s1 s1' <- Hs1.
  destruct (attr k_desc attrs) as [desc|]; [|cps_triv].
  cps_ex Hs1 r r' s2 s2' Hr Hs2.
  eapply cps_ok_bind; [apply Hw; apply cps_R_set_inmsg; exact Hs2|]. intros contents contents' s3 s3' Hc Hs3. cbv zeta.
  assert (Hb : cps_leq (plz_children (children_of contents)) (plz_children (children_of contents'))).
  { apply Hplz. apply Hch. exact Hc. }
  rewrite <- (Hexp _ _ Hb), <- (cps_leq_length _ _ Hb).
  destruct (existsb is_plural _ && negb (Nat.eqb _ 1)); [cps_triv|].
  assert (Hs4 : cps_R (set_inmsg s3 false) (set_inmsg s3' false)) by (apply cps_R_set_inmsg; exact Hs3).
  cps_ex Hs4 r2 r2' s5 s5' Hr2 Hs5. apply cps_ok_ret; [cps_node2|exact Hs5].
Qed.

Lemma cps_parse_template token token' s s' : cps_R s s' ->
  cps_ok cps_neq (parse_template inlen unq w lf token s) (parse_template inlen' unq w' lf token' s').
Proof.
  intros H. unfold parse_template.
  cps_ex H id id' s1 s1' Hid Hs1.
  eapply cps_ok_bind; [apply cps_attrs_loop; exact Hs1|]. intros attrs attrs' s2 s2' <- Hs2.
  eapply cps_ok_bind; [apply cps_parse_autoescape; exact Hs2|]. intros ae ae' s3 s3' <- Hs3.
  eapply cps_ok_bind; [apply cps_bool_attr; exact Hs3|]. intros priv priv' s4 s4' <- Hs4.
  cps_ex Hs4 r r' s5 s5' Hr Hs5.
  eapply cps_ok_bind; [apply Hw; exact Hs5|]. intros body body' s6 s6' Hb Hs6. cbv zeta.
  rewrite <- (cps_R_ns _ _ Hs6).
  cps_ex Hs6 r2 r2' s7 s7' Hr2 Hs7. apply cps_ok_ret; [cps_node2|exact Hs7].
Qed.

Lemma cps_parse_header_param token token' s s' : cps_teq token token' -> cps_R s s' ->
  cps_ok cps_neq (parse_header_param inlen pe token s) (parse_header_param inlen' pe' token' s').
Proof.
  intros Ht H. unfold parse_header_param.
  cps_ex H name name' s1 s1' Hname Hs1.
  cps_ex Hs1 c c' s2 s2' Hc Hs2.
  cps_ex Hs2 typ typ' s3 s3' Htyp Hs3.
  cps_nx Hs3 tok tok' s4 s4' Htok Hs4.
  eapply cps_ok_bind with (eqa := cps_oxeq).
  { destruct (tis tok pit_Equals); [|apply cps_ok_ret; [reflexivity|apply cps_R_backup; exact Hs4]].
    eapply cps_ok_bind; [apply Hpe; exact Hs4|]. intros e e' s0 s0' He Hs0. apply cps_ok_ret; [cps_node2|exact Hs0]. }
  intros dv dv' s5 s5' Hdv Hs5.
  cps_ex Hs5 r r' s6 s6' Hr Hs6. cps_tok Ht. apply cps_ok_ret; [cps_node2|exact Hs6].
Qed.

Lemma cps_begin_tag s s' : cps_R s s' ->
  cps_ok cps_oneq (begin_tag inlen lexq unq parse_expr efuel pe w lf s) (begin_tag inlen' lexq unq parse_expr efuel pe' w' lf s').
Proof.
  intros H. unfold begin_tag, notmsg.
  cps_nx H token token' s1 s1' Ht Hs1. cbv beta zeta. rewrite <- (cps_R_inmsg _ _ Hs1).
  destruct (tis token pit_Namespace); [apply cps_some; apply cps_parse_namespace; exact Hs1|].
  destruct (tis token pit_Template); [apply cps_some; apply cps_parse_template; exact Hs1|].
  destruct (tis token pit_HeaderParam || tis token pit_HeaderOptionalParam);
    [apply cps_some; apply cps_parse_header_param; assumption|].
  destruct (tis token pit_If).
  { destruct (c_inmsg s1); [cps_triv|]. apply cps_some. apply cps_if_loop; [apply cps_leq_nil|exact Hs1]. }
  destruct (tis token pit_Msg).
  { destruct (c_inmsg s1); [cps_triv|]. apply cps_some. apply cps_parse_msg; exact Hs1. }
  destruct (tis token pit_Plural); [apply cps_some; apply cps_parse_plural; exact Hs1|].
  destruct (tis token pit_Foreach || tis token pit_For).
  { destruct (c_inmsg s1); [cps_triv|]. apply cps_some. apply cps_parse_for; exact Hs1. }
  destruct (tis token pit_Switch).
  { destruct (c_inmsg s1); [cps_triv|]. apply cps_some. apply cps_parse_switch; exact Hs1. }
  destruct (tis token pit_Call); [apply cps_some; apply cps_parse_call; assumption|].
  destruct (tis token pit_Literal).
  { cps_ex Hs1 r1 r1' s2 s2' Hr1 Hs2. cps_ex Hs2 lit lit' s3 s3' Hlit Hs3.
    cps_ex Hs3 r3 r3' s4 s4' Hr3 Hs4. cps_ex Hs4 r4 r4' s5 s5' Hr4 Hs5. cps_ex Hs5 r5 r5' s6 s6' Hr5 Hs6.
    apply cps_ok_ret; [cps_node2|exact Hs6]. }
  destruct (tis token pit_Css); [apply cps_some; apply cps_parse_css; assumption|].
  destruct (tis token pit_Log).
  { cps_ex Hs1 r1 r1' s2 s2' Hr1 Hs2.
    eapply cps_ok_bind; [apply Hw; exact Hs2|]. intros body body' s3 s3' Hb Hs3.
    cps_ex Hs3 r3 r3' s4 s4' Hr3 Hs4. apply cps_ok_ret; [cps_node2|exact Hs4]. }
  destruct (tis token pit_Debugger).
  { cps_ex Hs1 r1 r1' s2 s2' Hr1 Hs2. apply cps_ok_ret; [cps_node2|exact Hs2]. }
  destruct (tis token pit_Let); [apply cps_some; apply cps_parse_let; assumption|].
  destruct (tis token pit_Alias).
  { eapply cps_ok_bind; [apply cps_parse_alias; exact Hs1|]. intros u u' s2 s2' _ Hs2. apply cps_ok_ret; [reflexivity|exact Hs2]. }
  destruct (assoc (t_typ token) parser_special_chars) as [txt|].
  { cps_ex Hs1 r1 r1' s2 s2' Hr1 Hs2. apply cps_ok_ret; [cps_node2|exact Hs2]. }
  destruct (one_of (t_typ token) parser_implicit_print).
  { apply cps_some. apply cps_cmd_print; [exact Hpe|apply cps_R_backup; exact Hs1]. }
  destruct (tis token pit_Print); [|cps_triv]. apply cps_some. apply cps_cmd_print; assumption.
Qed.

Lemma cps_text_or_tag token0 token0' until s s' : cps_teq token0 token0' -> cps_R s s' ->
  cps_ok cps_obeq (text_or_tag inlen lexq unq parse_expr efuel pe w lf token0 until s)
                  (text_or_tag inlen' lexq unq parse_expr efuel pe' w' lf token0' until s').
Proof.
  intros Ht0 H. unfold text_or_tag. cbv zeta. cps_tok Ht0.
  eapply cps_ok_bind; [apply cps_skip_comments; assumption|]. intros token token' s1 s1' Ht Hs1. cps_tok Ht.
  destruct (one_of (t_typ token) until); [apply cps_ok_ret; [split; reflexivity|exact Hs1]|].
  cps_nx Hs1 token2 token2' s2 s2' Ht2 Hs2.
  destruct (tis token pit_LeftDelim && one_of (t_typ token2) until); [apply cps_ok_ret; [split; reflexivity|exact Hs2]|].
  assert (Hs3 : cps_R (c_backup s2) (c_backup s2')) by (apply cps_R_backup; exact Hs2).
  destruct (tis token pit_Text).
  { eapply cps_ok_bind; [apply cps_text_run; exact Hs3|]. intros [tx nxt] [tx' nxt'] s4 s4' [Htx Hnxt] Hs4.
    cbn [fst snd] in *. subst tx'. cps_tok Hnxt.
    assert (Hs5 : cps_R (c_backup s4) (c_backup s4')) by (apply cps_R_backup; exact Hs4).
    destruct (rawtext_run tx (tis token0 pit_Comment) (tis nxt pit_Comment)) as [[|x l]| | | | |]; try cps_triv.
    - apply cps_ok_ret; [split; reflexivity|exact Hs5].
    - apply cps_ok_ret; [split; reflexivity|exact Hs5]. }
  destruct (tis token pit_LeftDelim).
  { eapply cps_ok_bind; [apply cps_begin_tag; exact Hs3|]. intros n n' s4 s4' Hn Hs4.
    apply cps_ok_ret; [split; [exact Hn|reflexivity]|exact Hs4]. }
  destruct (tis token pit_SoyDocStart); [|cps_triv].
  eapply cps_ok_bind; [apply cps_soydoc_loop; [apply cps_leq_nil|exact Hs3]|]. intros n n' s4 s4' Hn Hs4.
  apply cps_ok_ret; [|exact Hs4]. split; [|reflexivity]. cbn [fst]. cps_node2.
Qed.

Lemma cps_item_list_loop f : forall until pos pos' acc acc' s s', cps_leq acc acc' -> cps_R s s' ->
  cps_ok cps_neq (item_list_loop inlen lexq unq parse_expr efuel pe w lf f until pos acc s)
                 (item_list_loop inlen' lexq unq parse_expr efuel pe' w' lf f until pos' acc' s').
Proof.
  induction f as [|f IH]; intros unt pos pos' acc acc' s s' Hl H; cbn [item_list_loop]; [cps_triv|].
  cps_nx H token token' s1 s1' Ht Hs1. cbv zeta.
  eapply cps_ok_bind; [apply cps_text_or_tag; assumption|]. intros [on hb] [on' hb'] s2 s2' [Hon Hhb] Hs2.
  cbn [fst snd] in *. subst hb'.
  destruct hb; [apply cps_ok_ret; [cps_node2|exact Hs2]|].
  apply IH; [|exact Hs2].
  destruct on as [n|], on' as [n'|]; try discriminate Hon; [|exact Hl].
  apply cps_leq_app; [exact Hl|]. unfold cps_oneq in Hon. cbn [option_map] in Hon. injection Hon as Hn. exact Hn.
Qed.

End Level2.
