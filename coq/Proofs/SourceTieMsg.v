(* Source tie, family 75-gotrans-soymsg (soymsg/id.go, placeholder.go, pomsg/pomsg.go): the
   fingerprint combination and calcID's meaning/mask step, the tag-name table and byte class
   of the placeholder namer, and pomsg's `translated`, against the same functions and
   fragments as gotrans translates them from today's source.  hash32 itself (a loop) stays a
   parameter of the translated fingerprint; it is instantiated with Model/MsgId.v's hash32. *)
From Coq Require Import ZArith NArith Bool Lia ZifyBool ZifyN List.
From Soy Require Import Model.Bytes Model.Outcome Generated.Tables Model.MsgId Proofs.SourceTieBase.
Import ListNotations.
Open Scope N_scope.

(* placeholder.go isAlphaNumeric (bytes) *)
Lemma c_alnum_matches_source (c : N) : c_alnum c = src_soymsg_isAlphaNumeric (Z.of_N c).
Proof. unfold c_alnum, c_letter, c_upper, c_lower, c_digit, src_soymsg_isAlphaNumeric. bool_lia. Qed.

(* placeholder.go htmlTagNames[tag] *)
Lemma html_tag_names_matches_source (tag : bstr) :
  assoc_s tag html_tag_names = assoc_s tag src_soymsg_htmlTagNames.
Proof.
  rewrite <- (assoc_s_ext (fun x : bstr => x) bstr_eqb html_tag_names src_soymsg_htmlTagNames);
    [destruct (assoc_s tag html_tag_names); reflexivity|exact st_bstr_eqb_true|vm_compute; reflexivity].
Qed.

(* id.go hash32(str, 0, len(str), seed) as Model/MsgId.v models it *)
Definition hash32_z (str : bstr) (start limit c : Z) : Z := Z.of_N (hash32 str (Z.to_N c)).

Lemma Z_of_N_w64 (x : N) : Z.of_N (w64 x) = go_wrap_u 64 (Z.of_N x).
Proof. unfold w64, go_wrap_u. rewrite Z_of_N_mod by discriminate. reflexivity. Qed.

(* id.go fingerprint: the two seeds, the degenerate case and its xor constants, (hi << 32) | (lo & 0xffffffff) *)
Theorem fingerprint_matches_source (s : bstr) :
  Z.of_N (fingerprint s) = src_soymsg_fingerprint hash32_z s.
Proof.
  unfold fingerprint, src_soymsg_fingerprint, hash32_z.
  cbv [fp_seed_hi fp_seed_lo fp_xor_hi fp_xor_lo]. cbn [Z.to_N].
  repeat match goal with
         | |- context [hash32 s ?c] => let x := fresh "h" in generalize (hash32 s c); intro x
         end.
  cbv zeta.
  (* the degenerate case is decided on the model's side; the source's own test (whatever its shape) follows by lia *)
  match goal with
  | |- context [if ?d then N.lxor _ _ else _] => destruct d eqn:E
  end; st_decide_ifs;
    rewrite Z_of_N_lor, Z_of_N_land, Z_of_N_w64, Z_of_N_shiftl, ?Z_of_N_lxor;
    (* x ^ c written c ^ x in the source *)
    repeat match goal with
           | |- context [Z.lxor ?a (Z.of_N ?x)] =>
               lazymatch a with Z.of_N _ => fail | _ => rewrite (Z.lxor_comm a (Z.of_N x)) end
           end;
    first [ reflexivity | rewrite Z.lor_comm; reflexivity ].
Qed.

(* id.go calcID after `var fp = fingerprint(buf.Bytes())`: the meaning step and the final mask *)
Theorem calc_id_matches_source (fpstr meaning : bstr) :
  Z.of_N (calc_id fpstr meaning) = src_soymsg_calcID_tail hash32_z meaning (Z.of_N (fingerprint fpstr)).
Proof.
  unfold calc_id, src_soymsg_calcID_tail. cbv zeta. cbv [calc_id_mask].
  generalize (fingerprint fpstr) as fp. intros fp.
  rewrite <- fingerprint_matches_source. generalize (fingerprint meaning) as fm. intros fm.
  rewrite bstr_eqb_nil_r.
  destruct meaning as [|m0 mr]; cbn [negb]; [now rewrite Z_of_N_land|].
  assert (Htop : (0 <? N.land fp 9223372036854775808) = Z.gtb (Z.land (Z.of_N fp) 9223372036854775808) 0).
  { transitivity (Z.gtb (Z.of_N (N.land fp 9223372036854775808)) 0); [lia|]. rewrite Z_of_N_land. reflexivity. }
  rewrite <- Htop.
  destruct (0 <? N.land fp 9223372036854775808);
    rewrite Z_of_N_land, Z_of_N_w64, !N2Z.inj_add, Z_of_N_w64, Z_of_N_shiftl;
    unfold go_wrap_u; rewrite Zplus_mod_idemp_l; reflexivity.
Qed.

