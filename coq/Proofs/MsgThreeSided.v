(* C11 x C04: a TRANSLATED message on the three sides at once.

   soyhtml renders a message that has a catalogue entry by running the translation's resolved items
   (C11_translation_places_values: run_items over map (resolve body) tr) through the walker WITH the bundle
   (walk_b); soyjs generates, for the same resolved items, an append statement per text segment and the code
   of the placeholder per slot (C11_js_translation_places_values: jrun_items).  Here the two are composed with
   C04's statement simulation: when every placeholder the translation uses is a core print ({print e|ds} over
   C04's expression subset), then, from any states related by C04's [sim],
     (Go)  run_items with walk_b writes exactly  text  = the translation's text segments and the placeholders'
           rendered values in the translation's order;
     (JS)  executing the MiniJS statements of the items, in order, appends exactly  text  to the buffer variable;
     (Gen) jrun_items with the generator's walker emits exactly the chunks of those statements;
   and the resulting states are related by [sim] again (so the code after the message continues under C04).
   The Go side uses walk_b_is_walk (Proofs/MsgWalkEq.v): on a print node the walker with a bundle is the walker,
   state for state. *)
From Coq Require Import List Lia Bool.
From Soy Require Import Model.Bytes Model.Num Model.Values Model.Outcome Model.Ast Model.JsGen Model.MiniJS
  Model.Escape Model.Directives Model.Print Generated.Tables Model.Interp Model.MsgId Model.MsgParts Spec.MsgCat
  Proofs.InterpGuard Proofs.EscapeProofs Proofs.MiniJSProofs Proofs.MiniJSPrint Proofs.MiniJSStmt Proofs.MsgIdProofs
  Proofs.MiniJSCtl Proofs.MiniJSGo Proofs.MiniJSGen Proofs.MiniJSSim
  Proofs.MsgPartsProofs Proofs.MsgJsProofs Proofs.MsgWalkEq.
Import ListNotations.
Open Scope N_scope.

(* ------------------------------------------------------------------ *)
(* a core print is message-free and call-free                           *)
(* ------------------------------------------------------------------ *)

Lemma msgfree_cnode : forall e, msgfree (cnode e) = true.
Proof.
  unfold msgfree.
  induction e as [| x | z | s | key accs | a IHa | a IHa | op a IHa c IHc | c IHc a IHa d IHd | k x];
    cbn [cnode deep msgfree_g andb forallb deep_opt]; try reflexivity;
    try rewrite IHa; try rewrite IHc; try rewrite IHd; try reflexivity.
  induction accs as [|a r IH]; [reflexivity|]. cbn [map forallb]. rewrite IH. destruct a; reflexivity.
Qed.

Lemma msgfree_print e ds : msgfree (snode (SPrint e ds)) = true.
Proof.
  unfold msgfree. cbn [snode deep msgfree_g andb]. fold (msgfree (cnode e)). rewrite msgfree_cnode. cbn [andb].
  induction ds as [|d r IH]; [reflexivity|]. cbn [map forallb]. rewrite IH. reflexivity.
Qed.

(* ------------------------------------------------------------------ *)
(* the items of a translation as statements of C04's subset             *)
(* ------------------------------------------------------------------ *)

Inductive item_stmt : titem -> cstmt -> Prop :=
| is_text t : item_stmt (TText t) (SRaw t)
| is_print p n e ds : item_stmt (TPh p n (snode (SPrint e ds))) (SPrint e ds)
(* an html tag of the message: soyhtml writes its text, soyjs appends it as a literal *)
| is_tag p n q t : item_stmt (TPh p n (NMsgHtmlTag q t)) (SRaw t).

Section Three.
Variable cf : cfg.
Variable plural_index : Z -> nat.
Variable bd : bundle.
Variable o : jopts.
Variable lv : list bstr.
(* C04's statements are relative to a call context since its call stage (Proofs/MiniJSSim.v callctx): raw text and prints
   call nothing, so the context without calls over the template's data [denv] does *)
Variable denv : bstr -> option value.
Hypothesis Hdenv : envok denv.
Local Notation sout ij mode pt := (MiniJS.sout ij mode pt denv (fun _ _ => None)).
Local Notation js_exec := (MiniJS.js_exec (fun _ _ _ => OutOfModel)).
Local Notation sim c := (MiniJSSim.sim c (cc_nocalls denv)).

(* the bytes the statements denote, in order, in one environment (raw text and prints bind nothing) *)
Fixpoint stmts_text (mode : N) (env : bstr -> option value) (ss : list cstmt) : option bstr :=
  match ss with
  | [] => Some []
  | s :: r =>
      match sout (c_ij cf) mode go_print_text env s, stmts_text mode env r with
      | Some (t, _), Some t2 => Some (t ++ t2)
      | _, _ => None
      end
  end.

Definition stmts_js (mode : N) (buf : bstr) (sc : list (list (bstr * bstr))) (n : N) (ss : list cstmt) : list jstmt :=
  map (fun s => fst (sgen mode buf sc n s)) ss.

Fixpoint js_exec_seq (je : jenv) (js : list jstmt) : outcome jenv :=
  match js with
  | [] => Ok je
  | j :: r => match js_exec je j with Ok je1 => js_exec_seq je1 r | other => other end
  end.

Definition plain (s : cstmt) : Prop := (exists t, s = SRaw t) \/ (exists e ds, s = SPrint e ds).

Lemma sout_plain_ext mode env1 env2 s : plain s -> (forall k, env1 k = env2 k) ->
  forall t e', sout (c_ij cf) mode go_print_text env1 s = Some (t, e') ->
  exists e'', sout (c_ij cf) mode go_print_text env2 s = Some (t, e'') /\ e' = env1.
Proof.
  intros [[t0 ->]|[e [ds ->]]] Hext t e' E.
  - rewrite sout_raw in *. inversion E; subst. eauto.
  - rewrite sout_print in *. rewrite <- (ceval_ext (c_ij cf) env1 env2 Hext).
    destruct (ceval (c_ij cf) env1 e) as [v|]; [|discriminate]. destruct (scalar_string v) as [str|]; [|discriminate].
    destruct (cleanb str); [|discriminate]. inversion E; subst. eauto.
Qed.

Lemma stmts_text_ext mode env1 env2 ss : Forall plain ss -> (forall k, env1 k = env2 k) ->
  stmts_text mode env1 ss = stmts_text mode env2 ss.
Proof.
  intros Hp Hext. induction Hp as [|s r Hs _ IH]; [reflexivity|]. cbn [stmts_text]. rewrite IH.
  destruct (sout (c_ij cf) mode go_print_text env1 s) as [[t e']|] eqn:E1.
  - destruct (sout_plain_ext mode env1 env2 s Hs Hext t e' E1) as (e'' & E2 & _). rewrite E2. reflexivity.
  - destruct (sout (c_ij cf) mode go_print_text env2 s) as [[t e']|] eqn:E2; [|reflexivity].
    destruct (sout_plain_ext mode env2 env1 s Hs (fun k => eq_sym (Hext k)) t e' E2) as (e'' & E3 & _). congruence.
Qed.

(* C04's step for one statement with everything the generator's state keeps exposed (scope and counter) *)
Lemma stmt_step_strong st je jst s fuel text env' old : plain s ->
  c_oblig cf = [] -> (sdepth s < fuel)%nat -> sim cf st je jst old ->
  swf lv s = true -> lvok lv (j_scope jst) ->
  sout (c_ij cf) (mode st) go_print_text (sc_lookup (ctx st)) s = Some (text, env') ->
  exists st' ws rv je' jst',
    let g := sgen (mode st) (j_buf jst) (j_scope jst) (j_n jst) s in
    walk cf fuel (snode s) st = (Ok rv, st') /\ wrote st st' ws /\ concat_b ws = text
    /\ mode st' = mode st /\ (forall k, sc_lookup (ctx st') k = env' k)
    /\ js_exec je (fst g) = Ok je'
    /\ jwalk o fuel (snode s) jst = Ok (tt, jst') /\ j_out jst' = rev (sprint (j_indent jst) (fst g)) ++ j_out jst
    /\ j_indent jst' = j_indent jst /\ j_buf jst' = j_buf jst /\ j_scope jst' = fst (snd g) /\ j_n jst' = snd (snd g)
    /\ sim cf st' je' jst' (old ++ text) /\ lvok lv (j_scope jst').
Proof.
  intros Hpl Hob Hf (Hg & Hd & ER & DR & G & Hbuf & Hmode) Hwf Hlv E. cbn [cc_nocalls cc_denv] in Hd, DR.
  pose proof (dinv_nonempty _ _ Hd) as Hn.
  destruct (sgen (mode st) (j_buf jst) (j_scope jst) (j_n jst) s) as [j [sc' n']] eqn:Eg. cbn [fst snd].
  assert (Hc : envok (sc_lookup (ctx st))).
  { intros k x Hk. pose proof (er_core _ _ _ _ ER k) as H. unfold env_val in H. rewrite Hk in H. exact H. }
  assert (Hij : forall x, c_ij cf = Some x -> core_value x = true) by (intros x Hx; exact (er_core_ij _ _ _ _ ER x Hx)).
  destruct (proj1 (interp_all cf Hob Hij denv Hdenv (fun _ _ => None) 0%nat (nocallee_go cf)) s fuel st text (sc_lookup (ctx st)) env' Hf Hg Hn
              (conj (fun k => eq_refl) Hd) Hc E)
    as (st' & ws & rv & E1 & W1 & C1 & M1 & N1 & T1 & A1 & D1).
  destruct (proj1 (js_exec_all (c_ij cf) (mode st) denv (fun _ _ => None) (fun _ _ _ => OutOfModel) (nocallee_js _ _)) s (j_buf jst) (j_scope jst) (j_n jst)
              (sc_lookup (ctx st)) je old text env' j sc' n' G E (conj ER Hbuf) DR Eg)
    as (je' & E2 & (ER' & Hbuf') & (D2 & F2)).
  assert (HGQ : GQ_s o s) by (destruct Hpl as [[t0 ->]|[e0 [ds0 ->]]]; [apply sgen_print_raw|apply sgen_print_print]).
  destruct (HGQ lv fuel jst j sc' n' (j_indent jst) (j_buf jst) (j_auto jst) (j_scope jst) (j_n jst) Hf (gi_nonempty _ _ _ G)
              Hlv Hwf (shape_refl jst)) as (jst' & E3 & O3 & (I3 & B3 & A3 & S3 & N3) & _). { rewrite Hmode. exact Eg. }
  assert (ER2 : env_rel (j_scope jst') (c_ij cf) (sc_lookup (ctx st')) je').
  { rewrite S3. eapply env_rel_ext; [|exact ER']. intro k. symmetry. apply A1. }
  assert (G2 : ginv (j_scope jst') (j_n jst') (j_buf jst')).
  { rewrite S3, N3, B3. apply (ginv_after _ _ _ _ _ _ _ _ (swf_binder lv s Hwf) Eg G). }
  exists st', ws, rv, je', jst'.
  repeat (split; [assumption|]).
  split; [|rewrite S3; exact (lvok_after lv _ _ _ _ _ _ _ _ (swf_binder lv s Hwf) Eg Hlv)].
  unfold MiniJSSim.sim. cbn [cc_nocalls cc_denv]. split; [exact (wrote_wok _ _ _ W1 Hg)|]. split; [exact D1|]. split; [exact ER2|]. split; [rewrite D2; exact DR|].
  split; [exact G2|]. split; [rewrite B3; exact Hbuf'|congruence].
Qed.

(* the generator on a text segment of a translation: the chunks of the append-literal statement *)
Lemma gres_raw_text t st i bf a sc n : shape st i bf a sc n ->
  gres o (write_raw_text t) st (sprint i (JSAppendLit bf t)) i bf a sc n.
Proof.
  intro H1. cbn [sprint]. unfold write_raw_text. eapply gres_eq.
  - eapply gres_bind; [ | intros x Hx ]. apply gres_indent; exact H1.
    unfold bufname. unfold gres. erewrite jbind_ok; [|erewrite jbind_ok; [reflexivity|reflexivity]].
    replace (j_buf x) with bf by (symmetry; apply Hx). apply gres_emit. exact Hx.
  - reflexivity.
Qed.

(* THE THREE SIDES of the resolved items of a translation *)
Theorem three_sided_items fuel : forall items ss, Forall2 item_stmt items ss ->
  forall st je jst old text,
  c_oblig cf = [] -> Forall (fun s => (sdepth s < fuel)%nat) ss -> Forall (fun s => swf lv s = true) ss ->
  sim cf st je jst old -> lvok lv (j_scope jst) ->
  stmts_text (mode st) (sc_lookup (ctx st)) ss = Some text ->
  exists st' ws je' jst',
    let js := stmts_js (mode st) (j_buf jst) (j_scope jst) (j_n jst) ss in
    (* Go *)  run_items (walk_b cf plural_index bd fuel) items st = (Ok tt, st') /\ wrote st st' ws /\ concat_b ws = text
              /\ mode st' = mode st /\ (forall k, sc_lookup (ctx st') k = sc_lookup (ctx st) k)
    (* JS *)  /\ js_exec_seq je js = Ok je'
    (* Gen *) /\ jrun_items (jwalk o fuel) items jst = Ok (tt, jst')
              /\ j_out jst' = rev (flat_map (sprint (j_indent jst)) js) ++ j_out jst
              /\ j_indent jst' = j_indent jst /\ j_buf jst' = j_buf jst /\ j_scope jst' = j_scope jst /\ j_n jst' = j_n jst
    /\ sim cf st' je' jst' (old ++ text) /\ lvok lv (j_scope jst').
Proof.
  intros items ss H. induction H as [|it s items ss His Hrest IH]; intros st je jst old text Hob Hd Hw Hsim Hlv Ht.
  - cbn [stmts_text] in Ht. inversion Ht; subst. exists st, [], je, jst. cbn [run_items jrun_items stmts_js map js_exec_seq flat_map rev app].
    rewrite app_nil_r. split; [reflexivity|]. split; [apply wsame_wrote, wsame_refl|].
    repeat (split; [reflexivity|]). split; [exact Hsim|exact Hlv].
  - inversion Hd as [|? ? Hd1 Hd2]; subst. inversion Hw as [|? ? Hw1 Hw2]; subst.
    assert (Hplain : Forall plain ss).
    { clear -Hrest. induction Hrest as [|? ? ? ? Hi _ IH']; constructor; [|exact IH']. destruct Hi; [left|right|left]; eauto. }
    cbn [stmts_text] in Ht.
    destruct (sout (c_ij cf) (mode st) go_print_text (sc_lookup (ctx st)) s) as [[t1 env1]|] eqn:E1; [|discriminate].
    destruct (stmts_text (mode st) (sc_lookup (ctx st)) ss) as [t2|] eqn:E2; [|discriminate]. inversion Ht; subst text. clear Ht.
    (* one step, on the three sides, for the head item *)
    assert (Hstep : exists st1 ws1 je1 jst1,
      (_ <-- match it with TText t => write t | TPh _ _ body => _ <-- walk_b cf plural_index bd fuel body ;;; ret tt end ;;; ret tt) st = (Ok tt, st1)
      /\ wrote st st1 ws1 /\ concat_b ws1 = t1 /\ mode st1 = mode st /\ (forall k, sc_lookup (ctx st1) k = sc_lookup (ctx st) k)
      /\ js_exec je (fst (sgen (mode st) (j_buf jst) (j_scope jst) (j_n jst) s)) = Ok je1
      /\ match it with TText t => write_raw_text t | TPh _ _ body => jwalk o fuel body end jst = Ok (tt, jst1)
      /\ j_out jst1 = rev (sprint (j_indent jst) (fst (sgen (mode st) (j_buf jst) (j_scope jst) (j_n jst) s))) ++ j_out jst
      /\ j_indent jst1 = j_indent jst /\ j_buf jst1 = j_buf jst /\ j_scope jst1 = j_scope jst /\ j_n jst1 = j_n jst
      /\ sim cf st1 je1 jst1 (old ++ t1) /\ lvok lv (j_scope jst1)).
    { destruct His as [t|p n e ds|p n q t].
      - (* a text segment *)
        rewrite sout_raw in E1. inversion E1; subst t1 env1. clear E1.
        destruct Hsim as (Hg & Hn & ER & DR & G & Hbuf & Hmode). cbn [cc_nocalls cc_denv] in Hn, DR.
        destruct (write_wok t st Hg) as (st1 & Ew & W1 & C1 & M1).
        destruct (js_exec_stmt (c_ij cf) (mode st) denv (fun _ _ => None) (fun _ _ _ => OutOfModel) (j_buf jst) (SRaw t) (j_scope jst) (j_n jst) (sc_lookup (ctx st)) je old t
                    (sc_lookup (ctx st)) (JSAppendLit (j_buf jst) t) (j_scope jst) (j_n jst) (nocallee_js _ _) G ltac:(apply sout_raw) ER Hbuf DR ltac:(reflexivity))
          as (je1 & Ej & (ER1 & Hbuf1) & (Dj1 & _)).
        destruct (gres_raw_text t jst _ _ _ _ _ (shape_refl jst)) as (jst1 & Eg & Og & (I3 & B3 & A3 & S3 & N3) & _).
        exists st1, [t], je1, jst1. unfold mbind. rewrite Ew. cbn [concat_b]. rewrite app_nil_r.
        split; [reflexivity|]. split; [exact W1|]. split; [reflexivity|]. split; [exact M1|]. split; [intro k; rewrite C1; reflexivity|].
        split; [exact Ej|]. split; [exact Eg|]. split; [exact Og|]. split; [exact I3|]. split; [exact B3|]. split; [exact S3|]. split; [exact N3|].
        split; [|rewrite S3; exact Hlv].
        unfold MiniJSSim.sim. cbn [cc_nocalls cc_denv]. split; [exact (wrote_wok _ _ _ W1 Hg)|]. split; [rewrite C1; exact Hn|].
        split; [rewrite S3, C1; exact ER1|]. split; [rewrite Dj1; exact DR|]. split; [rewrite S3, N3, B3; exact G|]. split; [rewrite B3; exact Hbuf1|congruence].
      - (* a placeholder that is a core print *)
        destruct (stmt_step_strong st je jst (SPrint e ds) fuel t1 env1 old (or_intror (ex_intro _ e (ex_intro _ ds eq_refl))) Hob Hd1 Hsim Hw1 Hlv E1)
          as (st1 & ws1 & rv & je1 & jst1 & Ewk & W1 & C1 & M1 & A1 & Ej & Eg & Og & I3 & B3 & S3 & N3 & Hsim1 & Hlv1).
        assert (Henv : env1 = sc_lookup (ctx st)).
        { rewrite sout_print in E1. destruct (ceval _ _ e) as [v|]; [|discriminate]. destruct (scalar_string v); [|discriminate].
          destruct (cleanb _); [|discriminate]. inversion E1; reflexivity. }
        exists st1, ws1, je1, jst1. unfold mbind.
        rewrite (walk_b_is_walk cf plural_index bd fuel _ (msgfree_print e ds) st), Ewk.
        rewrite sgen_print_eq in S3, N3. cbn [fst snd] in S3, N3.
        split; [reflexivity|]. split; [exact W1|]. split; [exact C1|]. split; [exact M1|]. split; [intro k; rewrite A1, Henv; reflexivity|].
        split; [exact Ej|]. split; [exact Eg|]. split; [exact Og|]. repeat (split; [assumption|]). assumption. 
      - (* a placeholder that is an html tag *)
        rewrite sout_raw in E1. inversion E1; subst t1 env1. clear E1.
        destruct Hsim as (Hg & Hn & ER & DR & G & Hbuf & Hmode). cbn [cc_nocalls cc_denv] in Hn, DR.
        destruct fuel as [|f]; [cbn in Hd1; lia|].
        assert (Hg0 : wok (set_cur st q)) by (destruct st; exact Hg).
        destruct (write_wok t (set_cur st q) Hg0) as (st1 & Ew & W1 & C1 & M1).
        destruct (js_exec_stmt (c_ij cf) (mode st) denv (fun _ _ => None) (fun _ _ _ => OutOfModel) (j_buf jst) (SRaw t) (j_scope jst) (j_n jst) (sc_lookup (ctx st)) je old t
                    (sc_lookup (ctx st)) (JSAppendLit (j_buf jst) t) (j_scope jst) (j_n jst) (nocallee_js _ _) G ltac:(apply sout_raw) ER Hbuf DR ltac:(reflexivity))
          as (je1 & Ej & (ER1 & Hbuf1) & (Dj1 & _)).
        destruct (gres_walk o f (NMsgHtmlTag q t) jst (sprint (j_indent jst) (JSAppendLit (j_buf jst) t))
                    _ _ _ _ _ _ _ _ _ _ eq_refl (shape_refl jst)
                    (fun st1 H1 => gres_raw_text t st1 _ _ _ _ _ H1)) as (jst1 & Eg & Og & (I3 & B3 & A3 & S3 & N3) & _).
        exists st1, [t], je1, jst1. unfold mbind.
        rewrite (walk_b_is_walk cf plural_index bd (S f) (NMsgHtmlTag q t) eq_refl st), walk_unfold. cbn [walk_node pos_of]. unfold mbind.
        rewrite Ew. cbn [concat_b]. rewrite app_nil_r.
        assert (C0 : ctx st1 = ctx st) by (rewrite C1; destruct st; reflexivity).
        assert (M0 : mode st1 = mode st) by (rewrite M1; destruct st; reflexivity).
        split; [reflexivity|]. split; [exact (wrote_l _ _ _ _ (pres_wsame _ _ (pres_set_cur st q)) W1)|]. split; [reflexivity|]. split; [exact M0|].
        split; [intro k; rewrite C0; reflexivity|].
        split; [exact Ej|]. split; [exact Eg|]. split; [exact Og|]. split; [exact I3|]. split; [exact B3|]. split; [exact S3|]. split; [exact N3|].
        split; [|rewrite S3; exact Hlv].
        unfold MiniJSSim.sim. cbn [cc_nocalls cc_denv]. split; [exact (wrote_wok _ _ _ W1 Hg0)|]. split; [rewrite C0; exact Hn|].
        split; [rewrite S3, C0; exact ER1|]. split; [rewrite Dj1; exact DR|]. split; [rewrite S3, N3, B3; exact G|]. split; [rewrite B3; exact Hbuf1|congruence]. }
    destruct Hstep as (st1 & ws1 & je1 & jst1 & Ego & W1 & C1 & M1 & A1 & Ej & Eg & Og & I3 & B3 & S3 & N3 & Hsim1 & Hlv1).
    (* the rest of the items from the new states *)
    assert (E2' : stmts_text (mode st1) (sc_lookup (ctx st1)) ss = Some t2).
    { rewrite M1. rewrite (stmts_text_ext (mode st) _ _ ss Hplain A1). exact E2. }
    destruct (IH st1 je1 jst1 (old ++ t1) t2 Hob Hd2 Hw2 Hsim1 Hlv1 E2')
      as (st2 & ws2 & je2 & jst2 & Ego2 & W2 & C2 & M2 & A2 & Ej2 & Eg2 & Og2 & I4 & B4 & S4 & N4 & Hsim2 & Hlv2).
    rewrite M1, B3, S3, N3, I3 in *.
    exists st2, (ws1 ++ ws2), je2, jst2. cbn [stmts_js map js_exec_seq flat_map].
    split.
    { destruct His as [t|p n e ds|p n q t]; cbn [run_items]; unfold mbind in *.
      - destruct (write t st) as [[[]|?|?| | | ] sx]; inversion Ego; subst. exact Ego2.
      - destruct (walk_b cf plural_index bd fuel (snode (SPrint e ds)) st) as [[x|?|?| | | ] sx]; cbn in Ego; inversion Ego; subst. exact Ego2.
      - destruct (walk_b cf plural_index bd fuel (NMsgHtmlTag q t) st) as [[x|?|?| | | ] sx]; cbn in Ego; inversion Ego; subst. exact Ego2. }
    split; [exact (wrote_trans _ _ _ _ _ W1 W2)|].
    split. { rewrite <- C1, <- C2. clear. induction ws1 as [|x r IHr]; [reflexivity|]. cbn [app concat_b]. rewrite IHr, app_assoc. reflexivity. }
    split; [congruence|]. split; [intro k; rewrite A2, A1; reflexivity|].
    split; [rewrite Ej; exact Ej2|].
    split.
    { destruct His as [t|p n e ds|p n q t]; cbn [jrun_items]; unfold jbind; rewrite Eg; exact Eg2. }
    split; [rewrite Og2, Og, rev_app_distr, app_assoc; reflexivity|].
    split; [congruence|]. split; [congruence|]. split; [congruence|]. split; [congruence|].
    split; [rewrite app_assoc; exact Hsim2|exact Hlv2].
Qed.

(* ... and the message itself: soyhtml's evalMsg and soyjs's visitMsgNode for a flat message whose catalogue
   entry is the translation tr, when every slot of tr resolves to a core print *)
Theorem three_sided_translation fuel mp id body tr msgs ss :
  forallb flat_node body = true -> items_named body tr -> parts_clean (map item_part tr) ->
  bundle_message bd id = Some (new_message [] [msgstr_of tr]) ->
  o_msgs o = Some msgs -> assoc_n id msgs = Some (jparts_of_cmsg (new_message [] [msgstr_of tr])) ->
  Forall2 item_stmt (map (resolve body) tr) ss ->
  forall st je jst old text,
  c_oblig cf = [] -> Forall (fun s => (sdepth s < fuel)%nat) ss -> Forall (fun s => swf lv s = true) ss ->
  sim cf st je jst old -> lvok lv (j_scope jst) ->
  stmts_text (mode st) (sc_lookup (ctx st)) ss = Some text ->
  exists st' ws je' jst',
    let js := stmts_js (mode st) (j_buf jst) (j_scope jst) (j_n jst) ss in
    eval_msg plural_index bd (walk_b cf plural_index bd fuel) mp id body st = (Ok tt, st') /\ wrote st st' ws /\ concat_b ws = text
    /\ js_exec_seq je js = Ok je'
    /\ visit_msg o (jwalk o fuel) id body jst = Ok (tt, jst')
    /\ j_out jst' = rev (flat_map (sprint (j_indent jst)) js) ++ j_out jst
    /\ sim cf st' je' jst' (old ++ text) /\ lvok lv (j_scope jst').
Proof.
  intros Hflat Hnamed Hclean Hbd Ho Ha Hit st je jst old text Hob Hd Hw Hsim Hlv Ht.
  rewrite (translation_places_values plural_index bd _ mp id body tr Hflat Hnamed Hclean Hbd).
  rewrite (js_translation_places_values o _ id body tr msgs Hflat Hnamed Hclean Ho Ha).
  destruct (three_sided_items fuel _ _ Hit st je jst old text Hob Hd Hw Hsim Hlv Ht)
    as (st' & ws & je' & jst' & E1 & W & C & _ & _ & Ej & Eg & Og & _ & _ & _ & _ & Hs & Hl).
  exists st', ws, je', jst'. repeat (split; [assumption|]). assumption.
Qed.

End Three.
