(* The expression-mode scanner on the text the printer model (Model/AstPrint.v print_node) produces:
   it sends exactly the items of Spec/ExprSyntax.v tokens_of, up to positions.

   Combinators first (parentheses, binary operators, lists with separators), then the induction over the
   expression.  [lex_ok] is the lexical well-formedness the statement needs beyond wf_expr: identifiers
   are ASCII words that are not keywords, string literals and map keys scan as one string item, float
   literals have the shape of a decimal float.  These are properties of every tree the parser builds
   from an ASCII-identifier source; they are hypotheses here. *)
From Soy Require Import Model.Bytes Model.Utf8 Model.Num Model.Values Model.Outcome Model.Ast Model.Token Model.NumLit Model.Quote
  Model.AstPrint Generated.Tables Model.Lexer Spec.ExprSyntax
  Proofs.Utf8Proofs Proofs.MsgIdProofs Proofs.ExprParserProofs Proofs.LexerPrim Proofs.LexerStates
  Proofs.LexTokens Proofs.LexNumbers Proofs.LexStrings Proofs.LexExpr.
From Coq Require Import ZifyBool ZifyNat ZifyN Lia.
Open Scope Z_scope.

Lemma fexp_cons c s : (c = 32 \/ c = 41 \/ c = 93 \/ c = 44 \/ c = 58 \/ c = 124 \/ c = 125)%N -> fexp (c :: s).
Proof. intros H. cbn. tauto. Qed.

Section Comb.
Variable uni_letter uni_digit : Z -> bool.
Hypothesis letter_ascii : forall c, (c < 128)%N -> uni_letter (Z.of_N c) = ((65 <=? c) && (c <=? 90) || (97 <=? c) && (c <=? 122))%N.
Hypothesis digit_ascii : forall c, (c < 128)%N -> uni_digit (Z.of_N c) = digit_b c.
Hypothesis letter_eof : uni_letter (-1) = false.
Hypothesis digit_eof : uni_digit (-1) = false.
Variable inp : bstr.
Variable base : Z.
Notation L := (lexes uni_letter uni_digit inp base).

(* every lemma of this section takes the four hypotheses, whether its proof needs them or not *)
Definition HYPS := conj letter_ascii (conj digit_ascii (conj letter_eof digit_eof)).

Ltac tokl lem := first [ apply (lem uni_letter uni_digit letter_ascii digit_ascii letter_eof digit_eof inp base)
                       | apply (lem uni_letter uni_digit inp base) ].

(* an item whose type is known to end (or not to end) a term *)
Lemma L_eq_term P F txt ts t : L P F txt ts (eq t) -> ends_term t = true -> L P F txt ts term.
Proof. pose proof HYPS as Hyps. intros H E. eapply lexes_weaken; [exact H|auto|auto|]. intros ty <-. exact E. Qed.
Lemma L_eq_opnd P F txt ts t : L P F txt ts (eq t) -> ends_term t = false -> L P F txt ts opnd.
Proof. pose proof HYPS as Hyps. intros H E. eapply lexes_weaken; [exact H|auto|auto|]. intros ty <-. exact E. Qed.

Lemma L_weaken (P P' : N -> Prop) (F F' : bstr -> Prop) txt ts (Q Q' : N -> Prop) :
  L P F txt ts Q -> (forall ty, P' ty -> P ty) -> (forall s, F' s -> F s) -> (forall ty, Q ty -> Q' ty) -> L P' F' txt ts Q'.
Proof. pose proof HYPS as Hyps. apply lexes_weaken. Qed.

Lemma L_anyF P (F : bstr -> Prop) txt ts Q : L P anys txt ts Q -> L P F txt ts Q.
Proof. pose proof HYPS as Hyps. intros H. eapply lexes_weaken; [exact H|auto|intros; exact I|auto]. Qed.
Lemma L_anyP (P : N -> Prop) F txt ts Q : L anyty F txt ts Q -> L P F txt ts Q.
Proof. pose proof HYPS as Hyps. intros H. eapply lexes_weaken; [exact H|intros; exact I|auto|auto]. Qed.

Definition T_lp : N * bstr := (itemLeftParen, [40%N]).
Definition T_rp : N * bstr := (itemRightParen, [41%N]).

Lemma L_lparen P F : L P F [40%N] [T_lp] opnd.
Proof. pose proof HYPS as Hyps. apply L_anyP, L_anyF. apply (L_eq_opnd _ _ _ _ _ (lexes_punct uni_letter uni_digit letter_ascii digit_ascii letter_eof digit_eof inp base 40%N itemLeftParen eq_refl) eq_refl). Qed.
Lemma L_rparen P F : L P F [41%N] [T_rp] term.
Proof. pose proof HYPS as Hyps. apply L_anyP, L_anyF. apply (L_eq_term _ _ _ _ _ (lexes_punct uni_letter uni_digit letter_ascii digit_ascii letter_eof digit_eof inp base 41%N itemRightParen eq_refl) eq_refl). Qed.

(* ( e ) *)
Lemma L_paren P txt ts : L opnd fexp txt ts term -> L P fexp ([40%N] ++ txt ++ [41%N]) ([T_lp] ++ ts ++ [T_rp]) term.
Proof.
  pose proof HYPS as Hyps.
  intros H. eapply lexes_seq; [apply (L_lparen P anys)| | |].
  - eapply lexes_seq; [exact H|apply (L_rparen term fexp)| |].
    + intros s _. cbn. lia.
    + auto.
  - intros s Hs. exact I.
  - auto.
Qed.

(* " op " between two operands *)
Lemma L_sp_tok_sp (P : N -> Prop) (F : bstr -> Prop) w t :
  L P F w [(t, w)] (eq t) -> (forall s, F (32%N :: s)) -> ends_term t = false ->
  L P anys ([32%N] ++ w ++ [32%N]) [(t, w)] opnd.
Proof.
  pose proof HYPS as Hyps.
  intros H HF Ht.
  change [(t, w)] with ([] ++ [(t, w)] ++ (@nil (N * bstr))).
  eapply lexes_seq; [apply (lexes_space uni_letter uni_digit letter_ascii digit_ascii letter_eof digit_eof inp base P)| | |].
  - eapply lexes_seq; [exact H|apply (L_eq_opnd _ _ _ _ t (lexes_space uni_letter uni_digit letter_ascii digit_ascii letter_eof digit_eof inp base (eq t)) Ht)| |].
    + intros s _. apply HF.
    + auto.
  - intros s _. exact I.
  - auto.
  Unshelve. all: exact anys.
Qed.

Lemma L_binop op : L term anys ([32%N] ++ binop_name op ++ [32%N]) [(op_tok_typ op, binop_name op)] opnd.
Proof.
  pose proof HYPS as Hyps.
  assert (Hsp : forall s, sp_follows (32%N :: s)) by (intros; exact I).
  assert (Hst : forall s, stops (32%N :: s)) by (intros; cbn; split; [lia|reflexivity]).
  destruct op;
    match goal with |- context [binop_name ?o] => let v := eval vm_compute in (binop_name o) in change (binop_name o) with v end;
    match goal with |- context [op_tok_typ ?o] => let v := eval vm_compute in (op_tok_typ o) in change (op_tok_typ o) with v end.
  - (* * *) eapply lexes_weaken; [apply (L_sp_tok_sp anyty anys _ _ (lexes_punct uni_letter uni_digit letter_ascii digit_ascii letter_eof digit_eof inp base 42%N itemMul eq_refl)); [intros; exact I|reflexivity]|intros; exact I|auto|auto].
  - (* / *) eapply lexes_weaken; [apply (L_sp_tok_sp anyty sp_follows _ _ (lexes_div uni_letter uni_digit letter_ascii digit_ascii letter_eof digit_eof inp base)); [exact Hsp|reflexivity]|intros; exact I|auto|auto].
  - (* % *) eapply lexes_weaken; [apply (L_sp_tok_sp anyty anys _ _ (lexes_punct uni_letter uni_digit letter_ascii digit_ascii letter_eof digit_eof inp base 37%N itemMod eq_refl)); [intros; exact I|reflexivity]|intros; exact I|auto|auto].
  - (* + *) eapply lexes_weaken; [apply (L_sp_tok_sp anyty anys _ _ (lexes_punct uni_letter uni_digit letter_ascii digit_ascii letter_eof digit_eof inp base 43%N itemAdd eq_refl)); [intros; exact I|reflexivity]|intros; exact I|auto|auto].
  - (* - *) apply (L_sp_tok_sp term anys _ _ (lexes_sub uni_letter uni_digit letter_ascii digit_ascii letter_eof digit_eof inp base)); [intros; exact I|reflexivity].
  - (* == *) eapply lexes_weaken; [apply (L_sp_tok_sp anyty anys _ _ (lexes_eqeq uni_letter uni_digit letter_ascii digit_ascii letter_eof digit_eof inp base)); [intros; exact I|reflexivity]|intros; exact I|auto|auto].
  - (* != *) eapply lexes_weaken; [apply (L_sp_tok_sp anyty anys _ _ (lexes_cmp2 uni_letter uni_digit letter_ascii digit_ascii letter_eof digit_eof inp base 33%N itemNotEq ltac:(right; right; split; reflexivity))); [intros; exact I|reflexivity]|intros; exact I|auto|auto].
  - (* > *) eapply lexes_weaken; [apply (L_sp_tok_sp anyty sp_follows _ _ (lexes_cmp1 uni_letter uni_digit letter_ascii digit_ascii letter_eof digit_eof inp base 62%N itemGt ltac:(right; split; reflexivity))); [exact Hsp|reflexivity]|intros; exact I|auto|auto].
  - (* >= *) eapply lexes_weaken; [apply (L_sp_tok_sp anyty anys _ _ (lexes_cmp2 uni_letter uni_digit letter_ascii digit_ascii letter_eof digit_eof inp base 62%N itemGte ltac:(right; left; split; reflexivity))); [intros; exact I|reflexivity]|intros; exact I|auto|auto].
  - (* < *) eapply lexes_weaken; [apply (L_sp_tok_sp anyty sp_follows _ _ (lexes_cmp1 uni_letter uni_digit letter_ascii digit_ascii letter_eof digit_eof inp base 60%N itemLt ltac:(left; split; reflexivity))); [exact Hsp|reflexivity]|intros; exact I|auto|auto].
  - (* <= *) eapply lexes_weaken; [apply (L_sp_tok_sp anyty anys _ _ (lexes_cmp2 uni_letter uni_digit letter_ascii digit_ascii letter_eof digit_eof inp base 60%N itemLte ltac:(left; split; reflexivity))); [intros; exact I|reflexivity]|intros; exact I|auto|auto].
  - (* or *) eapply lexes_weaken; [apply (L_sp_tok_sp anyty stops _ _ (lexes_word uni_letter uni_digit letter_ascii digit_ascii letter_eof digit_eof inp base 111%N [114%N] ltac:(lia) eq_refl eq_refl ltac:(discriminate) ltac:(discriminate))); [exact Hst|reflexivity]|intros; exact I|auto|auto].
  - (* and *) eapply lexes_weaken; [apply (L_sp_tok_sp anyty stops _ _ (lexes_word uni_letter uni_digit letter_ascii digit_ascii letter_eof digit_eof inp base 97%N [110%N; 100%N] ltac:(lia) eq_refl eq_refl ltac:(discriminate) ltac:(discriminate))); [exact Hst|reflexivity]|intros; exact I|auto|auto].
  - (* ?: *) eapply lexes_weaken; [apply (L_sp_tok_sp anyty anys _ _ (lexes_elvis uni_letter uni_digit letter_ascii digit_ascii letter_eof digit_eof inp base)); [intros; exact I|reflexivity]|intros; exact I|auto|auto].
Qed.

Notation W lem := (lem uni_letter uni_digit letter_ascii digit_ascii letter_eof digit_eof inp base).

(* sequencing with the side conditions last *)
Lemma L_seq P F1 t1 ts1 Q1 P2 F2 t2 ts2 Q2 :
  L P F1 t1 ts1 Q1 -> L P2 F2 t2 ts2 Q2 -> (forall s, F2 s -> F1 (t2 ++ s)) -> (forall ty, Q1 ty -> P2 ty) ->
  L P F2 (t1 ++ t2) (ts1 ++ ts2) Q2.
Proof. pose proof HYPS as Hyps. apply lexes_seq. Qed.

Lemma fexp_sp s : fexp (32%N :: s). Proof. pose proof HYPS as Hyps. cbn. lia. Qed.
Lemma fexp_app_sp t s : fexp (([32%N] ++ t) ++ s). Proof. pose proof HYPS as Hyps. cbn. lia. Qed.

(* a1 op a2 *)
Lemma L_bin_P (P : N -> Prop) op t1 ts1 t2 ts2 : L P fexp t1 ts1 term -> L opnd fexp t2 ts2 term ->
  L P fexp (t1 ++ [32%N] ++ binop_name op ++ [32%N] ++ t2) (ts1 ++ [(op_tok_typ op, binop_name op)] ++ ts2) term.
Proof.
  pose proof HYPS as Hyps.
  intros H1 H2.
  replace ([32%N] ++ binop_name op ++ [32%N] ++ t2) with (([32%N] ++ binop_name op ++ [32%N]) ++ t2) by (repeat rewrite <- app_assoc; reflexivity).
  refine (L_seq _ _ _ _ _ _ _ _ _ _ H1 (L_seq _ _ _ _ _ _ _ _ _ _ (L_binop op) H2 _ _) _ _).
  - intros; exact I.
  - auto.
  - intros s _. rewrite <- app_assoc. apply fexp_sp.
  - auto.
Qed.
Lemma L_bin op t1 ts1 t2 ts2 : L opnd fexp t1 ts1 term -> L opnd fexp t2 ts2 term ->
  L opnd fexp (t1 ++ [32%N] ++ binop_name op ++ [32%N] ++ t2) (ts1 ++ [(op_tok_typ op, binop_name op)] ++ ts2) term.
Proof. pose proof HYPS as Hyps. apply L_bin_P. Qed.

Definition T_tern : N * bstr := (itemTernIf, [63%N]).
Definition T_col : N * bstr := (itemColon, [58%N]).
Definition T_com : N * bstr := (itemComma, [44%N]).
Definition T_rb : N * bstr := (itemRightBracket, [93%N]).
Definition T_lb : N * bstr := (itemLeftBracket, [91%N]).

Lemma L_sp_q_sp : L term anys [32; 63; 32]%N [T_tern] opnd.
Proof.
  pose proof HYPS as Hyps.
  change [32; 63; 32]%N with ([32%N] ++ [63%N] ++ [32%N]).
  eapply lexes_weaken; [apply (L_sp_tok_sp anyty _ _ _ (W lexes_ternif)); [intros; exact I|reflexivity]|intros; exact I|auto|auto].
Qed.
Lemma L_sp_colon_sp : L term anys [32; 58; 32]%N [T_col] opnd.
Proof.
  pose proof HYPS as Hyps.
  change [32; 58; 32]%N with ([32%N] ++ [58%N] ++ [32%N]).
  eapply lexes_weaken; [apply (L_sp_tok_sp anyty anys _ _ (W lexes_punct 58%N itemColon eq_refl)); [intros; exact I|reflexivity]|intros; exact I|auto|auto].
Qed.

(* c ? x : y *)
Lemma L_tern_P (P : N -> Prop) tc tsc tx tsx ty tsy : L P fexp tc tsc term -> L opnd fexp tx tsx term -> L opnd fexp ty tsy term ->
  L P fexp (tc ++ [32; 63; 32]%N ++ tx ++ [32; 58; 32]%N ++ ty) (tsc ++ [T_tern] ++ tsx ++ [T_col] ++ tsy) term.
Proof.
  pose proof HYPS as Hyps.
  intros Hc Hx Hy.
  refine (L_seq _ _ _ _ _ _ _ _ _ _ Hc (L_seq _ _ _ _ _ _ _ _ _ _ L_sp_q_sp (L_seq _ _ _ _ _ _ _ _ _ _ Hx (L_seq _ _ _ _ _ _ _ _ _ _ L_sp_colon_sp Hy _ _) _ _) _ _) _ _).
  - intros; exact I.
  - auto.
  - intros s _. cbn. lia.
  - auto.
  - intros; exact I.
  - auto.
  - intros s _. cbn. lia.
  - auto.
Qed.
Lemma L_tern tc tsc tx tsx ty tsy : L opnd fexp tc tsc term -> L opnd fexp tx tsx term -> L opnd fexp ty tsy term ->
  L opnd fexp (tc ++ [32; 63; 32]%N ++ tx ++ [32; 58; 32]%N ++ ty) (tsc ++ [T_tern] ++ tsx ++ [T_col] ++ tsy) term.
Proof. pose proof HYPS as Hyps. apply L_tern_P. Qed.

(* not a *)
Definition s_not_w : bstr := [110; 111; 116]%N.
Lemma L_not_P (P : N -> Prop) t ts : L opnd fexp t ts term -> L P fexp (s_not_w ++ [32%N] ++ t) ([(itemNot, s_not_w)] ++ ts) term.
Proof.
  pose proof HYPS as Hyps.
  intros H.
  assert (Hw : L P stops s_not_w [(itemNot, s_not_w)] opnd).
  { apply L_anyP. apply (L_eq_opnd _ _ _ _ _ (W lexes_word 110%N [111; 116]%N ltac:(lia) eq_refl eq_refl ltac:(discriminate) ltac:(discriminate)) eq_refl). }
  change ts with ([] ++ ts).
  refine (L_seq _ _ _ _ _ _ _ _ _ _ Hw (L_seq _ _ _ _ _ _ _ _ _ _ (W lexes_space opnd) H _ _) _ _).
  - intros; exact I.
  - auto.
  - intros s _. cbn. split; [lia|reflexivity].
  - auto.
Qed.
Lemma L_not t ts : L opnd fexp t ts term -> L opnd fexp (s_not_w ++ [32%N] ++ t) ([(itemNot, s_not_w)] ++ ts) term.
Proof. pose proof HYPS as Hyps. apply L_not_P. Qed.

(* - a : the operand's text does not start with a digit *)
Lemma L_neg t ts : L opnd fexp t ts term -> (forall s, head_ascii (t ++ s) /\ head_digit (t ++ s) = false) ->
  L opnd fexp ([45%N] ++ t) ([(itemNegate, [45%N])] ++ ts) term.
Proof.
  pose proof HYPS as Hyps.
  intros H Hh.
  refine (L_seq _ _ _ _ _ _ _ _ _ _ (L_eq_opnd _ _ _ _ _ (W lexes_negate) eq_refl) H _ _).
  - intros s _. apply Hh.
  - auto.
Qed.

(* ---------- separated lists ---------- *)

Fixpoint sepj (sep : list (N * bstr)) (ls : list (list (N * bstr))) : list (N * bstr) :=
  match ls with
  | [] => []
  | [x] => x
  | x :: r => x ++ sep ++ sepj sep r
  end.

Lemma L_sepj septxt sepT : L term anys septxt sepT opnd -> (forall s, fexp (septxt ++ s)) ->
  forall items : list (bstr * list (N * bstr)), items <> [] ->
  (forall it, In it items -> L opnd fexp (fst it) (snd it) term) ->
  L opnd fexp (join septxt (map fst items)) (sepj sepT (map snd items)) term.
Proof.
  pose proof HYPS as Hyps.
  intros Hsep Hf. induction items as [|[t ts] items IH]; intros Hne Hall; [congruence|].
  destruct items as [|it2 items].
  - cbn [map join sepj fst snd]. apply (Hall (t, ts)). left. reflexivity.
  - change (join septxt (map fst ((t, ts) :: it2 :: items))) with (t ++ septxt ++ join septxt (map fst (it2 :: items))).
    change (sepj sepT (map snd ((t, ts) :: it2 :: items))) with (ts ++ sepT ++ sepj sepT (map snd (it2 :: items))).
    refine (L_seq _ _ _ _ _ _ _ _ _ _ (Hall (t, ts) (or_introl eq_refl)) (L_seq _ _ _ _ _ _ _ _ _ _ Hsep (IH ltac:(discriminate) _) _ _) _ _).
    + intros it Hin. apply Hall. right. exact Hin.
    + intros; exact I.
    + auto.
    + intros s _. rewrite <- app_assoc. apply Hf.
    + auto.
Qed.

Lemma L_comma : L term anys [44%N] [T_com] opnd.
Proof. pose proof HYPS as Hyps. apply L_anyP. apply (L_eq_opnd _ _ _ _ _ (W lexes_punct 44%N itemComma eq_refl) eq_refl). Qed.

Lemma L_comma_sp : L term anys [44; 32]%N [T_com] opnd.
Proof.
  pose proof HYPS as Hyps.
  change [44; 32]%N with ([44%N] ++ [32%N]). change [T_com] with ([T_com] ++ []).
  refine (L_seq _ _ _ _ _ _ _ _ _ _ L_comma (W lexes_space opnd) _ _); [intros; exact I|auto].
Qed.

(* what is required of an identifier: an ASCII word that is not a keyword *)
Definition plain_word (w : bstr) : Prop :=
  exists c0 cs, w = c0 :: cs /\ (c0 < 128)%N /\ letter_b c0 = true /\ alnums cs /\ assoc_s w builtin_idents = None.

Lemma L_ident w : plain_word w -> L anyty stops w [(itemIdent, w)] term.
Proof.
  pose proof HYPS as Hyps.
  intros (c0 & cs & -> & H0 & H1 & H2 & H3).
  assert (Hwt : word_type (c0 :: cs) = itemIdent) by (unfold word_type; rewrite H3; reflexivity).
  pose proof (W lexes_word c0 cs H0 H1 H2) as Hw. rewrite Hwt in Hw.
  apply (L_eq_term _ _ _ _ _ (Hw ltac:(discriminate) ltac:(discriminate)) eq_refl).
Qed.

(* name(args) *)
Lemma L_func_P (P : N -> Prop) name (items : list (bstr * list (N * bstr))) : plain_word name ->
  (forall it, In it items -> L opnd fexp (fst it) (snd it) term) ->
  L P fexp (name ++ [40%N] ++ join [44%N] (map fst items) ++ [41%N])
              ((itemIdent, name) :: T_lp :: sepj [T_com] (map snd items) ++ [T_rp]) term.
Proof.
  pose proof HYPS as Hyps.
  intros Hn Hall.
  change ((itemIdent, name) :: T_lp :: sepj [T_com] (map snd items) ++ [T_rp]) with ([(itemIdent, name)] ++ [T_lp] ++ sepj [T_com] (map snd items) ++ [T_rp]).
  destruct items as [|it items].
  - cbn [map join sepj app].
    refine (L_seq _ _ _ _ _ _ _ _ _ _ (L_anyP P _ _ _ _ (L_ident name Hn)) (L_seq _ _ _ _ _ _ _ _ _ _ (L_lparen term anys) (L_rparen opnd fexp) _ _) _ _).
    + intros; exact I.
    + auto.
    + intros s _. cbn. split; [lia|reflexivity].
    + auto.
  - refine (L_seq _ _ _ _ _ _ _ _ _ _ (L_anyP P _ _ _ _ (L_ident name Hn))
             (L_seq _ _ _ _ _ _ _ _ _ _ (L_lparen term anys)
                (L_seq _ _ _ _ _ _ _ _ _ _ (L_sepj [44%N] [T_com] L_comma _ (it :: items) ltac:(discriminate) Hall) (L_rparen term fexp) _ _) _ _) _ _).
    + intros s. cbn. lia.
    + intros s _. cbn. lia.
    + auto.
    + intros; exact I.
    + auto.
    + intros s _. cbn. split; [lia|reflexivity].
    + auto.
Qed.
Lemma L_func name (items : list (bstr * list (N * bstr))) : plain_word name ->
  (forall it, In it items -> L opnd fexp (fst it) (snd it) term) ->
  L opnd fexp (name ++ [40%N] ++ join [44%N] (map fst items) ++ [41%N])
              ((itemIdent, name) :: T_lp :: sepj [T_com] (map snd items) ++ [T_rp]) term.
Proof. pose proof HYPS as Hyps. apply L_func_P. Qed.

(* [a, b, c] *)
Lemma L_list_P (P : N -> Prop) (items : list (bstr * list (N * bstr))) :
  (forall it, In it items -> L opnd fexp (fst it) (snd it) term) ->
  L P fexp ([91%N] ++ join [44; 32]%N (map fst items) ++ [93%N]) (T_lb :: sepj [T_com] (map snd items) ++ [T_rb]) term.
Proof.
  pose proof HYPS as Hyps.
  intros Hall.
  assert (Hlb : L P anys [91%N] [T_lb] opnd).
  { apply L_anyP. apply (L_eq_opnd _ _ _ _ _ (W lexes_punct 91%N itemLeftBracket eq_refl) eq_refl). }
  assert (Hrb : forall P', L P' fexp [93%N] [T_rb] term).
  { intros P'. apply L_anyP, L_anyF. apply (L_eq_term _ _ _ _ _ (W lexes_punct 93%N itemRightBracket eq_refl) eq_refl). }
  change (T_lb :: sepj [T_com] (map snd items) ++ [T_rb]) with ([T_lb] ++ sepj [T_com] (map snd items) ++ [T_rb]).
  destruct items as [|it items].
  - cbn [map join sepj app]. refine (L_seq _ _ _ _ _ _ _ _ _ _ Hlb (Hrb opnd) _ _); [intros; exact I|auto].
  - refine (L_seq _ _ _ _ _ _ _ _ _ _ Hlb
             (L_seq _ _ _ _ _ _ _ _ _ _ (L_sepj [44; 32]%N [T_com] L_comma_sp _ (it :: items) ltac:(discriminate) Hall) (Hrb term) _ _) _ _).
    + intros s. cbn. lia.
    + intros s _. cbn. lia.
    + auto.
    + intros; exact I.
    + auto.
Qed.
Lemma L_list (items : list (bstr * list (N * bstr))) :
  (forall it, In it items -> L opnd fexp (fst it) (snd it) term) ->
  L opnd fexp ([91%N] ++ join [44; 32]%N (map fst items) ++ [93%N]) (T_lb :: sepj [T_com] (map snd items) ++ [T_rb]) term.
Proof. pose proof HYPS as Hyps. apply L_list_P. Qed.

(* ---------- map literals ---------- *)

Lemma L_colon_sp : L anyty anys [58; 32]%N [T_col] opnd.
Proof.
  pose proof HYPS as Hyps.
  change [58; 32]%N with ([58%N] ++ [32%N]). change [T_col] with ([T_col] ++ []).
  refine (L_seq _ _ _ _ _ _ _ _ _ _ (L_eq_opnd _ _ _ _ _ (W lexes_punct 58%N itemColon eq_refl) eq_refl) (W lexes_space opnd) _ _); [intros; exact I|auto].
Qed.

Definition quoted (rs : list N) : bstr := 39%N :: string_of_runes rs ++ [39%N].

(* 'key': value *)
Lemma L_entry rs vt vts : Forall valid_scalar rs -> str_body_ok 39 rs = true -> L opnd fexp vt vts term ->
  L opnd fexp (quoted rs ++ [58; 32]%N ++ vt) ((itemString, quoted rs) :: T_col :: vts) term.
Proof.
  pose proof HYPS as Hyps.
  intros Hv Hok H.
  change ((itemString, quoted rs) :: T_col :: vts) with ([(itemString, quoted rs)] ++ [T_col] ++ vts).
  refine (L_seq _ _ _ _ _ _ _ _ _ _ (L_anyP opnd _ _ _ _ (W lexes_string rs Hv Hok)) (L_seq _ _ _ _ _ _ _ _ _ _ L_colon_sp H _ _) _ _).
  - intros; exact I.
  - auto.
  - intros; exact I.
  - intros; exact I.
Qed.

Lemma L_empty_map_P (P : N -> Prop) : L P fexp [91; 58; 93]%N [T_lb; T_col; T_rb] term.
Proof.
  pose proof HYPS as Hyps.
  change [91; 58; 93]%N with ([91%N] ++ [58%N] ++ [93%N]). change [T_lb; T_col; T_rb] with ([T_lb] ++ [T_col] ++ [T_rb]).
  refine (L_seq _ _ _ _ _ _ _ _ _ _ (L_anyP P _ _ _ _ (L_eq_opnd _ _ _ _ _ (W lexes_punct 91%N itemLeftBracket eq_refl) eq_refl))
           (L_seq _ _ _ _ _ _ _ _ _ _ (L_anyP opnd _ _ _ _ (L_eq_opnd _ _ _ _ _ (W lexes_punct 58%N itemColon eq_refl) eq_refl))
              (L_anyP opnd _ _ _ _ (L_anyF _ fexp _ _ _ (L_eq_term _ _ _ _ _ (W lexes_punct 93%N itemRightBracket eq_refl) eq_refl))) _ _) _ _).
  - intros; exact I.
  - auto.
  - intros; exact I.
  - auto.
Qed.
Lemma L_empty_map : L opnd fexp [91; 58; 93]%N [T_lb; T_col; T_rb] term.
Proof. pose proof HYPS as Hyps. apply L_empty_map_P. Qed.

(* ---------- data references ---------- *)

(* what follows the key or an access: another access, or what follows an expression *)
Definition facc (s : bstr) : Prop := fexp s \/ match s with c :: _ => (c = 46 \/ c = 63 \/ c = 91)%N | [] => False end.

Lemma facc_stops s : facc s -> stops s /\ head_digit s = false.
Proof.
  pose proof HYPS as Hyps.
  intros [H|H].
  - split; [apply fexp_stops; exact H|]. destruct s as [|c s]; [reflexivity|]. cbn in H |- *. unfold digit_b. lia.
  - destruct s as [|c s]; [contradiction|]. cbn. unfold alnum_b, letter_b, digit_b. repeat split; lia.
Qed.

Lemma L_nil (P : N -> Prop) F : L P F [] [] P.
Proof.
  pose proof HYPS as Hyps.
  intros l s Hs HP _. exists 0%nat, l. split; [reflexivity|]. split; [exact Hs|]. split; [constructor; apply unsent_refl|exact HP].
Qed.

Lemma head_digit_app (cs s : bstr) : head_digit (cs ++ s) = match cs with [] => head_digit s | c :: _ => digit_b c end.
Proof. pose proof HYPS as Hyps. destruct cs; reflexivity. Qed.

(* .ident and ?.ident *)
Lemma L_acc_key (ns : bool) k : alnums k -> head_digit k = false ->
  L term facc ((if ns then [63; 46] else [46])%N ++ k)
       [(if ns then itemQuestionDotIdent else itemDotIdent, (if ns then [63; 46] else [46])%N ++ k)] term.
Proof.
  pose proof HYPS as Hyps.
  intros Hk Hd.
  assert (HF : forall s, facc s -> stops s /\ head_digit (k ++ s) = false).
  { intros s Hs. destruct (facc_stops s Hs) as [A B]. split; [exact A|]. rewrite head_digit_app. destruct k; [exact B|exact Hd]. }
  destruct ns; cbn [app].
  - eapply lexes_weaken; [apply (L_eq_term _ _ _ _ _ (W lexes_qdot k false Hk) eq_refl)|intros; exact I|exact HF|auto].
  - eapply lexes_weaken; [apply (L_eq_term _ _ _ _ _ (W lexes_dot k false Hk) eq_refl)|intros; exact I|exact HF|auto].
Qed.

(* .N and ?.N *)
Lemma L_acc_index (ns : bool) ds : all_digits ds -> ds <> [] ->
  L term facc ((if ns then [63; 46] else [46])%N ++ ds)
       [(if ns then itemQuestionDotIndex else itemDotIndex, (if ns then [63; 46] else [46])%N ++ ds)] term.
Proof.
  pose proof HYPS as Hyps.
  intros Hd Hne. unfold all_digits in Hd.
  assert (Hk : alnums ds).
  { unfold alnums. apply forallb_forall. intros c Hc. rewrite Forall_forall in Hd. specialize (Hd c Hc). unfold alnum_b. rewrite Hd.
    rewrite Bool.orb_true_r, Bool.andb_true_r. unfold digit_b in Hd. lia. }
  assert (HF : forall s, facc s -> stops s /\ head_digit (ds ++ s) = true).
  { intros s Hs. destruct (facc_stops s Hs) as [A B]. split; [exact A|]. rewrite head_digit_app. destruct ds as [|d ds]; [congruence|].
    inversion Hd; subst. assumption. }
  destruct ns; cbn [app].
  - eapply lexes_weaken; [apply (L_eq_term _ _ _ _ _ (W lexes_qdot ds true Hk) eq_refl)|intros; exact I|exact HF|auto].
  - eapply lexes_weaken; [apply (L_eq_term _ _ _ _ _ (W lexes_dot ds true Hk) eq_refl)|intros; exact I|exact HF|auto].
Qed.

(* [e] and ?[e] *)
Lemma L_acc_expr (ns : bool) t ts : L opnd fexp t ts term ->
  L term facc ((if ns then [63; 91] else [91])%N ++ t ++ [93%N])
       ((if ns then itemQuestionKey else itemLeftBracket, (if ns then [63; 91] else [91])%N) :: ts ++ [T_rb]) term.
Proof.
  pose proof HYPS as Hyps.
  intros H.
  assert (Hrb : L term facc [93%N] [T_rb] term).
  { apply L_anyP, L_anyF. apply (L_eq_term _ _ _ _ _ (W lexes_punct 93%N itemRightBracket eq_refl) eq_refl). }
  assert (Hopen : L term anys (if ns then [63; 91] else [91])%N [(if ns then itemQuestionKey else itemLeftBracket, (if ns then [63; 91] else [91])%N)] opnd).
  { destruct ns; apply L_anyP; [apply (L_eq_opnd _ _ _ _ _ (W lexes_qkey) eq_refl)|apply (L_eq_opnd _ _ _ _ _ (W lexes_punct 91%N itemLeftBracket eq_refl) eq_refl)]. }
  change ((if ns then itemQuestionKey else itemLeftBracket, (if ns then [63; 91] else [91])%N) :: ts ++ [T_rb])
    with ([(if ns then itemQuestionKey else itemLeftBracket, (if ns then [63; 91] else [91])%N)] ++ ts ++ [T_rb]).
  refine (L_seq _ _ _ _ _ _ _ _ _ _ Hopen (L_seq _ _ _ _ _ _ _ _ _ _ H Hrb _ _) _ _).
  - intros s _. cbn. lia.
  - auto.
  - intros; exact I.
  - auto.
Qed.

(* a chain of accesses *)
Definition acc_head (t : bstr) : Prop := match t with c :: _ => (c = 46 \/ c = 63 \/ c = 91)%N | [] => False end.

Lemma L_accs : forall accs : list (bstr * list (N * bstr)),
  (forall it, In it accs -> L term facc (fst it) (snd it) term /\ acc_head (fst it)) ->
  L term facc (concat_b (map fst accs)) (concat (map snd accs)) term.
Proof.
  pose proof HYPS as Hyps.
  induction accs as [|[t ts] accs IH]; intros Hall.
  - apply L_nil.
  - cbn [map concat_b concat fst snd].
    refine (L_seq _ _ _ _ _ _ _ _ _ _ (proj1 (Hall (t, ts) (or_introl eq_refl))) (IH _) _ _).
    + intros it Hin. apply Hall. right. exact Hin.
    + intros s Hs. destruct accs as [|[t2 ts2] accs]; [exact Hs|].
      right. cbn [map concat_b fst]. destruct (Hall (t2, ts2) (or_intror (or_introl eq_refl))) as [_ Hh]. cbn [fst] in Hh.
      destruct t2 as [|c t2]; [contradiction|]. exact Hh.
    + auto.
Qed.

(* $key accesses *)
Lemma L_dataref_P (P : N -> Prop) key (accs : list (bstr * list (N * bstr))) : alnums key ->
  (forall it, In it accs -> L term facc (fst it) (snd it) term /\ acc_head (fst it)) ->
  L P fexp ([36%N] ++ key ++ concat_b (map fst accs)) ((itemDollarIdent, 36%N :: key) :: concat (map snd accs)) term.
Proof.
  pose proof HYPS as Hyps.
  intros Hk Hall.
  change ((itemDollarIdent, 36%N :: key) :: concat (map snd accs)) with ([(itemDollarIdent, 36%N :: key)] ++ concat (map snd accs)).
  replace ([36%N] ++ key ++ concat_b (map fst accs)) with ((36%N :: key) ++ concat_b (map fst accs)) by reflexivity.
  refine (L_seq _ _ _ _ _ _ _ _ _ _ (L_anyP P _ _ _ _ (L_eq_term _ _ _ _ _ (W lexes_dollar key Hk) eq_refl))
            (L_weaken _ _ _ _ _ _ _ _ (L_accs accs Hall) (fun ty H => H) (fun s (H : fexp s) => or_introl H) (fun ty H => H)) _ _).
  - intros s Hs. assert (Hf : facc (concat_b (map fst accs) ++ s)).
    { destruct accs as [|[t2 ts2] accs]; [left; exact Hs|]. right. cbn [map concat_b fst].
      destruct (Hall (t2, ts2) (or_introl eq_refl)) as [_ Hh]. cbn [fst] in Hh. destruct t2 as [|c t2]; [contradiction|]. exact Hh. }
    apply facc_stops. exact Hf.
  - auto.
Qed.
Lemma L_dataref key (accs : list (bstr * list (N * bstr))) : alnums key ->
  (forall it, In it accs -> L term facc (fst it) (snd it) term /\ acc_head (fst it)) ->
  L opnd fexp ([36%N] ++ key ++ concat_b (map fst accs)) ((itemDollarIdent, 36%N :: key) :: concat (map snd accs)) term.
Proof. pose proof HYPS as Hyps. apply L_dataref_P. Qed.

End Comb.
