(* C04, the statement stages put together: one simulation step over the three sides *)
From Soy Require Import Model.Bytes Model.Num Model.Values Model.Outcome Model.Ast Model.JsGen Model.MiniJS
  Model.Escape Model.Directives Model.Print Generated.Tables Model.Interp
  Proofs.EscapeProofs Proofs.MiniJSProofs Proofs.MiniJSPrint Proofs.MiniJSStmt Model.MsgId Proofs.MsgIdProofs Proofs.MiniJSCtl Proofs.MiniJSGo Proofs.MiniJSGen.
Open Scope N_scope.

(* ================================================================== *)
(* gen_correct_partial_stmt: the three sides together, as one simulation step.

   [sim] relates a state of the Go renderer's model, a JavaScript environment and a state of the generator:
   the writer does not fail, the scope stack is not empty, every Soy variable is where the generator's scope says
   it is (env_rel), the generated names in scope and the buffer variable carry counters up to the generator's
   counter and the buffer variable is none of them (ginv), the buffer variable holds the text written so far,
   and the generator's autoescape mode is the renderer's.

   For a statement s of the subset (raw text, print, let, if / elseif / else, switch; nested blocks) with
   [sout s = Some (text, env')]:
   (Go)  the walker of Model/Interp.v writes exactly text; a variable looked up afterwards has the value env' gives;
   (JS)  executing the MiniJS statement [sgen ..] appends exactly text to the buffer variable;
   (Gen) walking the node in Model/JsGen.v emits exactly the chunks of that MiniJS statement;
   and the three resulting states are related by [sim] again (with the longer buffer text), so the theorem applies
   to the next statement. *)
(* what a statement with calls is relative to: the data of the template being rendered (data="all" passes it on), the
   text a callee writes for given data, the JavaScript function of a callee, and a fuel that suffices for every call *)
Record callctx := {
  cc_denv : bstr -> option value;
  cc_callee : bstr -> (bstr -> option value) -> option bstr;
  cc_jfn : bstr -> jval -> jval -> outcome bstr;
  cc_fuel : nat;
}.
(* (Go) the template a call names exists, and entering it (state.walk of its node in a scope that holds the callee's
   data, autoescape mode of its namespace) writes the callee's text and gives the caller's scope and mode back *)
Definition go_callee_ok (cf : cfg) (callee : bstr -> (bstr -> option value) -> option bstr) (cfuel : nat) : Prop :=
  forall name cenv text, callee name cenv = Some text ->
  exists t, find_template (r_templates (c_reg cf)) name = Some t /\
    forall f st cd, (cfuel <= f)%nat -> wok st -> cd <> [] -> (forall k, sc_lookup cd k = cenv k) -> envok cenv ->
      exists st' ws rv, call_enter (walk cf f) t cd st = (Ok rv, st') /\ wrote st st' ws /\ concat_b ws = text
                        /\ mode st' = mode st /\ ctx st' = ctx st.
(* (JS) the function of a callee returns the callee's text for every data object that holds the callee's data *)
Definition js_callee_ok (ij : option value) (callee : bstr -> (bstr -> option value) -> option bstr)
                        (jfn : bstr -> jval -> jval -> outcome bstr) : Prop :=
  forall name cenv text jd ijv, callee name cenv = Some text -> datarel cenv jd ->
    (forall v, ij = Some v -> ijv = to_js v) -> jfn name jd ijv = Ok text.
Definition callctx_ok (cf : cfg) (o : jopts) (cc : callctx) : Prop :=
  cn_ok o /\ o_msgs o = None /\ envok (cc_denv cc) /\ go_callee_ok cf (cc_callee cc) (cc_fuel cc) /\ js_callee_ok (c_ij cf) (cc_callee cc) (cc_jfn cc).

Definition sim (cf : cfg) (cc : callctx) (st : mstate) (je : jenv) (jst : jstate) (old : bstr) : Prop :=
  wok st /\ dinv (cc_denv cc) (ctx st)
  /\ env_rel (j_scope jst) (c_ij cf) (sc_lookup (ctx st)) je
  /\ datarel (cc_denv cc) (je_data je)
  /\ ginv (j_scope jst) (j_n jst) (j_buf jst)
  /\ assoc_s (j_buf jst) (je_vars je) = Some (JStr old)
  /\ j_auto jst = mode st.

Lemma env_rel_ext sc ij env1 env2 je : (forall k, env1 k = env2 k) -> env_rel sc ij env1 je -> env_rel sc ij env2 je.
Proof.
  intros H [Ev Ei Ec Eci El]. constructor; auto.
  - intros key Hid Hk. specialize (Ev key Hid Hk). unfold env_val in *. rewrite <- H. exact Ev.
  - intro key. specialize (Ec key). unfold env_val in *. rewrite <- H. exact Ec.
  - intros x i. rewrite <- !H. apply El.
Qed.

Definition sim_step (cf : cfg) (o : jopts) (cc : callctx) (lv : list bstr) (st : mstate) (je : jenv) (jst : jstate) (s : cstmt) (fuel : nat)
                    (text : bstr) (env' : bstr -> option value) (old : bstr) : Prop :=
  exists st' ws rv je' jst',
    let j := fst (sgen (mode st) (j_buf jst) (j_scope jst) (j_n jst) s) in
    (* Go *)  walk cf fuel (snode s) st = (Ok rv, st') /\ wrote st st' ws /\ concat_b ws = text
              /\ mode st' = mode st /\ tl (ctx st') = tl (ctx st) /\ (forall k, sc_lookup (ctx st') k = env' k)
    (* JS *)  /\ js_exec (cc_jfn cc) je j = Ok je' /\ je_data je' = je_data je
    (* Gen *) /\ jwalk o fuel (snode s) jst = Ok (tt, jst') /\ j_out jst' = rev (sprint (j_indent jst) j) ++ j_out jst
              /\ j_indent jst' = j_indent jst /\ j_buf jst' = j_buf jst /\ tl (j_scope jst') = tl (j_scope jst)
    /\ sim cf cc st' je' jst' (old ++ text) /\ lvok lv (j_scope jst').

Theorem gen_correct_partial_stmt cf o cc lv st je jst s fuel text env' old :
  c_oblig cf = [] -> callctx_ok cf o cc -> (cc_fuel cc + sdepth s < fuel)%nat -> sim cf cc st je jst old ->
  swf lv s = true -> lvok lv (j_scope jst) ->
  sout (c_ij cf) (mode st) go_print_text (cc_denv cc) (cc_callee cc) (sc_lookup (ctx st)) s = Some (text, env') ->
  sim_step cf o cc lv st je jst s fuel text env' old.
Proof.
  intros Hob (Hcn & Hnb & Hdenv & HGo & HJs) Hf (Hg & Hd & ER & DR & G & Hbuf & Hmode) Hwf Hlv E. unfold sim_step.
  destruct (sgen (mode st) (j_buf jst) (j_scope jst) (j_n jst) s) as [j [sc' n']] eqn:Eg. cbn [fst].
  assert (Hc : envok (sc_lookup (ctx st))).
  { intros k x Hk. pose proof (er_core _ _ _ _ ER k) as H. unfold env_val in H. rewrite Hk in H. exact H. }
  assert (Hij : forall x, c_ij cf = Some x -> core_value x = true) by (intros x Hx; exact (er_core_ij _ _ _ _ ER x Hx)).
  pose proof (dinv_nonempty _ _ Hd) as Hn.
  (* Go *)
  destruct (proj1 (interp_all cf Hob Hij (cc_denv cc) Hdenv (cc_callee cc) (cc_fuel cc) HGo) s fuel st text (sc_lookup (ctx st)) env' Hf Hg Hn
              (conj (fun k => eq_refl) Hd) Hc E)
    as (st' & ws & rv & E1 & W1 & C1 & M1 & N1 & T1 & A1 & D1).
  (* JS *)
  destruct (proj1 (js_exec_all (c_ij cf) (mode st) (cc_denv cc) (cc_callee cc) (cc_jfn cc) HJs) s (j_buf jst) (j_scope jst) (j_n jst) (sc_lookup (ctx st)) je old text env' j sc' n' G E (conj ER Hbuf) DR Eg)
    as (je' & E2 & (ER' & Hbuf') & (D2 & F2)).
  (* Gen *)
  destruct (proj1 (sgen_print_all o Hcn Hnb) s lv fuel jst j sc' n' (j_indent jst) (j_buf jst) (j_auto jst) (j_scope jst) (j_n jst) ltac:(lia) (gi_nonempty _ _ _ G)
              Hlv Hwf (shape_refl jst)) as (jst' & E3 & O3 & (I3 & B3 & A3 & S3 & N3) & _). { rewrite Hmode. exact Eg. }
  destruct (sgen_scope _ _ _ _ _ _ _ _ Eg (gi_nonempty _ _ _ G)) as [Htl _].
  assert (ER2 : env_rel (j_scope jst') (c_ij cf) (sc_lookup (ctx st')) je').
  { rewrite S3. eapply env_rel_ext; [|exact ER']. intro k. symmetry. apply A1. }
  assert (G2 : ginv (j_scope jst') (j_n jst') (j_buf jst')).
  { rewrite S3, N3, B3. apply (ginv_after _ _ _ _ _ _ _ _ (swf_binder lv s Hwf) Eg G). }
  exists st', ws, rv, je', jst'.
  split; [exact E1|]. split; [exact W1|]. split; [exact C1|]. split; [exact M1|]. split; [exact T1|]. split; [exact A1|].
  split; [exact E2|]. split; [exact D2|]. split; [exact E3|]. split; [exact O3|]. split; [exact I3|]. split; [exact B3|].
  split; [rewrite S3; exact Htl|].
  split; [|rewrite S3; exact (lvok_after lv _ _ _ _ _ _ _ _ (swf_binder lv s Hwf) Eg Hlv)].
  unfold sim. split; [exact (wrote_wok _ _ _ W1 Hg)|]. split; [exact D1|]. split; [exact ER2|]. split; [rewrite D2; exact DR|].
  split; [exact G2|]. split; [rewrite B3; exact Hbuf'|congruence].
Qed.

(* the stages by name *)
Theorem gen_correct_partial_if cf o cc lv st je jst c th rest fuel text env' old :
  c_oblig cf = [] -> callctx_ok cf o cc -> (cc_fuel cc + sdepth (SIf c th rest) < fuel)%nat -> sim cf cc st je jst old ->
  swf lv (SIf c th rest) = true -> lvok lv (j_scope jst) ->
  sout (c_ij cf) (mode st) go_print_text (cc_denv cc) (cc_callee cc) (sc_lookup (ctx st)) (SIf c th rest) = Some (text, env') ->
  sim_step cf o cc lv st je jst (SIf c th rest) fuel text env' old.
Proof. apply gen_correct_partial_stmt. Qed.
Theorem gen_correct_partial_let cf o cc lv st je jst name e fuel text env' old :
  c_oblig cf = [] -> callctx_ok cf o cc -> (cc_fuel cc + sdepth (SLet name e) < fuel)%nat -> sim cf cc st je jst old ->
  swf lv (SLet name e) = true -> lvok lv (j_scope jst) ->
  sout (c_ij cf) (mode st) go_print_text (cc_denv cc) (cc_callee cc) (sc_lookup (ctx st)) (SLet name e) = Some (text, env') ->
  sim_step cf o cc lv st je jst (SLet name e) fuel text env' old.
Proof. apply gen_correct_partial_stmt. Qed.
Theorem gen_correct_partial_let_content cf o cc lv st je jst name body fuel text env' old :
  c_oblig cf = [] -> callctx_ok cf o cc -> (cc_fuel cc + sdepth (SLetC name body) < fuel)%nat -> sim cf cc st je jst old ->
  swf lv (SLetC name body) = true -> lvok lv (j_scope jst) ->
  sout (c_ij cf) (mode st) go_print_text (cc_denv cc) (cc_callee cc) (sc_lookup (ctx st)) (SLetC name body) = Some (text, env') ->
  sim_step cf o cc lv st je jst (SLetC name body) fuel text env' old.
Proof. apply gen_correct_partial_stmt. Qed.
Theorem gen_correct_partial_switch cf o cc lv st je jst v cs fuel text env' old :
  c_oblig cf = [] -> callctx_ok cf o cc -> (cc_fuel cc + sdepth (SSwitch v cs) < fuel)%nat -> sim cf cc st je jst old ->
  swf lv (SSwitch v cs) = true -> lvok lv (j_scope jst) ->
  sout (c_ij cf) (mode st) go_print_text (cc_denv cc) (cc_callee cc) (sc_lookup (ctx st)) (SSwitch v cs) = Some (text, env') ->
  sim_step cf o cc lv st je jst (SSwitch v cs) fuel text env' old.
Proof. apply gen_correct_partial_stmt. Qed.

(* {foreach $x in e}..{ifempty}..{/foreach} with index($x) / isFirst($x) / isLast($x) of this and of enclosing loops in the
   body: the Go renderer binds $x, the hidden $x.index and $x.lastIndex in a frame of its own; the JavaScript declares
   xList_n / xLimit_n, counts xIndex_n from 0 and binds x_n = xList_n[xIndex_n] each time round *)
Theorem gen_correct_partial_loops cf o cc lv st je jst x e body hasie ie fuel text env' old :
  c_oblig cf = [] -> callctx_ok cf o cc -> (cc_fuel cc + sdepth (SFor x e body hasie ie) < fuel)%nat -> sim cf cc st je jst old ->
  swf lv (SFor x e body hasie ie) = true -> lvok lv (j_scope jst) ->
  sout (c_ij cf) (mode st) go_print_text (cc_denv cc) (cc_callee cc) (sc_lookup (ctx st)) (SFor x e body hasie ie) = Some (text, env') ->
  sim_step cf o cc lv st je jst (SFor x e body hasie ie) fuel text env' old.
Proof. apply gen_correct_partial_stmt. Qed.

(* {for $x in range(..)}: the Go renderer builds the list range() returns and loops over it as over any list; the
   JavaScript declares xInit_n / xStep_n, computes xLimit_n = Math.max(0, Math.ceil((limit - xInit_n) / xStep_n)) and binds
   x_n = xInit_n + xIndex_n * xStep_n each time round (a positive step; limit - init within 2^53) *)
Theorem gen_correct_partial_for_range cf o cc lv st je jst x a1 rest body hasie ie fuel text env' old :
  c_oblig cf = [] -> callctx_ok cf o cc -> (cc_fuel cc + sdepth (SForRange x a1 rest body hasie ie) < fuel)%nat -> sim cf cc st je jst old ->
  swf lv (SForRange x a1 rest body hasie ie) = true -> lvok lv (j_scope jst) ->
  sout (c_ij cf) (mode st) go_print_text (cc_denv cc) (cc_callee cc) (sc_lookup (ctx st)) (SForRange x a1 rest body hasie ie) = Some (text, env') ->
  sim_step cf o cc lv st je jst (SForRange x a1 rest body hasie ie) fuel text env' old.
Proof. apply gen_correct_partial_stmt. Qed.

(* {css sfx} and {css e, sfx}: the Go renderer writes String(e) + "-" + sfx in one Write; the JavaScript appends  e + '-'  and then 'sfx' *)
Theorem gen_correct_partial_css cf o cc lv st je jst e sfx fuel text env' old :
  c_oblig cf = [] -> callctx_ok cf o cc -> (cc_fuel cc + sdepth (SCss e sfx) < fuel)%nat -> sim cf cc st je jst old ->
  swf lv (SCss e sfx) = true -> lvok lv (j_scope jst) ->
  sout (c_ij cf) (mode st) go_print_text (cc_denv cc) (cc_callee cc) (sc_lookup (ctx st)) (SCss e sfx) = Some (text, env') ->
  sim_step cf o cc lv st je jst (SCss e sfx) fuel text env' old.
Proof. apply gen_correct_partial_stmt. Qed.

(* the general statement with sim and sim_step unfolded, for a renderer that writes to its output (no capture
   buffer, no budget), as stated in Properties/C04.v *)
Theorem gen_correct_partial_stmt_unfolded : forall cf o cc lv st je jst s fuel text env' old,
  c_oblig cf = [] -> callctx_ok cf o cc -> (cc_fuel cc + sdepth s < fuel)%nat ->
  swf lv s = true -> lvok lv (j_scope jst) ->
  (* sim cf cc st je jst old *)
  bufs st = [] -> calls_left st = None -> bytes_left st = None -> dinv (cc_denv cc) (ctx st) ->
  env_rel (j_scope jst) (c_ij cf) (sc_lookup (ctx st)) je ->
  datarel (cc_denv cc) (je_data je) ->
  ginv (j_scope jst) (j_n jst) (j_buf jst) ->
  assoc_s (j_buf jst) (je_vars je) = Some (JStr old) ->
  j_auto jst = mode st ->
  sout (c_ij cf) (mode st) go_print_text (cc_denv cc) (cc_callee cc) (sc_lookup (ctx st)) s = Some (text, env') ->
  exists st' ws rv je' jst',
    let j := fst (sgen (mode st) (j_buf jst) (j_scope jst) (j_n jst) s) in
    walk cf fuel (snode s) st = (Ok rv, st') /\ out st' = rev ws ++ out st /\ concat_b ws = text
    /\ mode st' = mode st /\ tl (ctx st') = tl (ctx st) /\ (forall k, sc_lookup (ctx st') k = env' k)
    /\ js_exec (cc_jfn cc) je j = Ok je' /\ je_data je' = je_data je
    /\ jwalk o fuel (snode s) jst = Ok (tt, jst') /\ j_out jst' = rev (sprint (j_indent jst) j) ++ j_out jst
    /\ j_indent jst' = j_indent jst /\ j_buf jst' = j_buf jst /\ tl (j_scope jst') = tl (j_scope jst)
    (* sim cf cc st' je' jst' (old ++ text) *)
    /\ bufs st' = [] /\ calls_left st' = None /\ bytes_left st' = None /\ dinv (cc_denv cc) (ctx st')
    /\ env_rel (j_scope jst') (c_ij cf) (sc_lookup (ctx st')) je'
    /\ datarel (cc_denv cc) (je_data je')
    /\ ginv (j_scope jst') (j_n jst') (j_buf jst')
    /\ assoc_s (j_buf jst') (je_vars je') = Some (JStr (old ++ text))
    /\ j_auto jst' = mode st' /\ lvok lv (j_scope jst').
Proof.
  intros cf o cc lv st je jst s fuel text env' old Hob Hcc Hf Hwf Hlv H1 H2 H3 H4 H5 H5d H6 H7 H8 E.
  assert (W : wok st) by (unfold wok; rewrite H1; auto).
  destruct (gen_correct_partial_stmt cf o cc lv st je jst s fuel text env' old Hob Hcc Hf (conj W (conj H4 (conj H5 (conj H5d (conj H6 (conj H7 H8)))))) Hwf Hlv E)
    as (st' & ws & rv & je' & jst' & A1 & A2 & A3 & A4 & A5 & A6 & A7 & A8 & A9 & A10 & A11 & A12 & A13 & (B1 & B4 & B5 & B5d & B6 & B7 & B8) & Hlv').
  destruct (wrote_out _ _ _ H1 A2) as [Hb Ho]. destruct A2 as (Hcl & Hby & _).
  exists st', ws, rv, je', jst'. cbn zeta in *.
  split; [exact A1|]. split; [exact Ho|]. split; [exact A3|]. split; [exact A4|]. split; [exact A5|]. split; [exact A6|].
  split; [exact A7|]. split; [exact A8|]. split; [exact A9|]. split; [exact A10|]. split; [exact A11|]. split; [exact A12|]. split; [exact A13|].
  split; [exact Hb|]. split; [congruence|]. split; [congruence|]. split; [exact B4|]. split; [exact B5|]. split; [exact B5d|]. split; [exact B6|]. split; [exact B7|]. split; [exact B8|exact Hlv'].
Qed.

(* the call stage: {call name}, {call name data="all"}, {call name data="$e"} (e a map whose keys are identifiers) with value
   parameters {param k: e /}: the Go renderer builds the callee's scope (a fresh frame with the parameters over nothing,
   over the frames alldata() returns, or over the map), enters the callee and writes what it writes; the JavaScript is
     buf += name(D, opt_sb, opt_ijData);   D = {} | opt_data | e   or   soy.$$augmentMap(D, {k: e, ..})
   -- relative to a context cc that says what the callee writes for given data on both sides (callctx_ok); the theorem
   C04_call_correct (Proofs/MiniJSCall.v) discharges the context for a whole program by induction on the call depth *)
Theorem gen_correct_partial_call cf o cc lv st je jst name d ps fuel text env' old :
  c_oblig cf = [] -> callctx_ok cf o cc -> (cc_fuel cc + sdepth (SCall name d ps) < fuel)%nat -> sim cf cc st je jst old ->
  swf lv (SCall name d ps) = true -> lvok lv (j_scope jst) ->
  sout (c_ij cf) (mode st) go_print_text (cc_denv cc) (cc_callee cc) (sc_lookup (ctx st)) (SCall name d ps) = Some (text, env') ->
  sim_step cf o cc lv st je jst (SCall name d ps) fuel text env' old.
Proof. apply gen_correct_partial_stmt. Qed.

(* a message without plural, rendered without a bundle: {msg desc=".."}text{$x}{call ..}..{/msg} -- raw text and placeholders
   (print, call) walked in the scope of the message on both sides; the generator without a bundle (o_msgs o = None) *)
Theorem gen_correct_partial_msg cf o cc lv st je jst body fuel text env' old :
  c_oblig cf = [] -> callctx_ok cf o cc -> (cc_fuel cc + sdepth (SMsg body) < fuel)%nat -> sim cf cc st je jst old ->
  swf lv (SMsg body) = true -> lvok lv (j_scope jst) ->
  sout (c_ij cf) (mode st) go_print_text (cc_denv cc) (cc_callee cc) (sc_lookup (ctx st)) (SMsg body) = Some (text, env') ->
  sim_step cf o cc lv st je jst (SMsg body) fuel text env' old.
Proof. apply gen_correct_partial_stmt. Qed.

(* a message whose child is a plural with numeric cases, rendered without a bundle: a statement of the subset (SMsgPl), so
   the step is a case of the statement simulation and the plural may occur anywhere in the body of a template *)
Theorem gen_correct_partial_plural_stmt cf o cc lv st je jst pn v q fuel text env' old :
  c_oblig cf = [] -> callctx_ok cf o cc -> (cc_fuel cc + sdepth (SMsgPl pn v q) < fuel)%nat -> sim cf cc st je jst old ->
  swf lv (SMsgPl pn v q) = true -> lvok lv (j_scope jst) ->
  sout (c_ij cf) (mode st) go_print_text (cc_denv cc) (cc_callee cc) (sc_lookup (ctx st)) (SMsgPl pn v q) = Some (text, env') ->
  sim_step cf o cc lv st je jst (SMsgPl pn v q) fuel text env' old.
Proof. apply gen_correct_partial_stmt. Qed.

(* a context for statements without calls: no callee writes anything (sout is None on every call) *)
Definition cc_nocalls (denv : bstr -> option value) : callctx :=
  {| cc_denv := denv; cc_callee := fun _ _ => None; cc_jfn := fun _ _ _ => OutOfModel; cc_fuel := 0 |}.
Lemma nocallee_go cf : go_callee_ok cf (fun _ _ => None) 0.
Proof. intros name cenv text H. discriminate. Qed.
Lemma nocallee_js ij jfn : js_callee_ok ij (fun _ _ => None) jfn.
Proof. intros name cenv text jd ijv H. discriminate. Qed.
Lemma cc_nocalls_ok cf o denv : cn_ok o -> o_msgs o = None -> envok denv -> callctx_ok cf o (cc_nocalls denv).
Proof.
  intros Hcn Hnb Hd. split; [exact Hcn|]. split; [exact Hnb|]. split; [exact Hd|]. split.
  - intros name cenv text H. discriminate.
  - intros name cenv text jd ijv H. discriminate.
Qed.

(* names without an underscore are never generated names *)
Lemma bounded_no_us n g : ~ In 95 g -> bounded n g.
Proof. intros H v m E. exfalso. apply H. rewrite E. unfold jsc_name. apply in_or_app. right. left. reflexivity. Qed.
Lemma bounded_name n v m : m <= n -> bounded n (jsc_name v m).
Proof. intros H v' m' E. apply jsc_name_inj in E. lia. Qed.

(* the JavaScript side for one statement, with jinv and frame unfolded *)
Theorem js_exec_stmt : forall ij mode denv callee jfn buf s sc n env je old text env' j sc' n',
  js_callee_ok ij callee jfn ->
  ginv sc n buf -> sout ij mode go_print_text denv callee env s = Some (text, env') ->
  env_rel sc ij env je -> assoc_s buf (je_vars je) = Some (JStr old) -> datarel denv (je_data je) ->
  sgen mode buf sc n s = (j, (sc', n')) ->
  exists je', js_exec jfn je j = Ok je'
    /\ (env_rel sc' ij env' je' /\ assoc_s buf (je_vars je') = Some (JStr (old ++ text)))
    /\ (je_data je' = je_data je
        /\ forall g, bounded n g -> bstr_eqb g buf = false -> assoc_s g (je_vars je') = assoc_s g (je_vars je)).
Proof.
  intros ij mode denv callee jfn buf s sc n env je old text env' j sc' n' HJ G E ER Hb DR Eg.
  exact (proj1 (js_exec_all ij mode denv callee jfn HJ) s buf sc n env je old text env' j sc' n' G E (conj ER Hb) DR Eg).
Qed.

