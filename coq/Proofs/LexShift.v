(* lexExprAt(name, s, outer, base) sends the items of lexExpr("", s) with their positions shifted by base.

   Model/Parser.v gives parseQuotedExpr the items of the expression-mode scanner shifted to the place of
   the attribute in the enclosing file (map (shift_tok base) (lexq str)); the Go code starts a scanner
   with l.base = base instead (lexExprAt).  This file shows the two agree, for every input and every
   base >= 0: a forward simulation of the whole scanner model (every state function, every inner loop)
   between the run at base 0 and the run at base b.  The states correspond through [shl q]: all fields
   equal, the items sent shifted by b, and lastEmit equal up to its position field [q], which no state
   function reads.  Every lemma has the shape
       f at base 0 on l = Ok v  ->  exists q', f at base b on (shl q l) = Ok (shift q' v)
   (only the direction from a normal return at base 0 is needed: the scanner model returns normally on
   every input, LexerProofs.lex_items_total) and is proved by the tactic [drive], which walks the body
   of the function along the hypothesis and rewrites the goal with the lemma of each callee. *)
From Soy Require Import Model.Bytes Model.Utf8 Model.Outcome Model.Token Model.Lexer Generated.Tables.
From Coq Require Import ZifyBool ZifyNat ZifyN Lia.
Open Scope Z_scope.

Section Shift.
Variable ul ud : Z -> bool.
Variable inp : bstr.
Variable ilen : Z.
Variable b : Z.
Hypothesis Hb : 0 <= b.

Definition sh (t : tok) : tok := {| t_typ := t_typ t; t_pos := (Z.to_N b + t_pos t)%N; t_val := t_val t |}.
Definition setq (q : N) (t : tok) : tok := {| t_typ := t_typ t; t_pos := q; t_val := t_val t |}.
(* the state of the run at base b that corresponds to [l] of the run at base 0; [q]: the position field of
   lastEmit (never read) *)
Definition shl (q : N) (l : lx) : lx :=
  {| l_pos := l_pos l; l_start := l_start l; l_width := l_width l; l_dd := l_dd l; l_last := setq q (l_last l);
     l_out := map sh (l_out l); l_ticks := l_ticks l |}.
Definition sh2 {X} (q : N) (p : X * lx) : X * lx := (fst p, shl q (snd p)).

Tactic Notation "peel" hyp(H) "as" simple_intropattern(v) ident(E) :=
  lazymatch type of H with
  | bind ?X _ = Ok _ => destruct X as [v| | | | |] eqn:E; try discriminate H; cbn [bind] in H
  end.

(* shifts of the result types *)
Definition shsum {X Y} (q : N) (s : X * lx + Y * lx) : X * lx + Y * lx :=
  match s with inl p => inl (sh2 q p) | inr p => inr (sh2 q p) end.
Definition shsl {X} (q : N) (s : X * lx + lx) : X * lx + lx :=
  match s with inl p => inl (sh2 q p) | inr l => inr (shl q l) end.

Lemma backup_fr q l : backup (shl q l) = shl q (backup l). Proof. reflexivity. Qed.
Lemma ignore_fr q l : ignore (shl q l) = shl q (ignore l). Proof. reflexivity. Qed.
Lemma set_pos_fr q l p : set_pos (shl q l) p = shl q (set_pos l p). Proof. reflexivity. Qed.
Lemma set_start_fr q l p : set_start (shl q l) p = shl q (set_start l p). Proof. reflexivity. Qed.
Lemma set_dd_fr q l p : set_dd (shl q l) p = shl q (set_dd l p). Proof. reflexivity. Qed.
Lemma tick_fr q l p : tick (shl q l) p = shl q (tick l p). Proof. reflexivity. Qed.
Lemma loop_fuel_fr q l : loop_fuel ilen (shl q l) = loop_fuel ilen l. Proof. reflexivity. Qed.
Lemma soydoc_fuel_fr q l : soydoc_fuel ilen (shl q l) = soydoc_fuel ilen l. Proof. reflexivity. Qed.

Ltac prj :=
  cbn [shl sh2 shsum shsl setq l_pos l_start l_width l_dd l_last l_out l_ticks t_typ t_val t_pos fst snd
       set_pos set_start set_dd tick backup ignore] in *;
  rewrite ?backup_fr, ?ignore_fr, ?set_pos_fr, ?set_start_fr, ?set_dd_fr, ?tick_fr, ?loop_fuel_fr, ?soydoc_fuel_fr in *.

(* every lemma: f at base 0 on l = Ok v  ->  exists q', f at base b on (shl q l) = Ok (shift q' v) *)

Lemma next_sim q l v : next inp ilen l = Ok v -> exists q', next inp ilen (shl q l) = Ok (sh2 q' v).
Proof.
  intros H. exists q. revert H. unfold next. prj. destruct (ilen <=? l_pos l); [intros H; injection H as <-; reflexivity|].
  destruct (l_pos l <? 0); [discriminate|]. destruct (decode_rune _) as [r0 w]. intros H; injection H as <-. reflexivity.
Qed.

Lemma emit_sim q t l v : emit inp ilen 0 t l = Ok v -> exists q', emit inp ilen b t (shl q l) = Ok (shl q' v).
Proof.
  unfold emit. intros H. cbv zeta in *.
  set (l1 := if ilen <? l_pos l then set_pos l ilen else l) in *.
  assert (E1 : (if ilen <? l_pos (shl q l) then set_pos (shl q l) ilen else shl q l) = shl q l1) by (unfold l1; prj; destruct (ilen <? l_pos l); reflexivity).
  rewrite E1. clear E1. prj.
  destruct (slice inp ilen (l_start l1) (l_pos l1)) as [w| | | | |] eqn:E; try discriminate H. cbn [bind] in *.
  injection H as <-. eexists. prj.
  assert (Hp : 0 <= l_pos l1).
  { unfold slice in E. destruct ((l_start l1 <? 0) || (l_pos l1 <? l_start l1) || (ilen <? l_pos l1)) eqn:C; [discriminate|]. lia. }
  replace (Z.to_N (b + l_pos l1)) with (Z.to_N b + Z.to_N (0 + l_pos l1))%N by lia.
  unfold sh. prj. reflexivity.
Qed.

Lemma errorf_sim q c l v : errorf 0 c l = Ok v -> exists q', errorf b c (shl q l) = Ok (sh2 q' v).
Proof.
  unfold errorf. prj. intros H. destruct (0 + l_pos l <? 0) eqn:C; [discriminate|]. injection H as <-.
  replace (b + l_pos l <? 0) with false by lia. exists q. prj. unfold sh. prj.
  replace (Z.to_N (b + l_pos l)) with (Z.to_N b + Z.to_N (0 + l_pos l))%N by lia. reflexivity.
Qed.

Lemma bind_assoc {A B C} (x : outcome A) (f : A -> outcome B) (g : B -> outcome C) :
  bind (bind x f) g = bind x (fun a => bind (f a) g).
Proof. destruct x; reflexivity. Qed.

(* the driver: [H] is the hypothesis about the run at base 0, [q] the current position field, [ih] an
   induction hypothesis (or any lemma) of the form forall q .. , f l = Ok v -> exists q', .. *)
Ltac findsim q E q1 E1 := fail "no simulation lemma".
Ltac findih ih q E q1 E1 :=
  first [ destruct (ih q _ _ E) as (q1 & E1) | destruct (ih q _ _ _ E) as (q1 & E1) | destruct (ih q _ _ _ _ E) as (q1 & E1)
        | destruct (ih q _ _ _ _ _ E) as (q1 & E1) ].

Ltac drive ih H q :=
  cbv zeta in *; prj;
  lazymatch type of H with
  | bind ?X _ = Ok _ =>
      lazymatch X with
      | Ok _ => cbn [bind] in H |- *; drive ih H q
      | bind _ _ => rewrite bind_assoc in H; rewrite bind_assoc; drive ih H q
      | (if ?c then _ else _) => destruct c eqn:?; drive ih H q
      | match ?p with _ => _ end => destruct p; try discriminate H; drive ih H q
      | context [if ?c then _ else _] => destruct c eqn:?; drive ih H q
      | _ =>
        let v := fresh "v" in let E := fresh "E" in let q1 := fresh "q" in let E1 := fresh "E" in
        destruct X as [v| | | | |] eqn:E; [|discriminate H ..]; cbn [bind] in H;
        first [ first [findih ih q E q1 E1 | findsim q E q1 E1]; prj; first [rewrite E1 | idtac "REWRITE FAILED"; fail 1]; cbn [bind]; clear E E1; drive ih H q1
              | lazymatch type of E with
                | slice _ _ _ _ = _ => cbn [bind]; clear E; drive ih H q
                | byte_at _ _ _ = _ => cbn [bind]; clear E; drive ih H q
                | _ => idtac "STUCK at call"
                end ]
      end
  | Ok _ = Ok _ => injection H as H; subst; eexists; prj; first [reflexivity | repeat (match goal with |- context [if ?c then _ else _] => destruct c end); prj; reflexivity | idtac "STUCK at return"]
  | (if ?c then _ else _) = Ok _ => destruct c eqn:?; drive ih H q
  | match ?p with _ => _ end = Ok _ => destruct p; try discriminate H; drive ih H q
  | _ => let q1 := fresh "q" in let E1 := fresh "E" in first [first [findih ih q H q1 E1 | findsim q H q1 E1]; prj; exists q1; exact E1 | idtac "STUCK at tail"]
  end.
Definition noih := tt.

Ltac findsim q E q1 E1 ::= first
  [ destruct (next_sim q _ _ E) as (q1 & E1)
  | destruct (emit_sim q _ _ _ E) as (q1 & E1)
  | destruct (errorf_sim q _ _ _ E) as (q1 & E1) ].

Lemma peek_sim q l v : peek inp ilen l = Ok v -> exists q', peek inp ilen (shl q l) = Ok (sh2 q' v).
Proof. unfold peek. intros H. drive noih H q. Qed.

Lemma accept_sim q s l v : accept inp ilen s l = Ok v -> exists q', accept inp ilen s (shl q l) = Ok (sh2 q' v).
Proof. unfold accept. intros H. drive noih H q. Qed.

Lemma accept_run_loop_sim s : forall fuel q l v, accept_run_loop inp ilen fuel s l = Ok v ->
  exists q', accept_run_loop inp ilen fuel s (shl q l) = Ok (shl q' v).
Proof.
  induction fuel as [|f IH]; intros q l v H; [discriminate|]. cbn [accept_run_loop] in *.
  drive IH H q.
Qed.

Lemma skip_space_loop_sim : forall fuel q l v, skip_space_loop inp ilen fuel l = Ok v ->
  exists q', skip_space_loop inp ilen fuel (shl q l) = Ok (shl q' v).
Proof. induction fuel as [|f IH]; intros q l v H; [discriminate|]. cbn [skip_space_loop] in *. drive IH H q. Qed.

Lemma alnum_loop_sim : forall fuel q l v, alnum_loop ul ud inp ilen fuel l = Ok v ->
  exists q', alnum_loop ul ud inp ilen fuel (shl q l) = Ok (shl q' v).
Proof. induction fuel as [|f IH]; intros q l v H; [discriminate|]. cbn [alnum_loop] in *. drive IH H q. Qed.

Lemma soydoc_space_loop_sim : forall fuel q l v, soydoc_space_loop inp ilen fuel l = Ok v ->
  exists q', soydoc_space_loop inp ilen fuel (shl q l) = Ok (shl q' v).
Proof. induction fuel as [|f IH]; intros q l v H; [discriminate|]. cbn [soydoc_space_loop] in *. drive IH H q. Qed.

Lemma literal_space_loop_sim : forall fuel q ch l v, literal_space_loop inp ilen fuel ch l = Ok v ->
  exists q', literal_space_loop inp ilen fuel ch (shl q l) = Ok (sh2 q' v).
Proof. induction fuel as [|f IH]; intros q ch l v H; [discriminate|]. cbn [literal_space_loop] in *. drive IH H q. Qed.

Ltac findsim q E q1 E1 ::= first
  [ destruct (next_sim q _ _ E) as (q1 & E1)
  | destruct (emit_sim q _ _ _ E) as (q1 & E1)
  | destruct (errorf_sim q _ _ _ E) as (q1 & E1)
  | destruct (peek_sim q _ _ E) as (q1 & E1)
  | destruct (accept_sim q _ _ _ E) as (q1 & E1)
  | destruct (accept_run_loop_sim _ _ q _ _ E) as (q1 & E1)
  | destruct (skip_space_loop_sim _ q _ _ E) as (q1 & E1)
  | destruct (alnum_loop_sim _ q _ _ E) as (q1 & E1)
  | destruct (soydoc_space_loop_sim _ q _ _ E) as (q1 & E1)
  | destruct (literal_space_loop_sim _ q _ _ _ E) as (q1 & E1) ].

Lemma accept_run_sim q s l v : accept_run inp ilen s l = Ok v -> exists q', accept_run inp ilen s (shl q l) = Ok (sh2 q' v).
Proof. unfold accept_run. intros H. drive noih H q. Qed.

Lemma skip_space_sim q l v : skip_space inp ilen l = Ok v -> exists q', skip_space inp ilen (shl q l) = Ok (shl q' v).
Proof. unfold skip_space. intros H. drive noih H q. Qed.

Lemma maybe_emit_text_sim q l bk v : maybe_emit_text inp ilen 0 l bk = Ok v ->
  exists q', maybe_emit_text inp ilen b (shl q l) bk = Ok (shl q' v).
Proof. unfold maybe_emit_text. intros H. drive noih H q. Qed.

Lemma emit_to_sim q t st l v : emit_to inp ilen 0 t st l = Ok v -> exists q', emit_to inp ilen b t st (shl q l) = Ok (sh2 q' v).
Proof. unfold emit_to. intros H. drive noih H q. Qed.

Lemma double_close_sim q l v : double_close inp ilen 0 l = Ok v -> exists q', double_close inp ilen b (shl q l) = Ok (shsl q' v).
Proof. unfold double_close. intros H. drive noih H q. Qed.

Ltac findsim q E q1 E1 ::= first
  [ destruct (next_sim q _ _ E) as (q1 & E1)
  | destruct (emit_sim q _ _ _ E) as (q1 & E1)
  | destruct (errorf_sim q _ _ _ E) as (q1 & E1)
  | destruct (peek_sim q _ _ E) as (q1 & E1)
  | destruct (accept_sim q _ _ _ E) as (q1 & E1)
  | destruct (accept_run_sim q _ _ _ E) as (q1 & E1)
  | destruct (skip_space_sim q _ _ E) as (q1 & E1)
  | destruct (maybe_emit_text_sim q _ _ _ E) as (q1 & E1)
  | destruct (emit_to_sim q _ _ _ _ E) as (q1 & E1)
  | destruct (double_close_sim q _ _ E) as (q1 & E1)
  | destruct (accept_run_loop_sim _ _ q _ _ E) as (q1 & E1)
  | destruct (skip_space_loop_sim _ q _ _ E) as (q1 & E1)
  | destruct (alnum_loop_sim _ q _ _ E) as (q1 & E1)
  | destruct (soydoc_space_loop_sim _ q _ _ E) as (q1 & E1)
  | destruct (literal_space_loop_sim _ q _ _ _ E) as (q1 & E1) ].

Lemma lex_text_loop_sim : forall fuel q r0 l v, lex_text_loop inp ilen 0 fuel r0 l = Ok v ->
  exists q', lex_text_loop inp ilen b fuel r0 (shl q l) = Ok (sh2 q' v).
Proof. induction fuel as [|f IH]; intros q r0 l v H; [discriminate|]. cbn [lex_text_loop] in *. drive IH H q. Qed.

Lemma lex_text_sim q l v : lex_text inp ilen 0 l = Ok v -> exists q', lex_text inp ilen b (shl q l) = Ok (sh2 q' v).
Proof. unfold lex_text. intros H. prj. apply lex_text_loop_sim. exact H. Qed.

Lemma lex_left_delim_sim q l v : lex_left_delim inp ilen 0 l = Ok v -> exists q', lex_left_delim inp ilen b (shl q l) = Ok (sh2 q' v).
Proof. unfold lex_left_delim. intros H. drive noih H q. Qed.

Lemma lex_right_delim_sim q l v : lex_right_delim inp ilen 0 l = Ok v -> exists q', lex_right_delim inp ilen b (shl q l) = Ok (sh2 q' v).
Proof. unfold lex_right_delim. intros H. drive noih H q. Qed.

Lemma lex_right_delim_end_sim q l v : lex_right_delim_end inp ilen 0 l = Ok v -> exists q', lex_right_delim_end inp ilen b (shl q l) = Ok (sh2 q' v).
Proof. unfold lex_right_delim_end. intros H. drive noih H q. Qed.

Lemma lex_begin_tag_sim q l v : lex_begin_tag inp ilen l = Ok v -> exists q', lex_begin_tag inp ilen (shl q l) = Ok (sh2 q' v).
Proof. unfold lex_begin_tag. intros H. drive noih H q. Qed.

Lemma lex_negative_sim q l v : lex_negative inp ilen 0 l = Ok v -> exists q', lex_negative inp ilen b (shl q l) = Ok (sh2 q' v).
Proof. unfold lex_negative. intros H. drive noih H q. Qed.

Ltac findsim q E q1 E1 ::= first
  [ destruct (next_sim q _ _ E) as (q1 & E1)
  | destruct (emit_sim q _ _ _ E) as (q1 & E1)
  | destruct (errorf_sim q _ _ _ E) as (q1 & E1)
  | destruct (peek_sim q _ _ E) as (q1 & E1)
  | destruct (accept_sim q _ _ _ E) as (q1 & E1)
  | destruct (accept_run_sim q _ _ _ E) as (q1 & E1)
  | destruct (skip_space_sim q _ _ E) as (q1 & E1)
  | destruct (maybe_emit_text_sim q _ _ _ E) as (q1 & E1)
  | destruct (emit_to_sim q _ _ _ _ E) as (q1 & E1)
  | destruct (double_close_sim q _ _ E) as (q1 & E1)
  | destruct (lex_negative_sim q _ _ E) as (q1 & E1)
  | destruct (accept_run_loop_sim _ _ q _ _ E) as (q1 & E1)
  | destruct (skip_space_loop_sim _ q _ _ E) as (q1 & E1)
  | destruct (alnum_loop_sim _ q _ _ E) as (q1 & E1)
  | destruct (soydoc_space_loop_sim _ q _ _ E) as (q1 & E1)
  | destruct (literal_space_loop_sim _ q _ _ _ E) as (q1 & E1) ].

Lemma lex_inside_tag_sim q l v : lex_inside_tag inp ilen 0 l = Ok v -> exists q', lex_inside_tag inp ilen b (shl q l) = Ok (sh2 q' v).
Proof. unfold lex_inside_tag. intros H. drive noih H q. Qed.

Lemma soydoc_ident_loop_sim : forall fuel q l v, soydoc_ident_loop inp ilen 0 fuel l = Ok v ->
  exists q', soydoc_ident_loop inp ilen b fuel (shl q l) = Ok (shl q' v).
Proof. induction fuel as [|f IH]; intros q l v H; [discriminate|]. cbn [soydoc_ident_loop] in *. drive IH H q. Qed.

Ltac findsim q E q1 E1 ::= first
  [ destruct (next_sim q _ _ E) as (q1 & E1)
  | destruct (emit_sim q _ _ _ E) as (q1 & E1)
  | destruct (errorf_sim q _ _ _ E) as (q1 & E1)
  | destruct (peek_sim q _ _ E) as (q1 & E1)
  | destruct (accept_sim q _ _ _ E) as (q1 & E1)
  | destruct (accept_run_sim q _ _ _ E) as (q1 & E1)
  | destruct (skip_space_sim q _ _ E) as (q1 & E1)
  | destruct (maybe_emit_text_sim q _ _ _ E) as (q1 & E1)
  | destruct (emit_to_sim q _ _ _ _ E) as (q1 & E1)
  | destruct (double_close_sim q _ _ E) as (q1 & E1)
  | destruct (lex_negative_sim q _ _ E) as (q1 & E1)
  | destruct (accept_run_loop_sim _ _ q _ _ E) as (q1 & E1)
  | destruct (skip_space_loop_sim _ q _ _ E) as (q1 & E1)
  | destruct (alnum_loop_sim _ q _ _ E) as (q1 & E1)
  | destruct (soydoc_space_loop_sim _ q _ _ E) as (q1 & E1)
  | destruct (literal_space_loop_sim _ q _ _ _ E) as (q1 & E1)
  | destruct (soydoc_ident_loop_sim _ q _ _ E) as (q1 & E1) ].

Lemma lex_soydoc_param_sim q l v : lex_soydoc_param inp ilen 0 l = Ok v -> exists q', lex_soydoc_param inp ilen b (shl q l) = Ok (shl q' v).
Proof. unfold lex_soydoc_param. intros H. drive noih H q. Qed.

Ltac findsim q E q1 E1 ::= first
  [ destruct (next_sim q _ _ E) as (q1 & E1)
  | destruct (emit_sim q _ _ _ E) as (q1 & E1)
  | destruct (errorf_sim q _ _ _ E) as (q1 & E1)
  | destruct (peek_sim q _ _ E) as (q1 & E1)
  | destruct (accept_sim q _ _ _ E) as (q1 & E1)
  | destruct (accept_run_sim q _ _ _ E) as (q1 & E1)
  | destruct (skip_space_sim q _ _ E) as (q1 & E1)
  | destruct (maybe_emit_text_sim q _ _ _ E) as (q1 & E1)
  | destruct (emit_to_sim q _ _ _ _ E) as (q1 & E1)
  | destruct (double_close_sim q _ _ E) as (q1 & E1)
  | destruct (lex_negative_sim q _ _ E) as (q1 & E1)
  | destruct (accept_run_loop_sim _ _ q _ _ E) as (q1 & E1)
  | destruct (skip_space_loop_sim _ q _ _ E) as (q1 & E1)
  | destruct (alnum_loop_sim _ q _ _ E) as (q1 & E1)
  | destruct (soydoc_space_loop_sim _ q _ _ E) as (q1 & E1)
  | destruct (literal_space_loop_sim _ q _ _ _ E) as (q1 & E1)
  | destruct (soydoc_ident_loop_sim _ q _ _ E) as (q1 & E1)
  | destruct (lex_soydoc_param_sim q _ _ E) as (q1 & E1) ].

Lemma soydoc_loop_sim : forall fuel q star sol l v, soydoc_loop inp ilen 0 fuel star sol l = Ok v ->
  exists q', soydoc_loop inp ilen b fuel star sol (shl q l) = Ok (sh2 q' v).
Proof. induction fuel as [|f IH]; intros q star sol l v H; [discriminate|]. cbn [soydoc_loop] in *. drive IH H q. Qed.

Ltac findsim q E q1 E1 ::= first
  [ destruct (next_sim q _ _ E) as (q1 & E1)
  | destruct (emit_sim q _ _ _ E) as (q1 & E1)
  | destruct (errorf_sim q _ _ _ E) as (q1 & E1)
  | destruct (peek_sim q _ _ E) as (q1 & E1)
  | destruct (accept_sim q _ _ _ E) as (q1 & E1)
  | destruct (accept_run_sim q _ _ _ E) as (q1 & E1)
  | destruct (skip_space_sim q _ _ E) as (q1 & E1)
  | destruct (maybe_emit_text_sim q _ _ _ E) as (q1 & E1)
  | destruct (emit_to_sim q _ _ _ _ E) as (q1 & E1)
  | destruct (double_close_sim q _ _ E) as (q1 & E1)
  | destruct (lex_negative_sim q _ _ E) as (q1 & E1)
  | destruct (accept_run_loop_sim _ _ q _ _ E) as (q1 & E1)
  | destruct (skip_space_loop_sim _ q _ _ E) as (q1 & E1)
  | destruct (alnum_loop_sim _ q _ _ E) as (q1 & E1)
  | destruct (soydoc_space_loop_sim _ q _ _ E) as (q1 & E1)
  | destruct (literal_space_loop_sim _ q _ _ _ E) as (q1 & E1)
  | destruct (soydoc_ident_loop_sim _ q _ _ E) as (q1 & E1)
  | destruct (lex_soydoc_param_sim q _ _ E) as (q1 & E1)
  | destruct (soydoc_loop_sim _ q _ _ _ _ E) as (q1 & E1)
  | destruct (lex_text_loop_sim _ q _ _ _ E) as (q1 & E1) ].

Lemma lex_soydoc_sim q l v : lex_soydoc inp ilen 0 l = Ok v -> exists q', lex_soydoc inp ilen b (shl q l) = Ok (sh2 q' v).
Proof. unfold lex_soydoc. intros H. drive noih H q. Qed.

Lemma line_comment_loop_sim : forall fuel q l v, line_comment_loop inp ilen 0 fuel l = Ok v ->
  exists q', line_comment_loop inp ilen b fuel (shl q l) = Ok (sh2 q' v).
Proof. induction fuel as [|f IH]; intros q l v H; [discriminate|]. cbn [line_comment_loop] in *. drive IH H q. Qed.

Lemma block_comment_loop_sim : forall fuel q star l v, block_comment_loop inp ilen 0 fuel star l = Ok v ->
  exists q', block_comment_loop inp ilen b fuel star (shl q l) = Ok (sh2 q' v).
Proof. induction fuel as [|f IH]; intros q star l v H; [discriminate|]. cbn [block_comment_loop] in *. drive IH H q. Qed.

Lemma string_loop_sim : forall fuel q qu l v, string_loop inp ilen 0 fuel qu l = Ok v ->
  exists q', string_loop inp ilen b fuel qu (shl q l) = Ok (sh2 q' v).
Proof. induction fuel as [|f IH]; intros q qu l v H; [discriminate|]. cbn [string_loop] in *. drive IH H q. Qed.

Lemma header_type_loop_sim : forall fuel q lns l v, header_type_loop inp ilen 0 fuel lns l = Ok v ->
  exists q', header_type_loop inp ilen b fuel lns (shl q l) = Ok (shsum q' v).
Proof. induction fuel as [|f IH]; intros q lns l v H; [discriminate|]. cbn [header_type_loop] in *. drive IH H q. Qed.

Lemma css_loop_sim : forall fuel q l v, css_loop inp ilen 0 fuel l = Ok v ->
  exists q', css_loop inp ilen b fuel (shl q l) = Ok (shsl q' v).
Proof. induction fuel as [|f IH]; intros q l v H; [discriminate|]. cbn [css_loop] in *. drive IH H q. Qed.

Ltac findsim q E q1 E1 ::= first
  [ destruct (next_sim q _ _ E) as (q1 & E1)
  | destruct (emit_sim q _ _ _ E) as (q1 & E1)
  | destruct (errorf_sim q _ _ _ E) as (q1 & E1)
  | destruct (peek_sim q _ _ E) as (q1 & E1)
  | destruct (accept_sim q _ _ _ E) as (q1 & E1)
  | destruct (accept_run_sim q _ _ _ E) as (q1 & E1)
  | destruct (skip_space_sim q _ _ E) as (q1 & E1)
  | destruct (maybe_emit_text_sim q _ _ _ E) as (q1 & E1)
  | destruct (emit_to_sim q _ _ _ _ E) as (q1 & E1)
  | destruct (double_close_sim q _ _ E) as (q1 & E1)
  | destruct (lex_negative_sim q _ _ E) as (q1 & E1)
  | destruct (accept_run_loop_sim _ _ q _ _ E) as (q1 & E1)
  | destruct (skip_space_loop_sim _ q _ _ E) as (q1 & E1)
  | destruct (alnum_loop_sim _ q _ _ E) as (q1 & E1)
  | destruct (soydoc_space_loop_sim _ q _ _ E) as (q1 & E1)
  | destruct (literal_space_loop_sim _ q _ _ _ E) as (q1 & E1)
  | destruct (soydoc_ident_loop_sim _ q _ _ E) as (q1 & E1)
  | destruct (lex_soydoc_param_sim q _ _ E) as (q1 & E1)
  | destruct (soydoc_loop_sim _ q _ _ _ _ E) as (q1 & E1)
  | destruct (lex_text_loop_sim _ q _ _ _ E) as (q1 & E1)
  | destruct (line_comment_loop_sim _ q _ _ E) as (q1 & E1)
  | destruct (block_comment_loop_sim _ q _ _ _ E) as (q1 & E1)
  | destruct (string_loop_sim _ q _ _ _ E) as (q1 & E1)
  | destruct (header_type_loop_sim _ q _ _ _ E) as (q1 & E1)
  | destruct (css_loop_sim _ q _ _ E) as (q1 & E1) ].

Lemma lex_line_comment_sim q l v : lex_line_comment inp ilen 0 l = Ok v -> exists q', lex_line_comment inp ilen b (shl q l) = Ok (sh2 q' v).
Proof. unfold lex_line_comment. intros H. drive noih H q. Qed.
Lemma lex_block_comment_sim q l v : lex_block_comment inp ilen 0 l = Ok v -> exists q', lex_block_comment inp ilen b (shl q l) = Ok (sh2 q' v).
Proof. unfold lex_block_comment. intros H. drive noih H q. Qed.
Lemma lex_string_sim q qu l v : lex_string inp ilen 0 qu l = Ok v -> exists q', lex_string inp ilen b qu (shl q l) = Ok (sh2 q' v).
Proof. unfold lex_string. intros H. drive noih H q. Qed.

Lemma lex_ident_sim q l v : lex_ident ul ud inp ilen 0 l = Ok v -> exists q', lex_ident ul ud inp ilen b (shl q l) = Ok (sh2 q' v).
Proof. unfold lex_ident. intros H. drive noih H q. Qed.

Lemma lex_header_param_sim q l v : lex_header_param ul ud inp ilen 0 l = Ok v -> exists q', lex_header_param ul ud inp ilen b (shl q l) = Ok (sh2 q' v).
Proof. unfold lex_header_param. intros H. drive noih H q. Qed.

Lemma lex_css_sim q l v : lex_css inp ilen 0 l = Ok v -> exists q', lex_css inp ilen b (shl q l) = Ok (sh2 q' v).
Proof. unfold lex_css. intros H. drive noih H q. Qed.

Lemma lex_literal_sim q l v : lex_literal inp ilen 0 l = Ok v -> exists q', lex_literal inp ilen b (shl q l) = Ok (sh2 q' v).
Proof. unfold lex_literal. intros H. drive noih H q. Qed.

Lemma scan_hex_sim q l v : scan_hex inp ilen l = Ok v -> exists q', scan_hex inp ilen (shl q l) = Ok (shsum q' v).
Proof. unfold scan_hex. intros H. drive noih H q. Qed.
Lemma scan_mantissa_sim q hs l v : scan_mantissa inp ilen hs l = Ok v -> exists q', scan_mantissa inp ilen hs (shl q l) = Ok (shsum q' v).
Proof. unfold scan_mantissa. intros H. drive noih H q. Qed.
Lemma scan_exponent_sim q t l v : scan_exponent inp ilen t l = Ok v -> exists q', scan_exponent inp ilen t (shl q l) = Ok (shsum q' v).
Proof. unfold scan_exponent. intros H. drive noih H q. Qed.

Ltac findsim q E q1 E1 ::= first
  [ destruct (next_sim q _ _ E) as (q1 & E1)
  | destruct (emit_sim q _ _ _ E) as (q1 & E1)
  | destruct (errorf_sim q _ _ _ E) as (q1 & E1)
  | destruct (peek_sim q _ _ E) as (q1 & E1)
  | destruct (accept_sim q _ _ _ E) as (q1 & E1)
  | destruct (accept_run_sim q _ _ _ E) as (q1 & E1)
  | destruct (skip_space_sim q _ _ E) as (q1 & E1)
  | destruct (maybe_emit_text_sim q _ _ _ E) as (q1 & E1)
  | destruct (emit_to_sim q _ _ _ _ E) as (q1 & E1)
  | destruct (double_close_sim q _ _ E) as (q1 & E1)
  | destruct (lex_negative_sim q _ _ E) as (q1 & E1)
  | destruct (accept_run_loop_sim _ _ q _ _ E) as (q1 & E1)
  | destruct (skip_space_loop_sim _ q _ _ E) as (q1 & E1)
  | destruct (alnum_loop_sim _ q _ _ E) as (q1 & E1)
  | destruct (soydoc_space_loop_sim _ q _ _ E) as (q1 & E1)
  | destruct (literal_space_loop_sim _ q _ _ _ E) as (q1 & E1)
  | destruct (soydoc_ident_loop_sim _ q _ _ E) as (q1 & E1)
  | destruct (lex_soydoc_param_sim q _ _ E) as (q1 & E1)
  | destruct (soydoc_loop_sim _ q _ _ _ _ E) as (q1 & E1)
  | destruct (lex_text_loop_sim _ q _ _ _ E) as (q1 & E1)
  | destruct (line_comment_loop_sim _ q _ _ E) as (q1 & E1)
  | destruct (block_comment_loop_sim _ q _ _ _ E) as (q1 & E1)
  | destruct (string_loop_sim _ q _ _ _ E) as (q1 & E1)
  | destruct (header_type_loop_sim _ q _ _ _ E) as (q1 & E1)
  | destruct (css_loop_sim _ q _ _ E) as (q1 & E1)
  | destruct (scan_hex_sim q _ _ E) as (q1 & E1)
  | destruct (scan_mantissa_sim q _ _ _ E) as (q1 & E1)
  | destruct (scan_exponent_sim q _ _ _ E) as (q1 & E1) ].

Lemma scan_number_sim q l v : scan_number ul ud inp ilen l = Ok v -> exists q', scan_number ul ud inp ilen (shl q l) = Ok (sh2 q' v).
Proof. unfold scan_number. intros H. drive noih H q. Qed.

Ltac findsim q E q1 E1 ::= first
  [ destruct (next_sim q _ _ E) as (q1 & E1)
  | destruct (emit_sim q _ _ _ E) as (q1 & E1)
  | destruct (errorf_sim q _ _ _ E) as (q1 & E1)
  | destruct (peek_sim q _ _ E) as (q1 & E1)
  | destruct (accept_sim q _ _ _ E) as (q1 & E1)
  | destruct (accept_run_sim q _ _ _ E) as (q1 & E1)
  | destruct (skip_space_sim q _ _ E) as (q1 & E1)
  | destruct (maybe_emit_text_sim q _ _ _ E) as (q1 & E1)
  | destruct (emit_to_sim q _ _ _ _ E) as (q1 & E1)
  | destruct (double_close_sim q _ _ E) as (q1 & E1)
  | destruct (lex_negative_sim q _ _ E) as (q1 & E1)
  | destruct (accept_run_loop_sim _ _ q _ _ E) as (q1 & E1)
  | destruct (skip_space_loop_sim _ q _ _ E) as (q1 & E1)
  | destruct (alnum_loop_sim _ q _ _ E) as (q1 & E1)
  | destruct (soydoc_space_loop_sim _ q _ _ E) as (q1 & E1)
  | destruct (literal_space_loop_sim _ q _ _ _ E) as (q1 & E1)
  | destruct (soydoc_ident_loop_sim _ q _ _ E) as (q1 & E1)
  | destruct (lex_soydoc_param_sim q _ _ E) as (q1 & E1)
  | destruct (soydoc_loop_sim _ q _ _ _ _ E) as (q1 & E1)
  | destruct (lex_text_loop_sim _ q _ _ _ E) as (q1 & E1)
  | destruct (line_comment_loop_sim _ q _ _ E) as (q1 & E1)
  | destruct (block_comment_loop_sim _ q _ _ _ E) as (q1 & E1)
  | destruct (string_loop_sim _ q _ _ _ E) as (q1 & E1)
  | destruct (header_type_loop_sim _ q _ _ _ E) as (q1 & E1)
  | destruct (css_loop_sim _ q _ _ E) as (q1 & E1)
  | destruct (scan_hex_sim q _ _ E) as (q1 & E1)
  | destruct (scan_mantissa_sim q _ _ _ E) as (q1 & E1)
  | destruct (scan_exponent_sim q _ _ _ E) as (q1 & E1)
  | destruct (scan_number_sim q _ _ E) as (q1 & E1) ].

Lemma lex_number_sim q l v : lex_number ul ud inp ilen 0 l = Ok v -> exists q', lex_number ul ud inp ilen b (shl q l) = Ok (sh2 q' v).
Proof. unfold lex_number. intros H. drive noih H q. Qed.

Lemma step_sim q st l v : step ul ud inp ilen 0 st l = Ok v -> exists q', step ul ud inp ilen b st (shl q l) = Ok (sh2 q' v).
Proof.
  destruct st; cbn [step]; intros H;
  first [ eapply lex_text_sim; eassumption | eapply lex_left_delim_sim; eassumption | eapply lex_right_delim_sim; eassumption
        | eapply lex_right_delim_end_sim; eassumption | eapply lex_begin_tag_sim; eassumption | eapply lex_inside_tag_sim; eassumption
        | eapply lex_soydoc_sim; eassumption | eapply lex_line_comment_sim; eassumption | eapply lex_block_comment_sim; eassumption
        | eapply lex_string_sim; eassumption | eapply lex_ident_sim; eassumption | eapply lex_header_param_sim; eassumption
        | eapply lex_css_sim; eassumption | eapply lex_literal_sim; eassumption | eapply lex_number_sim; eassumption
        | idtac ].
  injection H as <-. exists q. reflexivity.
Qed.

Lemma run_sim : forall fuel q st l v, run ul ud inp ilen 0 fuel st l = Ok v ->
  exists q', run ul ud inp ilen b fuel st (shl q l) = Ok (shl q' v).
Proof.
  induction fuel as [|f IH]; intros q st l v H.
  - destruct st; cbn [run] in *; try discriminate. injection H as <-. exists q. reflexivity.
  - assert (Hd : st = LDone \/ st <> LDone) by (destruct st; auto; right; discriminate).
    destruct Hd as [->|Hd].
    + cbn [run] in *. injection H as <-. exists q. reflexivity.
    + assert (E0 : forall base l0, run ul ud inp ilen base (S f) st l0 =
                    bind (step ul ud inp ilen base st l0) (fun p => run ul ud inp ilen base f (fst p) (snd p))).
      { intros base l0. destruct st; try congruence; cbn [run]; destruct (step _ _ _ _ _ _ _) as [[s1 l1]| | | | |]; reflexivity. }
      rewrite E0 in *. destruct (step ul ud inp ilen 0 st l) as [[s1 l1]| | | | |] eqn:E; try discriminate H. cbn [bind fst snd] in H.
      destruct (step_sim q _ _ _ E) as (q1 & E1). rewrite E1. cbn [bind sh2 fst snd].
      apply IH. exact H.
Qed.

End Shift.

(* lexExprAt(name, s, outer, base), base >= 0: the items of lexExpr("", s), each position shifted by base *)
Definition shift_items (base : Z) (ts : list tok) : list tok := map (sh base) ts.

Theorem lex_items_at_shift (ul ud : Z -> bool) (base : Z) (fuel : nat) (s : bstr) (ts : list tok) :
  0 <= base -> lex_items ul ud fuel true s = Ok ts -> lex_items_at ul ud base fuel s = Ok (shift_items base ts).
Proof.
  intros Hb H. unfold lex_items, lex_items_at, lex_run, lex_run_at in *.
  destruct (run ul ud s (Z.of_nat (length s)) 0 fuel (entry_state true) lex_init) as [l| | | | |] eqn:E; try discriminate H.
  cbn [bind] in H. injection H as <-.
  destruct (run_sim ul ud s (Z.of_nat (length s)) base Hb fuel 0%N _ _ _ E) as (q1 & E1).
  change (shl base 0%N lex_init) with lex_init in E1. rewrite E1. cbn [bind shl l_out].
  unfold shift_items. rewrite map_rev. reflexivity.
Qed.
