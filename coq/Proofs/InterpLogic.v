(* A reusable proof layer for Model/Interp.v (the soyhtml tree walker).

   PART A  the state monad [M]: unfolding equations, faults, Hoare triples
           [triple P m Q] (the postcondition sees the initial state, the
           outcome and the final state), the bind / consequence / frame rules,
           and one exact characterisation per primitive ([write], [write_all],
           [m_set], [m_lookup], [m_push], [m_pop], [fresh_*], the [set_*]
           modifications, the buffer push/pop of [render_block], the
           save/restore of [call_enter]).

   PART B  a GENERIC induction principle for the walker.  A "walker logic" for
           a predicate on computations [Phi : forall A, M A -> Prop] is the list
           of closure conditions in [walker_logic]: [Phi] respects pointwise
           equality, holds of [ret]/[fail]/(acceptable) [lift], is closed under
           [mbind], holds of every primitive, and is closed under the four
           "brackets" of the walker whose two halves do not satisfy [Phi]
           separately (scope push..pop, [eval]'s restore of s.node,
           [render_block]'s buffer push..pop, [call_enter]'s save..restore) and
           under the two state reads ([mode], [ctx]).  Theorem [walk_logic]:
           then [Phi (walk cf fuel n)] for every fuel and node, with one lemma
           per hoisted loop ([phi_eval] ... [phi_walk_node]) proved for
           [walk_body cf w] from the hypothesis on [w].
           Because [Phi] is a predicate on the COMPUTATION (not on one run),
           the same principle serves unary invariants (Part C) and two-run
           simulations (Proofs/WriterProofs.v: faulty vs fault-free writer).

   PART C  the unary instance: for a state invariant [I], a reflexive and
           transitive step relation [R] on normally-returning runs, a relation
           [E] from the initial to the final state of a run that ends in a
           fault, and a predicate [allowed] on faults, [inv_spec I R E allowed m]
           says that [m] started in an [I]-state either returns normally in an
           [I]-state [R]-related to the start, or ends in an allowed fault in
           an [E]-related state.  [inv_logic] / [inv_walk]: if every primitive
           does ([inv_conditions]), so does the walker.  First client at the
           end of the file: the top-level output only grows ([out_grows]).

   Two companions: Proofs/InterpGuard.v (the same principle restricted to the nodes
   satisfying a guard [deep g n], with a separate predicate for the walks of callees'
   template nodes -- for properties that are false of some node kinds) and
   Proofs/InterpRel.v (the relational form: [walk_body cf w n] is parametric in [w];
   used to show that an instrumented walker is the walker, Proofs/ModeProofs.v).

   How to use it (C02/C06/C07/C09/C19): for a uniform invariant instantiate
   [inv_walk] (Part C).  For a relational or otherwise bespoke predicate on
   computations build a [walker_logic] record and apply [walk_logic].  For
   node-indexed specifications use the triples of Part A directly on
   [walk_body cf w] and close by induction on the fuel ([walk_S]). *)
From Soy Require Import Model.Bytes Model.Num Model.Values Model.Outcome Model.Ast
  Model.Escape Model.Directives Model.Print Generated.Tables Model.Interp.
Require Import Lia.
Open Scope N_scope.

(* ================================================================== *)
(* PART A.  The monad                                                  *)
(* ================================================================== *)

(* everything an outcome can be apart from [Ok] *)
Inductive fault := FErr (m : bstr) | FCrash (m : bstr) | FDiverge | FOutOfFuel | FOutOfModel.

Definition of_fault {A} (e : fault) : outcome A :=
  match e with
  | FErr m => Err m | FCrash m => Crash m | FDiverge => Diverge
  | FOutOfFuel => OutOfFuel | FOutOfModel => OutOfModel
  end.
Definition classify {A} (r : outcome A) : A + fault :=
  match r with
  | Ok x => inl x | Err m => inr (FErr m) | Crash m => inr (FCrash m)
  | Diverge => inr FDiverge | OutOfFuel => inr FOutOfFuel | OutOfModel => inr FOutOfModel
  end.

Lemma classify_ok {A} (r : outcome A) x : classify r = inl x -> r = Ok x.
Proof. destruct r; cbn; intros H; inversion H; reflexivity. Qed.
Lemma classify_fault {A} (r : outcome A) e : classify r = inr e -> r = of_fault e.
Proof. destruct r; cbn; intros H; inversion H; reflexivity. Qed.
Lemma classify_of_fault {A} e : classify (@of_fault A e) = inr e.
Proof. destruct e; reflexivity. Qed.
Lemma of_fault_not_ok {A} e (x : A) : of_fault e <> Ok x.
Proof. destruct e; discriminate. Qed.

(* the one equation for [mbind] *)
Lemma mbind_eq {A B} (m : M A) (f : A -> M B) st :
  mbind m f st = match classify (fst (m st)) with
                 | inl x => f x (snd (m st))
                 | inr e => (of_fault e, snd (m st))
                 end.
Proof. unfold mbind. destruct (m st) as [[] s]; reflexivity. Qed.

Lemma mbind_ok {A B} (m : M A) (f : A -> M B) st x st' :
  m st = (Ok x, st') -> mbind m f st = f x st'.
Proof. intros H. unfold mbind. rewrite H. reflexivity. Qed.
Lemma mbind_fault {A B} (m : M A) (f : A -> M B) st e st' :
  m st = (of_fault e, st') -> mbind m f st = (of_fault e, st').
Proof. intros H. unfold mbind. rewrite H. destruct e; reflexivity. Qed.

(* inversion of a bind: either the first part faulted, or it returned and the rest ran *)
Lemma mbind_inv {A B} (m : M A) (f : A -> M B) st r st2 :
  mbind m f st = (r, st2) ->
  (exists x st1, m st = (Ok x, st1) /\ f x st1 = (r, st2)) \/
  (exists e, m st = (of_fault e, st2) /\ r = of_fault e).
Proof.
  unfold mbind. destruct (m st) as [[x|e|e| | | ] st1]; intros H.
  - left. exists x, st1. split; [reflexivity | exact H].
  - right. exists (FErr e). inversion H. split; reflexivity.
  - right. exists (FCrash e). inversion H. split; reflexivity.
  - right. exists FDiverge. inversion H. split; reflexivity.
  - right. exists FOutOfFuel. inversion H. split; reflexivity.
  - right. exists FOutOfModel. inversion H. split; reflexivity.
Qed.

Lemma mbind_assoc {A B C} (m : M A) (f : A -> M B) (g : B -> M C) st :
  mbind (mbind m f) g st = mbind m (fun x => mbind (f x) g) st.
Proof. unfold mbind. destruct (m st) as [[] s]; reflexivity. Qed.
Lemma mbind_ret_l {A B} (x : A) (f : A -> M B) st : mbind (ret x) f st = f x st.
Proof. reflexivity. Qed.
Lemma mbind_ext {A B} (m : M A) (f g : A -> M B) st :
  (forall x s, f x s = g x s) -> mbind m f st = mbind m g st.
Proof. intros H. unfold mbind. destruct (m st) as [[] s]; try reflexivity. apply H. Qed.

Lemma walk_S cf fuel n : walk cf (S fuel) n = walk_body cf (walk cf fuel) n.
Proof. reflexivity. Qed.
Lemma walk_O cf n : walk cf O n = lift OutOfFuel.
Proof. reflexivity. Qed.

(* ------------------------------------------------------------------ *)
(* Hoare triples.  [Q s0 r s1]: started in [s0], outcome [r], final state [s1]. *)

Definition triple {A} (P : mstate -> Prop) (m : M A) (Q : mstate -> outcome A -> mstate -> Prop) : Prop :=
  forall st r st', P st -> m st = (r, st') -> Q st r st'.

Lemma triple_conseq {A} (P P' : mstate -> Prop) (m : M A) (Q Q' : mstate -> outcome A -> mstate -> Prop) :
  triple P m Q -> (forall st, P' st -> P st) -> (forall s0 r s1, P' s0 -> Q s0 r s1 -> Q' s0 r s1) ->
  triple P' m Q'.
Proof. intros H HP HQ st r st' Hp Hm. apply HQ; [exact Hp|]. eapply H; eauto. Qed.

Lemma triple_conj {A} P (m : M A) Q1 Q2 :
  triple P m Q1 -> triple P m Q2 -> triple P m (fun s0 r s1 => Q1 s0 r s1 /\ Q2 s0 r s1).
Proof. intros H1 H2 st r st' Hp Hm. split; eauto. Qed.

Lemma triple_ret {A} (x : A) P : triple P (ret x) (fun s0 r s1 => r = Ok x /\ s1 = s0).
Proof. intros st r st' _ H. inversion H. split; reflexivity. Qed.
Lemma triple_fail {A} e P : triple P (@fail A e) (fun s0 r s1 => r = Err e /\ s1 = s0).
Proof. intros st r st' _ H. inversion H. split; reflexivity. Qed.
Lemma triple_lift {A} (o : outcome A) P : triple P (lift o) (fun s0 r s1 => r = o /\ s1 = s0).
Proof. intros st r st' _ H. inversion H. split; reflexivity. Qed.
Lemma triple_get P : triple P get (fun s0 r s1 => r = Ok s0 /\ s1 = s0).
Proof. intros st r st' _ H. inversion H. split; reflexivity. Qed.
Lemma triple_modify f P : triple P (modify f) (fun s0 r s1 => r = Ok tt /\ s1 = f s0).
Proof. intros st r st' _ H. inversion H. split; reflexivity. Qed.

(* the bind rule: [Qm] is the intermediate assertion; a fault of [m] is the fault of the bind *)
Lemma triple_bind {A B} P (m : M A) (f : A -> M B) Qm (Q : mstate -> outcome B -> mstate -> Prop) :
  triple P m Qm ->
  (forall s0 x, triple (fun s1 => P s0 /\ Qm s0 (Ok x) s1) (f x) (fun _ r s2 => Q s0 r s2)) ->
  (forall s0 e s1, P s0 -> Qm s0 (of_fault e) s1 -> Q s0 (of_fault e) s1) ->
  triple P (mbind m f) Q.
Proof.
  intros Hm Hf He st r st2 Hp Hb.
  destruct (mbind_inv _ _ _ _ _ Hb) as [(x & st1 & H1 & H2) | (e & H1 & ->)].
  - eapply (Hf st x st1); [split; [exact Hp | eapply Hm; eauto] | exact H2].
  - apply He; [exact Hp | eapply Hm; eauto].
Qed.

(* ------------------------------------------------------------------ *)
(* the primitives, characterised exactly *)

Definition dec_calls (cl : option nat) : option nat :=
  match cl with Some (S n) => Some n | x => x end.

(* one Write call *)
Inductive write_res (w : bstr) (st : mstate) : outcome unit -> mstate -> Prop :=
| WBuffered buf rest :                  (* inside renderBlock: bytes.Buffer never fails *)
    bufs st = buf :: rest ->
    write_res w st (Ok tt) (set_bufs st ((w :: buf) :: rest))
| WRefused :                            (* the writer fails this call outright *)
    bufs st = [] -> calls_left st = Some O ->
    write_res w st (Err e_write) st
| WShort k :                            (* short write: k bytes accepted, then the error *)
    bufs st = [] -> calls_left st <> Some O -> bytes_left st = Some k -> (k < N.of_nat (length w)) ->
    write_res w st (Err e_write) (set_out st (take (N.to_nat k) w :: out st) (dec_calls (calls_left st)) (Some 0))
| WAccepted :
    bufs st = [] -> calls_left st <> Some O ->
    (forall k, bytes_left st = Some k -> N.of_nat (length w) <= k) ->
    write_res w st (Ok tt)
      (set_out st (w :: out st) (dec_calls (calls_left st))
               (match bytes_left st with Some k => Some (k - N.of_nat (length w)) | None => None end)).

Lemma write_cases w st : write_res w st (fst (write w st)) (snd (write w st)).
Proof.
  unfold write. destruct (bufs st) as [|buf rest] eqn:Hb.
  - destruct (calls_left st) as [[|n]|] eqn:Hc.
    + cbn. apply WRefused; assumption.
    + destruct (bytes_left st) as [k|] eqn:Hy.
      * destruct (N.of_nat (length w) <=? k) eqn:Hle; cbn.
        -- replace (Some n) with (dec_calls (calls_left st)) by (rewrite Hc; reflexivity).
           replace (Some (k - N.of_nat (length w))) with
             (match bytes_left st with Some k => Some (k - N.of_nat (length w)) | None => None end) by (rewrite Hy; reflexivity).
           apply WAccepted; [assumption | rewrite Hc; discriminate |].
           intros k' Hk'. rewrite Hy in Hk'. inversion Hk'; subst. apply N.leb_le. exact Hle.
        -- replace (Some n) with (dec_calls (calls_left st)) by (rewrite Hc; reflexivity).
           apply WShort; [assumption | rewrite Hc; discriminate | assumption |].
           apply N.leb_gt. exact Hle.
      * cbn. replace (Some n) with (dec_calls (calls_left st)) by (rewrite Hc; reflexivity).
        replace (@None N) with
          (match bytes_left st with Some k => Some (k - N.of_nat (length w)) | None => None end) by (rewrite Hy; reflexivity).
        apply WAccepted; [assumption | rewrite Hc; discriminate |].
        intros k' Hk'. rewrite Hy in Hk'. discriminate.
    + destruct (bytes_left st) as [k|] eqn:Hy.
      * destruct (N.of_nat (length w) <=? k) eqn:Hle; cbn.
        -- replace (@None nat) with (dec_calls (calls_left st)) by (rewrite Hc; reflexivity).
           replace (Some (k - N.of_nat (length w))) with
             (match bytes_left st with Some k => Some (k - N.of_nat (length w)) | None => None end) by (rewrite Hy; reflexivity).
           apply WAccepted; [assumption | rewrite Hc; discriminate |].
           intros k' Hk'. rewrite Hy in Hk'. inversion Hk'; subst. apply N.leb_le. exact Hle.
        -- replace (@None nat) with (dec_calls (calls_left st)) by (rewrite Hc; reflexivity).
           apply WShort; [assumption | rewrite Hc; discriminate | assumption |].
           apply N.leb_gt. exact Hle.
      * cbn. replace (@None nat) with (dec_calls (calls_left st)) by (rewrite Hc; reflexivity).
        replace (@None N) with
          (match bytes_left st with Some k => Some (k - N.of_nat (length w)) | None => None end) by (rewrite Hy; reflexivity).
        apply WAccepted; [assumption | rewrite Hc; discriminate |].
        intros k' Hk'. rewrite Hy in Hk'. discriminate.
  - cbn. apply WBuffered. exact Hb.
Qed.

Lemma write_inv w st r st' : write w st = (r, st') -> write_res w st r st'.
Proof. intros H. pose proof (write_cases w st) as Hc. rewrite H in Hc. exact Hc. Qed.

Lemma triple_write w P : triple P (write w) (fun s0 r s1 => write_res w s0 r s1).
Proof. intros st r st' _ H. apply write_inv. exact H. Qed.

(* a write never returns anything but Ok or the write error *)
Lemma write_outcome w st : fst (write w st) = Ok tt \/ fst (write w st) = Err e_write.
Proof. destruct (write_cases w st); auto. Qed.

Lemma write_all_nil st : write_all [] st = (Ok tt, st).
Proof. reflexivity. Qed.
Lemma write_all_cons w ws : write_all (w :: ws) = (_ <-- write w ;;; write_all ws).
Proof. reflexivity. Qed.

(* [m_set]: the write lands on the top frame; a caller-owned top frame is recorded *)
Lemma m_set_eq k v st :
  m_set k v st =
  match ctx st with
  | [] => (Err e_index, st)
  | f :: _ =>
      (Ok tt, set_ctx (match f_origin f with OExternal id => note_shared st id | OFresh => st end)
                      (sc_set (ctx st) k v))
  end.
Proof. unfold m_set. destruct (ctx st) as [|f r] eqn:Hc; [reflexivity|]. cbn. reflexivity. Qed.

Lemma m_set_fresh k v st f r :
  ctx st = f :: r -> f_origin f = OFresh ->
  m_set k v st = (Ok tt, set_ctx st (sc_set (ctx st) k v)).
Proof. intros Hc Ho. rewrite m_set_eq, Hc, Ho. reflexivity. Qed.

Lemma m_lookup_eq k st :
  m_lookup k st = match sc_lookup (ctx st) k with
                  | Some v => (Ok v, st)
                  | None => (Ok VUndef, bump_unbound st)
                  end.
Proof. reflexivity. Qed.
Lemma m_push_eq st : m_push st = (Ok tt, set_ctx st (sc_push (ctx st))).
Proof. reflexivity. Qed.
Lemma m_pop_eq st : m_pop st = (Ok tt, set_ctx st (sc_pop (ctx st))).
Proof. reflexivity. Qed.
Lemma fresh_list_eq l st :
  fresh_list l st = match l with [] => (Ok (VList 1 []), st) | _ => (Ok (VList (next_id st) l), bump_id st) end.
Proof. destruct l; reflexivity. Qed.
Lemma fresh_list_or_nil_eq l st :
  fresh_list_or_nil l st = match l with [] => (Ok (VList 0 []), st) | _ => (Ok (VList (next_id st) l), bump_id st) end.
Proof. destruct l; reflexivity. Qed.
Lemma fresh_map_eq m st : fresh_map m st = (Ok (VMap (next_id st) m), bump_id st).
Proof. reflexivity. Qed.

(* the states around the brackets *)
Definition buf_pushed (st : mstate) : mstate := set_bufs st ([] :: bufs st).
Definition entered (st : mstate) (callee : template) (cd : scope) : mstate :=
  set_depth (set_mode (set_ctx st (sc_enter cd)) (call_mode (t_ns_autoescape callee))) (S (depth_ st)).
Definition left (st st' : mstate) : mstate :=      (* the caller's scope/mode/depth are back *)
  set_depth (set_mode (set_ctx st' (ctx st)) (mode st)) (depth_ st).

Lemma render_block_eq w body st :
  render_block w body st =
  match classify (fst (w body (buf_pushed st))) with
  | inl _ =>
      let st2 := snd (w body (buf_pushed st)) in
      match bufs st2 with
      | buf :: rest => (Ok (concat_b (rev buf)), set_bufs st2 rest)
      | [] => (Err e_impossible, st2)
      end
  | inr e => (of_fault e, snd (w body (buf_pushed st)))
  end.
Proof.
  unfold render_block, buf_pushed. unfold mbind at 1. cbn [modify].
  rewrite mbind_eq. destruct (classify (fst (w body _))) eqn:Hc; [|reflexivity].
  cbn. destruct (bufs (snd (w body _))); reflexivity.
Qed.

Lemma call_enter_eq w callee cd st :
  call_enter w callee cd st =
  let r := w (t_node callee) (entered st callee cd) in
  (match classify (fst r) with inl _ => Ok VUndef | inr e => of_fault e end, left st (snd r)).
Proof.
  unfold call_enter, entered, left. cbn.
  destruct (w (t_node callee) _) as [[] s]; reflexivity.
Qed.

Lemma eval_eq w e st :
  eval w e st =
  match classify (fst (w e st)) with
  | inl v => (Ok v, set_cur (snd (w e st)) (cur st))
  | inr f => (of_fault f, snd (w e st))
  end.
Proof.
  unfold eval. cbn. unfold mbind. destruct (w e st) as [[] s]; reflexivity.
Qed.

(* projections through the setters (all by computation; collected for [rewrite]/[autorewrite]) *)
Lemma ctx_set_ctx st c : ctx (set_ctx st c) = c. Proof. reflexivity. Qed.
Lemma out_set_ctx st c : out (set_ctx st c) = out st. Proof. reflexivity. Qed.
Lemma bufs_set_ctx st c : bufs (set_ctx st c) = bufs st. Proof. reflexivity. Qed.
Lemma shared_set_ctx st c : shared_writes (set_ctx st c) = shared_writes st. Proof. reflexivity. Qed.
Lemma ctx_set_cur st p : ctx (set_cur st p) = ctx st. Proof. reflexivity. Qed.
Lemma out_set_cur st p : out (set_cur st p) = out st. Proof. reflexivity. Qed.
Lemma bufs_set_cur st p : bufs (set_cur st p) = bufs st. Proof. reflexivity. Qed.
Lemma ctx_set_out st o c k : ctx (set_out st o c k) = ctx st. Proof. reflexivity. Qed.
Lemma out_set_out st o c k : out (set_out st o c k) = o. Proof. reflexivity. Qed.
Lemma bufs_set_out st o c k : bufs (set_out st o c k) = bufs st. Proof. reflexivity. Qed.
Lemma ctx_set_bufs st x : ctx (set_bufs st x) = ctx st. Proof. reflexivity. Qed.
Lemma out_set_bufs st x : out (set_bufs st x) = out st. Proof. reflexivity. Qed.
Lemma bufs_set_bufs st x : bufs (set_bufs st x) = x. Proof. reflexivity. Qed.
Lemma ctx_left st st' : ctx (left st st') = ctx st. Proof. reflexivity. Qed.
Lemma out_left st st' : out (left st st') = out st'. Proof. reflexivity. Qed.
Lemma bufs_left st st' : bufs (left st st') = bufs st'. Proof. reflexivity. Qed.
Lemma shared_left st st' : shared_writes (left st st') = shared_writes st'. Proof. reflexivity. Qed.
Lemma ctx_entered st t cd : ctx (entered st t cd) = sc_enter cd. Proof. reflexivity. Qed.
Lemma out_entered st t cd : out (entered st t cd) = out st. Proof. reflexivity. Qed.
Lemma bufs_entered st t cd : bufs (entered st t cd) = bufs st. Proof. reflexivity. Qed.
Lemma shared_entered st t cd : shared_writes (entered st t cd) = shared_writes st. Proof. reflexivity. Qed.

(* ================================================================== *)
(* PART B.  The generic induction principle                            *)
(* ================================================================== *)

Section Generic.
Variable cf : cfg.
Variable Phi : forall A : Type, M A -> Prop.
Arguments Phi {A} _.
(* which results of the pure helper functions ([arith], [apply_func], ...) are acceptable to [lift] *)
Variable pure_ok : forall A : Type, outcome A -> Prop.
Arguments pure_ok {A} _.

Record walker_logic : Prop := {
  (* structure *)
  wl_ext : forall A (m m' : M A), (forall st, m st = m' st) -> Phi m -> Phi m';
  wl_ret : forall A (x : A), Phi (ret x);
  wl_fail : forall A e, Phi (@fail A e);
  wl_lift : forall A (o : outcome A), pure_ok o -> Phi (lift o);
  wl_bind : forall A B (m : M A) (f : A -> M B), Phi m -> (forall x, Phi (f x)) -> Phi (mbind m f);
  (* primitives *)
  wl_set_cur : forall p, Phi (modify (fun st => set_cur st p));
  wl_template_mode : forall ae, Phi (modify (fun st => set_mode st (template_mode (mode st) ae)));
  wl_write : forall w, Phi (write w);
  wl_set : forall k v, Phi (m_set k v);
  wl_lookup : forall k, Phi (m_lookup k);
  wl_fresh_list : forall l, Phi (fresh_list l);
  wl_fresh_list_or_nil : forall l, Phi (fresh_list_or_nil l);
  wl_fresh_map : forall m, Phi (fresh_map m);
  (* state reads *)
  wl_read_mode : forall B (f : N -> M B), (forall x, Phi (f x)) -> Phi (st <-- get ;;; f (mode st));
  wl_read_ctx : forall B (f : scope -> M B), (forall x, Phi (f x)) -> Phi (st <-- get ;;; f (ctx st));
  (* brackets *)
  wl_scoped : forall (m : M unit), Phi m -> Phi (_ <-- m_push ;;; _ <-- m ;;; _ <-- m_pop ;;; ret VUndef);
  wl_eval : forall (w : node -> M value) e, Phi (w e) -> Phi (eval w e);
  wl_block : forall (w : node -> M value) body, Phi (w body) -> Phi (render_block w body);
  wl_enter : forall (w : node -> M value) callee cd, Phi (w (t_node callee)) -> Phi (call_enter w callee cd);
}.

(* the results of pure helpers that the walker lifts *)
Record pure_sites : Prop := {
  ps_fuel : pure_ok (@OutOfFuel value);
  ps_arith : forall op x y, pure_ok (arith op x y);
  ps_compare : forall op x y, pure_ok (compare_op op x y);
  ps_string : forall v, pure_ok (value_string v);
  ps_print : forall m ds s, pure_ok (print_writes m ds s);
  (* only functions of the table reach [apply_func] *)
  ps_func : forall name ar vs, func_arities name = Some ar -> pure_ok (apply_func name vs);
}.

Hypothesis L : walker_logic.
Hypothesis PS : pure_sites.

Ltac phi_bind := apply (wl_bind L); [ | intro ].
Ltac phi_leaf :=
  first [ apply (wl_ret L) | apply (wl_fail L) | apply (wl_write L) | apply (wl_set L)
        | apply (wl_lookup L) | apply (wl_fresh_list L) | apply (wl_fresh_list_or_nil L)
        | apply (wl_fresh_map L) | apply (wl_set_cur L) | apply (wl_template_mode L) ].

Lemma phi_write_all ws : Phi (write_all ws).
Proof.
  induction ws as [|x r IH]; cbn [write_all]; [apply (wl_ret L)|].
  phi_bind; [apply (wl_write L) | exact IH].
Qed.

Section Body.
Variable w : node -> M value.
Hypothesis Hw : forall n, Phi (w n).

Lemma phi_eval e : Phi (eval w e).
Proof. apply (wl_eval L). apply Hw. Qed.

Lemma phi_evaldef e : Phi (evaldef w e).
Proof. unfold evaldef. phi_bind; [apply phi_eval|]. destruct x; phi_leaf. Qed.

Lemma phi_eval_list es : Phi (eval_list w es).
Proof.
  induction es as [|e r IH]; cbn [eval_list]; [phi_leaf|].
  phi_bind; [apply phi_eval|]. phi_bind; [exact IH|]. phi_leaf.
Qed.

Lemma phi_walk_list ns : Phi (walk_list w ns).
Proof.
  induction ns as [|x r IH]; cbn [walk_list]; [phi_leaf|].
  phi_bind; [apply Hw | exact IH].
Qed.

Lemma phi_render_block body : Phi (render_block w body).
Proof. apply (wl_block L). apply Hw. Qed.

Lemma phi_maplit_items l : Phi (maplit_items w l).
Proof.
  induction l as [|[k e] r IH]; cbn [maplit_items]; [phi_leaf|].
  phi_bind; [apply phi_eval|]. phi_bind; [exact IH|]. phi_leaf.
Qed.

Lemma phi_loop_func name args : Phi (loop_func name args).
Proof.
  unfold loop_func. destruct args as [|a r]; [phi_leaf|].
  destruct a; try phi_leaf.
  phi_bind; [phi_leaf|].
  destruct (fn_is name n_index); [phi_leaf|].
  destruct x; try phi_leaf.
  destruct (fn_is name n_isFirst); [phi_leaf|].
  phi_bind; [phi_leaf|]. destruct x; phi_leaf.
Qed.

Lemma phi_call_func name args : Phi (call_func w name args).
Proof.
  unfold call_func. destruct (func_arities name) as [ar|] eqn:Har; [|phi_leaf].
  destruct (negb _); [phi_leaf|].
  phi_bind; [apply phi_eval_list|].
  phi_bind; [apply (wl_lift L); eapply (ps_func PS); exact Har|].
  destruct x0; phi_leaf.
Qed.

Lemma phi_dataref_access acc : forall ref, Phi (dataref_access w acc ref).
Proof.
  induction acc as [|a rest IH]; intros ref; cbn [dataref_access]; [phi_leaf|].
  phi_bind.
  - destruct a; try phi_leaf.
    phi_bind; [apply phi_eval|].
    destruct x; try phi_leaf;
      (phi_bind; [apply (wl_lift L); apply (ps_string PS) | phi_leaf]).
  - destruct x as [oi k].
    destruct ref; try phi_leaf.
    + destruct (is_nullsafe a); phi_leaf.
    + destruct (is_nullsafe a); phi_leaf.
    + destruct oi as [i|]; [apply IH | phi_leaf].
    + destruct oi as [i|]; [phi_leaf | apply IH].
Qed.

Lemma phi_print_dirs l : forall v, Phi (print_dirs cf w l v).
Proof.
  induction l as [|d r IH]; intros v; cbn [print_dirs]; [phi_leaf|].
  destruct d; try phi_leaf.
  destruct (lookup_directive name) as [[arglens ?]|]; [|phi_leaf].
  destruct (negb _); [phi_leaf|].
  phi_bind; [apply phi_eval_list|].
  phi_bind; [apply (wl_lift L); apply (ps_string PS)|].
  phi_bind; [apply (wl_lift L); apply (ps_print PS)|].
  phi_bind; [apply IH|]. phi_leaf.
Qed.

Lemma phi_if_conds cs : Phi (if_conds w cs).
Proof.
  induction cs as [|c0 r IH]; cbn [if_conds]; [phi_leaf|].
  destruct c0; try phi_leaf.
  destruct cond as [c|].
  - phi_bind; [apply phi_eval|].
    destruct (truthy x); [|exact IH]. phi_bind; [apply Hw | phi_leaf].
  - phi_bind; [apply Hw | phi_leaf].
Qed.

Lemma phi_for_items var body items : forall i, Phi (for_items w var body i items).
Proof.
  induction items as [|x r IH]; intros i; cbn [for_items]; [phi_leaf|].
  phi_bind; [phi_leaf|]. phi_bind; [phi_leaf|]. phi_bind; [apply Hw|]. apply IH.
Qed.

Lemma phi_case_hit sv vs : Phi (case_hit w sv vs).
Proof.
  induction vs as [|x r IH]; cbn [case_hit]; [phi_leaf|].
  phi_bind; [apply phi_eval|]. destruct (equals sv x0); [phi_leaf | exact IH].
Qed.

Lemma phi_switch_cases sv cs : Phi (switch_cases w sv cs).
Proof.
  induction cs as [|c r IH]; cbn [switch_cases]; [phi_leaf|].
  destruct c; try phi_leaf.
  phi_bind; [apply phi_case_hit|].
  destruct (x || _); [|exact IH]. phi_bind; [apply Hw | phi_leaf].
Qed.

Lemma phi_call_params ps : forall cd, Phi (call_params w ps cd).
Proof.
  induction ps as [|p r IH]; intros cd; cbn [call_params]; [phi_leaf|].
  destruct p; try phi_leaf.
  - phi_bind; [apply phi_eval | apply IH].
  - phi_bind; [apply phi_render_block | apply IH].
Qed.

Lemma phi_call_data alldata dat : Phi (call_data w alldata dat).
Proof.
  unfold call_data.
  apply (wl_read_ctx L _ (fun c =>
    if alldata then match sc_alldata c with Some s => ret (sc_push s) | None => fail e_impossible end
    else match dat with
         | Some e => dv <-- eval w e ;;; match dv with VMap id m => ret (sc_push (new_scope id m)) | _ => fail e_notmap end
         | None => ret [fresh_frame]
         end)).
  intros c. destruct alldata.
  - destruct (sc_alldata c); phi_leaf.
  - destruct dat as [e|]; [|phi_leaf].
    phi_bind; [apply phi_eval|]. destruct x; phi_leaf.
Qed.

Lemma phi_call_enter callee cd : Phi (call_enter w callee cd).
Proof. apply (wl_enter L). apply Hw. Qed.

Lemma phi_plural_pick mp i dflt cs : Phi (plural_pick w mp i dflt cs).
Proof.
  induction cs as [|c r IH]; cbn [plural_pick].
  - phi_bind; [apply Hw | phi_leaf].
  - destruct c; try phi_leaf.
    destruct (i =? v)%Z; [|exact IH]. phi_bind; [apply Hw | phi_leaf].
Qed.

Lemma phi_msg_body mp ns : Phi (msg_body w mp ns).
Proof.
  induction ns as [|x r IH]; cbn [msg_body]; [phi_leaf|].
  destruct x; try exact IH.
  - phi_bind; [apply Hw | exact IH].
  - phi_bind; [apply Hw | exact IH].
  - phi_bind; [apply phi_eval|]. destruct x0; try phi_leaf.
    phi_bind; [apply phi_plural_pick | exact IH].
Qed.

Lemma phi_walk_node n : Phi (walk_node cf w n).
Proof.
  destruct n; cbn [walk_node]; try phi_leaf.
  - (* NFunc *) destruct (_ || _); [apply phi_loop_func | apply phi_call_func].
  - (* NListLit *) phi_bind; [apply phi_eval_list | phi_leaf].
  - (* NMapLit *) phi_bind; [apply phi_maplit_items | phi_leaf].
  - (* NDataRef *)
    phi_bind; [|apply phi_dataref_access].
    destruct (bstr_eqb key s_ij); [|phi_leaf]. destruct (c_ij cf); phi_leaf.
  - (* NNot *) phi_bind; [apply phi_eval | phi_leaf].
  - (* NNeg *) phi_bind; [apply phi_evaldef|]. destruct x; phi_leaf.
  - (* NBin *)
    destruct op.
    1-5: (phi_bind; [apply phi_evaldef|]; phi_bind; [apply phi_evaldef|]; apply (wl_lift L); apply (ps_arith PS)).
    1-2: (phi_bind; [apply phi_eval|]; phi_bind; [apply phi_eval|]; phi_leaf).
    1-4: (phi_bind; [apply phi_evaldef|]; phi_bind; [apply phi_evaldef|]; apply (wl_lift L); apply (ps_compare PS)).
    + phi_bind; [apply phi_eval|]. destruct (truthy x); [phi_leaf|].
      phi_bind; [apply phi_eval | phi_leaf].
    + phi_bind; [apply phi_eval|]. destruct (truthy x); [|phi_leaf].
      phi_bind; [apply phi_eval | phi_leaf].
    + phi_bind; [apply phi_eval|]. destruct (is_nullish x); [apply phi_eval | phi_leaf].
  - (* NTern *) phi_bind; [apply phi_eval|]. destruct (truthy x); apply phi_eval.
  - (* NList *) apply (wl_scoped L). apply phi_walk_list.
  - (* NRawText *) phi_bind; phi_leaf.
  - (* NPrint *)
    phi_bind; [apply Hw|].
    assert (Hrest : Phi (ds <-- print_dirs cf w dirs x ;;;
                         s <-- lift (value_string x) ;;;
                         st <-- get ;;;
                         ws <-- lift (print_writes (mode st) ds s) ;;;
                         _ <-- write_all ws ;;; ret VUndef)).
    { phi_bind; [apply phi_print_dirs|].
      phi_bind; [apply (wl_lift L); apply (ps_string PS)|].
      apply (wl_read_mode L _ (fun md => ws <-- lift (print_writes md x0 x1) ;;; _ <-- write_all ws ;;; ret VUndef)).
      intros md. phi_bind; [apply (wl_lift L); apply (ps_print PS)|].
      phi_bind; [apply phi_write_all | phi_leaf]. }
    destruct x; try exact Hrest. phi_leaf.
  - (* NCss *)
    phi_bind; [|phi_bind; phi_leaf].
    destruct expr as [e|]; [|phi_leaf].
    phi_bind; [apply phi_eval|]. phi_bind; [apply (wl_lift L); apply (ps_string PS) | phi_leaf].
  - (* NLog *) phi_bind; [apply phi_render_block | phi_leaf].
  - (* NIf *) apply phi_if_conds.
  - (* NFor *)
    phi_bind; [apply phi_eval|].
    destruct x; try phi_leaf.
    destruct l as [|y l'].
    + destruct ifempty as [ie|]; [|phi_leaf]. phi_bind; [apply Hw | phi_leaf].
    + set (l := y :: l').
      apply (wl_ext L _ (_ <-- m_push ;;;
                         _ <-- (_ <-- m_set (var ++ s_lastindex) (VInt (Z.of_nat (length l) - 1)) ;;;
                                for_items w var n2 0%Z l) ;;;
                         _ <-- m_pop ;;; ret VUndef)).
      * intros st. apply mbind_ext. intros [] s. apply mbind_assoc.
      * apply (wl_scoped L). phi_bind; [phi_leaf | apply phi_for_items].
  - (* NSwitch *) phi_bind; [apply phi_eval | apply phi_switch_cases].
  - (* NCall *)
    destruct (find_template _ name) as [callee|]; [|phi_leaf].
    phi_bind; [apply phi_call_data|]. phi_bind; [apply phi_call_params |]. phi_bind; [phi_leaf | apply phi_call_enter].
  - (* NLetValue *) phi_bind; [apply phi_eval|]. phi_bind; phi_leaf.
  - (* NLetContent *) phi_bind; [apply phi_render_block|]. phi_bind; phi_leaf.
  - (* NMsg *) phi_bind; [apply phi_msg_body | phi_leaf].
  - (* NMsgHtmlTag *) phi_bind; phi_leaf.
  - (* NTemplate *) phi_bind; [phi_leaf|]. phi_bind; [apply Hw | phi_leaf].
Qed.

Lemma phi_walk_body n : Phi (walk_body cf w n).
Proof. unfold walk_body. phi_bind; [phi_leaf | apply phi_walk_node]. Qed.
End Body.

Theorem walk_logic : forall fuel n, Phi (walk cf fuel n).
Proof.
  induction fuel as [|f IH]; intros n.
  - rewrite walk_O. apply (wl_lift L). apply (ps_fuel PS).
  - rewrite walk_S. apply phi_walk_body. exact IH.
Qed.
End Generic.

(* ================================================================== *)
(* PART C.  The unary instance: invariants                             *)
(* ================================================================== *)

Definition pushed (st : mstate) : mstate := set_ctx st (sc_push (ctx st)).
Definition popped (st : mstate) : mstate := set_ctx st (sc_pop (ctx st)).

Lemma scoped_eq (m : M unit) st :
  (_ <-- m_push ;;; _ <-- m ;;; _ <-- m_pop ;;; ret VUndef) st =
  match classify (fst (m (pushed st))) with
  | inl _ => (Ok VUndef, popped (snd (m (pushed st))))
  | inr e => (of_fault e, snd (m (pushed st)))
  end.
Proof.
  unfold mbind at 1. cbn [m_push modify]. fold (pushed st).
  rewrite mbind_eq. destruct (classify (fst (m (pushed st)))); reflexivity.
Qed.

Section Inv.
Variable I : mstate -> Prop.
Variables R E : mstate -> mstate -> Prop.
Variable allowed : fault -> Prop.

(* started in an [I]-state, [m] returns normally in an [I]-state [R]-related to the start,
   or ends in an allowed fault in an [E]-related state *)
Definition inv_spec {A} (m : M A) : Prop :=
  forall st r st', I st -> m st = (r, st') ->
    match classify r with
    | inl _ => I st' /\ R st st'
    | inr e => E st st' /\ allowed e
    end.

Definition inv_pure_ok {A} (o : outcome A) : Prop :=
  match classify o with inl _ => True | inr e => allowed e end.

Record inv_conditions : Prop := {
  ic_refl : forall st, I st -> R st st;
  ic_trans : forall a b c, R a b -> R b c -> R a c;
  ic_fault_here : forall st, I st -> E st st;
  ic_fault_later : forall a b c, R a b -> E b c -> E a c;
  ic_err : forall e, allowed (FErr e);
  (* primitives *)
  ic_set_cur : forall st p, I st -> I (set_cur st p) /\ R st (set_cur st p);
  ic_template_mode : forall st ae, I st ->
      I (set_mode st (template_mode (mode st) ae)) /\ R st (set_mode st (template_mode (mode st) ae));
  ic_write_ok : forall w st st', I st -> write w st = (Ok tt, st') -> I st' /\ R st st';
  ic_write_err : forall w st st', I st -> write w st = (Err e_write, st') -> E st st';
  ic_set : forall k v st st', I st -> m_set k v st = (Ok tt, st') -> I st' /\ R st st';
  ic_unbound : forall st, I st -> I (bump_unbound st) /\ R st (bump_unbound st);
  ic_bump_id : forall st, I st -> I (bump_id st) /\ R st (bump_id st);
  (* scope push .. pop *)
  ic_push : forall st, I st -> I (pushed st);
  ic_pop : forall st st2, I st -> I st2 -> R (pushed st) st2 -> I (popped st2) /\ R st (popped st2);
  ic_push_fault : forall st st2, I st -> E (pushed st) st2 -> E st st2;
  (* renderBlock's buffer *)
  ic_buf_push : forall st, I st -> I (buf_pushed st);
  ic_buf_pop : forall st st2 buf rest, I st -> I st2 -> R (buf_pushed st) st2 -> bufs st2 = buf :: rest ->
      I (set_bufs st2 rest) /\ R st (set_bufs st2 rest);
  ic_buf_lost : forall st st2, I st -> I st2 -> R (buf_pushed st) st2 -> bufs st2 = [] -> E st st2;
  ic_buf_fault : forall st st2, I st -> E (buf_pushed st) st2 -> E st st2;
  (* calls *)
  ic_enter : forall st callee cd, I st -> I (entered st callee cd);
  ic_leave : forall st callee cd st2, I st -> I st2 -> R (entered st callee cd) st2 ->
      I (left st st2) /\ R st (left st st2);
  ic_leave_fault : forall st callee cd st2, I st -> E (entered st callee cd) st2 -> E st (left st st2);
}.

Hypothesis C : inv_conditions.

Lemma inv_ret {A} (x : A) : inv_spec (ret x).
Proof. intros st r st' Hi H. inversion H; subst. cbn. split; [exact Hi | apply (ic_refl C); exact Hi]. Qed.
Lemma inv_fail {A} e : inv_spec (@fail A e).
Proof. intros st r st' Hi H. inversion H; subst. cbn. split; [apply (ic_fault_here C); exact Hi | apply (ic_err C)]. Qed.
Lemma inv_lift {A} (o : outcome A) : inv_pure_ok o -> inv_spec (lift o).
Proof.
  intros Ho st r st' Hi H. inversion H; subst. unfold inv_pure_ok in Ho.
  destruct (classify r); [split; [exact Hi | apply (ic_refl C); exact Hi] | split; [apply (ic_fault_here C); exact Hi | exact Ho]].
Qed.
Lemma inv_bind {A B} (m : M A) (f : A -> M B) : inv_spec m -> (forall x, inv_spec (f x)) -> inv_spec (mbind m f).
Proof.
  intros Hm Hf st r st2 Hi Hb.
  destruct (mbind_inv _ _ _ _ _ Hb) as [(x & st1 & H1 & H2) | (e & H1 & ->)].
  - pose proof (Hm _ _ _ Hi H1) as [Hi1 HR1]. cbn in Hi1, HR1.
    pose proof (Hf x _ _ _ Hi1 H2) as H3.
    destruct (classify r).
    + destruct H3 as [Hi2 HR2]. split; [exact Hi2 | eapply (ic_trans C); eauto].
    + destruct H3 as [HE Ha]. split; [eapply (ic_fault_later C); eauto | exact Ha].
  - pose proof (Hm _ _ _ Hi H1) as H3. rewrite classify_of_fault. rewrite classify_of_fault in H3. exact H3.
Qed.
Lemma inv_modify f : (forall st, I st -> I (f st) /\ R st (f st)) -> inv_spec (modify f).
Proof. intros Hf st r st' Hi H. inversion H; subst. cbn. apply Hf. exact Hi. Qed.

Lemma inv_write w : inv_spec (write w).
Proof.
  intros st r st' Hi H. pose proof (write_outcome w st) as Ho. rewrite H in Ho. cbn in Ho.
  destruct Ho as [-> | ->]; cbn.
  - eapply (ic_write_ok C); eauto.
  - split; [eapply (ic_write_err C); eauto | apply (ic_err C)].
Qed.
Lemma inv_set k v : inv_spec (m_set k v).
Proof.
  intros st r st' Hi H. pose proof H as H0. rewrite m_set_eq in H0.
  destruct (ctx st) as [|f rest].
  - inversion H0; subst. cbn. split; [apply (ic_fault_here C); exact Hi | apply (ic_err C)].
  - inversion H0; subst r. cbn. eapply (ic_set C); [exact Hi|]. rewrite H. f_equal. inversion H0. reflexivity.
Qed.
Lemma inv_lookup k : inv_spec (m_lookup k).
Proof.
  intros st r st' Hi H. rewrite m_lookup_eq in H. destruct (sc_lookup (ctx st) k); inversion H; subst; cbn.
  - split; [exact Hi | apply (ic_refl C); exact Hi].
  - apply (ic_unbound C). exact Hi.
Qed.
Lemma inv_fresh_list l : inv_spec (fresh_list l).
Proof.
  intros st r st' Hi H. rewrite fresh_list_eq in H. destruct l; inversion H; subst; cbn.
  - split; [exact Hi | apply (ic_refl C); exact Hi].
  - apply (ic_bump_id C). exact Hi.
Qed.
Lemma inv_fresh_list_or_nil l : inv_spec (fresh_list_or_nil l).
Proof.
  intros st r st' Hi H. rewrite fresh_list_or_nil_eq in H. destruct l; inversion H; subst; cbn.
  - split; [exact Hi | apply (ic_refl C); exact Hi].
  - apply (ic_bump_id C). exact Hi.
Qed.
Lemma inv_fresh_map m : inv_spec (fresh_map m).
Proof. intros st r st' Hi H. inversion H; subst; cbn. apply (ic_bump_id C). exact Hi. Qed.

Lemma inv_scoped (m : M unit) : inv_spec m -> inv_spec (_ <-- m_push ;;; _ <-- m ;;; _ <-- m_pop ;;; ret VUndef).
Proof.
  intros Hm st r st' Hi H. rewrite scoped_eq in H.
  destruct (m (pushed st)) as [r1 st2] eqn:Hrun. cbn [fst snd] in H.
  pose proof (Hm _ _ _ (ic_push C _ Hi) Hrun) as H1.
  destruct (classify r1) as [x|e]; inversion H; subst.
  - cbn. destruct H1 as [Hi2 HR]. eapply (ic_pop C); eauto.
  - rewrite classify_of_fault. destruct H1 as [HE Ha]. split; [eapply (ic_push_fault C); eauto | exact Ha].
Qed.

Lemma inv_eval (w : node -> M value) e : inv_spec (w e) -> inv_spec (eval w e).
Proof.
  intros Hw st r st' Hi H. rewrite eval_eq in H.
  destruct (w e st) as [r1 st2] eqn:Hrun. cbn [fst snd] in H.
  pose proof (Hw _ _ _ Hi Hrun) as H1.
  destruct (classify r1) as [x|f]; inversion H; subst.
  - cbn. destruct H1 as [Hi2 HR]. destruct (ic_set_cur C st2 (cur st) Hi2) as [Hi3 HR3].
    split; [exact Hi3 | eapply (ic_trans C); eauto].
  - rewrite classify_of_fault. exact H1.
Qed.

Lemma inv_block (w : node -> M value) body : inv_spec (w body) -> inv_spec (render_block w body).
Proof.
  intros Hw st r st' Hi H. rewrite render_block_eq in H.
  destruct (w body (buf_pushed st)) as [r1 st2] eqn:Hrun. cbn [fst snd] in H.
  pose proof (Hw _ _ _ (ic_buf_push C _ Hi) Hrun) as H1.
  destruct (classify r1) as [x|f].
  - destruct H1 as [Hi2 HR]. cbn zeta in H. destruct (bufs st2) as [|buf rest] eqn:Hb; inversion H; subst; cbn.
    + split; [eapply (ic_buf_lost C); eauto | apply (ic_err C)].
    + eapply (ic_buf_pop C); eauto.
  - inversion H; subst. rewrite classify_of_fault. destruct H1 as [HE Ha].
    split; [eapply (ic_buf_fault C); eauto | exact Ha].
Qed.

Lemma inv_enter (w : node -> M value) callee cd : inv_spec (w (t_node callee)) -> inv_spec (call_enter w callee cd).
Proof.
  intros Hw st r st' Hi H. rewrite call_enter_eq in H. cbn zeta in H.
  destruct (w (t_node callee) (entered st callee cd)) as [r1 st2] eqn:Hrun. cbn [fst snd] in H.
  pose proof (Hw _ _ _ (ic_enter C _ callee cd Hi) Hrun) as H1.
  destruct (classify r1) as [x|f]; inversion H; subst.
  - cbn. destruct H1 as [Hi2 HR]. eapply (ic_leave C); eauto.
  - rewrite classify_of_fault. destruct H1 as [HE Ha]. split; [eapply (ic_leave_fault C); eauto | exact Ha].
Qed.

Theorem inv_logic : walker_logic (@inv_spec) (@inv_pure_ok).
Proof.
  constructor.
  - intros A m m' Heq Hm st r st' Hi H. rewrite <- Heq in H. eapply Hm; eauto.
  - intros; apply inv_ret.
  - intros; apply inv_fail.
  - intros; apply inv_lift; assumption.
  - intros; apply inv_bind; assumption.
  - intros p. apply inv_modify. intros st Hi. apply (ic_set_cur C). exact Hi.
  - intros ae. apply inv_modify. intros st Hi. apply (ic_template_mode C). exact Hi.
  - apply inv_write.
  - apply inv_set.
  - apply inv_lookup.
  - apply inv_fresh_list.
  - apply inv_fresh_list_or_nil.
  - apply inv_fresh_map.
  - intros B f Hf st r st' Hi H. change ((st <-- get ;;; f (mode st)) st) with (f (mode st) st) in H. eapply Hf; eauto.
  - intros B f Hf st r st' Hi H. change ((st <-- get ;;; f (ctx st)) st) with (f (ctx st) st) in H. eapply Hf; eauto.
  - apply inv_scoped.
  - apply inv_eval.
  - apply inv_block.
  - apply inv_enter.
Qed.

(* the walker preserves the invariant: the form clients use *)
Theorem inv_walk cf : pure_sites (@inv_pure_ok) -> forall fuel n, inv_spec (walk cf fuel n).
Proof. intros PS. apply (walk_logic cf _ _ inv_logic PS). Qed.

Theorem inv_walk_body cf (w : node -> M value) :
  pure_sites (@inv_pure_ok) -> (forall n, inv_spec (w n)) -> forall n, inv_spec (walk_body cf w n).
Proof. intros PS Hw. apply (phi_walk_body cf _ _ inv_logic PS w Hw). Qed.
End Inv.

(* when every fault is allowed the pure sites need no argument *)
Lemma pure_sites_any : pure_sites (@inv_pure_ok (fun _ => True)).
Proof.
  constructor; intros; unfold inv_pure_ok;
    match goal with |- match classify ?o with _ => _ end => destruct (classify o); exact Logic.I end.
Qed.

(* ================================================================== *)
(* First clients                                                       *)
(* ================================================================== *)

(* (1) the Write calls accepted by the top-level writer only ever grow, on every outcome *)
Definition out_ext (a b : mstate) : Prop := exists new, out b = new ++ out a.

Lemma out_ext_refl a : out_ext a a.
Proof. exists []. reflexivity. Qed.
Lemma out_ext_trans a b c : out_ext a b -> out_ext b c -> out_ext a c.
Proof. intros [n1 H1] [n2 H2]. exists (n2 ++ n1). rewrite H2, H1, app_assoc. reflexivity. Qed.
Lemma out_ext_same a b : out b = out a -> out_ext a b.
Proof. intros H. exists []. exact H. Qed.

Lemma out_grows_conditions : inv_conditions (fun _ => True) out_ext out_ext (fun _ => True).
Proof.
  constructor; intros; try exact Logic.I; try (split; [exact Logic.I|]);
    try (apply out_ext_refl); try (apply out_ext_same; reflexivity).
  - eapply out_ext_trans; eauto.
  - eapply out_ext_trans; eauto.
  - (* write, accepted *)
    match goal with H : write _ _ = _ |- _ => apply write_inv in H; inversion H; subst end.
    + apply out_ext_same. reflexivity.
    + exists [w]. reflexivity.
  - (* write, refused or short *)
    match goal with H : write _ _ = _ |- _ => apply write_inv in H; inversion H; subst end.
    + apply out_ext_refl.
    + eexists [_]. reflexivity.
  - (* m_set *)
    match goal with H : m_set _ _ _ = _ |- _ => rewrite m_set_eq in H end.
    destruct (ctx st) as [|f r]; [discriminate|]. inversion H0; subst.
    apply out_ext_same. destruct (f_origin f); reflexivity.
  - match goal with H : out_ext _ _ |- _ => exact H end.
  - match goal with H : out_ext _ _ |- _ => exact H end.
  - match goal with H : out_ext _ _ |- _ => exact H end.
  - match goal with H : out_ext _ _ |- _ => exact H end.
  - match goal with H : out_ext _ _ |- _ => exact H end.
  - match goal with H : out_ext _ _ |- _ => exact H end.
  - match goal with H : out_ext _ _ |- _ => exact H end.
Qed.

Theorem out_grows cf fuel n st r st' : walk cf fuel n st = (r, st') -> out_ext st st'.
Proof.
  intros H.
  pose proof (inv_walk _ _ _ _ out_grows_conditions cf pure_sites_any fuel n st r st' Logic.I H) as H1.
  destruct (classify r); destruct H1; assumption.
Qed.
Print Assumptions out_grows.

(* ------------------------------------------------------------------ *)
(* Everything proved through this layer is a statement about [walk_body].  The structural tie of [walk_body] to
   soyhtml/exec.go -- Proofs/WalkTie.v: the tree of events of every clause of state.walk, extracted from the Go
   source on every run, has the same set of paths as the hand-written event tree of the model's case; Proofs/WalkTieProbes.v: those event
   lists are what [walk_body] does on probe nodes -- is therefore an obligation of every property that imports this
   file (required last, so that none of its names is visible above). *)
From Soy Require Import Proofs.WalkTie Proofs.WalkTieProbes.
