(* C14, gen_defines_templates: the function headers of a generated file are
   exactly the file's templates, and the namespace-object declarations are
   the dotted prefixes of its namespace. *)
From Soy Require Import Model.Bytes Model.Num Model.Values Model.Outcome Model.Ast Model.Utf8 Model.JsEscape
  Generated.Tables Model.JsGen Spec.JsOut Proofs.JsGenProofs Proofs.JsGenInv.
Open Scope N_scope.

Lemma bstr_eqb_eq x y : bstr_eqb x y = true <-> x = y.
Proof.
  revert y. induction x as [|a x IH]; destruct y as [|c y]; cbn; split; intro H; try discriminate; auto.
  - apply andb_prop in H. destruct H as [H1 H2]. apply N.eqb_eq in H1. apply IH in H2. subst. reflexivity.
  - inversion H; subst. rewrite N.eqb_refl. cbn. apply IH. reflexivity.
Qed.
Lemma bstr_eqb_neq x y : bstr_eqb x y = false -> x <> y.
Proof. intros H E. apply bstr_eqb_eq in E. congruence. Qed.

(* ---- the two marker texts occur nowhere else in the vocabulary ---- *)
Definition not_marker (c : chunk) : Prop := c <> CText t_fn_params /\ c <> CText t_ns1.

Definition no_marker_b (t : bstr) : bool := negb (bstr_eqb t t_fn_params) && negb (bstr_eqb t t_ns1).
Lemma no_marker_b_ok t : no_marker_b t = true -> not_marker (CText t).
Proof.
  unfold no_marker_b. intro H. apply andb_prop in H. destruct H as [H1 H2].
  apply negb_true_iff in H1, H2. apply bstr_eqb_neq in H1, H2. split; intro E; inversion E; congruence.
Qed.
Lemma body_texts_no_marker : forallb no_marker_b body_texts = true.
Proof. vm_compute. reflexivity. Qed.
Lemma table_texts_no_marker : forallb no_marker_b table_texts = true.
Proof. vm_compute. reflexivity. Qed.

Lemma indent_no_marker n : not_marker (CText (indent_text n)).
Proof. destruct n; split; intro E; inversion E. Qed.
Lemma sym_no_marker op_ : not_marker (CText (binop_sym op_)).
Proof. destruct op_; split; intro E; inversion E. Qed.

Lemma no_tmpl_ns_children n : no_tmpl_ns n -> Forall no_tmpl_ns (children n).
Proof. intro H. apply Forall_forall. intros c Hc m Hm. apply H. eapply reach_step; eauto. Qed.
Lemma no_tmpl_ns_int p z : no_tmpl_ns (NInt p z).
Proof. intros m Hm. inversion Hm; subst. exact I. cbn in H. contradiction. Qed.

(* walking a node that nests no template / namespace emits no marker *)
Theorem walk_no_marker o fuel n : no_tmpl_ns n -> jspec not_marker T (jwalk o fuel n).
Proof.
  refine (sp_walk o not_marker no_tmpl_ns no_tmpl_ns_children no_tmpl_ns_int _ _ indent_no_marker sym_no_marker _ _ _ _ _ _ _ fuel n).
  - intros t Hin. apply no_marker_b_ok. exact (proj1 (forallb_forall _ _) body_texts_no_marker t Hin).
  - intros t Hin. apply no_marker_b_ok. exact (proj1 (forallb_forall _ _) table_texts_no_marker t Hin).
  - intros q s _. split; discriminate.
  - intros s. split; discriminate.
  - intros z. split; discriminate.
  - intros z. split; discriminate.
  - intros f s _. split; discriminate.
  - intros p nm bd ae pr H. exfalso. exact (H _ (reach_refl _)).
  - intros p nm ae H. exfalso. exact (H _ (reach_refl _)).
Qed.

Lemma nm_body t : In t body_texts -> not_marker (CText t).
Proof. intro Hin. apply no_marker_b_ok. exact (proj1 (forallb_forall _ _) body_texts_no_marker t Hin). Qed.

(* ---- the two scanners over segments ---- *)
Definition Q3 (c : chunk) : Prop := c <> CText t_fn_params.
Definition Q4 (c : chunk) : Prop := c <> CText t_ns1.
Lemma nm_Q3 cs : Forall not_marker cs -> Forall Q3 cs.
Proof. intro F. eapply Forall_impl; [|exact F]. intros c [H _]. exact H. Qed.
Lemma nm_Q4 cs : Forall not_marker cs -> Forall Q4 cs.
Proof. intro F. eapply Forall_impl; [|exact F]. intros c [_ H]. exact H. Qed.

Fixpoint dnlast (last : option bstr) (cs : list chunk) : option bstr :=
  match cs with
  | [] => last
  | CName x :: r => dnlast (Some x) r
  | _ :: r => dnlast last r
  end.

Lemma dn_app_Q3 cs rest last : Forall Q3 cs -> dn last (cs ++ rest) = dn (dnlast last cs) rest.
Proof.
  revert last. induction cs as [|c r IH]; intros last F; [reflexivity|]. inversion F; subst.
  destruct c; cbn [app dn dnlast]; try (apply IH; assumption).
  destruct (bstr_eqb t t_fn_params) eqn:E; [|apply IH; assumption].
  apply bstr_eqb_eq in E. subst. exfalso. apply H1. reflexivity.
Qed.

Lemma declared_app_Q4 cs rest : Forall Q4 cs -> declared_objects (cs ++ rest) = declared_objects rest.
Proof.
  induction cs as [|c r IH]; intros F; [reflexivity|]. inversion F; subst.
  destruct c; cbn [app declared_objects]; try (apply IH; assumption).
  assert (E : bstr_eqb t t_ns1 = false).
  { destruct (bstr_eqb t t_ns1) eqn:E; [|reflexivity]. apply bstr_eqb_eq in E. subst. exfalso. apply H1. reflexivity. }
  rewrite E. transitivity (declared_objects (r ++ rest)); [|apply IH; assumption].
  destruct (r ++ rest) as [|[] ?]; reflexivity.
Qed.

(* the function header line *)
Lemma dn_header o name last rest :
  dn last (template_header_line o name ++ rest)
  = fmt_bytes (fmt_template_name (o_fmt o)) name :: dn (Some (fmt_bytes (fmt_template_name (o_fmt o)) name)) rest.
Proof.
  unfold template_header_line. destruct (o_fmt o); cbn; rewrite app_nil_r; reflexivity.
Qed.
Lemma header_Q4 o name : Forall Q4 (template_header_line o name).
Proof. unfold template_header_line. destruct (o_fmt o); cbn; repeat constructor; intro E; inversion E. Qed.

(* one namespace declaration line *)
Definition decl_line (ind pre : bstr) : list chunk :=
  [CText ind] ++ ([CText t_ns1; CName pre; CText t_ns2] ++ (if has_dot pre then [] else [CText t_var]) ++ [CName pre; CText t_ns3]) ++ [CText t_nl].

Lemma decl_line_Q3 n pre : Forall Q3 (decl_line (indent_text n) pre).
Proof.
  unfold decl_line. constructor. exact (proj1 (indent_no_marker n)).
  destruct (has_dot pre); cbn; repeat constructor; intro E; inversion E.
Qed.
Lemma declared_decl_line n pre rest :
  declared_objects (decl_line (indent_text n) pre ++ rest) = pre :: declared_objects rest.
Proof.
  unfold decl_line.
  destruct (has_dot pre); cbn [app declared_objects];
    repeat match goal with
           | |- context [bstr_eqb ?a ?c] =>
               first [ replace (bstr_eqb a c) with true by reflexivity | replace (bstr_eqb a c) with false by reflexivity ]
           end;
    f_equal; destruct rest as [|[] ?]; reflexivity.
Qed.

(* ---- exact emission of jsln and of the namespace declarations ---- *)
Lemma jsln_exact cs st :
  exists st', jsln cs st = Ok (tt, st')
    /\ j_out st' = rev (CText (indent_text (j_indent st)) :: cs ++ [CText t_nl]) ++ j_out st
    /\ j_indent st' = j_indent st /\ j_called st' = j_called st.
Proof.
  eexists. split; [reflexivity|]. cbn. split; [|split; reflexivity].
  rewrite !rev_append_rev. cbn. rewrite rev_app_distr. cbn. rewrite <- !app_assoc. reflexivity.
Qed.

Lemma ns_decls_exact f name : forall i st x st', ns_decls f name i st = Ok (x, st') ->
  j_out st' = rev (flat_map (decl_line (indent_text (j_indent st))) (ns_prefixes f name i)) ++ j_out st
  /\ j_indent st' = j_indent st /\ j_called st' = j_called st.
Proof.
  induction f as [|f IH]; intros i st x st' E; cbn [ns_decls ns_prefixes] in *; [discriminate|].
  cbv zeta in *. destruct (Nat.ltb i (length name)).
  - set (i' := match find_dot (drop (S i) name) (S i) with Some j => j | None => length name end) in *.
    unfold jbind in E at 1.
    match type of E with context [jsln ?cs st] => destruct (jsln_exact cs st) as (st1 & E1 & Eo1 & Ei1 & Ec1); rewrite E1 in E end.
    destruct (IH _ _ _ _ E) as (Eo & Ei & Ec). rewrite Ei1 in Eo. split; [|split; congruence].
    rewrite Eo, Eo1. cbn [flat_map]. symmetry. rewrite rev_app_distr. rewrite <- app_assoc. reflexivity.
  - inversion E; subst. cbn. auto.
Qed.

(* ---- one template ---- *)
Definition seg_tmpl (o : jopts) (name : bstr) (cs : list chunk) : Prop :=
  exists pre post, cs = pre ++ template_header_line o name ++ post /\ Forall not_marker pre /\ Forall not_marker post.

Lemma called_ok_same Q st st' : j_called st' = j_called st -> called_ok Q st -> called_ok Q st'.
Proof. unfold called_ok. intros E H. rewrite E. exact H. Qed.

Lemma visit_template_seg o f prev name body ae st x st' :
  no_tmpl_ns body -> called_ok not_marker st ->
  visit_template o (jwalk o f) prev name body ae st = Ok (x, st') ->
  exists cs, j_out st' = rev cs ++ j_out st /\ seg_tmpl o name cs /\ called_ok not_marker st'.
Proof.
  intros Hb Hc E. unfold visit_template in E. unfold jbind at 1 in E. unfold jget in E. cbv beta iota zeta in E.
  unfold jbind at 1 in E.
  destruct (template_head ae st) as [[u1 st1]| | | | |] eqn:E1; try discriminate.
  destruct (sp_template_head not_marker nm_body indent_no_marker ae st u1 st1 Hc E1) as (cs1 & Eo1 & F1 & C1 & _).
  unfold jbind at 1 in E.
  destruct (jsln_exact (template_header_line o name) st1) as (st2 & E2 & Eo2 & Ei2 & Ec2). rewrite E2 in E.
  assert (C2 : called_ok not_marker st2) by (eapply called_ok_same; eauto).
  match type of E with template_rest _ _ ?old ?ao _ _ _ = _ =>
    destruct (sp_template_rest o not_marker no_tmpl_ns nm_body indent_no_marker (jwalk o f)
                (fun n Hn => walk_no_marker o f n Hn) old ao name body Hb st2 x st' C2 E) as (cs3 & Eo3 & F3 & C3 & _)
  end.
  exists (cs1 ++ [CText (indent_text (j_indent st1))] ++ template_header_line o name ++ [CText t_nl] ++ cs3).
  split; [|split; [|exact C3]].
  - rewrite Eo3, Eo2, Eo1. rewrite !rev_app_distr. cbn [rev app]. rewrite !rev_app_distr. cbn [rev app].
    rewrite <- !app_assoc. cbn [app]. reflexivity.
  - exists (cs1 ++ [CText (indent_text (j_indent st1))]), ([CText t_nl] ++ cs3). split; [|split].
    + rewrite <- !app_assoc. reflexivity.
    + apply Forall_app. split; auto. constructor; [apply indent_no_marker|constructor].
    + apply Forall_app. split; auto. constructor; [apply no_marker_b_ok; reflexivity|constructor].
Qed.

Lemma dn_seg_tmpl o name cs last rest : seg_tmpl o name cs ->
  exists last', dn last (cs ++ rest) = fmt_bytes (fmt_template_name (o_fmt o)) name :: dn last' rest.
Proof.
  intros (pre & post & -> & Fp & Fq).
  rewrite <- !app_assoc. rewrite dn_app_Q3 by (apply nm_Q3; exact Fp). rewrite dn_header.
  rewrite dn_app_Q3 by (apply nm_Q3; exact Fq). eexists. reflexivity.
Qed.
Lemma declared_seg_tmpl o name cs rest : seg_tmpl o name cs -> declared_objects (cs ++ rest) = declared_objects rest.
Proof.
  intros (pre & post & -> & Fp & Fq). apply declared_app_Q4.
  apply Forall_app. split; [apply nm_Q4; exact Fp|]. apply Forall_app. split; [apply header_Q4|apply nm_Q4; exact Fq].
Qed.

(* ---- one namespace ---- *)
Lemma declared_decl_lines n pres rest :
  declared_objects (flat_map (decl_line (indent_text n)) pres ++ rest) = pres ++ declared_objects rest.
Proof.
  induction pres as [|p r IH]; [reflexivity|]. cbn [flat_map]. rewrite <- app_assoc. rewrite declared_decl_line. rewrite IH. reflexivity.
Qed.
Lemma decl_lines_Q3 n pres : Forall Q3 (flat_map (decl_line (indent_text n)) pres).
Proof. induction pres as [|p r IH]; cbn [flat_map]. constructor. apply Forall_app. split; [apply decl_line_Q3|exact IH]. Qed.

(* ---- a top-level node ---- *)
Definition top_names (o : jopts) (n : node) : list bstr :=
  match n with NTemplate _ name _ _ _ => [fmt_bytes (fmt_template_name (o_fmt o)) name] | _ => [] end.
Definition top_decls (n : node) : list bstr :=
  match n with NNamespace _ name _ => ns_prefix_list name | _ => [] end.

Definition seg_ok (o : jopts) (names decls : list bstr) (cs : list chunk) : Prop :=
  (forall last rest, exists last', dn last (cs ++ rest) = names ++ dn last' rest)
  /\ (forall rest, declared_objects (cs ++ rest) = decls ++ declared_objects rest).

Lemma seg_ok_plain o cs : Forall not_marker cs -> seg_ok o [] [] cs.
Proof.
  intro F. split.
  - intros last rest. eexists. rewrite dn_app_Q3 by (apply nm_Q3; exact F). reflexivity.
  - intros rest. apply declared_app_Q4. apply nm_Q4; exact F.
Qed.

Lemma seg_ok_app o n1 d1 c1 n2 d2 c2 : seg_ok o n1 d1 c1 -> seg_ok o n2 d2 c2 -> seg_ok o (n1 ++ n2) (d1 ++ d2) (c1 ++ c2).
Proof.
  intros [A1 B1] [A2 B2]. split.
  - intros last rest. rewrite <- app_assoc. destruct (A1 last (c2 ++ rest)) as (l1 & E1). destruct (A2 l1 rest) as (l2 & E2).
    exists l2. rewrite E1, E2, <- app_assoc. reflexivity.
  - intros rest. rewrite <- app_assoc, B1, B2, <- app_assoc. reflexivity.
Qed.

Lemma top_node_seg o fuel n st x st' : top_ok n -> called_ok not_marker st -> jwalk o fuel n st = Ok (x, st') ->
  exists cs, j_out st' = rev cs ++ j_out st /\ called_ok not_marker st' /\ seg_ok o (top_names o n) (top_decls n) cs.
Proof.
  intros Ht Hc E.
  assert (Hplain : no_tmpl_ns n -> top_names o n = [] -> top_decls n = [] ->
            exists cs, j_out st' = rev cs ++ j_out st /\ called_ok not_marker st' /\ seg_ok o (top_names o n) (top_decls n) cs).
  { intros Hn -> ->. destruct (walk_no_marker o fuel n Hn st x st' Hc E) as (cs & Eo & F & C & _).
    exists cs. split; [exact Eo|]. split; [exact C|]. apply seg_ok_plain; exact F. }
  destruct fuel as [|f]; [discriminate|].
  destruct n; try (apply Hplain; [exact Ht|reflexivity|reflexivity]).
  - (* NTemplate *)
    cbn [jwalk] in E. unfold jwalk_body in E. unfold jbind at 1 in E. unfold jget in E. cbv beta iota zeta in E.
    unfold jbind at 1 in E. unfold jmod at 1 in E. cbv beta iota zeta in E. cbn [jwalk_node] in E.
    cbn [top_ok] in Ht.
    match type of E with visit_template _ _ ?prev _ _ _ ?st0 = _ =>
      destruct (visit_template_seg o f prev name n autoescape st0 x st' Ht Hc E) as (cs & Eo & Hs & C) end.
    exists cs. split; [exact Eo|]. split; [exact C|]. split.
    + intros last rest. destruct (dn_seg_tmpl o name cs last rest Hs) as (l' & El). exists l'. exact El.
    + intros rest. cbn [top_decls app]. apply (declared_seg_tmpl o name); exact Hs.
  - (* NNamespace *)
    cbn [jwalk] in E. unfold jwalk_body in E. unfold jbind at 1 in E. unfold jget in E. cbv beta iota zeta in E.
    unfold jbind at 1 in E. unfold jmod at 1 in E. cbv beta iota zeta in E. cbn [jwalk_node] in E.
    unfold jbind at 1 in E. unfold jmod at 1 in E. cbv beta iota zeta in E.
    destruct (ns_decls_exact _ _ _ _ _ _ E) as (Eo & Ei & Ec). cbn in Eo, Ec.
    eexists. split; [exact Eo|]. split; [eapply called_ok_same; [exact Ec|exact Hc]|]. split.
    + intros last rest. eexists. rewrite dn_app_Q3 by apply decl_lines_Q3. reflexivity.
    + intros rest. cbn [top_decls]. apply declared_decl_lines.
Qed.

Lemma top_list_seg o fuel body : Forall top_ok body -> forall st x st', called_ok not_marker st ->
  jwalk_list (jwalk o fuel) body st = Ok (x, st') ->
  exists cs, j_out st' = rev cs ++ j_out st /\ called_ok not_marker st'
    /\ seg_ok o (flat_map (top_names o) body) (flat_map top_decls body) cs.
Proof.
  induction 1 as [|n r Hn Hr IH]; intros st x st' Hc E; cbn [jwalk_list] in E.
  - inversion E; subst. exists []. split; [reflexivity|]. split; [exact Hc|]. apply seg_ok_plain. constructor.
  - unfold jbind at 1 in E. destruct (jwalk o fuel n st) as [[u st1]| | | | |] eqn:E1; try discriminate.
    destruct (top_node_seg o fuel n st u st1 Hn Hc E1) as (c1 & Eo1 & C1 & S1).
    destruct (IH st1 x st' C1 E) as (c2 & Eo2 & C2 & S2).
    exists (c1 ++ c2). split; [|split; [exact C2|]].
    + rewrite Eo2, Eo1, rev_app_distr, <- app_assoc. reflexivity.
    + cbn [flat_map]. apply seg_ok_app; assumption.
Qed.

Lemma flat_top_names o body : flat_map (top_names o) body = map (fun t => fmt_bytes (fmt_template_name (o_fmt o)) t) (template_names body).
Proof. induction body as [|n r IH]; [reflexivity|]. destruct n; cbn [flat_map top_names template_names map app]; try exact IH. f_equal. exact IH. Qed.
Lemma flat_top_decls body : flat_map top_decls body = flat_map ns_prefix_list (namespace_names body).
Proof. induction body as [|n r IH]; [reflexivity|]. destruct n; cbn [flat_map top_decls namespace_names app]; try exact IH. f_equal. exact IH. Qed.

Lemma dn_nil last : dn last [] = []. Proof. reflexivity. Qed.

(* ---- the whole file ---- *)
Theorem gen_defines_templates o fuel name body cs : Forall top_ok body -> gen_file o fuel name body = Ok cs ->
  defined_names cs = map (fun t => fmt_bytes (fmt_template_name (o_fmt o)) t) (template_names body)
  /\ declared_objects cs = flat_map ns_prefix_list (namespace_names body).
Proof.
  intros Ft E. unfold gen_file in E.
  destruct (visit_file o fuel name body jinit_state) as [[u st]| | | | |] eqn:Ev; try discriminate.
  inversion E; subst. clear E.
  unfold visit_file in Ev.
  assert (nm_file : forall s, not_marker (CFile s)) by (intro s; split; discriminate).
  assert (Hl : forall cs0, Forall not_marker cs0 -> jspec not_marker T (jsln cs0))
    by (intros; apply sp_jsln; auto using nm_body, indent_no_marker).
  assert (Hc0 : called_ok not_marker jinit_state) by constructor.
  assert (G1 : Forall not_marker [CText t_hdr1; CFile (line_comment_safe name); CText t_dot])
    by (constructor; [apply no_marker_b_ok; reflexivity|constructor; [apply nm_file|constructor; [apply no_marker_b_ok; reflexivity|constructor]]]).
  assert (G2 : Forall not_marker [CText t_hdr2]) by (constructor; [apply no_marker_b_ok; reflexivity|constructor]).
  unfold jbind at 1 in Ev. destruct (jsln _ jinit_state) as [[u1 s1]| | | | |] eqn:E1; try discriminate.
  destruct (Hl _ G1 _ _ _ Hc0 E1) as (c1 & Eo1 & F1 & C1 & _).
  unfold jbind at 1 in Ev. destruct (jsln _ s1) as [[u2 s2]| | | | |] eqn:E2; try discriminate.
  destruct (Hl _ G2 _ _ _ C1 E2) as (c2 & Eo2 & F2 & C2 & _).
  unfold jbind at 1 in Ev. destruct (jsln _ s2) as [[u3 s3]| | | | |] eqn:E3; try discriminate.
  destruct (Hl _ (Forall_nil _) _ _ _ C2 E3) as (c3 & Eo3 & F3 & C3 & _).
  destruct (top_list_seg o fuel body Ft s3 u st C3 Ev) as (c4 & Eo4 & C4 & [SA SB]).
  assert (Eout : rev (j_out st) = (c1 ++ c2 ++ c3) ++ c4).
  { rewrite Eo4, Eo3, Eo2, Eo1. cbn. rewrite app_nil_r. rewrite !rev_app_distr, !rev_involutive, <- !app_assoc. reflexivity. }
  rewrite Eout.
  set (imports := match j_called st with [] => [] | _ :: _ => _ end).
  assert (Fi : Forall not_marker imports).
  { subst imports. destruct (j_called st) as [|c0 cr] eqn:Ec. constructor.
    apply Forall_app. split; [|constructor; [apply no_marker_b_ok; reflexivity|constructor]].
    apply import_lines_Q. intros t Hin. apply nm_body; exact Hin. rewrite <- Ec. exact C4. }
  assert (Fpre : Forall not_marker (imports ++ c1 ++ c2 ++ c3)) by (repeat (apply Forall_app; split); auto).
  rewrite <- (app_nil_r c4). rewrite app_assoc. split.
  - unfold defined_names. rewrite dn_app_Q3 by (apply nm_Q3; exact Fpre).
    destruct (SA (dnlast None (imports ++ c1 ++ c2 ++ c3)) []) as (l' & El). rewrite El, dn_nil, app_nil_r. apply flat_top_names.
  - rewrite declared_app_Q4 by (apply nm_Q4; exact Fpre). rewrite SB. cbn [declared_objects]. rewrite app_nil_r. apply flat_top_decls.
Qed.

(* ---- the declared objects are the dotted prefixes of the namespace ---- *)
Lemma find_dot_bounds s : forall k j, find_dot s k = Some j -> (k <= j < k + length s)%nat.
Proof.
  induction s as [|c r IH]; intros k j H; cbn in H; [discriminate|].
  destruct (c =? 46). inversion H; subst. cbn. lia. apply IH in H. cbn. lia.
Qed.
Lemma take_all (s : bstr) : take (length s) s = s.
Proof. induction s as [|c r IH]; cbn; [reflexivity|]. f_equal. exact IH. Qed.
Lemma drop_length (s : bstr) : forall k, (k <= length s)%nat -> length (drop k s) = (length s - k)%nat.
Proof. induction s as [|c r IH]; intros k H; destruct k; cbn in *; try lia. apply IH. lia. Qed.

Lemma ns_prefixes_take f name : forall i, Forall (fun p => exists k, p = take k name) (ns_prefixes f name i).
Proof.
  induction f as [|f IH]; intro i; cbn [ns_prefixes]; [constructor|]. cbv zeta.
  destruct (Nat.ltb i (length name)); constructor; [eexists; reflexivity|apply IH].
Qed.

Lemma ns_prefixes_last f name : forall i, (i < length name)%nat -> (length name - i <= f)%nat ->
  last (ns_prefixes f name i) [] = name.
Proof.
  induction f as [|f IH]; intros i Hi Hf; [lia|]. cbn [ns_prefixes]. cbv zeta.
  destruct (Nat.ltb_spec i (length name)) as [_|]; [|lia].
  set (i' := match find_dot (drop (S i) name) (S i) with Some j => j | None => length name end).
  assert (Hi' : (i < i' <= length name)%nat).
  { subst i'. destruct (find_dot (drop (S i) name) (S i)) as [j|] eqn:Ef; [|lia].
    apply find_dot_bounds in Ef. rewrite drop_length in Ef by lia. lia. }
  destruct (Nat.eq_dec i' (length name)) as [El|Hn].
  - rewrite El. destruct f; cbn [ns_prefixes]; cbv zeta; try rewrite Nat.ltb_irrefl; cbn [last]; apply take_all.
  - assert (Hlt : (i' < length name)%nat) by lia.
    specialize (IH i' Hlt ltac:(lia)).
    destruct (ns_prefixes f name i') as [|p r] eqn:Ep.
    + destruct f; [lia|]. cbn [ns_prefixes] in Ep. cbv zeta in Ep.
      destruct (Nat.ltb_spec i' (length name)); [discriminate|lia].
    + cbn [last]. exact IH.
Qed.

Theorem ns_prefixes_spec name : name <> [] ->
  last (ns_prefix_list name) [] = name /\ Forall (fun p => exists k, p = take k name) (ns_prefix_list name).
Proof.
  intro Hne. unfold ns_prefix_list. split; [|apply ns_prefixes_take].
  apply ns_prefixes_last. destruct name; [congruence|cbn; lia]. lia.
Qed.

Lemma reach_inv n m : reach n m -> m = n \/ exists c, In c (children n) /\ reach c m.
Proof. intro H. inversion H; subst; [left; reflexivity|right; eauto]. Qed.
