(* C19, parse half: the error sites of package parse, enumerated.

   [parser_error_sites] (Generated/Tables.v, tablegen 48-parser-error-sites) lists every call of
   errorf / error / unexpected / expect / errorAt in package parse outside the reporting functions, as rows
   (function, kind, argument, binding of the token complained about, occurrences), re-read from the
   source on every run.  The function of a row is the REVIEWED function the site belongs to after
   inlining: every function that is not a key of [cover_map] is a helper, whose sites are counted at
   each of its call sites (with its parameters replaced by what the call passes), so the table is the
   multiset of (reviewed function, kind, token the error is reported at).  Names of locals and of
   helpers do not occur in it and its order does not matter ([site_diff] both ways): splitting a helper
   off a reviewed function, inlining one, reordering and renaming locals leave the three theorems below
   alone (checked on seeded/harmless/8, harmless2/1-4).
   [covered_sites] is the reviewed list: each row is a site whose choice of token is
   covered by the window theorem (Proofs/ErrPosWindow.v for the expression half, ErrPosWindowCmd.v
   for the command half; [cover_map]: the model procedures that carry the sites of a Go function).
   A call site ADDED anywhere in package parse (in a reviewed function, in a helper old or new, in a new
   function) or one that complains about a token bound another way is a row of
   [parser_error_sites] that is not in [covered_sites]: [uncovered_sites] is then not empty and
   [no_uncovered_site] no longer checks -- a broken obligation of C19 naming the site.  The reviewed
   facts the table records: `unexpected` is only ever handed a token bound by next / expect /
   nextNonComment / peek or a parameter that callers bind that way (the model passes the token the
   last c_next returned; textOrTag's parameter is the one case reported one item back), and errorf
   takes token[0] or token[peekCount-1] ([parser_errorf_token], Model/Token.v err_tok).
   What the table does NOT see: WHERE in a function a site stands (an errorf moved across a backup):
   that is the correspondence check's. *)
From Soy Require Import Model.Bytes Generated.Tables.
From Coq Require Import List.
Import ListNotations.
Open Scope N_scope.

Definition site := (bstr * bstr * bstr * bstr * N)%type.
Definition site_eqb (x y : site) : bool :=
  let '(f1, k1, a1, b1, n1) := x in let '(f2, k2, a2, b2, n2) := y in
  bstr_eqb f1 f2 && bstr_eqb k1 k2 && bstr_eqb a1 a2 && bstr_eqb b1 b2 && (n1 =? n2).
Definition site_diff (l1 l2 : list site) : list site :=
  filter (fun x => negb (existsb (site_eqb x) l2)) l1.

Definition covered_sites : list site := Eval vm_compute in [
  (b "textOrTag", b "unexpected", b "", b "next+param", 1);
  (b "beginTag", b "expect", b "itemRightDelim", b "", 6);
  (b "beginTag", b "expect", b "itemText", b "", 1);
  (b "beginTag", b "expect", b "itemLeftDelim", b "", 1);
  (b "beginTag", b "expect", b "itemLiteralEnd", b "", 1);
  (b "beginTag", b "unexpected", b "", b "next", 1);
  (b "parsePrint", b "expect", b "itemIdent", b "", 1);
  (b "parsePrint", b "unexpected", b "", b "next", 1);
  (b "parseAlias", b "expect", b "itemIdent", b "", 1);
  (b "parseAlias", b "unexpected", b "", b "next", 1);
  (b "parseLet", b "expect", b "itemDollarIdent", b "", 1);
  (b "parseLet", b "expect", b "itemRightDelimEnd", b "", 1);
  (b "parseLet", b "expect", b "itemRightDelim", b "", 1);
  (b "parseLet", b "unexpected", b "", b "next", 1);
  (b "parseCss", b "expect", b "itemText", b "", 1);
  (b "parseCss", b "expect", b "itemRightDelim", b "", 1);
  (b "parseCall", b "errorf", b "", b "", 1);
  (b "parseCall", b "expect", b "itemLeftDelim", b "", 1);
  (b "parseCall", b "expect", b "itemCallEnd", b "", 1);
  (b "parseCall", b "expect", b "itemRightDelim", b "", 1);
  (b "parseCall", b "unexpected", b "", b "next", 1);
  (b "parseCallParams", b "unexpected", b "", b "nextNonComment", 2);
  (b "parseCallParams", b "errorf", b "", b "", 2);
  (b "parseCallParams", b "expect", b "itemIdent", b "", 1);
  (b "parseCallParams", b "expect", b "itemRightDelimEnd", b "", 2);
  (b "parseCallParams", b "expect", b "itemRightDelim", b "", 3);
  (b "parseCallParams", b "unexpected", b "", b "next", 1);
  (b "parseSwitch", b "expect", b "itemRightDelim", b "", 2);
  (b "parseSwitch", b "unexpected", b "", b "next", 3);
  (b "parseCase", b "unexpected", b "", b "next", 1);
  (b "parseFor", b "expect", b "itemDollarIdent", b "", 1);
  (b "parseFor", b "expect", b "itemIdent", b "", 1);
  (b "parseFor", b "unexpected", b "", b "expect", 1);
  (b "parseFor", b "expect", b "itemRightDelim", b "", 3);
  (b "parseIf", b "expect", b "itemRightDelim", b "", 2);
  (b "parseSoyDoc", b "expect", b "itemIdent", b "", 1);
  (b "parseSoyDoc", b "unexpected", b "", b "next", 1);
  (b "parseAttrs", b "unexpected", b "", b "next", 2);
  (b "parseAttrs", b "expect", b "itemEquals", b "", 1);
  (b "parseAttrs", b "expect", b "itemString", b "", 1);
  (b "parseAttrs", b "error", b "", b "", 1);
  (b "parseMsg", b "errorf", b "", b "", 2);
  (b "parseMsg", b "expect", b "itemRightDelim", b "", 2);
  (b "parsePlural", b "unexpected", b "", b "param", 1);
  (b "parsePlural", b "errorf", b "", b "", 2);
  (b "notmsg", b "unexpected", b "", b "param", 1);
  (b "parseNamespace", b "errorf", b "", b "", 1);
  (b "parseNamespace", b "expect", b "itemIdent", b "", 1);
  (b "parseNamespace", b "expect", b "itemRightDelim", b "", 1);
  (b "parseAutoescape", b "errorf", b "", b "", 1);
  (b "parseTemplate", b "expect", b "itemDotIdent", b "", 1);
  (b "parseTemplate", b "expect", b "itemRightDelim", b "", 2);
  (b "parseHeaderParam", b "expect", b "itemIdent", b "", 1);
  (b "parseHeaderParam", b "expect", b "itemColon", b "", 1);
  (b "parseHeaderParam", b "expect", b "itemHeaderParamType", b "", 1);
  (b "parseHeaderParam", b "expect", b "itemRightDelim", b "", 1);
  (b "boolAttr", b "errorf", b "", b "", 1);
  (b "parseExprFirstTerm", b "expect", b "itemRightParen", b "", 1);
  (b "parseExprFirstTerm", b "unexpected", b "", b "next", 1);
  (b "parseDataRef", b "error", b "", b "", 1);
  (b "parseDataRef", b "expect", b "itemRightBracket", b "", 1);
  (b "parseListOrMap", b "expect", b "itemRightBracket", b "", 1);
  (b "parseListOrMap", b "unexpected", b "", b "next", 1);
  (b "parseListLiteral", b "unexpected", b "", b "next", 1);
  (b "parseMapLiteral", b "errorf", b "", b "", 1);
  (b "parseMapLiteral", b "unexpected", b "", b "next", 1);
  (b "parseMapLiteral", b "expect", b "itemString", b "", 1);
  (b "parseMapLiteral", b "error", b "", b "", 1);
  (b "parseMapLiteral", b "expect", b "itemColon", b "", 1);
  (b "parseTernary", b "expect", b "itemColon", b "", 1);
  (b "newValueNode", b "error", b "", b "", 2);
  (b "newValueNode", b "errorf", b "", b "", 1);
  (b "newFunctionNode", b "errorf", b "", b "", 1);
  (b "newFunctionNode", b "unexpected", b "", b "next+param", 1)
].

(* Go function -> the procedures of Model/ExprParser.v / Model/Parser.v that carry its sites (and the lemma of the window pass) *)
Definition cover_map : list (bstr * bstr) := Eval vm_compute in [
  (b "textOrTag", b "text_or_tag (gp_text_or_tag)");
  (b "beginTag", b "begin_tag (gp_begin_tag)");
  (b "parsePrint", b "cmd_print, cmd_print_loop, directive_args (gp_cmd_print)");
  (b "parseAlias", b "parse_alias, alias_loop (gp_parse_alias)");
  (b "parseLet", b "parse_let (gp_parse_let)");
  (b "parseCss", b "parse_css (gp_parse_css)");
  (b "parseCall", b "parse_call, call_name (gp_parse_call)");
  (b "parseCallParams", b "call_params_loop, orphan_text, param_attr_form (gp_call_params_loop)");
  (b "parseSwitch", b "parse_switch, switch_loop (gp_parse_switch)");
  (b "parseCase", b "case_loop (gp_case_loop)");
  (b "parseFor", b "parse_for (gp_parse_for)");
  (b "parseIf", b "if_loop (gp_if_loop)");
  (b "parseSoyDoc", b "soydoc_loop (gp_soydoc_loop)");
  (b "parseAttrs", b "attrs_loop (gp_attrs_loop)");
  (b "parseMsg", b "parse_msg (gp_parse_msg)");
  (b "parsePlural", b "parse_plural, plural_cases (gp_parse_plural)");
  (b "notmsg", b "notmsg (gp_notmsg)");
  (b "parseNamespace", b "parse_namespace, dotted_name (gp_parse_namespace)");
  (b "parseAutoescape", b "parse_autoescape (gp_parse_autoescape)");
  (b "parseTemplate", b "parse_template (gp_parse_template)");
  (b "parseHeaderParam", b "parse_header_param (gp_parse_header_param)");
  (b "boolAttr", b "bool_attr (gp_bool_attr)");
  (b "parseExprFirstTerm", b "parse_first_term (xp_parse_first_term)");
  (b "parseDataRef", b "parse_data_ref, data_ref_loop (xp_data_ref_loop)");
  (b "parseListOrMap", b "parse_list_or_map (xp_parse_list_or_map)");
  (b "parseListLiteral", b "list_loop (xp_list_loop)");
  (b "parseMapLiteral", b "parse_map_literal, map_loop (xp_map_loop)");
  (b "parseTernary", b "parse_ternary (xp_ternary)");
  (b "newValueNode", b "new_value_node (xp_new_value_node)");
  (b "newFunctionNode", b "new_function_node, func_loop (xp_func_loop)")
].

Definition uncovered_sites : list site := site_diff parser_error_sites covered_sites.
Definition stale_sites : list site := site_diff covered_sites parser_error_sites.

(* every error site of today's parse.go is a reviewed one ... *)
Theorem no_uncovered_site : uncovered_sites = [].
Proof. vm_compute. reflexivity. Qed.
(* ... every reviewed one still exists ... *)
Theorem no_stale_site : stale_sites = [].
Proof. vm_compute. reflexivity. Qed.
(* ... and each belongs to a function whose model procedures the window pass goes through *)
Theorem sites_have_model_procedures :
  forallb (fun s : site => let '(f, _, _, _, _) := s in existsb (fun p => bstr_eqb f (fst p)) cover_map) parser_error_sites = true.
Proof. vm_compute. reflexivity. Qed.

(* tablegen inlined exactly the functions that are not reviewed: its list of roots is [cover_map]'s keys *)
Theorem roots_are_cover_map : parser_error_site_roots = map fst cover_map.
Proof. vm_compute. reflexivity. Qed.

(* the shapes tablegen checked in errorAt / errorf *)
Theorem error_prefix_format_is : parser_error_prefix_format = b "template %s:%d:%d: %s".
Proof. vm_compute. reflexivity. Qed.
Theorem errorf_token_is : parser_errorf_token = b "token[0] | token[peekCount-1] if peekCount > 0".
Proof. vm_compute. reflexivity. Qed.
