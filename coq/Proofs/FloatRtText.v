(* Float round trip, part 3: the text.  The four layouts of Num.fmt_g ('g' with the shortest digits:
   d.ddde+XX, 0.000ddd, ddd000, dd.ddd) are float literals of the scanner's syntax; NumLit.split_float
   takes them apart into the digits and the decimal exponent they were made from, and
   NumLit.float_of_lit hands round_ratio a fraction equal to digits * 10^-p. *)
From Soy Require Import Model.Bytes Model.Num Model.Utf8 Model.NumLit Proofs.NumLitProofs Proofs.MsgIdProofs
  Proofs.LiteralProofs Proofs.FloatRtRound Proofs.FloatRtDigits.
From Coq Require Import ZifyBool ZifyNat ZifyN Lia.
Open Scope N_scope.

Definition rt_digs (l : bstr) : Prop := Forall is_digit_byte l.

Lemma rt_is_dec_digit c : is_digit_byte c -> is_dec_digit c = true.
Proof. unfold is_dec_digit, in_range, is_digit_byte. lia. Qed.

Definition rt_stops (r : bstr) : Prop := match r with [] => True | c :: _ => is_dec_digit c = false end.

Lemma rt_span_stop l r : rt_digs l -> rt_stops r -> span_digits (l ++ r) = (l, r).
Proof.
  intros Hl Hr. induction Hl as [|c l Hc Hl IH].
  - destruct r as [|c r]; [reflexivity|]. cbn [app span_digits]. cbn in Hr. rewrite Hr. reflexivity.
  - cbn [app span_digits]. rewrite (rt_is_dec_digit c Hc), IH. reflexivity.
Qed.

Lemma rt_span_all l : rt_digs l -> span_digits l = (l, []).
Proof. intros H. rewrite <- (app_nil_r l) at 1. apply rt_span_stop; [exact H|exact Logic.I]. Qed.

Lemma rt_dec_val_digits l : forall acc, rt_digs l -> digits_val 10 l acc = Some (dec_val l acc).
Proof.
  induction l as [|c l IH]; intros acc H; [reflexivity|]. inversion H as [|? ? Hc Hl]; subst.
  cbn [digits_val dec_val]. rewrite (digit_val_digit c Hc). unfold is_digit_byte in Hc.
  replace (c - 48 <? 10) with true by lia. apply IH. exact Hl.
Qed.

Lemma rt_dec_val_dec n : dec_val (dec_of_N n) 0 = n.
Proof.
  pose proof (digits_val_dec n) as E. rewrite rt_dec_val_digits in E by apply dec_of_N_digits. injection E as E. exact E.
Qed.

Lemma rt_dec_val_app l1 : forall l2 acc, dec_val (l1 ++ l2) acc = dec_val l2 (dec_val l1 acc).
Proof. induction l1 as [|c l1 IH]; intros l2 acc; [reflexivity|]. cbn [app dec_val]. apply IH. Qed.

Lemma rt_dec_val_zeros k : forall acc, dec_val (repeat 48 k) acc = acc * 10 ^ N.of_nat k.
Proof.
  induction k as [|k IH]; intros acc; [cbn [repeat dec_val]; change (N.of_nat 0) with 0; rewrite N.pow_0_r; lia|].
  cbn [repeat dec_val]. rewrite IH. rewrite Nat2N.inj_succ, N.pow_succ_r'. lia.
Qed.

Lemma rt_digs_zeros k : rt_digs (repeat 48 k).
Proof. induction k; constructor; [unfold is_digit_byte; lia|assumption]. Qed.

Lemma rt_digs_app l1 l2 : rt_digs l1 -> rt_digs l2 -> rt_digs (l1 ++ l2).
Proof. intros H1 H2. apply Forall_app. split; assumption. Qed.

(* ---- split_float on  sign int [. frac] [e +- exp] ---- *)
Definition rt_fpart (fp : bstr) : bstr := match fp with [] => [] | _ => 46 :: fp end.
Definition rt_tail (hasexp eneg : bool) (ex : bstr) : bstr :=
  if hasexp then 101 :: (if eneg then 45 else 43) :: ex else [].
Definition rt_text (neg : bool) (ip fp : bstr) (hasexp eneg : bool) (ex : bstr) : bstr :=
  (if neg then [45] else []) ++ ip ++ rt_fpart fp ++ rt_tail hasexp eneg ex.

Definition rt_split_rest (neg : bool) (s1 : bstr) : option float_lit :=
  let '(ip, s2) := span_digits s1 in
  match ip with
  | [] => None
  | _ =>
      let after_frac (fp : bstr) (s3 : bstr) : option float_lit :=
        match s3 with
        | [] => Some {| lit_neg := neg; lit_int := ip; lit_frac := fp; lit_eneg := false; lit_exp := [] |}
        | 101 :: s4 =>
            let '(eneg, s5) := match s4 with 43 :: r => (false, r) | 45 :: r => (true, r) | _ => (false, s4) end in
            let '(ex, s6) := span_digits s5 in
            match ex, s6 with
            | _ :: _, [] => Some {| lit_neg := neg; lit_int := ip; lit_frac := fp; lit_eneg := eneg; lit_exp := ex |}
            | _, _ => None
            end
        | _ => None
        end in
      match s2 with
      | 46 :: s3 =>
          let '(fp, s4) := span_digits s3 in
          match fp with [] => None | _ => after_frac fp s4 end
      | _ => after_frac [] s2
      end
  end.

Lemma rt_split_unfold s :
  split_float s = let '(neg, s1) := match s with 45 :: r => (true, r) | _ => (false, s) end in rt_split_rest neg s1.
Proof. reflexivity. Qed.

Lemma rt_split_sign (neg : bool) c s : is_digit_byte c ->
  split_float ((if neg then [45] else []) ++ c :: s) = rt_split_rest neg (c :: s).
Proof.
  intros [H1 H2]. rewrite rt_split_unfold. destruct neg; [reflexivity|]. cbn [app].
  destruct c as [|p]; [reflexivity|].
  do 6 (try (destruct p as [p|p|]; try reflexivity)). lia.
Qed.

Lemma rt_stops_tail hasexp eneg ex : rt_stops (rt_tail hasexp eneg ex).
Proof. destruct hasexp; [reflexivity|exact Logic.I]. Qed.

Lemma rt_stops_fpart fp r : rt_stops r -> rt_stops (rt_fpart fp ++ r).
Proof. destruct fp; [intros H; exact H|reflexivity]. Qed.

Lemma rt_split_text (neg : bool) (ip fp : bstr) (hasexp eneg : bool) (ex : bstr) :
  rt_digs ip -> ip <> [] -> rt_digs fp -> rt_digs ex ->
  (if hasexp then ex <> @nil N else eneg = false /\ ex = @nil N) ->
  split_float (rt_text neg ip fp hasexp eneg ex) =
  Some {| lit_neg := neg; lit_int := ip; lit_frac := fp; lit_eneg := eneg; lit_exp := ex |}.
Proof.
  intros Hip Hne Hfp Hex Hx. unfold rt_text.
  destruct ip as [|c ip']; [congruence|]. cbn [app].
  rewrite rt_split_sign by (inversion Hip; assumption). unfold rt_split_rest.
  change (c :: ip' ++ rt_fpart fp ++ rt_tail hasexp eneg ex) with ((c :: ip') ++ rt_fpart fp ++ rt_tail hasexp eneg ex).
  set (ip := c :: ip') in *.
  rewrite (rt_span_stop ip _ Hip (rt_stops_fpart fp _ (rt_stops_tail hasexp eneg ex))).
  unfold ip. cbv beta iota.
  assert (Etail : forall fp0,
    match rt_tail hasexp eneg ex with
    | [] => Some {| lit_neg := neg; lit_int := c :: ip'; lit_frac := fp0; lit_eneg := false; lit_exp := [] |}
    | 101 :: s4 =>
        let '(eneg0, s5) := match s4 with 43 :: r => (false, r) | 45 :: r => (true, r) | _ => (false, s4) end in
        let '(ex0, s6) := span_digits s5 in
        match ex0, s6 with
        | _ :: _, [] => Some {| lit_neg := neg; lit_int := c :: ip'; lit_frac := fp0; lit_eneg := eneg0; lit_exp := ex0 |}
        | _, _ => None
        end
    | _ => None
    end = Some {| lit_neg := neg; lit_int := c :: ip'; lit_frac := fp0; lit_eneg := eneg; lit_exp := ex |}).
  { intros fp0. destruct hasexp; cbn [rt_tail].
    - destruct eneg; cbv beta iota; rewrite (rt_span_all ex Hex); destruct ex; [congruence|reflexivity|congruence|reflexivity].
    - destruct Hx as [-> ->]. reflexivity. }
  destruct fp as [|f fp'].
  - cbn [rt_fpart app]. destruct hasexp; cbn [rt_tail]; [|apply (Etail [])].
    change (match 101 :: (if eneg then 45 else 43) :: ex with
            | 46 :: s3 => _
            | _ => ?g
            end) with g. apply (Etail []).
  - cbn [rt_fpart app]. cbv beta iota.
    change (f :: fp' ++ rt_tail hasexp eneg ex) with ((f :: fp') ++ rt_tail hasexp eneg ex).
    rewrite (rt_span_stop (f :: fp') _ Hfp (rt_stops_tail hasexp eneg ex)). cbv beta iota. apply (Etail (f :: fp')).
Qed.

(* ---- float_of_lit on a literal whose digits and exponent denote c * 10^-p ---- *)
Lemma rt_lit_round (l : float_lit) :
  let dv := dec_val (lit_int l ++ lit_frac l) 0 in
  let k := ((if lit_eneg l then - Z.of_N (dec_val (lit_exp l) 0) else Z.of_N (dec_val (lit_exp l) 0)) - Z.of_nat (length (lit_frac l)))%Z in
  dv <> 0 -> (-400 <= k <= 400)%Z ->
  float_of_lit l = if (0 <=? k)%Z then round_ratio (lit_neg l) (Z.of_N dv * 10 ^ k)%Z 1 else round_ratio (lit_neg l) (Z.of_N dv) (10 ^ (- k))%Z.
Proof.
  cbv zeta. intros Hdv Hk. unfold float_of_lit. cbv zeta.
  destruct (N.eqb_spec (dec_val (lit_int l ++ lit_frac l) 0) 0) as [E|_]; [congruence|].
  match goal with |- (if (400 <? ?k)%Z then _ else _) = _ => replace (400 <? k)%Z with false by lia end.
  match goal with |- (if (?a <? -400)%Z then _ else _) = _ => replace (a <? -400)%Z with false by lia end.
  reflexivity.
Qed.

Lemma rt_lit_value (l : float_lit) (c p : Z) x :
  (0 < c)%Z -> (-350 < p < 350)%Z ->
  (forall n d, 0 < n -> 0 < d -> n * rt_den p = rt_num c p * d -> round_ratio (lit_neg l) n d = FRVal x)%Z ->
  let dv := dec_val (lit_int l ++ lit_frac l) 0 in
  let k := ((if lit_eneg l then - Z.of_N (dec_val (lit_exp l) 0) else Z.of_N (dec_val (lit_exp l) 0)) - Z.of_nat (length (lit_frac l)))%Z in
  (-400 <= k <= 400)%Z ->
  (Z.of_N dv * 10 ^ Z.max 0 k * 10 ^ Z.max 0 p = c * 10 ^ Z.max 0 (- p) * 10 ^ Z.max 0 (- k))%Z ->
  float_of_lit l = FRVal x.
Proof.
  intros Hc Hp H dv k Hk Heq.
  assert (P1 : (0 < 10 ^ Z.max 0 k)%Z) by (apply Z.pow_pos_nonneg; lia).
  assert (P2 : (0 < 10 ^ Z.max 0 p)%Z) by (apply Z.pow_pos_nonneg; lia).
  assert (P3 : (0 < 10 ^ Z.max 0 (- p))%Z) by (apply Z.pow_pos_nonneg; lia).
  assert (P4 : (0 < 10 ^ Z.max 0 (- k))%Z) by (apply Z.pow_pos_nonneg; lia).
  assert (Hdv : dv <> 0).
  { intros E. rewrite E in Heq. cbn [Z.of_N] in Heq. rewrite !Z.mul_0_l in Heq.
    assert (0 < c * 10 ^ Z.max 0 (- p) * 10 ^ Z.max 0 (- k))%Z by (apply Z.mul_pos_pos; [apply Z.mul_pos_pos|]; assumption). lia. }
  pose proof (rt_lit_round l Hdv Hk) as E. cbv zeta in E. fold dv in E. fold k in E. rewrite E. clear E.
  assert (Hdvp : (0 < Z.of_N dv)%Z) by lia.
  unfold rt_num, rt_den in H.
  destruct (Z.leb_spec 0 k) as [Hk0|Hk0]; destruct (Z.leb_spec 0 (- p)) as [Hp0|Hp0].
  - replace (Z.max 0 k) with k in * by lia. replace (Z.max 0 p) with 0%Z in * by lia.
    replace (Z.max 0 (- p)) with (- p)%Z in * by lia. replace (Z.max 0 (- k)) with 0%Z in * by lia.
    rewrite Z.pow_0_r in Heq. apply H; [apply Z.mul_pos_pos; assumption|lia|lia].
  - replace (Z.max 0 k) with k in * by lia. replace (Z.max 0 p) with p in * by lia.
    replace (Z.max 0 (- p)) with 0%Z in * by lia. replace (Z.max 0 (- k)) with 0%Z in * by lia.
    rewrite Z.pow_0_r in Heq. apply H; [apply Z.mul_pos_pos; assumption|lia|lia].
  - replace (Z.max 0 k) with 0%Z in * by lia. replace (Z.max 0 p) with 0%Z in * by lia.
    replace (Z.max 0 (- p)) with (- p)%Z in * by lia. replace (Z.max 0 (- k)) with (- k)%Z in * by lia.
    rewrite Z.pow_0_r in Heq. apply H; [assumption|assumption|lia].
  - replace (Z.max 0 k) with 0%Z in * by lia. replace (Z.max 0 p) with p in * by lia.
    replace (Z.max 0 (- p)) with 0%Z in * by lia. replace (Z.max 0 (- k)) with (- k)%Z in * by lia.
    rewrite Z.pow_0_r in Heq. apply H; [assumption|assumption|lia].
Qed.

Lemma rt_lit_value_same (l : float_lit) (c p : Z) x :
  (0 < c)%Z -> (-350 < p < 350)%Z ->
  (forall n d, 0 < n -> 0 < d -> n * rt_den p = rt_num c p * d -> round_ratio (lit_neg l) n d = FRVal x)%Z ->
  Z.of_N (dec_val (lit_int l ++ lit_frac l) 0) = c ->
  ((if lit_eneg l then - Z.of_N (dec_val (lit_exp l) 0) else Z.of_N (dec_val (lit_exp l) 0)) - Z.of_nat (length (lit_frac l)) = - p)%Z ->
  float_of_lit l = FRVal x.
Proof.
  intros Hc Hp H Hv Hk. apply (rt_lit_value l c p x Hc Hp H); rewrite Hk; [lia|].
  rewrite Hv, Z.opp_involutive. reflexivity.
Qed.

Lemma rt_exd2 (z : Z) : (0 <= z)%Z ->
  let exd2 := match dec_of_Z z with [_] => 48 :: dec_of_Z z | _ => dec_of_Z z end in
  rt_digs exd2 /\ exd2 <> [] /\ Z.of_N (dec_val exd2 0) = z.
Proof.
  intros Hz. assert (E : dec_of_Z z = dec_of_N (Z.to_N z)) by (destruct z; [reflexivity|reflexivity|lia]).
  rewrite E. pose proof (dec_of_N_digits (Z.to_N z)) as Hd. pose proof (dec_of_N_nonempty (Z.to_N z)) as Hn.
  pose proof (rt_dec_val_dec (Z.to_N z)) as Hv. fold (rt_digs (dec_of_N (Z.to_N z))) in Hd.
  destruct (dec_of_N (Z.to_N z)) as [|a [|a' r]]; [congruence| |].
  - cbv zeta. split; [constructor; [unfold is_digit_byte; lia|exact Hd]|]. split; [discriminate|].
    cbn [dec_val] in *. replace (0 * 10 + (48 - 48)) with 0 by lia. lia.
  - cbv zeta. split; [exact Hd|]. split; [discriminate|]. lia.
Qed.

Lemma rt_fpart_ne l : l <> [] -> rt_fpart l = 46 :: l.
Proof. destruct l; [congruence|reflexivity]. Qed.

Lemma rt_mem_mid c l1 l2 : mem c (l1 ++ c :: l2) = true.
Proof. unfold mem. rewrite existsb_app. cbn [existsb]. rewrite N.eqb_refl, orb_true_r. reflexivity. Qed.

(* the texts of this file as a predicate: sign, digits, then a fraction or an exponent (a float text) *)
Definition rt_shape (s : bstr) : Prop :=
  exists (neg : bool) (ip fp : bstr) (hasexp eneg : bool) (ex : bstr),
    s = rt_text neg ip fp hasexp eneg ex /\ rt_digs ip /\ ip <> [] /\ rt_digs fp /\ rt_digs ex /\
    (if hasexp then ex <> @nil N else True) /\ (fp <> [] \/ (hasexp = true /\ exists d, ip = [d])).

Lemma rt_mem_digs c l : rt_digs l -> (c < 48 \/ 57 < c) -> mem c l = false.
Proof.
  intros Hl Hc. unfold mem. induction Hl as [|d l Hd Hl IH]; [reflexivity|]. cbn [existsb]. rewrite IH.
  unfold is_digit_byte in Hd. replace (c =? d) with false by lia. reflexivity.
Qed.

Lemma rt_mem_sign c (neg : bool) l : c <> 45 -> mem c ((if neg then [45] else []) ++ l) = mem c l.
Proof. intros Hc. destruct neg; [|reflexivity]. unfold mem. cbn [app existsb]. replace (c =? 45) with false by lia. reflexivity. Qed.

Section Fmt.
Variables (neg : bool) (c p : Z) (x : fl) (ds : bstr).
Hypothesis Hc : (0 < c)%Z.
Hypothesis Hp : (-350 < p < 350)%Z.
Hypothesis H : (forall n d, 0 < n -> 0 < d -> n * rt_den p = rt_num c p * d -> round_ratio neg n d = FRVal x)%Z.
Hypothesis Hds : rt_digs ds.
Hypothesis Hne : ds <> [].
Hypothesis Hval : Z.of_N (dec_val ds 0) = c.
Let nd := Z.of_nat (length ds).
Let dp := (nd - p)%Z.
Let sign : bstr := if neg then [45] else [].

Lemma rt_parse_text ip fp (hasexp eneg : bool) ex :
  rt_digs ip -> ip <> [] -> rt_digs fp -> rt_digs ex ->
  (if hasexp then ex <> @nil N else eneg = false /\ ex = @nil N) ->
  Z.of_N (dec_val (ip ++ fp) 0) = c ->
  ((if eneg then - Z.of_N (dec_val ex 0) else Z.of_N (dec_val ex 0)) - Z.of_nat (length fp) = - p)%Z ->
  parse_float_round (rt_text neg ip fp hasexp eneg ex) = FRVal x.
Proof.
  intros H1 H2 H3 H4 H5 Hv Hk. unfold parse_float_round. rewrite (rt_split_text neg ip fp hasexp eneg ex H1 H2 H3 H4 H5).
  apply (rt_lit_value_same _ c p x Hc Hp); cbn [lit_neg lit_int lit_frac lit_eneg lit_exp]; assumption.
Qed.

Lemma rt_case_exp : ((dp - 1 <? -4) || (6 <=? dp - 1))%Z = true ->
  parse_float_round (fmt_g sign ds dp) = FRVal x /\ mem 46 (fmt_g sign ds dp) || mem 101 (fmt_g sign ds dp) = true /\ rt_shape (fmt_g sign ds dp).
Proof.
  intros Hcond. unfold fmt_g. cbv zeta. rewrite Hcond.
  destruct ds as [|d1 rest] eqn:Eds; [congruence|].
  pose proof (rt_exd2 (Z.abs (dp - 1)) ltac:(lia)) as X2. cbv zeta in X2.
  set (exd2 := match dec_of_Z (Z.abs (dp - 1)) with [_] => 48 :: dec_of_Z (Z.abs (dp - 1)) | _ => dec_of_Z (Z.abs (dp - 1)) end) in *.
  destruct X2 as (Xd & Xn & Xv).
  assert (Et : sign ++ (d1 :: match rest with [] => [] | _ :: _ => 46 :: rest end) ++ [101; if (dp - 1 <? 0)%Z then 45 else 43] ++ exd2
               = rt_text neg [d1] rest true (dp - 1 <? 0)%Z exd2).
  { unfold rt_text, rt_tail, rt_fpart, sign. destruct rest; cbn [app]; rewrite <- ?app_assoc; reflexivity. }
  rewrite Et. split.
  - pose proof (Forall_inv Hds) as Hd1. pose proof (Forall_inv_tail Hds) as Hrest.
    apply rt_parse_text; [constructor; [exact Hd1|constructor]|discriminate|exact Hrest|exact Xd|exact Xn|exact Hval|].
    rewrite Xv. assert (Hl : nd = (1 + Z.of_nat (length rest))%Z) by (unfold nd; cbn [length]; lia).
    destruct (Z.ltb_spec (dp - 1) 0); unfold dp in *; lia.
  - split; [unfold rt_text, rt_tail; rewrite !app_assoc; rewrite (rt_mem_mid 101); apply orb_true_r|].
    pose proof (Forall_inv Hds) as Hd1. pose proof (Forall_inv_tail Hds) as Hrest.
    exists neg, [d1], rest, true, (dp - 1 <? 0)%Z, exd2. split; [reflexivity|].
    split; [constructor; [exact Hd1|constructor]|]. split; [discriminate|]. split; [exact Hrest|]. split; [exact Xd|]. split; [exact Xn|].
    destruct rest; [right; split; [reflexivity|eexists; reflexivity]|left; discriminate].
Qed.

Lemma rt_case_small : (dp <= 0)%Z ->
  parse_float_round (sign ++ [48; 46] ++ zeros (- dp) ++ ds) = FRVal x /\
  mem 46 (sign ++ [48; 46] ++ zeros (- dp) ++ ds) || mem 101 (sign ++ [48; 46] ++ zeros (- dp) ++ ds) = true /\
  rt_shape (sign ++ [48; 46] ++ zeros (- dp) ++ ds).
Proof.
  intros Hdp. unfold zeros.
  assert (Et : sign ++ [48; 46] ++ repeat 48 (Z.to_nat (- dp)) ++ ds = rt_text neg [48] (repeat 48 (Z.to_nat (- dp)) ++ ds) false false []).
  { unfold rt_text, rt_tail, sign. rewrite rt_fpart_ne by (destruct (repeat 48 (Z.to_nat (- dp))); [exact Hne|discriminate]).
    cbn [app]. rewrite app_nil_r. reflexivity. }
  rewrite Et. split.
  - apply rt_parse_text; [constructor; [unfold is_digit_byte; lia|constructor]|discriminate|apply rt_digs_app; [apply rt_digs_zeros|exact Hds]|constructor|auto| |].
    + cbn [app dec_val]. replace (0 * 10 + (48 - 48)) with 0 by lia. rewrite rt_dec_val_app, rt_dec_val_zeros. rewrite N.mul_0_l. exact Hval.
    + cbn [dec_val]. rewrite app_length, repeat_length. unfold dp, nd in *. lia.
  - assert (Hz48 : rt_digs [48]) by (constructor; [unfold is_digit_byte; lia|constructor]).
    assert (Hfp : rt_digs (repeat 48 (Z.to_nat (- dp)) ++ ds)) by (apply rt_digs_app; [apply rt_digs_zeros|exact Hds]).
    assert (Hfn : repeat 48 (Z.to_nat (- dp)) ++ ds <> []) by (destruct (repeat 48 (Z.to_nat (- dp))); [exact Hne|discriminate]).
    split.
    + rewrite <- Et. replace (sign ++ [48; 46] ++ repeat 48 (Z.to_nat (- dp)) ++ ds) with ((sign ++ [48]) ++ 46 :: repeat 48 (Z.to_nat (- dp)) ++ ds) by (rewrite <- app_assoc; reflexivity).
      rewrite (rt_mem_mid 46). reflexivity.
    + exists neg, [48], (repeat 48 (Z.to_nat (- dp)) ++ ds), false, false, []. split; [reflexivity|].
      split; [exact Hz48|]. split; [discriminate|]. split; [exact Hfp|]. split; [constructor|]. split; [exact Logic.I|]. left. exact Hfn.
Qed.

Lemma rt_case_int : (nd <= dp)%Z ->
  parse_float_round (sign ++ ds ++ zeros (dp - nd)) = FRVal x /\
  parse_float_round ((sign ++ ds ++ zeros (dp - nd)) ++ [46; 48]) = FRVal x /\
  mem 46 (sign ++ ds ++ zeros (dp - nd)) || mem 101 (sign ++ ds ++ zeros (dp - nd)) = false /\
  rt_shape ((sign ++ ds ++ zeros (dp - nd)) ++ [46; 48]).
Proof.
  intros Hdp. unfold zeros. set (zs := repeat 48 (Z.to_nat (dp - nd))).
  assert (Hz : rt_digs zs) by apply rt_digs_zeros.
  assert (Hv : Z.of_N (dec_val (ds ++ zs) 0) = (c * 10 ^ (dp - nd))%Z).
  { rewrite rt_dec_val_app. unfold zs. rewrite rt_dec_val_zeros. rewrite N2Z.inj_mul, N2Z.inj_pow, Hval, nat_N_Z, Z2Nat.id by lia. reflexivity. }
  assert (Hn2 : ds ++ zs <> []) by (destruct ds; [congruence|discriminate]).
  assert (P : (0 < 10 ^ (dp - nd))%Z) by (apply Z.pow_pos_nonneg; lia).
  split; [|split].
  - assert (Et : sign ++ ds ++ zs = rt_text neg (ds ++ zs) [] false false []).
    { unfold rt_text, rt_tail, rt_fpart, sign. cbn [app]. rewrite !app_nil_r. reflexivity. }
    rewrite Et. unfold parse_float_round.
    rewrite (rt_split_text neg (ds ++ zs) [] false false [] (rt_digs_app _ _ Hds Hz) Hn2 (Forall_nil _) (Forall_nil _) (conj eq_refl eq_refl)).
    apply (rt_lit_value _ c p x Hc Hp); cbn [lit_neg lit_int lit_frac lit_eneg lit_exp dec_val length]; [exact H|cbn; lia|].
    rewrite app_nil_r, Hv. change (Z.of_N 0 - Z.of_nat 0)%Z with 0%Z. change (Z.max 0 0) with 0%Z. change (Z.max 0 (- 0)) with 0%Z.
    replace (Z.max 0 p) with 0%Z by (unfold dp in *; lia). replace (Z.max 0 (- p)) with (dp - nd)%Z by (unfold dp in *; lia).
    rewrite !Z.pow_0_r. ring.
  - assert (Et : (sign ++ ds ++ zs) ++ [46; 48] = rt_text neg (ds ++ zs) [48] false false []).
    { unfold rt_text, rt_tail, rt_fpart, sign. cbn [app]. rewrite <- !app_assoc. reflexivity. }
    rewrite Et. unfold parse_float_round.
    assert (H48 : rt_digs [48]) by (constructor; [unfold is_digit_byte; lia|constructor]).
    rewrite (rt_split_text neg (ds ++ zs) [48] false false [] (rt_digs_app _ _ Hds Hz) Hn2 H48 (Forall_nil _) (conj eq_refl eq_refl)).
    apply (rt_lit_value _ c p x Hc Hp); cbn [lit_neg lit_int lit_frac lit_eneg lit_exp dec_val length]; [exact H|cbn; lia|].
    change (Z.of_N 0 - Z.of_nat 1)%Z with (-1)%Z. change (Z.max 0 (-1)) with 0%Z. change (Z.max 0 (- -1)) with 1%Z.
    rewrite rt_dec_val_app. cbn [dec_val]. replace (48 - 48) with 0 by lia. rewrite N.add_0_r, N2Z.inj_mul, Hv.
    replace (Z.max 0 p) with 0%Z by (unfold dp in *; lia). replace (Z.max 0 (- p)) with (dp - nd)%Z by (unfold dp in *; lia).
    rewrite !Z.pow_0_r. change (Z.of_N 10) with 10%Z. change (10 ^ 1)%Z with 10%Z. ring.
  - split.
    + unfold sign. rewrite !rt_mem_sign by lia. rewrite !(rt_mem_digs _ (ds ++ zs)) by (try apply rt_digs_app; try assumption; lia). reflexivity.
    + assert (H48 : rt_digs [48]) by (constructor; [unfold is_digit_byte; lia|constructor]).
      exists neg, (ds ++ zs), [48], false, false, []. split.
      { unfold rt_text, rt_tail, rt_fpart, sign. cbn [app]. rewrite <- !app_assoc. reflexivity. }
      split; [apply rt_digs_app; assumption|]. split; [exact Hn2|]. split; [exact H48|]. split; [constructor|]. split; [exact Logic.I|]. left. discriminate.
Qed.

Lemma rt_case_mid : (0 < dp < nd)%Z ->
  parse_float_round (sign ++ firstn (Z.to_nat dp) ds ++ [46] ++ skipn (Z.to_nat dp) ds) = FRVal x /\
  mem 46 (sign ++ firstn (Z.to_nat dp) ds ++ [46] ++ skipn (Z.to_nat dp) ds) || mem 101 (sign ++ firstn (Z.to_nat dp) ds ++ [46] ++ skipn (Z.to_nat dp) ds) = true /\
  rt_shape (sign ++ firstn (Z.to_nat dp) ds ++ [46] ++ skipn (Z.to_nat dp) ds).
Proof.
  intros Hdp. set (a := firstn (Z.to_nat dp) ds). set (r := skipn (Z.to_nat dp) ds).
  assert (Ear : a ++ r = ds) by apply firstn_skipn.
  assert (Hd2 : rt_digs a /\ rt_digs r) by (apply Forall_app; rewrite Ear; exact Hds).
  assert (Lr : length r = (length ds - Z.to_nat dp)%nat) by apply skipn_length.
  assert (La : length a = Z.to_nat dp) by (apply firstn_length_le; unfold nd in *; lia).
  assert (Hr : r <> []) by (intros E; rewrite E in Lr; cbn in Lr; unfold nd in *; lia).
  assert (Ha : a <> []) by (intros E; rewrite E in La; cbn in La; lia).
  assert (Et : sign ++ a ++ [46] ++ r = rt_text neg a r false false []).
  { unfold rt_text, rt_tail, sign. rewrite (rt_fpart_ne r Hr). cbn [app]. rewrite app_nil_r. reflexivity. }
  rewrite Et. split.
  - apply rt_parse_text; [apply Hd2|exact Ha|apply Hd2|constructor|auto| |].
    + rewrite Ear. exact Hval.
    + cbn [dec_val]. rewrite Lr. unfold dp, nd in *. lia.
  - split; [rewrite <- Et; rewrite app_assoc; cbn [app]; rewrite (rt_mem_mid 46); reflexivity|].
    exists neg, a, r, false, false, []. split; [reflexivity|]. split; [apply Hd2|]. split; [exact Ha|]. split; [apply Hd2|].
    split; [constructor|]. split; [exact Logic.I|]. left. exact Hr.
Qed.

(* the four layouts together: the text reads back, and it is a float text -- as it stands when it has a '.' or an 'e',
   with ".0" appended otherwise (what ast FloatNode.String does) *)
Theorem rt_fmt_g_parse :
  parse_float_round (fmt_g sign ds dp) = FRVal x /\
  ((mem 46 (fmt_g sign ds dp) || mem 101 (fmt_g sign ds dp) = true /\ rt_shape (fmt_g sign ds dp)) \/
   (mem 46 (fmt_g sign ds dp) || mem 101 (fmt_g sign ds dp) = false /\
    parse_float_round (fmt_g sign ds dp ++ [46; 48]) = FRVal x /\ rt_shape (fmt_g sign ds dp ++ [46; 48]))).
Proof.
  destruct ((dp - 1 <? -4) || (6 <=? dp - 1))%Z eqn:C1.
  - destruct (rt_case_exp C1) as (A & B & C). auto.
  - unfold fmt_g. cbv zeta. rewrite C1. fold nd.
    destruct (Z.leb_spec dp 0) as [C2|C2].
    + destruct (rt_case_small C2) as (A & B & C). auto.
    + destruct (Z.leb_spec nd dp) as [C3|C3].
      * destruct (rt_case_int C3) as (A & B & C & D). auto.
      * destruct (rt_case_mid (conj C2 C3)) as (A & B & C). auto.
Qed.
End Fmt.
