(* C15, template level with print commands among the tags, inside a template: a whole minimal file
   {template .name} T0 tag1 T1 ... tagn Tn {/template}   (Spec/TextTags.v c15_tpl_file).
   The pieces of Proofs/LexBodyTags.v / ParseBodyTags.v / BodyTagsMain.v for a body that is followed by a tag and
   read by itemList with an arbitrary until-set, and parseTemplate around it (as Proofs/ParseTemplate.v /
   BodyTemplateMain.v do for bodies without print commands). *)
From Soy Require Import Model.Bytes Model.Utf8 Model.Outcome Model.Num Model.Values Model.Ast Model.Token Model.RawText Model.AstPrint
  Model.ExprParser Model.Parser Model.Lexer Generated.Tables Spec.Text Spec.TextBody Spec.TextMix Spec.TextTemplate Spec.TextTags Spec.ExprSyntax Spec.CmdSyntax
  Proofs.RawTextProofs Proofs.ExprParserRules Proofs.ExprParserProofs Proofs.LexerPrim Proofs.LexerStates Proofs.LexerProofs Proofs.LexTokens Proofs.LexPrintTop
  Proofs.LexBodyText Proofs.LexBodyTop Proofs.LexBodySeg Proofs.LexBodyCmd Proofs.LexBodyLit Proofs.LexBodyMain Proofs.LexBodyMix Proofs.LexBodyMixMain Proofs.LexTemplate
  Proofs.ParseBodyText Proofs.ParseBodySeg Proofs.ParseBodyMix Proofs.ParseTemplate Proofs.BodyTextMain Proofs.BodyMixMain Proofs.BodyTemplateMain
  Proofs.ParserMeasure Proofs.ParserProofs Proofs.LexParseBridge Proofs.CmdParserFuel Proofs.PrintCmdFile Proofs.PlaceholderTextProofs Proofs.LexParseText
  Proofs.LexPrintMain Proofs.LexPrintCmd Proofs.CmdRoundtripBase Proofs.CmdRoundtripRules Proofs.CmdRoundtripPrint
  Proofs.CmdParserStripDefs Proofs.CmdParserStripMain Proofs.BodyTagsShape Proofs.LexBodyTags Proofs.ParseBodyTags Proofs.BodyTagsMain.
From Coq Require Import ZifyBool ZifyNat ZifyN Lia.
Open Scope N_scope.

(* the items of a body that is followed by the items [term] *)
Inductive c15_gshapeT (X : node -> list tok -> Prop) (term : list tok) : list bstr -> list (c15_tag * list bstr) -> list tok -> Prop :=
| gtt_end pcs its : pshape pcs its -> c15_gshapeT X term pcs [] (its ++ term)
| gtt_text pcs its c o tg pcs' rest items :
    pshape pcs its -> tagitems o tg -> c15_gshapeT X term pcs' rest items ->
    c15_gshapeT X term pcs ((C15Text (c, o), pcs') :: rest) (its ++ tg ++ items)
| gtt_print pcs its n txt ld mid pcs' rest items :
    pshape pcs its -> t_typ ld = itemLeftDelim -> X n mid -> c15_gshapeT X term pcs' rest items ->
    c15_gshapeT X term pcs ((C15Print n txt, pcs') :: rest) (its ++ (ld :: mid) ++ items).

Lemma gshapeT_erase inlen term : forall pcs rp items, c15_gshapeT c15_X1 term pcs rp items -> items_wf inlen items ->
  exists items0, c15_gshapeT c15_X0 term pcs rp items0 /\ map strip_tok items0 = map strip_tok items /\ items_wf inlen items0 /\
                 length items0 = length items.
Proof.
  intros pcs rp items H. induction H as [pcs its Hps|pcs its c o tg pcs' rest items Hps Htg Hsh IH|pcs its n txt ld mid pcs' rest items Hps Hld HX Hsh IH]; intros Hw.
  - exists (its ++ term). split; [apply gtt_end; assumption|]. auto.
  - unfold items_wf in Hw. rewrite !Forall_app in Hw. destruct Hw as (Hw1 & Hw2 & Hw3).
    destruct (IH Hw3) as (items0 & Hsh0 & Hst & Hw0 & Hlen). exists (its ++ tg ++ items0).
    split; [apply gtt_text; assumption|]. split; [rewrite !map_app, Hst; reflexivity|].
    split; [unfold items_wf; rewrite !Forall_app; auto|]. rewrite !app_length, Hlen. reflexivity.
  - unfold items_wf in Hw. rewrite !Forall_app in Hw. destruct Hw as (Hw1 & Hw2 & Hw3). inversion Hw2 as [|? ? Hwld Hwmid]; subst.
    destruct (IH Hw3) as (items0 & Hsh0 & Hst & Hw0 & Hlen).
    assert (Hmid : map strip_tok mid = tokens_of_print (strip_pos n)).
    { unfold tokens_of_print. rewrite show_print_strip. apply tv_strip. exact HX. }
    exists (its ++ (ld :: map strip_tok mid) ++ items0).
    split; [apply gtt_print; [assumption|assumption|exact Hmid|assumption]|].
    split.
    { assert (Hmm : map strip_tok (map strip_tok mid) = map strip_tok mid) by (rewrite map_map; apply map_ext; intros t; reflexivity).
      rewrite !map_app. cbn [map]. rewrite ?map_app, Hst, Hmm. reflexivity. }
    split.
    { unfold items_wf. rewrite !Forall_app. split; [exact Hw1|]. split; [|exact Hw0]. constructor; [exact Hwld|].
      rewrite Forall_forall in *. intros t Ht. apply in_map_iff in Ht. destruct Ht as (t0 & <- & Ht0). apply twf_strip_tok. apply Hwmid. exact Ht0. }
    rewrite !app_length. cbn [length]. rewrite ?app_length, map_length, Hlen. reflexivity.
Qed.

(* ---------- scanner ---------- *)
Section Scan.
Variable uni_letter uni_digit : Z -> bool.
Hypothesis letter_ascii : forall c, (c < 128)%N -> uni_letter (Z.of_N c) = ((65 <=? c) && (c <=? 90) || (97 <=? c) && (c <=? 122))%N.
Hypothesis digit_ascii : forall c, (c < 128)%N -> uni_digit (Z.of_N c) = digit_b c.
Hypothesis letter_eof : uni_letter (-1)%Z = false.
Hypothesis digit_eof : uni_digit (-1)%Z = false.

Lemma c15_rest_src_tl_tag r tl : (forall sg, In sg r -> c15_tag_ok print_node (fst sg) /\ mix_stretch_ok false false (snd sg)) ->
  tl <> [] -> tag_or_end tl -> tag_or_end (c15_rest_src r ++ tl) /\ c15_rest_src r ++ tl <> [].
Proof.
  intros Hr Hne Htl. destruct r as [|[t T] r'].
  - cbn [c15_rest_src app]. auto.
  - destruct (Hr _ (or_introl eq_refl)) as [Hok _]. cbn [fst] in Hok. cbn [c15_rest_src].
    destruct (c15_tag_src_brace print_node t Hok print_node_brace) as (t' & ->). split; [right; eexists; reflexivity|discriminate].
Qed.

Lemma lex_tags_run_tl inp : forall rest rp T pcs l tl, tl <> [] -> tag_or_end tl ->
  span inp l [] (T ++ c15_rest_src rest ++ tl) -> l_dd l = false ->
  mix_stretch_ok (pwof 0 l) false T -> pieces MText (pwof 0 l) [] T = Some pcs ->
  (forall sg, In sg rest -> c15_tag_ok print_node (fst sg) /\ mix_stretch_ok false false (snd sg)) -> c15_lex_oks rest -> c15_rest_pieces rest rp ->
  exists k l' items, steps uni_letter uni_digit inp 0 k LText l = Ok (LLeftDelim, l') /\ span inp l' [] tl /\ l_out l' = rev items ++ l_out l /\
    forall term, c15_gshapeT c15_X1 term pcs rp (items ++ term).
Proof.
  induction rest as [|[tg T'] r IH]; intros rp T pcs l tl Hne Htl Hs Hdd [Hpl Hop] Hpc Hrest Hlx Hrp.
  - destruct rp; [|contradiction]. cbn [c15_rest_src app] in Hs.
    destruct (lex_stretch uni_letter uni_digit letter_ascii digit_ascii letter_eof digit_eof inp (length T) T (le_n _) l pcs tl Hs Hpl Htl Hpc ltac:(intros _; apply Hop; reflexivity))
      as (k & l' & its & st' & Hst & Hsh & _ & Hend).
    destruct Hend as [(A & _)|(_ & -> & Ho & Hs')]; [congruence|].
    exists k, l', its. split; [exact Hst|]. split; [exact Hs'|]. split; [exact Ho|]. intros term. apply gtt_end. exact Hsh.
  - destruct rp as [|[tg' pcs'] rp']; [contradiction|]. cbn [c15_rest_pieces] in Hrp. destruct Hrp as (-> & Hpc' & Hrp').
    destruct (Hrest _ (or_introl eq_refl)) as (Hcmd & Hok'). cbn [fst snd] in Hcmd, Hok'.
    assert (Hrest' : forall sg, In sg r -> c15_tag_ok print_node (fst sg) /\ mix_stretch_ok false false (snd sg)) by (intros sg Hin; apply Hrest; right; exact Hin).
    inversion Hlx as [|? ? Hlx1 Hlx']; subst. cbn [fst] in Hlx1.
    destruct (c15_rest_src_tl_tag ((tg, T') :: r) tl Hrest Hne Htl) as [Htl1 Hne1].
    destruct (lex_stretch uni_letter uni_digit letter_ascii digit_ascii letter_eof digit_eof inp (length T) T (le_n _) l pcs _ Hs Hpl Htl1 Hpc ltac:(intros _; apply Hop; reflexivity))
      as (k1 & l1 & its & st' & Hst1 & Hsh1 & Hdd1 & Hend).
    destruct Hend as [(A & _)|(_ & -> & Ho1 & Hs1)]; [exfalso; exact (Hne1 A)|].
    cbn [c15_rest_src] in Hs1. rewrite <- !app_assoc in Hs1.
    destruct tg as [[n o]|n txt]; cbn [c15_tag_ok c15_tag_src] in Hcmd, Hs1.
    + rewrite <- ?app_assoc in Hs1. cbn [app] in Hs1.
      destruct Hcmd as [Hcmd|(sp & Hsp & Hname & Hcl)].
      * assert (Hs1' : span inp l1 [] ([123] ++ n ++ [125] ++ T' ++ c15_rest_src r ++ tl)) by exact Hs1.
        destruct (lex_special_cmd uni_letter uni_digit letter_ascii digit_ascii letter_eof digit_eof inp l1 n o _ Hcmd Hs1')
          as (k2 & l2 & ld & c & rd & Hst2 & Hs2 & Ho2 & Hld & Hrd & Hc & Hla2 & Hv2 & Hdd2).
        assert (Hpw : pwof 0 l2 = false) by (unfold pwof; rewrite Hla2, Hv2; reflexivity).
        destruct (IH rp' T' pcs' l2 tl Hne Htl Hs2 Hdd2 ltac:(rewrite Hpw; exact Hok') ltac:(rewrite Hpw; exact Hpc') Hrest' Hlx' Hrp')
          as (k3 & l3 & items & Hst3 & Hs3 & Ho3 & Hsh).
        exists (k1 + (k2 + k3))%nat, l3, (its ++ [ld; c; rd] ++ items). split.
        { rewrite (steps_app _ _ _ _ k1 _ _ _ _ _ Hst1), (steps_app _ _ _ _ k2 _ _ _ _ _ Hst2). exact Hst3. }
        split; [exact Hs3|]. split.
        { rewrite Ho3, Ho2, Ho1, !rev_app_distr. cbn [rev app]. rewrite <- !app_assoc. reflexivity. }
        intros term. rewrite <- !app_assoc. eapply gtt_text; [exact Hsh1|apply ti_cmd; assumption|apply Hsh].
      * cbn [fst snd] in Hname, Hcl. subst n.
        assert (Hs1' : span inp l1 [] ([123] ++ lit_name_sp sp o ++ [125] ++ T' ++ c15_rest_src r ++ tl)) by exact Hs1.
        destruct (lex_literal_cmd uni_letter uni_digit letter_ascii digit_ascii letter_eof digit_eof inp l1 sp o _ Hsp Hs1' Hcl)
          as (k2 & l2 & ld & kw & rd & tx & ld2 & ke & rd2 & Hst2 & Hs2 & Ho2 & A1 & A2 & A3 & A4 & A5 & A6 & A7 & A8 & Hla2 & Hv2 & Hdd2).
        assert (Hpw : pwof 0 l2 = false) by (unfold pwof; rewrite Hla2, Hv2; reflexivity).
        destruct (IH rp' T' pcs' l2 tl Hne Htl Hs2 Hdd2 ltac:(rewrite Hpw; exact Hok') ltac:(rewrite Hpw; exact Hpc') Hrest' Hlx' Hrp')
          as (k3 & l3 & items & Hst3 & Hs3 & Ho3 & Hsh).
        exists (k1 + (k2 + k3))%nat, l3, (its ++ [ld; kw; rd; tx; ld2; ke; rd2] ++ items). split.
        { rewrite (steps_app _ _ _ _ k1 _ _ _ _ _ Hst1), (steps_app _ _ _ _ k2 _ _ _ _ _ Hst2). exact Hst3. }
        split; [exact Hs3|]. split.
        { rewrite Ho3, Ho2, Ho1, !rev_app_distr. cbn [rev app]. rewrite <- !app_assoc. reflexivity. }
        intros term. rewrite <- !app_assoc. eapply gtt_text; [exact Hsh1|apply ti_lit; assumption|apply Hsh].
    + destruct Hcmd as [Hwf Hp].
      destruct (lex_print_tag uni_letter uni_digit letter_ascii digit_ascii letter_eof digit_eof inp l1 n txt (T' ++ c15_rest_src r ++ tl) Hwf Hlx1 Hp Hs1)
        as (k2 & l2 & ld & mid & Hst2 & Hs2 & Ho2 & Hld & Hm & Hv2 & Hdd2).
      assert (Hpw : pwof 0 l2 = false) by (unfold pwof; rewrite Hv2; reflexivity).
      destruct (IH rp' T' pcs' l2 tl Hne Htl Hs2 Hdd2 ltac:(rewrite Hpw; exact Hok') ltac:(rewrite Hpw; exact Hpc') Hrest' Hlx' Hrp')
        as (k3 & l3 & items & Hst3 & Hs3 & Ho3 & Hsh).
      exists (k1 + (k2 + k3))%nat, l3, (its ++ (ld :: mid) ++ items). split.
      { rewrite (steps_app _ _ _ _ k1 _ _ _ _ _ Hst1), (steps_app _ _ _ _ k2 _ _ _ _ _ Hst2). exact Hst3. }
      split; [exact Hs3|]. split.
      { rewrite Ho3, Ho2, Ho1, !rev_app_distr. rewrite <- !app_assoc. reflexivity. }
      intros term. rewrite <- !app_assoc. eapply gtt_print; [exact Hsh1|exact Hld|exact Hm|apply Hsh].
Qed.

(* lex(name, the file) *)
Theorem lex_template_file_tags name T0 rest pcs rp :
  tpl_name_ok name -> c15_tpl_ok print_node T0 rest -> c15_lex_oks rest -> pieces MText false [] T0 = Some pcs -> c15_rest_pieces rest rp ->
  exists ld0 tk di rd0 body ld2 te rd2 e,
    lex_items uni_letter uni_digit (lex_budget (c15_tpl_file name T0 rest)) false (c15_tpl_file name T0 rest)
      = Ok (ld0 :: tk :: di :: rd0 :: body ++ [ld2; te; rd2; e]) /\
    t_typ ld0 = itemLeftDelim /\ t_typ tk = itemTemplate /\ t_typ di = itemDotIdent /\ t_val di = 46 :: name /\ t_typ rd0 = itemRightDelim /\
    t_typ ld2 = itemLeftDelim /\ t_typ te = itemTemplateEnd /\ t_typ rd2 = itemRightDelim /\ t_typ e = itemEOF /\
    forall term, c15_gshapeT c15_X1 term pcs rp (body ++ term).
Proof.
  intros Hname [Hok0 Hokr] Hlx Hpc Hrp. set (txt := c15_tpl_file name T0 rest).
  assert (Etxt : txt = tpl_open name ++ (T0 ++ c15_rest_src rest ++ tpl_close)).
  { unfold txt, c15_tpl_file, c15_body_src. rewrite tpl_open_eq, tpl_close_eq, <- app_assoc. reflexivity. }
  assert (Hs0 : span txt lex_init [] ([] ++ txt)).
  { unfold span, lex_init. cbn [l_start l_pos length app]. repeat split; try lia. }
  assert (Htl0 : tag_or_end txt) by (right; rewrite Etxt; eexists; reflexivity).
  assert (Hne0 : txt <> []) by (rewrite Etxt; discriminate).
  destruct (lex_stretch uni_letter uni_digit letter_ascii digit_ascii letter_eof digit_eof txt 0 [] (le_n _) lex_init [[]] txt Hs0
              ltac:(constructor) Htl0 eq_refl ltac:(intros _; reflexivity)) as (k1 & l1 & its1 & st1 & Hst1 & Hsh1 & Hdd1 & Hend1).
  destruct Hend1 as [(A & _)|(_ & -> & Ho1 & Hs1)]; [congruence|].
  rewrite (pshape_empty _ Hsh1) in Ho1. cbn [rev app] in Ho1.
  assert (Hs1' : span txt l1 [] (tpl_open name ++ (T0 ++ c15_rest_src rest ++ tpl_close))) by (rewrite <- Etxt; exact Hs1).
  destruct (lex_tpl_open uni_letter uni_digit letter_ascii digit_ascii letter_eof digit_eof txt l1 name _ Hname Hs1')
    as (k2 & l2 & ld0 & tk & di & rd0 & Hst2 & Hs2 & Ho2 & Hld0 & Htk & Hdi & Hdiv & Hrd0 & Hla2 & Hv2 & Hdd2).
  assert (Hpw : pwof 0 l2 = false) by (unfold pwof; rewrite Hla2, Hv2; reflexivity).
  assert (Hrest : forall sg, In sg rest -> c15_tag_ok print_node (fst sg) /\ mix_stretch_ok false false (snd sg)) by (rewrite Forall_forall in Hokr; exact Hokr).
  destruct (lex_tags_run_tl txt rest rp T0 pcs l2 tpl_close
              ltac:(discriminate) ltac:(right; eexists; reflexivity) Hs2 Hdd2 ltac:(rewrite Hpw; exact Hok0) ltac:(rewrite Hpw; exact Hpc) Hrest Hlx Hrp)
    as (k3 & l3 & body & Hst3 & Hs3 & Ho3 & Hsh).
  assert (Hs3' : span txt l3 [] (tpl_close ++ [])) by (rewrite app_nil_r; exact Hs3).
  destruct (lex_tpl_close uni_letter uni_digit letter_ascii digit_ascii letter_eof digit_eof txt l3 [] Hs3')
    as (k4 & l4 & ld2 & te & rd2 & Hst4 & Hs4 & Ho4 & Hld2 & Hte & Hrd2 & Hdd4).
  assert (Hs4' : span txt l4 [] ([] ++ [])) by exact Hs4.
  assert (Hpc4 : pieces MText (pwof 0 l4) [] [] = Some [[]]) by reflexivity.
  destruct (lex_stretch uni_letter uni_digit letter_ascii digit_ascii letter_eof digit_eof txt 0 [] (le_n _) l4 [[]] [] Hs4'
              ltac:(constructor) (or_introl eq_refl) Hpc4 ltac:(intros H; congruence)) as (k5 & l5 & its5 & st5 & Hst5 & Hsh5 & Hdd5 & Hend5).
  destruct Hend5 as [(_ & -> & e & He & Ho5)|(A & _)]; [|congruence].
  rewrite (pshape_empty _ Hsh5) in Ho5. cbn [rev app] in Ho5.
  exists ld0, tk, di, rd0, body, ld2, te, rd2, e.
  split; [|repeat (split; [assumption|]); exact Hsh].
  assert (Hsteps : steps uni_letter uni_digit txt 0 (k1 + (k2 + (k3 + (k4 + k5)))) LText lex_init = Ok (LDone, l5)).
  { rewrite (steps_app _ _ _ _ k1 _ _ _ _ _ Hst1), (steps_app _ _ _ _ k2 _ _ _ _ _ Hst2), (steps_app _ _ _ _ k3 _ _ _ _ _ Hst3),
      (steps_app _ _ _ _ k4 _ _ _ _ _ Hst4). exact Hst5. }
  destruct (lex_total_linear uni_letter uni_digit letter_eof digit_eof 0%Z ltac:(lia) false txt) as (lf & Hr & _).
  pose proof Hr as Hr'. rewrite lex_run_at_file in Hr'.
  pose proof (run_unique uni_letter uni_digit txt 0 (lex_budget txt) _ LText lex_init lf l5 Hr' Hsteps) as E.
  unfold lex_items, lex_run. rewrite Hr. cbn [bind]. subst lf. rewrite Ho5, Ho4, Ho3, Ho2, Ho1.
  cbn [lex_init l_out]. f_equal. cbn [rev]. rewrite rev_app_distr, rev_involutive. cbn [rev app]. rewrite <- !app_assoc. reflexivity.
Qed.

End Scan.

(* ---------- parser ---------- *)
Notation stream := ExprParserRules.stream.
Notation inv := ExprParserRules.inv.
Section PU.
Variable inlen : N.
Variable lexq : bstr -> list tok.
Variable unq : bstr -> option bstr.
Variable pexpr : nat -> N -> pst -> presult node.
Variable efuel : list tok -> nat.
Variable pe : N -> cst -> cres node.
Variable w : list N -> cst -> cres node.
Variable lf : nat.
Variable until : list N.
Hypothesis Hut : one_of pit_Text until = false.
Hypothesis Hul : one_of pit_LeftDelim until = false.
Hypothesis Hus : forall t o, assoc t parser_special_chars = Some o -> one_of t until = false.
Hypothesis Hult : one_of pit_Literal until = false.
Notation loop := (item_list_loop inlen lexq unq pexpr efuel pe w lf).
Notation btag := (begin_tag inlen lexq unq pexpr efuel pe w lf).

(* Proofs/ParseTemplate.v ld_iter_u with the case "beginTag runs out of budget" *)
Lemma ld_iter_cases_u pre ld t2 l pos acc s : Forall is_comment pre -> t_typ ld = pit_LeftDelim -> one_of (t_typ t2) until = false ->
  stream (c_p s) = pre ++ ld :: t2 :: l -> inv (c_p s) -> (length pre + 2 <= lf)%nat ->
  exists pos1 sb, stream (c_p sb) = t2 :: l /\ inv (c_p sb) /\
    (btag sb = CFuel -> forall f, loop (S f) until pos acc s = CFuel) /\
    forall n s', btag sb = COk (Some n) s' -> forall f, loop (S f) until pos acc s = loop f until (Some pos1) (acc ++ [n]) s'.
Proof.
  intros Hpre Hld Hce Hs Hi Hlf.
  destruct (ld_common inlen lexq unq pexpr efuel pe w lf until Hut Hul Hus Hult pre ld t2 l s Hpre Hld Hs Hi Hlf) as (token0 & s1 & s2 & s3 & Hn1 & Hsk & Hn3 & Hs3 & Hi3 & Hsb & Hib).
  assert (H1 : one_of (t_typ ld) until = false) by (rewrite Hld; exact Hul).
  assert (H2 : tis ld pit_Text = false) by (unfold tis; rewrite Hld; reflexivity).
  assert (H3 : tis ld pit_LeftDelim = true) by (unfold tis; rewrite Hld; reflexivity).
  exists (match pos with Some p => p | None => t_pos token0 end), (c_backup s3). split; [exact Hsb|]. split; [exact Hib|]. split.
  - intros Hb f. cbn [item_list_loop]. rewrite Hn1. cbn [cbind]. unfold text_or_tag. rewrite Hsk. cbn [cbind].
    rewrite H1, Hn3. cbn [cbind]. rewrite Hce, Bool.andb_false_r. cbv zeta. rewrite H2, H3, Hb. reflexivity.
  - intros n s' Hb f. cbn [item_list_loop]. rewrite Hn1. cbn [cbind]. unfold text_or_tag. rewrite Hsk. cbn [cbind].
    rewrite H1, Hn3. cbn [cbind]. rewrite Hce, Bool.andb_false_r. cbv zeta. rewrite H2, H3, Hb. cbn [cbind snd fst]. reflexivity.
Qed.
End PU.

Lemma start_not_template_end t : mem t expr_start_types = true -> one_of t u_template = false.
Proof.
  intros H. unfold mem, expr_start_types in H. cbn [existsb] in H.
  repeat (apply Bool.orb_true_iff in H; destruct H as [H|H]); try discriminate H; apply N.eqb_eq in H; rewrite H; reflexivity.
Qed.

Section RunT.
Variable inlen : N.
Variable lexq : bstr -> list tok.
Variable unq : bstr -> option bstr.
Variable g : nat.
Variable until : list N.
Hypothesis Hut : one_of pit_Text until = false.
Hypothesis Hul : one_of pit_LeftDelim until = false.
Hypothesis Hus : forall t o, assoc t parser_special_chars = Some o -> one_of t until = false.
Hypothesis Hult : one_of pit_Literal until = false.
Hypothesis Hstart : forall t, mem t expr_start_types = true -> one_of t until = false.
Notation PE g := (lift_expr inlen parse_expr g).
Notation IL g := (item_list inlen lexq unq parse_expr expr_fuel g).
Notation LOOP := (item_list_loop inlen lexq unq parse_expr expr_fuel (PE g) (IL g) g).

Lemma gshapeT_run : forall ld u l pcs rp items, c15_gshapeT c15_X0 (ld :: u :: l) pcs rp items ->
  t_typ ld = pit_LeftDelim -> one_of (t_typ u) until = true -> Forall no_nul pcs -> tags_wf rp ->
  forall pre, Forall is_comment pre -> forall f acc pos s,
  stream (c_p s) = pre ++ items -> inv (c_p s) -> (length (pre ++ items) + 2 <= g)%nat -> (length items <= f)%nat ->
  LOOP f until pos acc s = CFuel \/
  exists pos' nodes s', LOOP f until pos acc s = COk (NList pos' (acc ++ nodes)) s' /\ stream (c_p s') = l /\ inv (c_p s') /\
     c15_view0 (map cps_strip nodes) = gs_out (flag pre) pcs rp.
Proof.
  intros ld u l pcs rp items Hsh Hld Hu. induction Hsh as [pcs its Hps|pcs its c o tg pcs' rest items' Hps Htg Hsh IH|pcs its n txt ld1 mid pcs' rest items' Hps Hld1 HX Hsh IH];
    intros Hnn Hnr pre Hpre f acc pos s Hs Hi Hlf Hf.
  - right.
    destruct (stretch_nodes_u inlen lexq unq parse_expr expr_fuel (PE g) (IL g) g until Hut Hul Hus Hult pcs its Hps Hnn pre Hpre ld (u :: l) acc pos s
                ltac:(rewrite Hld; discriminate) ltac:(rewrite Hld; discriminate) Hs Hi
                ltac:(rewrite !app_length in *; cbn [length] in *; lia)) as (k & pre' & nodes & pos' & s' & Hk & Hpre' & Hlen & Hraw & Hcat & Hst & Hiv & Hrun).
    rewrite app_length in Hf. cbn [length] in Hf.
    replace f with (k + S (f - k - 1))%nat by lia. rewrite Hrun.
    destruct (halt_iter inlen lexq unq parse_expr expr_fuel (PE g) (IL g) g until Hut Hul Hus Hult pre' ld u l pos' (acc ++ nodes) s' (f - k - 1) Hpre' Hld Hu Hst Hiv
                ltac:(rewrite !app_length in *; cbn [length] in *; lia)) as (pos1 & s'' & Hrun2 & Hs'' & Hi'').
    exists pos1, nodes, s''. split; [exact Hrun2|]. split; [exact Hs''|]. split; [exact Hi''|].
    rewrite <- (app_nil_r nodes), (view0_raw_app nodes [] Hraw). unfold gs_out. cbn [map c15_view0 gs_rest_out fst snd]. rewrite Hcat. reflexivity.
  - inversion Hnr as [|? ? [Hnn' _] Hnr']; subst. cbn [snd] in Hnn'.
    assert (Htg0 : exists ld0 tg', tg = ld0 :: tg' /\ t_typ ld0 = pit_LeftDelim).
    { destruct Htg; eexists; eexists; split; try reflexivity; assumption. }
    destruct Htg0 as (ld0 & tg' & Etg & Hld0).
    assert (Hs0 : stream (c_p s) = pre ++ its ++ ld0 :: (tg' ++ items')).
    { rewrite Hs, Etg. reflexivity. }
    assert (Hlt : (1 <= length tg)%nat) by (rewrite Etg; cbn; lia).
    destruct (stretch_nodes_u inlen lexq unq parse_expr expr_fuel (PE g) (IL g) g until Hut Hul Hus Hult pcs its Hps Hnn pre Hpre ld0 (tg' ++ items') acc pos s
                ltac:(rewrite Hld0; discriminate) ltac:(rewrite Hld0; discriminate) Hs0 Hi
                ltac:(rewrite !app_length in *; lia)) as (k & pre' & nodes & pos' & s' & Hk & Hpre' & Hlen & Hraw & Hcat & Hst & Hiv & Hrun).
    assert (Hst' : stream (c_p s') = pre' ++ tg ++ items') by (rewrite Hst, Etg; reflexivity).
    destruct (tag_iter_u inlen lexq unq parse_expr expr_fuel (PE g) (IL g) g until Hut Hul Hus Hult o tg Htg pre' items' pos' (acc ++ nodes) s' Hpre' Hst' Hiv ltac:(rewrite !app_length in *; lia))
      as (pos1 & p & s2 & Hs2 & Hi2 & Hrun2).
    rewrite !app_length in Hf.
    replace f with (k + S (f - k - 1))%nat by lia. rewrite Hrun, Hrun2.
    destruct (IH Hnn' Hnr' [] ltac:(constructor) (f - k - 1)%nat ((acc ++ nodes) ++ [NRawText p o]) (Some pos1) s2 Hs2 Hi2
                ltac:(rewrite !app_length in *; cbn [app length] in *; lia) ltac:(lia)) as [Hfu|(pos2 & nodes2 & s3 & Hrun3 & Hs3 & Hi3 & Hv3)]; [left; exact Hfu|right].
    exists pos2, (nodes ++ NRawText p o :: nodes2), s3. split; [rewrite Hrun3, <- !app_assoc; reflexivity|]. split; [exact Hs3|]. split; [exact Hi3|].
    rewrite (view0_raw_app nodes _ Hraw), view0_raw_cons, Hv3, Hcat. unfold gs_out. cbn [gs_rest_out fst snd flag]. rewrite <- ?app_assoc. reflexivity.
  - inversion Hnr as [|? ? [Hnn' Hwfn] Hnr']; subst. cbn [snd fst] in Hnn', Hwfn.
    red in HX. subst mid.
    assert (Hs0 : stream (c_p s) = pre ++ its ++ ld1 :: (tokens_of_print (strip_pos n) ++ items')).
    { rewrite Hs. reflexivity. }
    destruct (stretch_nodes_u inlen lexq unq parse_expr expr_fuel (PE g) (IL g) g until Hut Hul Hus Hult pcs its Hps Hnn pre Hpre ld1 _ acc pos s
                ltac:(rewrite Hld1; discriminate) ltac:(rewrite Hld1; discriminate) Hs0 Hi
                ltac:(rewrite !app_length in *; cbn [length] in *; lia)) as (k & pre' & nodes & pos' & s' & Hk & Hpre' & Hlen & Hraw & Hcat & Hst & Hiv & Hrun).
    pose proof (wf_print_strip n Hwfn) as Hwf0.
    assert (Hk1 : exists k1 l1, tokens_of_print (strip_pos n) = k1 :: l1 /\ one_of (t_typ k1) until = false).
    { destruct n; cbn [wf_print] in Hwfn; try contradiction. cbn [strip_pos] in *. destruct Hwf0 as [Hwa _].
      match goal with |- context [NPrint 0 ?a ?d] => destruct (show_starts_expression sty_min a Hwa [0%nat] (sty_min [0%nat])) as (x & lx & Ex & Hx) end.
      unfold tokens_of_print. cbn [show_print]. rewrite Ex. cbn [app]. do 2 eexists. split; [reflexivity|apply Hstart; exact Hx]. }
    destruct Hk1 as (k1 & l1 & Ek1 & Hce).
    assert (Hst' : stream (c_p s') = pre' ++ ld1 :: k1 :: (l1 ++ items')) by (rewrite Hst, Ek1; reflexivity).
    destruct (ld_iter_cases_u inlen lexq unq parse_expr expr_fuel (PE g) (IL g) g until Hut Hul Hus Hult pre' ld1 k1 (l1 ++ items') pos' (acc ++ nodes) s' Hpre' Hld1 Hce Hst' Hiv
                ltac:(rewrite !app_length in *; cbn [length] in *; lia)) as (pos1 & sb & Hsb & Hib & Hfu & Hok).
    assert (Hsb' : stream (c_p sb) = tokens_of_print (strip_pos n) ++ items') by (rewrite Hsb, Ek1; reflexivity).
    rewrite !app_length in Hf. cbn [length] in Hf.
    replace f with (k + S (f - k - 1))%nat by lia. rewrite Hrun.
    destruct (begin_tag_print_cases inlen lexq unq g n items' sb Hwfn Hsb' Hib) as [Hb|(s2 & Hb & Hs2 & Hi2)]; [left; apply Hfu; exact Hb|].
    rewrite (Hok _ _ Hb).
    destruct (IH Hnn' Hnr' [] ltac:(constructor) (f - k - 1)%nat ((acc ++ nodes) ++ [strip_pos n]) (Some pos1) s2 Hs2 Hi2
                ltac:(rewrite !app_length in *; cbn [app length] in *; lia) ltac:(lia)) as [Hfu2|(pos2 & nodes2 & s3 & Hrun3 & Hs3 & Hi3 & Hv3)]; [left; exact Hfu2|right].
    exists pos2, (nodes ++ strip_pos n :: nodes2), s3. split; [rewrite Hrun3, <- !app_assoc; reflexivity|]. split; [exact Hs3|]. split; [exact Hi3|].
    rewrite (view0_raw_app nodes _ Hraw), (view0_print_cons n nodes2 Hwfn), Hv3, Hcat. unfold gs_out. cbn [gs_rest_out fst snd flag]. rewrite app_nil_r. reflexivity.
Qed.
End RunT.

Lemma cps_strip_tpl_inv x pos tp nm bpos nodes ae pv : cps_strip x = cps_strip (NList pos [NTemplate tp nm (NList bpos nodes) ae pv]) ->
  exists pos' tp' bpos' nodes', x = NList pos' [NTemplate tp' nm (NList bpos' nodes') ae pv] /\ map cps_strip nodes' = map cps_strip nodes.
Proof.
  intros H. destruct x; cbn in H; try discriminate H. injection H as H.
  match type of H with map cps_strip ?l0 = _ => destruct l0 as [|t' [|t2 r2]]; cbn [map] in H; try discriminate H end.
  injection H as H. destruct t'; cbn in H; try discriminate H. injection H as Enm Ebody Eae Epv. subst.
  match type of Ebody with cps_strip ?b0 = _ => destruct b0; cbn in Ebody; try discriminate Ebody end. injection Ebody as Ebody.
  eexists _, _, _, _. split; [reflexivity|exact Ebody].
Qed.

(* ---------- parseTemplate around such a body, as the one command of a file, at the entry point's own budget ---------- *)
Section FileT.
Variable inlen : N.
Variable lexq : bstr -> list tok.
Variable unq : bstr -> option bstr.

Lemma tags_template_file_run ld0 tk di rd0 bodyT ld2 te rd2 e pcs rp :
  t_typ ld0 = pit_LeftDelim -> t_typ tk = pit_Template -> t_typ di = pit_DotIdent -> t_typ rd0 = pit_RightDelim ->
  c15_gshapeT c15_X0 [ld2; te; rd2; e] pcs rp bodyT ->
  t_typ ld2 = pit_LeftDelim -> t_typ te = pit_TemplateEnd -> t_typ rd2 = pit_RightDelim -> t_typ e = pit_EOF ->
  Forall no_nul pcs -> tags_wf rp ->
  item_list inlen lexq unq parse_expr expr_fuel (S (S (length (ld0 :: tk :: di :: rd0 :: bodyT) + 6))) u_eof (cst_init (ld0 :: tk :: di :: rd0 :: bodyT)) = CFuel \/
  exists pos tp nm ae pv bpos nodes s',
    item_list inlen lexq unq parse_expr expr_fuel (S (S (length (ld0 :: tk :: di :: rd0 :: bodyT) + 6))) u_eof (cst_init (ld0 :: tk :: di :: rd0 :: bodyT))
      = COk (NList pos [NTemplate tp nm (NList bpos nodes) ae pv]) s' /\
    c15_view0 (map cps_strip nodes) = gs_out false pcs rp.
Proof.
  intros Hld0 Htk Hdi Hrd0 Hbody Hld2 Hte Hrd2 He Hnn Hnr.
  set (items := ld0 :: tk :: di :: rd0 :: bodyT).
  set (G1 := (length items + 6)%nat). set (G := S G1).
  destruct (stream_init items) as [Hs0 Hi0].
  assert (Hlb : (length bodyT + 4 = length items)%nat) by (unfold items; cbn [length]; lia).
  (* the file level: "{" template ... *)
  destruct (ld_iter_cases inlen lexq unq parse_expr expr_fuel (lift_expr inlen parse_expr G) (item_list inlen lexq unq parse_expr expr_fuel G) G
              [] ld0 tk (di :: rd0 :: bodyT) None [] (cst_init items) ltac:(constructor) Hld0 ltac:(rewrite Htk; reflexivity)
              Hs0 Hi0 ltac:(unfold G, G1; cbn [length]; lia)) as (pos1 & sb & Hsb & Hib & Hfu & Hrun).
  destruct (mx_next sb tk _ Hsb Hib) as (s1 & Hn1 & Hs1 & Hi1 & _).
  destruct (mx_expect inlen pit_DotIdent x_template s1 di _ Hs1 Hi1 Hdi) as (s2 & He2 & Hs2 & Hi2).
  destruct (mx_next s2 rd0 _ Hs2 Hi2) as (s3 & Hn3 & Hs3 & Hi3 & Hsb3 & Hib3).
  destruct (mx_expect inlen pit_RightDelim x_template (c_backup s3) rd0 _ Hsb3 Hib3 Hrd0) as (s5 & He5 & Hs5 & Hi5).
  (* the body, one level down *)
  assert (Hbt : forall r, item_list inlen lexq unq parse_expr expr_fuel G u_template s5 = r ->
            begin_tag inlen lexq unq parse_expr expr_fuel (lift_expr inlen parse_expr G) (item_list inlen lexq unq parse_expr expr_fuel G) G sb =
            cbind r (fun body s6 => cbind (c_expect inlen pit_RightDelim x_template s6) (fun _ s7 =>
              COk (Some (NTemplate (t_pos tk) (c_ns s6 ++ t_val di) body 0 false)) s7))).
  { intros r Hr. unfold begin_tag. rewrite Hn1. cbn [cbind]. unfold tis. rewrite Htk. eval_tests.
    unfold parse_template. rewrite He2. cbn [cbind].
    unfold G at 1. cbn [attrs_loop]. rewrite Hn3. cbn [cbind]. unfold tis. rewrite Hrd0. eval_tests. cbn [cbind].
    change (parse_autoescape inlen [] (c_backup s3)) with (@COk N 0 (c_backup s3)). cbn [cbind].
    change (bool_attr inlen [] k_private false (c_backup s3)) with (COk false (c_backup s3)). cbn [cbind].
    rewrite He5. cbn [cbind]. rewrite Hr. destruct r; cbn [cbind]; try reflexivity.
    match goal with |- context [c_expect inlen pit_RightDelim x_template ?st] => destruct (c_expect inlen pit_RightDelim x_template st); reflexivity end. }
  destruct (gshapeT_run inlen lexq unq G1 u_template eq_refl eq_refl special_not_template_end eq_refl start_not_template_end
              ld2 te [rd2; e] pcs rp bodyT Hbody Hld2 ltac:(rewrite Hte; reflexivity) Hnn Hnr [] ltac:(constructor) (S G1) [] None s5 Hs5 Hi5
              ltac:(unfold G1; cbn [app]; lia) ltac:(unfold G1; lia))
    as [Hbf|(bpos & nodes & s6 & Hbd & Hs6 & Hi6 & Hv)].
  - left. change (S (S (length items + 6))) with (S G).
    change (item_list inlen lexq unq parse_expr expr_fuel (S G) u_eof (cst_init items))
      with (item_list_loop inlen lexq unq parse_expr expr_fuel (lift_expr inlen parse_expr G) (item_list inlen lexq unq parse_expr expr_fuel G) G (S G) u_eof None [] (cst_init items)).
    apply Hfu. rewrite (Hbt CFuel); [reflexivity|]. exact Hbf.
  - right. destruct (mx_expect inlen pit_RightDelim x_template s6 rd2 _ Hs6 Hi6 Hrd2) as (s7 & He7 & Hs7 & Hi7).
    set (tpl := NTemplate (t_pos tk) (c_ns s6 ++ t_val di) (NList bpos nodes) 0 false).
    assert (Hb : begin_tag inlen lexq unq parse_expr expr_fuel (lift_expr inlen parse_expr G) (item_list inlen lexq unq parse_expr expr_fuel G) G sb = COk (Some tpl) s7).
    { rewrite (Hbt _ Hbd). cbn [cbind app]. rewrite He7. reflexivity. }
    destruct (eof_iter inlen lexq unq parse_expr expr_fuel (lift_expr inlen parse_expr G) (item_list inlen lexq unq parse_expr expr_fuel G) G
                [] e [] G1 (Some pos1) [tpl] s7 ltac:(constructor) He Hs7 Hi7 ltac:(unfold G, G1; cbn [length]; lia)) as (pos2 & s' & Hend).
    exists pos2, (t_pos tk), (c_ns s6 ++ t_val di), 0, false, bpos, nodes, s'. split; [|exact Hv].
    change (S (S (length items + 6))) with (S G).
    change (item_list inlen lexq unq parse_expr expr_fuel (S G) u_eof (cst_init items))
      with (item_list_loop inlen lexq unq parse_expr expr_fuel (lift_expr inlen parse_expr G) (item_list inlen lexq unq parse_expr expr_fuel G) G (S G) u_eof None [] (cst_init items)).
    rewrite (Hrun tpl s7 Hb G). exact Hend.
Qed.

Hypothesis Hq : lexq_wf lexq.

(* parse.SoyFile on the items the scanner sends for such a file *)
Lemma soy_file_tpl_tags ld0 tk di rd0 body ld2 te rd2 e pcs rp :
  t_typ ld0 = pit_LeftDelim -> t_typ tk = pit_Template -> t_typ di = pit_DotIdent -> t_typ rd0 = pit_RightDelim ->
  (forall term, c15_gshapeT c15_X1 term pcs rp (body ++ term)) ->
  t_typ ld2 = pit_LeftDelim -> t_typ te = pit_TemplateEnd -> t_typ rd2 = pit_RightDelim -> t_typ e = pit_EOF ->
  items_wf inlen (ld0 :: tk :: di :: rd0 :: body ++ [ld2; te; rd2; e]) -> Forall no_nul pcs -> tags_wf rp ->
  exists pos tp nm ae pv bpos nodes st,
    po_result (soy_file inlen lexq unq (ld0 :: tk :: di :: rd0 :: body ++ [ld2; te; rd2; e])) = POk (NList pos [NTemplate tp nm (NList bpos nodes) ae pv]) st /\
    c15_view0 (map cps_strip nodes) = gs_out false pcs rp.
Proof.
  intros Hld0 Htk Hdi Hrd0 Hbody Hld2 Hte Hrd2 He Hw Hn0 Hnr.
  set (items := ld0 :: tk :: di :: rd0 :: body ++ [ld2; te; rd2; e]) in *.
  assert (Hwb : items_wf inlen (body ++ [ld2; te; rd2; e]) /\ Forall (twf inlen) [ld0; tk; di; rd0]).
  { unfold items_wf, items in Hw. inversion Hw as [|? ? A1 Hw1]; subst. inversion Hw1 as [|? ? A2 Hw2]; subst. inversion Hw2 as [|? ? A3 Hw3]; subst.
    inversion Hw3 as [|? ? A4 Hw4]; subst. split; [exact Hw4|repeat constructor; assumption]. }
  destruct Hwb as [Hwb Hwh].
  destruct (gshapeT_erase inlen [ld2; te; rd2; e] pcs rp _ (Hbody _) Hwb) as (bodyT & Hsh0 & Hst & Hw0 & Hlen).
  set (items0 := ld0 :: tk :: di :: rd0 :: bodyT).
  assert (Hst0 : map strip_tok items0 = map strip_tok items) by (unfold items0, items; cbn [map]; rewrite Hst; reflexivity).
  assert (Hw00 : items_wf inlen items0).
  { unfold items_wf, items0. inversion Hwh as [|? ? B1 Hh1]; subst. inversion Hh1 as [|? ? B2 Hh2]; subst. inversion Hh2 as [|? ? B3 Hh3]; subst. inversion Hh3 as [|? ? B4 _]; subst.
    repeat (constructor; [assumption|]). exact Hw0. }
  assert (Hlen0 : length items0 = length items) by (unfold items0, items; cbn [length]; rewrite Hlen; reflexivity).
  pose proof (soy_file_total inlen lexq unq Hq items0 Hw00) as Ht.
  unfold soy_file, parse_file, file_fuel in *. rewrite <- Hlen0.
  replace (length items0 + 8)%nat with (S (S (length items0 + 6))) in * by lia.
  destruct (tags_template_file_run ld0 tk di rd0 bodyT ld2 te rd2 e pcs rp Hld0 Htk Hdi Hrd0 Hsh0 Hld2 Hte Hrd2 He Hn0 Hnr)
    as [Hfu|(pos & tp & nm & ae & pv & bpos & nodes & s' & Hrun & Hv)].
  - exfalso. fold items0 in Hfu. rewrite Hfu in Ht. exact Ht.
  - fold items0 in Hrun.
    destruct (cps_body inlen inlen lexq unq expr_fuel cps_expr_fuel _ u_eof items0 items _ s' Hst0 Hrun) as (x' & s2 & Hrun2 & Hx).
    rewrite Hrun2. cbn [po_result].
    destruct (cps_strip_tpl_inv _ _ _ _ _ _ _ _ (eq_sym Hx)) as (pos' & tp' & bpos' & nodes' & -> & Hn').
    eexists _, _, _, _, _, _, _, _. split; [reflexivity|]. rewrite Hn'. exact Hv.
Qed.
End FileT.

Section TopT.
Variable uni_letter uni_digit : Z -> bool.
Hypothesis letter_ascii : forall c, (c < 128)%N -> uni_letter (Z.of_N c) = ((65 <=? c) && (c <=? 90) || (97 <=? c) && (c <=? 122))%N.
Hypothesis digit_ascii : forall c, (c < 128)%N -> uni_digit (Z.of_N c) = digit_b c.
Hypothesis letter_eof : uni_letter (-1)%Z = false.
Hypothesis digit_eof : uni_digit (-1)%Z = false.
Variable lexq : bstr -> list tok.
Variable unq : bstr -> option bstr.
Hypothesis Hq : lexq_wf lexq.

Lemma c15_tpl_rest_ok rest : Forall (fun sg : c15_tseg => c15_tag_ok print_node (fst sg) /\ mix_stretch_ok false false (snd sg)) rest ->
  forall rp, c15_rest_pieces rest rp -> tags_wf rp.
Proof.
  induction rest as [|[tg T] r IH]; intros Hok rp Hrp; destruct rp as [|[tg' pcs] rp']; try contradiction; [constructor|].
  cbn [c15_rest_pieces] in Hrp. destruct Hrp as (-> & Hp & Hrp'). inversion Hok as [|? ? (Htg & [Hpl _]) Hok']; subst. cbn [fst snd] in *.
  constructor; [|apply (IH Hok' rp' Hrp')]. cbn [snd fst]. split.
  - apply (pieces_bytes (fun c => c <> 0) T MText false [] pcs); [constructor| |exact Hp].
    eapply Forall_impl; [|exact Hpl]. intros a (Ha & _). exact Ha.
  - destruct tg as [c|n txt]; [exact I|]. exact (proj1 Htg).
Qed.

(* body_text_spec for the body of a template with print commands among the tags, as a statement about a whole file *)
Theorem template_body_tags_impl_spec name T0 rest out : tpl_name_wf name -> c15_tpl_ok print_node T0 rest -> c15_lex_oks rest ->
  c15_tpl_out T0 rest = Some out ->
  exists items pos tp nm ae pv bpos nodes st,
    lex_items uni_letter uni_digit (lex_budget (c15_tpl_file name T0 rest)) false (c15_tpl_file name T0 rest) = Ok items /\
    po_result (soy_file (N.of_nat (length (c15_tpl_file name T0 rest))) lexq unq items)
      = POk (NList pos [NTemplate tp nm (NList bpos nodes) ae pv]) st /\
    c15_view0 (map cps_strip nodes) = out.
Proof.
  intros Hname Hok Hlx Hout. unfold c15_tpl_out, body_text in Hout.
  destruct (pieces MText false [] T0) as [pcs|] eqn:Hp; [|discriminate].
  destruct (c15_rest_out rest) as [o'|] eqn:Hr; [|discriminate]. injection Hout as <-.
  destruct (c15_rest_out_pieces rest o' Hr) as (rp & Hrp & Ho).
  destruct (lex_template_file_tags uni_letter uni_digit letter_ascii digit_ascii letter_eof digit_eof name T0 rest pcs rp (tpl_name_wf_ok _ Hname) Hok Hlx Hp Hrp)
    as (ld0 & tk & di & rd0 & body & ld2 & te & rd2 & e & Hlex & A1 & A2 & A3 & _ & A4 & A5 & A6 & A7 & A8 & Hsh).
  destruct (lex_items_total _ _ letter_eof digit_eof false (c15_tpl_file name T0 rest)) as (ts & Hl & Hsc). rewrite Hlex in Hl. injection Hl as <-.
  pose proof (scan_items_wf_all _ _ Hsc) as Hw.
  destruct Hok as [[Hpl0 _] Hokr].
  assert (Hn0 : Forall no_nul pcs).
  { apply (pieces_bytes (fun c => c <> 0) T0 MText false [] pcs); [constructor| |exact Hp].
    eapply Forall_impl; [|exact Hpl0]. intros a (Ha & _). exact Ha. }
  destruct (soy_file_tpl_tags _ lexq unq Hq ld0 tk di rd0 body ld2 te rd2 e pcs rp A1 A2 A3 A4 Hsh A5 A6 A7 A8 Hw Hn0 (c15_tpl_rest_ok rest Hokr rp Hrp))
    as (pos & tp & nm & ae & pv & bpos & nodes & st & A & B).
  exists (ld0 :: tk :: di :: rd0 :: body ++ [ld2; te; rd2; e]), pos, tp, nm, ae, pv, bpos, nodes, st.
  split; [exact Hlex|]. split; [exact A|]. rewrite B. unfold gs_out. rewrite Ho. reflexivity.
Qed.
End TopT.
