(* Position independence of the successful runs of the command-level parser model: itemList
   (closing the open recursion of Section Level by induction on the fuel) and the corollary on
   two item lists that agree up to positions. *)
From Soy Require Import Model.Bytes Model.Num Model.Values Model.Outcome Model.Ast Model.Token Model.RawText Model.ExprParser Model.Parser
  Generated.Tables Spec.ExprSyntax Proofs.ExprParserStrip.
From Soy Require Import Proofs.CmdParserStripDefs Proofs.CmdParserStripPlz Proofs.CmdParserStrip Proofs.CmdParserStrip2.
Require Import Lia List.
Import ListNotations.
Open Scope N_scope.

Section Main.
Variables (inlen inlen' : N) (lexq : bstr -> list tok) (unq : bstr -> option bstr) (efuel : list tok -> nat).
Hypothesis Hefuel : forall ts ts', map strip_tok ts = map strip_tok ts' -> efuel ts = efuel ts'.

Theorem cps_item_list : forall f until s s', cps_R s s' ->
  cps_ok (fun n n' => cps_strip n = cps_strip n')
    (item_list inlen lexq unq parse_expr efuel f until s) (item_list inlen' lexq unq parse_expr efuel f until s').
Proof.
  induction f as [|f IH]; intros unt s s' H; cbn [item_list]; [apply cps_ok_fuel|].
  apply (cps_item_list_loop inlen inlen' lexq unq efuel Hefuel cps_plz_children cps_exists_plural cps_children_of).
  - intros prec s0 s0' H0. apply cps_lift_expr. exact H0.
  - intros unt0 s0 s0' H0. apply IH. exact H0.
  - apply cps_leq_nil.
  - exact H.
Qed.

Lemma cps_R_init its its' : map strip_tok its = map strip_tok its' -> cps_R (cst_init its) (cst_init its').
Proof. intros H. unfold cps_R, cst_init. cbn [c_p c_ns c_al c_inmsg c_scans]. rewrite !zs_init, H. repeat split. Qed.

Corollary cps_body : forall f until its its' x s, map strip_tok its = map strip_tok its' ->
  item_list inlen lexq unq parse_expr efuel f until (cst_init its) = COk x s ->
  exists x' s', item_list inlen' lexq unq parse_expr efuel f until (cst_init its') = COk x' s' /\ cps_strip x = cps_strip x'.
Proof.
  intros f unt its its' x s Hits E.
  destruct (cps_item_list f unt _ _ (cps_R_init _ _ Hits) x s E) as (x' & s' & E' & Hx & _). eauto.
Qed.

(* the same with the final states related *)
Corollary cps_body_R : forall f until its its' x s, map strip_tok its = map strip_tok its' ->
  item_list inlen lexq unq parse_expr efuel f until (cst_init its) = COk x s ->
  exists x' s', item_list inlen' lexq unq parse_expr efuel f until (cst_init its') = COk x' s' /\ cps_strip x = cps_strip x' /\ cps_R s s'.
Proof.
  intros f unt its its' x s Hits E. exact (cps_item_list f unt _ _ (cps_R_init _ _ Hits) x s E).
Qed.
End Main.

(* the budget of the model's entry points satisfies the hypothesis *)
Corollary cps_body_expr_fuel : forall inlen inlen' lexq unq f until its its' x s, map strip_tok its = map strip_tok its' ->
  item_list inlen lexq unq parse_expr expr_fuel f until (cst_init its) = COk x s ->
  exists x' s', item_list inlen' lexq unq parse_expr expr_fuel f until (cst_init its') = COk x' s' /\ cps_strip x = cps_strip x'.
Proof. intros inlen inlen' lexq unq. apply cps_body. exact cps_expr_fuel. Qed.

(* parse.SoyFile: a successful parse of items that agree up to positions *)
Corollary cps_soy_file inlen inlen' lexq unq ts ts' n p :
  map strip_tok ts = map strip_tok ts' ->
  po_result (soy_file inlen lexq unq ts) = POk n p ->
  exists n' p', po_result (soy_file inlen' lexq unq ts') = POk n' p' /\ cps_strip n = cps_strip n' /\ zs p = zs p' /\
                po_scans (soy_file inlen lexq unq ts) = po_scans (soy_file inlen' lexq unq ts').
Proof.
  intros Hts E. unfold soy_file, parse_file in *.
  assert (Hlen : length ts = length ts') by (apply (f_equal (@length tok)) in Hts; rewrite !map_length in Hts; exact Hts).
  assert (Hf : file_fuel ts = file_fuel ts') by (unfold file_fuel; rewrite Hlen; reflexivity).
  rewrite <- Hf, <- Hlen.
  destruct (item_list inlen lexq unq parse_expr expr_fuel (file_fuel ts) u_eof (cst_init ts)) as [x s|t c s|m|] eqn:Ei;
    cbn [po_result] in E; try discriminate E.
  injection E as <- <-.
  destruct (cps_item_list inlen inlen' lexq unq expr_fuel cps_expr_fuel _ _ _ _ (cps_R_init _ _ Hts) x s Ei)
    as (x' & s' & -> & Hx & Hp & _ & _ & _ & Hsc).
  cbn [po_result po_scans]. exists x', (c_p s'). split; [reflexivity|]. split; [exact Hx|]. split; [exact Hp|].
  apply (f_equal p_recv) in Hp. cbn [zs p_recv] in Hp. rewrite Hp, Hsc. reflexivity.
Qed.
