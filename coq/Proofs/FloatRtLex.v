(* Float round trip, part 7: the float clause of LexPrintMain.lex_ok is a theorem -- the text the printer
   writes for a finite float in normal form has the shape the scanner's number rule reads as ONE float item
   (sign, digits, then a fraction or an exponent). *)
From Soy Require Import Model.Bytes Model.Num Model.Ast Model.AstPrint Proofs.MsgIdProofs Proofs.LexTokens Proofs.LexNumbers Proofs.LexPrintMain
  Proofs.FloatRtText Proofs.FloatRtMain Proofs.FloatRtPrint.
From Coq Require Import ZifyBool ZifyNat ZifyN Lia.
Open Scope N_scope.

Lemma rt_digs_all_digits l : rt_digs l -> all_digits l.
Proof.
  intros H. unfold all_digits. induction H as [|c l Hc Hl IH]; constructor; [|exact IH].
  unfold is_digit_byte in Hc. unfold digit_b. lia.
Qed.

Lemma rt_no_lead_zero_single d : no_lead_zero [d].
Proof.
  unfold no_lead_zero. destruct d as [|p]; [exact Logic.I|].
  do 6 (try (destruct p as [p|p|]; try exact Logic.I)).
Qed.

Lemma rt_shape_float_txt s : rt_shape s -> float_txt_ok s.
Proof.
  intros (neg & ip & fp & hasexp & eneg & ex & -> & Hip & Hne & Hfp & Hex & Hx & Hf).
  exists neg, ip, (match fp with [] => None | _ => Some fp end),
    (if hasexp then Some ([if eneg then 45 else 43], ex) else None).
  split; [|split].
  - unfold rt_text, num_text, sign_text, rt_fpart, frac_text, rt_tail, exp_text.
    destruct fp; destruct hasexp; reflexivity.
  - unfold num_ok. split; [apply rt_digs_all_digits; exact Hip|]. split; [exact Hne|]. split.
    + destruct fp as [|f fp'].
      * destruct Hf as [Hf|(_ & d & ->)]; [congruence|apply rt_no_lead_zero_single].
      * split; [apply rt_digs_all_digits; exact Hfp|discriminate].
    + destruct hasexp; [|exact Logic.I]. split; [destruct eneg; unfold sign_ok; auto|].
      split; [apply rt_digs_all_digits; exact Hex|exact Hx].
  - unfold num_type. destruct fp as [|f fp']; [|reflexivity]. destruct Hf as [Hf|(-> & _)]; [congruence|reflexivity].
Qed.

Theorem fl_print_float_txt (f : fl) (s : bstr) : fl_finite_norm f -> fl_print f = Some s -> float_txt_ok s.
Proof. intros Hn Hs. apply rt_shape_float_txt. exact (fl_print_shape f s Hn Hs). Qed.

(* the float clause of lex_ok, for every float a well-formed tree can carry *)
Corollary lex_ok_float (p : N) (f : fl) : fl_finite_norm f -> lex_ok (NFloat p f).
Proof.
  intros Hn. cbn [lex_ok]. destruct (fl_print f) as [s|] eqn:E; [|exact Logic.I]. exact (fl_print_float_txt f s Hn E).
Qed.
