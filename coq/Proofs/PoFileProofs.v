(* Round trip of the PO file's quoted fields (Model/PoFile.v): strconv.Unquote inverts
   strconv.Quote on every byte string, scanner.quo reads back what writer.quo wrote (one line or
   the multi-line form), and the quoted fields of a message (msgctxt, msgid, msgid_plural,
   msgstr / msgstr[i]) are read back as written -- for EVERY IsPrint table. *)
From Coq Require Import Lia ZifyN ZifyNat ZifyBool List Bool.
From Soy Require Import Model.Bytes Model.Outcome Model.Utf8 Model.PoFile Proofs.Utf8Proofs.
Import ListNotations.
Open Scope N_scope.
Ltac Zify.zify_post_hook ::= Z.div_mod_to_equations.

Definition bytes (s : bstr) : Prop := Forall (fun c => c < 256) s.

Section Po.
Variable is_print : N -> bool.
Notation esc_rune := (esc_rune is_print).
Notation quote_go := (quote_go is_print).
Notation quote_body := (quote_body is_print).
Notation po_go_quote := (po_go_quote is_print).
Notation po_quo := (po_quo is_print).
Notation po_opt := (po_opt is_print).
Notation po_msgstr := (po_msgstr is_print).
Notation po_plural := (po_plural is_print).
Notation po_plural_from := (po_plural_from is_print).
Notation po_write_fields := (po_write_fields is_print).

(* ------------------------------------------------------------------ *)
(* hex digits                                                          *)
(* ------------------------------------------------------------------ *)

Lemma unhex_hexdig d : d < 16 -> unhex (hexdig d) = Some d.
Proof.
  intro H. unfold unhex, hexdig, in_range.
  destruct (d <? 10) eqn:E.
  - replace ((48 <=? 48 + d) && (48 + d <=? 57)) with true by lia. f_equal. lia.
  - replace ((48 <=? 87 + d) && (87 + d <=? 57)) with false by lia.
    replace ((97 <=? 87 + d) && (87 + d <=? 102)) with true by lia. f_equal. lia.
Qed.

Lemma unhex_n_step k acc d X : d < 16 -> unhex_n (S k) acc (hexdig d :: X) = unhex_n k (acc * 16 + d) X.
Proof. intro H. cbn [unhex_n]. rewrite unhex_hexdig by exact H. reflexivity. Qed.

Lemma unhex_hex2 c X : c < 256 -> unhex_n 2 0 (hex2 c ++ X) = Some (c, X).
Proof.
  intro H. unfold hex2. cbn [app]. rewrite !unhex_n_step by (apply N.mod_lt; discriminate).
  cbn [unhex_n]. f_equal. f_equal. lia.
Qed.
Lemma unhex_hex4 r X : r < 65536 -> unhex_n 4 0 (hex4 r ++ X) = Some (r, X).
Proof.
  intro H. unfold hex4. cbn [app]. rewrite !unhex_n_step by (apply N.mod_lt; discriminate).
  cbn [unhex_n]. f_equal. f_equal. lia.
Qed.
Lemma unhex_hex8 r X : r < 4294967296 -> unhex_n 8 0 (hex8 r ++ X) = Some (r, X).
Proof.
  intro H. unfold hex8, hex4. cbn [app]. rewrite !unhex_n_step by (apply N.mod_lt; discriminate).
  cbn [unhex_n]. f_equal. f_equal. lia.
Qed.

(* ------------------------------------------------------------------ *)
(* one escaped rune is read back                                       *)
(* ------------------------------------------------------------------ *)

(* what the loop of unquote appends for (value, multibyte) *)
Definition appended (v : N) (mb : bool) : bstr := if (v <? 128) || negb mb then [v] else encode_rune v.

Lemma valid_scalar_rune r : valid_scalar r -> valid_rune r = true.
Proof. unfold valid_scalar, valid_rune. lia. Qed.

Lemma uq_raw_multibyte r X : valid_scalar r -> 128 <= r ->
  exists c0 tl, encode_rune r = c0 :: tl /\ 128 <= c0 /\
  unquote_char (encode_rune r ++ X) = Some (r, true, X).
Proof.
  intros Hv Hr. destruct (encode_rune_shape r Hv) as (c0 & tl & E & _ & _ & _ & Hlt & _).
  exists c0, tl. split; [exact E|]. assert (H0 : 128 <= c0) by lia. split; [exact H0|].
  pose proof (decode_encode r X Hv) as Hd. rewrite E in *. cbn [app] in *.
  unfold unquote_char. replace (c0 =? 34) with false by lia. replace (128 <=? c0) with true by lia.
  rewrite Hd. f_equal. f_equal.
  change (c0 :: tl ++ X) with ((c0 :: tl) ++ X). apply drop_app_length.
Qed.

Lemma uq_esc r X : valid_scalar r ->
  exists v mb c0 tl, esc_rune r ++ X = c0 :: tl /\ c0 <> 34 /\ c0 <> 10 /\
    unquote_char (esc_rune r ++ X) = Some (v, mb, X) /\ appended v mb = encode_rune r.
Proof.
  intro Hv. unfold esc_rune.
  destruct ((r =? 34) || (r =? 92)) eqn:E1.
  { exists r, false, 92, (r :: X). cbn [app]. repeat split; try discriminate.
    - unfold unquote_char. cbn [N.eqb Pos.eqb N.leb N.compare Pos.compare Pos.compare_cont negb].
      assert (r = 34 \/ r = 92) as [-> | ->] by lia; reflexivity.
    - unfold appended, encode_rune. assert (r = 34 \/ r = 92) as [-> | ->] by lia; reflexivity. }
  destruct (printable is_print r) eqn:E2.
  { destruct (N.ltb_spec r 128) as [Hlt|Hge].
    - unfold printable in E2. replace (r <? 128) with true in E2 by lia.
      assert (Henc : encode_rune r = [r]) by (unfold encode_rune; replace (r <? 128) with true by lia; reflexivity).
      rewrite Henc. exists r, false, r, X. cbn [app]. repeat split; try lia.
      + unfold unquote_char. replace (r =? 34) with false by lia. replace (128 <=? r) with false by lia.
        replace (r =? 92) with false by lia. reflexivity.
      + unfold appended. replace (r <? 128) with true by lia. reflexivity.
    - destruct (uq_raw_multibyte r X Hv Hge) as (c0 & tl & E & H0 & Hu).
      exists r, true, c0, (tl ++ X). split; [rewrite E; reflexivity|]. split; [lia|]. split; [lia|].
      split; [exact Hu|]. unfold appended. replace (r <? 128) with false by lia. reflexivity. }
  assert (Hsmall : forall k e, r = k -> k < 128 ->
            unquote_char (92 :: e :: X) = Some (k, false, X) ->
            exists v mb c0 tl, [92; e] ++ X = c0 :: tl /\ c0 <> 34 /\ c0 <> 10 /\
              unquote_char ([92; e] ++ X) = Some (v, mb, X) /\ appended v mb = encode_rune r).
  { intros k e -> Hk Hu. exists k, false, 92, (e :: X). cbn [app]. repeat split; try discriminate; [exact Hu|].
    unfold appended, encode_rune. replace (k <? 128) with true by lia. reflexivity. }
  destruct (r =? 7) eqn:E7; [apply (Hsmall 7 97); [lia|lia|reflexivity]|].
  destruct (r =? 8) eqn:E8; [apply (Hsmall 8 98); [lia|lia|reflexivity]|].
  destruct (r =? 12) eqn:E12; [apply (Hsmall 12 102); [lia|lia|reflexivity]|].
  destruct (r =? 10) eqn:E10; [apply (Hsmall 10 110); [lia|lia|reflexivity]|].
  destruct (r =? 13) eqn:E13; [apply (Hsmall 13 114); [lia|lia|reflexivity]|].
  destruct (r =? 9) eqn:E9; [apply (Hsmall 9 116); [lia|lia|reflexivity]|].
  destruct (r =? 11) eqn:E11; [apply (Hsmall 11 118); [lia|lia|reflexivity]|].
  destruct ((r <? 32) || (r =? 127)) eqn:Ec.
  { exists r, false, 92, (120 :: hex2 r ++ X). cbn [app]. repeat split; try discriminate.
    - unfold unquote_char. cbn [N.eqb Pos.eqb N.leb N.compare Pos.compare Pos.compare_cont negb].
      rewrite unhex_hex2 by lia. reflexivity.
    - unfold appended, encode_rune. replace (r <? 128) with true by lia. reflexivity. }
  assert (Hge : 128 <= r).
  { unfold printable in E2. destruct (N.ltb_spec r 128) as [Hlt|Hge]; [|exact Hge]. exfalso. lia. }
  assert (Happ : appended r true = encode_rune r).
  { unfold appended. replace (r <? 128) with false by lia. reflexivity. }
  destruct (r <? 65536) eqn:E16.
  - exists r, true, 92, (117 :: hex4 r ++ X). cbn [app]. repeat split; try discriminate; [|exact Happ].
    unfold unquote_char. cbn [N.eqb Pos.eqb N.leb N.compare Pos.compare Pos.compare_cont negb].
    rewrite unhex_hex4 by lia. rewrite valid_scalar_rune by exact Hv. reflexivity.
  - exists r, true, 92, (85 :: hex8 r ++ X). cbn [app]. repeat split; try discriminate; [|exact Happ].
    unfold unquote_char. cbn [N.eqb Pos.eqb N.leb N.compare Pos.compare Pos.compare_cont negb].
    rewrite unhex_hex8 by (unfold valid_scalar in Hv; lia). rewrite valid_scalar_rune by exact Hv. reflexivity.
Qed.

Lemma uq_badbyte c X : c < 256 ->
  unquote_char (92 :: 120 :: hex2 c ++ X) = Some (c, false, X).
Proof.
  intro H. unfold unquote_char. cbn [N.eqb Pos.eqb N.leb N.compare Pos.compare Pos.compare_cont negb].
  rewrite unhex_hex2 by exact H. reflexivity.
Qed.

(* ------------------------------------------------------------------ *)
(* the loop of unquote inverts the loop of Quote                        *)
(* ------------------------------------------------------------------ *)

Lemma bytes_drop k s : bytes s -> bytes (drop k s).
Proof.
  revert s; induction k as [|k IH]; intros [|c s] H; cbn [drop]; auto. apply IH. inversion H; assumption.
Qed.
Lemma length_drop_le k (s : bstr) : (length (drop k s) <= length s - k)%nat.
Proof. revert s; induction k as [|k IH]; intros [|c s]; cbn [drop length]; try lia. specialize (IH s). lia. Qed.

(* one iteration of Quote: the bytes consumed, and the piece emitted, which unquote reads back *)
Lemma quote_step f c s' : bytes (c :: s') ->
  exists u rest piece, c :: s' = u ++ rest /\ u <> [] /\
    quote_go (S f) (c :: s') = piece ++ quote_go f rest /\
    forall X, exists v mb c0 tl, piece ++ X = c0 :: tl /\ c0 <> 34 /\ c0 <> 10 /\
      unquote_char (piece ++ X) = Some (v, mb, X) /\ appended v mb = u.
Proof.
  intro Hb. assert (Hc : c < 256) by (inversion Hb; assumption).
  cbn [quote_go].
  destruct (c <? 128) eqn:Ec.
  - (* ASCII *)
    replace (Nat.eqb 1 1 && (c =? rune_error)) with false by (unfold rune_error; cbn [Nat.eqb andb]; lia).
    exists [c], s', (esc_rune c). cbn [drop app]. split; [reflexivity|]. split; [discriminate|]. split; [reflexivity|].
    intro X. assert (Hv : valid_scalar c) by (unfold valid_scalar; lia).
    destruct (uq_esc c X Hv) as (v & mb & c0 & tl & E & H1 & H2 & Hu & Ha).
    exists v, mb, c0, tl. repeat split; auto. rewrite Ha. unfold encode_rune. rewrite Ec. reflexivity.
  - destruct (decode_rune (c :: s')) as [r w] eqn:Hd.
    destruct (Nat.eqb w 1 && (r =? rune_error)) eqn:Ebad.
    + (* an invalid byte *)
      exists [c], s', (92 :: 120 :: hex2 c). cbn [drop app]. split; [reflexivity|]. split; [discriminate|].
      split; [reflexivity|]. intro X. exists c, false, 92, (120 :: hex2 c ++ X).
      repeat split; try discriminate; [apply uq_badbyte; exact Hc|].
      unfold appended. cbn [negb orb]. rewrite orb_true_r. reflexivity.
    + assert (Hnb : ~ (r = rune_error /\ w = 1%nat)).
      { intros [-> ->]. cbn in Ebad. discriminate. }
      destruct (decode_rune_inv (c :: s') r w ltac:(discriminate) Hd Hnb) as (Hv & Hlen & Hs).
      exists (encode_rune r), (drop w (c :: s')), (esc_rune r).
      split; [exact Hs|]. split.
      { destruct (encode_rune_len_pos r Hv) as (tl & c0 & E). rewrite E. discriminate. }
      split; [reflexivity|]. intro X.
      destruct (uq_esc r X Hv) as (v & mb & c0 & tl & E & H1 & H2 & Hu & Ha).
      exists v, mb, c0, tl. repeat split; auto.
Qed.

Theorem unq_loop_quote_go : forall n s, (length s <= n)%nat -> bytes s ->
  forall f fuel acc X, (length s <= f)%nat -> (length (quote_go f s) < fuel)%nat ->
  unq_loop fuel (quote_go f s ++ 34 :: X) acc = Some (acc ++ s, X).
Proof.
  induction n as [|n IH]; intros s Hn Hb f fuel acc X Hf Hfuel.
  - destruct s; [|cbn in Hn; lia]. destruct f; cbn [quote_go app]; destruct fuel; try lia;
      cbn [unq_loop N.eqb Pos.eqb]; rewrite app_nil_r; reflexivity.
  - destruct s as [|c s'].
    { destruct f; cbn [quote_go app]; destruct fuel; try lia; cbn [unq_loop N.eqb Pos.eqb]; rewrite app_nil_r; reflexivity. }
    destruct f as [|f]; [cbn in Hf; lia|].
    destruct (quote_step f c s' Hb) as (u & rest & piece & Hs & Hu & Hq & Hp).
    rewrite Hq in *. rewrite <- app_assoc.
    destruct (Hp (quote_go f rest ++ 34 :: X)) as (v & mb & c0 & tl & E & H1 & H2 & Huq & Ha).
    assert (Hrest : rest = drop (length u) (c :: s')) by (rewrite Hs; symmetry; apply drop_app_length).
    assert (Hlu : (1 <= length u)%nat) by (destruct u; [congruence|cbn; lia]).
    assert (Hlr : (length rest <= n)%nat).
    { rewrite Hrest. pose proof (length_drop_le (length u) (c :: s')). cbn [length] in *. lia. }
    assert (Hlf : (length rest <= f)%nat).
    { rewrite Hrest. pose proof (length_drop_le (length u) (c :: s')). cbn [length] in *. lia. }
    destruct fuel as [|fuel]; [lia|].
    cbn [unq_loop]. rewrite E. replace (c0 =? 34) with false by lia. rewrite <- E, Huq.
    replace (c0 =? 10) with false by lia.
    change (if (v <? 128) || negb mb then [v] else encode_rune v) with (appended v mb). rewrite Ha.
    rewrite IH; [rewrite <- app_assoc, <- Hs; reflexivity|exact Hlr| |exact Hlf|].
    + rewrite Hrest. apply bytes_drop. exact Hb.
    + rewrite app_length in Hfuel. assert (1 <= length piece)%nat; [|lia].
      destruct piece; [|cbn; lia]. cbn [app] in E. specialize (Hp []). destruct Hp as (? & ? & ? & ? & Hp & _). discriminate.
Qed.

(* ------------------------------------------------------------------ *)
(* the path without escape sequences agrees with the general one        *)
(* ------------------------------------------------------------------ *)

Lemma unq_loop_plain Y : forall body, utf8_valid body = true ->
  ~ In 34 body -> ~ In 92 body -> ~ In 10 body ->
  forall fuel acc, (length body < fuel)%nat -> unq_loop fuel (body ++ 34 :: Y) acc = Some (acc ++ body, Y).
Proof.
  apply (utf8_valid_ind (fun body => ~ In 34 body -> ~ In 92 body -> ~ In 10 body ->
    forall fuel acc, (length body < fuel)%nat -> unq_loop fuel (body ++ 34 :: Y) acc = Some (acc ++ body, Y))).
  - intros _ _ _ fuel acc Hf. destruct fuel; [lia|]. cbn [app unq_loop N.eqb Pos.eqb]. rewrite app_nil_r. reflexivity.
  - intros r B Hv HB IH H34 H92 H10 fuel acc Hf.
    destruct (encode_rune_shape r Hv) as (c0 & tl & E & _ & _ & _ & Hiff & Hsm & _).
    assert (Hin : forall x, In x (encode_rune r) -> In x (encode_rune r ++ B)) by (intros; apply in_or_app; auto).
    assert (HinB : forall x, In x B -> In x (encode_rune r ++ B)) by (intros; apply in_or_app; auto).
    rewrite app_length in Hf. destruct fuel as [|fuel]; [lia|].
    assert (Hl : (1 <= length (encode_rune r))%nat) by (rewrite E; cbn; lia).
    assert (Hu : exists mb, unquote_char (encode_rune r ++ B ++ 34 :: Y) = Some (r, mb, B ++ 34 :: Y) /\ appended r mb = encode_rune r).
    { destruct (N.ltb_spec r 128) as [Hlt|Hge].
      - destruct (Hsm Hlt) as [-> ->]. rewrite E in *. exists false. cbn [app]. split.
        + unfold unquote_char.
          replace (r =? 34) with false by (destruct (N.eqb_spec r 34); [subst; exfalso; apply H34; left; reflexivity|reflexivity]).
          replace (128 <=? r) with false by lia.
          replace (r =? 92) with false by (destruct (N.eqb_spec r 92); [subst; exfalso; apply H92; left; reflexivity|reflexivity]).
          reflexivity.
        + unfold appended. replace (r <? 128) with true by lia. reflexivity.
      - destruct (uq_raw_multibyte r (B ++ 34 :: Y) Hv Hge) as (c1 & tl1 & E1 & H1 & Hu). exists true. split; [exact Hu|].
        unfold appended. replace (r <? 128) with false by lia. reflexivity. }
    destruct Hu as (mb & Hu & Ha).
    rewrite <- app_assoc. rewrite E at 1. cbn [app unq_loop].
    replace (c0 =? 34) with false by (destruct (N.eqb_spec c0 34); [subst; exfalso; apply H34, Hin; rewrite E; left; reflexivity|reflexivity]).
    change (c0 :: tl ++ B ++ 34 :: Y) with ((c0 :: tl) ++ B ++ 34 :: Y). rewrite <- E, Hu.
    replace (c0 =? 10) with false by (destruct (N.eqb_spec c0 10); [subst; exfalso; apply H10, Hin; rewrite E; left; reflexivity|reflexivity]).
    change (if (r <? 128) || negb mb then [r] else encode_rune r) with (appended r mb). rewrite Ha. rewrite IH; [rewrite app_assoc; reflexivity| | | |lia]; intro H; [apply H34|apply H92|apply H10]; auto.
Qed.

Lemma index_byte_split c l e : index_byte c l = Some e ->
  l = take e l ++ c :: drop (S e) l /\ ~ In c (take e l).
Proof.
  revert e; induction l as [|x l IH]; intros e H; cbn [index_byte] in H; [discriminate|].
  destruct (N.eqb_spec x c) as [->|Hne].
  - inversion H; subst. cbn. auto.
  - destruct (index_byte c l) as [i|] eqn:Ei; [|discriminate]. inversion H; subst.
    destruct (IH i eq_refl) as [H1 H2]. cbn [take drop app]. split; [f_equal; exact H1|].
    intros [Hx|Hx]; [congruence|auto].
Qed.
Lemma index_byte_some c l X : exists e, index_byte c (l ++ c :: X) = Some e.
Proof.
  induction l as [|x l [e IH]]; cbn [app index_byte].
  - rewrite N.eqb_refl. eauto.
  - destruct (x =? c); [eauto|]. rewrite IH. eauto.
Qed.

Lemma contains_false s c : contains s c = false -> ~ In c s.
Proof.
  unfold contains. intros H Hin. assert (existsb (N.eqb c) s = true); [|congruence].
  apply existsb_exists. exists c. split; [exact Hin|apply N.eqb_refl].
Qed.

(* ------------------------------------------------------------------ *)
(* Unquote (Quote s) = s                                               *)
(* ------------------------------------------------------------------ *)

Theorem unquote_quote (s : bstr) : bytes s -> go_unquote (po_go_quote s) = Ok s.
Proof.
  intro Hb. unfold po_go_quote, go_unquote.
  set (rest1 := quote_body s ++ [34]).
  assert (Hlen : Nat.ltb (length (34 :: rest1)) 2 = false).
  { apply PeanoNat.Nat.ltb_ge. subst rest1. cbn [length]. rewrite app_length. cbn. lia. }
  rewrite Hlen. cbn [N.eqb Pos.eqb].
  assert (Hgen : unq_loop (S (length rest1)) rest1 [] = Some (s, [])).
  { subst rest1. unfold quote_body.
    rewrite (unq_loop_quote_go (length s) s (le_n _) Hb (length s) _ [] [] (le_n _)); [reflexivity|].
    rewrite app_length. cbn. lia. }
  destruct (index_byte_some 34 (quote_body s) []) as [e He]. fold rest1 in He. rewrite He.
  destruct (index_byte_split 34 rest1 e He) as [Hsplit Hno].
  destruct (negb (contains (take e rest1) 92) && negb (contains (take e rest1) 10) && utf8_valid (take e rest1)) eqn:Efast.
  - apply andb_true_iff in Efast. destruct Efast as [Efast Hvalid]. apply andb_true_iff in Efast. destruct Efast as [E92 E10].
    apply negb_true_iff in E92, E10.
    pose proof (unq_loop_plain (drop (S e) rest1) (take e rest1) Hvalid Hno (contains_false _ _ E92) (contains_false _ _ E10)
                  (S (length rest1)) []) as Hp.
    rewrite <- Hsplit in Hp. rewrite Hgen in Hp.
    assert (Hl : (length (take e rest1) < S (length rest1))%nat).
    { rewrite Hsplit at 2. rewrite app_length. lia. }
    specialize (Hp Hl). change ([] ++ take e rest1) with (take e rest1) in Hp.
    assert (H1 : s = take e rest1) by congruence. assert (H2 : drop (S e) rest1 = []) by congruence.
    rewrite H2, H1. reflexivity.
  - rewrite Hgen. reflexivity.
Qed.

(* ------------------------------------------------------------------ *)
(* writer.quo / scanner.quo                                            *)
(* ------------------------------------------------------------------ *)

(* the scanner standing on the first of the given lines *)
Definition scan_of (ls : list bstr) (e : bool) : scan :=
  {| sc_cur := hd [] ls; sc_rest := tl ls; sc_err := e |}.

Lemma sc_scan_of l ls e : sc_scan (scan_of (l :: ls) e) = (match ls with [] => false | _ => true end, scan_of ls e).
Proof. destruct ls; reflexivity. Qed.

(* no continuation: the input ends, or the next line does not start with a double quote *)
Definition no_quote_next (tail : list bstr) : Prop :=
  match tail with [] => True | l :: _ => match l with 34 :: _ => False | _ => True end end.

Lemma trim_left_quote m : trim_left (34 :: m) = 34 :: m.
Proof. reflexivity. Qed.
Lemma trim_space_quoted m : trim_space (32 :: 34 :: m ++ [34]) = 34 :: m ++ [34].
Proof.
  unfold trim_space.
  change (trim_left (32 :: 34 :: m ++ [34])) with (34 :: m ++ [34]).
  replace (rev (34 :: m ++ [34])) with (34 :: rev m ++ [34]) by (cbn [rev]; rewrite rev_app_distr; reflexivity).
  change (trim_left (34 :: rev m ++ [34])) with (34 :: rev m ++ [34]).
  cbn [rev]. rewrite rev_app_distr, rev_involutive. reflexivity.
Qed.

Lemma is_prefix_app p s : is_prefix p (p ++ s) = true.
Proof. induction p as [|c p IH]; cbn [is_prefix app]; [destruct s; reflexivity|]. rewrite N.eqb_refl. exact IH. Qed.

Lemma sc_unquote_quote v s : bytes v -> sc_unquote (po_go_quote v) s = Ok (v, s).
Proof. intro H. unfold sc_unquote. rewrite unquote_quote by exact H. reflexivity. Qed.

(* continuation lines *)
Lemma sc_quo_more_lines : forall pieces r tail e fuel l0,
  Forall bytes pieces -> no_quote_next tail -> (length pieces + length tail < fuel)%nat ->
  sc_quo_more fuel r (scan_of (l0 :: map po_go_quote pieces ++ tail) e) = Ok (r ++ concat pieces, scan_of tail e).
Proof.
  induction pieces as [|p ps IH]; intros r tail e fuel l0 Hb Hq Hf.
  - cbn [map app concat]. rewrite app_nil_r. destruct fuel as [|fuel]; [lia|]. cbn [sc_quo_more].
    rewrite sc_scan_of. destruct tail as [|t tail]; [reflexivity|].
    cbn [negb]. cbn [scan_of hd sc_cur]. cbn [no_quote_next] in Hq.
    destruct t as [|c t]; [reflexivity|]. destruct (N.eq_dec c 34) as [->|Hne]; [contradiction|].
    destruct c as [|p]; [reflexivity|]. do 6 (destruct p as [p|p|]; try reflexivity). congruence.
  - cbn [map app concat]. destruct fuel as [|fuel]; [lia|]. cbn [sc_quo_more]. rewrite sc_scan_of. cbn [negb].
    cbn [scan_of hd sc_cur]. unfold po_go_quote at 1. fold (po_go_quote p).
    inversion Hb as [|? ? Hp Hps]; subst.
    rewrite sc_unquote_quote by exact Hp. cbn [bind].
    change {| sc_cur := po_go_quote p; sc_rest := tl (po_go_quote p :: map po_go_quote ps ++ tail); sc_err := e |}
      with (scan_of (po_go_quote p :: map po_go_quote ps ++ tail) e).
    rewrite IH; [rewrite <- app_assoc; reflexivity|exact Hps|exact Hq|cbn [length] in Hf; lia].
Qed.

Lemma concat_split_nl : forall s cur, concat (split_nl cur s) = cur ++ s.
Proof.
  induction s as [|c s IH]; intro cur; cbn [split_nl].
  - destruct cur; cbn; rewrite ?app_nil_r; reflexivity.
  - destruct (c =? 10) eqn:E.
    + cbn [concat]. rewrite IH. apply N.eqb_eq in E. subst. rewrite <- app_assoc. reflexivity.
    + rewrite IH, <- app_assoc. reflexivity.
Qed.
Lemma bytes_app a c : bytes a -> bytes c -> bytes (a ++ c).
Proof. intros Ha Hc. unfold bytes. apply Forall_app. split; assumption. Qed.
Lemma bytes_split_nl : forall s cur, bytes cur -> bytes s -> Forall bytes (split_nl cur s).
Proof.
  induction s as [|c s IH]; intros cur Hc Hs; cbn [split_nl].
  - destruct cur; [constructor|]. constructor; [exact Hc|constructor].
  - inversion Hs as [|? ? Hc0 Hs0]; subst. destruct (c =? 10).
    + constructor.
      * apply bytes_app; [exact Hc|]. constructor; [lia|constructor].
      * apply IH; [constructor|exact Hs0].
    + apply IH; [|exact Hs0]. apply bytes_app; [exact Hc|]. constructor; [exact Hc0|constructor].
Qed.

Lemma trim_space_quoted0 m : trim_space (34 :: m ++ [34]) = 34 :: m ++ [34].
Proof.
  unfold trim_space.
  change (trim_left (34 :: m ++ [34])) with (34 :: m ++ [34]).
  replace (rev (34 :: m ++ [34])) with (34 :: rev m ++ [34]) by (cbn [rev]; rewrite rev_app_distr; reflexivity).
  change (trim_left (34 :: rev m ++ [34])) with (34 :: rev m ++ [34]).
  cbn [rev]. rewrite rev_app_distr, rev_involutive. reflexivity.
Qed.

(* scanner.quo with the reader's prefix R reads what writer.quo wrote with the prefix R ++ sp, sp = "" or " "
   (Parse reads "msgctxt" / "msgid" / "msgid_plural" where the writer wrote "msgctxt " ...; "msgstr " and
   "msgstr[i] " are the same on both sides) *)
Theorem sc_quo_po_quo (R sp val : bstr) (tail : list bstr) (e : bool) :
  sp = [] \/ sp = [32] -> bytes val -> no_quote_next tail ->
  sc_quo R (scan_of (po_quo (R ++ sp) val ++ tail) e) = Ok (val, scan_of tail e).
Proof.
  intros Hsp Hb Hq. unfold po_quo.
  assert (Ht : forall m, trim_space (sp ++ 34 :: m ++ [34]) = 34 :: m ++ [34]).
  { intro m. destruct Hsp as [-> | ->]; [apply trim_space_quoted0|apply trim_space_quoted]. }
  destruct (negb (contains val 10)) eqn:En.
  - cbn [app]. unfold sc_quo, sc_prefix, sc_txt. cbn [scan_of hd sc_cur].
    rewrite <- app_assoc, is_prefix_app, drop_app_length. unfold po_go_quote at 1.
    rewrite Ht. fold (po_go_quote val). rewrite sc_unquote_quote by exact Hb. cbn [bind].
    pose proof (sc_quo_more_lines [] val tail e (S (length (sc_rest (scan_of ((R ++ sp ++ po_go_quote val) :: tail) e))))
                  (R ++ sp ++ po_go_quote val) (Forall_nil _) Hq) as H.
    cbn [map app concat length scan_of tl sc_rest] in H. rewrite app_nil_r in H.
    apply H. lia.
  - cbn [app]. unfold sc_quo, sc_prefix, sc_txt. cbn [scan_of hd sc_cur].
    rewrite <- app_assoc, is_prefix_app, drop_app_length.
    change [34; 34] with (34 :: [] ++ [34]). rewrite Ht. cbn [app].
    assert (Hu : forall s, sc_unquote [34; 34] s = Ok ([], s)) by reflexivity. rewrite Hu. cbn [bind].
    pose proof (sc_quo_more_lines (split_nl [] val) [] tail e
                  (S (length (sc_rest (scan_of ((R ++ sp ++ [34; 34]) :: map po_go_quote (split_nl [] val) ++ tail) e))))
                  (R ++ sp ++ [34; 34]) (bytes_split_nl val [] (Forall_nil _) Hb) Hq) as H.
    rewrite concat_split_nl in H. cbn [app] in H. apply H.
    cbn [scan_of tl sc_rest]. rewrite app_length, map_length. lia.
Qed.

(* a field that is not there: the line carries another keyword *)
Lemma sc_quo_absent R s : sc_prefix R s = false -> sc_quo R s = Ok ([], s).
Proof. intro H. unfold sc_quo. rewrite H. reflexivity. Qed.

(* ------------------------------------------------------------------ *)
(* the quoted fields of a message                                      *)
(* ------------------------------------------------------------------ *)

(* the message is followed by a blank line (File.WriteTo writes one) or by the end of the input *)
Definition blank_next (tail : list bstr) : Prop := match tail with [] => True | l :: _ => l = [] end.

Lemma blank_no_quote tail : blank_next tail -> no_quote_next tail.
Proof. destruct tail as [|l t]; cbn; [auto|]. intros ->. exact I. Qed.
Lemma blank_no_prefix P tail e : P <> [] -> blank_next tail -> sc_prefix P (scan_of tail e) = false.
Proof.
  intros HP H. unfold sc_prefix. destruct tail as [|l t]; cbn [scan_of hd sc_cur]; [|cbn in H; subst l];
    destruct P; [congruence|reflexivity|congruence|reflexivity].
Qed.

Lemma po_quo_first P val : exists x more, po_quo P val = (P ++ x) :: more.
Proof. unfold po_quo. destruct (negb (contains val 10)); eauto. Qed.

(* writer.opt / scanner.quo *)
Lemma sc_quo_po_opt (R val : bstr) (tail : list bstr) (e : bool) :
  bytes val -> no_quote_next tail -> (val = [] -> sc_prefix R (scan_of tail e) = false) ->
  sc_quo R (scan_of (po_opt (R ++ [32]) val ++ tail) e) = Ok (val, scan_of tail e).
Proof.
  intros Hb Hq Habs. unfold po_opt. destruct val as [|c v].
  - cbn [app]. apply sc_quo_absent. auto.
  - apply sc_quo_po_quo; auto.
Qed.

Lemma msgstr_n_nonempty i : msgstr_n i <> [].
Proof. unfold msgstr_n, p_msgstr_open. cbn [app]. discriminate. Qed.
Lemma msgstr_n_not_singular i x more e : sc_prefix p_msgstr (scan_of ((msgstr_n i ++ x) :: more) e) = false.
Proof. reflexivity. Qed.

(* scanner.msgstr's loop over msgstr[i] *)
Lemma sc_msgstr_n_plural : forall vals acc tail e fuel,
  Forall bytes vals -> blank_next tail -> (length vals < fuel)%nat ->
  sc_msgstr_n fuel acc (scan_of (po_plural_from (length acc) vals ++ tail) e) = Ok (acc ++ vals, scan_of tail e).
Proof.
  induction vals as [|v vs IH]; intros acc tail e fuel Hb Ht Hf; destruct fuel as [|fuel]; try (cbn in Hf; lia).
  - cbn [po_plural_from app sc_msgstr_n]. rewrite blank_no_prefix by (auto using msgstr_n_nonempty). rewrite app_nil_r. reflexivity.
  - inversion Hb as [|? ? Hv Hvs]; subst. cbn [po_plural_from sc_msgstr_n]. rewrite <- app_assoc.
    destruct (po_quo_first (msgstr_n (length acc)) v) as (x & more & Ef).
    assert (Hpre : sc_prefix (msgstr_n (length acc)) (scan_of (po_quo (msgstr_n (length acc)) v ++ po_plural_from (S (length acc)) vs ++ tail) e) = true).
    { rewrite Ef. unfold sc_prefix. cbn [app scan_of hd sc_cur]. apply is_prefix_app. }
    rewrite Hpre.
    pose proof (sc_quo_po_quo (msgstr_n (length acc)) [] v (po_plural_from (S (length acc)) vs ++ tail) e (or_introl eq_refl) Hv) as Hq.
    rewrite app_nil_r in Hq. rewrite Hq.
    + cbn [bind]. replace (S (length acc)) with (length (acc ++ [v])) by (rewrite app_length; cbn; lia).
      rewrite IH; [rewrite <- app_assoc; reflexivity|exact Hvs|exact Ht|cbn [length] in Hf; lia].
    + destruct vs as [|v2 vs2]; [cbn [po_plural_from app]; apply blank_no_quote; exact Ht|].
      cbn [po_plural_from]. destruct (po_quo_first (msgstr_n (S (length acc))) v2) as (x2 & more2 & E2). rewrite E2.
      cbn [app no_quote_next]. unfold msgstr_n, p_msgstr_open. cbn [app]. exact I.
Qed.

Lemma po_plural_from_length vals : forall i, (length vals <= length (po_plural_from i vals))%nat.
Proof.
  induction vals as [|v vs IH]; intro i; cbn [po_plural_from length]; [lia|].
  destruct (po_quo_first (msgstr_n i) v) as (x & more & E). rewrite E. cbn [app length]. rewrite app_length.
  specialize (IH (S i)). lia.
Qed.

Lemma sc_msgstr_plural vals tail e : vals <> [] -> Forall bytes vals -> blank_next tail ->
  sc_msgstr (scan_of (po_plural_from 0 vals ++ tail) e) = Ok (vals, scan_of tail e).
Proof.
  intros Hne Hvals Ht. unfold sc_msgstr. destruct vals as [|v vs]; [congruence|].
  assert (Hnp : sc_prefix p_msgstr (scan_of (po_plural_from 0 (v :: vs) ++ tail) e) = false).
  { cbn [po_plural_from]. destruct (po_quo_first (msgstr_n 0) v) as (x & more & E). rewrite E. reflexivity. }
  rewrite Hnp.
  pose proof (sc_msgstr_n_plural (v :: vs) [] tail e (S (S (length (sc_rest (scan_of (po_plural_from 0 (v :: vs) ++ tail) e))))) Hvals Ht) as H.
  cbn [app] in H. change (length (@nil bstr)) with 0%nat in H. apply H.
  cbn [scan_of sc_rest]. pose proof (po_plural_from_length (v :: vs) 0) as Hlen.
  destruct (po_plural_from 0 (v :: vs)) as [|l0 ls] eqn:El; [cbn in Hlen; lia|].
  cbn [app tl length] in *. rewrite app_length. lia.
Qed.

Definition norm_str (m : po_fields) : list bstr :=
  match pf_id_plural m with
  | [] => [hd [] (pf_str m)]
  | _ => match pf_str m with [] => [[]] | l => l end
  end.

Definition fields_bytes (m : po_fields) : Prop :=
  bytes (pf_ctxt m) /\ bytes (pf_id m) /\ bytes (pf_id_plural m) /\ Forall bytes (pf_str m).

(* what Message.WriteTo writes for msgctxt / msgid / msgid_plural / msgstr is what Parse reads back *)
Theorem po_fields_roundtrip (m : po_fields) (tail : list bstr) (e : bool) :
  fields_bytes m -> blank_next tail ->
  po_read_fields (scan_of (po_write_fields m ++ tail) e) =
  Ok ({| pf_ctxt := pf_ctxt m; pf_id := pf_id m; pf_id_plural := pf_id_plural m; pf_str := norm_str m |}, scan_of tail e).
Proof.
  intros (Hc & Hi & Hp & Hs) Ht. unfold po_read_fields, po_write_fields.
  set (strl := match pf_id_plural m with [] => po_msgstr (pf_str m) | _ => po_plural (pf_str m) end).
  assert (Hstr_first : exists x more, strl = ((b "msgstr") ++ x) :: more).
  { subst strl. destruct (pf_id_plural m).
    - unfold po_msgstr.
      assert (Hx : forall v, exists x more, po_quo p_msgstr v = (b "msgstr" ++ x) :: more).
      { intro v. destruct (po_quo_first p_msgstr v) as (x & more & E). rewrite E. exists (32 :: x), more. reflexivity. }
      destruct (pf_str m) as [|v ?]; apply Hx.
    - unfold po_plural. destruct (pf_str m) as [|v vs].
      + destruct (po_quo_first (msgstr_n 0) []) as (x & more & E). rewrite E. unfold msgstr_n, p_msgstr_open. cbn [app]. eexists; eexists; reflexivity.
      + cbn [po_plural_from]. destruct (po_quo_first (msgstr_n 0) v) as (x & more & E). rewrite E. unfold msgstr_n, p_msgstr_open. cbn [app]. eexists; eexists; reflexivity. }
  destruct Hstr_first as (sx & smore & Estr).
  rewrite <- !app_assoc.
  (* msgctxt *)
  change p_msgctxt with (r_msgctxt ++ [32]).
  rewrite sc_quo_po_opt; [cbn [bind]|exact Hc| |].
  2:{ destruct (po_quo_first p_msgid (pf_id m)) as (x & more & E). rewrite E. exact I. }
  2:{ intros _. destruct (po_quo_first p_msgid (pf_id m)) as (x & more & E). rewrite E. reflexivity. }
  (* msgid *)
  change p_msgid with (r_msgid ++ [32]).
  rewrite sc_quo_po_quo; [cbn [bind]|right; reflexivity|exact Hi|].
  2:{ destruct (pf_id_plural m) as [|c0 ip] eqn:Eip.
      - cbn [po_opt app]. rewrite Estr. exact I.
      - unfold po_opt. destruct (po_quo_first p_msgid_plural (c0 :: ip)) as (x & more & E). rewrite E. exact I. }
  (* msgid_plural *)
  change p_msgid_plural with (r_msgid_plural ++ [32]).
  rewrite sc_quo_po_opt; [cbn [bind]|exact Hp| |].
  2:{ rewrite Estr. exact I. }
  2:{ intros _. rewrite Estr. reflexivity. }
  (* msgstr *)
  subst strl. unfold norm_str. destruct (pf_id_plural m) as [|c0 ip].
  - unfold sc_msgstr, po_msgstr.
    assert (Hv : bytes (hd [] (pf_str m))) by (destruct (pf_str m); [constructor|inversion Hs; assumption]).
    replace (match pf_str m with [] => po_quo p_msgstr [] | v :: _ => po_quo p_msgstr v end) with (po_quo p_msgstr (hd [] (pf_str m)))
      by (destruct (pf_str m); reflexivity).
    destruct (po_quo_first p_msgstr (hd [] (pf_str m))) as (x & more & E).
    assert (Hpre : sc_prefix p_msgstr (scan_of (po_quo p_msgstr (hd [] (pf_str m)) ++ tail) e) = true).
    { rewrite E. unfold sc_prefix. cbn [app scan_of hd sc_cur]. apply is_prefix_app. }
    rewrite Hpre.
    pose proof (sc_quo_po_quo p_msgstr [] (hd [] (pf_str m)) tail e (or_introl eq_refl) Hv (blank_no_quote _ Ht)) as Hq.
    rewrite app_nil_r in Hq. rewrite Hq. reflexivity.
  - unfold po_plural. destruct (pf_str m) as [|v0 vs0].
    + pose proof (sc_msgstr_plural [[]] tail e ltac:(discriminate) ltac:(repeat constructor) Ht) as H.
      cbn [po_plural_from] in H. rewrite app_nil_r in H. rewrite H. reflexivity.
    + pose proof (sc_msgstr_plural (v0 :: vs0) tail e ltac:(discriminate) Hs Ht) as H.
      rewrite H. reflexivity.
Qed.

End Po.
