(* C19, parse half, scanner: where the error item of the two lexical fault classes stands.

   [stray_brace]: for EVERY scanner configuration l in the text state (whatever valid prefix led to
   it), if the unread input is a run of plain ASCII bytes (no '/', '{', '}') followed by '}', the
   scan ends there with one more item: the error item, positioned just after the brace.
   [illegal_char]: for every configuration inside a tag, if the unread input is white space followed
   by an ASCII character that starts no token, the scan ends with the error item positioned just
   after that character.  With Proofs/ErrTokProofs.line_after_byte: the line computed from the
   error item's position is the line of the offending character. *)
From Soy Require Import Model.Bytes Model.Utf8 Model.Outcome Model.Token Model.Lexer Generated.Tables Spec.ErrPos
  Model.Interp Proofs.ErrTokProofs.
From Coq Require Import ZifyBool ZifyNat ZifyN Lia.
Open Scope Z_scope.

Lemma drop_cons_inv (s : bstr) : forall n c r, drop n s = c :: r -> drop (S n) s = r /\ (n < length s)%nat.
Proof.
  induction s as [|x t IH]; intros n c r H.
  - destruct n; discriminate.
  - destruct n as [|n].
    + cbn [drop] in H. inversion H; subst. split; [reflexivity | cbn; lia].
    + cbn [drop] in H. destruct (IH n c r H) as [H1 H2]. split; [|cbn; lia].
      change (drop (S (S n)) (x :: t)) with (drop (S n) t). exact H1.
Qed.

Lemma drop_app_length (a c : bstr) : drop (length a) (a ++ c) = c.
Proof. induction a as [|x r IH]; cbn [length app drop]; [destruct c; reflexivity|]. exact IH. Qed.

Section Scan.
Variable ul ud : Z -> bool.
Variable inp : bstr.
Notation ilen := (Z.of_nat (length inp)).
Variable base : Z.            (* l.base: 0 for lex / lexExpr, the offset in the enclosing file for lexExprAt *)
Hypothesis Hbase : 0 <= base.

(* reading one ASCII byte *)
Lemma next_ascii l c r :
  0 <= l_pos l -> drop (Z.to_nat (l_pos l)) inp = c :: r -> (c < 128)%N ->
  next inp ilen l = Ok (Z.of_N c, {| l_pos := l_pos l + 1; l_start := l_start l; l_width := 1; l_dd := l_dd l;
                                     l_last := l_last l; l_out := l_out l; l_ticks := l_ticks l + 1 |})
  /\ drop (Z.to_nat (l_pos l + 1)) inp = r.
Proof.
  intros Hp Hd Hc. destruct (drop_cons_inv _ _ _ _ Hd) as [Hd' Hlt].
  unfold next.
  destruct (ilen <=? l_pos l) eqn:E; [lia|]. destruct (l_pos l <? 0) eqn:E2; [lia|].
  rewrite Hd. unfold decode_rune. apply N.ltb_lt in Hc. rewrite Hc. cbn.
  split; [reflexivity|]. replace (Z.to_nat (l_pos l + 1)) with (S (Z.to_nat (l_pos l))) by lia. exact Hd'.
Qed.

Definition err_item (pos : Z) (cls : bstr) : tok := {| t_typ := itemError; t_pos := Z.to_N pos; t_val := cls |}.

(* ---------------- stray closing brace in text ---------------- *)
Definition plain (c : N) : Prop := (c < 128)%N /\ c <> 47%N /\ c <> 123%N /\ c <> 125%N.

Lemma lex_text_loop_stray txt : forall fuel r0 l rest,
  Forall plain txt -> 0 <= l_pos l -> drop (Z.to_nat (l_pos l)) inp = txt ++ 125%N :: rest ->
  (length txt < fuel)%nat ->
  exists l', lex_text_loop inp ilen base fuel r0 l = Ok (LDone, l') /\
             l_out l' = err_item (base + l_pos l + Z.of_nat (length txt) + 1) e_close_brace :: l_out l.
Proof.
  induction txt as [|c t IH]; intros fuel r0 l rest Hpl Hp Hd Hf.
  - destruct fuel as [|f]; [lia|]. cbn [lex_text_loop app] in *.
    destruct (next_ascii l 125%N rest Hp Hd ltac:(lia)) as [Hn _]. rewrite Hn. cbn [bind].
    change (Z.of_N 125 =? 47) with false. cbn iota. cbn [bind].
    change (Z.of_N 125 =? 123) with false. change (Z.of_N 125 =? 125) with true. cbn iota.
    unfold errorf. cbn [l_pos]. destruct (base + (l_pos l + 1) <? 0) eqn:E; [lia|].
    eexists. split; [reflexivity|]. cbn [l_out length]. f_equal; unfold err_item; f_equal; lia.
  - inversion Hpl as [|? ? (Hc1 & Hc2 & Hc3 & Hc4) Hpl']; subst.
    destruct fuel as [|f]; [cbn in Hf; lia|]. cbn [lex_text_loop app] in *.
    destruct (next_ascii l c (t ++ 125%N :: rest) Hp Hd Hc1) as [Hn Hd1]. rewrite Hn. cbn [bind].
    assert (H47 : (Z.of_N c =? 47) = false) by lia.
    assert (H123 : (Z.of_N c =? 123) = false) by lia.
    assert (H125 : (Z.of_N c =? 125) = false) by lia.
    assert (Heof : (Z.of_N c =? eof) = false) by (unfold eof; lia).
    rewrite H47. cbn iota. cbn [bind]. rewrite H123, H125, Heof.
    set (l1 := {| l_pos := l_pos l + 1; l_start := l_start l; l_width := 1; l_dd := l_dd l;
                  l_last := l_last l; l_out := l_out l; l_ticks := l_ticks l + 1 |}) in *.
    assert (Hp1 : 0 <= l_pos l1) by (unfold l1; cbn [l_pos]; lia).
    assert (Hf1 : (length t < f)%nat) by (cbn [length] in Hf; lia).
    destruct (IH f (Z.of_N c) l1 rest Hpl' Hp1 Hd1 Hf1) as (l' & Hr & Ho).
    exists l'. split; [exact Hr|]. rewrite Ho. unfold l1. cbn [l_out l_pos length]. f_equal; unfold err_item; f_equal; lia.
Qed.

(* the scan from any text-state configuration: it stops at the brace, the error item is the last item sent *)
Theorem stray_brace fuel l txt rest :
  Forall plain txt -> 0 <= l_pos l -> drop (Z.to_nat (l_pos l)) inp = txt ++ 125%N :: rest ->
  exists l', run ul ud inp ilen base (S fuel) LText l = Ok l' /\
             l_out l' = err_item (base + l_pos l + Z.of_nat (length txt) + 1) e_close_brace :: l_out l.
Proof.
  intros Hpl Hp Hd. cbn [run step]. unfold lex_text.
  assert (Hlen : (length (drop (Z.to_nat (l_pos l)) inp) <= length inp - Z.to_nat (l_pos l))%nat).
  { clear. generalize (Z.to_nat (l_pos l)) as n. intros n. revert n. induction inp as [|x r IH]; intros n; [destruct n; cbn; lia|].
    destruct n; cbn [drop length]; [lia|]. specialize (IH n). destruct r; cbn in *; lia. }
  rewrite Hd, app_length in Hlen. cbn [length] in Hlen.
  destruct (lex_text_loop_stray txt (loop_fuel ilen l) 0 l rest Hpl Hp Hd) as (l' & Hr & Ho).
  { unfold loop_fuel. lia. }
  rewrite Hr. cbn [bind]. exists l'. split; [destruct fuel; reflexivity | exact Ho].
Qed.

(* ---------------- unrecognized character inside a tag ---------------- *)
(* the tests of lexInsideTag, in order, all failing: the character reaches `default:` *)
Definition reaches_default (r : Z) : bool :=
  negb (gen_isSpaceEOL r) && negb (r =? 47) && negb ((r =? 36) || (r =? 46)) && negb (r =? 91) && negb (r =? 93)
  && negb (r =? 63) && negb (r =? 45) && negb (r =? 125) && negb ((48 <=? r) && (r <=? 57))
  && negb (existsb (Z.eqb r) inside_tag_single_syms) && negb (existsb (Z.eqb r) inside_tag_cmp_syms)
  && negb (r =? 61) && negb ((r =? 34) || (r =? 39)) && negb (r =? eof) && negb (r =? 124)
  && negb (gen_isLetterOrUnderscore r) && negb (r =? 44) && negb (r =? 64).

Lemma lex_inside_tag_bad l c rest :
  0 <= l_pos l -> drop (Z.to_nat (l_pos l)) inp = c :: rest -> (c < 128)%N -> reaches_default (Z.of_N c) = true ->
  exists l', lex_inside_tag inp ilen base l = Ok (LDone, l') /\
             l_out l' = err_item (base + l_pos l + 1) e_bad_char :: l_out l.
Proof.
  intros Hp Hd Hc Hr. unfold reaches_default in Hr.
  repeat (apply andb_prop in Hr; destruct Hr as [Hr ?]).
  repeat match goal with H : negb _ = true |- _ => apply negb_true_iff in H end.
  unfold lex_inside_tag. destruct (next_ascii l c rest Hp Hd Hc) as [Hn _]. rewrite Hn. cbn [bind].
  repeat match goal with H : _ = false |- _ => rewrite H; clear H end. cbn iota. cbn [bind].
  unfold errorf. cbn [l_pos]. destruct (base + (l_pos l + 1) <? 0) eqn:E; [lia|].
  eexists. split; [reflexivity|]. cbn [l_out]. f_equal. unfold err_item. f_equal. lia.
Qed.

Definition space_byte (c : N) : Prop := (c < 128)%N /\ gen_isSpaceEOL (Z.of_N c) = true.

Theorem illegal_char ws : forall fuel l c rest,
  Forall space_byte ws -> 0 <= l_pos l ->
  drop (Z.to_nat (l_pos l)) inp = ws ++ c :: rest -> (c < 128)%N -> reaches_default (Z.of_N c) = true ->
  exists l', run ul ud inp ilen base (length ws + S fuel) LInsideTag l = Ok l' /\
             l_out l' = err_item (base + l_pos l + Z.of_nat (length ws) + 1) e_bad_char :: l_out l.
Proof.
  induction ws as [|x t IH]; intros fuel l c rest Hws Hp Hd Hc Hr.
  - cbn [length plus app] in *. cbn [run step].
    destruct (lex_inside_tag_bad l c rest Hp Hd Hc Hr) as (l' & Hl & Ho). rewrite Hl. cbn [bind].
    exists l'. split; [destruct fuel; reflexivity|]. rewrite Ho. f_equal; unfold err_item; f_equal; lia.
  - inversion Hws as [|? ? (Hx & Hsp) Hws']; subst. cbn [length plus app] in *. cbn [run step].
    unfold lex_inside_tag. destruct (next_ascii l x (t ++ c :: rest) Hp Hd Hx) as [Hn Hd1]. rewrite Hn. cbn [bind].
    rewrite Hsp. cbn [bind].
    set (l1 := ignore {| l_pos := l_pos l + 1; l_start := l_start l; l_width := 1; l_dd := l_dd l;
                         l_last := l_last l; l_out := l_out l; l_ticks := l_ticks l + 1 |}).
    assert (Hp1 : 0 <= l_pos l1) by (unfold l1, ignore, set_start; cbn [l_pos]; lia).
    assert (Hd2 : drop (Z.to_nat (l_pos l1)) inp = t ++ c :: rest) by (unfold l1, ignore, set_start; cbn [l_pos]; exact Hd1).
    destruct (IH fuel l1 c rest Hws' Hp1 Hd2 Hc Hr) as (l' & Hl & Ho).
    exists l'. split; [exact Hl|]. rewrite Ho. unfold l1, ignore, set_start. cbn [l_out l_pos length]. f_equal; unfold err_item; f_equal; lia.
Qed.
End Scan.

(* ------------------------------------------------------------------ *)
(* the lines *)
Open Scope N_scope.

(* the line lexer.lineNumber computes from the error item of a stray brace standing at byte offset
   |pre| of the input is the line of that brace: 1 + the number of line feeds before it *)
Theorem stray_brace_line pre post :
  line_at (pre ++ 125 :: post) (N.of_nat (length pre) + 1) = 1 + count_nl pre.
Proof. apply (line_after_byte pre 125 post). discriminate. Qed.

Theorem illegal_char_line pre c post :
  c <> 10 -> line_at (pre ++ c :: post) (N.of_nat (length pre) + 1) = 1 + count_nl pre.
Proof. intros H. apply (line_after_byte pre c post H). Qed.

(* the characters the harness injects reach `default:` *)
Example illegal_chars_reach_default :
  forallb (fun c => reaches_default (Z.of_N c)) [94; 126; 35; 59; 38; 96; 1; 92] = true.
Proof. vm_compute. reflexivity. Qed.
